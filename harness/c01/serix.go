package main

import (
	"bytes"
	"strings"
	"context"
	"encoding/hex"
	"encoding/json"
	"fmt"
	"math/rand"
	"reflect"
	"sync/atomic"
	"time"

	"github.com/iotaledger/hive.go/serializer/v2/serix"
	"verif/harness/internal/sergen"
	"verif/harness/internal/vf"
)

type viol struct {
	fp, what string
	rec      replayRec
}

type stats struct {
	n        map[string]int64
	distinct map[string]map[string]struct{}
	viols    []viol
	notes    []string
	samples  []any
	noted    map[string]bool
	shrunk   map[string]int    // shape/form/symptom -> shrink runs
	lastFP   map[string]string // shape/form/symptom -> last fingerprint
}

func newStats() *stats {
	return &stats{n: map[string]int64{}, distinct: map[string]map[string]struct{}{}, noted: map[string]bool{}, shrunk: map[string]int{}, lastFP: map[string]string{}}
}
func (s *stats) count(k string, n int) { s.n[k] += int64(n) }
func (s *stats) dist(class, key string) {
	m := s.distinct[class]
	if m == nil {
		m = map[string]struct{}{}
		s.distinct[class] = m
	}
	m[key] = struct{}{}
}
func (s *stats) note(key, text string) {
	if !s.noted[key] && len(s.notes) < 8 {
		s.noted[key] = true
		s.notes = append(s.notes, text)
	}
}

// finding is one refuting observation of a case.
type finding struct {
	form    string // bin | json
	symptom string // decode-panic, decode-error, bytes-read, value-mismatch, reencode-differs, nondeterministic, dirty-mismatch
	detail  string
}

var ctx = context.Background()

// callMark, when set (isolating child only), is told "in-call <API name>" before a call into
// hive.go and "harness" after it returned.
var callMark func(string)

func inCall(name string) func() {
	if callMark == nil {
		return func() {}
	}
	callMark("in-call " + name)
	return func() { callMark("harness") }
}

// classifyBudget bounds the number of shrink runs per process.
var classifyBudget = func() *atomic.Int64 { b := new(atomic.Int64); b.Store(6000); return b }()

// opts: validation on/off plus, for top-level shapes that carry them, serix.WithTypeSettings.
func opts(s *sergen.Shape, validation bool) []serix.Option {
	var o []serix.Option
	if validation {
		o = append(o, serix.WithValidation())
	}
	return append(o, sergen.TopOptions(s)...)
}

func safeEncode(api *serix.API, s *sergen.Shape, x any, validation bool) (b []byte, err error, pan any) {
	defer func() {
		if p := recover(); p != nil {
			pan = p
		}
	}()
	defer inCall("Encode")()
	b, err = api.Encode(ctx, x, opts(s, validation)...)
	return
}

func safeDecode(api *serix.API, s *sergen.Shape, b []byte, dst any, validation bool) (n int, err error, pan any) {
	defer func() {
		if p := recover(); p != nil {
			pan = p
		}
	}()
	defer inCall("Decode")()
	n, err = api.Decode(ctx, b, dst, opts(s, validation)...)
	return
}

func safeJSONEncode(api *serix.API, s *sergen.Shape, x any, validation bool, viaMap bool) (b []byte, err error, pan any) {
	defer func() {
		if p := recover(); p != nil {
			pan = p
		}
	}()
	defer inCall("JSONEncode")()
	if viaMap {
		m, e := api.MapEncode(ctx, x, opts(s, validation)...)
		if e != nil {
			return nil, e, nil
		}
		b, err = json.Marshal(m)
		return
	}
	b, err = api.JSONEncode(ctx, x, opts(s, validation)...)
	return
}

func safeJSONDecode(api *serix.API, s *sergen.Shape, b []byte, dst any, validation bool, viaMap bool) (err error, pan any) {
	defer func() {
		if p := recover(); p != nil {
			pan = p
		}
	}()
	defer inCall("JSONDecode")()
	if viaMap {
		m := map[string]any{}
		if e := json.Unmarshal(b, &m); e != nil {
			return e, nil
		}
		return api.MapDecode(ctx, m, dst, opts(s, validation)...), nil
	}
	return api.JSONDecode(ctx, b, dst, opts(s, validation)...), nil
}

func short(s string, n int) string {
	if len(s) > n {
		return s[:n] + "…"
	}
	return s
}

type caseOut struct {
	accepted bool
	bytes    []byte
	findings []finding
}

// check runs the complete oracle on one (shape, value, validation) triple.
// full=false skips the parts that are not needed while shrinking (determinism, dirty, JSON unless asked).
func check(st *stats, u *sergen.Universe, s *sergen.Shape, v *sergen.Val, validation bool, bseed int64, countIt bool) caseOut {
	var out caseOut
	add := func(form, symptom, format string, args ...any) {
		out.findings = append(out.findings, finding{form, symptom, fmt.Sprintf(format, args...)})
	}
	brng := rand.New(rand.NewSource(bseed))
	x := sergen.Build(s, v, brng).Interface()
	if countIt && s.Top != nil {
		st.count("toplevel_with_type_settings_cases", 1)
		st.dist("toplevel_option_kinds", fmt.Sprintf("%s/lp=%d/flag=%v,%v/rules=%v", s.Kind, s.Top.LP, s.Top.R.LexSet, s.Top.R.AutoOrder, s.Top.HasRules))
	}

	// ---------------------------------------------------------------- binary form
	b, err, pan := safeEncode(u.API, s, x, validation)
	// custom Serializables of the static universe return windows into a shared arena: the encoder
	// must not write into the storage behind a Serializable's Encode result
	aliasSeen := map[string]bool{}
	checkArena := func(form, after string) {
		if !u.Static {
			return
		}
		if off, ok := sergen.ArenaIntact(); !ok {
			if !aliasSeen[form] {
				aliasSeen[form] = true
				add(form, "alias/encoder-wrote-into-serializable-backing-array", "after %s the shared arena behind the custom Serializable values is changed at offset %d (slot %d): the encoder appended to / wrote into the slice a Serializable returned", after, off, off/4)
			}
			sergen.ArenaReset()
		}
	}
	checkArena("bin", "Encode")
	if u.Static {
		if countIt && err == nil && pan == nil {
			if t, k := sergen.ArenaCount(s, v); t > 0 {
				st.count("arena_backed_custom_values_encoded", t)
				st.count("arena_backed_custom_map_keys_encoded", k)
			}
		}
	}
	switch {
	case pan != nil:
		if countIt {
			st.count("encoder_panics_not_claimed", 1)
			st.note("encpanic:"+signature(node{s, v, nil}), fmt.Sprintf("observation (no property covers encoder totality): Encode panicked: %v on shape %s", pan, short(s.String(), 200)))
		}
	case err != nil:
		if countIt {
			st.count("rejected_by_encoder", 1)
		}
		if sergen.ProvablyValid(s, v) {
			// every length fits its prefix width, all min/max bounds are met, strings are UTF-8, uint256 in
			// range, and no node has a rule the harness would have to re-implement: the rejection is wrong
			add("bin", "encoder-rejected-valid-value", "Encode rejected a value that the documented layout can express and that meets all its bounds: %v", short(fmt.Sprint(err), 300))
		}
	default:
		out.accepted = true
		out.bytes = b
		if validation && sergen.HasInvalidUTF8(s, v) {
			add("bin", "encoder-accepted-non-utf8-string-under-validation", "Encode with validation accepted a string that is not valid UTF-8 (oracle: unicode/utf8.Valid)")
		}
		if sergen.StringBoundsViolated(s, v, validation) {
			add("bin", "encoder-accepted-string-outside-bounds", "Encode accepted a string / byte slice whose byte length lies outside its min/max bounds")
		}
		if !sergen.Representable(s, v) {
			add("bin", "encoder-accepted-unrepresentable-value", "Encode accepted (%d bytes) a value the documented layout cannot express (a length beyond its prefix width or a uint256 outside [0, 2^256))", len(b))
		}
		b0 := append([]byte{}, b...)
		if countIt {
			st.count("roundtrips_binary", 1)
			st.count("evaluations", 1)
			if sergen.Saturates(s, v) {
				st.count("values_with_documented_time_saturation", 1)
			}
		}
		dst := sergen.New(s)
		n, derr, dpan := safeDecode(u.API, s, b, dst.Interface(), validation)
		if !bytes.Equal(b, b0) {
			add("bin", "decode-mutated-input", "Decode changed the byte slice it was given (first difference at offset %d of %d)", firstDiff(b, b0), len(b))
			copy(b, b0)
		}
		switch {
		case dpan != nil:
			add("bin", "decode-panic", "Encode accepted the value (%d bytes) but Decode panicked: %v", len(b), dpan)
		case derr != nil:
			add("bin", "decode-error", "Encode accepted the value (%d bytes) but Decode failed: %v", len(b), short(derr.Error(), 300))
		default:
			if n != len(b) {
				add("bin", "bytes-read", "Decode reported %d bytes read, Encode produced %d", n, len(b))
			}
			got := sergen.Extract(s, dst.Elem())
			if ok, path := sergen.Equal(s, v, got, sergen.Binary); !ok {
				add("bin", "value-mismatch", "decoded value differs from the original at %s", path)
			} else {
				// byte-level: Encode(Decode(Encode(x))) == Encode(x)
				b2, err2, pan2 := safeEncode(u.API, s, dst.Elem().Interface(), validation)
				if pan2 != nil || err2 != nil {
					add("bin", "reencode-fails", "re-encoding the decoded value failed: %v %v", err2, pan2)
				} else if !bytes.Equal(b, b2) {
					add("bin", "reencode-differs", "Encode(Decode(b)) != b (first difference at offset %d)", firstDiff(b, b2))
				}
			}
		}
		if countIt {
			// determinism under map iteration order: rebuild (new maps, shuffled insertion) and re-encode
			reps := 2
			hasMap := containsMap(s, 0)
			if hasMap {
				reps = 8
			}
			for i := 0; i < reps; i++ {
				x2 := sergen.Build(s, v, rand.New(rand.NewSource(bseed+int64(i)+1))).Interface()
				b2, err2, pan2 := safeEncode(u.API, s, x2, validation)
				if hasMap {
					st.count("determinism_reencodings_with_maps", 1)
				}
				if pan2 != nil || err2 != nil {
					add("bin", "nondeterministic", "the same value was accepted once and then failed to encode: %v %v", err2, pan2)
					break
				}
				if !bytes.Equal(b, b2) {
					add("bin", "nondeterministic", "encoding the same value twice gave different bytes (first difference at offset %d of %d)", firstDiff(b, b2), len(b))
					break
				}
			}
			// dirty destination: a pre-populated value whose containers and optional fields are empty
			if len(out.findings) == 0 {
				dv := sergen.Values(s, brng, 3)[2]
				clearContainers(s, dv)
				dd := sergen.New(s)
				dd.Elem().Set(sergen.Build(s, dv, nil))
				n, derr, dpan := safeDecode(u.API, s, b, dd.Interface(), validation)
				st.count("dirty_destination_decodes", 1)
				if !bytes.Equal(b, b0) {
					add("bin", "decode-mutated-input", "Decode into a pre-populated destination changed the byte slice it was given")
					copy(b, b0)
				}
				if dpan != nil || derr != nil {
					add("bin", "dirty-decode-fails", "decoding into a pre-populated destination failed: %v %v", derr, dpan)
				} else if n != len(b) {
					add("bin", "dirty-bytes-read", "Decode into a pre-populated destination reported %d bytes, %d produced", n, len(b))
				} else if ok, path := sergen.Equal(s, v, sergen.Extract(s, dd.Elem()), sergen.Binary); !ok {
					add("bin", "dirty-mismatch", "decoding into a pre-populated destination (scalars, strings, arrays dirty; containers/optionals empty) differs at %s", path)
				}
			}
		}
		// discipline 1 (caller-owned memory): receive loop into one destination, held results, scribbling (disc.go)
		if len(out.findings) == 0 {
			tries := 1
			if !countIt {
				tries = 4 // shrinking: the wrapper shape draws other follow-up values
			}
			for t := 0; t < tries && len(out.findings) == 0; t++ {
				heldPart(st, u, s, v, b0, validation, rand.New(rand.NewSource(bseed^0x68656c64+int64(t)*7907)), add)
			}
		}
		if countIt && len(out.findings) == 0 {
			encodeOwnership(st, u, s, v, b, b0, validation, bseed, add)
		}
	}

	// ---------------------------------------------------------------- JSON / map form
	checkArena("bin", "Encode (re-encoding / determinism runs)")
	if s.JSONable() && sergen.JSONSafe(s, v) {
		viaMap := bseed&1 == 1
		jb, err, pan := safeJSONEncode(u.API, s, x, validation, viaMap)
		checkArena("json", "MapEncode/JSONEncode")
		switch {
		case pan != nil:
			if countIt {
				st.count("json_encoder_panics_not_claimed", 1)
				st.note("jencpanic:"+signature(node{s, v, nil}), fmt.Sprintf("observation (no property covers encoder totality): JSONEncode panicked: %v on shape %s", pan, short(s.String(), 200)))
			}
		case err != nil:
			if countIt {
				st.count("rejected_by_json_encoder", 1)
			}
		default:
			if countIt {
				st.count("roundtrips_json", 1)
				st.count("evaluations", 1)
			}
			// destination: a pointer to the struct (for a top-level *T shape the conventional
			// new(T); the JSON form has no decoder for a pointer to a pointer and nothing claims one)
			dst := sergen.New(s)
			target := dst.Interface()
			if s.Kind == sergen.Ptr {
				dst.Elem().Set(reflect.New(s.Elem.T))
				target = dst.Elem().Interface()
			}
			derr, dpan := safeJSONDecode(u.API, s, jb, target, validation, viaMap)
			switch {
			case dpan != nil:
				add("json", "decode-panic", "JSONEncode accepted the value but JSONDecode panicked: %v; document %s", dpan, short(string(jb), 200))
			case derr != nil && s.Kind == sergen.Map:
				// Structural exemption (keyed on the harness's own schema, not on the error text): the shape
				// handed to MapDecode/JSONDecode is a top-level map. Those decoders have a path for struct-like
				// destinations only, so a top-level map is encodable to the map form but has no decoder.
				// Whatever the error says it is recorded as an observation: the check claims the JSON round
				// trip at top level for structs only. (If the decode succeeds, the usual comparison applies.)
				if countIt {
					st.count("json_toplevel_map_decode_error_observation", 1)
					st.note("jsontopmap", "observation: MapEncode/JSONEncode accept a top-level map value, MapDecode/JSONDecode return an error for a *map destination; the JSON round trip is demanded for top-level structs only")
				}
			case derr != nil:
				add("json", "decode-error", "JSONEncode accepted the value but JSONDecode failed: %v; document %s", short(derr.Error(), 200), short(string(jb), 200))
			default:
				got := sergen.Extract(s, dst.Elem())
				if ok, path := sergen.Equal(s, v, got, sergen.JSON); !ok {
					add("json", "value-mismatch", "JSON-decoded value differs from the original at %s; document %s", path, short(string(jb), 200))
				}
			}
			if countIt && containsMap(s, 0) {
				// observation only: JSON bytes under map iteration order
				for i := 0; i < 3; i++ {
					x2 := sergen.Build(s, v, rand.New(rand.NewSource(bseed+int64(i)+1))).Interface()
					jb2, err2, pan2 := safeJSONEncode(u.API, s, x2, validation, viaMap)
					if err2 == nil && pan2 == nil && !bytes.Equal(jb, jb2) {
						st.count("json_bytes_vary_with_map_order_observation", 1)
						break
					}
				}
			}
		}
	}
	return out
}

func firstDiff(a, b []byte) int {
	for i := 0; i < len(a) && i < len(b); i++ {
		if a[i] != b[i] {
			return i
		}
	}
	if len(a) < len(b) {
		return len(a)
	}
	return len(b)
}

// clearContainers empties slices and maps and nils optional fields of a value tree, so that
// the dirty-destination run does not depend on what Decode does with pre-existing container
// content (append / merge), which the property does not speak about.
func clearContainers(s *sergen.Shape, v *sergen.Val) {
	if v.Nil {
		return
	}
	switch s.Kind {
	case sergen.Slice, sergen.Map:
		v.L = nil
	case sergen.Array:
		for _, e := range v.L {
			clearContainers(s.Elem, e)
		}
	case sergen.Struct:
		for i, f := range s.Fields {
			if f.Optional {
				v.L[i] = &sergen.Val{Nil: true}
				continue
			}
			clearContainers(f.S, v.L[i])
		}
	case sergen.Ptr:
		clearContainers(s.Elem, v.L[0])
	case sergen.Iface:
		clearContainers((*s.Impls)[v.Impl], v.L[0])
	}
}

// ---------------------------------------------------------------- classification by shrinking

type node struct {
	s *sergen.Shape
	v *sergen.Val
	f *sergen.Field
}

func children(n node) []node {
	var out []node
	if n.v.Nil {
		return nil
	}
	switch n.s.Kind {
	case sergen.Struct:
		for i, f := range n.s.Fields {
			if f.Embedded {
				continue
			}
			out = append(out, node{f.S, n.v.L[i], f})
		}
	case sergen.Ptr:
		out = append(out, node{n.s.Elem, n.v.L[0], nil})
	case sergen.Slice, sergen.Array:
		for i, e := range n.v.L {
			if i >= 16 {
				break // shrinking looks at the first elements only
			}
			out = append(out, node{n.s.Elem, e, nil})
		}
	case sergen.Map:
		for i := 0; i+1 < len(n.v.L) && i < 32; i += 2 {
			out = append(out, node{n.s.Key, n.v.L[i], nil}, node{n.s.Elem, n.v.L[i+1], nil})
		}
	case sergen.Iface:
		out = append(out, node{(*n.s.Impls)[n.v.Impl], n.v.L[0], nil})
	}
	return out
}

// signature is the coarse, value-free class of a minimal failing node.
func signature(n node) string {
	s := n.s
	pre := ""
	if n.f != nil && n.f.Optional {
		if s.ZeroWidth() {
			return "optional-zero-width"
		}
		pre = "optional-"
	}
	switch s.Kind {
	case sergen.Array:
		if s.Elem.Named() {
			// element type is a defined type over a basic kind ([N]NU8 is not a byte array)
			return pre + "array-of-named-" + s.Elem.Kind.String()
		}
		return pre + "array-of-non-byte"
	case sergen.Ptr:
		if s.Elem.Kind == sergen.Array {
			if s.Elem.Elem.Named() {
				return pre + "ptr-to-array-of-named-" + s.Elem.Elem.Kind.String()
			}
			return pre + "ptr-to-array-of-non-byte"
		}
		return pre + "ptr-" + signature(node{s.Elem, n.v, nil})
	case sergen.Struct:
		emb := ""
		for i, f := range s.Fields {
			if f.Embedded {
				emb = "-with-embedded"
				if f.S.Kind == sergen.Ptr {
					emb = "-with-embedded-ptr"
					if !n.v.Nil && i < len(n.v.L) && n.v.L[i].Nil {
						return pre + "struct-with-nil-embedded-ptr"
					}
				}
			}
		}
		if s.Code != nil {
			return pre + "coded-struct" + emb
		}
		return pre + "struct" + emb
	case sergen.ByteArray:
		if s.Code != nil {
			return pre + "coded-bytearr"
		}
	case sergen.Custom:
		return pre + "custom-" + s.T.Name()
	case sergen.Slice, sergen.Map:
		if s.Elem.ZeroWidth() && (s.Kind == sergen.Slice || s.Key.ZeroWidth()) {
			return pre + s.Kind.String() + "-of-zero-width"
		}
		if s.Kind == sergen.Map && s.R.LexSet && !s.R.AutoOrder {
			return pre + "map-with-explicit-lexical-ordering-false"
		}
		if s.Elem.Named() {
			return pre + s.Kind.String() + "-of-named-" + s.Elem.Kind.String()
		}
		if s.Kind == sergen.Map && s.Key.Named() {
			return pre + "map-with-named-" + s.Key.Kind.String() + "-key"
		}
		return pre + s.Kind.String() + "-of-" + s.Elem.Kind.String()
	}
	if s.Named() {
		return pre + "named-" + s.Kind.String()
	}
	return pre + s.Kind.String()
}

// minimize descends from the failing top-level case to a minimal sub-node that still fails
// (in the same form), re-running the oracle on single-field wrapper structs.
func minimize(u *sergen.Universe, top node, form string, validation bool, bseed int64) (node, finding, bool) {
	cur := top
	var curF finding
	found := false
	for depth := 0; depth < 12; depth++ {
		descended := false
		for _, ch := range children(cur) {
			ws := sergen.Wrap(u, ch.s, ch.f)
			wv := &sergen.Val{L: []*sergen.Val{ch.v}}
			o := check(nil, u, ws, wv, validation, bseed, false)
			for _, f := range o.findings {
				if f.form == form {
					cur, curF, found, descended = ch, f, true, true
					break
				}
			}
			if descended {
				break
			}
		}
		if !descended {
			break
		}
	}
	return cur, curF, found
}

func runCase(st *stats, u *sergen.Universe, shapeIdx int, s *sergen.Shape, v *sergen.Val, valIdx int, validation bool, classify bool) caseOut {
	bseed := u.Seed*31 + int64(shapeIdx)*1009 + int64(valIdx)*13 + 1
	if validation {
		bseed += 7
	}
	o := check(st, u, s, v, validation, bseed, true)
	if len(o.findings) == 0 || !classify {
		return o
	}
	seenForm := map[string]bool{}
	for _, f := range o.findings {
		if seenForm[f.form] {
			continue
		}
		seenForm[f.form] = true
		top := node{s, v, nil}
		var n node
		var nf finding
		ok := false
		// shrinking re-runs the oracle on sub-nodes; it is bounded per shape (and per process) so that
		// a tree on which nearly every case fails still finishes. A surplus failure of a shape takes
		// the class its last shrunk failure with the same form and symptom got (same shape, same
		// symptom); only if there is none it is reported as unclassified.
		key := fmt.Sprintf("%p/%s/%s", s, f.form, f.symptom)
		if st.shrunk[key] < 30 && classifyBudget.Add(-1) >= 0 {
			st.shrunk[key]++
			n, nf, ok = minimize(u, top, f.form, validation, bseed)
		} else {
			st.count("refuting_observations_not_shrunk", 1)
			fp := st.lastFP[key]
			if fp == "" {
				fp = fmt.Sprintf("%s:%s@unclassified", f.form, f.symptom)
			}
			st.viols = append(st.viols, viol{fp, f.detail + " (not shrunk: classified like the previous failures of this shape)", replayRec{Part: "serix", Static: u.Static, USeed: u.Seed,
				ShapeIdx: shapeIdx, ValIdx: valIdx, Validation: validation, Shape: short(s.String(), 600), Detail: f.detail}})
			continue
		}
		if !ok {
			n, nf = top, f
		}
		fp := fmt.Sprintf("%s:%s@%s", nf.form, nf.symptom, signature(n))
		st.lastFP[key] = fp
		rec := replayRec{Part: "serix", Static: u.Static, USeed: u.Seed, ShapeIdx: shapeIdx, ValIdx: valIdx, Validation: validation,
			Shape: short(s.String(), 600), GoType: short(sergen.Describe(s), 600), Node: short(n.s.String(), 300),
			Bytes: short(hex.EncodeToString(o.bytes), 400), Detail: f.detail}
		what := fmt.Sprintf("%s (minimal failing node: %s; validation=%v)", nf.detail, short(n.s.String(), 160), validation)
		st.viols = append(st.viols, viol{fp, what, rec})
	}
	return o
}

func runSerix(c *vf.Ctx, a *agg, workers int) {
	nUni := c.Pick(800, 16000)
	base := c.Rand("serix-universes").Int63()
	// every universe runs in a child process with an address-space limit, so that a decoder that asks
	// for gigabytes on the bytes Encode just produced kills a child and not the check
	vf.Parallel(workers+3, workers+3, func(w int) {
		var res vf.ChildResult
		if w == workers {
			res = c.RunChild(vf.ChildOpts{Name: "serix-static", MemKB: 3 << 20, Timeout: time.Duration(c.Pick(4, 20)) * time.Minute})
		} else if w > workers {
			res = c.RunChild(vf.ChildOpts{Name: "serix-boundary", Args: []string{fmt.Sprint(w - workers - 1)}, MemKB: 3 << 20, Timeout: time.Duration(c.Pick(4, 20)) * time.Minute})
		} else {
			res = c.RunChild(vf.ChildOpts{Name: "serix", Args: []string{fmt.Sprint(base), fmt.Sprint(w), fmt.Sprint(workers), fmt.Sprint(nUni)},
				MemKB: 3 << 20, Timeout: time.Duration(c.Pick(4, 20)) * time.Minute})
		}
		switch {
		case res.TimedOut:
			c.Inconclusive(fmt.Sprintf("serix child %d hit the watchdog at %s", w, res.LastMark))
		case res.ExitCode != 0:
			var useed int64
			var si int
			fmt.Sscanf(res.LastMark, "universe %d shape %d", &useed, &si)
			// Attribute the death without reading stack traces: re-run that one shape in a fresh child
			// that announces every call into hive.go before making it. If the re-run dies while such a
			// call is in progress, the call did not return for bytes/values of the round trip -> violation;
			// if it dies anywhere else (or not at all) the run is inconclusive.
			iso := c.RunChild(vf.ChildOpts{Name: "serix-isolate", Args: []string{fmt.Sprint(useed), fmt.Sprint(si)}, MemKB: 3 << 20, Timeout: 3 * time.Minute})
			var call string
			if n, _ := fmt.Sscanf(iso.LastMark, "in-call %s", &call); n == 1 && iso.ExitCode != 0 && !iso.TimedOut {
				c.Violation("bin:"+call+"-killed-process", fmt.Sprintf("the process died (exit %d) while %s was running on a value / on bytes of the round trip of universe %d shape %d", iso.ExitCode, call, useed, si),
					replayRec{Part: "serix", Static: useed < 0, USeed: useed, ShapeIdx: si, ValIdx: -1, Detail: "process death inside " + call})
			} else {
				c.Inconclusive(fmt.Sprintf("serix child %d died (exit %d) at %s; the isolating re-run ended with exit %d at %q", w, res.ExitCode, res.LastMark, iso.ExitCode, iso.LastMark))
			}
		}
	})
}

// child "serix-isolate": one shape, every call into hive.go announced.
func serixIsolateChild(c *vf.Ctx) {
	var useed int64
	var si int
	fmt.Sscan(c.ChildArgs[0], &useed)
	fmt.Sscan(c.ChildArgs[1], &si)
	callMark = func(name string) { c.Mark(name) }
	u := sergen.ByID(useed)
	st := newStats()
	c.Mark("harness")
	nv := 40
	if u.Static {
		nv = c.Pick(200, 2000)
	}
	exercise(st, u, si, u.Shapes[si], nv)
	(&agg{c: c}).merge(st)
}

// child "serix-boundary": fixed values on the boundaries of prefix widths, uint256 and timestamps.
func serixBoundaryChild(c *vf.Ctx) {
	a := &agg{c: c}
	u := sergen.NewBoundary()
	var half int
	fmt.Sscan(c.ChildArgs[0], &half)
	for si, s := range u.Shapes {
		if si%2 != half {
			continue
		}
		st := newStats()
		c.Mark(fmt.Sprintf("universe %d shape %d", u.Seed, si))
		exercise(st, u, si, s, 0)
		a.merge(st)
	}
}

// child "serix-static": the hand-declared universe.
func serixStaticChild(c *vf.Ctx) {
	a := &agg{c: c}
	u := sergen.NewStatic()
	for si, s := range u.Shapes {
		st := newStats()
		c.Mark(fmt.Sprintf("universe %d shape %d", u.Seed, si))
		exercise(st, u, si, s, c.Pick(200, 2000))
		a.merge(st)
	}
}

// child: universes start, start+stride, … < n
func serixChild(c *vf.Ctx) {
	var base int64
	var start, stride, n int
	fmt.Sscan(c.ChildArgs[0], &base)
	fmt.Sscan(c.ChildArgs[1], &start)
	fmt.Sscan(c.ChildArgs[2], &stride)
	fmt.Sscan(c.ChildArgs[3], &n)
	a := &agg{c: c}
	for i := start; i < n; i += stride {
		st := newStats()
		u := sergen.NewDynamic(base + int64(i))
		for si, s := range u.Shapes {
			c.Mark(fmt.Sprintf("universe %d shape %d", u.Seed, si))
			exercise(st, u, si, s, 40)
		}
		a.merge(st)
		if i%(8*stride) == start {
			c.FlushStats()
		}
	}
}

func exercise(st *stats, u *sergen.Universe, si int, s *sergen.Shape, nVals int) {
	vals := sergen.ValuesOf(u, s, valRng(u.Seed, si), nVals)
	classified := map[string]int{}
	nontrivial := false
	for vi, v := range vals {
		if label := u.FixedLabel[v]; label != "" {
			st.dist("boundary_values", label)
			parts := strings.SplitN(label, "/", 4)
			switch parts[0] {
			case "len":
				st.count("boundary_length_cases/"+parts[2], 2) // per prefix width; two validation modes
			case "uint256":
				st.count("boundary_uint256_cases", 2)
			case "time":
				st.count("boundary_time_cases", 2)
			case "utf8":
				st.count("boundary_utf8_cases/"+parts[1], 2)
			}
		}
		for _, validation := range []bool{false, true} {
			// classification (shrinking) is bounded per shape; further failures of the same
			// shape reuse nothing – they are simply counted
			o := check0(st, u, si, s, v, vi, validation, classified)
			if o.accepted && vi > 0 {
				nontrivial = true
			}
		}
	}
	st.count("shapes_exercised", 1)
	if nontrivial {
		f, t, sf := orderingFlags(s, 0)
		if f > 0 {
			st.count("shapes_with_map_lexical_ordering_explicitly_false", 1)
		}
		if t > 0 {
			st.count("shapes_with_map_lexical_ordering_explicitly_true", 1)
		}
		if sf > 0 {
			st.count("shapes_with_slice_lexical_ordering_explicitly_false", 1)
		}
		if s.Top != nil {
			st.count("toplevel_with_type_settings_shapes", 1)
		}
		st.dist("nontrivial", fmt.Sprintf("%016x", s.Hash()))
		single, pairs := s.Features()
		for _, f := range single {
			st.dist("features", f)
		}
		for _, p := range pairs {
			st.dist("feature_pairs", p)
		}
		for _, cl := range s.Classes() {
			st.count("shapes_with/"+cl, 1)
		}
		if len(st.samples) < 1 && vi(vals) > 2 {
			b, _ := sergen.RefEncode(s, vals[2])
			st.samples = append(st.samples, map[string]any{"part": "serix", "shape": short(s.String(), 300), "value_index": 2, "reference_bytes_hex": short(hex.EncodeToString(b), 120)})
		}
	}
}

func vi(v []*sergen.Val) int { return len(v) }

func check0(st *stats, u *sergen.Universe, si int, s *sergen.Shape, v *sergen.Val, vi int, validation bool, classified map[string]int) caseOut {
	// first run without classification to see whether anything fails
	before := len(st.viols)
	o := runCase(st, u, si, s, v, vi, validation, true)
	// bound the number of reported violations per (shape, fingerprint)
	kept := st.viols[:before]
	for _, vl := range st.viols[before:] {
		classified[vl.fp]++
		st.count("refuting_observations", 1)
		if classified[vl.fp] <= 2 {
			kept = append(kept, vl)
		}
	}
	st.viols = kept
	return o
}

var _ = reflect.TypeOf

// orderingFlags counts map nodes with an explicit lexical-ordering flag (false, true) and
// slice/array nodes with an explicit false in a shape.
func orderingFlags(s *sergen.Shape, depth int) (mapFalse, mapTrue, sliceFalse int) {
	if depth > 10 {
		return
	}
	add := func(c *sergen.Shape) {
		a, b, d := orderingFlags(c, depth+1)
		mapFalse, mapTrue, sliceFalse = mapFalse+a, mapTrue+b, sliceFalse+d
	}
	switch s.Kind {
	case sergen.Map:
		if s.R.LexSet && s.R.AutoOrder {
			mapTrue++
		} else if s.R.LexSet {
			mapFalse++
		}
		add(s.Key)
		add(s.Elem)
	case sergen.Slice, sergen.Array:
		if s.R.LexSet && !s.R.AutoOrder {
			sliceFalse++
		}
		add(s.Elem)
	case sergen.Ptr:
		add(s.Elem)
	case sergen.Struct:
		for _, f := range s.Fields {
			add(f.S)
		}
	}
	return
}

// containsMap: the shape holds a map somewhere (structural, from the harness's own schema).
func containsMap(s *sergen.Shape, depth int) bool {
	if depth > 10 {
		return false
	}
	switch s.Kind {
	case sergen.Map:
		return true
	case sergen.Array, sergen.Slice, sergen.Ptr:
		return containsMap(s.Elem, depth+1)
	case sergen.Struct:
		for _, f := range s.Fields {
			if containsMap(f.S, depth+1) {
				return true
			}
		}
	case sergen.Iface:
		for _, im := range *s.Impls {
			if containsMap(im, depth+1) {
				return true
			}
		}
	}
	return false
}
