package main

import (
	"bytes"
	"encoding/binary"
	"errors"
	"fmt"
	"io"
	"math/rand"
	"reflect"
	"testing/iotest"

	"github.com/iotaledger/hive.go/serializer/v2"
	"github.com/iotaledger/hive.go/serializer/v2/stream"
	"verif/harness/internal/vf"
)

// ---------------------------------------------------------------- readers ("however that reader splits its reads")

// randChunk returns 1..k bytes per Read, seeded.
type randChunk struct {
	r   io.Reader
	rng *rand.Rand
}

func (c *randChunk) Read(p []byte) (int, error) {
	if len(p) == 0 {
		return c.r.Read(p)
	}
	n := 1 + c.rng.Intn(len(p))
	if c.rng.Intn(3) == 0 && n > 3 {
		n = 1 + c.rng.Intn(3)
	}
	return c.r.Read(p[:n])
}

// zeroThenChunk returns (0, nil) once before every real chunk (allowed by io.Reader).
type zeroThenChunk struct {
	r    io.Reader
	rng  *rand.Rand
	zero bool
}

func (c *zeroThenChunk) Read(p []byte) (int, error) {
	if len(p) == 0 {
		return c.r.Read(p)
	}
	c.zero = !c.zero
	if c.zero {
		return 0, nil
	}
	n := 1 + c.rng.Intn(len(p))
	return c.r.Read(p[:n])
}

// dataErr returns io.EOF together with the last data (like iotest.DataErrReader, which
// however spins for ever on a zero-length Read and therefore cannot be used here).
type dataErr struct {
	b   []byte
	off int
}

func (d *dataErr) Read(p []byte) (int, error) {
	if len(p) == 0 {
		if d.off >= len(d.b) {
			return 0, io.EOF
		}
		return 0, nil
	}
	n := copy(p, d.b[d.off:])
	d.off += n
	if d.off >= len(d.b) {
		return n, io.EOF
	}
	return n, nil
}

// chunkSeeker: chunked reads + seeking of the underlying bytes.Reader (for PeekSize).
type chunkSeeker struct {
	br  *bytes.Reader
	rng *rand.Rand
}

func (c *chunkSeeker) Read(p []byte) (int, error) {
	if len(p) == 0 {
		return c.br.Read(p)
	}
	return c.br.Read(p[:1+c.rng.Intn(len(p))])
}
func (c *chunkSeeker) Seek(off int64, wh int) (int64, error) { return c.br.Seek(off, wh) }

var readerKinds = []string{"bytes.Reader", "stream.ByteReader", "OneByteReader", "HalfReader", "DataErrReader", "RandChunk", "ZeroThenChunk"}

func mkReader(kind string, b []byte, rng *rand.Rand) io.Reader {
	switch kind {
	case "bytes.Reader":
		return bytes.NewReader(b)
	case "stream.ByteReader":
		return stream.NewByteReader(b)
	case "OneByteReader":
		return iotest.OneByteReader(bytes.NewReader(b))
	case "HalfReader":
		return iotest.HalfReader(bytes.NewReader(b))
	case "DataErrReader":
		return &dataErr{b: b}
	case "RandChunk":
		return &randChunk{bytes.NewReader(b), rng}
	case "ZeroThenChunk":
		return &zeroThenChunk{r: bytes.NewReader(b), rng: rng}
	case "ChunkSeeker":
		return &chunkSeeker{bytes.NewReader(b), rng}
	}
	panic("reader kind " + kind)
}

func readerClass(kind string) string {
	switch kind {
	case "bytes.Reader", "stream.ByteReader":
		return "whole"
	}
	return "chunked"
}

// ---------------------------------------------------------------- helper pairs

type pair struct {
	name   string
	family string // num (binary.Read based) | readbytes (goes through stream.ReadBytes) | bytebuffer
	seek   bool   // needs io.WriteSeeker / io.ReadSeeker
	gen    func(rng *rand.Rand) any
	write  func(w io.Writer, item any) error
	read   func(r io.Reader, item any) (any, error)
}

func numPair[T bool | uint8 | uint16 | uint32 | uint64 | int8 | int16 | int32 | int64 | [32]byte | [36]byte | [38]byte](name string, gen func(rng *rand.Rand) T) pair {
	return pair{name: "Write/Read[" + name + "]", family: "num",
		gen:   func(rng *rand.Rand) any { return gen(rng) },
		write: func(w io.Writer, item any) error { return stream.Write(w, item.(T)) },
		read:  func(r io.Reader, _ any) (any, error) { return stream.Read[T](r) },
	}
}

func bnd(rng *rand.Rand, bits uint) uint64 {
	switch rng.Intn(6) {
	case 0:
		return 0
	case 1:
		return 1
	case 2:
		return 1<<bits - 1
	case 3:
		return 1 << (bits - 1)
	}
	return rng.Uint64()
}

func randBytes(rng *rand.Rand, n int) []byte { b := make([]byte, n); rng.Read(b); return b }

func payloadLen(rng *rand.Rand) int {
	return []int{0, 1, 2, 3, 7, 8, 31, 32, 33, 100, 255, 256, 257, 600, rng.Intn(64), rng.Intn(64), rng.Intn(1500)}[rng.Intn(17)]
}

var lenTypes = []struct {
	name string
	t    serializer.SeriLengthPrefixType
	max  int
}{
	{"uint8", serializer.SeriLengthPrefixTypeAsByte, 255},
	{"uint16", serializer.SeriLengthPrefixTypeAsUint16, 65535},
	{"uint32", serializer.SeriLengthPrefixTypeAsUint32, 1 << 30},
	{"uint64", serializer.SeriLengthPrefixTypeAsUint64, 1 << 30},
}

type fixedObj struct {
	A uint32
	B [6]byte
}

func fixedObjBytes(o fixedObj) ([]byte, error) {
	b := binary.LittleEndian.AppendUint32(nil, o.A)
	return append(b, o.B[:]...), nil
}
func fixedObjFromBytes(b []byte) (fixedObj, int, error) {
	if len(b) < 10 {
		return fixedObj{}, 0, errors.New("short")
	}
	var o fixedObj
	o.A = binary.LittleEndian.Uint32(b)
	copy(o.B[:], b[4:10])
	return o, 10, nil
}

type collItem struct {
	N uint32
	P []byte
}

func norm(v any) any {
	switch x := v.(type) {
	case []byte:
		if len(x) == 0 {
			return []byte{}
		}
	case []collItem:
		out := make([]collItem, len(x))
		for i, it := range x {
			out[i] = collItem{it.N, norm(it.P).([]byte)}
		}
		return out
	case [][]collItem:
		out := make([][]collItem, len(x))
		for i, it := range x {
			out[i] = norm(it).([]collItem)
		}
		return out
	}
	return v
}

func pairs() []pair {
	ps := []pair{
		numPair("bool", func(r *rand.Rand) bool { return r.Intn(2) == 1 }),
		numPair("uint8", func(r *rand.Rand) uint8 { return uint8(bnd(r, 8)) }),
		numPair("uint16", func(r *rand.Rand) uint16 { return uint16(bnd(r, 16)) }),
		numPair("uint32", func(r *rand.Rand) uint32 { return uint32(bnd(r, 32)) }),
		numPair("uint64", func(r *rand.Rand) uint64 { return bnd(r, 64) }),
		numPair("int8", func(r *rand.Rand) int8 { return int8(bnd(r, 8)) }),
		numPair("int16", func(r *rand.Rand) int16 { return int16(bnd(r, 16)) }),
		numPair("int32", func(r *rand.Rand) int32 { return int32(bnd(r, 32)) }),
		numPair("int64", func(r *rand.Rand) int64 { return int64(bnd(r, 64)) }),
		numPair("[32]byte", func(r *rand.Rand) (a [32]byte) { r.Read(a[:]); return }),
		numPair("[36]byte", func(r *rand.Rand) (a [36]byte) { r.Read(a[:]); return }),
		numPair("[38]byte", func(r *rand.Rand) (a [38]byte) { r.Read(a[:]); return }),
		{name: "WriteBytes/ReadBytes", family: "readbytes",
			gen:   func(r *rand.Rand) any { return randBytes(r, 1+payloadLen(r)) },
			write: func(w io.Writer, it any) error { return stream.WriteBytes(w, it.([]byte)) },
			read:  func(r io.Reader, it any) (any, error) { return stream.ReadBytes(r, len(it.([]byte))) }},
		{name: "WriteObject/ReadObject", family: "readbytes",
			gen: func(r *rand.Rand) any { var o fixedObj; o.A = r.Uint32(); r.Read(o.B[:]); return o },
			write: func(w io.Writer, it any) error { return stream.WriteObject(w, it.(fixedObj), fixedObjBytes) },
			read:  func(r io.Reader, _ any) (any, error) { return stream.ReadObject(r, 10, fixedObjFromBytes) }},
	}
	for _, lt := range lenTypes {
		lt := lt
		ps = append(ps,
			pair{name: "WriteBytesWithSize/ReadBytesWithSize[" + lt.name + "]", family: "readbytes",
				gen: func(r *rand.Rand) any {
					n := payloadLen(r)
					if n > lt.max {
						n = lt.max
					}
					return randBytes(r, n)
				},
				write: func(w io.Writer, it any) error { return stream.WriteBytesWithSize(w, it.([]byte), lt.t) },
				read:  func(r io.Reader, _ any) (any, error) { return stream.ReadBytesWithSize(r, lt.t) }},
			pair{name: "WriteObjectWithSize/ReadObjectWithSize[" + lt.name + "]", family: "readbytes",
				gen: func(r *rand.Rand) any {
					n := payloadLen(r)
					if n > lt.max {
						n = lt.max
					}
					return string(randBytes(r, n))
				},
				write: func(w io.Writer, it any) error {
					return stream.WriteObjectWithSize(w, it.(string), lt.t, func(s string) ([]byte, error) { return []byte(s), nil })
				},
				read: func(r io.Reader, _ any) (any, error) {
					return stream.ReadObjectWithSize(r, lt.t, func(b []byte) (string, int, error) { return string(b), len(b), nil })
				}},
			pair{name: "WriteCollection/ReadCollection[" + lt.name + "]", family: "readbytes", seek: true,
				gen: func(r *rand.Rand) any {
					n := []int{0, 1, 2, 5, 17}[r.Intn(5)]
					out := make([]collItem, n)
					for i := range out {
						out[i] = collItem{r.Uint32(), randBytes(r, r.Intn(40))}
					}
					return out
				},
				write: func(w io.Writer, it any) error {
					return stream.WriteCollection(w.(io.WriteSeeker), lt.t, func() (int, error) { return writeItems(w, it.([]collItem)) })
				},
				read: func(r io.Reader, _ any) (any, error) {
					var out []collItem
					err := stream.ReadCollection(r, lt.t, func(int) error { return readItem(r, &out) })
					return out, err
				}},
		)
	}
	ps = append(ps,
		pair{name: "WriteCollection/ReadCollection[nested]", family: "readbytes", seek: true,
			gen: func(r *rand.Rand) any {
				out := make([][]collItem, r.Intn(4))
				for i := range out {
					out[i] = make([]collItem, r.Intn(4))
					for j := range out[i] {
						out[i][j] = collItem{r.Uint32(), randBytes(r, r.Intn(20))}
					}
				}
				return out
			},
			write: func(w io.Writer, it any) error {
				ws := w.(io.WriteSeeker)
				return stream.WriteCollection(ws, serializer.SeriLengthPrefixTypeAsUint16, func() (int, error) {
					for _, inner := range it.([][]collItem) {
						inner := inner
						if err := stream.WriteCollection(ws, serializer.SeriLengthPrefixTypeAsByte, func() (int, error) { return writeItems(w, inner) }); err != nil {
							return 0, err
						}
					}
					return len(it.([][]collItem)), nil
				})
			},
			read: func(r io.Reader, _ any) (any, error) {
				var out [][]collItem
				err := stream.ReadCollection(r, serializer.SeriLengthPrefixTypeAsUint16, func(int) error {
					var inner []collItem
					if err := stream.ReadCollection(r, serializer.SeriLengthPrefixTypeAsByte, func(int) error { return readItem(r, &inner) }); err != nil {
						return err
					}
					out = append(out, inner)
					return nil
				})
				return out, err
			}},
		pair{name: "PeekSize+ReadBytesWithSize", family: "readbytes", seek: true,
			gen:   func(r *rand.Rand) any { return randBytes(r, payloadLen(r)%60000) },
			write: func(w io.Writer, it any) error { return stream.WriteBytesWithSize(w, it.([]byte), serializer.SeriLengthPrefixTypeAsUint16) },
			read: func(r io.Reader, it any) (any, error) {
				n, err := stream.PeekSize(r.(io.ReadSeeker), serializer.SeriLengthPrefixTypeAsUint16)
				if err != nil {
					return nil, err
				}
				if n != len(it.([]byte)) {
					return nil, fmt.Errorf("PeekSize returned %d, written %d", n, len(it.([]byte)))
				}
				return stream.ReadBytesWithSize(r, serializer.SeriLengthPrefixTypeAsUint16)
			}},
	)
	return ps
}

func writeItems(w io.Writer, items []collItem) (int, error) {
	for _, it := range items {
		if err := stream.Write(w, it.N); err != nil {
			return 0, err
		}
		if err := stream.WriteBytesWithSize(w, it.P, serializer.SeriLengthPrefixTypeAsUint16); err != nil {
			return 0, err
		}
	}
	return len(items), nil
}

func readItem(r io.Reader, out *[]collItem) error {
	n, err := stream.Read[uint32](r)
	if err != nil {
		return err
	}
	p, err := stream.ReadBytesWithSize(r, serializer.SeriLengthPrefixTypeAsUint16)
	if err != nil {
		return err
	}
	*out = append(*out, collItem{n, p})
	return nil
}

var pairByName = func() map[string]pair {
	m := map[string]pair{}
	for _, p := range pairs() {
		m[p.name] = p
	}
	return m
}()

// streamCase: write a seeded sequence of items with one helper, read them back through one reader kind.
func streamCase(st *stats, pairName, writerKind, readerKind string, seed int64) {
	if pairName == "ByteBuffer.Seek/Write" {
		byteBufferCase(st, seed)
		return
	}
	if pairName == "sequence" {
		seqCase(st, writerKind, seed)
		return
	}
	p := pairByName[pairName]
	rng := rand.New(rand.NewSource(seed))
	nItems := 1 + rng.Intn(5)
	items := make([]any, nItems)
	for i := range items {
		items[i] = p.gen(rng)
	}
	fail := func(symptom, format string, args ...any) {
		fp := fmt.Sprintf("stream:%s:%s:%s", p.family, symptom, readerClass(readerKind))
		what := fmt.Sprintf("%s written to %s, read back through %s: %s", pairName, writerKind, readerKind, fmt.Sprintf(format, args...))
		st.viols = append(st.viols, viol{fp, what, replayRec{Part: "stream", Pair: pairName, Writer: writerKind, Reader: readerKind, PSeed: seed, Detail: what}})
	}
	var data []byte
	werr := func() (err error) {
		defer func() {
			if pn := recover(); pn != nil {
				err = fmt.Errorf("PANIC %v", pn)
			}
		}()
		switch writerKind {
		case "bytes.Buffer":
			var buf bytes.Buffer
			for _, it := range items {
				if err := p.write(&buf, it); err != nil {
					return err
				}
			}
			data = buf.Bytes()
		case "ByteBuffer":
			bb := stream.NewByteBuffer()
			for _, it := range items {
				if err := p.write(bb, it); err != nil {
					return err
				}
			}
			data, _ = bb.Bytes()
		}
		return nil
	}()
	if werr != nil {
		st.count("stream_writer_rejected", 1)
		return
	}
	data = append([]byte{}, data...)
	r := mkReader(readerKind, data, rng)
	st.count("stream_readbacks", 1)
	st.count("evaluations", 1)
	st.dist("stream_cases", pairName+"|"+writerKind+"|"+readerKind)
	for i, it := range items {
		got, err := func() (g any, e error) {
			defer func() {
				if pn := recover(); pn != nil {
					e = fmt.Errorf("PANIC %v", pn)
				}
			}()
			return p.read(r, it)
		}()
		if err != nil {
			fail("read-error", "item %d of %d (%d bytes in the stream): %v", i, nItems, len(data), err)
			return
		}
		if !reflect.DeepEqual(norm(got), norm(it)) {
			fail("mismatch", "item %d of %d read back differently", i, nItems)
			return
		}
	}
	// nothing may be left over
	rest, _ := io.ReadAll(r)
	if len(rest) != 0 {
		fail("leftover", "%d bytes left in the stream after reading all items back", len(rest))
	}
}

// byteBufferCase: random Write/Seek sequences on stream.ByteBuffer against a plain []byte model.
func byteBufferCase(st *stats, seed int64) {
	rng := rand.New(rand.NewSource(seed))
	init := []int{0, 0, 3, 16}[rng.Intn(4)]
	var bb *stream.ByteBuffer
	if init == 0 && rng.Intn(2) == 0 {
		bb = stream.NewByteBuffer()
	} else {
		bb = stream.NewByteBuffer(init)
	}
	model := make([]byte, init)
	pos := 0
	fail := func(format string, args ...any) {
		what := "stream.ByteBuffer vs. byte-slice model: " + fmt.Sprintf(format, args...)
		st.viols = append(st.viols, viol{"stream:bytebuffer:model-mismatch", what, replayRec{Part: "stream", Pair: "ByteBuffer.Seek/Write", PSeed: seed, Detail: what}})
	}
	st.count("stream_readbacks", 1)
	st.count("evaluations", 1)
	st.dist("stream_cases", "ByteBuffer.Seek/Write")
	for op := 0; op < 12; op++ {
		if rng.Intn(2) == 0 {
			p := randBytes(rng, rng.Intn(20))
			n, err := bb.Write(p)
			if err != nil || n != len(p) {
				fail("Write returned (%d, %v) for %d bytes", n, err, len(p))
				return
			}
			if pos > len(model) {
				model = append(model, make([]byte, pos-len(model))...)
			}
			k := copy(model[pos:], p)
			model = append(model, p[k:]...)
			pos += len(p)
		} else {
			wh := rng.Intn(3)
			var off int64
			switch wh {
			case io.SeekStart:
				off = int64(rng.Intn(len(model) + 8))
			case io.SeekCurrent:
				off = int64(rng.Intn(16) - 8)
			case io.SeekEnd:
				off = int64(rng.Intn(12) - 8)
			}
			np, err := bb.Seek(off, wh)
			want := map[int]int{io.SeekStart: 0, io.SeekCurrent: pos, io.SeekEnd: len(model)}[wh] + int(off)
			if want < 0 {
				if err == nil {
					fail("Seek to negative position %d succeeded", want)
					return
				}
				continue
			}
			if err != nil || int(np) != want {
				fail("Seek(%d,%d) = (%d,%v), model says %d", off, wh, np, err, want)
				return
			}
			pos = want
		}
	}
	got, _ := bb.Bytes()
	if !bytes.Equal(got, model) {
		fail("contents differ after the operation sequence (len %d vs %d)", len(got), len(model))
		return
	}
	rb, _ := io.ReadAll(iotest.OneByteReader(bb.Reader()))
	if !bytes.Equal(rb, model) {
		fail("Reader() returns other bytes than Bytes()")
	}
}

func runStream(c *vf.Ctx, a *agg, workers int) {
	ps := pairs()
	nPayload := c.Pick(200, 4000)
	base := c.Rand("stream").Int63()
	type job struct {
		pair, w, r string
	}
	var jobs []job
	for _, p := range ps {
		writers := []string{"bytes.Buffer", "ByteBuffer"}
		readers := readerKinds
		if p.seek {
			writers = []string{"ByteBuffer"}
			if p.name == "PeekSize+ReadBytesWithSize" {
				readers = []string{"bytes.Reader", "stream.ByteReader", "ChunkSeeker"}
			}
		}
		for _, w := range writers {
			for _, r := range readers {
				jobs = append(jobs, job{p.name, w, r})
			}
		}
	}
	jobs = append(jobs, job{"ByteBuffer.Seek/Write", "", ""})
	vf.Parallel(len(jobs), workers, func(i int) {
		st := newStats()
		j := jobs[i]
		n := nPayload / 2
		if j.pair == "ByteBuffer.Seek/Write" {
			n = nPayload * 5
		}
		perFP := map[string]int{}
		for k := 0; k < n; k++ {
			before := len(st.viols)
			streamCase(st, j.pair, j.w, j.r, base+int64(i)*1_000_003+int64(k))
			for _, v := range st.viols[before:] {
				perFP[v.fp]++
				st.count("refuting_observations", 1)
			}
			if len(st.viols) > before && perFP[st.viols[before].fp] > 1 {
				st.viols = st.viols[:before]
			}
		}
		if i == 0 {
			st.samples = append(st.samples, map[string]any{"part": "stream", "pair": j.pair, "writer": j.w, "reader": j.r, "payloads": n})
		}
		a.merge(st)
	})
	c.Count("stream_pairs", len(ps)+1)
}
