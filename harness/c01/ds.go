package main

import (
	"bytes"
	"fmt"
	"math/rand"

	"github.com/iotaledger/hive.go/ds"
	"github.com/iotaledger/hive.go/ds/serializableorderedmap"
	"github.com/iotaledger/hive.go/serializer/v2/serix"
	"verif/harness/internal/vf"
)

// ds.Set.Encode/Decode and SerializableOrderedMap.Encode/Decode (they take the API as an
// argument, so they are driven directly and not through serix struct fields).

type dsKey2 struct {
	A uint16 `serix:"a"`
	B bool   `serix:"b"`
}

func dsAPI() *serix.API {
	api := serix.NewAPI()
	if err := api.RegisterTypeSettings("", serix.TypeSettings{}.WithLengthPrefixType(serix.LengthPrefixTypeAsUint16)); err != nil {
		panic(err)
	}
	if err := api.RegisterTypeSettings([]byte{}, serix.TypeSettings{}.WithLengthPrefixType(serix.LengthPrefixTypeAsByte)); err != nil {
		panic(err)
	}
	return api
}

func setCase[T comparable](st *stats, name string, seed int64, gen func(r *rand.Rand) T) {
	rng := rand.New(rand.NewSource(seed))
	api := dsAPI()
	n := []int{0, 1, 2, 5, 40}[rng.Intn(5)]
	s := ds.NewSet[T]()
	var order []T
	for i := 0; i < n; i++ {
		e := gen(rng)
		if s.Add(e) {
			order = append(order, e)
		}
	}
	fail := func(symptom, format string, args ...any) {
		what := fmt.Sprintf("ds.Set[%s] with %d elements: %s", name, len(order), fmt.Sprintf(format, args...))
		st.viols = append(st.viols, viol{"ds:set:" + symptom, what, replayRec{Part: "ds", Pair: "set-" + name, PSeed: seed, Detail: what}})
	}
	defer func() {
		if p := recover(); p != nil {
			fail("panic", "panicked: %v", p)
		}
	}()
	b, err := s.Encode(api)
	if err != nil {
		st.count("rejected_by_encoder", 1)
		return
	}
	st.count("ds_roundtrips", 1)
	st.count("evaluations", 1)
	s2 := ds.NewSet[T]()
	k, err := s2.Decode(api, b)
	switch {
	case err != nil:
		fail("decode-error", "Encode produced %d bytes, Decode failed: %v", len(b), err)
	case k != len(b):
		fail("bytes-read", "Decode reported %d bytes, Encode produced %d", k, len(b))
	case !s2.Equals(s) || s2.Size() != len(order):
		fail("value-mismatch", "decoded set differs from the original")
	default:
		b2, err := s2.Encode(api)
		if err != nil || !bytes.Equal(b, b2) {
			fail("reencode-differs", "re-encoding the decoded set gives other bytes (%v)", err)
		}
	}
}

func somCase[K comparable, V comparable](st *stats, name string, seed int64, genK func(r *rand.Rand) K, genV func(r *rand.Rand) V) {
	rng := rand.New(rand.NewSource(seed))
	api := dsAPI()
	n := []int{0, 1, 2, 5, 40}[rng.Intn(5)]
	m := serializableorderedmap.New[K, V]()
	for i := 0; i < n; i++ {
		m.Set(genK(rng), genV(rng))
	}
	fail := func(symptom, format string, args ...any) {
		what := fmt.Sprintf("SerializableOrderedMap[%s] with %d entries: %s", name, m.Size(), fmt.Sprintf(format, args...))
		st.viols = append(st.viols, viol{"ds:orderedmap:" + symptom, what, replayRec{Part: "ds", Pair: "som-" + name, PSeed: seed, Detail: what}})
	}
	defer func() {
		if p := recover(); p != nil {
			fail("panic", "panicked: %v", p)
		}
	}()
	b, err := m.Encode(api)
	if err != nil {
		st.count("rejected_by_encoder", 1)
		return
	}
	st.count("ds_roundtrips", 1)
	st.count("evaluations", 1)
	m2 := serializableorderedmap.New[K, V]()
	k, err := m2.Decode(api, b)
	if err != nil {
		fail("decode-error", "Encode produced %d bytes, Decode failed: %v", len(b), err)
		return
	}
	if k != len(b) {
		fail("bytes-read", "Decode reported %d bytes, Encode produced %d", k, len(b))
		return
	}
	// same entries in the same order
	type kv struct {
		k K
		v V
	}
	var l1, l2 []kv
	m.ForEach(func(k K, v V) bool { l1 = append(l1, kv{k, v}); return true })
	m2.ForEach(func(k K, v V) bool { l2 = append(l2, kv{k, v}); return true })
	if len(l1) != len(l2) {
		fail("value-mismatch", "decoded map has %d entries, original %d", len(l2), len(l1))
		return
	}
	for i := range l1 {
		if l1[i] != l2[i] {
			fail("value-mismatch", "entry %d differs after the round trip", i)
			return
		}
	}
}

func dsCase(st *stats, name string, seed int64) {
	str := func(r *rand.Rand) string { b := make([]byte, r.Intn(12)); r.Read(b); return string(b) }
	switch name {
	case "set-uint32":
		setCase(st, "uint32", seed, func(r *rand.Rand) uint32 { return uint32(bnd(r, 32)) })
	case "set-string":
		setCase(st, "string", seed, str)
	case "set-[32]byte":
		setCase(st, "[32]byte", seed, func(r *rand.Rand) (a [32]byte) { r.Read(a[:r.Intn(33)]); return })
	case "set-struct":
		setCase(st, "struct", seed, func(r *rand.Rand) dsKey2 { return dsKey2{uint16(bnd(r, 16)), r.Intn(2) == 0} })
	case "som-uint16-string":
		somCase(st, "uint16-string", seed, func(r *rand.Rand) uint16 { return uint16(bnd(r, 16)) }, str)
	case "som-string-int64":
		somCase(st, "string-int64", seed, str, func(r *rand.Rand) int64 { return int64(bnd(r, 64)) })
	case "som-struct-[4]byte":
		somCase(st, "struct-[4]byte", seed, func(r *rand.Rand) dsKey2 { return dsKey2{uint16(r.Intn(4)), r.Intn(2) == 0} }, func(r *rand.Rand) (a [4]byte) { r.Read(a[:]); return })
	}
}

var dsNames = []string{"set-uint32", "set-string", "set-[32]byte", "set-struct", "som-uint16-string", "som-string-int64", "som-struct-[4]byte"}

func runDS(c *vf.Ctx, a *agg) {
	base := c.Rand("ds").Int63()
	n := c.Pick(150, 3000)
	st := newStats()
	for i, name := range dsNames {
		perFP := map[string]int{}
		for k := 0; k < n; k++ {
			before := len(st.viols)
			dsCase(st, name, base+int64(i)*100_003+int64(k))
			if len(st.viols) > before {
				perFP[st.viols[before].fp]++
				st.count("refuting_observations", 1)
				if perFP[st.viols[before].fp] > 1 {
					st.viols = st.viols[:before]
				}
			}
		}
	}
	a.merge(st)
}
