package main

import (
	"bytes"
	"fmt"
	"math/rand"
	"reflect"

	"github.com/iotaledger/hive.go/ds"
	"github.com/iotaledger/hive.go/ds/serializableorderedmap"
	"github.com/iotaledger/hive.go/serializer/v2/serix"
	"verif/harness/internal/vf"
)

// ds.Set.Encode/Decode and SerializableOrderedMap.Encode/Decode (they take the API as an
// argument, so they are driven directly and not through serix struct fields).

type dsKey2 struct {
	A uint16 `serix:"a"`
	B bool   `serix:"b"`
}

type dsInner struct {
	A uint8  `serix:"a"`
	B uint32 `serix:"b"`
}

// dsComp: a struct holding a non-byte slice, a pointer and a map (nothing Decode overwrites wholesale).
type dsComp struct {
	L []uint16        `serix:"l,lenPrefix=uint8"`
	P *dsInner        `serix:"p,optional"`
	M map[uint8]uint8 `serix:"m,lenPrefix=uint8"`
	S string          `serix:"s"`
}

// dsArrKey: comparable composite key with an array of non-byte elements.
type dsArrKey struct {
	A [2]uint16 `serix:"a,lenPrefix=uint8"`
	B [3]byte   `serix:"b"`
}

func genU16s(r *rand.Rand) []uint16 {
	l := make([]uint16, r.Intn(5))
	for i := range l {
		l[i] = uint16(r.Intn(1000))
	}
	return l
}

func genU8Map(r *rand.Rand) map[uint8]uint8 {
	m := map[uint8]uint8{}
	for i, n := 0, r.Intn(4); i < n; i++ {
		m[uint8(r.Intn(256))] = uint8(r.Intn(256))
	}
	return m
}

func genComp(r *rand.Rand) dsComp {
	c := dsComp{L: genU16s(r), M: genU8Map(r), S: string(randBytes(r, r.Intn(6)))}
	if r.Intn(3) != 0 {
		c.P = &dsInner{uint8(r.Intn(256)), r.Uint32()}
	}
	return c
}

func dsAPI() *serix.API {
	api := serix.NewAPI()
	if err := api.RegisterTypeSettings([]uint16{}, serix.TypeSettings{}.WithLengthPrefixType(serix.LengthPrefixTypeAsUint16)); err != nil {
		panic(err)
	}
	if err := api.RegisterTypeSettings(map[uint8]uint8{}, serix.TypeSettings{}.WithLengthPrefixType(serix.LengthPrefixTypeAsByte)); err != nil {
		panic(err)
	}
	if err := api.RegisterTypeSettings([]dsComp{}, serix.TypeSettings{}.WithLengthPrefixType(serix.LengthPrefixTypeAsByte)); err != nil {
		panic(err)
	}
	if err := api.RegisterTypeSettings([2]uint16{}, serix.TypeSettings{}.WithLengthPrefixType(serix.LengthPrefixTypeAsByte)); err != nil {
		panic(err)
	}
	if err := api.RegisterTypeSettings("", serix.TypeSettings{}.WithLengthPrefixType(serix.LengthPrefixTypeAsUint16)); err != nil {
		panic(err)
	}
	if err := api.RegisterTypeSettings([]byte{}, serix.TypeSettings{}.WithLengthPrefixType(serix.LengthPrefixTypeAsByte)); err != nil {
		panic(err)
	}
	return api
}

func setCase[T comparable](st *stats, name string, seed int64, gen func(r *rand.Rand) T) {
	rng := rand.New(rand.NewSource(seed))
	api := dsAPI()
	n := []int{0, 1, 2, 3, 5, 6, 40}[rng.Intn(7)]
	s := ds.NewSet[T]()
	var order []T
	for i := 0; i < n; i++ {
		e := gen(rng)
		if s.Add(e) {
			order = append(order, e)
		}
	}
	fail := func(symptom, format string, args ...any) {
		what := fmt.Sprintf("ds.Set[%s] with %d elements: %s", name, len(order), fmt.Sprintf(format, args...))
		st.viols = append(st.viols, viol{"ds:set:" + symptom, what, replayRec{Part: "ds", Pair: "set-" + name, PSeed: seed, Detail: what}})
	}
	defer func() {
		if p := recover(); p != nil {
			fail("panic", "panicked: %v", p)
		}
	}()
	b, err := s.Encode(api)
	if err != nil {
		st.count("rejected_by_encoder", 1)
		return
	}
	st.count("ds_roundtrips", 1)
	st.count("evaluations", 1)
	st.dist("ds_instances", "set-"+name)
	if len(order) >= 2 {
		st.count("ds_roundtrips_with_two_or_more_entries", 1)
	}
	b0 := append([]byte{}, b...)
	s2 := ds.NewSet[T]()
	k, err := s2.Decode(api, b)
	switch {
	case err == nil && !bytes.Equal(b, b0):
		fail("decode-mutated-input", "Decode changed the bytes it was given")
	case err != nil:
		fail("decode-error", "Encode produced %d bytes, Decode failed: %v", len(b), err)
	case k != len(b):
		fail("bytes-read", "Decode reported %d bytes, Encode produced %d", k, len(b))
	case !s2.Equals(s) || s2.Size() != len(order):
		fail("value-mismatch", "decoded set differs from the original")
	default:
		b2, err := s2.Encode(api)
		if err != nil || !bytes.Equal(b, b2) {
			fail("reencode-differs", "re-encoding the decoded set gives other bytes (%v)", err)
			return
		}
		// destination that already holds elements: every element of the wire must be present afterwards
		s3 := ds.NewSet[T]()
		for i := 0; i < 1+rng.Intn(3); i++ {
			s3.Add(gen(rng))
		}
		st.count("ds_dirty_destination_decodes", 1)
		if _, err := s3.Decode(api, b); err != nil {
			fail("dirty-decode-error", "Decode into a set that already holds elements failed: %v", err)
			return
		}
		for _, e := range order {
			if !s3.Has(e) {
				fail("dirty-mismatch", "after decoding into a set that already holds elements an element of the wire is missing")
				return
			}
		}
	}
}

func somCase[K comparable, V any](st *stats, name string, seed int64, genK func(r *rand.Rand) K, genV func(r *rand.Rand) V) {
	rng := rand.New(rand.NewSource(seed))
	api := dsAPI()
	n := []int{0, 1, 2, 3, 4, 6, 40}[rng.Intn(7)]
	m := serializableorderedmap.New[K, V]()
	for i := 0; i < n; i++ {
		m.Set(genK(rng), genV(rng))
	}
	fail := func(symptom, format string, args ...any) {
		what := fmt.Sprintf("SerializableOrderedMap[%s] with %d entries: %s", name, m.Size(), fmt.Sprintf(format, args...))
		st.viols = append(st.viols, viol{"ds:orderedmap:" + symptom, what, replayRec{Part: "ds", Pair: "som-" + name, PSeed: seed, Detail: what}})
	}
	defer func() {
		if p := recover(); p != nil {
			fail("panic", "panicked: %v", p)
		}
	}()
	b, err := m.Encode(api)
	if err != nil {
		st.count("rejected_by_encoder", 1)
		return
	}
	st.count("ds_roundtrips", 1)
	st.count("evaluations", 1)
	st.dist("ds_instances", "som-"+name)
	if m.Size() >= 2 {
		st.count("ds_roundtrips_with_two_or_more_entries", 1)
	}
	if b1, err := m.Encode(api); err != nil || !bytes.Equal(b, b1) {
		fail("nondeterministic", "encoding the same map twice gave other bytes (%v)", err)
		return
	}
	b0 := append([]byte{}, b...)
	m2 := serializableorderedmap.New[K, V]()
	k, err := m2.Decode(api, b)
	if err != nil {
		fail("decode-error", "Encode produced %d bytes, Decode failed: %v", len(b), err)
		return
	}
	if !bytes.Equal(b, b0) {
		fail("decode-mutated-input", "Decode changed the bytes it was given")
		return
	}
	if k != len(b) {
		fail("bytes-read", "Decode reported %d bytes, Encode produced %d", k, len(b))
		return
	}
	// same entries in the same order (deep comparison: values may be slices, maps, structs, pointers)
	type kv struct {
		k K
		v V
	}
	var l1, l2 []kv
	m.ForEach(func(k K, v V) bool { l1 = append(l1, kv{k, v}); return true })
	m2.ForEach(func(k K, v V) bool { l2 = append(l2, kv{k, v}); return true })
	if len(l1) != len(l2) {
		fail("value-mismatch", "decoded map has %d entries, original %d", len(l2), len(l1))
		return
	}
	for i := range l1 {
		if l1[i].k != l2[i].k || !reflect.DeepEqual(l1[i].v, l2[i].v) {
			fail("value-mismatch", "entry %d of %d differs after the round trip", i, len(l1))
			return
		}
	}
	if b2, err := m2.Encode(api); err != nil || !bytes.Equal(b, b2) {
		fail("reencode-differs", "re-encoding the decoded map gives other bytes (%v)", err)
		return
	}
	// destination that already holds entries: every entry the wire carries must arrive intact
	// (what happens to the other pre-existing entries is not demanded)
	m3 := serializableorderedmap.New[K, V]()
	for i := 0; i < 1+rng.Intn(3); i++ {
		m3.Set(genK(rng), genV(rng))
	}
	st.count("ds_dirty_destination_decodes", 1)
	if _, err := m3.Decode(api, b); err != nil {
		fail("dirty-decode-error", "Decode into a map that already holds entries failed: %v", err)
		return
	}
	for i := range l1 {
		got, ok := m3.Get(l1[i].k)
		if !ok || !reflect.DeepEqual(got, l1[i].v) {
			fail("dirty-mismatch", "after decoding into a map that already holds entries, entry %d of the wire is missing or differs", i)
			return
		}
	}
}

func dsCase(st *stats, name string, seed int64) {
	str := func(r *rand.Rand) string { b := make([]byte, r.Intn(12)); r.Read(b); return string(b) }
	switch name {
	case "set-uint32":
		setCase(st, "uint32", seed, func(r *rand.Rand) uint32 { return uint32(bnd(r, 32)) })
	case "set-string":
		setCase(st, "string", seed, str)
	case "set-[32]byte":
		setCase(st, "[32]byte", seed, func(r *rand.Rand) (a [32]byte) { r.Read(a[:r.Intn(33)]); return })
	case "set-struct":
		setCase(st, "struct", seed, func(r *rand.Rand) dsKey2 { return dsKey2{uint16(bnd(r, 16)), r.Intn(2) == 0} })
	case "som-uint16-string":
		somCase(st, "uint16-string", seed, func(r *rand.Rand) uint16 { return uint16(bnd(r, 16)) }, str)
	case "som-string-int64":
		somCase(st, "string-int64", seed, str, func(r *rand.Rand) int64 { return int64(bnd(r, 64)) })
	case "som-uint32-[]uint16":
		somCase(st, "uint32-[]uint16", seed, func(r *rand.Rand) uint32 { return uint32(r.Intn(50)) }, genU16s)
	case "som-string-struct":
		somCase(st, "string-struct", seed, str, genComp)
	case "som-[4]byte-*struct":
		somCase(st, "[4]byte-*struct", seed, func(r *rand.Rand) (a [4]byte) { r.Read(a[:1]); return }, func(r *rand.Rand) *dsInner { return &dsInner{uint8(r.Intn(256)), r.Uint32()} })
	case "som-struct-map":
		somCase(st, "struct-map", seed, func(r *rand.Rand) dsKey2 { return dsKey2{uint16(r.Intn(8)), r.Intn(2) == 0} }, genU8Map)
	case "som-arraykey-[]struct":
		somCase(st, "arraykey-[]struct", seed, func(r *rand.Rand) dsArrKey { return dsArrKey{[2]uint16{uint16(r.Intn(3)), uint16(r.Intn(3))}, [3]byte{byte(r.Intn(2))}} },
			func(r *rand.Rand) []dsComp {
				l := make([]dsComp, r.Intn(3))
				for i := range l {
					l[i] = genComp(r)
				}
				return l
			})
	case "set-arraykey":
		setCase(st, "arraykey", seed, func(r *rand.Rand) dsArrKey { return dsArrKey{[2]uint16{uint16(bnd(r, 16)), uint16(r.Intn(3))}, [3]byte{byte(r.Intn(4)), 1, 2}} })
	case "set-[2]uint16":
		setCase(st, "[2]uint16", seed, func(r *rand.Rand) [2]uint16 { return [2]uint16{uint16(r.Intn(5)), uint16(bnd(r, 16))} })
	case "som-struct-[4]byte":
		somCase(st, "struct-[4]byte", seed, func(r *rand.Rand) dsKey2 { return dsKey2{uint16(r.Intn(4)), r.Intn(2) == 0} }, func(r *rand.Rand) (a [4]byte) { r.Read(a[:]); return })
	}
}

var dsNames = []string{"som-uint32-[]uint16", "som-string-struct", "som-[4]byte-*struct", "som-struct-map", "som-arraykey-[]struct", "set-arraykey", "set-[2]uint16", "set-uint32", "set-string", "set-[32]byte", "set-struct", "som-uint16-string", "som-string-int64", "som-struct-[4]byte"}

func runDS(c *vf.Ctx, a *agg) {
	base := c.Rand("ds").Int63()
	n := c.Pick(150, 3000)
	st := newStats()
	for i, name := range dsNames {
		perFP := map[string]int{}
		for k := 0; k < n; k++ {
			before := len(st.viols)
			dsCase(st, name, base+int64(i)*100_003+int64(k))
			if len(st.viols) > before {
				perFP[st.viols[before].fp]++
				st.count("refuting_observations", 1)
				if perFP[st.viols[before].fp] > 1 {
					st.viols = st.viols[:before]
				}
			}
		}
	}
	a.merge(st)
}
