package main

// Stream helpers, part 2: sequences of mixed Write* helper calls into ONE writer.
//
// A seeded sequence of 3–8 helper calls (Write[T], WriteBytes, WriteBytesWithSize, WriteObject,
// WriteObjectWithSize, WriteCollection incl. nested and empty) is written into one writer – a
// bytes.Buffer, an empty stream.ByteBuffer, a pre-sized stream.ByteBuffer (whose spare bytes belong
// to the stream and must stay untouched) or a ByteBuffer in which one element is rewritten in place
// (seek back, same-size replacement with the same helper, seek to the saved end, continue).
// The oracle is an independent byte-level reference (refWriter below: plain byte slices, no
// encoding/binary, no hive.go code): after every helper call the writer's offset must equal the
// reference offset, at the end the whole buffer image must equal the reference image, and the
// image must read back as the same sequence through every reader (all chunkings, plus PeekSize
// before every size-prefixed element where the reader can seek).

import (
	"bytes"
	"fmt"
	"io"
	"math/rand"
	"reflect"

	"github.com/iotaledger/hive.go/serializer/v2"
	"github.com/iotaledger/hive.go/serializer/v2/stream"
	"verif/harness/internal/vf"
)

// ---------------------------------------------------------------- reference writer

// refWriter is the byte-level model of a seekable writer: writing at pos overwrites / extends,
// a position beyond the end is filled with zeros.
type refWriter struct {
	img []byte
	pos int
}

func (w *refWriter) put(p []byte) {
	if w.pos > len(w.img) {
		w.img = append(w.img, make([]byte, w.pos-len(w.img))...)
	}
	k := copy(w.img[w.pos:], p)
	w.img = append(w.img, p[k:]...)
	w.pos += len(p)
}

func le(v uint64, width int) []byte {
	b := make([]byte, width)
	for i := 0; i < width; i++ {
		b[i] = byte(v >> (8 * uint(i)))
	}
	return b
}

// refNum is the documented encoding of the 12 generic types: little endian, bool 0/1, arrays raw.
func refNum(v any) []byte {
	switch x := v.(type) {
	case bool:
		if x {
			return []byte{1}
		}
		return []byte{0}
	case uint8:
		return le(uint64(x), 1)
	case int8:
		return le(uint64(uint8(x)), 1)
	case uint16:
		return le(uint64(x), 2)
	case int16:
		return le(uint64(uint16(x)), 2)
	case uint32:
		return le(uint64(x), 4)
	case int32:
		return le(uint64(uint32(x)), 4)
	case uint64:
		return le(x, 8)
	case int64:
		return le(uint64(x), 8)
	case [32]byte:
		return append([]byte{}, x[:]...)
	case [36]byte:
		return append([]byte{}, x[:]...)
	case [38]byte:
		return append([]byte{}, x[:]...)
	}
	panic(fmt.Sprintf("refNum %T", v))
}

var prefixWidth = []int{1, 2, 4, 8} // index into lenTypes

func refItems(items []collItem) []byte {
	var b []byte
	for _, it := range items {
		b = append(b, le(uint64(it.N), 4)...)
		b = append(b, le(uint64(len(it.P)), 2)...)
		b = append(b, it.P...)
	}
	return b
}

// ---------------------------------------------------------------- operations

type seqOp struct {
	helper string // fingerprint name of the helper
	name   string
	seek   bool // needs an io.WriteSeeker
	lt     int  // index into lenTypes for size-prefixed elements, -1 otherwise
	gen    func(r *rand.Rand) any
	regen  func(r *rand.Rand, old any) any // replacement of exactly the same encoded size
	write  func(w io.Writer, it any) error
	ref    func(it any) []byte
	read   func(r io.Reader, it any) (any, error)
	peekN  func(it any) int // value PeekSize must return
}

func numOp[T bool | uint8 | uint16 | uint32 | uint64 | int8 | int16 | int32 | int64 | [32]byte | [36]byte | [38]byte](name string, gen func(r *rand.Rand) T) seqOp {
	return seqOp{helper: "write", name: "Write[" + name + "]", lt: -1,
		gen:   func(r *rand.Rand) any { return gen(r) },
		regen: func(r *rand.Rand, _ any) any { return gen(r) },
		write: func(w io.Writer, it any) error { return stream.Write(w, it.(T)) },
		ref:   refNum,
		read:  func(r io.Reader, _ any) (any, error) { return stream.Read[T](r) },
	}
}

func seqLen(r *rand.Rand, max int) int {
	n := []int{0, 1, 2, 3, 8, 31, 32, 33, 100, 255, 256, 300, r.Intn(64), r.Intn(64)}[r.Intn(14)]
	if n > max {
		n = max
	}
	return n
}

func genItems(r *rand.Rand, n int) []collItem {
	out := make([]collItem, n)
	for i := range out {
		out[i] = collItem{r.Uint32(), randBytes(r, r.Intn(24))}
	}
	return out
}

func regenItems(r *rand.Rand, old []collItem) []collItem {
	out := make([]collItem, len(old))
	for i := range out {
		out[i] = collItem{r.Uint32(), randBytes(r, len(old[i].P))}
	}
	return out
}

func seqOps() []seqOp {
	ops := []seqOp{
		numOp("bool", func(r *rand.Rand) bool { return r.Intn(2) == 1 }),
		numOp("uint8", func(r *rand.Rand) uint8 { return uint8(bnd(r, 8)) }),
		numOp("uint16", func(r *rand.Rand) uint16 { return uint16(bnd(r, 16)) }),
		numOp("uint32", func(r *rand.Rand) uint32 { return uint32(bnd(r, 32)) }),
		numOp("uint64", func(r *rand.Rand) uint64 { return bnd(r, 64) }),
		numOp("int8", func(r *rand.Rand) int8 { return int8(bnd(r, 8)) }),
		numOp("int16", func(r *rand.Rand) int16 { return int16(bnd(r, 16)) }),
		numOp("int32", func(r *rand.Rand) int32 { return int32(bnd(r, 32)) }),
		numOp("int64", func(r *rand.Rand) int64 { return int64(bnd(r, 64)) }),
		numOp("[32]byte", func(r *rand.Rand) (a [32]byte) { r.Read(a[:]); return }),
		numOp("[36]byte", func(r *rand.Rand) (a [36]byte) { r.Read(a[:]); return }),
		numOp("[38]byte", func(r *rand.Rand) (a [38]byte) { r.Read(a[:]); return }),
		{helper: "writebytes", name: "WriteBytes", lt: -1,
			gen:   func(r *rand.Rand) any { return randBytes(r, 1+seqLen(r, 400)) },
			regen: func(r *rand.Rand, old any) any { return randBytes(r, len(old.([]byte))) },
			write: func(w io.Writer, it any) error { return stream.WriteBytes(w, it.([]byte)) },
			ref:   func(it any) []byte { return it.([]byte) },
			read:  func(r io.Reader, it any) (any, error) { return stream.ReadBytes(r, len(it.([]byte))) }},
		{helper: "writeobject", name: "WriteObject", lt: -1,
			gen:   func(r *rand.Rand) any { var o fixedObj; o.A = r.Uint32(); r.Read(o.B[:]); return o },
			regen: func(r *rand.Rand, _ any) any { var o fixedObj; o.A = r.Uint32(); r.Read(o.B[:]); return o },
			write: func(w io.Writer, it any) error { return stream.WriteObject(w, it.(fixedObj), fixedObjBytes) },
			ref:   func(it any) []byte { o := it.(fixedObj); return append(le(uint64(o.A), 4), o.B[:]...) },
			read:  func(r io.Reader, _ any) (any, error) { return stream.ReadObject(r, 10, fixedObjFromBytes) }},
	}
	for i, lt := range lenTypes {
		i, lt := i, lt
		w := prefixWidth[i]
		ops = append(ops,
			seqOp{helper: "writebyteswithsize", name: "WriteBytesWithSize[" + lt.name + "]", lt: i,
				gen:   func(r *rand.Rand) any { return randBytes(r, seqLen(r, lt.max)) },
				regen: func(r *rand.Rand, old any) any { return randBytes(r, len(old.([]byte))) },
				write: func(wr io.Writer, it any) error { return stream.WriteBytesWithSize(wr, it.([]byte), lt.t) },
				ref:   func(it any) []byte { return append(le(uint64(len(it.([]byte))), w), it.([]byte)...) },
				read:  func(r io.Reader, _ any) (any, error) { return stream.ReadBytesWithSize(r, lt.t) },
				peekN: func(it any) int { return len(it.([]byte)) }},
			seqOp{helper: "writeobjectwithsize", name: "WriteObjectWithSize[" + lt.name + "]", lt: i,
				gen:   func(r *rand.Rand) any { return string(randBytes(r, seqLen(r, lt.max))) },
				regen: func(r *rand.Rand, old any) any { return string(randBytes(r, len(old.(string)))) },
				write: func(wr io.Writer, it any) error {
					return stream.WriteObjectWithSize(wr, it.(string), lt.t, func(s string) ([]byte, error) { return []byte(s), nil })
				},
				ref: func(it any) []byte { return append(le(uint64(len(it.(string))), w), it.(string)...) },
				read: func(r io.Reader, _ any) (any, error) {
					return stream.ReadObjectWithSize(r, lt.t, func(b []byte) (string, int, error) { return string(b), len(b), nil })
				},
				peekN: func(it any) int { return len(it.(string)) }},
			seqOp{helper: "writecollection", name: "WriteCollection[" + lt.name + "]", lt: i, seek: true,
				gen:   func(r *rand.Rand) any { return genItems(r, []int{0, 0, 1, 2, 5, 17}[r.Intn(6)]) },
				regen: func(r *rand.Rand, old any) any { return regenItems(r, old.([]collItem)) },
				write: func(wr io.Writer, it any) error {
					return stream.WriteCollection(wr.(io.WriteSeeker), lt.t, func() (int, error) { return writeItems(wr, it.([]collItem)) })
				},
				ref: func(it any) []byte { return append(le(uint64(len(it.([]collItem))), w), refItems(it.([]collItem))...) },
				read: func(r io.Reader, _ any) (any, error) {
					var out []collItem
					err := stream.ReadCollection(r, lt.t, func(int) error { return readItem(r, &out) })
					return out, err
				},
				peekN: func(it any) int { return len(it.([]collItem)) }},
		)
	}
	// nested collection: uint16 outer count, uint8 inner counts
	ops = append(ops, seqOp{helper: "writecollection", name: "WriteCollection[nested]", lt: 1, seek: true,
		gen: func(r *rand.Rand) any {
			out := make([][]collItem, r.Intn(4))
			for i := range out {
				out[i] = genItems(r, r.Intn(4))
			}
			return out
		},
		regen: func(r *rand.Rand, old any) any {
			o := old.([][]collItem)
			out := make([][]collItem, len(o))
			for i := range out {
				out[i] = regenItems(r, o[i])
			}
			return out
		},
		write: func(wr io.Writer, it any) error {
			ws := wr.(io.WriteSeeker)
			return stream.WriteCollection(ws, serializer.SeriLengthPrefixTypeAsUint16, func() (int, error) {
				for _, inner := range it.([][]collItem) {
					inner := inner
					if err := stream.WriteCollection(ws, serializer.SeriLengthPrefixTypeAsByte, func() (int, error) { return writeItems(wr, inner) }); err != nil {
						return 0, err
					}
				}
				return len(it.([][]collItem)), nil
			})
		},
		ref: func(it any) []byte {
			o := it.([][]collItem)
			b := le(uint64(len(o)), 2)
			for _, inner := range o {
				b = append(b, le(uint64(len(inner)), 1)...)
				b = append(b, refItems(inner)...)
			}
			return b
		},
		read: func(r io.Reader, _ any) (any, error) {
			var out [][]collItem
			err := stream.ReadCollection(r, serializer.SeriLengthPrefixTypeAsUint16, func(int) error {
				var inner []collItem
				if err := stream.ReadCollection(r, serializer.SeriLengthPrefixTypeAsByte, func(int) error { return readItem(r, &inner) }); err != nil {
					return err
				}
				out = append(out, inner)
				return nil
			})
			return out, err
		},
		peekN: func(it any) int { return len(it.([][]collItem)) }})
	return ops
}

var allSeqOps = seqOps()

var seqWriterKinds = []string{"bytes.Buffer", "ByteBuffer", "ByteBuffer-presized", "ByteBuffer-rewrite", "ByteBuffer-presized-rewrite"}
var seqReaderKinds = append(append([]string{}, readerKinds...), "ChunkSeeker")

// seqCase runs one sequence; everything derives from (writerKind, seed).
func seqCase(st *stats, writerKind string, seed int64) {
	rng := rand.New(rand.NewSource(seed))
	seekable := writerKind != "bytes.Buffer"
	presized := writerKind == "ByteBuffer-presized" || writerKind == "ByteBuffer-presized-rewrite"
	rewrite := writerKind == "ByteBuffer-rewrite" || writerKind == "ByteBuffer-presized-rewrite"

	// the sequence
	n := 3 + rng.Intn(6)
	ops := make([]seqOp, 0, n)
	items := make([]any, 0, n)
	total := 0
	for len(ops) < n {
		op := allSeqOps[rng.Intn(len(allSeqOps))]
		if rng.Intn(3) == 0 { // favour the seeking helper
			op = allSeqOps[len(allSeqOps)-1-rng.Intn(5)]
		}
		if op.seek && !seekable {
			continue
		}
		it := op.gen(rng)
		ops, items = append(ops, op), append(items, it)
		total += len(op.ref(it))
	}
	fail := func(helper, symptom, format string, args ...any) {
		fp := fmt.Sprintf("stream:%s:%s", helper, symptom)
		what := fmt.Sprintf("sequence of %d helper calls into %s: %s", n, writerKind, fmt.Sprintf(format, args...))
		st.viols = append(st.viols, viol{fp, what, replayRec{Part: "stream", Pair: "sequence", Writer: writerKind, PSeed: seed, Detail: what}})
	}
	st.count("stream_sequences", 1)
	st.count("evaluations", 1)
	st.dist("stream_sequence_writers", writerKind)

	// writer and reference
	ref := &refWriter{}
	var buf *bytes.Buffer
	var bb *stream.ByteBuffer
	var w io.Writer
	switch {
	case !seekable:
		buf = &bytes.Buffer{}
		w = buf
	case presized:
		size := total + []int{1, 7, 64, 300}[rng.Intn(4)]
		if rng.Intn(6) == 0 {
			size = total / 2 // smaller than needed: the buffer has to grow past its initial size
		}
		bb = stream.NewByteBuffer(size)
		ref.img = make([]byte, size)
		w = bb
		st.count("stream_presized_buffer_cases", 1)
	default:
		bb = stream.NewByteBuffer()
		w = bb
	}
	offset := func() (int, error) {
		if bb == nil {
			return buf.Len(), nil
		}
		o, err := bb.Seek(0, io.SeekCurrent)
		return int(o), err
	}
	starts := make([]int, n)
	// one helper call + offset check; returns false when the case is over
	call := func(i int, op seqOp, it any, phase string) bool {
		err := func() (err error) {
			defer func() {
				if p := recover(); p != nil {
					err = fmt.Errorf("PANIC %v", p)
				}
			}()
			return op.write(w, it)
		}()
		st.count("stream_sequence_ops", 1)
		st.dist("stream_sequence_helpers", op.name+"|"+writerKind)
		if err != nil {
			fail(op.helper, "write-error", "%s call %d (%s) failed: %v", phase, i, op.name, err)
			return false
		}
		ref.put(op.ref(it))
		got, err := offset()
		st.count("stream_offset_checks", 1)
		if err != nil || got != ref.pos {
			fail(op.helper, "offset-after-write", "after %s call %d (%s) the writer is at offset %d (%v), the reference at %d (buffer length %d)", phase, i, op.name, got, err, ref.pos, len(ref.img))
			return false
		}
		return true
	}
	rewriteAt := -1
	if rewrite {
		rewriteAt = 1 + rng.Intn(n-1) // after this many calls one earlier element is rewritten in place
	}
	for i, op := range ops {
		if i == rewriteAt {
			j := rng.Intn(i)
			end := ref.pos
			if _, err := bb.Seek(int64(starts[j]), io.SeekStart); err != nil {
				fail("bytebuffer", "seek-error", "seek to the start of element %d: %v", j, err)
				return
			}
			ref.pos = starts[j]
			items[j] = ops[j].regen(rng, items[j])
			st.count("stream_inplace_rewrites", 1)
			if !call(j, ops[j], items[j], "in-place rewrite") {
				return
			}
			if ref.pos != starts[j]+len(ops[j].ref(items[j])) {
				panic("harness: replacement has another size")
			}
			if _, err := bb.Seek(int64(end), io.SeekStart); err != nil {
				fail("bytebuffer", "seek-error", "seek back to the saved end: %v", err)
				return
			}
			ref.pos = end
		}
		starts[i] = ref.pos
		if !call(i, op, items[i], "write") {
			return
		}
	}
	// whole image
	var img []byte
	if bb != nil {
		img, _ = bb.Bytes()
	} else {
		img = buf.Bytes()
	}
	img = append([]byte{}, img...)
	st.count("stream_image_checks", 1)
	if !bytes.Equal(img, ref.img) {
		d := firstDiff(img, ref.img)
		helper, name := "trailing-bytes", "the spare bytes after the last element"
		for i := range ops {
			if d >= starts[i] && d < starts[i]+len(ops[i].ref(items[i])) {
				helper, name = ops[i].helper, fmt.Sprintf("element %d (%s)", i, ops[i].name)
			}
		}
		fail(helper, "image-mismatch", "the buffer image (%d bytes) differs from the reference image (%d bytes) first at offset %d, inside %s", len(img), len(ref.img), d, name)
		return
	}
	// read back through every reader
	end := 0
	for i := range ops {
		if e := starts[i] + len(ops[i].ref(items[i])); e > end {
			end = e
		}
	}
	for _, rk := range seqReaderKinds {
		r := mkReader(rk, img, rand.New(rand.NewSource(seed^0x5eed)))
		st.count("stream_sequence_readbacks", 1)
		st.count("stream_readbacks", 1)
		rs, canSeek := r.(io.ReadSeeker)
		ok := true
		for i, op := range ops {
			if canSeek && op.peekN != nil {
				pn, err := stream.PeekSize(rs, lenTypes[op.lt].t)
				st.count("stream_peeksize_checks", 1)
				if err != nil || pn != op.peekN(items[i]) {
					fail(op.helper, "peeksize-mismatch:"+readerClass(rk), "PeekSize before element %d (%s) through %s returned (%d, %v), want %d", i, op.name, rk, pn, err, op.peekN(items[i]))
					ok = false
					break
				}
			}
			got, err := func() (g any, e error) {
				defer func() {
					if p := recover(); p != nil {
						e = fmt.Errorf("PANIC %v", p)
					}
				}()
				return op.read(r, items[i])
			}()
			if err != nil {
				fail(op.helper, "read-error:"+readerClass(rk), "reading element %d (%s) back through %s: %v", i, op.name, rk, err)
				ok = false
				break
			}
			if !reflect.DeepEqual(norm(got), norm(items[i])) {
				fail(op.helper, "read-mismatch:"+readerClass(rk), "element %d (%s) read back through %s differs from what was written", i, op.name, rk)
				ok = false
				break
			}
		}
		if !ok {
			return
		}
		rest, _ := io.ReadAll(r)
		if !bytes.Equal(rest, ref.img[end:]) {
			fail("sequence", "leftover:"+readerClass(rk), "after reading all elements back through %s %d bytes are left, the reference has %d spare bytes", rk, len(rest), len(ref.img)-end)
			return
		}
	}
}

func runStreamSeq(c *vf.Ctx, a *agg, workers int) {
	n := c.Pick(3000, 60000) // sequences per writer kind
	base := c.Rand("stream-seq").Int63()
	chunks := 8
	vf.Parallel(len(seqWriterKinds)*chunks, workers, func(i int) {
		st := newStats()
		wk := seqWriterKinds[i/chunks]
		perFP := map[string]int{}
		for k := i % chunks; k < n; k += chunks {
			before := len(st.viols)
			seqCase(st, wk, base+int64(i/chunks)*10_000_019+int64(k))
			if len(st.viols) > before {
				fp := st.viols[before].fp
				perFP[fp]++
				st.count("refuting_observations", 1)
				if perFP[fp] > 1 {
					st.viols = st.viols[:before]
				}
			}
		}
		if i == 0 {
			st.samples = append(st.samples, map[string]any{"part": "stream-sequence", "writer": wk, "sequences": n, "readers": seqReaderKinds})
		}
		a.merge(st)
	})
}
