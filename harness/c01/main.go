// C01 – serix binary, JSON/map form and stream helpers round-trip every encodable value.
//
// Oracle: the value itself. For every (shape, value, validation on/off) produced by the
// shared generator (verif/harness/internal/sergen): Encode → Decode into a fresh and into a
// dirty destination → structural equality up to canonical ordering, bytes-read == len,
// Encode(Decode(b)) == b, and byte-identical re-encoding of the value rebuilt with shuffled
// map insertion. Same for JSONEncode/MapEncode → JSONDecode/MapDecode where the JSON form
// can express the value. Stream Write*/Read* pairs are read back through chunking readers.
package main

import (
	"fmt"
	"math/rand"
	"os"
	"runtime"
	"sync"

	"verif/harness/internal/sergen"
	"verif/harness/internal/vf"
)

type replayRec struct {
	Part       string `json:"part"` // serix | stream | ds
	Static     bool   `json:"static,omitempty"`
	USeed      int64  `json:"universe_seed,omitempty"`
	ShapeIdx   int    `json:"shape_idx"`
	ValIdx     int    `json:"val_idx"`
	Validation bool   `json:"validation,omitempty"`
	// stream
	Pair    string `json:"pair,omitempty"`
	Reader  string `json:"reader,omitempty"`
	Writer  string `json:"writer,omitempty"`
	PSeed   int64  `json:"payload_seed,omitempty"`
	// description (not needed for re-execution)
	Shape   string `json:"shape,omitempty"`
	GoType  string `json:"go_type,omitempty"`
	Node    string `json:"minimal_failing_node,omitempty"`
	Bytes   string `json:"encoded_hex,omitempty"`
	Detail  string `json:"detail,omitempty"`
}

type agg struct {
	mu    sync.Mutex
	c     *vf.Ctx
	noted map[string]bool
}

func (a *agg) merge(st *stats) {
	a.mu.Lock()
	defer a.mu.Unlock()
	for k, v := range st.n {
		a.c.Count(k, int(v))
	}
	for cl, m := range st.distinct {
		for k := range m {
			a.c.Distinct(cl, k)
		}
	}
	for _, v := range st.viols {
		a.c.Violation(v.fp, v.what, v.rec)
	}
	for _, n := range st.notes {
		if a.noted == nil {
			a.noted = map[string]bool{}
		}
		if !a.noted[n] && len(a.noted) < 12 {
			a.noted[n] = true
			a.c.Note(n)
		}
	}
	for _, s := range st.samples {
		if a.c.WantSample() {
			a.c.Sample(s)
		}
	}
}

func run(c *vf.Ctx) {
	if c.Replay != "" {
		replay(c)
		return
	}
	c.SetRule("serix part: a case is one (type shape, value, validation on/off) triple; shapes come from a seeded grammar over run-time built Go types (reflect.StructOf/SliceOf/ArrayOf/MapOf/PointerTo, registered on a fresh serix.API per universe, dynamic struct types registered as implementations of two interface types) plus a hand-declared static universe (methods, embedding, custom codecs, named types); leaf, element and key types are drawn from the predeclared types and from a pool of defined types over them (collections over defined one-byte numbers, bools, ints, strings, byte slices and byte arrays, as field, behind a pointer and as top-level value with WithTypeSettings; counters shapes_with/*), and time.Time, *big.Int and custom Serializables also sit behind pointers (field, optional field, element, map value, top-level Encode(&t)); values are boundary-biased. evaluations = accepted encodings that were decoded and compared (binary + JSON) plus stream read-backs; distinct_nontrivial = distinct shape trees (hash of the rendered schema) with at least one accepted non-zero value; distinct_feature_pairs = parent∘child schema features co-occurring in an exercised shape; stream part: a case is (helper pair, writer, chunking reader, seeded payload sequence); stream sequences: 3-8 mixed helper calls into one writer (bytes.Buffer, empty / pre-sized ByteBuffer, with an in-place same-size rewrite of one element), checked against a byte-level reference writer: offset after every call, whole buffer image, read-back through 8 readers incl. PeekSize")
	a := &agg{c: c}
	workers := runtime.NumCPU()
	runSerix(c, a, workers)
	runStream(c, a, workers)
	runStreamSeq(c, a, workers)
	runDS(c, a)
	runIfaceSpecial(c, a)
	runReent(c)
	c.SetExhaustive(false)
	if n := c.Get("json_bytes_vary_with_map_order_observation"); n > 0 {
		c.Note(fmt.Sprintf("observation only (the determinism clause is anchored in the binary encoder): JSONEncode/MapEncode of the same value gave different bytes after rebuilding its maps in %d cases - mapEncodeMap keeps Go's map iteration order in its insertion-ordered result", n))
	}
	if n := c.Get("values_with_documented_time_saturation"); n > 0 {
		c.Note(fmt.Sprintf("%d accepted values held a time.Time outside [epoch, MaxInt64 ns]; they are compared through the documented uint64-nanosecond stamp (clamp to 0 / saturation), i.e. the oracle demands less than literal equality there", n))
	}
	c.Require("evaluations", c.Pick(90000, 1800000))
	c.Require("roundtrips_binary", c.Pick(40000, 800000))
	c.Require("roundtrips_json", c.Pick(30000, 600000))
	c.Require("stream_readbacks", c.Pick(20000, 400000))
	c.Require("ds_roundtrips", c.Pick(1500, 30000))
	c.Require("ds_roundtrips_with_two_or_more_entries", c.Pick(800, 16000))
	c.Require("ds_dirty_destination_decodes", c.Pick(1000, 20000))
	c.Require("ds_instances", 14)
	c.Require("determinism_reencodings_with_maps", c.Pick(50000, 1000000))
	c.Require("dirty_destination_decodes", c.Pick(30000, 600000))
	c.Require("nontrivial", c.Pick(500, 8000))
	c.Require("shapes_with_map_lexical_ordering_explicitly_false", c.Pick(100, 2000))
	c.Require("shapes_with_map_lexical_ordering_explicitly_true", c.Pick(100, 2000))
	c.Require("toplevel_with_type_settings_cases", c.Pick(20000, 400000))
	c.Require("arena_backed_custom_values_encoded", c.Pick(2000, 20000))
	c.Require("arena_backed_custom_map_keys_encoded", c.Pick(500, 5000))
	for _, w := range []string{"lp8", "lp16", "lp32"} {
		c.Require("boundary_length_cases/"+w, 40)
	}
	c.Require("boundary_uint256_cases", 80)
	c.Require("boundary_time_cases", 100)
	c.Require("boundary_values", 500)
	c.Require("boundary_utf8_cases/valid", 300)
	c.Require("boundary_utf8_cases/invalid", 150)
	c.Require("boundary_utf8_cases/bounds-4..6", 20)
	c.Require("feature_pairs", 90)
	c.Require("iface_special_registrations_tried", 3)
	// defined element / key types and specially treated types behind pointers (shapes with an accepted non-zero value)
	for cl, min := range map[string]int{"array-of-named-u8": 30, "slice-of-named-u8": 20, "ptr-to-array-of-named-u8": 12, "toplevel-array-of-named-u8": 6,
		"mapkey-named-u8": 10, "array-of-named-scalar": 30, "slice-of-named-scalar": 40, "map-of-named-scalar": 60, "coll-of-named-bytes": 15, "coll-of-named-bytearr": 15,
		"named-collection-type": 50, "ptr-to-time": 120, "ptr-to-time/optional": 60, "ptr-to-time/field": 25, "ptr-to-time/slice-elem": 12,
		"ptr-to-time/map-value": 8, "ptr-to-time/toplevel": 25, "ptr-to-time/in-interface-impl": 50, "optional-bigint": 40} {
		c.Require("shapes_with/"+cl, c.Pick(min, 10*min))
	}
	// disciplines (disc.go, reent.go)
	c.Require("held_sequences", c.Pick(30000, 600000))
	c.Require("held_redecodes", c.Pick(60000, 1200000))
	c.Require("held_results_rechecked", c.Pick(60000, 1200000))
	c.Require("held_redecodes_over_held_byte_slices", c.Pick(5000, 100000))
	c.Require("held_template_destinations", c.Pick(10000, 200000))
	c.Require("held_results_scribbled", c.Pick(2000, 40000))
	c.Require("held_input_buffers_overwritten", c.Pick(60000, 1200000))
	c.Require("held_encode_results_scribbled", c.Pick(30000, 600000))
	c.Require("encode_arguments_scribbled", c.Pick(3000, 60000))
	c.Require("reent_roundtrips", c.Pick(3000, 60000))
	c.Require("reent_roundtrips_with_nested_user_code", c.Pick(2000, 40000))
	c.Require("reent_max_user_code_nesting", 3)
	c.Require("reent_concurrent_roundtrips", c.Pick(2400, 48000))
	for _, k := range []string{"serializable-with-uint8-type", "serializable-with-uint32-type", "serializable-without-type", "plain-struct", "plain-struct-with-type", "itself-nested", "from-validator"} {
		c.Require("reent_user_code/reentrant-encode/"+k, c.Pick(500, 10000))
	}
	for _, k := range []string{"serializable-with-uint8-type", "serializable-with-uint32-type", "itself-nested", "plain-struct"} {
		c.Require("reent_user_code/reentrant-decode/"+k, c.Pick(500, 10000))
	}
	c.Require("reent_user_code/reentrant-json-roundtrip", c.Pick(500, 10000))
	for _, k := range []string{"encode/error", "encode/panic", "decode/error", "decode/panic"} {
		c.Require("reent_failing_user_code/"+k, c.Pick(150, 3000))
	}
	c.Require("reent_roundtrips_after_failing_user_code", c.Pick(1500, 30000))
	c.Require("reent_failing_user_code_on_fresh_api", c.Pick(500, 10000))
	c.Require("stream_cases", 300)
	c.Require("stream_sequences", c.Pick(12000, 240000))
	c.Require("stream_presized_buffer_cases", c.Pick(5000, 100000))
	c.Require("stream_inplace_rewrites", c.Pick(5000, 100000))
	c.Require("stream_offset_checks", c.Pick(60000, 1200000))
	c.Require("stream_sequence_readbacks", c.Pick(90000, 1800000))
	c.Require("stream_peeksize_checks", c.Pick(50000, 1000000))
	c.Require("stream_sequence_helpers", 100)
	c.Assume("reflect, encoding/json and math/big of the Go toolchain are correct; the harness's own Build/Extract (value tree <-> Go value) is validated by the fact that the fresh-destination comparison is silent on the vast majority of shapes")
}


func replay(c *vf.Ctx) {
	var r replayRec
	if err := c.LoadReplay(&r); err != nil {
		fmt.Fprintln(os.Stderr, err)
		os.Exit(3)
	}
	a := &agg{c: c}
	st := newStats()
	switch r.Part {
	case "serix":
		useed := r.USeed
		if r.Static && useed >= 0 {
			useed = -1
		}
		u := sergen.ByID(useed)
		s := u.Shapes[r.ShapeIdx]
		if r.ValIdx < 0 { // the whole shape (recorded when a child process died)
			nv := 40
			if r.Static {
				nv = c.Pick(200, 2000)
			}
			exercise(st, u, r.ShapeIdx, s, nv)
			break
		}
		vals := sergen.ValuesOf(u, s, valRng(r.USeed, r.ShapeIdx), r.ValIdx+1)
		runCase(st, u, r.ShapeIdx, s, vals[r.ValIdx], r.ValIdx, r.Validation, true)
	case "stream":
		streamCase(st, r.Pair, r.Writer, r.Reader, r.PSeed)
	case "ds":
		dsCase(st, r.Pair, r.PSeed)
	case "reent":
		rAPI = newReentAPI()
		rc := rCase{Seed: r.PSeed, Form: r.ShapeIdx, Val: r.Validation}
		if sym, detail := rc.roundTrip(); sym != "" {
			c.Violation("reent"+r.Pair+":"+sym+"@"+rFormNames[rc.Form], detail, r)
		} else {
			reentChild(c) // the case depends on what ran before it (failing user code, concurrency): re-run the part
		}
	case "iface-special":
		demandIfaceSpecial = true
		runIfaceSpecial(c, a)
	}
	a.merge(st)
}

func valRng(useed int64, shapeIdx int) *rand.Rand {
	return rand.New(rand.NewSource(useed*1000003 + int64(shapeIdx)*7919 + 17))
}

func child(c *vf.Ctx) {
	switch c.Child {
	case "serix":
		serixChild(c)
	case "serix-boundary":
		serixBoundaryChild(c)
	case "serix-static":
		serixStaticChild(c)
	case "serix-isolate":
		serixIsolateChild(c)
	case "reent":
		reentChild(c)
	}
}

func main() { vf.Main("C01", "exploration", run, child) }
