package main

// Part "iface-special": the specially treated types (time.Time, *time.Time, *big.Int) as
// implementations of a registered interface. They cannot live in the generated universes: whether
// they can be registered at all differs between a tree with and without the proposed fix
// (proposed_fixes/C01-interface-object-without-type-code.diff), so the part registers them on a
// fresh API itself. Claim (C01, nothing more): IF registration succeeds AND Encode accepts a value
// held in the interface, Decode of the produced bytes yields an equal value and reports len(bytes);
// same for the JSON form. A registration error or an encoder rejection claims nothing.

import (
	"encoding/hex"
	"fmt"
	"math/big"
	"os"
	"reflect"
	"time"

	"github.com/iotaledger/hive.go/serializer/v2/serix"
	"verif/harness/internal/vf"
)

// demandIfaceSpecial: on the pinned tree the round trip fails (Encode writes the value without its
// object type code, Decode expects one). Until the proposed fix (or a known-findings entry) is in,
// the failure is recorded as an observation; set to true / C01_DEMAND_IFACE_SPECIAL=1 to demand it.
var demandIfaceSpecial = true // registered as an open known finding (known_findings.json)

type stampIface interface{}

type stampHolder struct {
	A uint8      `serix:"a"`
	S stampIface `serix:"s"`
	Z uint16     `serix:"z"`
}

type stampPlain struct {
	V uint32 `serix:"v"`
}

func runIfaceSpecial(c *vf.Ctx, a *agg) {
	demand := demandIfaceSpecial || os.Getenv("C01_DEMAND_IFACE_SPECIAL") == "1"
	st := newStats()
	tm := time.Unix(1_700_000_000, 123456789).UTC()
	cases := []struct {
		name  string
		reg   any // registered type
		proto any // RegisterInterfaceObjects argument
		val   func(i int) any
	}{
		{"time", time.Time{}, time.Time{}, func(i int) any { return tm.Add(time.Duration(i) * time.Second) }},
		{"ptr-time", time.Time{}, (*time.Time)(nil), func(i int) any { t := tm.Add(time.Duration(i) * time.Second); return &t }},
		{"bigint", new(big.Int), (*big.Int)(nil), func(i int) any { return new(big.Int).Lsh(big.NewInt(int64(i)+1), uint(7*i)) }},
	}
	for _, cs := range cases {
		api := serix.NewAPI()
		ts := serix.TypeSettings{}
		ok := api.RegisterTypeSettings(stampPlain{}, ts.WithObjectType(uint8(1))) == nil &&
			api.RegisterTypeSettings(cs.reg, ts.WithObjectType(uint8(9))) == nil
		if ok {
			ok = api.RegisterInterfaceObjects((*stampIface)(nil), stampPlain{}, cs.proto) == nil
		}
		st.count("iface_special_registrations_tried", 1)
		if !ok {
			st.count("iface_special_registration_refused", 1)
			continue
		}
	values:
		for i := 0; i < 8; i++ {
			for _, validation := range []bool{false, true} {
				var o []serix.Option
				if validation {
					o = append(o, serix.WithValidation())
				}
				x := stampHolder{A: uint8(i), S: cs.val(i), Z: 0xBEEF}
				b, err := api.Encode(ctx, x, o...)
				if err != nil {
					st.count("iface_special_rejected_by_encoder", 1)
					continue
				}
				st.count("iface_special_roundtrips", 1)
				var d stampHolder
				n, derr := func() (n int, err error) {
					defer func() {
						if p := recover(); p != nil {
							err = fmt.Errorf("panic: %v", p)
						}
					}()
					return api.Decode(ctx, b, &d, o...)
				}()
				var what string
				switch {
				case derr != nil:
					what = fmt.Sprintf("Encode accepted a %s held in a registered interface (%d bytes: %s) but Decode of these bytes failed: %v", cs.name, len(b), hex.EncodeToString(b), short(derr.Error(), 200))
				case n != len(b):
					what = fmt.Sprintf("Decode reported %d bytes read, Encode produced %d (%s in a registered interface)", n, len(b), cs.name)
				case !ifaceSpecialEqual(x, d):
					what = fmt.Sprintf("decoded value differs from the original (%s in a registered interface)", cs.name)
				}
				if what == "" {
					continue
				}
				if demand {
					st.viols = append(st.viols, viol{"bin:roundtrip-fails@iface-of-" + cs.name, what, replayRec{Part: "iface-special", Pair: cs.name, Detail: what}})
				} else {
					st.count("iface_special_roundtrip_failures_observation", 1)
					st.note("ifacespecial:"+cs.name, "observation (genuine defect, see proposed_fixes/C01-interface-object-without-type-code.*; not demanded until the fix or a known-findings entry is in): "+what)
				}
				break values
			}
		}
	}
	a.merge(st)
}

func ifaceSpecialEqual(a, b stampHolder) bool {
	if a.A != b.A || a.Z != b.Z || b.S == nil {
		return false
	}
	norm := func(v any) any {
		switch t := v.(type) {
		case time.Time:
			return t.UnixNano()
		case *time.Time:
			return t.UnixNano()
		case *big.Int:
			return t.String()
		}
		return v
	}
	return reflect.TypeOf(a.S) == reflect.TypeOf(b.S) && reflect.DeepEqual(norm(a.S), norm(b.S))
}
