package main

// Workload discipline 1 (DISCIPLINES.md) for the binary form: caller-owned memory.
//
// heldPart plays a receive loop: several accepted encodings of ONE shape are decoded one after
// the other into the SAME destination object (optionally first seeded as a shallow copy of a
// template value that is still referenced). After every Decode the caller keeps a shallow copy of
// the destination (so it keeps referencing exactly the memory Decode handed out: byte slices,
// big.Ints, interface boxes, …) plus a deep copy (the value tree). After each later Decode
//   - every held copy must still extract to its deep copy        (held-decoded-data-changed)
//   - the destination must hold the value of the bytes just decoded (reused-destination-mismatch)
//   - overwriting the input bytes must not change what was decoded  (decode-aliases-input)
// and the oldest held copy is scribbled (byte slices overwritten and appended to within capacity),
// which must not change the destination either                     (held-scribble-changed-destination).
//
// What the caller does to the destination between two Decodes follows what the unchanged tree does
// with pre-existing content (see prepReuse): containers that Decode appends to / merges into are
// emptied and pointees that Decode re-uses by design are un-shared; byte slices, big.Ints,
// interfaces, strings and everything held by value stay as the previous Decode left them.
//
// encodeOwnership: an Encode result is held across later Encodes, then scribbled over its whole
// capacity; encoding the same value again must give the same bytes; and overwriting the byte
// slices of the VALUE after Encode returned must not change the bytes Encode returned.

import (
	"bytes"
	"math/rand"
	"reflect"

	"verif/harness/internal/sergen"
)

// prepReuse prepares a destination that holds an earlier decoded value for the next Decode of
// value `next`, the way a caller of the unchanged tree has to:
//   - non-byte slices and maps: Decode appends / merges               -> set to nil
//   - optional field that is absent in the next value: Decode skips it -> set to nil
//   - pointer: Decode decodes into the existing pointee (shared by design) -> the caller points the
//     destination to a shallow copy of the pointee (keeps the pointee's own slices/capacities)
//   - []byte, string, *big.Int, interface, time, scalars, arrays, nested structs: left as they are.
func prepReuse(s *sergen.Shape, rv reflect.Value, next *sergen.Val) {
	switch s.Kind {
	case sergen.Slice, sergen.Map:
		rv.Set(reflect.Zero(rv.Type()))
	case sergen.Array:
		for i := 0; i < rv.Len() && i < len(next.L); i++ {
			prepReuse(s.Elem, rv.Index(i), next.L[i])
		}
	case sergen.Struct:
		if next.Nil {
			return
		}
		for i, f := range s.Fields {
			fd := rv.Field(f.Idx)
			nv := next.L[i]
			if nv.Nil {
				fd.Set(reflect.Zero(fd.Type()))
				continue
			}
			prepReuse(f.S, fd, nv)
		}
	case sergen.Ptr:
		if rv.IsNil() || next.Nil {
			rv.Set(reflect.Zero(rv.Type()))
			return
		}
		p := reflect.New(s.Elem.T)
		p.Elem().Set(rv.Elem())
		rv.Set(p)
		prepReuse(s.Elem, p.Elem(), next.L[0])
	}
}

// scribble overwrites every byte slice reachable from rv without crossing a map (content and
// spare capacity) and returns how many it touched.
func scribble(s *sergen.Shape, rv reflect.Value, fill byte) int {
	n := 0
	switch s.Kind {
	case sergen.Bytes:
		if rv.Len() == 0 && rv.Cap() == 0 {
			return 0
		}
		b := rv.Bytes()
		b = b[:cap(b)]
		for i := range b {
			b[i] = fill
		}
		return 1
	case sergen.Array, sergen.Slice:
		for i := 0; i < rv.Len(); i++ {
			n += scribble(s.Elem, rv.Index(i), fill)
		}
	case sergen.Struct:
		for _, f := range s.Fields {
			n += scribble(f.S, rv.Field(f.Idx), fill)
		}
	case sergen.Ptr:
		if !rv.IsNil() {
			n += scribble(s.Elem, rv.Elem(), fill)
		}
	}
	return n
}

func countBytesNodes(s *sergen.Shape, v *sergen.Val) int {
	if v == nil || v.Nil {
		return 0
	}
	n := 0
	switch s.Kind {
	case sergen.Bytes:
		if len(v.S) > 0 {
			return 1
		}
	case sergen.Array, sergen.Slice:
		for _, e := range v.L {
			n += countBytesNodes(s.Elem, e)
		}
	case sergen.Struct:
		for i, f := range s.Fields {
			n += countBytesNodes(f.S, v.L[i])
		}
	case sergen.Ptr:
		n += countBytesNodes(s.Elem, v.L[0])
	}
	return n
}

type heldFrame struct {
	v *sergen.Val
	b []byte
}

type heldObj struct {
	rv    reflect.Value // pointer to a shallow copy of the destination
	want  *sergen.Val
	label string
}

func shallowCopy(s *sergen.Shape, src reflect.Value) reflect.Value {
	c := sergen.New(s)
	c.Elem().Set(src)
	return c
}

// heldPart: see the comment at the top of the file. v/b is the case's own accepted value.
func heldPart(st *stats, u *sergen.Universe, s *sergen.Shape, v *sergen.Val, b []byte, validation bool, rng *rand.Rand, add func(form, symptom, format string, args ...any)) {
	cnt := func(k string, n int) {
		if st != nil {
			st.count(k, n)
		}
	}
	// further frames: other values of the shape that the encoder accepts and that round-trip into a fresh destination
	frames := []heldFrame{{v, append([]byte{}, b...)}}
	ws := sergen.Values(s, rng, 3)
	var template *sergen.Val
	for _, w := range ws[1:] {
		wb, err, pan := safeEncode(u.API, s, sergen.Build(s, w, rng).Interface(), validation)
		if err != nil || pan != nil {
			continue
		}
		fd := sergen.New(s)
		if n, derr, dpan := safeDecode(u.API, s, append([]byte{}, wb...), fd.Interface(), validation); derr != nil || dpan != nil || n != len(wb) {
			continue
		}
		if ok, _ := sergen.Equal(s, w, sergen.Extract(s, fd.Elem()), sergen.Binary); !ok {
			continue
		}
		frames = append(frames, heldFrame{w, wb})
	}
	if len(frames) < 2 {
		cnt("held_cases_skipped_no_second_value", 1)
		return
	}
	// order: the case's own value first or last
	if rng.Intn(2) == 0 {
		frames[0], frames[len(frames)-1] = frames[len(frames)-1], frames[0]
	}
	dst := sergen.New(s)
	var held []heldObj
	if len(frames) == 3 && rng.Intn(2) == 0 {
		// the destination starts as a shallow copy of a template that stays referenced
		template = frames[2].v
		frames = frames[:2]
		tv := sergen.Build(s, template, rng)
		dst.Elem().Set(tv)
		held = append(held, heldObj{shallowCopy(s, tv), template, "the template the destination was copied from"})
		cnt("held_template_destinations", 1)
	}
	cnt("held_sequences", 1)
	for i, f := range frames {
		if len(held) > 0 {
			prepReuse(s, dst.Elem(), f.v)
		}
		in := append([]byte{}, f.b...)
		n, derr, dpan := safeDecode(u.API, s, in, dst.Interface(), validation)
		cnt("held_redecodes", 1)
		if derr != nil || dpan != nil || n != len(in) {
			if len(held) == 0 {
				return
			}
			add("bin", "reused-destination-decode-fails", "Decode (frame %d) into a destination that was decoded into before (containers emptied, pointers un-shared by the caller) failed or read %d of %d bytes: %v %v", i, n, len(in), derr, dpan)
			return
		}
		if ok, path := sergen.Equal(s, f.v, sergen.Extract(s, dst.Elem()), sergen.Binary); !ok {
			if len(held) == 0 {
				return
			}
			add("bin", "reused-destination-mismatch", "Decode (frame %d) into a destination that was decoded into before (containers emptied, pointers un-shared by the caller) differs from the encoded value at %s", i, path)
			return
		}
		// the input buffer belongs to the caller: recycle it
		for j := range in {
			in[j] ^= 0x5A
		}
		cnt("held_input_buffers_overwritten", 1)
		if ok, path := sergen.Equal(s, f.v, sergen.Extract(s, dst.Elem()), sergen.Binary); !ok {
			add("bin", "decode-aliases-input", "after Decode returned the caller overwrote the input bytes and the decoded value changed at %s", path)
			return
		}
		for _, h := range held {
			cnt("held_results_rechecked", 1)
			if ok, path := sergen.Equal(s, h.want, sergen.Extract(s, h.rv.Elem()), sergen.Binary); !ok {
				add("bin", "held-decoded-data-changed", "a later Decode (frame %d) into the same destination object changed %s at %s (memory handed out by Decode / owned by the caller was written again)", i, h.label, path)
				return
			}
		}
		if nb := countBytesNodes(s, f.v); nb > 0 && len(held) > 0 {
			cnt("held_redecodes_over_held_byte_slices", 1)
		}
		held = append(held, heldObj{shallowCopy(s, dst.Elem()), f.v, "the value of an earlier Decode that the caller still holds"})
		// scribble the oldest held copy; the destination must not notice
		if len(held) >= 2 && rng.Intn(2) == 0 {
			if k := scribble(s, held[0].rv.Elem(), 0xEE); k > 0 {
				cnt("held_results_scribbled", 1)
				if ok, path := sergen.Equal(s, f.v, sergen.Extract(s, dst.Elem()), sergen.Binary); !ok {
					add("bin", "held-scribble-changed-destination", "overwriting the byte slices of an earlier decoded value (held by the caller) changed the value decoded later into the same destination at %s", path)
					return
				}
				for _, h := range held[1:] {
					if ok, path := sergen.Equal(s, h.want, sergen.Extract(s, h.rv.Elem()), sergen.Binary); !ok {
						add("bin", "held-scribble-changed-other-held", "overwriting the byte slices of one held decoded value changed another held value at %s", path)
						return
					}
				}
			}
			held = held[1:]
		}
	}
}

// encodeOwnership: b (with copy b0) is the Encode result of the case, held while the oracle made
// its later Encode calls on the same API.
func encodeOwnership(st *stats, u *sergen.Universe, s *sergen.Shape, v *sergen.Val, b, b0 []byte, validation bool, bseed int64, add func(form, symptom, format string, args ...any)) {
	st.count("held_encode_results_rechecked", 1)
	if !bytes.Equal(b, b0) {
		add("bin", "held-encode-result-changed", "the bytes an earlier Encode returned changed while later Encode/Decode calls ran on the same API (first difference at offset %d of %d)", firstDiff(b, b0), len(b))
		return
	}
	// scribble the held result over its whole capacity, then encode the same value again
	full := b[:cap(b)]
	for i := range full {
		full[i] = 0xC3
	}
	st.count("held_encode_results_scribbled", 1)
	x2 := sergen.Build(s, v, rand.New(rand.NewSource(bseed+101)))
	b2, err2, pan2 := safeEncode(u.API, s, x2.Interface(), validation)
	if err2 != nil || pan2 != nil {
		add("bin", "encode-after-scribble-fails", "after the caller overwrote an earlier Encode result, encoding the same value again failed: %v %v", err2, pan2)
		return
	}
	if !bytes.Equal(b2, b0) {
		add("bin", "encode-depends-on-scribbled-result", "after the caller overwrote an earlier Encode result, encoding the same value again gave other bytes (first difference at offset %d of %d)", firstDiff(b2, b0), len(b0))
		return
	}
	// the value belongs to the caller as well: overwrite its byte slices after Encode returned
	{
		xa := reflect.New(s.T)
		xa.Elem().Set(x2)
		if scribble(s, xa.Elem(), 0x3C) > 0 {
			st.count("encode_arguments_scribbled", 1)
			if !bytes.Equal(b2, b0) {
				add("bin", "encode-result-aliases-argument", "overwriting the byte slices of the value after Encode returned changed the bytes Encode had returned (first difference at offset %d)", firstDiff(b2, b0))
			}
		}
	}
}
