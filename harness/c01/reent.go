package main

// Workload disciplines 2 and 3 (DISCIPLINES.md) for the binary form: user codec code that calls back
// into the SAME serix API, and user codec code that fails or panics, after which the API is used again.
//
// The types below are custom Serializable/Deserializable implementations (with uint8 and uint32
// object types and without one) whose Encode/Decode call api.Encode/api.Decode (and JSONEncode +
// JSONDecode as a side round trip) for their parts: nested Serializables with their own object
// type, without one, plain structs with and without object type, themselves recursively (depth 1-3).
// Registered validators call into the API as well. Oracle: an independent hand-written reference
// encoder (ref*): Encode == reference bytes, Decode reads all bytes and the decoded value has the
// same reference bytes. The same is run from several goroutines on the shared API, and with a
// failure (error or panic) injected at one user-code invocation of a collection, after which clean
// round trips on the same API must still hold.

import (
	"bytes"
	"context"
	"encoding/binary"
	"errors"
	"fmt"
	"math/rand"
	"sort"
	"sync"
	"sync/atomic"
	"time"

	"github.com/iotaledger/hive.go/serializer/v2/serix"
	"verif/harness/internal/vf"
)

var rAPI *serix.API

// ---- failure injection / counting of user-code invocations
var (
	rCalls   atomic.Int64 // user-code invocations since the last reset
	rFailAt  atomic.Int64 // 0 = never
	rPanic   atomic.Bool
	rFired   atomic.Int64
	rDepth   atomic.Int64 // current nesting of user code (sequential phases only)
	rMaxDep  atomic.Int64
	rKindsMu sync.Mutex
	rKinds   = map[string]int{}
)

type rInjected struct{}

var errInjected = errors.New("injected user-code failure")

func rHook(kind string) error {
	n := rCalls.Add(1)
	rKindsMu.Lock()
	rKinds[kind]++
	rKindsMu.Unlock()
	if at := rFailAt.Load(); at != 0 && n == at {
		rFired.Add(1)
		if rPanic.Load() {
			panic(rInjected{})
		}
		return errInjected
	}
	return nil
}

func rEnter() func() {
	d := rDepth.Add(1)
	for {
		m := rMaxDep.Load()
		if d <= m || rMaxDep.CompareAndSwap(m, d) {
			break
		}
	}
	return func() { rDepth.Add(-1) }
}

// ---- leaves: Serializables that do everything on their own
type rLeaf struct{ N uint16 }   // object type uint8(0x22)
type rLeaf32 struct{ N uint16 } // object type uint32(0x33445566)
type rLeafNo struct{ N uint16 } // no object type

func leafEnc(kind string, n uint16) ([]byte, error) {
	if err := rHook(kind); err != nil {
		return nil, err
	}
	return []byte{byte(n), byte(n >> 8)}, nil
}
func leafDec(kind string, b []byte, n *uint16) (int, error) {
	if err := rHook(kind); err != nil {
		return 0, err
	}
	if len(b) < 2 {
		return 0, errors.New("leaf: short")
	}
	*n = binary.LittleEndian.Uint16(b)
	return 2, nil
}
func (l rLeaf) Encode() ([]byte, error)         { return leafEnc("leaf.encode", l.N) }
func (l *rLeaf) Decode(b []byte) (int, error)   { return leafDec("leaf.decode", b, &l.N) }
func (l rLeaf32) Encode() ([]byte, error)       { return leafEnc("leaf32.encode", l.N) }
func (l *rLeaf32) Decode(b []byte) (int, error) { return leafDec("leaf32.decode", b, &l.N) }
func (l rLeafNo) Encode() ([]byte, error)       { return leafEnc("leafno.encode", l.N) }
func (l *rLeafNo) Decode(b []byte) (int, error) { return leafDec("leafno.decode", b, &l.N) }
func (rLeaf) isR()                              {}

// ---- plain structs handled by serix itself
type rPlain struct {
	A uint32           `serix:"a"`
	B []byte           `serix:"b,lenPrefix=uint8"`
	S string           `serix:"s,lenPrefix=uint16"`
	M map[uint8]uint16 `serix:"m,lenPrefix=uint8"`
	L rLeaf            `serix:"l"`
}
// rJ also travels through the JSON form (string-keyed / map-free, no custom binary-only codecs)
type rJ struct {
	A uint32   `serix:"a"`
	B []byte   `serix:"b,lenPrefix=uint8"`
	S string   `serix:"s,lenPrefix=uint16"`
	U []uint16 `serix:"u,lenPrefix=uint8"`
}

func refJ(p rJ) []byte {
	out := binary.LittleEndian.AppendUint32(nil, p.A)
	out = append(out, byte(len(p.B)))
	out = append(out, p.B...)
	out = binary.LittleEndian.AppendUint16(out, uint16(len(p.S)))
	out = append(out, p.S...)
	out = append(out, byte(len(p.U)))
	for _, u := range p.U {
		out = binary.LittleEndian.AppendUint16(out, u)
	}
	return out
}
func genJ(r *rand.Rand) rJ {
	p := genPlain(r)
	j := rJ{A: p.A, B: p.B, S: p.S}
	for i := r.Intn(4); i > 0; i-- {
		j.U = append(j.U, uint16(r.Intn(65536)))
	}
	return j
}

type rPlainC rPlain // object type uint8(0x44); has a validator that calls into the API

// ---- the re-entrant Serializable
const (
	mLeaf = 1 << iota
	mLeaf32
	mLeafNo
	mPlain
	mPlainC
	mJSON
	mInner
	mValidate
)

type rBox struct { // object type uint8(0x11)
	Mode  uint8
	Tag   uint8
	L     rLeaf
	L32   rLeaf32
	LN    rLeafNo
	P     rPlain
	PC    rPlainC
	J     rJ
	Inner *rBox
}

func (rBox) isR() {}

func rOpts(mode uint8) []serix.Option {
	if mode&mValidate != 0 {
		return []serix.Option{serix.WithValidation()}
	}
	return nil
}

func (bx rBox) Encode() ([]byte, error) {
	defer rEnter()()
	if err := rHook("box.encode"); err != nil {
		return nil, err
	}
	o := rOpts(bx.Mode)
	out := []byte{bx.Mode, bx.Tag}
	app := func(kind string, x any) error {
		rKindsMu.Lock()
		rKinds["reentrant-encode/"+kind]++
		rKindsMu.Unlock()
		b, err := rAPI.Encode(ctx, x, o...)
		if err != nil {
			return err
		}
		out = append(out, b...)
		return nil
	}
	if bx.Mode&mLeaf != 0 {
		if err := app("serializable-with-uint8-type", bx.L); err != nil {
			return nil, err
		}
	}
	if bx.Mode&mLeaf32 != 0 {
		if err := app("serializable-with-uint32-type", &bx.L32); err != nil {
			return nil, err
		}
	}
	if bx.Mode&mLeafNo != 0 {
		if err := app("serializable-without-type", bx.LN); err != nil {
			return nil, err
		}
	}
	if bx.Mode&mPlain != 0 {
		if err := app("plain-struct", bx.P); err != nil {
			return nil, err
		}
	}
	if bx.Mode&mPlainC != 0 {
		if err := app("plain-struct-with-type", &bx.PC); err != nil {
			return nil, err
		}
	}
	if bx.Mode&mJSON != 0 {
		// side round trip through the JSON form of the same API, then the binary form
		rKindsMu.Lock()
		rKinds["reentrant-json-roundtrip"]++
		rKindsMu.Unlock()
		jb, err := rAPI.JSONEncode(ctx, bx.J, o...)
		if err != nil {
			return nil, err
		}
		var back rJ
		if err := rAPI.JSONDecode(ctx, jb, &back, o...); err != nil {
			return nil, err
		}
		if !bytes.Equal(refJ(back), refJ(bx.J)) {
			return nil, fmt.Errorf("re-entrant JSON round trip inside Serializable.Encode changed the value")
		}
		if err := app("plain-struct", bx.J); err != nil {
			return nil, err
		}
	}
	if bx.Mode&mInner != 0 {
		var err error
		if bx.Tag&1 == 0 {
			err = app("itself-nested", *bx.Inner)
		} else {
			err = app("itself-nested", bx.Inner)
		}
		if err != nil {
			return nil, err
		}
	}
	return out, nil
}

func (bx *rBox) Decode(b []byte) (int, error) {
	defer rEnter()()
	if err := rHook("box.decode"); err != nil {
		return 0, err
	}
	if len(b) < 2 {
		return 0, errors.New("box: short")
	}
	bx.Mode, bx.Tag = b[0], b[1]
	off := 2
	o := rOpts(bx.Mode)
	rd := func(kind string, dst any) error {
		rKindsMu.Lock()
		rKinds["reentrant-decode/"+kind]++
		rKindsMu.Unlock()
		n, err := rAPI.Decode(ctx, b[off:], dst, o...)
		if err != nil {
			return err
		}
		off += n
		return nil
	}
	if bx.Mode&mLeaf != 0 {
		if err := rd("serializable-with-uint8-type", &bx.L); err != nil {
			return 0, err
		}
	}
	if bx.Mode&mLeaf32 != 0 {
		if err := rd("serializable-with-uint32-type", &bx.L32); err != nil {
			return 0, err
		}
	}
	if bx.Mode&mLeafNo != 0 {
		if err := rd("serializable-without-type", &bx.LN); err != nil {
			return 0, err
		}
	}
	if bx.Mode&mPlain != 0 {
		if err := rd("plain-struct", &bx.P); err != nil {
			return 0, err
		}
	}
	if bx.Mode&mPlainC != 0 {
		if err := rd("plain-struct-with-type", &bx.PC); err != nil {
			return 0, err
		}
	}
	if bx.Mode&mJSON != 0 {
		if err := rd("plain-struct", &bx.J); err != nil {
			return 0, err
		}
	}
	if bx.Mode&mInner != 0 {
		bx.Inner = new(rBox)
		if err := rd("itself-nested", bx.Inner); err != nil {
			return 0, err
		}
	}
	return off, nil
}

type rIface interface{ isR() }

type rHolder struct {
	X    rIface  `serix:"x"`
	List []rBox  `serix:"list,lenPrefix=uint8"`
	Opt  *rBox   `serix:"opt,optional"`
	P    rPlainC `serix:"p"`
}

// ---- independent reference encoder
func refLeaf(l rLeaf) []byte     { return []byte{0x22, byte(l.N), byte(l.N >> 8)} }
func refLeaf32(l rLeaf32) []byte { return []byte{0x66, 0x55, 0x44, 0x33, byte(l.N), byte(l.N >> 8)} }
func refLeafNo(l rLeafNo) []byte { return []byte{byte(l.N), byte(l.N >> 8)} }
func refPlain(p rPlain) []byte {
	out := binary.LittleEndian.AppendUint32(nil, p.A)
	out = append(out, byte(len(p.B)))
	out = append(out, p.B...)
	out = binary.LittleEndian.AppendUint16(out, uint16(len(p.S)))
	out = append(out, p.S...)
	keys := make([]int, 0, len(p.M))
	for k := range p.M {
		keys = append(keys, int(k))
	}
	sort.Ints(keys)
	out = append(out, byte(len(keys)))
	for _, k := range keys {
		out = append(out, byte(k))
		out = binary.LittleEndian.AppendUint16(out, p.M[uint8(k)])
	}
	return append(out, refLeaf(p.L)...)
}
func refPlainC(p rPlainC) []byte { return append([]byte{0x44}, refPlain(rPlain(p))...) }
func refBox(bx rBox) []byte {
	out := []byte{0x11, bx.Mode, bx.Tag}
	if bx.Mode&mLeaf != 0 {
		out = append(out, refLeaf(bx.L)...)
	}
	if bx.Mode&mLeaf32 != 0 {
		out = append(out, refLeaf32(bx.L32)...)
	}
	if bx.Mode&mLeafNo != 0 {
		out = append(out, refLeafNo(bx.LN)...)
	}
	if bx.Mode&mPlain != 0 {
		out = append(out, refPlain(bx.P)...)
	}
	if bx.Mode&mPlainC != 0 {
		out = append(out, refPlainC(bx.PC)...)
	}
	if bx.Mode&mJSON != 0 {
		out = append(out, refJ(bx.J)...)
	}
	if bx.Mode&mInner != 0 && bx.Inner != nil {
		out = append(out, refBox(*bx.Inner)...)
	}
	return out
}
func refHolder(h rHolder) []byte {
	var out []byte
	switch x := h.X.(type) {
	case rBox:
		out = refBox(x)
	case rLeaf:
		out = refLeaf(x)
	}
	out = append(out, byte(len(h.List)))
	for _, b := range h.List {
		out = append(out, refBox(b)...)
	}
	if h.Opt == nil {
		out = append(out, 0, 0, 0, 0)
	} else {
		rb := refBox(*h.Opt)
		out = binary.LittleEndian.AppendUint32(out, uint32(len(rb)))
		out = append(out, rb...)
	}
	return append(out, refPlainC(h.P)...)
}

// ---- generation
func genPlain(r *rand.Rand) rPlain {
	p := rPlain{A: r.Uint32(), L: rLeaf{uint16(r.Intn(65536))}}
	p.B = make([]byte, r.Intn(6))
	r.Read(p.B)
	s := make([]byte, r.Intn(5))
	for i := range s {
		s[i] = byte('a' + r.Intn(26))
	}
	p.S = string(s)
	p.M = map[uint8]uint16{}
	for i := r.Intn(4); i > 0; i-- {
		p.M[uint8(r.Intn(256))] = uint16(r.Intn(65536))
	}
	return p
}
func genBox(r *rand.Rand, depth int) rBox {
	bx := rBox{Mode: uint8(r.Intn(256)), Tag: uint8(r.Intn(256))}
	if r.Intn(3) == 0 {
		bx.Mode |= mLeaf | mInner
	}
	if depth <= 1 {
		bx.Mode &^= mInner
	}
	bx.L, bx.L32, bx.LN = rLeaf{uint16(r.Intn(65536))}, rLeaf32{uint16(r.Intn(65536))}, rLeafNo{uint16(r.Intn(65536))}
	if bx.Mode&mPlain != 0 {
		bx.P = genPlain(r)
	}
	if bx.Mode&mPlainC != 0 {
		bx.PC = rPlainC(genPlain(r))
	}
	if bx.Mode&mJSON != 0 {
		bx.J = genJ(r)
	}
	if bx.Mode&mInner != 0 {
		in := genBox(r, depth-1)
		bx.Inner = &in
	}
	// parts that are not on the wire stay zero so that the decoded value is comparable
	if bx.Mode&mLeaf == 0 {
		bx.L = rLeaf{}
	}
	if bx.Mode&mLeaf32 == 0 {
		bx.L32 = rLeaf32{}
	}
	if bx.Mode&mLeafNo == 0 {
		bx.LN = rLeafNo{}
	}
	return bx
}
func genHolder(r *rand.Rand) rHolder {
	h := rHolder{P: rPlainC(genPlain(r))}
	if r.Intn(3) == 0 {
		h.X = rLeaf{uint16(r.Intn(65536))}
	} else {
		h.X = genBox(r, 3)
	}
	for i := r.Intn(4); i > 0; i-- {
		h.List = append(h.List, genBox(r, 2))
	}
	if r.Intn(2) == 0 {
		b := genBox(r, 2)
		h.Opt = &b
	}
	return h
}

func newReentAPI() *serix.API {
	api := serix.NewAPI()
	ts := serix.TypeSettings{}
	must := func(err error) {
		if err != nil {
			panic(err)
		}
	}
	must(api.RegisterTypeSettings(rBox{}, ts.WithObjectType(uint8(0x11))))
	must(api.RegisterTypeSettings(rLeaf{}, ts.WithObjectType(uint8(0x22))))
	must(api.RegisterTypeSettings(rLeaf32{}, ts.WithObjectType(uint32(0x33445566))))
	must(api.RegisterTypeSettings(rPlainC{}, ts.WithObjectType(uint8(0x44))))
	must(api.RegisterInterfaceObjects((*rIface)(nil), rBox{}, rLeaf{}))
	// validators that call into the API
	must(api.RegisterValidator(rPlainC{}, func(ctx context.Context, p rPlainC) error {
		if err := rHook("validator.plainc"); err != nil {
			return err
		}
		rKindsMu.Lock()
		rKinds["reentrant-encode/from-validator"]++
		rKindsMu.Unlock()
		b, err := api.Encode(ctx, p.L, serix.WithValidation())
		if err != nil {
			return err
		}
		if !bytes.Equal(b, refLeaf(p.L)) {
			return fmt.Errorf("re-entrant Encode inside a validator gave %x, reference %x", b, refLeaf(p.L))
		}
		var back rLeaf
		if n, err := api.Decode(ctx, b, &back); err != nil || n != len(b) || back != p.L {
			return fmt.Errorf("re-entrant Decode inside a validator failed: %v", err)
		}
		return nil
	}))
	must(api.RegisterValidator(rLeaf32{}, func(ctx context.Context, l rLeaf32) error {
		if err := rHook("validator.leaf32"); err != nil {
			return err
		}
		rKindsMu.Lock()
		rKinds["reentrant-encode/from-validator"]++
		rKindsMu.Unlock()
		b, err := api.Encode(ctx, rLeaf{l.N})
		if err != nil {
			return err
		}
		if !bytes.Equal(b, refLeaf(rLeaf{l.N})) {
			return fmt.Errorf("re-entrant Encode inside a validator gave %x", b)
		}
		return nil
	}))
	return api
}

// ---- one round trip
type rCase struct {
	Seed int64 `json:"seed"`
	Form int   `json:"form"` // 0 box by value, 1 *box, 2 holder, 3 *holder
	Val  bool  `json:"validation"`
}

var rFormNames = []string{"box", "ptr-box", "holder", "ptr-holder"}

func (rc rCase) build() (x any, ref []byte, fresh func() any, refOf func(any) []byte) {
	r := rand.New(rand.NewSource(rc.Seed))
	switch rc.Form {
	case 0, 1:
		bx := genBox(r, 3)
		x = bx
		if rc.Form == 1 {
			x = &bx
		}
		return x, refBox(bx), func() any { return new(rBox) }, func(d any) []byte { return refBox(*d.(*rBox)) }
	default:
		h := genHolder(r)
		x = h
		if rc.Form == 3 {
			x = &h
		}
		return x, refHolder(h), func() any { return new(rHolder) }, func(d any) []byte { return refHolder(*d.(*rHolder)) }
	}
}

func rEncode(x any, val bool) (b []byte, err error, pan any) {
	defer func() {
		if p := recover(); p != nil {
			pan = p
		}
	}()
	b, err = rAPI.Encode(ctx, x, rOptsB(val)...)
	return
}
func rDecode(b []byte, dst any, val bool) (n int, err error, pan any) {
	defer func() {
		if p := recover(); p != nil {
			pan = p
		}
	}()
	n, err = rAPI.Decode(ctx, b, dst, rOptsB(val)...)
	return
}
func rOptsB(val bool) []serix.Option {
	if val {
		return []serix.Option{serix.WithValidation()}
	}
	return nil
}

// roundTrip returns "" or (symptom, detail).
func (rc rCase) roundTrip() (string, string) {
	x, ref, fresh, refOf := rc.build()
	b, err, pan := rEncode(x, rc.Val)
	if err != nil || pan != nil {
		return "encode-fails", fmt.Sprintf("Encode of a Serializable whose Encode calls back into the same API failed: %v %v", err, pan)
	}
	if !bytes.Equal(b, ref) {
		return "encoded-bytes-differ-from-reference", fmt.Sprintf("Encode gave %x, the documented layout is %x (first difference at offset %d)", cut(b), cut(ref), firstDiff(b, ref))
	}
	dst := fresh()
	in := append([]byte{}, b...)
	n, derr, dpan := rDecode(in, dst, rc.Val)
	if derr != nil || dpan != nil {
		return "decode-fails", fmt.Sprintf("Encode accepted the value, Decode (Deserializable calling back into the same API) failed: %v %v", derr, dpan)
	}
	if n != len(b) {
		return "bytes-read", fmt.Sprintf("Decode reported %d bytes, Encode produced %d", n, len(b))
	}
	for i := range in {
		in[i] ^= 0xFF
	}
	if got := refOf(dst); !bytes.Equal(got, ref) {
		return "value-mismatch", fmt.Sprintf("the decoded value differs from the original (reference bytes differ at offset %d)", firstDiff(got, ref))
	}
	return "", ""
}

func cut(b []byte) []byte {
	if len(b) > 48 {
		return b[:48]
	}
	return b
}

func rResetCalls() { rCalls.Store(0); rFailAt.Store(0) }

// child "reent"
func reentChild(c *vf.Ctx) {
	rAPI = newReentAPI()
	rng := c.Rand("reent")
	viol := func(phase string, rc rCase, sym, detail string) {
		c.Violation("reent"+phase+":"+sym+"@"+rFormNames[rc.Form], detail+fmt.Sprintf(" (form %s, validation=%v)", rFormNames[rc.Form], rc.Val),
			replayRec{Part: "reent", PSeed: rc.Seed, ShapeIdx: rc.Form, Validation: rc.Val, Pair: phase, Detail: detail})
	}
	// A: sequential
	nA := c.Pick(3000, 60000)
	for i := 0; i < nA; i++ {
		rc := rCase{Seed: rng.Int63(), Form: i % 4, Val: i%8 >= 4}
		rResetCalls()
		sym, detail := rc.roundTrip()
		c.Count("reent_roundtrips", 1)
		c.Count("evaluations", 1)
		if rCalls.Load() >= 3 {
			c.Count("reent_roundtrips_with_nested_user_code", 1)
		}
		if sym != "" {
			viol("", rc, sym, detail)
			if c.Get("reent_violations")+1 > 12 {
				break
			}
			c.Count("reent_violations", 1)
		}
	}
	c.Count("reent_max_user_code_nesting", int(rMaxDep.Load()))
	// B: the same from several goroutines on the shared API
	nG, nB := 4, c.Pick(600, 12000)
	seeds := make([][]rCase, nG)
	for g := range seeds {
		for i := 0; i < nB; i++ {
			seeds[g] = append(seeds[g], rCase{Seed: rng.Int63(), Form: (i + g) % 4, Val: i%8 >= 4})
		}
	}
	var wg sync.WaitGroup
	var mu sync.Mutex
	nViol := 0
	for g := 0; g < nG; g++ {
		wg.Add(1)
		go func(g int) {
			defer wg.Done()
			for _, rc := range seeds[g] {
				sym, detail := rc.roundTrip()
				if sym != "" {
					mu.Lock()
					if nViol < 6 {
						nViol++
						viol("-concurrent", rc, sym, detail)
					}
					mu.Unlock()
				}
			}
		}(g)
	}
	wg.Wait()
	c.Count("reent_concurrent_roundtrips", nG*nB)
	c.Count("evaluations", nG*nB)
	// C: user code that fails or panics at one invocation, then the API is used again
	nC := c.Pick(1500, 30000)
	for i := 0; i < nC; i++ {
		rc := rCase{Seed: rng.Int63(), Form: 2 + i%2, Val: i%4 >= 2}
		x, ref, fresh, _ := rc.build()
		rResetCalls()
		b, err, pan := rEncode(x, rc.Val)
		total := rCalls.Load()
		if err != nil || pan != nil || total == 0 {
			continue
		}
		decodeSide := i%2 == 1
		if decodeSide {
			rResetCalls()
			if _, derr, dpan := rDecode(append([]byte{}, b...), fresh(), rc.Val); derr != nil || dpan != nil {
				continue
			}
			total = rCalls.Load()
		}
		if i%2 == 0 || i%3 == 0 {
			// a fresh API (the dry run above ran on the previous one): the failing call is the first use of its types (per-API caches are filled by it)
			rAPI = newReentAPI()
			c.Count("reent_failing_user_code_on_fresh_api", 1)
			if i%4 == 0 {
				// ... or the second
				rCase{Seed: rng.Int63(), Form: i / 4 % 4, Val: rc.Val}.roundTrip()
			}
		}
		at := 1 + rng.Int63n(total)
		panics := rng.Intn(2) == 0
		rCalls.Store(0)
		rPanic.Store(panics)
		fired0 := rFired.Load()
		rFailAt.Store(at)
		var ferr error
		var fpan any
		var fb []byte
		if decodeSide {
			_, ferr, fpan = rDecode(append([]byte{}, b...), fresh(), rc.Val)
		} else {
			fb, ferr, fpan = rEncode(x, rc.Val)
		}
		rFailAt.Store(0)
		rDepth.Store(0)
		if rFired.Load() == fired0 {
			c.Count("reent_failure_not_reached", 1)
			continue
		}
		kind := "error"
		if panics {
			kind = "panic"
		}
		side := "encode"
		if decodeSide {
			side = "decode"
		}
		c.Count("reent_failing_user_code/"+side+"/"+kind, 1)
		if ferr == nil && fpan == nil {
			if decodeSide {
				c.Count("reent_failure_swallowed_by_decode_observation", 1)
			} else if !bytes.Equal(fb, ref) {
				viol("-fail", rc, "encode-accepted-although-user-code-failed", "a Serializable / validator of the value returned an error (or panicked) and Encode still returned bytes without error that differ from the documented layout")
			}
		}
		// the API is used again: the same value and another one
		for k, rc2 := range []rCase{rc, {Seed: rng.Int63(), Form: i % 4, Val: rc.Val}} {
			rResetCalls()
			sym, detail := rc2.roundTrip()
			c.Count("reent_roundtrips_after_failing_user_code", 1)
			c.Count("evaluations", 1)
			if sym != "" {
				viol("-after-"+kind, rc2, sym, fmt.Sprintf("after user code failed (%s at invocation %d of %d during %s) a round trip on the same API (k=%d): %s", kind, at, total, side, k, detail))
				break
			}
		}
	}
	rKindsMu.Lock()
	for k, n := range rKinds {
		c.Count("reent_user_code/"+k, n)
	}
	rKindsMu.Unlock()
}

func runReent(c *vf.Ctx) {
	res := c.RunChild(vf.ChildOpts{Name: "reent", MemKB: 3 << 20, Timeout: time.Duration(c.Pick(4, 20)) * time.Minute})
	switch {
	case res.TimedOut:
		c.Inconclusive("reent child hit the watchdog at " + res.LastMark)
	case res.ExitCode != 0:
		c.Inconclusive(fmt.Sprintf("reent child died (exit %d) at %q", res.ExitCode, res.LastMark))
	}
}
