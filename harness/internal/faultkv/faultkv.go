// Package faultkv wraps a kvstore.KVStore (normally mapdb) in a harness-side
// store that numbers every fallible call ("site") and, at chosen sites, either
// fails (returns ErrInjected *before* applying the call) or crashes (panics with
// *Crash before or after applying the call). Codec functions of the harness can
// share the same Injector so that store calls and codec calls are numbered in
// one sequence.
//
// The wrapper holds no lock of its own around the inner call, so in concurrent
// stress runs it does not serialise the system under test.
package faultkv

import (
	"errors"
	"fmt"
	"sync"
	"sync/atomic"

	"github.com/iotaledger/hive.go/kvstore"
)

// ErrInjected is the sentinel carried by every injected failure.
var ErrInjected = errors.New("faultkv: injected failure")

// Action says what happens at a site.
type Action uint8

const (
	None        Action = iota
	Fail               // return ErrInjected, do not apply
	CrashBefore        // panic(*Crash) before applying
	CrashAfter         // apply, then panic(*Crash)
)

func (a Action) String() string {
	return [...]string{"none", "fail", "crash-before", "crash-after"}[a]
}

// Crash is the panic value of an injected crash.
type Crash struct {
	Site  int
	Kind  string
	After bool
}

func (c *Crash) Error() string {
	return fmt.Sprintf("faultkv: injected crash at site %d (%s, after=%v)", c.Site, c.Kind, c.After)
}

// Fired records one injected fault.
type Fired struct {
	Site   int
	Kind   string
	Action Action
}

// Injector numbers sites 1,2,3,… and decides which of them fail.
type Injector struct {
	n     atomic.Int64
	plan  map[int]Action
	trace bool

	mu    sync.Mutex
	kinds []string // kind of site i+1 (only when tracing)
	fired []Fired

	// Jitter, when set, is called at every site (stress runs: widen windows).
	Jitter func(site int64)

	// Hook, when set, is called at every site BEFORE the call is forwarded to the inner
	// store (and before the inner store copies any argument). The harness may use it to
	// run other work inside that window (it must not touch the object that is making
	// the store call).
	Hook func(site int, kind string)
}

// NewInjector creates an injector. plan maps 1-based site numbers to actions
// (nil: no faults). With trace the kind of every site is remembered.
func NewInjector(plan map[int]Action, trace bool) *Injector {
	return &Injector{plan: plan, trace: trace}
}

// Hit registers one fallible call and returns the action to take there.
func (in *Injector) Hit(kind string) (site int, act Action) {
	n := in.n.Add(1)
	site = int(n)
	if in.Jitter != nil {
		in.Jitter(n)
	}
	if in.Hook != nil {
		in.Hook(site, kind)
	}
	if in.trace {
		in.mu.Lock()
		in.kinds = append(in.kinds, kind)
		in.mu.Unlock()
	}
	if in.plan != nil {
		if a, ok := in.plan[site]; ok && a != None {
			in.mu.Lock()
			in.fired = append(in.fired, Fired{site, kind, a})
			in.mu.Unlock()
			return site, a
		}
	}
	return site, None
}

// FailHere is the helper for codec functions: it registers a site and returns a
// non-nil error when that site is planned to fail (crash actions are treated
// as Fail for codecs).
func (in *Injector) FailHere(kind string) error {
	site, act := in.Hit(kind)
	if act != None {
		return fmt.Errorf("%w at site %d (%s)", ErrInjected, site, kind)
	}
	return nil
}

// Sites returns how many sites were hit so far.
func (in *Injector) Sites() int { return int(in.n.Load()) }

// Kinds returns the kinds of the traced sites.
func (in *Injector) Kinds() []string {
	in.mu.Lock()
	defer in.mu.Unlock()
	return append([]string(nil), in.kinds...)
}

// FiredCount returns how many faults were injected so far.
func (in *Injector) FiredCount() int {
	in.mu.Lock()
	defer in.mu.Unlock()
	return len(in.fired)
}

// Fired returns the faults injected so far.
func (in *Injector) Fired() []Fired {
	in.mu.Lock()
	defer in.mu.Unlock()
	return append([]Fired(nil), in.fired...)
}

// Store is the fault-injecting KVStore.
type Store struct {
	Inner kvstore.KVStore
	In    *Injector
}

// Wrap wraps inner with the injector.
func Wrap(inner kvstore.KVStore, in *Injector) *Store { return &Store{Inner: inner, In: in} }

var _ kvstore.KVStore = (*Store)(nil)

// pre handles the "before" half of a site; it returns the site, whether to
// crash after applying, and an error when the call must fail.
func (s *Store) pre(kind string) (site int, crashAfter bool, err error) {
	site, act := s.In.Hit(kind)
	switch act {
	case Fail:
		return site, false, fmt.Errorf("%w at site %d (%s)", ErrInjected, site, kind)
	case CrashBefore:
		panic(&Crash{Site: site, Kind: kind})
	case CrashAfter:
		return site, true, nil
	}
	return site, false, nil
}

func post(site int, kind string, crashAfter bool) {
	if crashAfter {
		panic(&Crash{Site: site, Kind: kind, After: true})
	}
}

func (s *Store) WithRealm(realm kvstore.Realm) (kvstore.KVStore, error) {
	in, err := s.Inner.WithRealm(realm)
	if err != nil {
		return nil, err
	}
	return &Store{Inner: in, In: s.In}, nil
}

func (s *Store) WithExtendedRealm(realm kvstore.Realm) (kvstore.KVStore, error) {
	in, err := s.Inner.WithExtendedRealm(realm)
	if err != nil {
		return nil, err
	}
	return &Store{Inner: in, In: s.In}, nil
}

func (s *Store) Realm() kvstore.Realm { return s.Inner.Realm() }

func (s *Store) Iterate(prefix kvstore.KeyPrefix, f kvstore.IteratorKeyValueConsumerFunc, d ...kvstore.IterDirection) error {
	site, ca, err := s.pre("store.Iterate")
	if err != nil {
		return err
	}
	err = s.Inner.Iterate(prefix, f, d...)
	post(site, "store.Iterate", ca)
	return err
}

func (s *Store) IterateKeys(prefix kvstore.KeyPrefix, f kvstore.IteratorKeyConsumerFunc, d ...kvstore.IterDirection) error {
	site, ca, err := s.pre("store.IterateKeys")
	if err != nil {
		return err
	}
	err = s.Inner.IterateKeys(prefix, f, d...)
	post(site, "store.IterateKeys", ca)
	return err
}

func (s *Store) Clear() error {
	site, ca, err := s.pre("store.Clear")
	if err != nil {
		return err
	}
	err = s.Inner.Clear()
	post(site, "store.Clear", ca)
	return err
}

func (s *Store) Get(key kvstore.Key) (kvstore.Value, error) {
	site, ca, err := s.pre("store.Get")
	if err != nil {
		return nil, err
	}
	v, err := s.Inner.Get(key)
	post(site, "store.Get", ca)
	return v, err
}

func (s *Store) Set(key kvstore.Key, value kvstore.Value) error {
	site, ca, err := s.pre("store.Set")
	if err != nil {
		return err
	}
	err = s.Inner.Set(key, value)
	post(site, "store.Set", ca)
	return err
}

func (s *Store) Has(key kvstore.Key) (bool, error) {
	site, ca, err := s.pre("store.Has")
	if err != nil {
		return false, err
	}
	h, err := s.Inner.Has(key)
	post(site, "store.Has", ca)
	return h, err
}

func (s *Store) Delete(key kvstore.Key) error {
	site, ca, err := s.pre("store.Delete")
	if err != nil {
		return err
	}
	err = s.Inner.Delete(key)
	post(site, "store.Delete", ca)
	return err
}

func (s *Store) DeletePrefix(prefix kvstore.KeyPrefix) error {
	site, ca, err := s.pre("store.DeletePrefix")
	if err != nil {
		return err
	}
	err = s.Inner.DeletePrefix(prefix)
	post(site, "store.DeletePrefix", ca)
	return err
}

func (s *Store) Flush() error {
	site, ca, err := s.pre("store.Flush")
	if err != nil {
		return err
	}
	err = s.Inner.Flush()
	post(site, "store.Flush", ca)
	return err
}

func (s *Store) Close() error { return s.Inner.Close() }

func (s *Store) Batched() (kvstore.BatchedMutations, error) {
	_, _, err := s.pre("store.Batched")
	if err != nil {
		return nil, err
	}
	b, err := s.Inner.Batched()
	if err != nil {
		return nil, err
	}
	return &batch{b: b, s: s}, nil
}

type batch struct {
	b kvstore.BatchedMutations
	s *Store
}

func (b *batch) Set(key kvstore.Key, value kvstore.Value) error { return b.b.Set(key, value) }
func (b *batch) Delete(key kvstore.Key) error                   { return b.b.Delete(key) }
func (b *batch) Cancel()                                        { b.b.Cancel() }
func (b *batch) Commit() error {
	site, ca, err := b.s.pre("store.Batch.Commit")
	if err != nil {
		b.b.Cancel()
		return err
	}
	err = b.b.Commit()
	post(site, "store.Batch.Commit", ca)
	return err
}
