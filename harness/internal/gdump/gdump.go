// Package gdump gives structural answers to "is this goroutine blocked?" from
// consistent runtime.Stack(all) snapshots: no verdict depends on a duration.
package gdump

import (
	"bytes"
	"runtime"
	"strconv"
	"strings"
	"sync"
	"sync/atomic"
	"time"
)

// G is one goroutine of a snapshot.
type G struct {
	ID     uint64
	State  string   // e.g. "sync.Cond.Wait", "chan receive", "running"
	Frames []string // function names, innermost first
	Raw    string
}

// Has reports whether some frame's function name contains sub.
func (g G) Has(sub string) bool {
	for _, f := range g.Frames {
		if strings.Contains(f, sub) {
			return true
		}
	}
	return false
}

// Parked reports whether the goroutine is blocked on a synchronisation
// primitive or channel and can only continue if another goroutine acts.
// `select` counts as parked only when no timer is involved – which a snapshot
// cannot tell – so callers that use timers must treat "select" separately;
// here it is reported as parked (harness scenarios that rely on this are
// timer-free).
func (g G) Parked() bool {
	s := g.State
	// in -race builds a goroutine inside time.Sleep is dumped as [semacquire]; it wakes up by itself
	for _, f := range g.Frames {
		if f == "time.Sleep" {
			return false
		}
	}
	switch {
	case strings.HasPrefix(s, "semacquire"):
		// Only user-level semaphores (WaitGroup.Wait, ...) count. A goroutine whose allocation starts a GC
		// cycle parks on a runtime-internal semaphore (held by the very snapshot that observes it) and is
		// dumped as [semacquire] under an arbitrary user frame; the runtime wakes it by itself.
		return len(g.Frames) > 0 && strings.HasPrefix(g.Frames[0], "sync.runtime_Semacquire")
	case strings.HasPrefix(s, "sync."), strings.HasPrefix(s, "chan "), strings.HasPrefix(s, "select"):
		return true
	}
	return false
}

// GoID returns the id of the calling goroutine.
func GoID() uint64 {
	var buf [64]byte
	n := runtime.Stack(buf[:], false)
	// "goroutine 123 [running]:"
	f := bytes.Fields(buf[:n])
	id, _ := strconv.ParseUint(string(f[1]), 10, 64)
	return id
}

var bufPool = sync.Pool{New: func() any { b := make([]byte, 1<<20); return &b }}

// Snapshot returns all goroutines (stop-the-world consistent).
func Snapshot() []G {
	bp := bufPool.Get().(*[]byte)
	buf := *bp
	for {
		n := runtime.Stack(buf, true)
		if n < len(buf) {
			buf = buf[:n]
			break
		}
		buf = make([]byte, 2*len(buf))
	}
	gs := Parse(string(buf))
	*bp = buf[:cap(buf)]
	bufPool.Put(bp)
	return gs
}

// Parse parses the text form of a goroutine dump (also from SIGQUIT output).
func Parse(s string) []G {
	var out []G
	for _, blk := range strings.Split(s, "\n\n") {
		blk = strings.TrimSpace(blk)
		if !strings.HasPrefix(blk, "goroutine ") {
			continue
		}
		lines := strings.Split(blk, "\n")
		h := lines[0]
		sp := strings.IndexByte(h[10:], ' ')
		if sp < 0 {
			continue
		}
		id, err := strconv.ParseUint(h[10:10+sp], 10, 64)
		if err != nil {
			continue
		}
		st := ""
		if i := strings.IndexByte(h, '['); i >= 0 {
			if j := strings.LastIndexByte(h, ']'); j > i {
				st = h[i+1 : j]
			}
		}
		// strip ", 3 minutes" and ", locked to thread"
		if i := strings.IndexByte(st, ','); i >= 0 {
			st = st[:i]
		}
		g := G{ID: id, State: st, Raw: blk}
		for _, l := range lines[1:] {
			if strings.HasPrefix(l, "\t") || strings.HasPrefix(l, "created by ") {
				continue
			}
			if i := strings.LastIndexByte(l, '('); i > 0 {
				g.Frames = append(g.Frames, l[:i])
			}
		}
		out = append(out, g)
	}
	return out
}

// Find returns the goroutine with the given id.
func Find(gs []G, id uint64) (G, bool) {
	for _, g := range gs {
		if g.ID == id {
			return g, true
		}
	}
	return G{}, false
}

// Actor is a goroutine that executes closures one at a time and whose
// blocked/returned status can be observed structurally.
type Actor struct {
	Name string
	id   atomic.Uint64
	work chan func()
	busy atomic.Bool
	seq  atomic.Uint64 // completed closures
	dead atomic.Bool
	pan  atomic.Value // recovered panic value of the last closure (as string)
}

// NewActor starts the goroutine.
func NewActor(name string) *Actor {
	a := &Actor{Name: name, work: make(chan func())}
	ready := make(chan struct{})
	go func() {
		a.id.Store(GoID())
		close(ready)
		for f := range a.work {
			a.run(f)
		}
		a.dead.Store(true)
	}()
	<-ready
	return a
}

func (a *Actor) run(f func()) {
	defer func() {
		if r := recover(); r != nil {
			a.pan.Store(toString(r))
		}
		a.busy.Store(false)
		a.seq.Add(1)
	}()
	f()
}

func toString(r any) string {
	switch v := r.(type) {
	case string:
		return v
	case error:
		return v.Error()
	default:
		return "panic"
	}
}

// ID is the goroutine id.
func (a *Actor) ID() uint64 { return a.id.Load() }

// Busy reports whether a closure is in flight.
func (a *Actor) Busy() bool { return a.busy.Load() }

// TakePanic returns and clears the last recovered panic ("" if none).
func (a *Actor) TakePanic() string {
	v := a.pan.Swap("")
	if v == nil {
		return ""
	}
	return v.(string)
}

// Status of an actor step.
type Status int

const (
	Returned Status = iota
	Blocked
)

// Start hands f to the actor without waiting. The actor must not be busy.
func (a *Actor) Start(f func()) {
	if a.busy.Swap(true) {
		panic("actor " + a.Name + " is busy")
	}
	a.work <- f
}

// Do hands f to the actor and waits until f has returned or the actor is
// observed parked (see Settle).
func (a *Actor) Do(f func()) Status {
	a.Start(f)
	return a.Settle()
}

// Settle waits until the in-flight closure has returned or the actor's
// goroutine is parked in two consecutive snapshots in the same state with no
// other goroutine of interest running in between. It returns Blocked in the
// second case. There is no time-out: a goroutine that neither returns nor
// parks spins here (the parent's watchdog then reports INCONCLUSIVE).
func (a *Actor) Settle() Status {
	var last string
	stable := 0
	for i := 0; ; i++ {
		if !a.busy.Load() {
			return Returned
		}
		if i < 20 {
			runtime.Gosched()
		} else {
			time.Sleep(time.Duration(min(i, 200)) * 5 * time.Microsecond)
		}
		if i < 3 {
			continue
		}
		gs := Snapshot()
		if !a.busy.Load() {
			return Returned
		}
		g, ok := Find(gs, a.ID())
		if !ok {
			continue
		}
		if g.Parked() && othersIdle(gs, a.ID()) {
			key := g.State + "|" + strings.Join(g.Frames, ";")
			if key == last {
				stable++
				if stable >= 2 {
					return Blocked
				}
			} else {
				last = key
				stable = 0
			}
		} else {
			last = ""
			stable = 0
		}
	}
}

// othersIdle: no goroutine other than the caller of Snapshot (state
// "running") and the examined one is runnable/running/in syscall – i.e. the
// system as a whole is quiescent, so the parked goroutine is not about to be
// woken by work still in progress. Goroutines that sleep or wait on timers are
// "not idle" only when they are in state sleep; harness scenarios that use
// Settle are timer-free.
func othersIdle(gs []G, self uint64) bool {
	running := 0
	for _, g := range gs {
		if g.ID == self {
			continue
		}
		switch {
		case g.State == "running":
			running++ // the snapshotting goroutine itself
		case g.State == "runnable", g.State == "syscall", g.State == "sleep", g.Has("time.Sleep"),
			strings.HasPrefix(g.State, "semacquire") && !g.Parked(), strings.HasPrefix(g.State, "GC "):
			if isSystem(g) {
				continue
			}
			return false
		}
	}
	return running <= 1
}

func isSystem(g G) bool {
	for _, f := range g.Frames {
		if strings.HasPrefix(f, "os/signal.") || strings.HasPrefix(f, "runtime.ensureSigM") || strings.HasPrefix(f, "runtime.bgsweep") ||
			strings.HasPrefix(f, "runtime.bgscavenge") || strings.HasPrefix(f, "runtime.gcBgMarkWorker") || strings.HasPrefix(f, "runtime.forcegchelper") ||
			strings.HasPrefix(f, "runtime.runfinq") {
			return true
		}
	}
	return false
}

// Close stops the actor goroutine (it must not be busy).
func (a *Actor) Close() {
	if !a.busy.Load() && !a.dead.Load() {
		close(a.work)
	}
}

// Quiescent reports whether every goroutine except the caller and system
// goroutines is parked (Parked()) – one snapshot.
func Quiescent(gs []G) bool {
	running := 0
	for _, g := range gs {
		if g.State == "running" {
			running++
			continue
		}
		if isSystem(g) {
			continue
		}
		if !g.Parked() {
			return false
		}
	}
	return running <= 1
}

// WaitQuiescent spins until two consecutive snapshots are quiescent and have
// the same goroutine states; it returns the last snapshot.
func WaitQuiescent() []G {
	var last string
	for i := 0; ; i++ {
		if i < 20 {
			runtime.Gosched()
		} else {
			time.Sleep(time.Duration(min(i, 200)) * 5 * time.Microsecond)
		}
		gs := Snapshot()
		if !Quiescent(gs) {
			last = ""
			continue
		}
		var b strings.Builder
		for _, g := range gs {
			if g.State == "running" {
				continue
			}
			b.WriteString(strconv.FormatUint(g.ID, 10))
			b.WriteString(g.State)
			if len(g.Frames) > 0 {
				b.WriteString(g.Frames[0])
			}
		}
		if k := b.String(); k == last {
			return gs
		} else {
			last = k
		}
	}
}
