// Package kvmodel is the sequential reference model shared by the C04 and C05
// checks: one ordered map keyed by realm||key plus a closed flag. It knows
// nothing about hive.go.
package kvmodel

import (
	"sort"
	"strings"
)

// KV is one entry as an iteration hands it to a consumer (key already stripped
// of the realm).
type KV struct{ K, V string }

// Model is the whole state of a store.
type Model struct {
	M      map[string]string
	Closed bool
}

func New() *Model { return &Model{M: map[string]string{}} }

func (m *Model) Clone() *Model {
	c := &Model{M: make(map[string]string, len(m.M)), Closed: m.Closed}
	for k, v := range m.M {
		c.M[k] = v
	}
	return c
}

func (m *Model) Get(realm, key string) (string, bool) { v, ok := m.M[realm+key]; return v, ok }
func (m *Model) Has(realm, key string) bool           { _, ok := m.M[realm+key]; return ok }
func (m *Model) Set(realm, key, val string)           { m.M[realm+key] = val }
func (m *Model) Delete(realm, key string)             { delete(m.M, realm+key) }

// DeletePrefix removes every key of the realm that carries prefix; Clear is
// DeletePrefix(realm, "").
func (m *Model) DeletePrefix(realm, prefix string) int {
	n := 0
	p := realm + prefix
	for k := range m.M {
		if strings.HasPrefix(k, p) {
			delete(m.M, k)
			n++
		}
	}
	return n
}

func (m *Model) Clear(realm string) int { return m.DeletePrefix(realm, "") }

// Iterate returns the entries of the realm that carry prefix, realm stripped,
// in ascending (or descending) byte order of the key.
func (m *Model) Iterate(realm, prefix string, backward bool) []KV {
	p := realm + prefix
	var out []KV
	for k, v := range m.M {
		if strings.HasPrefix(k, p) {
			out = append(out, KV{k[len(realm):], v})
		}
	}
	sort.Slice(out, func(i, j int) bool {
		if backward {
			return out[i].K > out[j].K
		}
		return out[i].K < out[j].K
	})
	return out
}

// BatchOp is one buffered mutation of a batch.
type BatchOp struct {
	Del  bool
	K, V string
}

// LastPerKey reduces a batch to the last operation per key (sorted by key).
func LastPerKey(ops []BatchOp) []BatchOp {
	last := map[string]BatchOp{}
	for _, o := range ops {
		last[o.K] = o
	}
	out := make([]BatchOp, 0, len(last))
	for _, o := range last {
		out = append(out, o)
	}
	sort.Slice(out, func(i, j int) bool { return out[i].K < out[j].K })
	return out
}

// ApplyBatch applies the last operation per key of a committed batch.
func (m *Model) ApplyBatch(realm string, ops []BatchOp) {
	for _, o := range LastPerKey(ops) {
		if o.Del {
			m.Delete(realm, o.K)
		} else {
			m.Set(realm, o.K, o.V)
		}
	}
}

// Canon is a canonical, comparable encoding of the state (keys and values
// shorter than 256 bytes).
func (m *Model) Canon() string {
	keys := make([]string, 0, len(m.M))
	for k := range m.M {
		keys = append(keys, k)
	}
	sort.Strings(keys)
	var b strings.Builder
	if m.Closed {
		b.WriteByte('C')
	} else {
		b.WriteByte('O')
	}
	for _, k := range keys {
		v := m.M[k]
		b.WriteByte(byte(len(k)))
		b.WriteString(k)
		b.WriteByte(byte(len(v)))
		b.WriteString(v)
	}
	return b.String()
}

// FromCanon is the inverse of Canon.
func FromCanon(s string) *Model {
	m := New()
	if s == "" {
		return m
	}
	m.Closed = s[0] == 'C'
	for i := 1; i < len(s); {
		kl := int(s[i])
		k := s[i+1 : i+1+kl]
		i += 1 + kl
		vl := int(s[i])
		v := s[i+1 : i+1+vl]
		i += 1 + vl
		m.M[k] = v
	}
	return m
}
