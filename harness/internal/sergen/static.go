package sergen

// Static universe: hand-declared Go types for the features that need methods or
// struct embedding, with hand-written schemas (Shape) describing their documented
// wire layout. The schemas are written from the struct tags / registrations below,
// not derived by reflection, so the reference encoder stays independent.

import (
	"encoding/binary"
	"errors"
	"fmt"
	"math/big"
	"reflect"
	"strconv"
	"time"

	"github.com/iotaledger/hive.go/serializer/v2"
	"github.com/iotaledger/hive.go/serializer/v2/serix"
)

// ---- interface with methods, uint8 type codes

type Shaper interface{ Area() uint32 }

type Circle struct {
	R uint32 `serix:"r"`
}

func (c Circle) Area() uint32 { return c.R * c.R * 3 }

type Rect struct {
	W   uint16      `serix:"w"`
	H   uint16      `serix:"h"`
	Tag NamedString `serix:"tag"`
}

func (r *Rect) Area() uint32 { return uint32(r.W) * uint32(r.H) }

type Blob [4]byte

func (b Blob) Area() uint32 { return uint32(b[0]) }

// CustomCoded: custom codec + object code, usable as Shaper.
type CustomCoded struct{ a, b uint8 }

func (c CustomCoded) Area() uint32            { return uint32(c.a) * uint32(c.b) }
func (c CustomCoded) Encode() ([]byte, error) { return []byte{c.b, c.a}, nil }
func (c *CustomCoded) Decode(b []byte) (int, error) {
	if len(b) < 2 {
		return 0, errors.New("CustomCoded: short")
	}
	c.b, c.a = b[0], b[1]
	return 2, nil
}
func (c CustomCoded) EncodeJSON() (any, error) {
	return map[string]any{"type": 4, "ab": fmt.Sprintf("%d/%d", c.a, c.b)}, nil
}
func (c *CustomCoded) DecodeJSON(v any) error {
	m, ok := v.(map[string]any)
	if !ok {
		return errors.New("CustomCoded: want object")
	}
	s, ok := m["ab"].(string)
	if !ok {
		return errors.New("CustomCoded: want ab string")
	}
	var a, b int
	if _, err := fmt.Sscanf(s, "%d/%d", &a, &b); err != nil {
		return err
	}
	c.a, c.b = uint8(a), uint8(b)
	return nil
}

// ---- interface with uint32 type codes

type Account interface{ Acc() }

type AccA struct {
	ID  Hash8  `serix:"id"`
	Bal uint64 `serix:"bal"`
}

func (AccA) Acc() {}

type AccB struct {
	Name string `serix:"name,lenPrefix=uint8"`
	Sub  Shaper `serix:"sub,optional"`
}

func (AccB) Acc() {}

// ---- custom Serializable without code: 24-bit big-endian number

type Custom24 struct{ v uint32 }

func (c Custom24) Encode() ([]byte, error) { return []byte{byte(c.v >> 16), byte(c.v >> 8), byte(c.v)}, nil }
func (c *Custom24) Decode(b []byte) (int, error) {
	if len(b) < 3 {
		return 0, errors.New("Custom24: short")
	}
	c.v = uint32(b[0])<<16 | uint32(b[1])<<8 | uint32(b[2])
	return 3, nil
}
func (c Custom24) EncodeJSON() (any, error) { return strconv.FormatUint(uint64(c.v), 10), nil }
func (c *Custom24) DecodeJSON(v any) error {
	s, ok := v.(string)
	if !ok {
		return errors.New("Custom24: want string")
	}
	n, err := strconv.ParseUint(s, 10, 24)
	c.v = uint32(n)
	return err
}

// ---- named types

type NamedString string
type NamedBytes []byte
type Hash8 [8]byte
type CodedArr [5]byte
type U16List []uint16
type ShapeList []Shaper
type StrSet []NamedString
type Matrix [][]uint16 // inner type []uint16 is registered as well

// ---- embedding

type Base struct {
	A uint8  `serix:"a"`
	B string `serix:"b,lenPrefix=uint8"`
}

type BaseP struct {
	X uint32   `serix:"x"`
	Y []uint16 `serix:"y,lenPrefix=uint8"`
}

type WithEmbedded struct {
	Base `serix:""`
	C    uint16 `serix:"c"`
}

type WithEmbeddedPtr struct {
	*BaseP `serix:""`
	D      bool `serix:"d"`
}

type WithInlined struct {
	Base `serix:",inlined"`
	E    uint8 `serix:"e"`
}

// ---- optional / omitempty

type Empty struct{}

type Opt struct {
	P *Circle   `serix:"p,optional"`
	I Shaper    `serix:"i,optional"`
	E *Empty    `serix:"e,optional"`
	O *Rect     `serix:"o,optional,omitempty"`
	L U16List   `serix:"l,omitempty"`
	A *CodedArr `serix:"a,optional"`
	K Account   `serix:"k,optional"`
}

type BigTime struct {
	N  *big.Int    `serix:"n"`
	T  time.Time   `serix:"t"`
	TS []time.Time `serix:"ts,lenPrefix=uint8"`
	F  float32     `serix:"f"`
	G  float64     `serix:"g"`
}

type Key2 struct {
	A uint8 `serix:"a"`
	B bool  `serix:"b"`
}

type MapsBin struct {
	M1 map[uint8]NamedString   `serix:"m1,lenPrefix=uint8"`
	M4 map[int32]bool          `serix:"m4,lenPrefix=uint8"`
	M5 map[bool]int8           `serix:"m5,lenPrefix=uint8"`
	M6 map[Key2]uint16         `serix:"m6,lenPrefix=uint8"`
	M7 map[float64]float32     `serix:"m7,lenPrefix=uint16"`
	M9 map[uint16]Shaper       `serix:"m9,lenPrefix=uint8"`
	MA map[NamedString]Account `serix:"ma,lenPrefix=uint8,maxLen=3"`
}

type MapsJSON struct {
	M2 map[NamedString]Circle      `serix:"m2,lenPrefix=uint16,maxLen=3"`
	M3 map[Hash8]uint64            `serix:"m3,lenPrefix=uint32"`
	M4 map[int64]bool              `serix:"m4,lenPrefix=uint8"`
	M8 map[uint64]U16List          `serix:"m8,lenPrefix=uint8"`
	MS map[string]NamedString      `serix:"ms,lenPrefix=uint8,minLen=1"`
	MM map[NamedString]map[int64]NamedBytes `serix:"mm,lenPrefix=uint8"`
}

type Lists struct {
	S  ShapeList    `serix:"s"`
	U  U16List      `serix:"u"`
	SS StrSet       `serix:"ss"`
	M  Matrix       `serix:"m"`
	NB NamedBytes   `serix:"nb"`
	H  Hash8        `serix:"h"`
	CA CodedArr     `serix:"ca"`
	CS []Custom24   `serix:"cs,lenPrefix=uint16"`
	PS []*Circle    `serix:"ps,lenPrefix=uint8"`
	AS []Account    `serix:"as,lenPrefix=uint8,maxLen=3"`
	C  Custom24     `serix:"c"`
	CC CustomCoded  `serix:"cc"`
	PC *Custom24    `serix:"pc,optional"`
}

type Combined struct {
	WE  WithEmbedded     `serix:"we"`
	WP  *WithEmbeddedPtr `serix:"wp,optional"`
	WI  WithInlined      `serix:"wi"`
	O   Opt              `serix:"o"`
	Sh  Shaper           `serix:"sh"`
	Ac  Account          `serix:"ac"`
	BT  *BigTime         `serix:"bt"`
	OL  []Opt            `serix:"ol,lenPrefix=uint8"`
	MWE map[uint64]WithEmbedded `serix:"mwe,lenPrefix=uint8"`
}

// ---- custom Serializables whose Encode result aliases other storage
//
// arena is shared storage: slot i is arena[4i:4i+4] and holds {lo(i), hi(i), ^lo(i), 0xA5}; the tail
// is filler. ArenaKey/ArenaCoded.Encode return the window arena[4i:4i+4] - a slice whose spare
// capacity is the neighbouring slots (a zero-copy ID into a parsed buffer). An encoder that appends
// to such a result without copying overwrites the neighbours. SpareCap.Encode returns a fresh slice
// with spare capacity (harmless to append to, but the output must still be exact).

const arenaSlots = 24

var arena = newArena()

func newArena() []byte {
	a := make([]byte, 4*arenaSlots+96)
	for i := 0; i < arenaSlots; i++ {
		copy(a[4*i:], arenaSlot(uint16(i)))
	}
	for i := 4 * arenaSlots; i < len(a); i++ {
		a[i] = 0xC3
	}
	return a
}

func arenaSlot(i uint16) []byte { return []byte{byte(i), byte(i >> 8), ^byte(i), 0xA5} }

// ArenaIntact reports whether the shared arena still has its original content (offset of the first changed byte otherwise).
func ArenaIntact() (int, bool) {
	want := newArena()
	for i := range want {
		if arena[i] != want[i] {
			return i, false
		}
	}
	return 0, true
}

// ArenaReset restores the arena.
func ArenaReset() { copy(arena, newArena()) }

func arenaDecode(b []byte) (uint16, error) {
	if len(b) < 4 {
		return 0, errors.New("arena id: short")
	}
	i := uint16(b[0]) | uint16(b[1])<<8
	if i >= arenaSlots || b[2] != ^b[0] || b[3] != 0xA5 {
		return 0, fmt.Errorf("arena id: malformed bytes % x", b[:4])
	}
	return i, nil
}

type ArenaKey struct{ slot uint16 }

func (k ArenaKey) Encode() ([]byte, error) { o := 4 * int(k.slot); return arena[o : o+4], nil }
func (k *ArenaKey) Decode(b []byte) (int, error) {
	i, err := arenaDecode(b)
	k.slot = i
	return 4, err
}
func (k ArenaKey) EncodeJSON() (any, error) { return strconv.Itoa(int(k.slot)), nil }
func (k *ArenaKey) DecodeJSON(v any) error {
	s, ok := v.(string)
	if !ok {
		return errors.New("ArenaKey: want string")
	}
	n, err := strconv.ParseUint(s, 10, 16)
	if err == nil && n >= arenaSlots {
		err = errors.New("ArenaKey: slot out of range")
	}
	k.slot = uint16(n)
	return err
}

// ArenaCoded: the same window, but the type has an object code (the encoder prepends it) and is a Shaper.
type ArenaCoded struct{ slot uint16 }

func (k ArenaCoded) Area() uint32            { return uint32(k.slot) }
func (k ArenaCoded) Encode() ([]byte, error) { o := 4 * int(k.slot); return arena[o : o+4], nil }
func (k *ArenaCoded) Decode(b []byte) (int, error) {
	i, err := arenaDecode(b)
	k.slot = i
	return 4, err
}
func (k ArenaCoded) EncodeJSON() (any, error) {
	return map[string]any{"type": 5, "slot": strconv.Itoa(int(k.slot))}, nil
}
func (k *ArenaCoded) DecodeJSON(v any) error {
	m, ok := v.(map[string]any)
	if !ok {
		return errors.New("ArenaCoded: want object")
	}
	s, ok := m["slot"].(string)
	if !ok {
		return errors.New("ArenaCoded: want slot string")
	}
	n, err := strconv.ParseUint(s, 10, 16)
	if err == nil && n >= arenaSlots {
		err = errors.New("ArenaCoded: slot out of range")
	}
	k.slot = uint16(n)
	return err
}

// SpareCap: Encode returns a fresh 2-byte slice with 30 bytes of spare capacity.
type SpareCap struct{ v uint16 }

func (c SpareCap) Encode() ([]byte, error) {
	b := make([]byte, 32)
	for i := range b {
		b[i] = 0xEE
	}
	b[0], b[1] = byte(c.v>>8), byte(c.v)
	return b[:2], nil
}
func (c *SpareCap) Decode(b []byte) (int, error) {
	if len(b) < 2 {
		return 0, errors.New("SpareCap: short")
	}
	c.v = uint16(b[0])<<8 | uint16(b[1])
	return 2, nil
}
func (c SpareCap) EncodeJSON() (any, error) { return strconv.Itoa(int(c.v)), nil }
func (c *SpareCap) DecodeJSON(v any) error {
	s, ok := v.(string)
	if !ok {
		return errors.New("SpareCap: want string")
	}
	n, err := strconv.ParseUint(s, 10, 16)
	c.v = uint16(n)
	return err
}

// Aliasing uses the three kinds in every position (binary form; ArenaCoded cannot be a JSON map key).
type Aliasing struct {
	MK  map[ArenaKey]uint32      `serix:"mk,lenPrefix=uint8"`
	MKK map[ArenaKey]ArenaKey    `serix:"mkk,lenPrefix=uint8"`
	MKS map[ArenaKey]NamedString `serix:"mks,lenPrefix=uint8"`
	MV  map[uint16]ArenaKey      `serix:"mv,lenPrefix=uint8"`
	MS  map[SpareCap]SpareCap    `serix:"ms,lenPrefix=uint8"`
	MC  map[ArenaCoded]uint64    `serix:"mc,lenPrefix=uint8"`
	SL  []ArenaKey               `serix:"sl,lenPrefix=uint16"`
	AR  [3]ArenaKey              `serix:"ar,lenPrefix=uint8"`
	F   ArenaKey                 `serix:"f"`
	G   SpareCap                 `serix:"g"`
	P   *ArenaKey                `serix:"p,optional"`
	I   Shaper                   `serix:"i"`
	C   ArenaCoded               `serix:"c"`
}

// AliasingJSON: the subset the JSON form can express.
type AliasingJSON struct {
	MK  map[ArenaKey]uint32      `serix:"mk,lenPrefix=uint8"`
	MKK map[ArenaKey]ArenaKey    `serix:"mkk,lenPrefix=uint16"`
	MKS map[ArenaKey]NamedString `serix:"mks,lenPrefix=uint8"`
	MV  map[uint64]ArenaKey      `serix:"mv,lenPrefix=uint8"`
	MS  map[SpareCap]SpareCap    `serix:"ms,lenPrefix=uint8"`
	SL  []ArenaKey               `serix:"sl,lenPrefix=uint8"`
	F   ArenaKey                 `serix:"f"`
	G   SpareCap                 `serix:"g"`
	I   Shaper                   `serix:"i,optional"`
}

// ---- explicit ordering flags (registered per type)

type LexFalseMap map[uint64]NamedString // WithLexicalOrdering(false)
type LexTrueMap map[NamedString]uint32  // WithLexicalOrdering(true) + bounds
type LexFalseList []uint32              // WithLexicalOrdering(false) + lexical/no-dup validation: checked, never sorted
type LexFalsePlain []int16              // WithLexicalOrdering(false), no rules: order is kept

type OrdMaps struct {
	A LexFalseMap            `serix:"a"`
	B LexTrueMap             `serix:"b"`
	C map[int64]uint8        `serix:"c,lenPrefix=uint16"` // registered: flag false, max 6, no length prefix type
	D LexFalseList           `serix:"d"`
	E map[string]LexFalseMap `serix:"e,lenPrefix=uint8"`
	F LexFalsePlain          `serix:"f"`
	G map[uint64]bool        `serix:"g,lenPrefix=uint8,maxLen=4"` // registered: flag false only (tag creates the rules)
}

// ---- defined element / key types (pool in named.go) and specially treated types behind pointers

// NamedElems: collections whose element (or key) type is a defined type over a basic kind; every
// field is expressible in the JSON form. A defined one-byte number is an object of its own: [4]NU8
// and []NU8 are collections with a count prefix, not byte arrays / byte slices.
type NamedElems struct {
	A  [4]NU8           `serix:"a,lenPrefix=uint8"`
	S  []NU8            `serix:"s,lenPrefix=uint16"`
	P  *[4]NU8          `serix:"p,lenPrefix=uint8"`
	O  *[2]NU8          `serix:"o,optional,lenPrefix=uint32"`
	B  []NBool          `serix:"b,lenPrefix=uint8"`
	I  [2]NI16          `serix:"i,lenPrefix=uint8"`
	ST []NStr           `serix:"st,lenPrefix=uint8"`
	MS map[NStr]NU64    `serix:"ms,lenPrefix=uint8"`
	MI map[NI64]NBool   `serix:"mi,lenPrefix=uint8"`
	BS []NBytes         `serix:"bs,lenPrefix=uint8"`
	BA [2]NArr4         `serix:"ba,lenPrefix=uint8"`
	MA map[NArr4]NBytes `serix:"ma,lenPrefix=uint8"`
	NA NU8Arr4          `serix:"na"`
	NS NU8Slice         `serix:"ns"`
	Z  uint16           `serix:"z"`
}

// NamedBin: the same with map keys the JSON form cannot express, and nested arrays.
type NamedBin struct {
	M  map[NU8]NU8     `serix:"m,lenPrefix=uint8"`
	MB map[NBool]NI16  `serix:"mb,lenPrefix=uint8"`
	MK map[NU8Arr4]NU8 `serix:"mk,lenPrefix=uint8"`
	NM NU8Map          `serix:"nm"`
	AA [2][2]NU8       `serix:"aa,lenPrefix=uint8"`
	PA *NU8Arr4        `serix:"pa,optional"`
	Z  uint8           `serix:"z"`
}

// PtrSpecial: time.Time, *big.Int, a custom Serializable and a defined byte array behind pointers, in
// every position. A pointer encodes as its pointee, an optional one as marker + payload.
type PtrSpecial struct {
	T  *time.Time            `serix:"t"`
	O  *time.Time            `serix:"o,optional"`
	L  []*time.Time          `serix:"l,lenPrefix=uint8"`
	A  [2]*time.Time         `serix:"a,lenPrefix=uint8"`
	M  map[uint64]*time.Time `serix:"m,lenPrefix=uint8"`
	H  *Hash8                `serix:"h"`
	Z  uint8                 `serix:"z"`
}

// PtrNums: the same for *big.Int (optional / element / map value) and pointers to a custom Serializable.
type PtrNums struct {
	N  *big.Int             `serix:"n,optional"`
	NL []*big.Int           `serix:"nl,lenPrefix=uint8,maxLen=2"`
	MN map[uint64]*big.Int  `serix:"mn,lenPrefix=uint8,maxLen=1"`
	PC []*Custom24          `serix:"pc,lenPrefix=uint8"`
	MC map[uint64]*Custom24 `serix:"mc,lenPrefix=uint8"`
	PO *Custom24            `serix:"po,optional"`
	Z  uint8                `serix:"z"`
}

func tof[T any]() reflect.Type { return reflect.TypeOf((*T)(nil)).Elem() }

func must(err error) {
	if err != nil {
		panic("sergen static: " + err.Error())
	}
}

func sc(k Kind) *Shape { return &Shape{Kind: k, T: goTypes[k]} }

func strct(t reflect.Type, code *Code, fields ...*Field) *Shape {
	for _, f := range fields {
		sf, ok := t.FieldByName(f.Name)
		if !ok {
			panic("sergen static: no field " + f.Name + " in " + t.String())
		}
		f.Idx = sf.Index[0]
		if f.Key == "" {
			f.Key = f.Name
		}
	}
	return &Shape{Kind: Struct, T: t, Code: code, Fields: fields}
}

func fld(name string, s *Shape) *Field      { return &Field{Name: name, S: s} }
func opt(name string, s *Shape) *Field      { return &Field{Name: name, S: s, Optional: true} }
func ptr(s *Shape) *Shape                   { return &Shape{Kind: Ptr, T: reflect.PointerTo(s.T), Elem: s} }
func str(t reflect.Type, lp uint8) *Shape   { return &Shape{Kind: String, T: t, LP: lp} }
func bytesOf(t reflect.Type, lp uint8) *Shape { return &Shape{Kind: Bytes, T: t, LP: lp} }
func barr(t reflect.Type, n int, c *Code) *Shape {
	return &Shape{Kind: ByteArray, T: t, N: n, Code: c}
}
func slice(t reflect.Type, lp uint8, r Rules, e *Shape) *Shape {
	return &Shape{Kind: Slice, T: t, LP: lp, R: r, Elem: e}
}
func mapOf(lp uint8, r Rules, k, e *Shape) *Shape {
	return &Shape{Kind: Map, T: reflect.MapOf(k.T, e.T), LP: lp, R: r, Key: k, Elem: e}
}

// NewStatic builds the static universe on a fresh API.
func NewStatic() *Universe {
	api := serix.NewAPI()
	u := &Universe{API: api, Seed: -1, Static: true, reg: map[reflect.Type]*regEntry{}}
	ts := serix.TypeSettings{}

	// registrations (object codes, prefixes, rules)
	must(api.RegisterTypeSettings(Circle{}, ts.WithObjectType(uint8(1))))
	must(api.RegisterTypeSettings(Rect{}, ts.WithObjectType(uint8(2))))
	must(api.RegisterTypeSettings(Blob{}, ts.WithObjectType(uint8(3))))
	must(api.RegisterTypeSettings(CustomCoded{}, ts.WithObjectType(uint8(4))))
	must(api.RegisterTypeSettings(ArenaCoded{}, ts.WithObjectType(uint8(5))))
	must(api.RegisterInterfaceObjects((*Shaper)(nil), Circle{}, (*Rect)(nil), Blob{}, CustomCoded{}, ArenaCoded{}))
	must(api.RegisterTypeSettings(AccA{}, ts.WithObjectType(uint32(1))))
	must(api.RegisterTypeSettings(AccB{}, ts.WithObjectType(uint32(0x01020304))))
	must(api.RegisterInterfaceObjects((*Account)(nil), AccA{}, AccB{}))
	must(api.RegisterTypeSettings(NamedString(""), ts.WithLengthPrefixType(serix.LengthPrefixTypeAsUint16)))
	must(api.RegisterTypeSettings(NamedBytes{}, ts.WithLengthPrefixType(serix.LengthPrefixTypeAsUint32).WithMinLen(1).WithMaxLen(64)))
	must(api.RegisterTypeSettings(CodedArr{}, ts.WithObjectType(uint8(7))))
	must(api.RegisterTypeSettings(U16List{}, ts.WithLengthPrefixType(serix.LengthPrefixTypeAsByte).WithLexicalOrdering(true).
		WithArrayRules(&serix.ArrayRules{ValidationMode: serializer.ArrayValidationModeLexicalOrdering | serializer.ArrayValidationModeNoDuplicates})))
	must(api.RegisterTypeSettings(ShapeList{}, ts.WithLengthPrefixType(serix.LengthPrefixTypeAsByte).
		WithArrayRules(&serix.ArrayRules{Min: 1, Max: 4, MustOccur: serializer.TypePrefixes{1: struct{}{}}, ValidationMode: serializer.ArrayValidationModeAtMostOneOfEachTypeByte})))
	must(api.RegisterTypeSettings(StrSet{}, ts.WithLengthPrefixType(serix.LengthPrefixTypeAsUint16).
		WithArrayRules(&serix.ArrayRules{ValidationMode: serializer.ArrayValidationModeLexicalOrdering | serializer.ArrayValidationModeNoDuplicates})))
	must(api.RegisterTypeSettings(Matrix{}, ts.WithLengthPrefixType(serix.LengthPrefixTypeAsByte)))
	must(api.RegisterTypeSettings([]uint16{}, ts.WithLengthPrefixType(serix.LengthPrefixTypeAsUint16).WithMaxLen(5)))
	must(api.RegisterTypeSettings("", ts.WithLengthPrefixType(serix.LengthPrefixTypeAsUint32)))
	must(api.RegisterTypeSettings(map[int64]NamedBytes{}, ts.WithLengthPrefixType(serix.LengthPrefixTypeAsUint16)))

	must(api.RegisterTypeSettings(LexFalseMap{}, ts.WithLengthPrefixType(serix.LengthPrefixTypeAsByte).WithLexicalOrdering(false)))
	must(api.RegisterTypeSettings(LexTrueMap{}, ts.WithLengthPrefixType(serix.LengthPrefixTypeAsUint16).WithLexicalOrdering(true).WithMinLen(1).WithMaxLen(4)))
	must(api.RegisterTypeSettings(map[int64]uint8{}, ts.WithLexicalOrdering(false).WithMaxLen(6)))
	must(api.RegisterTypeSettings(LexFalseList{}, ts.WithLengthPrefixType(serix.LengthPrefixTypeAsByte).WithLexicalOrdering(false).
		WithArrayRules(&serix.ArrayRules{ValidationMode: serializer.ArrayValidationModeLexicalOrdering | serializer.ArrayValidationModeNoDuplicates})))
	must(api.RegisterTypeSettings(LexFalsePlain{}, ts.WithLengthPrefixType(serix.LengthPrefixTypeAsUint16).WithLexicalOrdering(false)))
	must(api.RegisterTypeSettings(map[uint64]bool{}, ts.WithLexicalOrdering(false)))
	must(api.RegisterTypeSettings(map[string]uint16{}, ts.WithLengthPrefixType(serix.LengthPrefixTypeAsUint32).WithLexicalOrdering(false).WithMaxLen(3)))
	must(api.RegisterTypeSettings(NStr(""), ts.WithLengthPrefixType(serix.LengthPrefixTypeAsByte)))
	must(api.RegisterTypeSettings(NBytes{}, ts.WithLengthPrefixType(serix.LengthPrefixTypeAsUint16)))
	must(api.RegisterTypeSettings(NU8Arr4{}, ts.WithLengthPrefixType(serix.LengthPrefixTypeAsByte)))
	must(api.RegisterTypeSettings(NU8Slice{}, ts.WithLengthPrefixType(serix.LengthPrefixTypeAsByte).WithLexicalOrdering(true).
		WithArrayRules(&serix.ArrayRules{Max: 6, ValidationMode: serializer.ArrayValidationModeLexicalOrdering})))
	must(api.RegisterTypeSettings(NU8Map{}, ts.WithLengthPrefixType(serix.LengthPrefixTypeAsUint16)))
	must(api.RegisterTypeSettings([2]NU8{}, ts.WithLengthPrefixType(serix.LengthPrefixTypeAsByte)))

	// schemas
	namedString := str(tof[NamedString](), 2)
	plainString4 := str(goTypes[String], 4) // registry setting of `string`
	hash8 := barr(tof[Hash8](), 8, nil)
	codedArr := barr(tof[CodedArr](), 5, &Code{1, 7})
	u16list := slice(tof[U16List](), 1, Rules{AutoOrder: true, ValOrder: true, NoDup: true}, sc(Uint16))
	namedBytes := bytesOf(tof[NamedBytes](), 4)
	namedBytes.R = Rules{Min: 1, Max: 64}

	circle := strct(tof[Circle](), &Code{1, 1}, &Field{Name: "R", Key: "r", S: sc(Uint32)})
	rect := strct(tof[Rect](), &Code{1, 2}, &Field{Name: "W", Key: "w", S: sc(Uint16)}, &Field{Name: "H", Key: "h", S: sc(Uint16)}, &Field{Name: "Tag", Key: "tag", S: namedString})
	blob := barr(tof[Blob](), 4, &Code{1, 3})
	customCoded := &Shape{Kind: Custom, T: tof[CustomCoded](), Code: &Code{1, 4}, Codec: &CustomCodec{
		Gen: func(pick func(int) int, u64 func() uint64) uint64 { return u64() & 0xffff },
		Ref: func(st uint64) []byte { return []byte{byte(st >> 8), byte(st)} }, // b then a; state = b<<8|a
		Set: func(dst reflect.Value, st uint64) {
			dst.Set(reflect.ValueOf(CustomCoded{a: uint8(st), b: uint8(st >> 8)}))
		},
		Get: func(src reflect.Value) uint64 {
			c := src.Interface().(CustomCoded)
			return uint64(c.b)<<8 | uint64(c.a)
		},
	}}
	custom24 := &Shape{Kind: Custom, T: tof[Custom24](), Codec: &CustomCodec{
		Gen: func(pick func(int) int, u64 func() uint64) uint64 {
			return []uint64{0, 1, 0xffffff, 0x800000, u64() & 0xffffff}[pick(5)]
		},
		Ref: func(st uint64) []byte {
			var b [4]byte
			binary.BigEndian.PutUint32(b[:], uint32(st))
			return b[1:]
		},
		Set: func(dst reflect.Value, st uint64) { dst.Set(reflect.ValueOf(Custom24{v: uint32(st)})) },
		Get: func(src reflect.Value) uint64 { return uint64(src.Interface().(Custom24).v) },
	}}
	slotGen := func(pick func(int) int, u64 func() uint64) uint64 { return uint64(pick(arenaSlots)) }
	slotRef := func(st uint64) []byte { return arenaSlot(uint16(st)) }
	arenaKey := &Shape{Kind: Custom, T: tof[ArenaKey](), Codec: &CustomCodec{Arena: true, JSONKey: true, Gen: slotGen, Ref: slotRef,
		Set: func(dst reflect.Value, st uint64) { dst.Set(reflect.ValueOf(ArenaKey{slot: uint16(st)})) },
		Get: func(src reflect.Value) uint64 { return uint64(src.Interface().(ArenaKey).slot) }}}
	arenaCoded := &Shape{Kind: Custom, T: tof[ArenaCoded](), Code: &Code{1, 5}, Codec: &CustomCodec{Arena: true, Gen: slotGen, Ref: slotRef,
		Set: func(dst reflect.Value, st uint64) { dst.Set(reflect.ValueOf(ArenaCoded{slot: uint16(st)})) },
		Get: func(src reflect.Value) uint64 { return uint64(src.Interface().(ArenaCoded).slot) }}}
	spareCap := &Shape{Kind: Custom, T: tof[SpareCap](), Codec: &CustomCodec{JSONKey: true,
		Gen: func(pick func(int) int, u64 func() uint64) uint64 { return []uint64{0, 1, 0xffff, 0x100, u64() & 0xffff}[pick(5)] },
		Ref: func(st uint64) []byte { return []byte{byte(st >> 8), byte(st)} },
		Set: func(dst reflect.Value, st uint64) { dst.Set(reflect.ValueOf(SpareCap{v: uint16(st)})) },
		Get: func(src reflect.Value) uint64 { return uint64(src.Interface().(SpareCap).v) }}}
	shaperImpls := []*Shape{circle, ptr(rect), blob, customCoded, arenaCoded}
	shaper := &Shape{Kind: Iface, T: tof[Shaper](), Impls: &shaperImpls, CodeW: 1}
	accA := strct(tof[AccA](), &Code{4, 1}, &Field{Name: "ID", Key: "id", S: hash8}, &Field{Name: "Bal", Key: "bal", S: sc(Uint64)})
	nameStr := str(goTypes[String], 1)
	nameStr.TagLP = true
	accB := strct(tof[AccB](), &Code{4, 0x01020304}, &Field{Name: "Name", Key: "name", S: nameStr}, &Field{Name: "Sub", Key: "sub", S: shaper, Optional: true})
	accImpls := []*Shape{accA, accB}
	account := &Shape{Kind: Iface, T: tof[Account](), Impls: &accImpls, CodeW: 4}
	u.Impl8, u.Impl32 = shaperImpls, accImpls

	bStr := str(goTypes[String], 1)
	bStr.TagLP = true
	base := strct(tof[Base](), nil, &Field{Name: "A", Key: "a", S: sc(Uint8)}, &Field{Name: "B", Key: "b", S: bStr})
	yList := slice(reflect.TypeOf([]uint16{}), 1, Rules{Max: 5}, sc(Uint16)) // tag lp beats registry; registry rules (max 5) stay
	yList.TagLP = true
	baseP := strct(tof[BaseP](), nil, &Field{Name: "X", Key: "x", S: sc(Uint32)}, &Field{Name: "Y", Key: "y", S: yList})
	withEmbedded := strct(tof[WithEmbedded](), nil, &Field{Name: "Base", S: base, Embedded: true}, &Field{Name: "C", Key: "c", S: sc(Uint16)})
	withEmbeddedPtr := strct(tof[WithEmbeddedPtr](), nil, &Field{Name: "BaseP", S: ptr(baseP), Embedded: true}, &Field{Name: "D", Key: "d", S: sc(Bool)})
	withInlined := strct(tof[WithInlined](), nil, &Field{Name: "Base", S: base, Inlined: true}, &Field{Name: "E", Key: "e", S: sc(Uint8)})

	empty := strct(tof[Empty](), nil)
	optS := strct(tof[Opt](), nil,
		&Field{Name: "P", Key: "p", S: ptr(circle), Optional: true},
		&Field{Name: "I", Key: "i", S: shaper, Optional: true},
		&Field{Name: "E", Key: "e", S: ptr(empty), Optional: true},
		&Field{Name: "O", Key: "o", S: ptr(rect), Optional: true, OmitEmpty: true},
		&Field{Name: "L", Key: "l", S: u16list, OmitEmpty: true},
		&Field{Name: "A", Key: "a", S: ptr(codedArr), Optional: true},
		&Field{Name: "K", Key: "k", S: account, Optional: true},
	)
	tsList := slice(reflect.TypeOf([]time.Time{}), 1, Rules{}, sc(Time))
	tsList.TagLP = true
	bigTime := strct(tof[BigTime](), nil, &Field{Name: "N", Key: "n", S: sc(BigInt)}, &Field{Name: "T", Key: "t", S: sc(Time)},
		&Field{Name: "TS", Key: "ts", S: tsList}, &Field{Name: "F", Key: "f", S: sc(Float32)}, &Field{Name: "G", Key: "g", S: sc(Float64)})
	key2 := strct(tof[Key2](), nil, &Field{Name: "A", Key: "a", S: sc(Uint8)}, &Field{Name: "B", Key: "b", S: sc(Bool)})
	tagged := func(s *Shape) *Shape { s.TagLP = true; return s }
	taggedMM := func(s *Shape) *Shape { s.TagLP, s.TagMM = true, true; return s }
	mapsBin := strct(tof[MapsBin](), nil,
		&Field{Name: "M1", Key: "m1", S: tagged(mapOf(1, Rules{}, sc(Uint8), namedString))},
		&Field{Name: "M4", Key: "m4", S: tagged(mapOf(1, Rules{}, sc(Int32), sc(Bool)))},
		&Field{Name: "M5", Key: "m5", S: tagged(mapOf(1, Rules{}, sc(Bool), sc(Int8)))},
		&Field{Name: "M6", Key: "m6", S: tagged(mapOf(1, Rules{}, key2, sc(Uint16)))},
		&Field{Name: "M7", Key: "m7", S: tagged(mapOf(2, Rules{}, sc(Float64), sc(Float32)))},
		&Field{Name: "M9", Key: "m9", S: tagged(mapOf(1, Rules{}, sc(Uint16), shaper))},
		&Field{Name: "MA", Key: "ma", S: taggedMM(mapOf(1, Rules{Max: 3}, namedString, account))},
	)
	innerMap := mapOf(2, Rules{}, sc(Int64), namedBytes) // registry setting of map[int64]NamedBytes
	mapsJSON := strct(tof[MapsJSON](), nil,
		&Field{Name: "M2", Key: "m2", S: taggedMM(mapOf(2, Rules{Max: 3}, namedString, circle))},
		&Field{Name: "M3", Key: "m3", S: tagged(mapOf(4, Rules{}, hash8, sc(Uint64)))},
		&Field{Name: "M4", Key: "m4", S: tagged(mapOf(1, Rules{}, sc(Int64), sc(Bool)))},
		&Field{Name: "M8", Key: "m8", S: tagged(mapOf(1, Rules{}, sc(Uint64), u16list))},
		&Field{Name: "MS", Key: "ms", S: taggedMM(mapOf(1, Rules{Min: 1}, plainString4, namedString))},
		&Field{Name: "MM", Key: "mm", S: tagged(mapOf(1, Rules{}, namedString, innerMap))},
	)
	shapeList := slice(tof[ShapeList](), 1, Rules{Min: 1, Max: 4, OneOfEach: 1, MustOccur: []uint32{1}}, shaper)
	strSet := slice(tof[StrSet](), 2, Rules{ValOrder: true, NoDup: true}, namedString)
	inner16 := slice(reflect.TypeOf([]uint16{}), 2, Rules{Max: 5}, sc(Uint16))
	matrix := slice(tof[Matrix](), 1, Rules{}, inner16)
	lists := strct(tof[Lists](), nil,
		&Field{Name: "S", Key: "s", S: shapeList}, &Field{Name: "U", Key: "u", S: u16list}, &Field{Name: "SS", Key: "ss", S: strSet},
		&Field{Name: "M", Key: "m", S: matrix}, &Field{Name: "NB", Key: "nb", S: namedBytes}, &Field{Name: "H", Key: "h", S: hash8},
		&Field{Name: "CA", Key: "ca", S: codedArr},
		&Field{Name: "CS", Key: "cs", S: tagged(slice(reflect.TypeOf([]Custom24{}), 2, Rules{}, custom24))},
		&Field{Name: "PS", Key: "ps", S: tagged(slice(reflect.TypeOf([]*Circle{}), 1, Rules{}, ptr(circle)))},
		&Field{Name: "AS", Key: "as", S: taggedMM(slice(reflect.TypeOf([]Account{}), 1, Rules{Max: 3}, account))},
		&Field{Name: "C", Key: "c", S: custom24}, &Field{Name: "CC", Key: "cc", S: customCoded},
		&Field{Name: "PC", Key: "pc", S: ptr(custom24), Optional: true},
	)
	combined := strct(tof[Combined](), nil,
		&Field{Name: "WE", Key: "we", S: withEmbedded},
		&Field{Name: "WP", Key: "wp", S: ptr(withEmbeddedPtr), Optional: true},
		&Field{Name: "WI", Key: "wi", S: withInlined},
		&Field{Name: "O", Key: "o", S: optS},
		&Field{Name: "Sh", Key: "sh", S: shaper},
		&Field{Name: "Ac", Key: "ac", S: account},
		&Field{Name: "BT", Key: "bt", S: ptr(bigTime)},
		&Field{Name: "OL", Key: "ol", S: tagged(slice(reflect.TypeOf([]Opt{}), 1, Rules{}, optS))},
		&Field{Name: "MWE", Key: "mwe", S: tagged(mapOf(1, Rules{}, sc(Uint64), withEmbedded))},
	)
	arr3 := &Shape{Kind: Array, T: reflect.TypeOf([3]ArenaKey{}), N: 3, LP: 1, TagLP: true, Elem: arenaKey}
	aliasing := strct(tof[Aliasing](), nil,
		&Field{Name: "MK", Key: "mk", S: tagged(mapOf(1, Rules{}, arenaKey, sc(Uint32)))},
		&Field{Name: "MKK", Key: "mkk", S: tagged(mapOf(1, Rules{}, arenaKey, arenaKey))},
		&Field{Name: "MKS", Key: "mks", S: tagged(mapOf(1, Rules{}, arenaKey, namedString))},
		&Field{Name: "MV", Key: "mv", S: tagged(mapOf(1, Rules{}, sc(Uint16), arenaKey))},
		&Field{Name: "MS", Key: "ms", S: tagged(mapOf(1, Rules{}, spareCap, spareCap))},
		&Field{Name: "MC", Key: "mc", S: tagged(mapOf(1, Rules{}, arenaCoded, sc(Uint64)))},
		&Field{Name: "SL", Key: "sl", S: tagged(slice(reflect.TypeOf([]ArenaKey{}), 2, Rules{}, arenaKey))},
		&Field{Name: "AR", Key: "ar", S: arr3},
		&Field{Name: "F", Key: "f", S: arenaKey}, &Field{Name: "G", Key: "g", S: spareCap},
		&Field{Name: "P", Key: "p", S: ptr(arenaKey), Optional: true},
		&Field{Name: "I", Key: "i", S: shaper}, &Field{Name: "C", Key: "c", S: arenaCoded},
	)
	aliasingJSON := strct(tof[AliasingJSON](), nil,
		&Field{Name: "MK", Key: "mk", S: tagged(mapOf(1, Rules{}, arenaKey, sc(Uint32)))},
		&Field{Name: "MKK", Key: "mkk", S: tagged(mapOf(2, Rules{}, arenaKey, arenaKey))},
		&Field{Name: "MKS", Key: "mks", S: tagged(mapOf(1, Rules{}, arenaKey, namedString))},
		&Field{Name: "MV", Key: "mv", S: tagged(mapOf(1, Rules{}, sc(Uint64), arenaKey))},
		&Field{Name: "MS", Key: "ms", S: tagged(mapOf(1, Rules{}, spareCap, spareCap))},
		&Field{Name: "SL", Key: "sl", S: tagged(slice(reflect.TypeOf([]ArenaKey{}), 1, Rules{}, arenaKey))},
		&Field{Name: "F", Key: "f", S: arenaKey}, &Field{Name: "G", Key: "g", S: spareCap},
		&Field{Name: "I", Key: "i", S: shaper, Optional: true},
	)
	lexFalseMap := &Shape{Kind: Map, T: tof[LexFalseMap](), LP: 1, R: Rules{LexSet: true}, Key: sc(Uint64), Elem: namedString}
	lexTrueMap := &Shape{Kind: Map, T: tof[LexTrueMap](), LP: 2, R: Rules{LexSet: true, AutoOrder: true, Min: 1, Max: 4}, Key: namedString, Elem: sc(Uint32)}
	lexFalseList := slice(tof[LexFalseList](), 1, Rules{LexSet: true, ValOrder: true, NoDup: true}, sc(Uint32))
	lexFalsePlain := slice(tof[LexFalsePlain](), 2, Rules{LexSet: true}, sc(Int16))
	ordMaps := strct(tof[OrdMaps](), nil,
		&Field{Name: "A", Key: "a", S: lexFalseMap},
		&Field{Name: "B", Key: "b", S: lexTrueMap},
		&Field{Name: "C", Key: "c", S: tagged(mapOf(2, Rules{LexSet: true, Max: 6}, sc(Int64), sc(Uint8)))},
		&Field{Name: "D", Key: "d", S: lexFalseList},
		&Field{Name: "E", Key: "e", S: tagged(mapOf(1, Rules{}, plainString4, lexFalseMap))},
		&Field{Name: "F", Key: "f", S: lexFalsePlain},
		&Field{Name: "G", Key: "g", S: taggedMM(mapOf(1, Rules{LexSet: true, Max: 4}, sc(Uint64), sc(Bool)))},
	)
	// top-level values with serix.WithTypeSettings (option > registry)
	topMap := mapOf(1, Rules{LexSet: true, Max: 3}, plainString4, sc(Uint16)) // registered: lp32, flag false, max 3; option: lp8
	topMap.Top = &TopSettings{LP: 1}
	topMap2 := mapOf(4, Rules{LexSet: true, AutoOrder: true, Min: 1}, plainString4, sc(Uint16)) // option: flag true + rules{min 1} replace max 3
	topMap2.Top = &TopSettings{HasRules: true, R: Rules{LexSet: true, AutoOrder: true, Min: 1}}
	topMap3 := &Shape{Kind: Map, T: tof[LexTrueMap](), LP: 2, R: Rules{LexSet: true, Min: 1, Max: 4}, Key: namedString, Elem: sc(Uint32)} // option flips the flag to false
	topMap3.Top = &TopSettings{R: Rules{LexSet: true}}
	topSlice := slice(reflect.TypeOf([]uint16{}), 1, Rules{LexSet: true, ValOrder: true}, sc(Uint16)) // registered lp16 max5; option: lp8, flag false, lexical validation
	topSlice.Top = &TopSettings{LP: 1, HasRules: true, R: Rules{LexSet: true, ValOrder: true}}
	topSlice2 := slice(tof[LexFalseList](), 1, Rules{LexSet: true, AutoOrder: true, ValOrder: true, NoDup: true}, sc(Uint32)) // option turns auto ordering on
	topSlice2.Top = &TopSettings{R: Rules{LexSet: true, AutoOrder: true}}
	topBytes := bytesOf(goTypes[Bytes], 2)
	topBytes.R = Rules{Min: 1, Max: 40}
	topBytes.Top = &TopSettings{LP: 2, HasRules: true, R: Rules{Min: 1, Max: 40}}
	topString := str(goTypes[String], 1) // registered lp32; option lp8
	topString.Top = &TopSettings{LP: 1}

	// defined element / key types
	nsc := func(k Kind) *Shape { return &Shape{Kind: k, T: namedTypes[k]} }
	arrOf := func(n int, lp uint8, tagLP bool, e *Shape) *Shape {
		return &Shape{Kind: Array, T: reflect.ArrayOf(n, e.T), N: n, LP: lp, TagLP: tagLP, Elem: e}
	}
	nStr := str(tof[NStr](), 1)
	nBytes := bytesOf(tof[NBytes](), 2)
	nArr4 := barr(tof[NArr4](), 4, nil)
	nu8Arr4 := &Shape{Kind: Array, T: tof[NU8Arr4](), N: 4, LP: 1, Elem: nsc(Uint8)}
	nu8Slice := slice(tof[NU8Slice](), 1, Rules{LexSet: true, AutoOrder: true, ValOrder: true, Max: 6}, nsc(Uint8))
	nu8Map := &Shape{Kind: Map, T: tof[NU8Map](), LP: 2, Key: nsc(Uint8), Elem: nsc(Uint8)}
	namedElems := strct(tof[NamedElems](), nil,
		&Field{Name: "A", Key: "a", S: arrOf(4, 1, true, nsc(Uint8))},
		&Field{Name: "S", Key: "s", S: tagged(slice(reflect.TypeOf([]NU8{}), 2, Rules{}, nsc(Uint8)))},
		&Field{Name: "P", Key: "p", S: ptr(arrOf(4, 1, true, nsc(Uint8)))},
		&Field{Name: "O", Key: "o", S: ptr(arrOf(2, 4, true, nsc(Uint8))), Optional: true},
		&Field{Name: "B", Key: "b", S: tagged(slice(reflect.TypeOf([]NBool{}), 1, Rules{}, nsc(Bool)))},
		&Field{Name: "I", Key: "i", S: arrOf(2, 1, true, nsc(Int16))},
		&Field{Name: "ST", Key: "st", S: tagged(slice(reflect.TypeOf([]NStr{}), 1, Rules{}, nStr))},
		&Field{Name: "MS", Key: "ms", S: tagged(mapOf(1, Rules{}, nStr, nsc(Uint64)))},
		&Field{Name: "MI", Key: "mi", S: tagged(mapOf(1, Rules{}, nsc(Int64), nsc(Bool)))},
		&Field{Name: "BS", Key: "bs", S: tagged(slice(reflect.TypeOf([]NBytes{}), 1, Rules{}, nBytes))},
		&Field{Name: "BA", Key: "ba", S: arrOf(2, 1, true, nArr4)},
		&Field{Name: "MA", Key: "ma", S: tagged(mapOf(1, Rules{}, nArr4, nBytes))},
		&Field{Name: "NA", Key: "na", S: nu8Arr4},
		&Field{Name: "NS", Key: "ns", S: nu8Slice},
		&Field{Name: "Z", Key: "z", S: sc(Uint16)},
	)
	namedBin := strct(tof[NamedBin](), nil,
		&Field{Name: "M", Key: "m", S: tagged(mapOf(1, Rules{}, nsc(Uint8), nsc(Uint8)))},
		&Field{Name: "MB", Key: "mb", S: tagged(mapOf(1, Rules{}, nsc(Bool), nsc(Int16)))},
		&Field{Name: "MK", Key: "mk", S: tagged(mapOf(1, Rules{}, nu8Arr4, nsc(Uint8)))},
		&Field{Name: "NM", Key: "nm", S: nu8Map},
		&Field{Name: "AA", Key: "aa", S: arrOf(2, 1, true, arrOf(2, 1, false, nsc(Uint8)))},
		&Field{Name: "PA", Key: "pa", S: ptr(nu8Arr4), Optional: true},
		&Field{Name: "Z", Key: "z", S: sc(Uint8)},
	)
	pTime := func() *Shape { return ptr(sc(Time)) }
	ptrSpecial := strct(tof[PtrSpecial](), nil,
		&Field{Name: "T", Key: "t", S: pTime()},
		&Field{Name: "O", Key: "o", S: pTime(), Optional: true},
		&Field{Name: "L", Key: "l", S: tagged(slice(reflect.TypeOf([]*time.Time{}), 1, Rules{}, pTime()))},
		&Field{Name: "A", Key: "a", S: arrOf(2, 1, true, pTime())},
		&Field{Name: "M", Key: "m", S: tagged(mapOf(1, Rules{}, sc(Uint64), pTime()))},
		&Field{Name: "H", Key: "h", S: ptr(hash8)},
		&Field{Name: "Z", Key: "z", S: sc(Uint8)},
	)
	ptrNums := strct(tof[PtrNums](), nil,
		&Field{Name: "N", Key: "n", S: sc(BigInt), Optional: true},
		&Field{Name: "NL", Key: "nl", S: taggedMM(slice(reflect.TypeOf([]*big.Int{}), 1, Rules{Max: 2}, sc(BigInt)))},
		&Field{Name: "MN", Key: "mn", S: taggedMM(mapOf(1, Rules{Max: 1}, sc(Uint64), sc(BigInt)))},
		&Field{Name: "PC", Key: "pc", S: tagged(slice(reflect.TypeOf([]*Custom24{}), 1, Rules{}, ptr(custom24)))},
		&Field{Name: "MC", Key: "mc", S: tagged(mapOf(1, Rules{}, sc(Uint64), ptr(custom24)))},
		&Field{Name: "PO", Key: "po", S: ptr(custom24), Optional: true},
		&Field{Name: "Z", Key: "z", S: sc(Uint8)},
	)
	topPtrTime := pTime() // Encode(&t)
	topArr := arrOf(4, 1, false, nsc(Uint8)) // [4]NU8 as top-level value: the count prefix comes from the option
	topArr.Top = &TopSettings{LP: 1}
	topPtrArr := ptr(arrOf(3, 2, false, nsc(Uint8))) // *[3]NU8
	topPtrArr.Top = &TopSettings{LP: 2}
	topNamedArr := &Shape{Kind: Array, T: tof[NU8Arr4](), N: 4, LP: 4, Elem: nsc(Uint8)} // registered lp8; option lp32
	topNamedArr.Top = &TopSettings{LP: 4}

	u.Shapes = []*Shape{aliasing, aliasingJSON, ordMaps, topMap, topMap2, topMap3, topSlice, topSlice2, topBytes, topString, withEmbedded, withEmbeddedPtr, ptr(withEmbeddedPtr), withInlined, optS, ptr(bigTime), mapsBin, mapsJSON, lists, combined,
		circle, ptr(rect), accB,
		namedElems, namedBin, ptrSpecial, ptrNums, topPtrTime, topArr, topPtrArr, topNamedArr}
	return u
}
