package sergen

import (
	"fmt"
	"math/big"
	"math/rand"
	"reflect"
	"strings"
	"time"

	"github.com/iotaledger/hive.go/serializer/v2"
	"github.com/iotaledger/hive.go/serializer/v2/serix"
)

var (
	bigIntType = reflect.TypeOf((*big.Int)(nil))
	timeType   = reflect.TypeOf(time.Time{})
	goTypes    = map[Kind]reflect.Type{
		Bool: reflect.TypeOf(false), Int8: reflect.TypeOf(int8(0)), Int16: reflect.TypeOf(int16(0)),
		Int32: reflect.TypeOf(int32(0)), Int64: reflect.TypeOf(int64(0)), Uint8: reflect.TypeOf(uint8(0)),
		Uint16: reflect.TypeOf(uint16(0)), Uint32: reflect.TypeOf(uint32(0)), Uint64: reflect.TypeOf(uint64(0)),
		Float32: reflect.TypeOf(float32(0)), Float64: reflect.TypeOf(float64(0)), String: reflect.TypeOf(""),
		Bytes: reflect.TypeOf([]byte(nil)), BigInt: bigIntType, Time: timeType,
	}
	scalarKinds = []Kind{Bool, Int8, Int16, Int32, Int64, Uint8, Uint16, Uint32, Uint64, Float32, Float64}
)

// Options steer the dynamic grammar.
type Options struct {
	NoNonByteArrays bool // leave [N]T (T≠byte) out (C02/C03 use this to get past the known array defect)
	NoZeroWidth     bool // no empty structs / [0]byte (sequences of zero-width elements are outside C02/C03)
	SafeAlloc       bool // strings and byte slices get at most a uint16 prefix (decoders allocate the denoted length up front)
	MaxDepth        int  // default 4
}

type dynGen struct {
	u       *Universe
	rng     *rand.Rand
	o       Options
	noIface bool                  // while generating implementation 0 of an interface (termination of value generation)
	seen    map[reflect.Type]bool // types that already occur somewhere (registry rules may only be attached at first sight)
}

// NewDynamic builds a fresh API with run-time constructed types; deterministic in seed.
func NewDynamic(seed int64, opt ...Options) *Universe {
	u := &Universe{API: serix.NewAPI(), Seed: seed, reg: map[reflect.Type]*regEntry{}}
	g := &dynGen{u: u, rng: rand.New(rand.NewSource(seed)), seen: map[reflect.Type]bool{}}
	if len(opt) > 0 {
		g.o = opt[0]
	}
	if g.o.MaxDepth == 0 {
		g.o.MaxDepth = 4
	}
	// Implementations of the two interface types. Round 0: leaf structs (no interface fields),
	// so that value generation can always terminate on implementation 0.
	n8, n32 := 2+g.rng.Intn(3), 2+g.rng.Intn(2)
	codes8 := g.rng.Perm(250)
	for i := 0; i < n8; i++ {
		g.noIface = i == 0
		s := g.genStruct(2, i > 0, &Code{1, uint32(codes8[i])})
		u.Impl8 = append(u.Impl8, s)
	}
	for i := 0; i < n32; i++ {
		c := uint32(g.rng.Intn(6))
		if g.rng.Intn(2) == 0 {
			c = g.rng.Uint32()
		}
		for dup := true; dup; {
			dup = false
			for _, o := range u.Impl32 {
				if o.Code.V == c {
					c, dup = c+1, true
				}
			}
		}
		g.noIface = i == 0
		s := g.genStruct(2, i > 0, &Code{4, c})
		u.Impl32 = append(u.Impl32, s)
	}
	g.noIface = false
	reg := func(it reflect.Type, impls []*Shape) {
		objs := make([]any, len(impls))
		for i, s := range impls {
			objs[i] = reflect.Zero(s.T).Interface()
		}
		if err := u.API.RegisterInterfaceObjects(reflect.Zero(reflect.PointerTo(it)).Interface(), objs...); err != nil {
			panic(fmt.Sprintf("sergen: RegisterInterfaceObjects: %v", err))
		}
	}
	reg(any8Type, u.Impl8)
	reg(any32Type, u.Impl32)
	nTop := 1 + g.rng.Intn(2)
	for i := 0; i < nTop; i++ {
		var code *Code
		if g.rng.Intn(4) == 0 {
			code = &Code{1, uint32(251 + i)}
		}
		s := g.genStruct(0, true, code)
		if g.rng.Intn(3) == 0 {
			s = &Shape{Kind: Ptr, T: reflect.PointerTo(s.T), Elem: s}
		}
		u.Shapes = append(u.Shapes, s)
	}
	// top-level values that are encoded / decoded with serix.WithTypeSettings
	for i, n := 0, g.rng.Intn(3); i < n; i++ {
		u.Shapes = append(u.Shapes, g.genTop())
	}
	// top-level values of the specially treated types, by value and behind a pointer (Encode(&t))
	switch g.rng.Intn(12) {
	case 0, 1:
		u.Shapes = append(u.Shapes, ptrTime())
	case 2:
		u.Shapes = append(u.Shapes, &Shape{Kind: Time, T: timeType})
	case 3:
		u.Shapes = append(u.Shapes, &Shape{Kind: BigInt, T: bigIntType})
	}
	return u
}

// ptrTime is the shape of *time.Time: a pointer encodes as its pointee.
func ptrTime() *Shape {
	return &Shape{Kind: Ptr, T: reflect.PointerTo(timeType), Elem: &Shape{Kind: Time, T: timeType}}
}

// leafT returns the Go type of a basic kind: the predeclared type or (1 in 4) a defined type over it.
func (g *dynGen) leafT(k Kind) reflect.Type {
	if nt, ok := namedTypes[k]; ok && g.rng.Intn(4) == 0 {
		return nt
	}
	return goTypes[k]
}

// leafShape builds the node of a defined leaf type (settings of strings / byte slices come from the registry).
func (g *dynGen) leafShape(k Kind, n int) *Shape {
	switch k {
	case String, Bytes:
		s := &Shape{Kind: k, T: namedTypes[k]}
		g.settle(s, false, false)
		if s.LP == 0 {
			return nil
		}
		return s
	case ByteArray:
		t := namedByteArrays[n]
		s := &Shape{Kind: ByteArray, T: t, N: n}
		g.seen[t] = true
		if e, ok := g.u.reg[t]; ok {
			s.Code = e.code
		}
		return s
	}
	return &Shape{Kind: k, T: namedTypes[k]}
}

// namedColl picks a defined collection type of the wanted kind from the pool.
func (g *dynGen) namedColl(k Kind, keyPos bool) *Shape {
	var cands []namedColl
	for _, c := range namedColls {
		if c.kind == k && (!keyPos || c.comparable) {
			cands = append(cands, c)
		}
	}
	if len(cands) == 0 {
		return nil
	}
	c := cands[g.rng.Intn(len(cands))]
	s := &Shape{Kind: c.kind, T: c.t, N: c.n}
	if s.Elem = g.leafShape(c.elem, c.elemN); s.Elem == nil {
		return nil
	}
	if c.kind == Map {
		if s.Key = g.leafShape(c.key, 0); s.Key == nil {
			return nil
		}
	}
	return s
}

// genTop builds a top-level map / slice / byte slice / string shape whose settings come
// (partly) from a serix.WithTypeSettings option. Precedence modelled: option > registry,
// per setting (length prefix, ordering flag, array rules as one unit).
func (g *dynGen) genTop() *Shape {
	r := g.rng
	var s *Shape
	x := r.Intn(12)
	if x >= 10 && g.o.NoNonByteArrays {
		x = r.Intn(10)
	}
	var arr *Shape // x >= 10: the array node the option's settings apply to
	switch {
	case x < 5:
		key, _ := g.gen(g.o.MaxDepth-1, false, true)
		elem, _ := g.gen(g.o.MaxDepth-1, false, false)
		s = &Shape{Kind: Map, Key: key, Elem: elem, T: reflect.MapOf(key.T, elem.T)}
	case x < 8:
		var elem *Shape
		for elem == nil || (elem.Kind == Uint8 && elem.T == goTypes[Uint8]) {
			elem, _ = g.gen(g.o.MaxDepth-1, false, false)
			if r.Intn(6) == 0 {
				elem = &Shape{Kind: Uint8, T: namedTypes[Uint8]}
			}
		}
		s = &Shape{Kind: Slice, Elem: elem, T: reflect.SliceOf(elem.T)}
	case x < 9:
		s = &Shape{Kind: Bytes, T: g.leafT(Bytes)}
	case x < 10:
		s = &Shape{Kind: String, T: g.leafT(String)}
	default:
		// [N]T and *[N]T (T not byte) as top-level values: the count prefix comes from the option
		var elem *Shape
		switch r.Intn(3) {
		case 0:
			elem = &Shape{Kind: Uint8, T: namedTypes[Uint8]}
		case 1:
			ek := scalarKinds[r.Intn(len(scalarKinds))]
			elem = &Shape{Kind: ek, T: g.leafT(ek)}
		default:
			elem, _ = g.gen(g.o.MaxDepth-1, false, false)
		}
		if elem.Kind == Uint8 && elem.T == goTypes[Uint8] {
			elem = &Shape{Kind: Uint8, T: namedTypes[Uint8]}
		}
		n := r.Intn(5)
		if n == 1 {
			switch elem.Kind {
			case Ptr, BigInt, Map, Struct, Array, Iface:
				n = 2 // see gen: non-addressable [1]pointer-shaped arrays hit a reflect.Copy quirk of go1.23
			}
		}
		arr = &Shape{Kind: Array, Elem: elem, N: n, T: reflect.ArrayOf(n, elem.T)}
		s = arr
	}
	g.seen[s.T] = true
	if arr != nil {
		top := &TopSettings{}
		if e, ok := g.u.reg[arr.T]; ok {
			arr.LP, arr.R = e.lp, e.r
		}
		if arr.LP == 0 || r.Intn(2) == 0 {
			top.LP = g.lp()
			arr.LP = top.LP
		}
		if x == 11 {
			s = &Shape{Kind: Ptr, Elem: arr, T: reflect.PointerTo(arr.T)}
		}
		s.Top = top
		return s
	}
	top := &TopSettings{}
	e, ok := g.u.reg[s.T]
	if ok {
		s.LP, s.R = e.lp, e.r
	}
	if !ok || e.lp == 0 || r.Intn(2) == 0 {
		top.LP = g.lp()
		if g.o.SafeAlloc && (s.Kind == String || s.Kind == Bytes) && top.LP == 4 {
			top.LP = 2
		}
		s.LP = top.LP
	}
	if s.Kind == Map || s.Kind == Slice {
		switch r.Intn(3) {
		case 0:
			top.R.LexSet, top.R.AutoOrder = true, false
		case 1:
			top.R.LexSet, top.R.AutoOrder = true, true
		}
		if top.R.LexSet {
			s.R.LexSet, s.R.AutoOrder = true, top.R.AutoOrder
		}
	}
	if r.Intn(2) == 0 {
		top.HasRules = true
		if r.Intn(2) == 0 {
			top.R.Min, top.R.Max = g.bounds()
		}
		if s.Kind == Map || s.Kind == Slice {
			switch r.Intn(5) {
			case 0:
				top.R.ValOrder = true
			case 1:
				top.R.NoDup = true
			case 2:
				top.R.ValOrder, top.R.NoDup = true, true
			}
		}
		// the option's ArrayRules replace the registered ones as a whole
		s.R = Rules{LexSet: s.R.LexSet, AutoOrder: s.R.AutoOrder, Min: top.R.Min, Max: top.R.Max, ValOrder: top.R.ValOrder, NoDup: top.R.NoDup}
	}
	s.Top = top
	return s
}

func (u *Universe) nextID() int { u.uid++; return u.uid }

// register stores settings for t in the API registry (once per type).
func (u *Universe) register(t reflect.Type, e *regEntry) {
	if _, dup := u.reg[t]; dup {
		panic("sergen: duplicate registration of " + t.String())
	}
	ts := serix.TypeSettings{}
	if e.lp != 0 {
		ts = ts.WithLengthPrefixType(lpType(e.lp))
	}
	if e.code != nil {
		if e.code.W == 1 {
			ts = ts.WithObjectType(uint8(e.code.V))
		} else {
			ts = ts.WithObjectType(e.code.V)
		}
	}
	if e.r.AutoOrder || e.r.LexSet {
		ts = ts.WithLexicalOrdering(e.r.AutoOrder)
	}
	if ar := arrayRulesOf(e.r); ar != nil {
		ts = ts.WithArrayRules(ar)
	}
	if err := u.API.RegisterTypeSettings(reflect.Zero(t).Interface(), ts); err != nil {
		panic(fmt.Sprintf("sergen: RegisterTypeSettings(%s): %v", t, err))
	}
	u.reg[t] = e
}

func arrayRulesOf(r Rules) *serix.ArrayRules {
	if r.noArrayRules() {
		return nil
	}
	{
		e := struct{ r Rules }{r}
		ar := &serix.ArrayRules{Min: e.r.Min, Max: e.r.Max}
		if e.r.ValOrder {
			ar.ValidationMode |= serializer.ArrayValidationModeLexicalOrdering
		}
		if e.r.NoDup {
			ar.ValidationMode |= serializer.ArrayValidationModeNoDuplicates
		}
		switch e.r.OneOfEach {
		case 1:
			ar.ValidationMode |= serializer.ArrayValidationModeAtMostOneOfEachTypeByte
		case 4:
			ar.ValidationMode |= serializer.ArrayValidationModeAtMostOneOfEachTypeUint32
		}
		if len(e.r.MustOccur) > 0 {
			ar.MustOccur = serializer.TypePrefixes{}
			for _, c := range e.r.MustOccur {
				ar.MustOccur[c] = struct{}{}
			}
		}
		return ar
	}
}

// TopOptions returns the serix options a top-level shape is encoded and decoded with
// (nil unless the shape carries TopSettings).
func TopOptions(s *Shape) []serix.Option {
	if s.Top == nil {
		return nil
	}
	ts := serix.TypeSettings{}
	if s.Top.LP != 0 {
		ts = ts.WithLengthPrefixType(lpType(s.Top.LP))
	}
	if s.Top.R.LexSet {
		ts = ts.WithLexicalOrdering(s.Top.R.AutoOrder)
	}
	if s.Top.HasRules {
		ar := arrayRulesOf(s.Top.R)
		if ar == nil {
			ar = &serix.ArrayRules{}
		}
		ts = ts.WithArrayRules(ar)
	}
	return []serix.Option{serix.WithTypeSettings(ts)}
}

func lpType(w uint8) serix.LengthPrefixType {
	switch w {
	case 1:
		return serix.LengthPrefixTypeAsByte
	case 2:
		return serix.LengthPrefixTypeAsUint16
	}
	return serix.LengthPrefixTypeAsUint32
}

func lpName(w uint8) string {
	switch w {
	case 1:
		return "uint8"
	case 2:
		return "uint16"
	}
	return "uint32"
}

func (g *dynGen) lp() uint8 { return []uint8{1, 1, 2, 2, 4}[g.rng.Intn(5)] }

func (g *dynGen) bounds() (uint, uint) {
	switch g.rng.Intn(4) {
	case 0:
		return uint(1 + g.rng.Intn(2)), 0
	case 1:
		return 0, uint(1 + g.rng.Intn(6))
	case 2:
		mn := uint(g.rng.Intn(3))
		return mn, mn + uint(g.rng.Intn(5))
	}
	mn := uint(1 + g.rng.Intn(3))
	return mn, mn
}

// inField: the node sits in a struct field, so tag settings may override the registry.
// It returns the shape and the tag parts (",lenPrefix=…,minLen=…").
func (g *dynGen) gen(depth int, inField bool, keyPos bool) (*Shape, string) {
	r := g.rng
	leafOnly := depth >= g.o.MaxDepth
	for {
		var k Kind
		x := r.Intn(100)
		switch {
		case keyPos:
			k = []Kind{Bool, Int8, Int16, Int32, Int64, Uint8, Uint16, Uint32, Uint64, Float64, String, String, ByteArray, ByteArray, Struct, Array, Int64, Uint64, String}[r.Intn(19)]
		case x < 30 || leafOnly && x < 60:
			k = scalarKinds[r.Intn(len(scalarKinds))]
		case x < 40 || leafOnly && x < 75:
			k = String
		case x < 48 || leafOnly && x < 85:
			k = Bytes
		case x < 54 || leafOnly && x < 92:
			k = ByteArray
		case x < 57 || leafOnly && x < 96:
			k = BigInt
		case x < 60 || leafOnly:
			k = Time
		case x < 72:
			k = Slice
		case x < 78:
			k = Array
		case x < 85:
			k = Map
		case x < 91:
			k = Struct
		case x < 95:
			k = Ptr
		default:
			k = Iface
		}
		if k == Array && g.o.NoNonByteArrays {
			continue
		}
		if k == Iface && g.noIface {
			continue
		}
		if keyPos && (k == Struct || k == Array) && depth >= g.o.MaxDepth {
			continue
		}
		switch k {
		case Bool, Int8, Int16, Int32, Int64, Uint8, Uint16, Uint32, Uint64, Float32, Float64:
			return &Shape{Kind: k, T: g.leafT(k)}, ""
		case BigInt:
			return &Shape{Kind: k, T: goTypes[k]}, ""
		case Time:
			if r.Intn(4) == 0 {
				return ptrTime(), "" // the specially treated struct type behind a pointer
			}
			return &Shape{Kind: k, T: goTypes[k]}, ""
		case String, Bytes:
			s := &Shape{Kind: k, T: g.leafT(k)}
			tag := g.settle(s, inField, false)
			if s.LP == 0 {
				continue
			}
			return s, tag
		case ByteArray:
			n := []int{0, 1, 2, 4, 8, 20, 32, 33}[r.Intn(8)]
			if n == 0 && (g.o.NoZeroWidth || keyPos) {
				n = 3
			}
			t := reflect.ArrayOf(n, goTypes[Uint8])
			if nt, ok := namedByteArrays[n]; ok && r.Intn(3) == 0 {
				t = nt // defined type over [N]byte: still a byte array
			}
			s := &Shape{Kind: ByteArray, T: t, N: n}
			first := !g.seen[t]
			g.seen[t] = true
			if e, ok := g.u.reg[t]; ok {
				s.Code = e.code
			} else if first && r.Intn(12) == 0 && !keyPos {
				e := &regEntry{code: &Code{1, uint32(r.Intn(256))}}
				g.u.register(t, e)
				s.Code = e.code
			}
			return s, ""
		case Slice, Array:
			if r.Intn(7) == 0 {
				// a defined collection type over defined element types
				if s := g.namedColl(k, keyPos); s != nil {
					tag := g.settle(s, inField, true)
					if s.LP == 0 {
						continue
					}
					return s, tag
				}
			}
			var elem *Shape
			if keyPos {
				// comparable element types; a defined one-byte number makes an array of objects, not a byte array
				ek := []Kind{Uint16, Bool, Uint8, Uint8, Int16, Uint32}[r.Intn(6)]
				et := goTypes[ek]
				if ek == Uint8 || r.Intn(3) == 0 {
					et = namedTypes[ek]
				}
				elem = &Shape{Kind: ek, T: et}
			} else if r.Intn(4) == 0 && k == Slice && !g.noIface {
				elem = g.iface()
			} else if r.Intn(8) == 0 {
				ek := []Kind{Uint8, Uint8, Bool, Int8, Uint16, Int64}[r.Intn(6)]
				elem = &Shape{Kind: ek, T: namedTypes[ek]}
			} else if r.Intn(12) == 0 {
				elem = ptrTime()
			} else {
				elem, _ = g.gen(depth+1, false, false)
			}
			if elem.Kind == Uint8 && elem.T == goTypes[Uint8] { // that would be a byte slice / byte array
				continue
			}
			s := &Shape{Kind: k, Elem: elem}
			if k == Slice {
				s.T = reflect.SliceOf(elem.T)
			} else {
				s.N = r.Intn(4)
				if s.N == 1 {
					switch elem.Kind {
					case Ptr, BigInt, Map, Struct, Array, Iface:
						// a non-addressable [1]T whose T is pointer-shaped is stored directly in the
						// interface word; reflect.Copy (go1.23) then reads from the wrong address.
						// That is a toolchain quirk, not hive.go's: keep such arrays out.
						s.N = 2
					}
				}
				s.T = reflect.ArrayOf(s.N, elem.T)
			}
			tag := g.settle(s, inField, true)
			if s.LP == 0 {
				continue
			}
			return s, tag
		case Map:
			var s *Shape
			if r.Intn(8) == 0 {
				s = g.namedColl(Map, false)
			}
			if s == nil {
				key, _ := g.gen(depth+1, false, true)
				elem, _ := g.gen(depth+1, false, false)
				if r.Intn(12) == 0 {
					elem = ptrTime()
				}
				s = &Shape{Kind: Map, Key: key, Elem: elem, T: reflect.MapOf(key.T, elem.T)}
			}
			tag := g.settle(s, inField, false)
			if s.LP == 0 {
				continue
			}
			return s, tag
		case Struct:
			var code *Code
			if r.Intn(6) == 0 && !keyPos {
				code = &Code{W: []uint8{1, 4}[r.Intn(2)], V: uint32(r.Intn(300))}
				if code.W == 1 {
					code.V &= 0xff
				}
			}
			if keyPos {
				return g.genKeyStruct(), ""
			}
			return g.genStruct(depth+1, true, code), ""
		case Ptr:
			var el *Shape
			sub := r.Intn(8)
			if sub == 2 {
				return ptrTime(), ""
			}
			if sub < 2 && !g.o.NoNonByteArrays {
				// pointer to an array
				want := []Kind{Array, ByteArray}[r.Intn(2)]
				if depth+1 >= g.o.MaxDepth {
					want = ByteArray // no composite keys at the depth limit
				}
				el, _ = g.gen(depth+1, false, true)
				for el.Kind != want {
					el, _ = g.gen(depth+1, false, true)
				}
				s := &Shape{Kind: Ptr, Elem: el, T: reflect.PointerTo(el.T)}
				var tag string
				if el.Kind == Array && inField && r.Intn(3) == 0 {
					// tag settings apply to the array behind the pointer
					cp := *el
					cp.LP, cp.TagLP = g.lp(), true
					s.Elem = &cp
					tag = ",lenPrefix=" + lpName(cp.LP)
				}
				return s, tag
			}
			el = g.genStruct(depth+1, true, nil)
			return &Shape{Kind: Ptr, Elem: el, T: reflect.PointerTo(el.T)}, ""
		case Iface:
			return g.iface(), ""
		}
	}
}

func (g *dynGen) iface() *Shape {
	if g.rng.Intn(2) == 0 {
		return &Shape{Kind: Iface, T: any8Type, Impls: &g.u.Impl8, CodeW: 1}
	}
	return &Shape{Kind: Iface, T: any32Type, Impls: &g.u.Impl32, CodeW: 4}
}

// settle decides the effective length prefix and rules of a string / bytes /
// collection node: registry settings of the Go type (created on first use) and,
// inside a struct field, optional tag overrides. Precedence modelled: tag > registry.
func (g *dynGen) settle(s *Shape, inField bool, sliceRules bool) string {
	r := g.rng
	lp := g.lp
	if g.o.SafeAlloc && (s.Kind == String || s.Kind == Bytes) {
		lp = func() uint8 { return []uint8{1, 1, 2}[r.Intn(3)] }
	}
	e, ok := g.u.reg[s.T]
	first := !g.seen[s.T]
	g.seen[s.T] = true
	create := !inField || r.Intn(3) == 0
	if s.Kind == Map && first {
		create = !inField || r.Intn(4) != 0 // maps get registered settings most of the time: that is where the ordering flag lives
	}
	if !ok && create {
		e = &regEntry{lp: lp()}
		if inField && first && r.Intn(5) == 0 {
			e.lp = 0 // registered settings without a length prefix type: the struct tag supplies it
		}
		if first && r.Intn(3) == 0 {
			e.r.Min, e.r.Max = g.bounds()
		}
		if first && s.Kind == Map {
			// every ordering-related knob explicitly, in all combinations: flag unset / false / true,
			// with and without array rules (bounds above; validation modes here)
			switch r.Intn(3) {
			case 0:
				e.r.LexSet, e.r.AutoOrder = true, false
			case 1:
				e.r.LexSet, e.r.AutoOrder = true, true
			}
			switch r.Intn(6) {
			case 0:
				e.r.ValOrder = true
			case 1:
				e.r.NoDup = true
			case 2:
				e.r.ValOrder, e.r.NoDup = true, true
			}
		}
		if first && sliceRules && s.Elem != nil {
			switch r.Intn(8) {
			case 0:
				e.r.AutoOrder, e.r.ValOrder = true, true
			case 1:
				e.r.AutoOrder, e.r.ValOrder, e.r.NoDup = true, true, true
			case 2:
				e.r.ValOrder = true
			case 3:
				e.r.NoDup = true
			case 4:
				e.r.ValOrder, e.r.NoDup = true, true
			case 5:
				e.r.AutoOrder = true // ordering flag without the validation mode: no sorting happens
			}
			if e.r.AutoOrder {
				e.r.LexSet = true
			} else if r.Intn(3) == 0 {
				e.r.LexSet = true // explicit WithLexicalOrdering(false): keep the given order
			}
			if s.Elem.Kind == Iface {
				if r.Intn(2) == 0 {
					e.r.OneOfEach = s.Elem.CodeW
				}
				if impls := *s.Elem.Impls; r.Intn(2) == 0 && len(impls) > 0 {
					e.r.MustOccur = []uint32{ImplCode(impls[r.Intn(len(impls))])}
				}
			}
		}
		g.u.register(s.T, e)
		ok = true
	}
	var tag string
	if ok {
		s.LP, s.R = e.lp, e.r
	}
	if inField {
		if !ok || e.lp == 0 || r.Intn(4) == 0 {
			s.LP, s.TagLP = lp(), true
			tag += ",lenPrefix=" + lpName(s.LP)
		}
		if (!ok || e.r.noArrayRules()) && r.Intn(3) == 0 {
			// tag min/max create the ArrayRules; the ordering flag is a separate setting and stays
			s.R = Rules{LexSet: s.R.LexSet, AutoOrder: s.R.AutoOrder}
			s.R.Min, s.R.Max = g.bounds()
			s.TagMM = true
			if s.R.Min != 0 {
				tag += fmt.Sprintf(",minLen=%d", s.R.Min)
			}
			if s.R.Max != 0 {
				tag += fmt.Sprintf(",maxLen=%d", s.R.Max)
			}
		}
	}
	return tag
}

// TagFor returns the tag parts that reproduce the tag-derived settings of s.
func TagFor(s *Shape) string {
	t := s
	if s.Kind == Ptr && s.Elem.Kind == Array {
		t = s.Elem
	}
	var tag string
	if t.TagLP {
		tag += ",lenPrefix=" + lpName(t.LP)
	}
	if t.TagMM {
		if t.R.Min != 0 {
			tag += fmt.Sprintf(",minLen=%d", t.R.Min)
		}
		if t.R.Max != 0 {
			tag += fmt.Sprintf(",maxLen=%d", t.R.Max)
		}
	}
	return tag
}

func (g *dynGen) genKeyStruct() *Shape {
	n := 1 + g.rng.Intn(2)
	s := &Shape{Kind: Struct}
	var sf []reflect.StructField
	for i := 0; i < n; i++ {
		k := []Kind{Bool, Uint8, Int16, Uint32, Uint64}[g.rng.Intn(5)]
		f := &Field{Name: fmt.Sprintf("F%d", i), Idx: i, Key: fmt.Sprintf("k%df%d", g.u.nextID(), i), S: &Shape{Kind: k, T: goTypes[k]}}
		s.Fields = append(s.Fields, f)
		sf = append(sf, reflect.StructField{Name: f.Name, Type: f.S.T, Tag: reflect.StructTag(`serix:"` + f.Key + `"`)})
	}
	s.T = reflect.StructOf(sf)
	return s
}

// genStruct builds a struct type with 0..5 tagged fields. Every generated struct
// type is unique (JSON keys carry a universe-wide id).
func (g *dynGen) genStruct(depth int, allowIface bool, code *Code) *Shape {
	r := g.rng
	id := g.u.nextID()
	n := r.Intn(6)
	if n == 0 && (g.o.NoZeroWidth || code != nil || r.Intn(3) != 0) {
		n = 1 + r.Intn(3)
	}
	s := &Shape{Kind: Struct, Code: code}
	var sf []reflect.StructField
	for i := 0; i < n; i++ {
		f := &Field{Name: fmt.Sprintf("F%d", i), Idx: i, Key: fmt.Sprintf("s%df%d", id, i)}
		var tag string
		switch x := r.Intn(20); {
		case x == 0:
			// optional pointer to struct
			el := g.genStruct(depth+1, allowIface, nil)
			f.S = &Shape{Kind: Ptr, Elem: el, T: reflect.PointerTo(el.T)}
			f.Optional = true
		case x == 1 && allowIface && !g.noIface:
			f.S = g.iface()
			f.Optional = true
		case x == 2 && !g.o.NoNonByteArrays:
			// optional pointer to array
			var el *Shape
			want := []Kind{Array, ByteArray}[r.Intn(2)]
			if depth+1 >= g.o.MaxDepth {
				want = ByteArray
			}
			for el == nil || el.Kind != want {
				el, _ = g.gen(depth+1, false, true)
			}
			f.S = &Shape{Kind: Ptr, Elem: el, T: reflect.PointerTo(el.T)}
			f.Optional = true
		case x == 3:
			// optional pointer to a specially treated type: *time.Time (marker + 8 bytes) or *big.Int (marker + 32 bytes)
			if r.Intn(3) == 0 {
				f.S = &Shape{Kind: BigInt, T: bigIntType}
			} else {
				f.S = ptrTime()
			}
			f.Optional = true
		default:
			for {
				f.S, tag = g.gen(depth+1, true, false)
				if f.S.Kind == Iface && !allowIface {
					continue
				}
				break
			}
		}
		if f.Optional && g.o.NoZeroWidth && f.S.ZeroWidth() {
			f.Optional = false
		}
		if f.Optional {
			tag += ",optional"
		}
		if r.Intn(8) == 0 {
			f.OmitEmpty = true
			tag += ",omitempty"
		}
		s.Fields = append(s.Fields, f)
		sf = append(sf, reflect.StructField{Name: f.Name, Type: f.S.T, Tag: reflect.StructTag(`serix:"` + f.Key + tag + `"`)})
	}
	s.T = reflect.StructOf(sf)
	if code != nil {
		g.u.register(s.T, &regEntry{code: code})
	}
	return s
}

// Wrap returns a single-field struct shape around node s (used to re-run a check on
// a sub-node of a failing shape). The field tag reproduces the tag-derived settings.
func Wrap(u *Universe, s *Shape, f *Field) *Shape {
	nf := &Field{Name: "X", Key: fmt.Sprintf("w%d", u.nextID()), S: s}
	tag := TagFor(s)
	if f != nil {
		nf.Optional, nf.OmitEmpty = f.Optional, f.OmitEmpty
		if f.Optional {
			tag += ",optional"
		}
		if f.OmitEmpty {
			tag += ",omitempty"
		}
	}
	t := reflect.StructOf([]reflect.StructField{{Name: "X", Type: s.T, Tag: reflect.StructTag(`serix:"` + nf.Key + tag + `"`)}})
	return &Shape{Kind: Struct, T: t, Fields: []*Field{nf}}
}

// Describe renders the Go type with its tags (for replay files).
func Describe(s *Shape) string {
	return strings.ReplaceAll(s.T.String(), "sergen.", "")
}
