package sergen

import (
	"math"
	"math/big"
	"math/rand"
	"reflect"
	"unsafe"
)

// New returns a pointer to a zero value of the shape's Go type (Decode destination).
func New(s *Shape) reflect.Value { return reflect.New(s.T) }

// Build constructs the Go value of v. rng (may be nil) shuffles map insertion order
// and chooses between nil and empty for zero-length slices and maps.
func Build(s *Shape, v *Val, rng *rand.Rand) reflect.Value {
	dst := reflect.New(s.T).Elem()
	build(s, v, dst, rng)
	return dst
}

func build(s *Shape, v *Val, dst reflect.Value, rng *rand.Rand) {
	switch s.Kind {
	case Bool:
		dst.SetBool(v.U != 0)
	case Int8, Int16, Int32, Int64:
		dst.SetInt(int64(v.U))
	case Uint8, Uint16, Uint32, Uint64:
		dst.SetUint(v.U)
	case Float32:
		*(*uint32)(dst.Addr().UnsafePointer()) = uint32(v.U) // keeps signalling-NaN payloads
	case Float64:
		*(*uint64)(dst.Addr().UnsafePointer()) = v.U
	case String:
		dst.SetString(string(v.S))
	case Bytes:
		if len(v.S) == 0 && rng != nil && rng.Intn(2) == 0 {
			dst.Set(reflect.Zero(s.T))
			return
		}
		dst.SetBytes(append([]byte{}, v.S...))
	case ByteArray:
		reflect.Copy(dst, reflect.ValueOf(v.S))
	case Array:
		for i, e := range v.L {
			build(s.Elem, e, dst.Index(i), rng)
		}
	case Slice:
		if len(v.L) == 0 && rng != nil && rng.Intn(2) == 0 {
			dst.Set(reflect.Zero(s.T))
			return
		}
		sl := reflect.MakeSlice(s.T, len(v.L), len(v.L))
		for i, e := range v.L {
			build(s.Elem, e, sl.Index(i), rng)
		}
		dst.Set(sl)
	case Map:
		n := len(v.L) / 2
		if n == 0 && rng != nil && rng.Intn(2) == 0 {
			dst.Set(reflect.Zero(s.T))
			return
		}
		m := reflect.MakeMapWithSize(s.T, n)
		order := make([]int, n)
		for i := range order {
			order[i] = i
		}
		if rng != nil {
			rng.Shuffle(n, func(i, j int) { order[i], order[j] = order[j], order[i] })
		}
		for _, i := range order {
			k := reflect.New(s.Key.T).Elem()
			build(s.Key, v.L[2*i], k, rng)
			e := reflect.New(s.Elem.T).Elem()
			build(s.Elem, v.L[2*i+1], e, rng)
			m.SetMapIndex(k, e)
		}
		dst.Set(m)
	case Struct:
		for i, f := range s.Fields {
			fv := v.L[i]
			fd := dst.Field(f.Idx)
			if fv.Nil {
				fd.Set(reflect.Zero(fd.Type()))
				continue
			}
			build(f.S, fv, fd, rng)
		}
	case Ptr:
		if v.Nil {
			dst.Set(reflect.Zero(s.T))
			return
		}
		p := reflect.New(s.Elem.T)
		build(s.Elem, v.L[0], p.Elem(), rng)
		dst.Set(p)
	case Iface:
		if v.Nil {
			dst.Set(reflect.Zero(s.T))
			return
		}
		im := (*s.Impls)[v.Impl]
		tmp := reflect.New(im.T).Elem()
		build(im, v.L[0], tmp, rng)
		dst.Set(tmp)
	case BigInt:
		dst.Set(reflect.ValueOf(new(big.Int).Set(v.Big)))
	case Time:
		dst.Set(reflect.ValueOf(v.Time))
	case Custom:
		s.Codec.Set(dst, v.U)
	}
}

func addressable(rv reflect.Value) reflect.Value {
	if rv.CanAddr() {
		return rv
	}
	tmp := reflect.New(rv.Type()).Elem()
	tmp.Set(rv)
	return tmp
}

// Extract converts a Go value of type s.T back into a Val.
func Extract(s *Shape, rv reflect.Value) *Val {
	switch s.Kind {
	case Bool:
		if rv.Bool() {
			return &Val{U: 1}
		}
		return &Val{}
	case Int8, Int16, Int32, Int64:
		return &Val{U: uint64(rv.Int())}
	case Uint8, Uint16, Uint32, Uint64:
		return &Val{U: rv.Uint()}
	case Float32:
		rv = addressable(rv)
		return &Val{U: uint64(*(*uint32)(unsafe.Pointer(rv.Addr().UnsafePointer())))}
	case Float64:
		return &Val{U: math.Float64bits(rv.Float())}
	case String:
		return &Val{S: []byte(rv.String())}
	case Bytes:
		return &Val{S: append([]byte{}, rv.Bytes()...)}
	case ByteArray:
		b := make([]byte, rv.Len())
		reflect.Copy(reflect.ValueOf(b), rv)
		return &Val{S: b}
	case Array, Slice:
		v := &Val{L: make([]*Val, rv.Len())}
		for i := range v.L {
			v.L[i] = Extract(s.Elem, rv.Index(i))
		}
		return v
	case Map:
		v := &Val{}
		it := rv.MapRange()
		for it.Next() {
			v.L = append(v.L, Extract(s.Key, it.Key()), Extract(s.Elem, it.Value()))
		}
		return v
	case Struct:
		v := &Val{L: make([]*Val, len(s.Fields))}
		for i, f := range s.Fields {
			fd := rv.Field(f.Idx)
			if (f.S.Kind == Ptr || f.S.Kind == Iface || (f.S.Kind == BigInt && f.Optional)) && fd.IsNil() {
				v.L[i] = &Val{Nil: true}
				continue
			}
			v.L[i] = Extract(f.S, fd)
		}
		return v
	case Ptr:
		if rv.IsNil() {
			return &Val{Nil: true}
		}
		return &Val{L: []*Val{Extract(s.Elem, rv.Elem())}}
	case Iface:
		if rv.IsNil() {
			return &Val{Nil: true}
		}
		el := rv.Elem()
		for j, im := range *s.Impls {
			if im.T == el.Type() {
				return &Val{Impl: j, L: []*Val{Extract(im, el)}}
			}
		}
		return &Val{Impl: -1}
	case BigInt:
		if rv.IsNil() {
			return &Val{Nil: true, Big: new(big.Int)}
		}
		return &Val{Big: new(big.Int).Set(rv.Interface().(*big.Int))}
	case Time:
		return &Val{Time: rv.Interface().(timeT)}
	case Custom:
		return &Val{U: s.Codec.Get(addressable(rv))}
	}
	panic("sergen: unknown kind")
}
