package sergen

import (
	"fmt"
	"math"
	"math/big"
	"reflect"
	"time"
	"unicode/utf8"

	"github.com/iotaledger/hive.go/serializer/v2/serix"
)

// NewBoundary builds the boundary universe (Seed -2): shapes with one string / byte slice /
// element slice / map per length-prefix width and *fixed* values (Universe.Fixed) whose lengths
// sit on the boundaries of every prefix width (0, 1, 127, 128, 255, 256, 32767, 32768, 65535,
// 65536, 70000), *big.Int positions with 0, 1, 2^255, 2^256-1, 2^256, 2^256+1, 2^257-2, -1, and
// time.Time positions around the last representable second before MaxInt64 nanoseconds.
// Labels (Universe.FixedLabel) name each value for the evidence.
func NewBoundary() *Universe {
	u := &Universe{API: serix.NewAPI(), Seed: -2, Boundary: true, reg: map[reflect.Type]*regEntry{},
		Fixed: map[*Shape][]*Val{}, FixedLabel: map[*Val]string{}}
	wrap := func(s *Shape) *Shape { return Wrap(u, s, nil) }
	addVals := func(top *Shape, label string, inner ...*Val) {
		for _, v := range inner {
			w := &Val{L: []*Val{v}}
			if top.Kind != Struct {
				w = v
			}
			u.Fixed[top] = append(u.Fixed[top], w)
			u.FixedLabel[w] = label
		}
	}
	lens := func(w uint8) []int {
		l := []int{0, 1, 127, 128, 255, 256}
		switch w {
		case 1:
			l = append(l, 300, 65536)
		case 2:
			l = append(l, 32767, 32768, 40000, 65535, 65536, 70000)
		case 4:
			l = append(l, 32767, 32768, 65535, 65536, 70000)
		}
		return l
	}
	mkBytes := func(n int, ascii bool) []byte {
		b := make([]byte, n)
		for i := range b {
			if ascii {
				b[i] = byte('a' + i%26)
			} else {
				b[i] = byte(i*7 + 3)
			}
		}
		return b
	}
	for _, w := range []uint8{1, 2, 4} {
		str := &Shape{Kind: String, T: goTypes[String], LP: w, TagLP: true}
		byt := &Shape{Kind: Bytes, T: goTypes[Bytes], LP: w, TagLP: true}
		sl := &Shape{Kind: Slice, T: reflect.SliceOf(goTypes[Bool]), LP: w, TagLP: true, Elem: sc(Bool)}
		tops := []*Shape{wrap(str), wrap(byt), wrap(sl)}
		// the same three as top-level values with serix.WithTypeSettings
		ostr, obyt, osl := *str, *byt, *sl
		for _, o := range []*Shape{&ostr, &obyt, &osl} {
			o.TagLP = false
			o.Top = &TopSettings{LP: w}
		}
		tops = append(tops, &ostr, &obyt, &osl)
		for ti, top := range tops {
			for _, n := range lens(w) {
				if ti >= 3 && n > 300 && n != 32768 && n != 65535 {
					continue // keep the option variants cheap
				}
				if ti%3 == 2 && (n == 40000 || n == 70000 || (w == 4 && n > 300 && n != 65536) || (w == 1 && n > 300)) {
					continue // element slices are the expensive kind: the width boundaries themselves suffice
				}
				label := fmt.Sprintf("len/%s/lp%d/%d", []string{"string", "bytes", "slice"}[ti%3], w*8, n)
				switch ti % 3 {
				case 0:
					addVals(top, label, &Val{S: mkBytes(n, true)})
				case 1:
					addVals(top, label, &Val{S: mkBytes(n, false)})
				case 2:
					v := &Val{L: make([]*Val, n)}
					for i := range v.L {
						v.L[i] = &Val{U: uint64(i & 1)}
					}
					addVals(top, label, v)
				}
			}
			u.Shapes = append(u.Shapes, top)
		}
		// maps: uint16 keys
		if w <= 2 {
			m := &Shape{Kind: Map, LP: w, TagLP: true, Key: sc(Uint16), Elem: sc(Bool)}
			m.T = reflect.MapOf(m.Key.T, m.Elem.T)
			top := wrap(m)
			ml := []int{0, 1, 255, 256}
			if w == 2 {
				ml = append(ml, 32767, 32768)
			}
			for _, n := range ml {
				v := &Val{}
				for i := 0; i < n; i++ {
					v.L = append(v.L, &Val{U: uint64(i)}, &Val{U: uint64(i & 1)})
				}
				addVals(top, fmt.Sprintf("len/map/lp%d/%d", w*8, n), v)
			}
			u.Shapes = append(u.Shapes, top)
		}
	}
	// bounds exactly met / missed by one, with every width
	for _, w := range []uint8{1, 2, 4} {
		byt := &Shape{Kind: Bytes, T: goTypes[Bytes], LP: w, TagLP: true, TagMM: true, R: Rules{Min: 2, Max: 5}}
		top := wrap(byt)
		for _, n := range []int{1, 2, 5, 6} {
			addVals(top, fmt.Sprintf("bounds/bytes/lp%d/%d-of-2..5", w*8, n), &Val{S: mkBytes(n, false)})
		}
		u.Shapes = append(u.Shapes, top)
	}

	// strings: UTF-8 boundary runes (alone, repeated, embedded in ASCII) and the invalid neighbours
	{
		must := func(err error) {
			if err != nil {
				panic(err)
			}
		}
		must(u.API.RegisterTypeSettings("", serix.TypeSettings{}.WithLengthPrefixType(serix.LengthPrefixTypeAsUint16)))
		u.reg[goTypes[String]] = &regEntry{lp: 2}
		plain := &Shape{Kind: String, T: goTypes[String], LP: 2} // registered setting of `string`
		field := wrap(&Shape{Kind: String, T: goTypes[String], LP: 1, TagLP: true})
		mp := &Shape{Kind: Map, LP: 1, TagLP: true, Key: plain, Elem: plain}
		mp.T = reflect.MapOf(plain.T, plain.T)
		mapTop := wrap(mp)
		sl := &Shape{Kind: Slice, T: reflect.SliceOf(plain.T), LP: 1, TagLP: true, Elem: plain}
		sliceTop := wrap(sl)
		opt := &Shape{Kind: String, T: goTypes[String], LP: 1, Top: &TopSettings{LP: 1}}
		bounded := wrap(&Shape{Kind: String, T: goTypes[String], LP: 1, TagLP: true, TagMM: true, R: Rules{Min: 4, Max: 6}})
		str := func(b string) *Val { return &Val{S: []byte(b)} }
		each := func(label, b string) {
			addVals(field, label+"/field", str(b))
			addVals(mapTop, label+"/map-key", &Val{L: []*Val{str(b), str("v")}})
			addVals(mapTop, label+"/map-value", &Val{L: []*Val{str("k"), str(b)}})
			addVals(sliceTop, label+"/slice", &Val{L: []*Val{str("x"), str(b)}})
			addVals(opt, label+"/top-option", str(b))
		}
		for _, r := range []rune{0, 0x7f, 0x80, 0x7ff, 0x800, 0xd7ff, 0xe000, 0xfffd, 0xfffe, 0xffff, 0x10000, 0x10ffff} {
			c := string(r)
			each(fmt.Sprintf("utf8/valid/U+%04X/alone", r), c)
			each(fmt.Sprintf("utf8/valid/U+%04X/repeated", r), c+c+c)
			each(fmt.Sprintf("utf8/valid/U+%04X/embedded", r), "a"+c+"b")
		}
		for _, bad := range []struct{ l, b string }{
			{"lone-continuation", "\x80"}, {"truncated-2", "\xc3"}, {"truncated-3", "\xe2\x82"}, {"truncated-4", "\xf0\x9f\x98"},
			{"overlong-C080", "\xc0\x80"}, {"overlong-E08080", "\xe0\x80\x80"}, {"surrogate-EDA080", "\xed\xa0\x80"},
			{"beyond-10FFFF", "\xf4\x90\x80\x80"}, {"byte-FF", "\xff"},
		} {
			each("utf8/invalid/"+bad.l+"/alone", bad.b)
			each("utf8/invalid/"+bad.l+"/embedded", "a"+bad.b+"b")
		}
		// byte length vs. rune count on different sides of min 4 / max 6 (bounds count bytes)
		for _, bv := range []string{"€€", "abcdé", "ééé", "€a", "€", "abc", "abcd", "abcdef", "abcdefg", "€€a", "éééé", "𝄞", "𝄞𝄞", "\xef\xbf\xbd\xef\xbf\xbd"} {
			addVals(bounded, fmt.Sprintf("utf8/bounds-4..6/%dbytes-%drunes", len(bv), utf8.RuneCountInString(bv)), str(bv))
		}
		u.Shapes = append(u.Shapes, field, mapTop, sliceTop, opt, bounded)
	}

	// uint256 positions
	two256 := new(big.Int).Lsh(big.NewInt(1), 256)
	bigs := map[string]*big.Int{
		"0": big.NewInt(0), "1": big.NewInt(1), "2^64": new(big.Int).Lsh(big.NewInt(1), 64), "2^255": new(big.Int).Lsh(big.NewInt(1), 255),
		"2^256-1": new(big.Int).Sub(two256, big.NewInt(1)), "2^256": two256, "2^256+1": new(big.Int).Add(two256, big.NewInt(1)),
		"2^257-2": new(big.Int).Sub(new(big.Int).Lsh(big.NewInt(1), 257), big.NewInt(2)), "-1": big.NewInt(-1),
		"0x0102..20": new(big.Int).SetBytes(mkBytes(32, false)),
	}
	bigOrder := []string{"0", "1", "2^64", "2^255", "2^256-1", "2^256", "2^256+1", "2^257-2", "-1", "0x0102..20"}
	bi := func(k string) *Val { return &Val{Big: new(big.Int).Set(bigs[k])} }
	{
		field := wrap(sc(BigInt))
		slice8 := &Shape{Kind: Slice, T: reflect.SliceOf(bigIntType), LP: 1, TagLP: true, Elem: sc(BigInt)}
		sliceTop := wrap(slice8)
		arr := &Shape{Kind: Array, T: reflect.ArrayOf(2, bigIntType), N: 2, LP: 1, TagLP: true, Elem: sc(BigInt)}
		arrTop := wrap(arr)
		mp := &Shape{Kind: Map, LP: 1, TagLP: true, Key: sc(Uint8), Elem: sc(BigInt)}
		mp.T = reflect.MapOf(mp.Key.T, mp.Elem.T)
		mapTop := wrap(mp)
		inner := wrap(sc(BigInt))
		optTop := Wrap(u, &Shape{Kind: Ptr, T: reflect.PointerTo(inner.T), Elem: inner}, &Field{Optional: true})
		for _, k := range bigOrder {
			l := "uint256/" + k
			addVals(field, l+"/field", bi(k))
			addVals(sliceTop, l+"/slice", &Val{L: []*Val{bi("1"), bi(k), bi("0")}})
			addVals(arrTop, l+"/array", &Val{L: []*Val{bi(k), bi("1")}})
			addVals(mapTop, l+"/map-value", &Val{L: []*Val{{U: 7}, bi(k), {U: 9}, bi("1")}})
			addVals(optTop, l+"/optional", &Val{L: []*Val{{L: []*Val{bi(k)}}}})
		}
		u.Shapes = append(u.Shapes, field, sliceTop, arrTop, mapTop, optTop)
	}

	// time positions: the last representable second before MaxInt64 ns and its neighbours
	const lastSec = math.MaxInt64 / 1_000_000_000 // 9223372036
	times := []struct {
		l string
		t time.Time
	}{
		{"epoch", time.Unix(0, 0)}, {"1ns", time.Unix(0, 1)}, {"before-epoch", time.Unix(-1, 999999999)},
		{"last-second-1/999999999", time.Unix(lastSec-1, 999999999)},
		{"last-second/0", time.Unix(lastSec, 0)}, {"last-second/1", time.Unix(lastSec, 1)},
		{"last-second/427387903", time.Unix(lastSec, 427387903)},
		{"last-second/854775806=MaxInt64-1", time.Unix(lastSec, 854775806)},
		{"last-second/854775807=MaxInt64", time.Unix(lastSec, 854775807)},
		{"beyond/next-second", time.Unix(lastSec+1, 0)}, {"beyond/year-3000", time.Date(3000, 1, 1, 0, 0, 0, 0, time.UTC)},
	}
	{
		field := wrap(sc(Time))
		slice8 := &Shape{Kind: Slice, T: reflect.SliceOf(timeType), LP: 1, TagLP: true, Elem: sc(Time)}
		sliceTop := wrap(slice8)
		mp := &Shape{Kind: Map, LP: 1, TagLP: true, Key: sc(Uint8), Elem: sc(Time)}
		mp.T = reflect.MapOf(mp.Key.T, mp.Elem.T)
		mapTop := wrap(mp)
		for _, tc := range times {
			for zi, tt := range []time.Time{tc.t.UTC(), tc.t.In(time.FixedZone("x", 5*3600))} {
				l := fmt.Sprintf("time/%s/zone%d", tc.l, zi)
				addVals(field, l+"/field", &Val{Time: tt})
				addVals(sliceTop, l+"/slice", &Val{L: []*Val{{Time: time.Unix(0, 5).UTC()}, {Time: tt}}})
				addVals(mapTop, l+"/map-value", &Val{L: []*Val{{U: 3}, {Time: tt}}})
			}
		}
		u.Shapes = append(u.Shapes, field, sliceTop, mapTop)
	}
	return u
}

// ByID returns the universe a replay record names: -1 static, -2 boundary, otherwise dynamic.
func ByID(seed int64, opt ...Options) *Universe {
	switch seed {
	case -1:
		return NewStatic()
	case -2:
		return NewBoundary()
	}
	return NewDynamic(seed, opt...)
}

func maxForWidth(w uint8) uint64 {
	switch w {
	case 1:
		return math.MaxUint8
	case 2:
		return math.MaxUint16
	}
	return math.MaxUint32
}

// Representable reports whether the documented layout can express v at all: every length fits
// its prefix width, every uint256 lies in [0, 2^256), no mandatory pointer / interface is nil.
func Representable(s *Shape, v *Val) bool { return walkValid(s, v, false) }

// ProvablyValid reports whether an encoder rejection of v would be provably wrong from the
// documented layout alone: v is representable, every min/max bound is met, strings are valid
// UTF-8, and no node carries a rule whose outcome the harness would have to re-implement
// (lexical / no-duplicates validation without auto ordering, at-most-one-of-each-type, must-occur).
// It is deliberately conservative: false means "not provable", not "invalid".
func ProvablyValid(s *Shape, v *Val) bool { return walkValid(s, v, true) }

func walkValid(s *Shape, v *Val, strict bool) bool {
	if v.Nil {
		return false // callers handle optional fields before descending
	}
	bounds := func(n int) bool {
		if !strict {
			return true
		}
		return !(s.R.Min != 0 && uint(n) < s.R.Min) && !(s.R.Max != 0 && uint(n) > s.R.Max)
	}
	switch s.Kind {
	case String:
		return uint64(len(v.S)) <= maxForWidth(s.LP) && bounds(len(v.S)) && (!strict || utf8.Valid(v.S))
	case Bytes:
		return uint64(len(v.S)) <= maxForWidth(s.LP) && bounds(len(v.S))
	case ByteArray:
		return bounds(s.N)
	case Array, Slice:
		if uint64(len(v.L)) > maxForWidth(s.LP) || !bounds(len(v.L)) {
			return false
		}
		if strict && (s.R.OneOfEach != 0 || len(s.R.MustOccur) > 0 || s.R.NoDup || (s.R.ValOrder && !s.R.AutoOrder)) {
			return false
		}
		for _, e := range v.L {
			if !walkValid(s.Elem, e, strict) {
				return false
			}
		}
	case Map:
		if uint64(len(v.L)/2) > maxForWidth(s.LP) || !bounds(len(v.L)/2) {
			return false
		}
		if strict && s.R.OneOfEach != 0 {
			return false
		}
		for i := 0; i+1 < len(v.L); i += 2 {
			if !walkValid(s.Key, v.L[i], strict) || !walkValid(s.Elem, v.L[i+1], strict) {
				return false
			}
		}
	case Struct:
		for i, f := range s.Fields {
			if v.L[i].Nil {
				if f.Optional {
					continue
				}
				return false
			}
			if !walkValid(f.S, v.L[i], strict) {
				return false
			}
		}
	case Ptr:
		return len(v.L) == 1 && walkValid(s.Elem, v.L[0], strict)
	case Iface:
		return v.Impl >= 0 && len(v.L) == 1 && walkValid((*s.Impls)[v.Impl], v.L[0], strict)
	case BigInt:
		return v.Big != nil && v.Big.Sign() >= 0 && v.Big.BitLen() <= 256
	}
	return true
}

// HasInvalidUTF8 reports whether a string node of v is not valid UTF-8 (oracle: unicode/utf8).
func HasInvalidUTF8(s *Shape, v *Val) bool {
	return anyLeaf(s, v, func(s *Shape, v *Val) bool { return s.Kind == String && !utf8.Valid(v.S) })
}

// StringBoundsViolated reports whether a string / byte-slice node of v has a byte length outside
// its min/max bounds (bounds count bytes, not runes). String bounds are checked under validation
// only, byte-slice bounds always.
func StringBoundsViolated(s *Shape, v *Val, validation bool) bool {
	return anyLeaf(s, v, func(s *Shape, v *Val) bool {
		if !(s.Kind == Bytes || (s.Kind == String && validation)) {
			return false
		}
		n := uint(len(v.S))
		return (s.R.Min != 0 && n < s.R.Min) || (s.R.Max != 0 && n > s.R.Max)
	})
}

func anyLeaf(s *Shape, v *Val, f func(*Shape, *Val) bool) bool {
	if v.Nil {
		return false
	}
	switch s.Kind {
	case Array, Slice:
		for _, e := range v.L {
			if anyLeaf(s.Elem, e, f) {
				return true
			}
		}
	case Map:
		for i := 0; i+1 < len(v.L); i += 2 {
			if anyLeaf(s.Key, v.L[i], f) || anyLeaf(s.Elem, v.L[i+1], f) {
				return true
			}
		}
	case Struct:
		for i, fl := range s.Fields {
			if anyLeaf(fl.S, v.L[i], f) {
				return true
			}
		}
	case Ptr:
		return len(v.L) == 1 && anyLeaf(s.Elem, v.L[0], f)
	case Iface:
		return v.Impl >= 0 && len(v.L) == 1 && anyLeaf((*s.Impls)[v.Impl], v.L[0], f)
	default:
		return f(s, v)
	}
	return false
}
