package sergen

import (
	"bytes"
	"math"
	"math/big"
	"math/rand"
	"sort"
	"time"
	"unicode/utf8"
)

// ValuesOf returns the fixed values of a boundary shape, or n generated ones.
func ValuesOf(u *Universe, s *Shape, rng *rand.Rand, n int) []*Val {
	if f := u.Fixed[s]; len(f) > 0 {
		return f
	}
	return Values(s, rng, n)
}

// Values returns n values of shape s. Value 0 is the zero/empty value, value 1 a
// boundary-heavy one; the others are seeded and boundary-biased (0, ±1, min/max,
// NaN with payload, −0.0, empty / bound-length collections, non-UTF-8 strings,
// unordered and duplicated elements for ordered / unique collections, …).
func Values(s *Shape, rng *rand.Rand, n int) []*Val {
	out := make([]*Val, 0, n)
	for i := 0; i < n; i++ {
		g := &valGen{rng: rng, mode: 2}
		if i == 0 {
			g.mode = 0
		}
		if i == 1 {
			g.mode = 1
		}
		out = append(out, g.gen(s, 0, false))
	}
	return out
}

type valGen struct {
	rng  *rand.Rand
	mode int // 0 zero, 1 boundary, 2 random
}

const maxValDepth = 7

func (g *valGen) gen(s *Shape, depth int, key bool) *Val {
	r := g.rng
	zero := g.mode == 0
	switch s.Kind {
	case Bool:
		if zero {
			return &Val{}
		}
		return &Val{U: uint64(r.Intn(2))}
	case Int8, Int16, Int32, Int64, Uint8, Uint16, Uint32, Uint64:
		if zero {
			return &Val{}
		}
		return &Val{U: g.integer(s.Kind)}
	case Float32:
		if zero {
			return &Val{}
		}
		return &Val{U: uint64(g.f32(key))}
	case Float64:
		if zero {
			return &Val{}
		}
		return &Val{U: g.f64(key)}
	case String, Bytes:
		if zero {
			return &Val{S: []byte{}}
		}
		n := g.length(s, 40, true)
		b := make([]byte, n)
		switch x := r.Intn(10); {
		case s.Kind == Bytes || x == 0:
			r.Read(b) // arbitrary bytes; for strings: (mostly) not valid UTF-8
		case x < 7:
			for i := range b {
				b[i] = byte(' ' + r.Intn(95))
			}
		case x == 7 && n > 0:
			// UTF-8 boundary runes between ASCII, occasionally with an invalid fragment (must be rejected under validation)
			var bb []byte
			for len(bb) < n {
				switch r.Intn(8) {
				case 0:
					bb = append(bb, 'a')
				case 1:
					if r.Intn(3) == 0 {
						bb = append(bb, []string{"\x80", "\xc3", "\xe2\x82", "\xf0\x9f\x98", "\xc0\x80", "\xe0\x80\x80", "\xed\xa0\x80", "\xf4\x90\x80\x80", "\xff"}[r.Intn(9)]...)
					}
				default:
					bb = utf8.AppendRune(bb, []rune{0, 0x7f, 0x80, 0x7ff, 0x800, 0xd7ff, 0xe000, 0xfffd, 0xfffe, 0xffff, 0x10000, 0x10ffff}[r.Intn(12)])
				}
			}
			b = bb // the length may exceed n by up to 3 bytes; bounds are met or missed accordingly
		default:
			// multi-byte runes, cut to length on a rune boundary, padded with 'x'
			var bb []byte
			for len(bb) < n {
				bb = utf8.AppendRune(bb, []rune{'é', 'ß', '€', '𝄞', 0, 'a', '\n', '"', '\\', 0x7f, 0xfffd}[r.Intn(11)])
			}
			for len(bb) > n {
				_, sz := utf8.DecodeLastRune(bb)
				bb = bb[:len(bb)-sz]
			}
			for len(bb) < n {
				bb = append(bb, 'x')
			}
			b = bb
		}
		return &Val{S: b}
	case ByteArray:
		b := make([]byte, s.N)
		if !zero {
			switch r.Intn(4) {
			case 0:
				for i := range b {
					b[i] = 0xff
				}
			case 1:
			default:
				r.Read(b)
			}
		}
		return &Val{S: b}
	case Array:
		v := &Val{L: make([]*Val, s.N)}
		for i := range v.L {
			v.L[i] = g.gen(s.Elem, depth+1, key)
		}
		g.arrange(s, v)
		return v
	case Slice:
		if zero || depth >= maxValDepth {
			return &Val{L: []*Val{}}
		}
		n := g.length(s, g.maxElems(s.Elem, depth), false)
		v := &Val{L: make([]*Val, 0, n)}
		if s.Elem.Kind == Iface && n > 0 {
			// steer implementations for at-most-one-of-each-type / must-occur rules
			impls := *s.Elem.Impls
			perm := r.Perm(len(impls))
			distinct := s.R.OneOfEach != 0 && r.Intn(10) < 7
			for i := 0; i < n; i++ {
				ev := g.gen(s.Elem, depth+1, false)
				if distinct && depth+1 < maxValDepth {
					if i >= len(perm) {
						break
					}
					ev = g.ifaceImpl(s.Elem, perm[i], depth+1)
				}
				v.L = append(v.L, ev)
			}
			if len(s.R.MustOccur) > 0 && r.Intn(10) < 7 && depth+1 < maxValDepth {
				for _, c := range s.R.MustOccur {
					for j, im := range impls {
						if ImplCode(im) == c {
							has := false
							for _, ev := range v.L {
								has = has || ev.Impl == j
							}
							if !has {
								v.L[r.Intn(len(v.L))] = g.ifaceImpl(s.Elem, j, depth+1)
							}
						}
					}
				}
			}
		} else {
			for i := 0; i < n; i++ {
				v.L = append(v.L, g.gen(s.Elem, depth+1, false))
			}
		}
		g.arrange(s, v)
		return v
	case Map:
		if zero || depth >= maxValDepth {
			return &Val{L: []*Val{}}
		}
		n := g.length(s, g.maxElems(s.Elem, depth), false)
		v := &Val{}
		seen := map[string]bool{}
		for i := 0; i < n; i++ {
			var k *Val
			for try := 0; try < 4; try++ {
				k = g.gen(s.Key, depth+1, true)
				if !seen[string(refBytes(s.Key, k))] {
					break
				}
				k = nil
			}
			if k == nil {
				continue
			}
			seen[string(refBytes(s.Key, k))] = true
			v.L = append(v.L, k, g.gen(s.Elem, depth+1, false))
		}
		return v
	case Struct:
		v := &Val{L: make([]*Val, len(s.Fields))}
		for i, f := range s.Fields {
			switch {
			case f.Optional && (zero || depth >= maxValDepth || r.Intn(10) < 3):
				v.L[i] = &Val{Nil: true}
			case f.Embedded && f.S.Kind == Ptr && !zero && r.Intn(4) == 0:
				v.L[i] = &Val{Nil: true}
			default:
				v.L[i] = g.gen(f.S, depth+1, key)
			}
		}
		return v
	case Ptr:
		return &Val{L: []*Val{g.gen(s.Elem, depth+1, key)}}
	case Iface:
		j := 0
		if !zero && depth < maxValDepth-1 {
			j = r.Intn(len(*s.Impls))
		}
		return g.ifaceImpl(s, j, depth)
	case BigInt:
		b := new(big.Int)
		if !zero {
			switch r.Intn(11) {
			case 0:
			case 1:
				b.SetInt64(1)
			case 9:
				b.Add(new(big.Int).Lsh(big.NewInt(1), 256), big.NewInt(1)) // 2^256+1: rejected
			case 10:
				b.Sub(new(big.Int).Lsh(big.NewInt(1), 257), big.NewInt(2)) // 2^257-2: rejected
			case 2:
				b.Sub(new(big.Int).Lsh(big.NewInt(1), 256), big.NewInt(1)) // 2^256-1
			case 3:
				b.Lsh(big.NewInt(1), 256) // too big: the encoder must reject it
			case 4:
				b.SetInt64(-1 - r.Int63n(1000)) // negative: rejected
			case 5:
				b.SetUint64(r.Uint64())
			case 6:
				b.Lsh(big.NewInt(1), uint(r.Intn(256)))
			default:
				buf := make([]byte, 1+r.Intn(32))
				r.Read(buf)
				b.SetBytes(buf)
			}
		}
		return &Val{Big: b}
	case Time:
		if zero {
			return &Val{Time: time.Unix(0, 0).UTC()}
		}
		var t time.Time
		switch r.Intn(12) {
		case 10:
			t = time.Unix(math.MaxInt64/1_000_000_000, int64(r.Intn(854775808))) // inside the last representable second
		case 11:
			t = time.Unix(math.MaxInt64/1_000_000_000, []int64{0, 1, 854775806, 854775807}[r.Intn(4)])
		case 0:
			t = time.Unix(0, 0)
		case 1:
			t = time.Unix(0, 1)
		case 2:
			t = time.Unix(0, math.MaxInt64)
		case 3:
			t = time.Unix(-1-r.Int63n(1e9), int64(r.Intn(1e9))) // before the epoch: documented clamp to 0
		case 4:
			t = time.Time{} // year 1
		case 5:
			t = time.Date(2300+r.Intn(500), 1, 1, 0, 0, 0, r.Intn(1e9), time.UTC) // beyond int64 ns: documented saturation
		case 6:
			t = time.Unix(0, math.MaxInt64-int64(r.Intn(1000)))
		default:
			t = time.Unix(0, r.Int63())
		}
		switch r.Intn(3) {
		case 0:
			t = t.UTC()
		case 1:
			t = t.In(time.FixedZone("x", (r.Intn(27)-12)*3600))
		}
		return &Val{Time: t}
	case Custom:
		if zero {
			return &Val{}
		}
		return &Val{U: s.Codec.Gen(r.Intn, r.Uint64)}
	}
	panic("sergen: unknown kind")
}

func (g *valGen) ifaceImpl(s *Shape, j, depth int) *Val {
	im := (*s.Impls)[j]
	return &Val{Impl: j, L: []*Val{g.gen(im, depth+1, false)}}
}

func (g *valGen) maxElems(elem *Shape, depth int) int {
	switch elem.Kind {
	case Bool, Int8, Int16, Int32, Int64, Uint8, Uint16, Uint32, Uint64, Float32, Float64:
		if g.rng.Intn(30) == 0 {
			return 300 // crosses the uint8 prefix range
		}
		return 8
	}
	if depth <= 1 {
		return 4
	}
	return 2
}

// length picks a length around the bounds of s (inside them in ~80 % of the cases).
func (g *valGen) length(s *Shape, max int, str bool) int {
	r := g.rng
	mn, mx := int(s.R.Min), int(s.R.Max)
	cands := []int{0, 1, 2, 3, r.Intn(max + 1)}
	if mn > 0 {
		cands = append(cands, mn, mn, mn+1)
	}
	if mx > 0 {
		cands = append(cands, mx, mx, mx-1)
	}
	if str && r.Intn(25) == 0 {
		cands = []int{255, 256, 254, 300}
		if r.Intn(20) == 0 {
			cands = []int{65535, 65536}
		}
	}
	n := cands[r.Intn(len(cands))]
	if r.Intn(10) < 8 { // force validity
		if mx > 0 && n > mx {
			n = mx
		}
		if n < mn {
			n = mn
		}
	} else if r.Intn(2) == 0 {
		if mx > 0 {
			n = mx + 1
		} else if mn > 0 {
			n = mn - 1
		}
	}
	if n > max && n <= 8 {
		n = max
	}
	if g.mode == 1 && mx > 0 {
		n = mx
	}
	return n
}

// arrange makes ordered / unique collections valid in about half of the cases and
// deliberately unordered / duplicated otherwise.
func (g *valGen) arrange(s *Shape, v *Val) {
	r := g.rng
	if len(v.L) < 2 {
		return
	}
	if r.Intn(5) == 0 && s.Kind == Slice {
		v.L[r.Intn(len(v.L))] = v.L[r.Intn(len(v.L))] // duplicate
	}
	if (s.R.ValOrder || s.R.NoDup) && r.Intn(2) == 0 {
		enc := make([][]byte, len(v.L))
		idx := make([]int, len(v.L))
		for i, e := range v.L {
			enc[i] = refBytes(s.Elem, e)
			idx[i] = i
		}
		sort.SliceStable(idx, func(a, b int) bool { return bytes.Compare(enc[idx[a]], enc[idx[b]]) < 0 })
		var out []*Val
		var prev []byte
		for n, i := range idx {
			if s.Kind == Slice && s.R.NoDup && n > 0 && bytes.Equal(prev, enc[i]) {
				continue
			}
			out = append(out, v.L[i])
			prev = enc[i]
		}
		if s.Kind == Slice || len(out) == len(v.L) {
			v.L = out
		}
	}
}

func (g *valGen) integer(k Kind) uint64 {
	r := g.rng
	bits := map[Kind]uint{Int8: 8, Uint8: 8, Int16: 16, Uint16: 16, Int32: 32, Uint32: 32, Int64: 64, Uint64: 64}[k]
	mask := uint64(math.MaxUint64)
	if bits < 64 {
		mask = 1<<bits - 1
	}
	var u uint64
	switch r.Intn(8) {
	case 0:
		u = 0
	case 1:
		u = 1
	case 2:
		u = math.MaxUint64 // -1 / max unsigned
	case 3:
		u = 1 << (bits - 1) // min signed
	case 4:
		u = 1<<(bits-1) - 1 // max signed
	case 5:
		u = uint64(r.Intn(256))
	default:
		u = r.Uint64()
	}
	u &= mask
	switch k {
	case Int8:
		return uint64(int64(int8(u)))
	case Int16:
		return uint64(int64(int16(u)))
	case Int32:
		return uint64(int64(int32(u)))
	}
	return u
}

func (g *valGen) f64(key bool) uint64 {
	r := g.rng
	for {
		var u uint64
		switch r.Intn(10) {
		case 0:
			u = 0
		case 1:
			u = 1 << 63 // -0.0
		case 2:
			u = math.Float64bits(1)
		case 3:
			u = 0x7ff8000000000000 | uint64(r.Intn(1<<20)) // NaN with payload
		case 4:
			u = 0x7ff0000000000001 // signalling NaN
		case 5:
			u = math.Float64bits(math.Inf(1 - 2*r.Intn(2)))
		case 6:
			u = 1 // smallest denormal
		case 7:
			u = math.Float64bits(math.MaxFloat64)
		default:
			u = r.Uint64()
		}
		f := math.Float64frombits(u)
		if key && (f != f || u == 1<<63) {
			continue // NaN keys are unequal to themselves, −0 equals +0 as a key
		}
		return u
	}
}

func (g *valGen) f32(key bool) uint32 {
	r := g.rng
	for {
		var u uint32
		switch r.Intn(9) {
		case 0:
			u = 0
		case 1:
			u = 1 << 31
		case 2:
			u = math.Float32bits(1)
		case 3:
			u = 0x7fc00000 | uint32(r.Intn(1<<10))
		case 4:
			u = 0x7f800001
		case 5:
			u = math.Float32bits(float32(math.Inf(1 - 2*r.Intn(2))))
		case 6:
			u = 1
		default:
			u = r.Uint32()
		}
		f := math.Float32frombits(u)
		if key && (f != f || u == 1<<31) {
			continue
		}
		return u
	}
}

// JSONSafe reports whether the JSON form can express value v of shape s exactly:
// strings are valid UTF-8, big integers lie in the uint256 range, timestamps in the
// int64-nanosecond range. (NaN payloads are handled by the JSON equality mode.)
func JSONSafe(s *Shape, v *Val) bool {
	switch s.Kind {
	case String:
		return utf8.Valid(v.S)
	case BigInt:
		return v.Big.Sign() >= 0 && v.Big.BitLen() <= 256
	case Time:
		sec := v.Time.Unix()
		return sec <= math.MaxInt64/1_000_000_000-1
	case Array, Slice:
		for _, e := range v.L {
			if !JSONSafe(s.Elem, e) {
				return false
			}
			if s.R.Sorted() && hasNaN(s.Elem, e) {
				return false // the JSON form has one NaN; the canonical order of distinct NaN payloads is not expressible
			}
		}
	case Map:
		for i := 0; i+1 < len(v.L); i += 2 {
			if hasNaN(s.Elem, v.L[i+1]) {
				return false
			}
			if !JSONSafe(s.Key, v.L[i]) || !JSONSafe(s.Elem, v.L[i+1]) {
				return false
			}
		}
	case Struct:
		for i, f := range s.Fields {
			if v.L[i].Nil {
				continue
			}
			if !JSONSafe(f.S, v.L[i]) {
				return false
			}
		}
	case Ptr:
		return JSONSafe(s.Elem, v.L[0])
	case Iface:
		return JSONSafe((*s.Impls)[v.Impl], v.L[0])
	}
	return true
}

// ImplCode returns the object type code an interface implementation writes.
func ImplCode(im *Shape) uint32 {
	for im.Code == nil && im.Kind == Ptr {
		im = im.Elem
	}
	if im.Code == nil {
		return 0
	}
	return im.Code.V
}

func hasNaN(s *Shape, v *Val) bool {
	if v.Nil {
		return false
	}
	switch s.Kind {
	case Float32:
		f := math.Float32frombits(uint32(v.U))
		return f != f
	case Float64:
		f := math.Float64frombits(v.U)
		return f != f
	case Array, Slice:
		for _, e := range v.L {
			if hasNaN(s.Elem, e) {
				return true
			}
		}
	case Map:
		for i := 0; i+1 < len(v.L); i += 2 {
			if hasNaN(s.Key, v.L[i]) || hasNaN(s.Elem, v.L[i+1]) {
				return true
			}
		}
	case Struct:
		for i, f := range s.Fields {
			if hasNaN(f.S, v.L[i]) {
				return true
			}
		}
	case Ptr:
		return hasNaN(s.Elem, v.L[0])
	case Iface:
		return hasNaN((*s.Impls)[v.Impl], v.L[0])
	}
	return false
}

// ArenaCount counts the custom values of v whose Encode returns a window into the shared arena
// (total, and those in map-key position).
func ArenaCount(s *Shape, v *Val) (total, asKey int) { return arenaCount(s, v, false) }

func arenaCount(s *Shape, v *Val, key bool) (total, asKey int) {
	if v.Nil {
		return
	}
	add := func(c *Shape, cv *Val, k bool) {
		a, b := arenaCount(c, cv, k)
		total, asKey = total+a, asKey+b
	}
	switch s.Kind {
	case Custom:
		if s.Codec.Arena {
			total = 1
			if key {
				asKey = 1
			}
		}
	case Array, Slice:
		for _, e := range v.L {
			add(s.Elem, e, false)
		}
	case Map:
		for i := 0; i+1 < len(v.L); i += 2 {
			add(s.Key, v.L[i], true)
			add(s.Elem, v.L[i+1], false)
		}
	case Struct:
		for i, f := range s.Fields {
			add(f.S, v.L[i], key)
		}
	case Ptr:
		add(s.Elem, v.L[0], false)
	case Iface:
		add((*s.Impls)[v.Impl], v.L[0], false)
	}
	return
}
