// Package sergen is the shared generator of the serialisation checks (C01, C02, C03).
//
// It produces *type shapes* (a harness-owned schema tree, Shape) together with
// the Go types that realise them, registers those types on a fresh serix.API
// (a Universe), produces boundary-biased *values* for a shape (a harness-owned
// value tree, Val), converts between Val and real Go values (Build / Extract),
// decides equality "up to the canonical ordering" (Equal) and computes the
// documented wire bytes of a (Shape, Val) pair with an independent reference
// encoder (RefEncode, file ref.go: standard library only, no import of
// hive.go/serializer or serix).
//
// Exported API (kept small on purpose):
//
//	u := sergen.NewDynamic(seed)      // fresh serix.API + run-time built types (reflect.StructOf …)
//	u := sergen.NewStatic()           // fresh serix.API + hand-declared types (methods, embedding, custom codecs)
//	u.API                             // the *serix.API everything is registered on
//	u.Shapes                          // top-level shapes of the universe (each encodable on its own)
//	vals := sergen.Values(s, rng, n)  // n values of shape s; value 0 is the all-zero/empty value
//	x := sergen.Build(s, v, rng)      // Go value (reflect.Value) of type s.T; rng (may be nil) shuffles map insertion
//	p := sergen.New(s)                // pointer to a zero s.T, to be handed to Decode
//	v2 := sergen.Extract(s, p.Elem()) // Go value back to a Val
//	ok, path := sergen.Equal(s, v, v2, sergen.Binary|sergen.JSON)
//	b, marks := sergen.RefEncode(s, v)// reference bytes + structurally interesting offsets
//	sergen.Wrap(u, s, f)              // single-field struct shape around a sub-node (shrinking)
//	s.String(), s.Hash(), s.Features(), s.JSONable(), s.ZeroWidth()
//
// Everything is deterministic in the seed; nothing depends on time.
package sergen

import (
	"fmt"
	"hash/fnv"
	"math/big"
	"reflect"
	"sort"
	"strings"
	"time"

	"github.com/iotaledger/hive.go/serializer/v2/serix"
)

// Kind is the wire kind of a schema node.
type Kind uint8

const (
	Bool Kind = iota
	Int8
	Int16
	Int32
	Int64
	Uint8
	Uint16
	Uint32
	Uint64
	Float32
	Float64
	String    // length-prefixed string
	Bytes     // length-prefixed byte slice
	ByteArray // [N]byte, no prefix
	Array     // [N]T with T != byte: written like a slice (with a count prefix)
	Slice     // []T
	Map       // map[K]V, entries sorted by key||value bytes
	Struct    // fields in declaration order
	Ptr       // *T (T struct or array); never nil unless the field is optional
	Iface     // interface field; the implementation writes its own type code
	BigInt    // *big.Int as 32-byte little-endian uint256
	Time      // time.Time as uint64 nanoseconds
	Custom    // type with its own Encode/Decode
)

var kindNames = [...]string{"bool", "i8", "i16", "i32", "i64", "u8", "u16", "u32", "u64", "f32", "f64",
	"string", "bytes", "bytearr", "array", "slice", "map", "struct", "ptr", "iface", "bigint", "time", "custom"}

func (k Kind) String() string { return kindNames[k] }

// Rules are the effective array rules of a collection / string node.
type Rules struct {
	Min, Max  uint     // 0 = unbounded
	LexSet    bool     // the lexical-ordering flag is set explicitly (WithLexicalOrdering(true or false))
	AutoOrder bool     // value of the flag: TypeSettings.WithLexicalOrdering(true)
	ValOrder  bool     // ArrayValidationModeLexicalOrdering
	NoDup     bool     // ArrayValidationModeNoDuplicates
	OneOfEach uint8    // 0, 1 (AtMostOneOfEachTypeByte) or 4 (…Uint32)
	MustOccur []uint32 // type codes that must occur
}

// Sorted reports whether the encoder sorts the elements (maps always do).
func (r Rules) Sorted() bool { return r.AutoOrder && r.ValOrder }

func (r Rules) zero() bool { return r.noArrayRules() && !r.AutoOrder && !r.LexSet }

// noArrayRules: nothing that lives in serix.ArrayRules is set (the ordering flag is a separate setting).
func (r Rules) noArrayRules() bool {
	return r.Min == 0 && r.Max == 0 && !r.ValOrder && !r.NoDup && r.OneOfEach == 0 && len(r.MustOccur) == 0
}

// TopSettings are type settings handed to Encode/Decode through serix.WithTypeSettings for a
// top-level value (precedence: option > registry). R carries only what the option sets.
type TopSettings struct {
	LP       uint8 // 0: the option sets no length prefix type
	HasRules bool  // the option carries ArrayRules (Min/Max/ValOrder/NoDup of R)
	R        Rules // LexSet/AutoOrder: the explicit ordering flag of the option
}

// Code is an object type code written in front of a struct / byte array / custom object.
type Code struct {
	W uint8 // 1 or 4 bytes
	V uint32
}

// CustomCodec describes a hand-written Serializable of the static universe to the
// value generator and the reference encoder. The Val of a Custom node carries its
// state in Val.U.
type CustomCodec struct {
	Gen func(pick func(n int) int, u64 func() uint64) uint64 // produce a state
	Ref func(state uint64) []byte                           // documented bytes (without the object code)
	Set func(dst reflect.Value, state uint64)               // store into an addressable Go value
	Get func(src reflect.Value) uint64

	Arena   bool // Encode returns a window into the shared arena (spare capacity = the neighbours' bytes)
	JSONKey bool // EncodeJSON yields a string, so the type can be a map key in the JSON form
}

// Field is one serix-tagged struct field.
type Field struct {
	Name      string // Go field name
	Idx       int    // index of the field in the Go struct type
	Key       string // JSON key
	S         *Shape
	Optional  bool // uint32 length marker; nil allowed
	OmitEmpty bool
	Embedded  bool // anonymous struct (or pointer-to-struct) field whose fields are written in place
	Inlined   bool // anonymous field handled as a normal nested field in binary form, flattened in JSON
}

// Shape is one node of the schema tree.
type Shape struct {
	Kind   Kind
	T      reflect.Type
	LP     uint8 // effective length prefix width in bytes (1, 2, 4); 0 = none needed
	R      Rules // effective rules
	TagLP  bool  // LP comes from the struct tag (not from the registry)
	TagMM  bool  // Min/Max come from the struct tag
	N      int   // array length
	Elem   *Shape
	Key    *Shape
	Fields []*Field
	Code   *Code
	Impls  *[]*Shape // Iface: registered implementations (shared with the Universe)
	CodeW  uint8     // Iface: code width
	Codec  *CustomCodec
	Top    *TopSettings // non-nil: top-level shape that is encoded/decoded with serix.WithTypeSettings
}

// Val is one node of a value tree. Which members are used depends on the Shape.
type Val struct {
	U    uint64     // bool, integers (two's complement), float bits, custom state
	S    []byte     // String, Bytes, ByteArray
	L    []*Val     // Array/Slice elements; Struct field values; Map k0,v0,k1,v1…; Ptr/Iface target in L[0]
	Nil  bool       // nil optional pointer / interface / embedded pointer
	Impl int        // Iface: index into *Shape.Impls
	Big  *big.Int   // BigInt
	Time time.Time // Time
}

// Universe is a fresh serix.API with a set of registered types.
type Universe struct {
	API    *serix.API
	Seed   int64
	Static bool
	// Boundary universe: Fixed holds the explicit values of a shape (used instead of generated
	// ones), FixedLabel a name per value for the evidence.
	Boundary   bool
	Fixed      map[*Shape][]*Val
	FixedLabel map[*Val]string
	Shapes []*Shape // top-level shapes
	Impl8  []*Shape // implementations of Any8
	Impl32 []*Shape // implementations of Any32
	reg    map[reflect.Type]*regEntry
	uid    int
}

type regEntry struct {
	lp   uint8
	r    Rules
	code *Code
}

// Any8 and Any32 are the (empty) interface types dynamic struct types are
// registered for; Any8 implementations carry uint8 type codes, Any32 uint32 ones.
type Any8 interface{}
type Any32 interface{}

var (
	any8Type  = reflect.TypeOf((*Any8)(nil)).Elem()
	any32Type = reflect.TypeOf((*Any32)(nil)).Elem()
)

// ZeroWidth reports whether every value of the shape encodes to zero bytes.
func (s *Shape) ZeroWidth() bool {
	switch s.Kind {
	case Struct:
		if s.Code != nil {
			return false
		}
		for _, f := range s.Fields {
			if f.Optional || !f.S.ZeroWidth() {
				return false
			}
		}
		return true
	case ByteArray:
		return s.N == 0 && s.Code == nil
	case Ptr:
		return s.Elem.ZeroWidth()
	}
	return false
}

// String renders the shape (types and settings, no values).
func (s *Shape) String() string { var b strings.Builder; s.str(&b, 0); return b.String() }

func (s *Shape) str(b *strings.Builder, depth int) {
	if depth > 8 {
		b.WriteString("…")
		return
	}
	set := func() {
		if s.LP != 0 {
			fmt.Fprintf(b, "<lp%d", s.LP*8)
			if s.TagLP {
				b.WriteString("t")
			}
			if s.R.Min != 0 || s.R.Max != 0 {
				fmt.Fprintf(b, " %d..%d", s.R.Min, s.R.Max)
			}
			if s.R.AutoOrder {
				b.WriteString(" auto")
			} else if s.R.LexSet {
				b.WriteString(" lexfalse")
			}
			if s.Top != nil {
				b.WriteString(" opt")
			}
			if s.R.ValOrder {
				b.WriteString(" lex")
			}
			if s.R.NoDup {
				b.WriteString(" nodup")
			}
			if s.R.OneOfEach != 0 {
				fmt.Fprintf(b, " one%d", s.R.OneOfEach*8)
			}
			if len(s.R.MustOccur) > 0 {
				fmt.Fprintf(b, " must%v", s.R.MustOccur)
			}
			b.WriteString(">")
		}
	}
	if s.Code != nil {
		fmt.Fprintf(b, "#%d/%d ", s.Code.V, s.Code.W*8)
	}
	switch s.Kind {
	case String, Bytes:
		b.WriteString(s.Kind.String())
		set()
	case ByteArray:
		fmt.Fprintf(b, "[%d]byte", s.N)
	case Array:
		fmt.Fprintf(b, "[%d]", s.N)
		set()
		s.Elem.str(b, depth+1)
	case Slice:
		b.WriteString("[]")
		set()
		s.Elem.str(b, depth+1)
	case Map:
		b.WriteString("map")
		set()
		b.WriteString("[")
		s.Key.str(b, depth+1)
		b.WriteString("]")
		s.Elem.str(b, depth+1)
	case Ptr:
		b.WriteString("*")
		s.Elem.str(b, depth+1)
	case Iface:
		fmt.Fprintf(b, "iface%d", s.CodeW*8)
	case Struct:
		b.WriteString("{")
		for i, f := range s.Fields {
			if i > 0 {
				b.WriteString("; ")
			}
			switch {
			case f.Embedded:
				b.WriteString("embed ")
			case f.Inlined:
				b.WriteString("inline ")
			}
			if f.Optional {
				b.WriteString("opt ")
			}
			if f.OmitEmpty {
				b.WriteString("omit ")
			}
			f.S.str(b, depth+1)
		}
		b.WriteString("}")
	case Custom:
		b.WriteString("custom:" + s.T.Name())
	default:
		b.WriteString(s.Kind.String())
	}
}

// Hash is a hash of the rendered shape tree.
func (s *Shape) Hash() uint64 { h := fnv.New64a(); h.Write([]byte(s.String())); return h.Sum64() }

// Features lists the features present in the shape and the parent∘child feature
// pairs that co-occur (for coverage evidence), e.g. "optional∘slice".
func (s *Shape) Features() (single []string, pairs []string) {
	one := map[string]bool{}
	two := map[string]bool{}
	var walk func(s *Shape, parent string, depth int)
	walk = func(s *Shape, parent string, depth int) {
		if depth > 8 {
			return
		}
		me := s.Kind.String()
		switch s.Kind {
		case String, Bytes, Slice, Map, Array:
			me = fmt.Sprintf("%s/lp%d", s.Kind, s.LP*8)
			if s.R.Min != 0 || s.R.Max != 0 {
				one[s.Kind.String()+"/bounds"] = true
			}
			if s.R.Sorted() {
				one[s.Kind.String()+"/autosort"] = true
			}
			if s.R.ValOrder && !s.R.AutoOrder {
				one[s.Kind.String()+"/lexical"] = true
			}
			if s.R.LexSet {
				one[fmt.Sprintf("%s/lexflag=%v", s.Kind, s.R.AutoOrder)] = true
			}
			if s.Top != nil {
				one[s.Kind.String()+"/top-option"] = true
			}
			if s.R.NoDup {
				one[s.Kind.String()+"/nodup"] = true
			}
			if s.R.OneOfEach != 0 {
				one[fmt.Sprintf("%s/oneofeach%d", s.Kind, s.R.OneOfEach*8)] = true
			}
			if len(s.R.MustOccur) > 0 {
				one[s.Kind.String()+"/mustoccur"] = true
			}
		case Iface:
			me = fmt.Sprintf("iface%d", s.CodeW*8)
		}
		if s.Code != nil {
			one[fmt.Sprintf("%s/code%d", s.Kind, s.Code.W*8)] = true
		}
		one[me] = true
		if parent != "" {
			two[parent+"∘"+s.Kind.String()] = true
		}
		p := s.Kind.String()
		switch s.Kind {
		case Array, Slice, Ptr:
			walk(s.Elem, p, depth+1)
		case Map:
			walk(s.Key, "mapkey", depth+1)
			walk(s.Elem, "mapval", depth+1)
		case Struct:
			for _, f := range s.Fields {
				q := p
				switch {
				case f.Optional:
					q = "optional"
				case f.Embedded:
					q = "embedded"
				case f.Inlined:
					q = "inlined"
				}
				if f.OmitEmpty {
					one["omitempty"] = true
				}
				one[q] = true
				walk(f.S, q, depth+1)
			}
		case Iface:
			// implementations are shapes of their own; count only the edge
		}
	}
	walk(s, "", 0)
	for k := range one {
		single = append(single, k)
	}
	for k := range two {
		pairs = append(pairs, k)
	}
	sort.Strings(single)
	sort.Strings(pairs)
	return
}

// JSONable reports whether the JSON/map form can express every value of the shape
// that the value generator marks as JSON-expressible: string-like map keys only,
// and the top level must be a struct (MapEncode returns an object).
func (s *Shape) JSONable() bool {
	if s.Kind != Struct && !(s.Kind == Ptr && s.Elem.Kind == Struct) && s.Kind != Map {
		return false
	}
	return s.jsonOK(0, map[*Shape]bool{})
}

func (s *Shape) jsonOK(depth int, seen map[*Shape]bool) bool {
	if seen[s] {
		return true
	}
	seen[s] = true
	switch s.Kind {
	case Array, Slice, Ptr:
		return s.Elem.jsonOK(depth+1, seen)
	case Map:
		switch s.Key.Kind {
		case String, Int64, Uint64:
		case Custom:
			if !s.Key.Codec.JSONKey {
				return false
			}
		case ByteArray:
			if s.Key.Code != nil || s.Key.N == 0 {
				return false
			}
		default:
			return false
		}
		return s.Elem.jsonOK(depth+1, seen)
	case Struct:
		for _, f := range s.Fields {
			if !f.S.jsonOK(depth+1, seen) {
				return false
			}
		}
	case Iface:
		for _, im := range *s.Impls {
			if !im.jsonOK(depth+1, seen) {
				return false
			}
		}
	}
	return true
}
