package sergen

// Independent reference encoder. This file imports the standard library only;
// it shares no code with hive.go/serializer or serix. It walks the harness's own
// (Shape, Val) tree and emits the documented wire layout:
//
//   bool            1 byte, 0 or 1
//   (u)intN, floatN fixed width, little endian (floats: IEEE-754 bits)
//   string, []byte  length prefix of the configured width (LE) + raw bytes
//   [N]byte         raw bytes (preceded by the object type code if the type has one)
//   []T, [N]T (T≠byte), map   element count as length prefix + elements;
//                   map entries are key bytes || value bytes, sorted bytewise;
//                   slices are sorted bytewise only if the type settings ask for
//                   lexical ordering (auto order + lexical validation mode)
//   struct          object type code (uint8 or uint32 LE) if registered, then fields in order;
//                   embedded structs contribute their fields in place;
//                   optional field: uint32 LE byte length of the field's encoding (0 = nil)
//   interface       encoding of the implementation (which starts with its type code)
//   *big.Int        32 bytes little endian
//   time.Time       uint64 LE unix nanoseconds; below 0 → 0; above MaxInt64 seconds range → MaxInt64

import (
	"bytes"
	"encoding/binary"
	"math"
	"sort"
)

// MarkKind classifies a structurally interesting offset of an encoding.
type MarkKind uint8

const (
	MPrefix MarkKind = iota // length prefix of a string / byte slice (counts bytes)
	MCount                  // element count of a slice / array / map
	MMarker                 // uint32 optional marker
	MCode                   // object type code
	MBool                   // bool byte
	MElem                   // start of a collection element (Len = element length)
	MLeaf                   // fixed-width scalar
)

// Mark is one interesting region of the reference encoding.
type Mark struct {
	Off, Len int
	Kind     MarkKind
	Rule     string // for MCount/MElem: rule class of the owning collection ("bounds", "lexical", "nodup", "oneofeach", "mustoccur", "map", "plain")
	Coll     int    // for MCount/MElem: id of the collection instance (count prefix and its elements share it)
}

type refEnc struct {
	buf   []byte
	marks []Mark
	on    bool
	coll  *int
}

// RefEncode returns the documented encoding of v as a value of shape s, and the marks.
func RefEncode(s *Shape, v *Val) ([]byte, []Mark) {
	e := &refEnc{on: true, coll: new(int)}
	e.enc(s, v)
	return e.buf, e.marks
}

// refBytes encodes without recording marks (used for sorting / equality).
func refBytes(s *Shape, v *Val) []byte {
	e := &refEnc{}
	e.enc(s, v)
	return e.buf
}

func (e *refEnc) mark(off, n int, k MarkKind, rule string) {
	if e.on {
		e.marks = append(e.marks, Mark{Off: off, Len: n, Kind: k, Rule: rule})
	}
}

// sub encodes one collection element with its own marks.
func (e *refEnc) sub(s *Shape, v *Val) *refEnc {
	x := &refEnc{on: e.on, coll: e.coll}
	x.enc(s, v)
	return x
}

// collection appends count prefix and (possibly sorted) parts, rebasing the marks of the parts.
func (e *refEnc) collection(lp uint8, parts []*refEnc, sorted bool, rule string) {
	id := 0
	if e.on {
		*e.coll++
		id = *e.coll
	}
	e.prefix(lp, len(parts), MCount, rule)
	if e.on {
		e.marks[len(e.marks)-1].Coll = id
	}
	if sorted {
		sort.SliceStable(parts, func(i, j int) bool { return bytes.Compare(parts[i].buf, parts[j].buf) < 0 })
	}
	for _, p := range parts {
		base := len(e.buf)
		if e.on {
			e.marks = append(e.marks, Mark{Off: base, Len: len(p.buf), Kind: MElem, Rule: rule, Coll: id})
			for _, m := range p.marks {
				m.Off += base
				e.marks = append(e.marks, m)
			}
		}
		e.buf = append(e.buf, p.buf...)
	}
}

func (e *refEnc) prefix(w uint8, n int, k MarkKind, rule string) {
	off := len(e.buf)
	switch w {
	case 1:
		e.buf = append(e.buf, byte(n))
	case 2:
		e.buf = binary.LittleEndian.AppendUint16(e.buf, uint16(n))
	case 4:
		e.buf = binary.LittleEndian.AppendUint32(e.buf, uint32(n))
	}
	e.mark(off, int(w), k, rule)
}

func (e *refEnc) code(c *Code) {
	if c == nil {
		return
	}
	off := len(e.buf)
	if c.W == 1 {
		e.buf = append(e.buf, byte(c.V))
	} else {
		e.buf = binary.LittleEndian.AppendUint32(e.buf, c.V)
	}
	e.mark(off, int(c.W), MCode, "")
}

// RuleClass names the array rule that dominates a collection (for evidence).
func RuleClass(s *Shape) string {
	switch {
	case s.Kind == Map:
		return "map"
	case len(s.R.MustOccur) > 0:
		return "mustoccur"
	case s.R.OneOfEach != 0:
		return "oneofeach"
	case s.R.NoDup:
		return "nodup"
	case s.R.ValOrder:
		return "lexical"
	case s.R.Min != 0 || s.R.Max != 0:
		return "bounds"
	}
	return "plain"
}

// TimeNanos is the documented uint64 timestamp of a time given as unix seconds + nanoseconds.
func TimeNanos(sec int64, nsec int64) uint64 {
	const maxSec = math.MaxInt64 / 1_000_000_000
	if sec > maxSec {
		return math.MaxInt64
	}
	if sec < 0 {
		return 0
	}
	// sec <= maxSec: sec*1e9+nsec may still exceed MaxInt64 in the last second
	hi := uint64(sec)*1_000_000_000 + uint64(nsec)
	if hi > math.MaxInt64 {
		// UnixNano is undefined here; the generator never produces such values
		return hi
	}
	return hi
}

func (e *refEnc) enc(s *Shape, v *Val) {
	switch s.Kind {
	case Bool:
		off := len(e.buf)
		if v.U != 0 {
			e.buf = append(e.buf, 1)
		} else {
			e.buf = append(e.buf, 0)
		}
		e.mark(off, 1, MBool, "")
	case Int8, Uint8:
		e.mark(len(e.buf), 1, MLeaf, "")
		e.buf = append(e.buf, byte(v.U))
	case Int16, Uint16:
		e.mark(len(e.buf), 2, MLeaf, "")
		e.buf = binary.LittleEndian.AppendUint16(e.buf, uint16(v.U))
	case Int32, Uint32, Float32:
		e.mark(len(e.buf), 4, MLeaf, "")
		e.buf = binary.LittleEndian.AppendUint32(e.buf, uint32(v.U))
	case Int64, Uint64, Float64:
		e.mark(len(e.buf), 8, MLeaf, "")
		e.buf = binary.LittleEndian.AppendUint64(e.buf, v.U)
	case String, Bytes:
		e.prefix(s.LP, len(v.S), MPrefix, "")
		e.buf = append(e.buf, v.S...)
	case ByteArray:
		e.code(s.Code)
		e.buf = append(e.buf, v.S...)
	case Array, Slice:
		parts := make([]*refEnc, len(v.L))
		for i, el := range v.L {
			parts[i] = e.sub(s.Elem, el)
		}
		e.collection(s.LP, parts, s.R.Sorted(), RuleClass(s))
	case Map:
		n := len(v.L) / 2
		parts := make([]*refEnc, n)
		for i := 0; i < n; i++ {
			p := e.sub(s.Key, v.L[2*i])
			q := e.sub(s.Elem, v.L[2*i+1])
			for _, m := range q.marks {
				m.Off += len(p.buf)
				p.marks = append(p.marks, m)
			}
			p.buf = append(p.buf, q.buf...)
			parts[i] = p
		}
		e.collection(s.LP, parts, true, "map")
	case Struct:
		e.code(s.Code)
		e.fields(s, v)
	case Ptr:
		if v.Nil || len(v.L) == 0 {
			return // only reachable for decoded values that are compared, never for generated ones
		}
		e.enc(s.Elem, v.L[0])
	case Iface:
		if v.Nil || v.Impl < 0 || len(v.L) == 0 {
			return
		}
		e.enc((*s.Impls)[v.Impl], v.L[0])
	case BigInt:
		// 32 bytes little endian
		be := v.Big.Bytes()
		out := make([]byte, 32)
		for i := 0; i < len(be) && i < 32; i++ {
			out[i] = be[len(be)-1-i]
		}
		e.mark(len(e.buf), 32, MLeaf, "")
		e.buf = append(e.buf, out...)
	case Time:
		e.mark(len(e.buf), 8, MLeaf, "")
		t := v.Time
		e.buf = binary.LittleEndian.AppendUint64(e.buf, TimeNanos(t.Unix(), int64(t.Nanosecond())))
	case Custom:
		e.code(s.Code)
		e.buf = append(e.buf, s.Codec.Ref(v.U)...)
	}
}

func (e *refEnc) fields(s *Shape, v *Val) {
	for i, f := range s.Fields {
		fv := v.L[i]
		switch {
		case f.Embedded:
			if fv.Nil {
				continue // nil embedded pointer: nothing is written
			}
			es, ev := f.S, fv
			if es.Kind == Ptr {
				es, ev = es.Elem, fv.L[0]
			}
			e.fields(es, ev)
		case f.Optional:
			if fv.Nil {
				off := len(e.buf)
				e.buf = append(e.buf, 0, 0, 0, 0)
				e.mark(off, 4, MMarker, "")
				continue
			}
			inner := e.sub(f.S, fv)
			off := len(e.buf)
			e.buf = binary.LittleEndian.AppendUint32(e.buf, uint32(len(inner.buf)))
			e.mark(off, 4, MMarker, "")
			base := len(e.buf)
			e.buf = append(e.buf, inner.buf...)
			for _, m := range inner.marks {
				m.Off += base
				e.marks = append(e.marks, m)
			}
		default:
			e.enc(f.S, fv)
		}
	}
}
