package sergen

// Defined ("named") types over the basic kinds, and defined collection types over those.
// reflect cannot create defined types at run time, so the dynamic grammar draws them from
// this fixed pool and composes them freely with reflect.ArrayOf/SliceOf/MapOf/PointerTo/
// StructOf: [4]NU8, []NU8, *[4]NU8, map[NU8]NU8, []NBytes, [2]NArr4, map[NStr]NU64, ...
//
// Their documented wire layout is the one of the underlying kind: a defined one-byte number is
// a one-byte number, so an array / slice of them is an ordinary collection of objects (count
// prefix + one byte per element) and NOT a byte array / byte slice; a defined type over []byte
// or [N]byte is a byte slice / byte array.

import (
	"reflect"
	"sort"
)

type (
	NBool  bool
	NI8    int8
	NI16   int16
	NI32   int32
	NI64   int64
	NU8    uint8
	NU16   uint16
	NU32   uint32
	NU64   uint64
	NF32   float32
	NF64   float64
	NStr   string
	NBytes []byte
	NArr1  [1]byte
	NArr4  [4]byte
	NArr8  [8]byte
	NArr20 [20]byte
	NArr32 [32]byte

	// defined collection types whose element (and key) types are defined types themselves
	NU8Slice  []NU8
	NU8Arr1   [1]NU8
	NU8Arr4   [4]NU8
	NU8Map    map[NU8]NU8
	NBoolArr2 [2]NBool
	NI16Slice []NI16
	NStrSlice []NStr
	NStrMap   map[NStr]NU64
	NBytesSeq []NBytes
	NArrSeq   [3]NArr4
)

var namedTypes = map[Kind]reflect.Type{
	Bool: tof[NBool](), Int8: tof[NI8](), Int16: tof[NI16](), Int32: tof[NI32](), Int64: tof[NI64](),
	Uint8: tof[NU8](), Uint16: tof[NU16](), Uint32: tof[NU32](), Uint64: tof[NU64](),
	Float32: tof[NF32](), Float64: tof[NF64](), String: tof[NStr](), Bytes: tof[NBytes](),
}

var namedByteArrays = map[int]reflect.Type{1: tof[NArr1](), 4: tof[NArr4](), 8: tof[NArr8](), 20: tof[NArr20](), 32: tof[NArr32]()}

// namedColl describes a defined collection type of the pool.
type namedColl struct {
	t          reflect.Type
	kind       Kind // Slice, Array or Map
	n          int
	key, elem  Kind // leaf kinds (String/Bytes/ByteArray elements are settled like any other node)
	elemN      int  // ByteArray element length
	comparable bool
}

var namedColls = []namedColl{
	{t: tof[NU8Slice](), kind: Slice, elem: Uint8},
	{t: tof[NU8Arr1](), kind: Array, n: 1, elem: Uint8, comparable: true},
	{t: tof[NU8Arr4](), kind: Array, n: 4, elem: Uint8, comparable: true},
	{t: tof[NU8Map](), kind: Map, key: Uint8, elem: Uint8},
	{t: tof[NBoolArr2](), kind: Array, n: 2, elem: Bool, comparable: true},
	{t: tof[NI16Slice](), kind: Slice, elem: Int16},
	{t: tof[NStrSlice](), kind: Slice, elem: String},
	{t: tof[NStrMap](), kind: Map, key: String, elem: Uint64},
	{t: tof[NBytesSeq](), kind: Slice, elem: Bytes},
	{t: tof[NArrSeq](), kind: Array, n: 3, elem: ByteArray, elemN: 4, comparable: true},
}

// Named reports whether the node's Go type is a defined type (as opposed to a predeclared or
// composite type literal). Only meaningful for leaf and collection nodes.
func (s *Shape) Named() bool {
	switch s.Kind {
	case Struct, Iface, Custom, BigInt, Time, Ptr:
		return false
	}
	return s.T.Name() != "" && s.T.PkgPath() != ""
}

// Classes lists the "defined element type" and "specially treated type behind a pointer" classes
// that occur in the shape (coverage evidence; the checks require a minimum of each per run):
//
//	array-of-named-u8, slice-of-named-u8, mapkey-named-u8   [N]NU8, []NU8, map[NU8]…
//	array-of-named-scalar, slice-of-named-scalar, map-of-named-scalar   other defined basic kinds as element / key
//	coll-of-named-bytes, coll-of-named-bytearr              defined []byte / [N]byte types as element / key / value
//	named-collection-type                                   a defined slice / array / map type over defined elements
//	ptr-to-array-of-named-u8, optional-array-of-named-u8, toplevel-array-of-named-u8
//	ptr-to-time and where it sits: field / optional / slice-elem / array-elem / map-value / toplevel / in-interface-impl
//	optional-bigint, toplevel-array-with-option
func (s *Shape) Classes() []string {
	set := map[string]bool{}
	seen := map[*Shape]bool{}
	var walk func(s *Shape, pos string, depth int, inImpl bool)
	namedScalar := func(e *Shape) bool {
		switch e.Kind {
		case Bool, Int8, Int16, Int32, Int64, Uint16, Uint32, Uint64, Float32, Float64, String:
			return e.Named()
		}
		return false
	}
	elemClasses := func(coll string, e *Shape) {
		switch {
		case e.Kind == Uint8 && e.Named():
			set[coll+"-named-u8"] = true
		case namedScalar(e):
			set[coll+"-named-scalar"] = true
		case e.Kind == Bytes && e.Named():
			set["coll-of-named-bytes"] = true
		case e.Kind == ByteArray && e.Named():
			set["coll-of-named-bytearr"] = true
		}
	}
	walk = func(s *Shape, pos string, depth int, inImpl bool) {
		if depth > 10 {
			return
		}
		switch s.Kind {
		case Array, Slice:
			k := "slice-of"
			if s.Kind == Array {
				k = "array-of"
			}
			elemClasses(k, s.Elem)
			if s.Named() {
				set["named-collection-type"] = true
			}
			if s.Kind == Array && s.Elem.Kind == Uint8 {
				switch pos {
				case "ptr", "optional-ptr":
					set["ptr-to-array-of-named-u8"] = true
				case "toplevel", "toplevel-ptr":
					set["toplevel-array-of-named-u8"] = true
				}
				if pos == "optional-ptr" {
					set["optional-array-of-named-u8"] = true
				}
			}
			if pos == "toplevel" || pos == "toplevel-ptr" {
				if s.Kind == Array {
					set["toplevel-array-with-option"] = true
				}
			}
			walk(s.Elem, k[:len(k)-3]+"-elem", depth+1, inImpl)
		case Map:
			elemClasses("mapkey", s.Key)
			if namedScalar(s.Key) || namedScalar(s.Elem) || (s.Elem.Kind == Uint8 && s.Elem.Named()) {
				set["map-of-named-scalar"] = true
			}
			if s.Elem.Named() && (s.Elem.Kind == Bytes || s.Elem.Kind == ByteArray) {
				elemClasses("mapval", s.Elem)
			}
			if s.Named() {
				set["named-collection-type"] = true
			}
			walk(s.Key, "map-key", depth+1, inImpl)
			walk(s.Elem, "map-value", depth+1, inImpl)
		case Struct:
			for _, f := range s.Fields {
				p := "field"
				if f.Optional {
					p = "optional"
					if f.S.Kind == BigInt {
						set["optional-bigint"] = true
					}
				}
				walk(f.S, p, depth+1, inImpl)
			}
		case Ptr:
			if s.Elem.Kind == Time {
				set["ptr-to-time"] = true
				set["ptr-to-time/"+pos] = true
				if inImpl {
					set["ptr-to-time/in-interface-impl"] = true
				}
				return
			}
			p := "ptr"
			switch pos {
			case "optional":
				p = "optional-ptr"
			case "toplevel":
				p = "toplevel-ptr"
			}
			walk(s.Elem, p, depth+1, inImpl)
		case Iface:
			for _, im := range *s.Impls {
				if !seen[im] {
					seen[im] = true
					walk(im, "iface", depth+1, true)
				}
			}
		}
	}
	walk(s, "toplevel", 0, false)
	out := make([]string, 0, len(set))
	for k := range set {
		out = append(out, k)
	}
	sort.Strings(out)
	return out
}
