package sergen

import (
	"bytes"
	"fmt"
	"math"
	"sort"
	"time"
)

type timeT = time.Time

// Mode selects the equality used by Equal.
type Mode uint8

const (
	Binary Mode = 0 // floats by bits
	JSON   Mode = 1 // as Binary, but any NaN equals any NaN (the JSON form has a single "NaN")

	zeroSignInsensitive Mode = 2 // internal: below an omitempty field in JSON mode
)

// Equal decides "an equal value up to the canonical ordering": nil and empty
// collections are equal, floats compare by bits, times by their documented uint64
// nanosecond stamp (UTC; below the epoch clamps to 0, above the int64 range saturates),
// big integers by value, maps and auto-ordered slices after sorting by the reference
// encoding of their elements. It returns the path of the first difference.
func Equal(s *Shape, a, b *Val, m Mode) (bool, string) {
	p := eq(s, a, b, m, "")
	return p == "", p
}

func eq(s *Shape, a, b *Val, m Mode, path string) string {
	if a.Nil != b.Nil {
		return fmt.Sprintf("%s: nil=%v vs nil=%v", path, a.Nil, b.Nil)
	}
	if a.Nil {
		return ""
	}
	switch s.Kind {
	case Bool, Int8, Int16, Int32, Int64, Uint8, Uint16, Uint32, Uint64, Custom:
		if a.U != b.U {
			return fmt.Sprintf("%s: %s %#x vs %#x", path, s.Kind, a.U, b.U)
		}
	case Float32:
		if a.U != b.U {
			fa, fb := math.Float32frombits(uint32(a.U)), math.Float32frombits(uint32(b.U))
			if m&JSON != 0 && fa != fa && fb != fb {
				return ""
			}
			if m&zeroSignInsensitive != 0 && fa == 0 && fb == 0 {
				return ""
			}
			return fmt.Sprintf("%s: f32 bits %#x vs %#x", path, a.U, b.U)
		}
	case Float64:
		if a.U != b.U {
			fa, fb := math.Float64frombits(a.U), math.Float64frombits(b.U)
			if m&JSON != 0 && fa != fa && fb != fb {
				return ""
			}
			if m&zeroSignInsensitive != 0 && fa == 0 && fb == 0 {
				return ""
			}
			return fmt.Sprintf("%s: f64 bits %#x vs %#x", path, a.U, b.U)
		}
	case String, Bytes, ByteArray:
		if !bytes.Equal(a.S, b.S) {
			return fmt.Sprintf("%s: %s len %d vs len %d (content differs)", path, s.Kind, len(a.S), len(b.S))
		}
	case Array, Slice:
		if len(a.L) != len(b.L) {
			return fmt.Sprintf("%s: %s len %d vs %d", path, s.Kind, len(a.L), len(b.L))
		}
		al, bl := a.L, b.L
		if s.R.Sorted() {
			al, bl = sortedBy(s.Elem, al), sortedBy(s.Elem, bl)
		}
		for i := range al {
			if p := eq(s.Elem, al[i], bl[i], m, fmt.Sprintf("%s[%d]", path, i)); p != "" {
				return p
			}
		}
	case Map:
		if len(a.L) != len(b.L) {
			return fmt.Sprintf("%s: map len %d vs %d", path, len(a.L)/2, len(b.L)/2)
		}
		ia, ib := sortedPairs(s, a.L), sortedPairs(s, b.L)
		for i := range ia {
			if p := eq(s.Key, a.L[2*ia[i]], b.L[2*ib[i]], m, fmt.Sprintf("%s{key %d}", path, i)); p != "" {
				return p
			}
			if p := eq(s.Elem, a.L[2*ia[i]+1], b.L[2*ib[i]+1], m, fmt.Sprintf("%s{val %d}", path, i)); p != "" {
				return p
			}
		}
	case Struct:
		for i, f := range s.Fields {
			fm := m
			if m&JSON != 0 && f.OmitEmpty {
				// omitempty drops a value whose reflect.Value.IsZero is true; that includes −0.0
				// (−0.0 == 0 in Go), so below such a field the two zeros are not distinguished
				fm |= zeroSignInsensitive
			}
			if p := eq(f.S, a.L[i], b.L[i], fm, path+"."+f.Name); p != "" {
				return p
			}
		}
	case Ptr:
		return eq(s.Elem, a.L[0], b.L[0], m, path+"*")
	case Iface:
		if a.Impl != b.Impl {
			return fmt.Sprintf("%s: implementation %d vs %d", path, a.Impl, b.Impl)
		}
		return eq((*s.Impls)[a.Impl], a.L[0], b.L[0], m, path+"()")
	case BigInt:
		if a.Big.Cmp(b.Big) != 0 {
			return fmt.Sprintf("%s: big %s vs %s", path, a.Big, b.Big)
		}
	case Time:
		ta := TimeNanos(a.Time.Unix(), int64(a.Time.Nanosecond()))
		tb := TimeNanos(b.Time.Unix(), int64(b.Time.Nanosecond()))
		if ta != tb {
			return fmt.Sprintf("%s: time %d ns vs %d ns", path, ta, tb)
		}
	}
	return ""
}

func sortedBy(es *Shape, l []*Val) []*Val {
	enc := make([][]byte, len(l))
	idx := make([]int, len(l))
	for i, e := range l {
		enc[i] = refBytes(es, e)
		idx[i] = i
	}
	sort.SliceStable(idx, func(a, b int) bool { return bytes.Compare(enc[idx[a]], enc[idx[b]]) < 0 })
	out := make([]*Val, len(l))
	for i, j := range idx {
		out[i] = l[j]
	}
	return out
}

func sortedPairs(s *Shape, l []*Val) []int {
	n := len(l) / 2
	enc := make([][]byte, n)
	idx := make([]int, n)
	for i := 0; i < n; i++ {
		enc[i] = append(refBytes(s.Key, l[2*i]), refBytes(s.Elem, l[2*i+1])...)
		idx[i] = i
	}
	sort.SliceStable(idx, func(a, b int) bool { return bytes.Compare(enc[idx[a]], enc[idx[b]]) < 0 })
	return idx
}

// Saturates reports whether v contains a timestamp outside the int64-nanosecond
// range (the documented clamping / saturation makes the round trip lossy there).
func Saturates(s *Shape, v *Val) bool {
	if v.Nil {
		return false
	}
	switch s.Kind {
	case Time:
		sec := v.Time.Unix()
		return sec < 0 || sec > math.MaxInt64/1_000_000_000-1
	case Array, Slice:
		for _, e := range v.L {
			if Saturates(s.Elem, e) {
				return true
			}
		}
	case Map:
		for i := 0; i+1 < len(v.L); i += 2 {
			if Saturates(s.Key, v.L[i]) || Saturates(s.Elem, v.L[i+1]) {
				return true
			}
		}
	case Struct:
		for i, f := range s.Fields {
			if Saturates(f.S, v.L[i]) {
				return true
			}
		}
	case Ptr:
		return Saturates(s.Elem, v.L[0])
	case Iface:
		return Saturates((*s.Impls)[v.Impl], v.L[0])
	}
	return false
}
