package vf

import "testing"

const sampleRace = `==================
WARNING: DATA RACE
Write at 0x00c000012345 by goroutine 8:
  github.com/iotaledger/hive.go/kvstore.(*BatchedWriter).runBatchWriter()
      /repo/kvstore/batch_writer.go:170 +0x44
  github.com/iotaledger/hive.go/kvstore.(*BatchedWriter).startBatchWriter.gowrap1()
      /repo/kvstore/batch_writer.go:111 +0x33

Previous read at 0x00c000012345 by goroutine 7:
  sync.(*WaitGroup).Wait()
      /usr/local/go/src/sync/waitgroup.go:118 +0x7a
  github.com/iotaledger/hive.go/kvstore.(*BatchedWriter).StopBatchWriter()
      /repo/kvstore/batch_writer.go:122 +0x9c
  main.run()
      /verif/harness/c08/main.go:10 +0x20

Goroutine 8 (running) created at:
  github.com/iotaledger/hive.go/kvstore.(*BatchedWriter).startBatchWriter()
      /repo/kvstore/batch_writer.go:111 +0x104

Goroutine 7 (running) created at:
  main.main()
      /verif/harness/c08/main.go:5 +0x30
==================
`

func TestParseRace(t *testing.T) {
	rs := ParseRaceText(sampleRace)
	if len(rs) != 1 {
		t.Fatal(len(rs))
	}
	r := rs[0]
	if len(r.Stacks) != 2 || len(r.Stacks[0]) != 2 || len(r.Stacks[1]) != 3 {
		t.Fatalf("%#v", r.Stacks)
	}
	if r.Key != "kvstore.(*BatchedWriter).StopBatchWriter <-> kvstore.(*BatchedWriter).runBatchWriter" {
		t.Fatal(r.Key)
	}
	if !r.BothTouch("hive.go/kvstore") || r.BothTouch("hive.go/ds") {
		t.Fatal("touch")
	}
}
