// Package vf is the common runtime of every property check: flags, seeds,
// violation / known-finding reporting, replay files, evidence files, child
// processes with watchdogs, race-log parsing.
package vf

import (
	"bufio"
	"bytes"
	"encoding/json"
	"flag"
	"fmt"
	"hash/fnv"
	"math/rand"
	"os"
	"os/exec"
	"path/filepath"
	"regexp"
	"sort"
	"strconv"
	"strings"
	"sync"
	"sync/atomic"
	"syscall"
	"time"
)

// Root of the verification tree. All files a check needs live below it.
var Root = envOr("VERIF_ROOT", "/verif")

func envOr(k, d string) string {
	if v := os.Getenv(k); v != "" {
		return v
	}
	return d
}

const childPrefix = "@@VF "

// Ctx is handed to the property's run function (parent) or child function.
type Ctx struct {
	ID    string
	Level string
	Tier  string // quick | thorough
	Seed  int64
	// Replay is the path of a replay file when the check was started with -replay.
	Replay string
	// Child is the child mode name ("" in the parent); ChildArgs its arguments.
	Child     string
	ChildArgs []string

	mu           sync.Mutex
	start        time.Time
	counters     map[string]int64
	distinct     map[string]map[uint64]struct{}
	samples      []any
	sampleCap    int
	rule         string
	assumptions  []string
	notes        []string
	extra        map[string]any
	violations   int
	violPrinted  int
	violPerFP    map[string]int
	known        map[string]int // fingerprint -> count
	knownOrder   []string
	inconclusive []string
	requires     []require
	findings     []Finding
	childSeq     atomic.Int64
	exhaustive   *bool
	out          *bufio.Writer
}

type require struct {
	name string
	min  int64
}

// Finding is one entry of /verif/known_findings.json.
type Finding struct {
	Property    string `json:"property"`
	Status      string `json:"status"` // open | fixed
	Fingerprint string `json:"fingerprint"`
	Match       string `json:"match,omitempty"` // optional regexp over fingerprints
	Record      string `json:"record"`
	re          *regexp.Regexp
}

// Quick reports whether the tier is quick.
func (c *Ctx) Quick() bool { return c.Tier != "thorough" }

// Pick returns q in the quick tier and t in the thorough tier.
func (c *Ctx) Pick(q, t int) int {
	if c.Quick() {
		return q
	}
	return t
}

// Rand returns a PRNG derived from the seed and a stream name, so that
// independent parts of a check do not disturb each other's sequences.
func (c *Ctx) Rand(stream string) *rand.Rand {
	h := fnv.New64a()
	fmt.Fprintf(h, "%d/%s", c.Seed, stream)
	return rand.New(rand.NewSource(int64(h.Sum64())))
}

// Main is the entry point of every check binary.
//
//	run   – parent: generates cases, runs them (possibly in children), reports.
//	child – optional: executed when the binary is re-invoked with -child <name>.
func Main(id, level string, run func(c *Ctx), child func(c *Ctx)) {
	tier := flag.String("tier", envOr("VERIF_TIER", "quick"), "quick|thorough")
	seedDef, _ := strconv.ParseInt(envOr("VERIF_SEED", "1"), 10, 64)
	seed := flag.Int64("seed", seedDef, "seed")
	replay := flag.String("replay", "", "replay file")
	childName := flag.String("child", "", "child mode")
	flag.Parse()
	if *tier != "thorough" {
		*tier = "quick"
	}
	c := &Ctx{ID: id, Level: level, Tier: *tier, Seed: *seed, Replay: *replay, Child: *childName, ChildArgs: flag.Args(),
		start: time.Now(), counters: map[string]int64{}, distinct: map[string]map[uint64]struct{}{}, sampleCap: 6,
		extra: map[string]any{}, known: map[string]int{}}
	c.out = bufio.NewWriter(os.Stdout)
	defer c.out.Flush()
	if c.Child != "" {
		if child == nil {
			fmt.Fprintln(os.Stderr, "no child function")
			os.Exit(3)
		}
		child(c)
		c.flushChild()
		c.out.Flush()
		os.Exit(0)
	}
	c.loadFindings()
	run(c)
	code := c.finish()
	c.out.Flush()
	os.Exit(code)
}

func (c *Ctx) loadFindings() {
	b, err := os.ReadFile(filepath.Join(Root, "known_findings.json"))
	if err != nil {
		return
	}
	var f struct {
		Findings []Finding `json:"findings"`
	}
	if err := json.Unmarshal(b, &f); err != nil {
		fmt.Fprintln(os.Stderr, "known_findings.json:", err)
		os.Exit(3)
	}
	for _, e := range f.Findings {
		if e.Property != c.ID || e.Status != "open" {
			continue
		}
		if e.Match != "" {
			e.re = regexp.MustCompile(e.Match)
		}
		c.findings = append(c.findings, e)
	}
}

// ---------------------------------------------------------------- counters

// Count adds n to a named counter ("evaluations" is the schema's evaluations).
func (c *Ctx) Count(name string, n int) {
	c.mu.Lock()
	c.counters[name] += int64(n)
	c.mu.Unlock()
}

// Get returns a counter value.
func (c *Ctx) Get(name string) int64 {
	c.mu.Lock()
	defer c.mu.Unlock()
	return c.counters[name]
}

// Distinct records key in the distinct-set class. The class "nontrivial" is
// what evidence reports as distinct_nontrivial; other classes are reported as
// distinct_<class>.
func (c *Ctx) Distinct(class, key string) {
	h := fnv.New64a()
	h.Write([]byte(key))
	c.DistinctHash(class, h.Sum64())
}

func (c *Ctx) DistinctHash(class string, h uint64) {
	c.mu.Lock()
	m := c.distinct[class]
	if m == nil {
		m = map[uint64]struct{}{}
		c.distinct[class] = m
	}
	m[h] = struct{}{}
	c.mu.Unlock()
}

// DistinctCount returns the size of a distinct class.
func (c *Ctx) DistinctCount(class string) int {
	c.mu.Lock()
	defer c.mu.Unlock()
	return len(c.distinct[class])
}

// Sample keeps up to a handful of actual cases for the evidence file.
func (c *Ctx) Sample(v any) {
	c.mu.Lock()
	if len(c.samples) < c.sampleCap {
		c.samples = append(c.samples, v)
	}
	c.mu.Unlock()
}

// WantSample reports whether another sample would be kept.
func (c *Ctx) WantSample() bool {
	c.mu.Lock()
	defer c.mu.Unlock()
	return len(c.samples) < c.sampleCap
}

func (c *Ctx) SetRule(s string)      { c.mu.Lock(); c.rule = s; c.mu.Unlock() }
func (c *Ctx) Assume(s string)       { c.mu.Lock(); c.assumptions = append(c.assumptions, s); c.mu.Unlock() }
func (c *Ctx) SetExhaustive(b bool)  { c.mu.Lock(); c.exhaustive = &b; c.mu.Unlock() }
func (c *Ctx) Extra(k string, v any) { c.mu.Lock(); c.extra[k] = v; c.mu.Unlock() }
func (c *Ctx) Require(n string, m int) {
	c.mu.Lock()
	c.requires = append(c.requires, require{n, int64(m)})
	c.mu.Unlock()
}

// Note records a free-text observation (not a violation) in the evidence.
func (c *Ctx) Note(s string) {
	c.mu.Lock()
	if len(c.notes) < 40 {
		c.notes = append(c.notes, s)
	}
	c.mu.Unlock()
}

// Inconclusive marks the run as undecided (exit 2).
func (c *Ctx) Inconclusive(why string) {
	if c.Child != "" {
		c.emit(map[string]any{"k": "inc", "why": why})
		return
	}
	c.mu.Lock()
	c.inconclusive = append(c.inconclusive, why)
	c.mu.Unlock()
}

// ---------------------------------------------------------------- violations

// Violation reports a refutation. fingerprint is a short stable class name
// (function, shape, interleaving pattern) used to match known findings; what
// is a human-readable sentence; replay is JSON-serialisable data that lets
// `-replay` re-execute the case.
func (c *Ctx) Violation(fingerprint, what string, replay any) {
	if c.Child != "" {
		c.emit(map[string]any{"k": "viol", "fp": fingerprint, "what": what, "replay": replay})
		return
	}
	c.mu.Lock()
	defer c.mu.Unlock()
	for _, f := range c.findings {
		if f.Fingerprint == fingerprint || (f.re != nil && f.re.MatchString(fingerprint)) {
			if c.known[f.Fingerprint] == 0 {
				c.knownOrder = append(c.knownOrder, f.Fingerprint)
				fmt.Fprintf(c.out, "KNOWN-FINDING: property=%s %s\n", c.ID, strings.TrimPrefix(f.Record, "open: property="+c.ID+" "))
			}
			c.known[f.Fingerprint]++
			return
		}
	}
	c.violations++
	if c.violPerFP == nil {
		c.violPerFP = map[string]int{}
	}
	c.violPerFP[fingerprint]++
	if c.violPrinted >= 60 || c.violPerFP[fingerprint] > 3 {
		return
	}
	c.violPrinted++
	dir := filepath.Join(Root, "replays", c.ID+os.Getenv("VERIF_WORK_SUFFIX"))
	os.MkdirAll(dir, 0o755)
	h := fnv.New32a()
	h.Write([]byte(fingerprint))
	path := filepath.Join(dir, fmt.Sprintf("%s-%08x-%d.json", sanitize(fingerprint), h.Sum32(), c.violPrinted))
	b, _ := json.MarshalIndent(map[string]any{"property": c.ID, "fingerprint": fingerprint, "what": what, "seed": c.Seed, "tier": c.Tier, "replay": replay}, "", " ")
	os.WriteFile(path, b, 0o644)
	fmt.Fprintf(c.out, "VIOLATION property=%s replay=%s\n", c.ID, path)
	fmt.Fprintf(c.out, "  fingerprint=%s: %s\n", fingerprint, what)
	c.out.Flush()
}

func sanitize(s string) string {
	var b strings.Builder
	for _, r := range s {
		if r >= 'a' && r <= 'z' || r >= 'A' && r <= 'Z' || r >= '0' && r <= '9' || r == '-' || r == '_' || r == '.' {
			b.WriteRune(r)
		} else {
			b.WriteByte('_')
		}
		if b.Len() > 60 {
			break
		}
	}
	return b.String()
}

// Violations returns the number of (unlisted) violations so far.
func (c *Ctx) Violations() int { c.mu.Lock(); defer c.mu.Unlock(); return c.violations }

// LoadReplay decodes the "replay" member of the replay file into v.
func (c *Ctx) LoadReplay(v any) error {
	b, err := os.ReadFile(c.Replay)
	if err != nil {
		return err
	}
	var w struct {
		Replay json.RawMessage `json:"replay"`
	}
	if err := json.Unmarshal(b, &w); err != nil {
		return err
	}
	return json.Unmarshal(w.Replay, v)
}

// ---------------------------------------------------------------- finish

func (c *Ctx) finish() int {
	c.mu.Lock()
	defer c.mu.Unlock()
	for _, r := range c.requires {
		if c.counters[r.name] < r.min && len(c.distinct[r.name]) < int(r.min) {
			c.inconclusive = append(c.inconclusive, fmt.Sprintf("observed %s=%d (distinct %d) < required %d", r.name, c.counters[r.name], len(c.distinct[r.name]), r.min))
		}
	}
	cov := map[string]any{}
	for k, v := range c.extra {
		cov[k] = v
	}
	counters := map[string]int64{}
	for k, v := range c.counters {
		if k != "evaluations" {
			counters[k] = v
		}
	}
	cov["counters"] = counters
	for k, m := range c.distinct {
		if k != "nontrivial" {
			cov["distinct_"+k] = len(m)
		}
	}
	cov["evaluations"] = c.counters["evaluations"]
	cov["distinct_nontrivial"] = len(c.distinct["nontrivial"])
	cov["rule"] = c.rule
	if len(c.samples) == 0 {
		c.samples = append(c.samples, "no sample recorded")
	}
	cov["samples"] = c.samples
	if c.exhaustive != nil {
		cov["exhaustive"] = *c.exhaustive
	}
	if len(c.notes) > 0 {
		cov["notes"] = c.notes
	}
	kf := map[string]int{}
	for k, v := range c.known {
		kf[k] = v
	}
	cov["known_findings_hit"] = kf
	if len(c.violPerFP) > 0 {
		cov["violation_fingerprints"] = c.violPerFP
	}
	verdict := "held_on_observed"
	code := 0
	if len(c.inconclusive) > 0 {
		verdict = "inconclusive"
		code = 2
		cov["inconclusive"] = c.inconclusive
	}
	if c.violations > 0 {
		verdict = "violated"
		code = 1
	}
	cov["verdict"] = verdict
	if c.Replay != "" {
		// replay runs do not rewrite evidence
		fmt.Fprintf(c.out, "replay verdict: %s (violations=%d)\n", verdict, c.violations)
		return code
	}
	ev := map[string]any{
		"property_id": c.ID, "tier": c.Tier, "seed": c.Seed, "level": c.Level, "coverage": cov,
		"assumptions": c.assumptions, "wall_s": float64(int(time.Since(c.start).Seconds()*100)) / 100, "violations": c.violations,
	}
	if c.assumptions == nil {
		ev["assumptions"] = []string{}
	}
	b, _ := json.MarshalIndent(ev, "", " ")
	os.MkdirAll(filepath.Join(Root, "evidence"), 0o755)
	evName := c.ID + ".json"
	if sfx := os.Getenv("VERIF_WORK_SUFFIX"); sfx != "" {
		evName = c.ID + sfx + ".json.scratch" // development runs against a scratch repo never overwrite evidence
	}
	if err := os.WriteFile(filepath.Join(Root, "evidence", evName), append(b, '\n'), 0o644); err != nil {
		fmt.Fprintln(os.Stderr, "evidence:", err)
		return 3
	}
	for _, w := range c.inconclusive {
		fmt.Fprintf(c.out, "INCONCLUSIVE property=%s %s\n", c.ID, w)
	}
	fmt.Fprintf(c.out, "%s %s tier=%s seed=%d evaluations=%d distinct_nontrivial=%d violations=%d known=%d wall=%.1fs\n",
		c.ID, verdict, c.Tier, c.Seed, c.counters["evaluations"], len(c.distinct["nontrivial"]), c.violations, len(c.known), time.Since(c.start).Seconds())
	return code
}

// ---------------------------------------------------------------- children

var emitMu sync.Mutex

func (c *Ctx) emit(m map[string]any) {
	b, err := json.Marshal(m)
	if err != nil {
		b, _ = json.Marshal(map[string]any{"k": m["k"], "fp": m["fp"], "what": fmt.Sprint(m["what"]), "replay": fmt.Sprint(m["replay"])})
	}
	emitMu.Lock()
	c.out.WriteString(childPrefix)
	c.out.Write(b)
	c.out.WriteByte('\n')
	c.out.Flush()
	emitMu.Unlock()
}

// Emit sends a free-form record from a child to the parent (returned in
// ChildResult.Records).
func (c *Ctx) Emit(kind string, v any) {
	c.emit(map[string]any{"k": "rec", "kind": kind, "v": v})
}

func (c *Ctx) flushChild() {
	c.mu.Lock()
	cnt := c.counters
	dis := map[string][]uint64{}
	for k, m := range c.distinct {
		for h := range m {
			dis[k] = append(dis[k], h)
		}
	}
	smp := c.samples
	notes := c.notes
	c.mu.Unlock()
	c.emit(map[string]any{"k": "stats", "counters": cnt, "distinct": dis, "samples": smp, "notes": notes})
}

// FlushStats lets a long-running child push its counters early (e.g. before a
// step that may kill it). Counters are reset afterwards.
func (c *Ctx) FlushStats() {
	c.flushChild()
	c.mu.Lock()
	c.counters = map[string]int64{}
	c.distinct = map[string]map[uint64]struct{}{}
	c.samples = nil
	c.notes = nil
	c.mu.Unlock()
}

// ChildOpts configures one child process.
type ChildOpts struct {
	Name    string   // child mode
	Args    []string // extra args
	Race    bool     // run the -race build of this binary
	Timeout time.Duration
	Env     []string
	MemKB   int    // ulimit -v (plain builds only)
	Stdin   []byte // optional
	Seed    int64  // 0 = parent's seed
	// KeepStderr keeps the stderr file even on success.
	KeepStderr bool
	// Quiet: do not merge stats (rare).
}

// Record is a free-form child→parent message.
type Record struct {
	Kind string          `json:"kind"`
	V    json.RawMessage `json:"v"`
}

// ChildResult is what the parent learns about a finished child.
type ChildResult struct {
	ExitCode   int
	TimedOut   bool   // the wall-clock watchdog fired (→ inconclusive unless a rule matches the dump)
	Deadlock   bool   // Go runtime: all goroutines are asleep
	Fatal      string // first "fatal error:" / "panic:" line on stderr
	Stderr     string // stderr contents (truncated to 1 MiB)
	StderrPath string
	Lines      []string // stdout lines that are not protocol lines
	Records    []Record
	Races      []RaceReport
	LastMark   string // last "mark" emitted by the child (case about to run)
}

// Mark tells the parent which case the child is about to execute, so that a
// process death can be attributed.
func (c *Ctx) Mark(s string) {
	if c.Child != "" {
		c.emit(map[string]any{"k": "mark", "m": s})
	}
}

// WorkDir returns (and creates) the scratch directory of this check.
func (c *Ctx) WorkDir() string {
	d := filepath.Join(Root, ".work", c.ID+os.Getenv("VERIF_WORK_SUFFIX"))
	os.MkdirAll(d, 0o755)
	return d
}

// RunChild re-executes this binary (or its -race twin) in child mode.
func (c *Ctx) RunChild(o ChildOpts) ChildResult {
	exe, _ := os.Executable()
	if o.Race {
		exe += ".race"
	}
	seq := c.childSeq.Add(1)
	seed := o.Seed
	if seed == 0 {
		seed = c.Seed
	}
	args := append([]string{"-tier", c.Tier, "-seed", strconv.FormatInt(seed, 10), "-child", o.Name}, o.Args...)
	wd := c.WorkDir()
	errPath := filepath.Join(wd, fmt.Sprintf("child-%d-%s.stderr", seq, sanitize(o.Name)))
	errF, _ := os.Create(errPath)
	var cmd *exec.Cmd
	if o.MemKB > 0 && !o.Race {
		sh := fmt.Sprintf("ulimit -v %d; exec \"$0\" \"$@\"", o.MemKB)
		cmd = exec.Command("/bin/sh", append([]string{"-c", sh, exe}, args...)...)
	} else {
		cmd = exec.Command(exe, args...)
	}
	cmd.Env = append(os.Environ(), o.Env...)
	racePrefix := ""
	if o.Race {
		racePrefix = filepath.Join(wd, fmt.Sprintf("race-%d", seq))
		cmd.Env = append(cmd.Env, "GORACE=halt_on_error=0 history_size=3 log_path="+racePrefix)
	}
	cmd.Stderr = errF
	if o.Stdin != nil {
		cmd.Stdin = bytes.NewReader(o.Stdin)
	}
	stdout, _ := cmd.StdoutPipe()
	var res ChildResult
	res.StderrPath = errPath
	if err := cmd.Start(); err != nil {
		res.ExitCode = -1
		res.Fatal = "start: " + err.Error()
		errF.Close()
		return res
	}
	timeout := o.Timeout
	if timeout == 0 {
		timeout = 5 * time.Minute
	}
	done := make(chan struct{})
	var timedOut atomic.Bool
	go func() {
		select {
		case <-done:
		case <-time.After(timeout):
			timedOut.Store(true)
			cmd.Process.Signal(syscall.SIGQUIT)
			select {
			case <-done:
			case <-time.After(5 * time.Second):
				cmd.Process.Kill()
			}
		}
	}()
	sc := bufio.NewScanner(stdout)
	sc.Buffer(make([]byte, 1<<20), 256<<20)
	for sc.Scan() {
		line := sc.Text()
		if !strings.HasPrefix(line, childPrefix) {
			if len(res.Lines) < 10000 {
				res.Lines = append(res.Lines, line)
			}
			continue
		}
		c.handleChildLine([]byte(line[len(childPrefix):]), &res)
	}
	err := cmd.Wait()
	close(done)
	errF.Close()
	res.TimedOut = timedOut.Load()
	if err != nil {
		if ee, ok := err.(*exec.ExitError); ok {
			res.ExitCode = ee.ExitCode()
		} else {
			res.ExitCode = -1
		}
	}
	if b, e := os.ReadFile(errPath); e == nil {
		if len(b) > 1<<20 {
			b = b[:1<<20]
		}
		res.Stderr = string(b)
	}
	if strings.Contains(res.Stderr, "all goroutines are asleep - deadlock!") {
		res.Deadlock = true
	}
	for _, l := range strings.Split(res.Stderr, "\n") {
		if strings.HasPrefix(l, "fatal error:") || strings.HasPrefix(l, "panic:") {
			res.Fatal = l
			break
		}
	}
	if o.Race {
		res.Races = ParseRaceLogs(racePrefix)
		if m, _ := filepath.Glob(racePrefix + ".*"); len(res.Races) == 0 {
			for _, f := range m {
				os.Remove(f)
			}
		}
	}
	if res.ExitCode == 0 && !res.TimedOut && !o.KeepStderr {
		os.Remove(errPath)
	}
	return res
}

func (c *Ctx) handleChildLine(b []byte, res *ChildResult) {
	var m struct {
		K        string              `json:"k"`
		FP       string              `json:"fp"`
		What     string              `json:"what"`
		Replay   json.RawMessage     `json:"replay"`
		Why      string              `json:"why"`
		M        string              `json:"m"`
		Kind     string              `json:"kind"`
		V        json.RawMessage     `json:"v"`
		Counters map[string]int64    `json:"counters"`
		Distinct map[string][]uint64 `json:"distinct"`
		Samples  []json.RawMessage   `json:"samples"`
		Notes    []string            `json:"notes"`
	}
	if err := json.Unmarshal(b, &m); err != nil {
		return
	}
	switch m.K {
	case "viol":
		c.Violation(m.FP, m.What, m.Replay)
	case "inc":
		c.Inconclusive(m.Why)
	case "mark":
		res.LastMark = m.M
	case "rec":
		res.Records = append(res.Records, Record{m.Kind, m.V})
	case "stats":
		c.mu.Lock()
		for k, v := range m.Counters {
			c.counters[k] += v
		}
		for k, hs := range m.Distinct {
			mm := c.distinct[k]
			if mm == nil {
				mm = map[uint64]struct{}{}
				c.distinct[k] = mm
			}
			for _, h := range hs {
				mm[h] = struct{}{}
			}
		}
		for _, s := range m.Samples {
			if len(c.samples) < c.sampleCap {
				c.samples = append(c.samples, s)
			}
		}
		for _, n := range m.Notes {
			if len(c.notes) < 40 {
				c.notes = append(c.notes, n)
			}
		}
		c.mu.Unlock()
	}
}

// Parallel runs f(i) for i in [0,n) on up to workers goroutines.
func Parallel(n, workers int, f func(i int)) {
	if workers < 1 {
		workers = 1
	}
	var wg sync.WaitGroup
	var next atomic.Int64
	for w := 0; w < workers; w++ {
		wg.Add(1)
		go func() {
			defer wg.Done()
			for {
				i := int(next.Add(1)) - 1
				if i >= n {
					return
				}
				f(i)
			}
		}()
	}
	wg.Wait()
}

// ---------------------------------------------------------------- race logs

// RaceReport is one "WARNING: DATA RACE" block.
type RaceReport struct {
	Text   string
	Funcs  []string   // function names of all frames of the two access stacks, in order
	Stacks [][]string // the two access stacks (current access, previous access), innermost first
	Key    string     // dedupe key: the innermost hive.go function of each access stack, sorted
}

// ParseRaceLogs reads every file `<prefix>.*` written by GORACE log_path.
func ParseRaceLogs(prefix string) []RaceReport {
	files, _ := filepath.Glob(prefix + ".*")
	var out []RaceReport
	for _, f := range files {
		b, err := os.ReadFile(f)
		if err != nil {
			continue
		}
		out = append(out, ParseRaceText(string(b))...)
	}
	return out
}

// ParseRaceText splits race detector output into reports.
func ParseRaceText(s string) []RaceReport {
	var out []RaceReport
	parts := strings.Split(s, "WARNING: DATA RACE")
	for _, p := range parts[1:] {
		if i := strings.Index(p, "=================="); i >= 0 {
			p = p[:i]
		}
		r := RaceReport{Text: "WARNING: DATA RACE" + p}
		// the two access stacks come first; "Goroutine N (running) created at:" sections follow
		head := p
		if i := strings.Index(p, "\nGoroutine "); i >= 0 {
			head = p[:i]
		}
		var keyFns []string
		for _, blk := range strings.Split(head, "\n\n") {
			var st []string
			for _, l := range strings.Split(blk, "\n") {
				// frames are indented by two spaces and end in "()", file lines by six
				if !strings.HasPrefix(l, "  ") || strings.HasPrefix(l, "   ") || !strings.HasSuffix(l, ")") {
					continue
				}
				fn := strings.TrimSpace(l)
				if i := strings.LastIndexByte(fn, '('); i > 0 {
					fn = fn[:i]
				}
				st = append(st, fn)
			}
			if len(st) == 0 {
				continue
			}
			r.Stacks = append(r.Stacks, st)
			r.Funcs = append(r.Funcs, st...)
			for _, fn := range st {
				if strings.Contains(fn, "iotaledger/hive.go") {
					keyFns = append(keyFns, strings.TrimPrefix(fn, "github.com/iotaledger/hive.go/"))
					break
				}
			}
		}
		sort.Strings(keyFns)
		r.Key = strings.Join(keyFns, " <-> ")
		out = append(out, r)
	}
	return out
}

// Touches reports whether any frame of the access stacks is in one of the
// given package path fragments.
func (r RaceReport) Touches(pkgs ...string) bool {
	for _, f := range r.Funcs {
		for _, p := range pkgs {
			if strings.Contains(f, p) {
				return true
			}
		}
	}
	return false
}

// BothTouch reports whether each of the two access stacks has a frame in one
// of the given package path fragments (DESIGN §1.6: a report refutes a clause
// only when both accesses happen inside operations the statement constrains).
func (r RaceReport) BothTouch(pkgs ...string) bool {
	if len(r.Stacks) < 2 {
		return false
	}
	for _, st := range r.Stacks[:2] {
		ok := false
		for _, f := range st {
			for _, p := range pkgs {
				if strings.Contains(f, p) {
					ok = true
				}
			}
		}
		if !ok {
			return false
		}
	}
	return true
}

// ReportRaces classifies race reports of a child: those whose two access
// stacks both touch one of pkgs are violations with fingerprint "race:<key>", the others become notes.
func (c *Ctx) ReportRaces(rs []RaceReport, pkgs ...string) {
	seen := map[string]bool{}
	for _, r := range rs {
		c.Count("race_reports", 1)
		if seen[r.Key] {
			continue
		}
		seen[r.Key] = true
		if r.BothTouch(pkgs...) {
			txt := r.Text
			if len(txt) > 6000 {
				txt = txt[:6000]
			}
			c.Violation("race:"+r.Key, "data race between "+r.Key, map[string]any{"report": txt})
		} else {
			c.Note("race outside statement: " + r.Key)
		}
	}
}
