package main

import (
	"fmt"
	"runtime"
	"sync/atomic"

	"github.com/iotaledger/hive.go/runtime/options"
	"github.com/iotaledger/hive.go/runtime/workerpool"
	"verif/harness/internal/gdump"
)

// extraGated: schedule kinds that are always part of the quick list.
//
//	watchers – third parties parked on the pool's EXPORTED synchronisation objects (Queue.WaitSizeIs*,
//	           PendingTasksCounter.Wait*, Subscribe, Group.WaitChildren) before single, well-separated Submits
//	           (each finds the dispatcher parked) and bursts: every accepted task must run while the pool runs.
//	cstart   – 2-3 concurrent Start callers on a fresh / stopped / still draining pool: afterwards exactly one
//	           dispatcher and WorkerCount() workers, no panic, every task once, shutdown terminates.
func extraGated() []gatedCfg {
	var out []gatedCfg
	big := 2*runtime.NumCPU() + 5 // always above 2*NumCPU and never one of the literal counts
	for _, w := range []int{1, 2, 4, big} {
		for _, cancel := range []bool{false, true} {
			for _, grp := range []bool{false, true} {
				out = append(out, gatedCfg{Kind: "watchers", Workers: w, Cancel: cancel, Group: grp, Shutdown: true})
			}
		}
	}
	for i, w := range []int{1, 3, big, 0} {
		for _, variant := range []string{"fresh", "stopped", "draining"} {
			for _, k := range []int{2, 3} {
				out = append(out, gatedCfg{Kind: "cstart", Workers: w, Cancel: (i+k)%2 == 0, Variant: variant, Starters: k, Shutdown: true})
			}
		}
	}
	// every pool option x histories in which callers recover a panic from a rejected Submit and carry on
	for _, w := range []int{1, 3, 0} {
		for _, cancel := range []bool{false, true} {
			for _, po := range []bool{false, true} {
				for _, v := range []string{"submit-after-shutdown", "double-shutdown", "never-started", "submit-while-draining"} {
					out = append(out, gatedCfg{Kind: "options", Workers: w, Cancel: cancel, PanicOpt: po, Variant: v, Shutdown: true})
				}
			}
		}
	}
	return out
}

func newPool(cfg gatedCfg) (*workerpool.WorkerPool, *workerpool.Group) {
	opts := []options.Option[workerpool.WorkerPool]{workerpool.WithCancelPendingTasksOnShutdown(cfg.Cancel)}
	if cfg.Workers > 0 {
		opts = append(opts, workerpool.WithWorkerCount(cfg.Workers))
	}
	if cfg.PanicOpt {
		opts = append(opts, workerpool.WithPanicOnSubmitAfterShutdown(true))
	}
	if cfg.Group {
		g := workerpool.NewGroup("root")
		return g.CreatePool("probe", opts...), g // CreatePool starts the pool
	}
	return workerpool.New("probe", opts...), nil
}

func runExtra(cfg gatedCfg) (res gatedResult) {
	res.Cfg = cfg
	step := func(f string, a ...any) { res.Steps = append(res.Steps, fmt.Sprintf(f, a...)) }
	viol := func(fp, f string, a ...any) {
		res.Findings = append(res.Findings, finding{fp, fmt.Sprintf(f, a...)})
		step("VIOLATION "+fp+": "+f, a...)
	}
	curGate.Store(nil)
	before := idSet(gdump.Snapshot())

	// blindness guard on a reference pool of the same shape (for cstart the count after the Starts IS the verdict)
	{
		ref, _ := newPool(gatedCfg{Workers: cfg.Workers})
		ref.Start()
		why := blind(patternOf(waitQuiescent(), before), ref.WorkerCount())
		ref.Shutdown()
		ref.ShutdownComplete.Wait()
		waitQuiescent()
		if why != "" {
			res.Inconcl = why
			return
		}
		before = idSet(gdump.Snapshot())
	}

	pool, grp := newPool(cfg)
	obs := observe(pool)
	res.Workers = pool.WorkerCount()
	W := pool.WorkerCount()
	var tasks []*gtask
	newTask := func(gated bool) *gtask {
		t := &gtask{id: len(tasks)}
		if gated {
			t.gate = make(chan struct{})
		}
		tasks = append(tasks, t)
		return t
	}
	body := func(t *gtask) func() {
		return func() {
			t.started.Store(now())
			t.runs.Add(1)
			if t.gate != nil {
				<-t.gate
			}
		}
	}
	sh, wt := gdump.NewActor("shutdown"), gdump.NewActor("waiter")
	defer sh.Close()
	defer wt.Close()
	cq := func() (int, int) { return safeCounterQueue(pool) }

	// submitOne: a single Submit on a quiescent, running pool; the task must have run at the next quiescence
	// (cancel-on-shutdown only licenses cancelling what is pending when Shutdown is called: a task accepted by a
	// running - also a restarted - pool must have run at the next quiescence)
	submitOne := func(what string) bool {
		t := newTask(false)
		pool.Submit(body(t))
		gs := waitQuiescent()
		if t.runs.Load() != 1 {
			cnt, q := cq()
			if t.runs.Load() == 0 && cnt == 0 && q == 0 {
				if a, f, _ := obs.counts(); a == f {
					viol("task-cancelled-while-pool-running", "%s: a task submitted to the running pool was marked done without running (PendingTasksCounter=0, Queue empty, accepted=finished=%d, %s)", what, a, patternOf(gs, before))
					return false
				}
			}
			viol("accepted-task-not-run-while-running", "%s: a task submitted to the running pool has run %d times at structural quiescence: PendingTasksCounter=%d Queue.Size()=%d, %s", what, t.runs.Load(), cnt, q, patternOf(gs, before))
			return false
		}
		return true
	}
	finish := func() {
		// Shutdown + ShutdownComplete.Wait, conservation
		for _, t := range tasks {
			if t.gate != nil && !t.opened {
				t.opened = true
				close(t.gate)
			}
		}
		waitQuiescent()
		do(sh, func() { pool.Shutdown() })
		do(wt, func() { pool.ShutdownComplete.Wait() })
		gs := waitQuiescent()
		if p := sh.TakePanic(); p != "" {
			viol("shutdown/panic", "Shutdown() panicked: %s", p)
		}
		o := &res.Out
		o.CancelOpt, o.ShutdownCalled = cfg.Cancel, true
		o.ShutdownReturned, o.WaitReturned = !sh.Busy(), !wt.Busy()
		o.Accepted, o.Finished, o.ChainBad = obs.counts()
		for _, t := range tasks {
			r := int(t.runs.Load())
			o.Ran += r
			o.MaxRuns = max(o.MaxRuns, r)
		}
		o.pat = patternOf(gs, before)
		o.Counter, o.Queue = cq()
		o.Pattern = o.pat.String()
		step("after Shutdown+Wait: %s counter=%d queue=%d ran=%d accepted=%d finished=%d", o.Pattern, o.Counter, o.Queue, o.Ran, o.Accepted, o.Finished)
		res.Findings = append(res.Findings, classify(*o)...)
		if o.WaitReturned && o.ShutdownReturned && cfg.Kind == "cstart" && o.pat.total() > 0 && len(res.Findings) == 0 {
			viol("start/pool-goroutines-left-after-shutdown", "ShutdownComplete.Wait() returned but pool goroutines are still alive: %s", o.Pattern)
		}
	}

	switch cfg.Kind {
	case "options":
		sub := gdump.NewActor("submitter")
		defer sub.Close()
		var rejected []*gtask
		// rejectedSubmit: Submit on a pool that is not running; the caller recovers a panic (option) and carries on
		rejectedSubmit := func(when string) bool {
			t := newTask(false)
			rejected = append(rejected, t)
			st := do(sub, func() { pool.Submit(body(t)) })
			p := sub.TakePanic()
			step("Submit %s -> %s, panic=%q (WithPanicOnSubmitAfterShutdown=%v)", when, stName(st), p, cfg.PanicOpt)
			if st != gdump.Returned {
				viol("submit-never-returns", "Submit %s is parked for ever", when)
				return false
			}
			res.RejectedSubmits++
			if p != "" {
				res.RecoveredPanics++
			}
			return true
		}
		shutdown := func(what string) bool {
			st := do(sh, func() { pool.Shutdown() })
			step("%s -> %s", what, stName(st))
			if p := sh.TakePanic(); p != "" {
				viol("shutdown/panic", "%s panicked: %s", what, p)
				return false
			}
			if st != gdump.Returned {
				gs := waitQuiescent()
				cnt, q := cq()
				viol("shutdown-call-never-returns", "%s is parked for ever at structural quiescence (history: %v; %s, counter=%d queue=%d)", what, res.Steps, patternOf(gs, before), cnt, q)
				return false
			}
			return true
		}
		wait := func() bool {
			if st := do(wt, func() { pool.ShutdownComplete.Wait() }); st != gdump.Returned {
				gs := waitQuiescent()
				viol("shutdown-hangs/other", "ShutdownComplete.Wait() never returns (%s)", patternOf(gs, before))
				return false
			}
			return true
		}
		// a task that panics and recovers inside its own body must not disturb the pool
		panicky := func() *gtask {
			t := newTask(false)
			pool.Submit(func() {
				defer func() { recover() }()
				t.runs.Add(1)
				panic("task-internal panic, recovered by the task")
			})
			return t
		}
		switch cfg.Variant {
		case "never-started":
			if !shutdown("Shutdown() of a never-started pool") || !rejectedSubmit("on the never-started pool") || !wait() {
				return
			}
		case "submit-after-shutdown", "double-shutdown":
			pool.Start()
			waitQuiescent()
			if !submitOne("Submit on the fresh pool") {
				return
			}
			panicky()
			if !shutdown("Shutdown()") || !wait() || !rejectedSubmit("after the shutdown completed") {
				return
			}
			if cfg.Variant == "double-shutdown" {
				if !shutdown("second Shutdown()") || !rejectedSubmit("after the second Shutdown") || !wait() {
					return
				}
			}
		case "submit-while-draining":
			pool.Start()
			waitQuiescent()
			held := newTask(true)
			pool.Submit(body(held))
			waitQuiescent()
			if !shutdown("Shutdown() with a task held") || !rejectedSubmit("while the shutdown is draining") {
				return
			}
			held.opened = true
			close(held.gate)
			if !wait() {
				return
			}
		}
		// carry on: restart, work, shut down again
		if st := do(wt, func() { pool.Start() }); st != gdump.Returned {
			viol("shutdown-then-start/start-never-returns-after-shutdown-complete", "Start() after the history %v is parked for ever", res.Steps)
			return
		}
		for i := 0; i < 3; i++ {
			if !submitOne("Submit after restart") {
				return
			}
		}
		pk := panicky()
		waitQuiescent()
		if pk.runs.Load() != 1 {
			viol("accepted-task-not-run-while-running", "a task (that panics and recovers internally) submitted after restart has run %d times", pk.runs.Load())
			return
		}
		for _, t := range rejected {
			if t.runs.Load() != 0 {
				viol("rejected-task-ran", "a task whose Submit was rejected (pool not running) has run %d times", t.runs.Load())
				return
			}
		}
		finish()
	case "watchers":
		if grp == nil {
			pool.Start()
		}
		waitQuiescent()
		var watchersBack atomic.Int64
		watch := func(f func()) { go func() { f(); watchersBack.Add(1) }() }
		never := 1 << 20
		for k := 0; k < 2; k++ {
			watch(func() { pool.Queue.WaitSizeIsAbove(never) })
			watch(func() { pool.Queue.WaitSizeIsBelow(0) })
			watch(func() { pool.PendingTasksCounter.WaitIsAbove(never) })
			watch(func() { pool.PendingTasksCounter.WaitIsBelow(-never) })
		}
		var subCalls atomic.Int64
		pool.PendingTasksCounter.Subscribe(func(o, n int) { subCalls.Add(1) })
		waitQuiescent()
		step("8 third-party watchers parked on Queue.WaitSizeIsAbove/WaitSizeIsBelow and PendingTasksCounter.WaitIsAbove/WaitIsBelow (conditions never true); %s", patternOf(gdump.Snapshot(), before))
		for i := 0; i < 4; i++ {
			if !submitOne(fmt.Sprintf("separated Submit #%d with watchers parked", i+1)) {
				return
			}
		}
		// watchers whose condition becomes true when the pool gets idle again
		held := newTask(true)
		pool.Submit(body(held))
		waitQuiescent()
		var idleBack atomic.Int64
		nIdle := 2
		go func() { pool.PendingTasksCounter.WaitIsZero(); idleBack.Add(1) }()
		go func() { pool.Queue.WaitIsEmpty(); idleBack.Add(1) }() // queue is empty (task dispatched): returns at once
		if grp != nil {
			nIdle = 3
			go func() { grp.WaitChildren(); idleBack.Add(1) }()
		}
		waitQuiescent()
		if W > 1 {
			for i := 0; i < 2; i++ {
				if !submitOne(fmt.Sprintf("separated Submit #%d while one task is held and idle-watchers are parked", i+5)) {
					return
				}
			}
		}
		held.opened = true
		close(held.gate)
		waitQuiescent()
		if n := int(idleBack.Load()); n != nIdle {
			viol("watcher/idle-watcher-parked-although-pool-idle", "%d of %d watchers on PendingTasksCounter.WaitIsZero / Queue.WaitIsEmpty / Group.WaitChildren are parked for ever although the pool is idle", nIdle-n, nIdle)
			return
		}
		// burst
		var acts []*gdump.Actor
		var burst []*gtask
		for a := 0; a < 3; a++ {
			act := gdump.NewActor("burst")
			acts = append(acts, act)
			var mine []*gtask
			for i := 0; i < 5; i++ {
				t := newTask(false)
				mine = append(mine, t)
				burst = append(burst, t)
			}
			act.Start(func() {
				for _, t := range mine {
					pool.Submit(body(t))
				}
			})
		}
		gs := waitQuiescent()
		for _, a := range acts {
			a.Close()
		}
		for _, t := range burst {
			if t.runs.Load() != 1 {
				cnt, q := cq()
				viol("accepted-task-not-run-while-running", "burst of 15 Submits with watchers parked: a task has run %d times at structural quiescence: PendingTasksCounter=%d Queue.Size()=%d, %s", t.runs.Load(), cnt, q, patternOf(gs, before))
				return
			}
		}
		if watchersBack.Load() != 0 {
			viol("watcher/returned-without-condition", "%d watcher(s) with a never-true condition returned", watchersBack.Load())
			return
		}
		step("4+2 separated Submits, 15 in a burst: all ran; subscriber saw %d transitions", subCalls.Load())
		finish()
	case "cstart":
		k := cfg.Starters
		var starters []*gdump.Actor
		for i := 0; i < k; i++ {
			starters = append(starters, gdump.NewActor("starter"))
		}
		defer func() {
			for _, a := range starters {
				a.Close()
			}
		}()
		var held *gtask
		switch cfg.Variant {
		case "stopped", "draining":
			pool.Start()
			waitQuiescent()
			if cfg.Variant == "draining" {
				held = newTask(true)
				pool.Submit(body(held))
				waitQuiescent()
			}
			do(sh, func() { pool.Shutdown() })
			if cfg.Variant == "stopped" {
				do(wt, func() { pool.ShutdownComplete.Wait() })
			}
			waitQuiescent()
		}
		if cfg.Variant == "draining" {
			// the Start callers pile up behind the shutdown that is still draining the held task
			for i, a := range starters {
				st := do(a, func() { pool.Start() })
				step("Start() #%d while the previous shutdown drains -> %s", i+1, stName(st))
			}
			held.opened = true
			close(held.gate)
		} else {
			barrier := make(chan struct{})
			for _, a := range starters {
				a.Start(func() { <-barrier; pool.Start() })
			}
			waitQuiescent()
			close(barrier)
		}
		gs := waitQuiescent()
		for i, a := range starters {
			if p := a.TakePanic(); p != "" {
				viol("start/panic-in-concurrent-start", "%d concurrent Start() calls (%s pool): call #%d panicked: %s", k, cfg.Variant, i+1, p)
			}
			if a.Busy() {
				viol("shutdown-then-start/start-never-returns-"+cfg.Variant, "%d concurrent Start() calls (%s pool): call #%d is parked for ever (%s)", k, cfg.Variant, i+1, patternOf(gs, before))
			}
		}
		p := patternOf(gs, before)
		step("%d concurrent Start() on a %s pool returned: %s", k, cfg.Variant, p)
		if len(res.Findings) > 0 {
			return
		}
		if p.NDisp > 1 || p.InTask != 0 || p.total() != W+1 {
			viol("start/pool-started-twice", "after %d concurrent Start() calls on a %s pool there are %d pool goroutines (%d identified as dispatcher) instead of %d (1 dispatcher + %d workers): %s", k, cfg.Variant, p.total(), p.NDisp, W+1, W, p)
			return
		}
		for i := 0; i < 2*min(W, 8)+3; i++ {
			if !submitOne("Submit after concurrent Start") {
				return
			}
		}
		finish()
	}
	return
}
