package main

import (
	"fmt"
	"runtime"
	"sort"
	"strings"
	"sync"
	"sync/atomic"
	"time"

	"github.com/iotaledger/hive.go/runtime/syncutils"
	"github.com/iotaledger/hive.go/runtime/workerpool"
	"verif/harness/internal/gdump"
)

// tick is the only clock used by deciding oracles (DESIGN §1.3).
var tick atomic.Uint64

func now() uint64 { return tick.Add(1) }

// ---------------------------------------------------------------- yield hooks

const (
	ptAfterCheck = "wp.submit.afterRunningCheck"
	ptBeforePush = "wp.submit.beforePush"
	ptBeforeWait = "stack.popOrWait.beforeWait"
)

// gateT blocks the first goroutine that reaches `point` after `skip` earlier
// hits, until release is closed.
type gateT struct {
	point   string
	skip    atomic.Int64
	armed   atomic.Bool
	reached atomic.Bool
	release chan struct{}
	once    sync.Once
}

func newGate(point string, skip int) *gateT {
	g := &gateT{point: point, release: make(chan struct{})}
	g.skip.Store(int64(skip))
	g.armed.Store(true)
	return g
}

func (g *gateT) open() { g.once.Do(func() { close(g.release) }) }

var curGate atomic.Pointer[gateT]

// jitterT widens windows in stress runs (seeded; Gosched only unless sleep is allowed).
type jitterT struct {
	seed  uint64
	ctr   atomic.Uint64
	sleep bool
	hits  [3]atomic.Int64
}

var curJitter atomic.Pointer[jitterT]

func splitmix(x uint64) uint64 {
	x += 0x9e3779b97f4a7c15
	x = (x ^ (x >> 30)) * 0xbf58476d1ce4e5b9
	x = (x ^ (x >> 27)) * 0x94d049bb133111eb
	return x ^ (x >> 31)
}

func (j *jitterT) yield(point string) {
	switch point {
	case ptAfterCheck:
		j.hits[0].Add(1)
	case ptBeforePush:
		j.hits[1].Add(1)
	case ptBeforeWait:
		j.hits[2].Add(1)
	}
	n := splitmix(j.seed + j.ctr.Add(1))
	switch n % 8 {
	case 0, 1, 2:
	case 3, 4, 5:
		for k := uint64(0); k <= (n>>8)%4; k++ {
			runtime.Gosched()
		}
	case 6:
		for k := 0; k < 12; k++ {
			runtime.Gosched()
		}
	case 7:
		if j.sleep {
			time.Sleep(time.Duration((n>>8)%40) * time.Microsecond)
		} else {
			for k := 0; k < 30; k++ {
				runtime.Gosched()
			}
		}
	}
}

func hook(point string) {
	if g := curGate.Load(); g != nil && g.point == point {
		if g.skip.Add(-1) >= 0 {
			return
		}
		if g.armed.CompareAndSwap(true, false) {
			g.reached.Store(true)
			<-g.release
		}
		return
	}
	if j := curJitter.Load(); j != nil {
		j.yield(point)
	}
}

func installHooks() {
	workerpool.VerifYield = hook
	syncutils.VerifYield = hook
}

// ---------------------------------------------------------------- observation of one pool

type transition struct {
	Old, New int
	Tick     uint64
}

// poolObs subscribes to PendingTasksCounter: +1 = accepted, -1 = finished.
type poolObs struct {
	pool *workerpool.WorkerPool
	mu   sync.Mutex
	tr   []transition
}

func observe(p *workerpool.WorkerPool) *poolObs {
	o := &poolObs{pool: p}
	p.PendingTasksCounter.Subscribe(func(oldV, newV int) {
		t := now()
		o.mu.Lock()
		o.tr = append(o.tr, transition{oldV, newV, t})
		o.mu.Unlock()
	})
	return o
}

// counts returns accepted, finished and a description of the first chain
// inconsistency ("" if none): every transition must be +-1 and start at the
// value the previous one ended at (= accepted - finished so far).
func (o *poolObs) counts() (accepted, finished int, bad string) {
	o.mu.Lock()
	defer o.mu.Unlock()
	cur := 0
	for i, t := range o.tr {
		if t.Old != cur && bad == "" {
			bad = fmt.Sprintf("transition %d reports old=%d but accepted-finished so far is %d", i, t.Old, cur)
		}
		switch t.New - t.Old {
		case 1:
			accepted++
		case -1:
			finished++
		default:
			if bad == "" {
				bad = fmt.Sprintf("transition %d is %d->%d", i, t.Old, t.New)
			}
		}
		cur = t.New
		if cur != accepted-finished && bad == "" {
			bad = fmt.Sprintf("after transition %d counter=%d but accepted-finished=%d", i, cur, accepted-finished)
		}
		if cur < 0 && bad == "" {
			bad = fmt.Sprintf("counter negative (%d) at transition %d", cur, i)
		}
	}
	return
}

// pendingAt returns accepted-finished over the transitions logged before tick t (0 if t==0).
func (o *poolObs) pendingAt(t uint64) (n int) {
	if t == 0 {
		return 0
	}
	o.mu.Lock()
	defer o.mu.Unlock()
	for _, tr := range o.tr {
		if tr.Tick < t {
			n += tr.New - tr.Old
		}
	}
	return
}

// ---------------------------------------------------------------- structural pattern of a pool's goroutines

// poolPattern describes where the pool's own goroutines sit. No rule depends on
// an unexported hive.go identifier NOR on the primitive a goroutine waits on:
//   - a pool goroutine is one the harness did not create whose outermost frame lies in package workerpool;
//   - it is "in a task" if the harness' own task closure (main.*) is on its stack;
//   - the dispatcher is recognised, where possible, by the EXPORTED operations only it performs
//     (Stack.PopOrWait, Counter.WaitIsZero/WaitIsBelow, IsRunning outside a task) while it is parked in ANY
//     blocking wait (gdump.Parked); this only chooses descriptive labels / fingerprints;
//   - every verdict uses counts only: pool goroutines in total, in tasks, idle (neither).
//
// Whether a park is permanent is decided by the model and by structural quiescence, never by the primitive.
type poolPattern struct {
	Dispatcher string // gone (no pool goroutine left) | unidentified | WaitIsBelow | PopOrWait.Wait | PopOrWait.gate | IsRunning.RLock
	Idle       int    // parked pool goroutines that are neither in a task nor identified as dispatcher
	InTask     int    // workers inside a harness task closure
	Other      int    // pool goroutines that are not parked (running, runnable, ...)
	NDisp      int    // dispatcher goroutines identified (several pools)
	StartWaits bool   // a goroutine is parked inside WorkerPool.Start
	RLockers   int    // goroutines parked inside WorkerPool.IsRunning
}

func (p poolPattern) String() string {
	s := fmt.Sprintf("dispatcher=%s workers{idle:%d inTask:%d}", p.Dispatcher, p.Idle, p.InTask)
	if p.Other > 0 {
		s += fmt.Sprintf(" other:%d", p.Other)
	}
	if p.StartWaits {
		s += fmt.Sprintf(" Start()=parked; %d goroutine(s) parked in IsRunning()", p.RLockers)
	}
	return s
}

// total number of pool goroutines identified.
func (p poolPattern) total() int { return p.Idle + p.InTask + p.Other + p.NDisp }

func idSet(gs []gdump.G) map[uint64]bool {
	m := make(map[uint64]bool, len(gs))
	for _, g := range gs {
		m[g.ID] = true
	}
	return m
}

const pkgWP, pkgSU = "hive.go/runtime/workerpool.", "hive.go/runtime/syncutils."

// isPoolGoroutine: created by the pool itself (outermost frame in package workerpool).
func isPoolGoroutine(g gdump.G) bool {
	return len(g.Frames) > 0 && strings.Contains(g.Frames[len(g.Frames)-1], pkgWP)
}

func inHarnessTask(g gdump.G) bool {
	for _, f := range g.Frames {
		if strings.HasPrefix(f, "main.") {
			return true
		}
	}
	return false
}

func patternOf(gs []gdump.G, before map[uint64]bool) poolPattern {
	p := poolPattern{Dispatcher: "gone"}
	for _, g := range gs {
		if before != nil && before[g.ID] {
			continue
		}
		parked := trulyParked(g)
		if parked && g.Has(pkgWP+"(*WorkerPool).Start") {
			p.StartWaits = true
		}
		if parked && g.Has(pkgWP+"(*WorkerPool).IsRunning") {
			p.RLockers++
		}
		if !isPoolGoroutine(g) {
			continue
		}
		switch {
		case g.Has("(*Stack[...]).PopOrWait") && g.Has("main.hook"):
			p.Dispatcher = "PopOrWait.gate"
			p.NDisp++
		case inHarnessTask(g):
			p.InTask++
		case !parked:
			p.Other++
		case g.Has(pkgSU + "(*Counter).WaitIsZero"), g.Has(pkgSU + "(*Counter).WaitIsBelow"):
			p.Dispatcher = "WaitIsBelow"
			p.NDisp++
		case g.Has("(*Stack[...]).PopOrWait"):
			p.Dispatcher = "PopOrWait.Wait"
			p.NDisp++
		case g.Has(pkgWP + "(*WorkerPool).IsRunning"):
			p.Dispatcher = "IsRunning.RLock"
			p.NDisp++
		default:
			p.Idle++
		}
	}
	if p.Dispatcher == "gone" && p.total() > 0 {
		p.Dispatcher = "unidentified"
	}
	return p
}

// blind reports why the structural rules do not see a freshly started, idle
// pool the way they must (workers+1 parked pool goroutines, none in a task);
// "" if they do. A run in which they do not is INCONCLUSIVE, never a violation.
func blind(p poolPattern, workers int) string {
	if p.total() != workers+1 || p.InTask != 0 || p.Other != 0 || p.NDisp > 1 {
		return fmt.Sprintf("structural rules identify %q instead of %d parked pool goroutines (1 dispatcher + %d idle workers) right after Start (hive.go internals changed shape?)", p.String(), workers+1, workers)
	}
	return ""
}

// ---------------------------------------------------------------- outcome and classification

// outcome is what the oracle sees at structural quiescence.
type outcome struct {
	Reached             bool   `json:"gate_reached"`
	ShutdownCalled      bool   `json:"shutdown_called"`
	ShutdownReturned    bool   `json:"shutdown_returned"`
	WaitReturned        bool   `json:"wait_returned"`
	Accepted            int    `json:"accepted"`
	Finished            int    `json:"finished"`
	Ran                 int    `json:"ran"`
	MaxRuns             int    `json:"max_runs_of_one_task"`
	Counter             int    `json:"counter"`
	Queue               int    `json:"queue"`
	CancelOpt           bool   `json:"cancel_option"`
	ChainBad            string `json:"chain_inconsistency,omitempty"`
	StartedAfter        int    `json:"tasks_started_after_wait_return"`
	PendingAtWaitReturn int    `json:"pending_when_wait_returned"`     // gated schedules only
	StartStuck          string `json:"start_never_returned,omitempty"` // "" | before-shutdown-complete | after-shutdown-complete
	Pattern             string `json:"pattern"`
	pat                 poolPattern
}

type finding struct {
	FP   string
	What string
}

// classify turns an outcome into zero or more findings. The fingerprints are
// class names; the same classification is used for gated schedules, stress
// runs and dumps written by the Go runtime's dead-lock detector.
func classify(o outcome) []finding {
	var out []finding
	add := func(fp, f string, a ...any) { out = append(out, finding{fp, fmt.Sprintf(f, a...)}) }
	if o.MaxRuns > 1 {
		add("task-ran-more-than-once", "a task ran %d times", o.MaxRuns)
	}
	if o.ChainBad != "" {
		add("pending-counter-inconsistent", "PendingTasksCounter transitions: %s", o.ChainBad)
	}
	if o.StartStuck != "" {
		if o.StartStuck == "before-shutdown-complete" && o.pat.StartWaits && o.pat.RLockers > 0 {
			add("shutdown-then-start/start-holds-pool-mutex-while-waiting-for-shutdown",
				"Shutdown(); Start() while the shutdown is still draining never returns: Start holds the pool mutex while it waits for ShutdownComplete, but the dispatcher (and any task calling Submit) needs that mutex in IsRunning() to finish the shutdown (%s, counter=%d queue=%d)", o.Pattern, o.Counter, o.Queue)
			return out
		}
		if !o.pat.StartWaits {
			add("shutdown-then-start/start-never-returns-"+o.StartStuck, "Start() is parked for ever at structural quiescence (%s, counter=%d queue=%d)", o.Pattern, o.Counter, o.Queue)
			return out
		}
		// Start legitimately waits for a shutdown that never completes: judge that shutdown
		o.ShutdownCalled, o.ShutdownReturned, o.WaitReturned = true, true, false
	}
	if o.ShutdownCalled && !o.ShutdownReturned {
		add("shutdown-call-never-returns", "Shutdown() is parked for ever at structural quiescence (%s)", o.Pattern)
		return out
	}
	if o.ShutdownCalled && !o.WaitReturned {
		switch {
		case o.pat.Dispatcher == "WaitIsBelow" && o.Queue > 0:
			add("submit-vs-shutdown/shutdown-hangs-task-queued-after-dispatcher-loop",
				"Shutdown(); ShutdownComplete.Wait() never returns: dispatcher has left its loop and waits in PendingTasksCounter.WaitIsZero (counter=%d) while %d accepted task(s) sit in Queue, workers wait in handleShutdown (%s)", o.Counter, o.Queue, o.Pattern)
		case o.pat.Dispatcher == "PopOrWait.Wait":
			add("shutdown-vs-dispatcher/lost-wakeup-in-popOrWait",
				"Shutdown(); ShutdownComplete.Wait() never returns: dispatcher is parked in Stack.PopOrWait (sync.Cond.Wait) although the pool is no longer running – the SignalShutdown broadcast was lost (%s)", o.Pattern)
		case o.pat.Dispatcher == "WaitIsBelow":
			add("shutdown-hangs/dispatcher-waits-for-counter-queue-empty",
				"Shutdown(); ShutdownComplete.Wait() never returns: dispatcher waits for PendingTasksCounter (=%d) with an empty Queue (%s)", o.Counter, o.Pattern)
		default:
			add("shutdown-hangs/other", "Shutdown(); ShutdownComplete.Wait() never returns (%s, counter=%d queue=%d)", o.Pattern, o.Counter, o.Queue)
		}
		return out
	}
	if o.PendingAtWaitReturn > 0 {
		add("shutdown-complete-while-accepted-task-pending", "ShutdownComplete.Wait() returned while PendingTasksCounter was %d: the dispatcher closed the dispatch channel without waiting for accepted tasks", o.PendingAtWaitReturn)
	}
	// pool terminated (or was never shut down): conservation at quiescence
	if o.Counter != o.Accepted-o.Finished {
		add("pending-counter-inconsistent", "counter=%d but accepted-finished=%d", o.Counter, o.Accepted-o.Finished)
	}
	if o.Accepted != o.Finished {
		if o.ShutdownCalled && o.pat.Dispatcher == "gone" && o.Queue == o.Accepted-o.Finished {
			add("submit-vs-shutdown/task-queued-after-dispatcher-exit",
				"pool terminated (ShutdownComplete.Wait returned, dispatcher gone) but %d accepted task(s) were counted and queued afterwards: never run, never cancelled, PendingTasksCounter stays %d, Queue.Size()=%d", o.Accepted-o.Finished, o.Counter, o.Queue)
		} else {
			add("accepted-task-neither-run-nor-cancelled", "at quiescence accepted=%d finished=%d ran=%d counter=%d queue=%d (%s)", o.Accepted, o.Finished, o.Ran, o.Counter, o.Queue, o.Pattern)
		}
	}
	if o.Finished < o.Ran {
		add("pending-counter-inconsistent", "finished=%d < ran=%d", o.Finished, o.Ran)
	}
	if c := o.Finished - o.Ran; c > 0 && !o.CancelOpt {
		add("task-cancelled-without-cancel-option", "%d task(s) were marked done without running although cancel-on-shutdown is off", c)
	}
	if o.StartedAfter > 0 {
		add("task-started-after-shutdown-complete", "%d task(s) started after ShutdownComplete.Wait() had returned and before Start", o.StartedAfter)
	}
	return out
}

// patternKey strips numbers from a pattern (for distinct-counting).
func patternKey(p poolPattern) string {
	var parts []string
	parts = append(parts, "d="+p.Dispatcher)
	if p.Idle > 0 {
		parts = append(parts, "idle")
	}
	if p.InTask > 0 {
		parts = append(parts, "task")
	}
	sort.Strings(parts[1:])
	return strings.Join(parts, ",")
}
