// C16 – WorkerPool conserves tasks and always shuts down; Group.WaitChildren.
//
// Oracles: (1) deterministic gated schedules at the verif yield points of
// WorkerPool.Submit and Stack.PopOrWait, sequenced and judged at structural
// quiescence (goroutine snapshots, no stopwatch) and confirmed by the Go
// runtime's dead-lock detector in timer-free plain-build children; (2) group
// trees with harness-gated tasks: WaitChildren parked exactly while something
// below is pending; (3) jittered stress (plain and -race) with the conservation
// oracle accepted = ran + cancelled, run<=1, counter chain, nothing runs after
// ShutdownComplete.Wait.
package main

import (
	"encoding/json"
	"fmt"
	"os"
	"runtime"
	"sort"
	"strconv"
	"strings"
	"sync"
	"time"

	"verif/harness/internal/gdump"
	"verif/harness/internal/vf"
)

type replayRec struct {
	Mode   string          `json:"mode"` // gated | group | stress | race
	Gated  *gatedCfg       `json:"gated,omitempty"`
	Group  *groupCfg       `json:"group,omitempty"`
	Stress *stressCfg      `json:"stress,omitempty"`
	RC     *rcCfg          `json:"rcycle,omitempty"`
	Disc   *discCfg        `json:"disc,omitempty"`
	Detail json.RawMessage `json:"detail,omitempty"`
}

func detail(v any) json.RawMessage { b, _ := json.Marshal(v); return b }

func atoi(s string) int { n, _ := strconv.Atoi(s); return n }

// ---------------------------------------------------------------- children

func reportGated(c *vf.Ctx, r gatedResult) {
	c.Count("evaluations", 1)
	c.Count("gated_schedules", 1)
	if r.Inconcl != "" {
		c.Count("gate_not_reached", 1)
		c.Inconclusive("gated schedule " + r.Cfg.key() + ": " + r.Inconcl)
		return
	}
	for _, cl := range workerClasses(r.Cfg.Workers) {
		c.Count("gated_workers_class:"+cl, 1)
	}
	if r.Cfg.Kind == "options" {
		c.Count("schedules:options", 1)
		c.Count("option_histories:"+r.Cfg.Variant, 1)
		c.Count("rejected_submits", r.RejectedSubmits)
		c.Count("recovered_submit_panics", r.RecoveredPanics)
		if r.Cfg.PanicOpt {
			c.Count("schedules_with_panic_on_submit_option", 1)
		}
	}
	if r.Cfg.Kind == "watchers" || r.Cfg.Kind == "cstart" {
		c.Count("schedules:"+r.Cfg.Kind, 1)
		if r.Cfg.Kind == "cstart" {
			c.Count("concurrent_start_schedules:"+r.Cfg.Variant, 1)
		}
	}
	if r.Cfg.Kind == "allbusy" && r.AllBusy {
		for _, cl := range workerClasses(r.Cfg.Workers) {
			c.Count("allbusy_at_shutdown:"+cl, 1)
		}
		if r.Workers > 2*runtime.NumCPU() {
			c.Count("allbusy_at_shutdown_workers_gt_2ncpu", 1)
			if r.Cfg.Callback != "counter" {
				c.Count("allbusy_at_shutdown_workers_gt_2ncpu_tasks_call_pool", 1)
			}
		}
	}
	if r.Cfg.Kind == "restart-nowait" || r.Cfg.Restart {
		for _, cl := range workerClasses(r.Cfg.Workers) {
			c.Count("restart_schedules:"+cl, 1)
		}
	}
	if r.Cfg.Point != "" {
		c.Count("gated_windows_entered", 1)
		c.Count("window:"+r.Cfg.Point, 1)
	}
	oc := "held"
	if len(r.Findings) > 0 {
		oc = r.Findings[0].FP
	}
	c.Distinct("nontrivial", r.Cfg.key())
	c.Distinct("gated_outcome_classes", r.Cfg.Kind+"/"+r.Cfg.Point+"/"+oc)
	c.Count("tasks_accepted", r.Out.Accepted)
	c.Count("tasks_ran", r.Out.Ran)
	c.Count("tasks_cancelled", r.Out.Finished-r.Out.Ran)
	if r.Out.ShutdownCalled && !r.Out.WaitReturned {
		c.Count("hangs_decided_structurally", 1)
	}
	if len(r.Findings) == 0 && c.WantSample() && r.Cfg.Point != "" {
		c.Sample(map[string]any{"gated": r.Cfg, "steps": r.Steps})
	}
	for _, f := range r.Findings {
		c.Emit("gatedviol", map[string]any{"fp": f.FP, "cfg": r.Cfg})
		c.Violation(f.FP, f.What+" [schedule "+r.Cfg.key()+"]", replayRec{Mode: "gated", Gated: &r.Cfg, Detail: detail(r)})
	}
}

func reportGroup(c *vf.Ctx, r groupResult) {
	c.Count("evaluations", 1)
	c.Count("group_scenarios", 1)
	c.Count("group_observer_subscribes", r.ObsSubs)
	c.Count("group_observer_unsubscribes", r.ObsUnsubs)
	if r.Cfg.Idx%2 == 1 {
		c.Count("group_scenarios_concurrent_creation", 1)
	}
	c.Count("group_wait_checks", r.Checks)
	c.Count("group_pools_shut_down_individually_before_group_shutdown", r.IndivStopped)
	c.Count("group_shutdowns_over_stopped_and_running_pools", r.MixedShutdowns)
	c.Count("group_pools_verified_stopped_after_group_shutdown", r.StoppedByGroup)
	c.Count("group_subgroups_shut_down_before_the_root", r.SubgroupShutdowns)
	c.Count("group_wait_parked_observations", r.Parked)
	c.Count("group_wait_returned_observations", r.Returned)
	c.Distinct("nontrivial", "group/"+r.Tree)
	seen := map[string]bool{}
	for _, f := range r.Findings {
		if seen[f.FP] {
			continue
		}
		seen[f.FP] = true
		c.Violation(f.FP, f.What+" [tree "+r.Tree+"]", replayRec{Mode: "group", Group: &r.Cfg, Detail: detail(r)})
	}
}

func reportRC(c *vf.Ctx, r rcResult) {
	c.Count("evaluations", 1)
	c.Count("rc_scenarios", 1)
	if r.Inconcl != "" {
		c.Inconclusive("restart-cycle scenario " + r.Cfg.key() + ": " + r.Inconcl)
		return
	}
	if r.Cfg.Conc {
		c.Count("rc_scenarios_concurrent_drain", 1)
	}
	c.Distinct("nontrivial", r.Cfg.key())
	c.Distinct("rc_combo", r.Cfg.combo())
	c.Count("rc_restart_cycles", r.Cycles)
	for k, v := range r.RestartVia {
		c.Count("rc_restart_via:"+k, v)
	}
	for k, v := range r.ShutdownMode {
		c.Count("rc_shutdown_mode:"+k, v)
	}
	c.Count("rc_shutdowns_with_busy_worker", r.BusyAtShutdown)
	c.Count("rc_shutdowns_with_every_worker_busy", r.AllBusyShutdown)
	c.Count("rc_crowd_watchers_parked", r.CrowdParked)
	c.Count("rc_cycles_with_crowd", r.CrowdCycles)
	c.Count("rc_wait_observers_parked", r.ObsParked)
	c.Count("rc_wait_observers_returned", r.ObsReturned)
	c.Count("rc_waits_parked_on_shut_down_group", r.ShutGrpParked)
	c.Count("rc_tasks_run_by_restarted_pool", r.StrictTasks)
	c.Count("rc_tasks_run_before_first_shutdown", r.FirstTasks)
	c.Count("rc_submits_on_running_pool_not_accepted", r.Unaccepted)
	c.Count("rc_group_shutdown_returned_while_busy", r.GroupShutEarly)
	c.Count("rc_sibling_pools_shut_down_individually", r.IndivStopped)
	c.Count("rc_group_shutdowns_over_stopped_and_running_pools", r.MixedGroupShutdowns)
	c.Count("rc_pools_verified_stopped_after_group_shutdown", r.StoppedByGroup)
	c.Count("rejected_submits", r.Rejected)
	c.Count("recovered_submit_panics", r.Recovered)
	c.Count("tasks_accepted", r.Accepted)
	c.Count("tasks_ran", r.Ran)
	c.Count("tasks_cancelled", r.Cancelled)
	if len(r.Findings) == 0 && c.WantSample() && r.Cfg.Tree > 0 && !r.Cfg.Conc {
		c.Sample(map[string]any{"rcycle": r.Cfg, "steps": r.Steps})
	}
	for _, f := range r.Findings {
		c.Violation(f.FP, f.What+" [restart-cycle scenario "+r.Cfg.key()+"]", replayRec{Mode: "rcycle", RC: &r.Cfg, Detail: detail(r)})
	}
}

func reportDisc(c *vf.Ctx, r discResult) {
	c.Count("evaluations", 1)
	c.Count("disc_scenarios", 1)
	c.Count("disc_scenarios:"+r.Class, 1)
	for k, v := range r.Counts {
		c.Count(k, v)
	}
	for _, p := range r.Pairs {
		c.Distinct("disc_kind_phase", p)
	}
	if len(r.Findings) == 0 {
		c.Distinct("nontrivial", "disc/"+r.Shape)
		if c.WantSample() && r.Class == "reent" && strings.Contains(r.Shape, "shutdown-waiting") {
			c.Sample(map[string]any{"disc": r.Cfg, "shape": r.Shape, "steps": r.Steps})
		}
	}
	seen := map[string]bool{}
	for _, f := range r.Findings {
		if seen[f.FP] {
			continue
		}
		seen[f.FP] = true
		c.Violation(f.FP, f.What+fmt.Sprintf(" [discipline scenario %d seed %d: %s]", r.Cfg.Idx, r.Cfg.Seed, r.Shape), replayRec{Mode: "disc", Disc: &r.Cfg, Detail: detail(r)})
	}
}

func reportStress(c *vf.Ctx, r stressResult) {
	if r.Blind != "" {
		c.Count("structural_rules_blind", 1)
		c.Inconclusive("stress run " + strconv.Itoa(r.Cfg.Run) + ": " + r.Blind)
		return
	}
	c.Count("evaluations", 1)
	c.Count("stress_runs", 1)
	if r.Cfg.Race {
		c.Count("stress_runs_race_build", 1)
	}
	for _, w := range r.Cfg.Workers {
		for _, cl := range workerClasses(w) {
			c.Count("stress_pools_workers_class:"+cl, 1)
		}
	}
	if r.AllBusyAtShutdown {
		for _, cl := range workerClasses(r.Cfg.Workers[0]) {
			c.Count("stress_allbusy_at_shutdown:"+cl, 1)
		}
		if effWorkers(r.Cfg.Workers[0]) > 2*runtime.NumCPU() {
			c.Count("stress_allbusy_at_shutdown_workers_gt_2ncpu", 1)
		}
	}
	if r.Overlap {
		c.Count("stress_runs_submit_overlapping_shutdown", 1)
		c.Distinct("nontrivial", fmt.Sprintf("stress/%d/%d/%v", r.Cfg.Seed, r.Cfg.Run, r.Cfg.Race))
	}
	c.Count("stress_submit_calls", int(r.Submitted))
	c.Count("stress_recovered_submit_panics", int(r.Recovered))
	c.Count("stress_submits_seen_not_running", int(r.Rejected))
	c.Count("yield_hits:"+ptAfterCheck, int(r.Hits[0]))
	c.Count("yield_hits:"+ptBeforePush, int(r.Hits[1]))
	c.Count("yield_hits:"+ptBeforeWait, int(r.Hits[2]))
	c.Count("group_waits_returned_in_stress", int(r.GrpWaits))
	for _, o := range r.Outcomes {
		c.Count("tasks_accepted", o.Accepted)
		c.Count("tasks_ran", o.Ran)
		c.Count("tasks_cancelled", o.Finished-o.Ran)
		if o.ShutdownCalled && !o.WaitReturned {
			c.Count("hangs_decided_structurally", 1)
		}
	}
	seen := map[string]bool{}
	for _, f := range r.Findings {
		if seen[f.FP] {
			continue
		}
		seen[f.FP] = true
		c.Violation(f.FP, f.What+fmt.Sprintf(" [stress run %d seed %d race=%v]", r.Cfg.Run, r.Cfg.Seed, r.Cfg.Race), replayRec{Mode: "stress", Stress: &r.Cfg, Detail: detail(r)})
	}
}

func child(c *vf.Ctx) {
	installHooks()
	switch c.Child {
	case "gated":
		list := gatedList(c.Rand("gated"), c.Quick())
		lo, hi := atoi(c.ChildArgs[0]), min(atoi(c.ChildArgs[1]), len(list))
		for i := lo; i < hi; i++ {
			c.Mark(list[i].key())
			reportGated(c, runGated(list[i], nil))
		}
	case "gated1", "confirm":
		var cfg gatedCfg
		if err := json.Unmarshal([]byte(c.ChildArgs[0]), &cfg); err != nil {
			fmt.Fprintln(os.Stderr, err)
			os.Exit(3)
		}
		if c.Child == "gated1" {
			reportGated(c, runGated(cfg, nil))
			return
		}
		r := runGated(cfg, func(o outcome, steps []string) {
			c.Emit("preblock", map[string]any{"outcome": o, "steps": steps})
		})
		// only reached when the main goroutine came back
		c.Emit("confirm-returned", r.Out)
		reportGated(c, r)
	case "group":
		lo, hi := atoi(c.ChildArgs[0]), atoi(c.ChildArgs[1])
		for i := lo; i < hi; i++ {
			c.Mark(fmt.Sprintf("group %d", i))
			reportGroup(c, runGroup(groupCfg{Seed: c.Seed, Idx: i}))
		}
	case "group1":
		var cfg groupCfg
		json.Unmarshal([]byte(c.ChildArgs[0]), &cfg)
		reportGroup(c, runGroup(cfg))
	case "rcycle":
		list := rcList(c.Seed, c.Quick())
		lo, hi := atoi(c.ChildArgs[0]), min(atoi(c.ChildArgs[1]), len(list))
		for i := lo; i < hi; i++ {
			c.Mark(list[i].key())
			reportRC(c, runRC(list[i]))
		}
	case "rcycle1":
		var cfg rcCfg
		json.Unmarshal([]byte(c.ChildArgs[0]), &cfg)
		for k := 0; k < 20; k++ { // the drain races are free-running: repeat the recorded scenario
			r := runRC(cfg)
			reportRC(c, r)
			if len(r.Findings) > 0 {
				break
			}
		}
	case "disc":
		lo, hi := atoi(c.ChildArgs[0]), atoi(c.ChildArgs[1])
		bad := 0
		for i := lo; i < hi && bad < 3; i++ { // a hang leaves parked goroutines behind: a few findings are enough
			c.Mark(fmt.Sprintf("disc %d", i))
			r := runDisc(discCfg{Seed: c.Seed, Idx: i})
			reportDisc(c, r)
			if len(r.Findings) > 0 {
				bad++
			}
		}
	case "disc1":
		var cfg discCfg
		json.Unmarshal([]byte(c.ChildArgs[0]), &cfg)
		reportDisc(c, runDisc(cfg))
	case "taskpanic":
		runTaskPanicChild(c, atoi(c.ChildArgs[0]))
	case "stress":
		lo, hi, race := atoi(c.ChildArgs[0]), atoi(c.ChildArgs[1]), c.ChildArgs[2] == "race"
		for i := lo; i < hi; i++ {
			cfg := genStress(c.Seed, i, race)
			c.Mark(string(detail(cfg)))
			reportStress(c, runStress(cfg))
			if i%50 == 49 {
				c.FlushStats()
			}
		}
	case "stress1":
		var cfg stressCfg
		json.Unmarshal([]byte(c.ChildArgs[0]), &cfg)
		for k := 0; k < 20; k++ { // free-running: repeat the recorded case
			reportStress(c, runStress(cfg))
		}
	}
}

// ---------------------------------------------------------------- parent

// outcomeFromDump rebuilds an outcome from a dump written by the runtime's
// dead-lock detector (or SIGQUIT) plus the state the child emitted before its
// main goroutine blocked.
func outcomeFromDump(stderr string, pre *outcome) (outcome, bool) {
	i := strings.Index(stderr, "goroutine ")
	if i < 0 {
		return outcome{}, false
	}
	gs := gdump.Parse(stderr[i:])
	if len(gs) == 0 {
		return outcome{}, false
	}
	var o outcome
	if pre != nil {
		o = *pre
	}
	o.ShutdownCalled = true
	o.ShutdownReturned, o.WaitReturned = true, true
	for _, g := range gs {
		if g.Has(pkgWP + "(*WorkerPool).Shutdown") {
			o.ShutdownReturned = false
		}
		// the harness' own direct call pool.ShutdownComplete.Wait() (exported sync.WaitGroup field) on the main
		// goroutine, or any goroutine parked inside the exported Start
		if ownWaitGroupWait(g) || (g.Parked() && g.Has(pkgWP+"(*WorkerPool).Start")) {
			o.WaitReturned = false
		}
	}
	o.pat = patternOf(gs, nil)
	o.Pattern = o.pat.String()
	return o, true
}

// ownWaitGroupWait: sync.(*WaitGroup).Wait called DIRECTLY by the harness (next frame is main.runGated / main.runStress).
func ownWaitGroupWait(g gdump.G) bool {
	for i, f := range g.Frames {
		if f == "sync.(*WaitGroup).Wait" && i+1 < len(g.Frames) && (strings.HasPrefix(g.Frames[i+1], "main.runGated") || strings.HasPrefix(g.Frames[i+1], "main.runStress")) {
			return true
		}
	}
	return false
}

func allParked(stderr string) bool {
	i := strings.Index(stderr, "goroutine ")
	if i < 0 {
		return false
	}
	gs := gdump.Parse(stderr[i:])
	if len(gs) == 0 {
		return false
	}
	for _, g := range gs {
		if !g.Parked() && !strings.HasPrefix(g.State, "GC ") && !strings.Contains(g.State, "finalizer") && !g.Has("os/signal.") && !g.Has("runtime.ensureSigM") {
			return false
		}
	}
	return true
}

func isInside(fn string) bool {
	return strings.Contains(fn, "hive.go/runtime/workerpool") || strings.Contains(fn, "hive.go/runtime/syncutils")
}

// raceOwners returns, for the two access stacks of a report, the innermost
// frame that is not Go runtime / sync / container code.
func raceOwners(text string) []string {
	head := text
	if i := strings.Index(text, "\nGoroutine "); i >= 0 {
		head = text[:i]
	}
	var owners []string
	for _, blk := range strings.Split(head, "\n\n") {
		lines := strings.Split(blk, "\n")
		isAccess := false
		for _, l := range lines {
			t := strings.TrimSpace(l)
			if strings.HasPrefix(t, "Read at") || strings.HasPrefix(t, "Write at") || strings.HasPrefix(t, "Previous read at") || strings.HasPrefix(t, "Previous write at") ||
				strings.HasPrefix(t, "Atomic") || strings.HasPrefix(t, "Previous atomic") {
				isAccess = true
			}
		}
		if !isAccess {
			continue
		}
		owner := ""
		for _, l := range lines {
			if !strings.HasPrefix(l, "  ") || strings.HasPrefix(l, "   ") {
				continue
			}
			fn := strings.TrimSpace(l)
			if j := strings.LastIndexByte(fn, '('); j > 0 {
				fn = fn[:j]
			}
			if strings.HasPrefix(fn, "runtime.") || strings.HasPrefix(fn, "sync.") || strings.HasPrefix(fn, "sync/atomic.") || strings.HasPrefix(fn, "container/") || strings.HasPrefix(fn, "internal/") {
				continue
			}
			owner = fn
			break
		}
		owners = append(owners, owner)
	}
	return owners
}

var raceMu sync.Mutex
var raceSeen = map[string]bool{}

func reportRaces(c *vf.Ctx, rs []vf.RaceReport) {
	for _, r := range rs {
		c.Count("race_reports", 1)
		ow := raceOwners(r.Text)
		for i := range ow {
			ow[i] = stripGenerics(ow[i])
		}
		sort.Strings(ow)
		key := strings.Join(ow, " <-> ")
		raceMu.Lock()
		dup := raceSeen[key]
		raceSeen[key] = true
		raceMu.Unlock()
		if dup {
			continue
		}
		txt := r.Text
		if len(txt) > 6000 {
			txt = txt[:6000]
		}
		switch {
		case len(ow) == 2 && isInside(ow[0]) && isInside(ow[1]):
			c.Violation("race:"+ow[0]+" <-> "+ow[1], "data race with both access stacks inside workerpool/syncutils: "+key, replayRec{Mode: "race", Detail: detail(map[string]string{"report": txt})})
		case len(ow) == 2 && (strings.HasPrefix(ow[0], "main.") && strings.HasPrefix(ow[1], "main.")):
			c.Inconclusive("data race inside the harness itself: " + key)
		default:
			c.Note("race not (provably) between two workerpool/syncutils operations: " + key)
		}
	}
}

func stripGenerics(s string) string {
	for {
		i := strings.Index(s, "[")
		j := strings.Index(s, "]")
		if i < 0 || j < i {
			return s
		}
		s = s[:i] + s[j+1:]
	}
}

type gviol struct {
	FP  string   `json:"fp"`
	Cfg gatedCfg `json:"cfg"`
}

func run(c *vf.Ctx) {
	installHooks()
	if c.Replay != "" {
		var r replayRec
		if err := c.LoadReplay(&r); err != nil {
			fmt.Fprintln(os.Stderr, err)
			os.Exit(3)
		}
		switch r.Mode {
		case "gated":
			b, _ := json.Marshal(r.Gated)
			res := runChild(c, vf.ChildOpts{Name: "gated1", Args: []string{string(b)}, Timeout: time.Minute})
			if res.TimedOut {
				c.Inconclusive("replay child timed out")
			}
		case "group":
			b, _ := json.Marshal(r.Group)
			runChild(c, vf.ChildOpts{Name: "group1", Args: []string{string(b)}, Timeout: time.Minute})
		case "rcycle":
			b, _ := json.Marshal(r.RC)
			res := runChild(c, vf.ChildOpts{Name: "rcycle1", Args: []string{string(b)}, Timeout: 3 * time.Minute})
			if res.TimedOut || res.ExitCode != 0 {
				childDied(c, "rcycle replay child", res)
			}
		case "stress":
			b, _ := json.Marshal(r.Stress)
			res := runChild(c, vf.ChildOpts{Name: "stress1", Args: []string{string(b)}, Race: r.Stress.Race, Timeout: 3 * time.Minute})
			reportRaces(c, res.Races)
		case "disc":
			b, _ := json.Marshal(r.Disc)
			res := runChild(c, vf.ChildOpts{Name: "disc1", Args: []string{string(b)}, Timeout: time.Minute})
			if res.TimedOut || res.ExitCode != 0 {
				childDied(c, "discipline replay child", res)
			}
		case "race":
			lo := 0
			res := runChild(c, vf.ChildOpts{Name: "stress", Args: []string{strconv.Itoa(lo), "60", "race"}, Race: true, Timeout: 5 * time.Minute})
			reportRaces(c, res.Races)
		}
		return
	}
	c.SetRule("evaluations = gated schedules + group scenarios + stress runs. A gated schedule is one point of {kind: Submit window / dispatcher PopOrWait window / drain} x yield point x workers 1-4 x cancel-on-shutdown x preloaded running/queued tasks x release order x Submit-from-task x restart (thorough: whole space, quick: every core combination + seeded sample); it counts as non-trivial only if the gated goroutine was observed parked at the yield point (else the run is INCONCLUSIVE). Group scenarios are seeded trees (1-5 groups, 2-4 pools, gated tasks incl. tasks submitting tasks); every quiescent point checks every waiter. A stress run is non-trivial if at least one Submit call interval overlapped a Shutdown call interval (logical ticks). A restart-cycle scenario is one point of worker-count class x cancel-on-shutdown x panic-on-submit x tree shape (stand-alone, group chains of depth 1-3 with a sibling pool) x scripted/concurrent drain, with seeded 2-4 Shutdown->Start cycles, shutdown mode (pool.Shutdown with busy workers, Shutdown();Start(), Group.Shutdown of an ancestor), restart mode (Start, CreatePool same/new name), crowd size and gate order. A discipline scenario (disc.go) is one point of class {re-entrant task, self-wait probe, re-entrant subscriber/option, failing user code then further use, held results} x tree depth 0-3 x phase {running, ShutdownComplete.Wait / Start / own Group.Shutdown / ancestor Group.Shutdown parked on exactly the gated task} x 0-2 restart cycles x leading call kind (22 kinds, every kind leads in every phase and depth), 1-4 seeded calls per task; non-trivial if the task's calls all returned and the waiter was seen parked.")

	var wg sync.WaitGroup
	var mu sync.Mutex
	var gviols []gviol
	sem := make(chan struct{}, 12)
	spawn := func(f func()) {
		wg.Add(1)
		go func() {
			sem <- struct{}{}
			defer func() { <-sem; wg.Done() }()
			f()
		}()
	}

	// ---- gated schedules
	reps := c.Pick(1, 4)
	list := gatedList(c.Rand("gated"), c.Quick())
	const chunk = 40
	for rep := 0; rep < reps; rep++ {
		for lo := 0; lo < len(list); lo += chunk {
			lo := lo
			spawn(func() {
				res := runChild(c, vf.ChildOpts{Name: "gated", Args: []string{strconv.Itoa(lo), strconv.Itoa(lo + chunk)}, Timeout: 15 * time.Minute})
				if res.TimedOut || res.ExitCode != 0 {
					childDied(c, fmt.Sprintf("gated child [%d,%d)", lo, lo+chunk), res)
				}
				mu.Lock()
				for _, r := range res.Records {
					if r.Kind == "gatedviol" {
						var g gviol
						if json.Unmarshal(r.V, &g) == nil {
							gviols = append(gviols, g)
						}
					}
				}
				mu.Unlock()
			})
		}
	}
	wg.Wait() // gated schedules first: their (deterministic) replay files are the ones kept per fingerprint
	// ---- group scenarios
	nGroup := c.Pick(1200, 12000)
	for lo := 0; lo < nGroup; lo += 100 {
		lo := lo
		spawn(func() {
			res := runChild(c, vf.ChildOpts{Name: "group", Args: []string{strconv.Itoa(lo), strconv.Itoa(min(lo+100, nGroup))}, Timeout: 15 * time.Minute})
			if res.TimedOut || res.ExitCode != 0 {
				childDied(c, fmt.Sprintf("group child [%d..)", lo), res)
			}
		})
	}
	// ---- workload disciplines (disc.go): re-entrant tasks / subscribers / options, failing user code, held results
	nDisc := c.Pick(2000, 20000)
	for lo := 0; lo < nDisc; lo += 200 {
		lo := lo
		spawn(func() {
			res := runChild(c, vf.ChildOpts{Name: "disc", Args: []string{strconv.Itoa(lo), strconv.Itoa(min(lo+200, nDisc))}, Timeout: 15 * time.Minute})
			if res.TimedOut || res.ExitCode != 0 {
				childDied(c, fmt.Sprintf("discipline child [%d..)", lo), res)
			}
		})
	}
	for i := 0; i < c.Pick(6, 24); i++ {
		i := i
		spawn(func() { runTaskPanicParent(c, i) })
	}
	wg.Wait() // group scenarios (their concurrent-creation half is timing sensitive) before the CPU-heavy stress children
	discNotes(c)
	c.Count("disc_kind_phase_pairs", c.DistinctCount("disc_kind_phase"))
	// ---- restart cycles with crowds of watchers and every exported Wait* as observer
	nRC := len(rcList(c.Seed, c.Quick()))
	const rcChunk = 12
	for lo := 0; lo < nRC; lo += rcChunk {
		lo := lo
		spawn(func() {
			res := runChild(c, vf.ChildOpts{Name: "rcycle", Args: []string{strconv.Itoa(lo), strconv.Itoa(lo + rcChunk)}, Timeout: 15 * time.Minute})
			if res.TimedOut || res.ExitCode != 0 {
				childDied(c, fmt.Sprintf("rcycle child [%d..)", lo), res)
			}
		})
	}
	wg.Wait()
	c.Count("rc_option_combinations", c.DistinctCount("rc_combo"))
	// ---- stress, plain and -race
	stress := func(n, per int, race bool) {
		for lo := 0; lo < n; lo += per {
			lo := lo
			spawn(func() {
				mode := "plain"
				if race {
					mode = "race"
				}
				res := runChild(c, vf.ChildOpts{Name: "stress", Args: []string{strconv.Itoa(lo), strconv.Itoa(min(lo+per, n)), mode}, Race: race, Timeout: 20 * time.Minute})
				reportRaces(c, res.Races)
				switch {
				case res.Deadlock:
					// every goroutine asleep while the harness main waits for submitters: decided by the runtime
					o, ok := outcomeFromDump(res.Stderr, nil)
					fs := classify(o)
					if !ok || len(fs) == 0 {
						fs = []finding{{"stress-deadlock/other", "Go runtime: all goroutines are asleep during a stress run (" + o.Pattern + ")"}}
					}
					c.Count("deadlocks_decided_by_runtime", 1)
					c.Violation(fs[0].FP, fs[0].What+" [stress child died at "+res.LastMark+"]", replayRec{Mode: "stress", Detail: detail(map[string]string{"mark": res.LastMark, "dump": trunc(res.Stderr, 20000)})})
				case res.TimedOut && allParked(res.Stderr):
					o, _ := outcomeFromDump(res.Stderr, nil)
					fs := classify(o)
					if len(fs) == 0 {
						fs = []finding{{"stress-deadlock/other", "every goroutine of the stress child is parked (" + o.Pattern + ")"}}
					}
					c.Violation(fs[0].FP, fs[0].What+" [stress child parked at "+res.LastMark+"]", replayRec{Mode: "stress", Detail: detail(map[string]string{"mark": res.LastMark, "dump": trunc(res.Stderr, 20000)})})
				case res.TimedOut || res.ExitCode != 0:
					childDied(c, fmt.Sprintf("stress child [%d..) race=%v", lo, race), res)
				}
			})
		}
	}
	stress(c.Pick(1500, 50000), c.Pick(125, 200), false)
	stress(c.Pick(400, 8000), c.Pick(50, 100), true)
	wg.Wait()

	// ---- confirmation of hang-type gated verdicts by the Go runtime's dead-lock detector
	byFP := map[string][]gatedCfg{}
	for _, g := range gviols {
		if len(byFP[g.FP]) < c.Pick(2, 6) && !g.Cfg.Restart {
			byFP[g.FP] = append(byFP[g.FP], g.Cfg)
		}
	}
	for fp, cfgs := range byFP {
		if !strings.HasPrefix(fp, "submit-vs-shutdown/") && !strings.HasPrefix(fp, "shutdown-vs") && !strings.HasPrefix(fp, "shutdown-hangs") {
			continue
		}
		for _, cfg := range cfgs {
			fp, cfg := fp, cfg
			spawn(func() {
				b, _ := json.Marshal(cfg)
				var res vf.ChildResult
				for try := 0; try < 4 && !res.Deadlock; try++ { // the worker's select between shutdown signal and task is random: a schedule need not hang every time
					res = runChild(c, vf.ChildOpts{Name: "confirm", Args: []string{string(b)}, Timeout: 10 * time.Minute})
				}
				var pre *outcome
				var steps []string
				for _, r := range res.Records {
					if r.Kind == "preblock" {
						var p struct {
							Outcome outcome  `json:"outcome"`
							Steps   []string `json:"steps"`
						}
						if json.Unmarshal(r.V, &p) == nil {
							pre, steps = &p.Outcome, p.Steps
						}
					}
				}
				c.Count("confirm_children", 1)
				if !res.Deadlock {
					if res.ExitCode != 0 || res.TimedOut {
						c.Inconclusive(fmt.Sprintf("confirmation child for %s / %s did not finish (exit=%d timeout=%v %s)", fp, cfg.key(), res.ExitCode, res.TimedOut, res.Fatal))
					} else {
						c.Count("confirm_not_reproduced", 1)
						c.Note(fmt.Sprintf("structural verdict %s for schedule %s did not recur in 4 runtime-detector runs (schedule depends on a random select)", fp, cfg.key()))
					}
					return
				}
				c.Count("deadlocks_confirmed_by_runtime", 1)
				o, ok := outcomeFromDump(res.Stderr, pre)
				if ok && o.WaitReturned && o.ShutdownReturned {
					// main is parked in PendingTasksCounter.WaitIsZero: the pool terminated with a counted task left behind
					o.Finished = o.Accepted - max(o.Counter, 1)
				}
				fs := classify(o)
				if !ok || len(fs) == 0 {
					fs = []finding{{"shutdown-hangs/other", "runtime dead-lock with unclassified pattern " + o.Pattern}}
				}
				c.Violation(fs[0].FP, fs[0].What+" [Go runtime: all goroutines are asleep - deadlock!; schedule "+cfg.key()+"]",
					replayRec{Mode: "gated", Gated: &cfg, Detail: detail(map[string]any{"steps": steps, "runtime_dump": trunc(res.Stderr, 12000)})})
			})
		}
	}
	wg.Wait()

	c.Require("evaluations", c.Pick(2000, 60000))
	c.Require("gated_windows_entered", c.Pick(250, 3000))
	c.Require("schedules:options", 48)
	c.Require("schedules_with_panic_on_submit_option", 24)
	c.Require("recovered_submit_panics", 24)
	c.Require("schedules:watchers", 16)
	c.Require("concurrent_start_schedules:fresh", 8)
	c.Require("concurrent_start_schedules:stopped", 8)
	c.Require("concurrent_start_schedules:draining", 8)
	c.Require("allbusy_at_shutdown_workers_gt_2ncpu", c.Pick(25, 100))
	c.Require("allbusy_at_shutdown_workers_gt_2ncpu_tasks_call_pool", c.Pick(20, 80))
	c.Require("allbusy_at_shutdown:2ncpu", 10)
	c.Require("allbusy_at_shutdown:default", 10)
	c.Require("allbusy_at_shutdown:1-4", 40)
	c.Require("gated_workers_class:above-2ncpu", c.Pick(40, 200))
	c.Require("restart_schedules:above-2ncpu", c.Pick(6, 30))
	c.Require("stress_allbusy_at_shutdown_workers_gt_2ncpu", c.Pick(30, 1500))
	c.Require("stress_pools_workers_class:above-2ncpu", c.Pick(200, 10000))
	c.Require("window:"+ptAfterCheck, 50)
	c.Require("window:"+ptBeforePush, 50)
	c.Require("window:"+ptBeforeWait, 50)
	c.Require("group_wait_parked_observations", 500)
	c.Require("group_observer_unsubscribes", c.Pick(1500, 30000))
	c.Require("group_scenarios_concurrent_creation", c.Pick(500, 5000))
	c.Require("stress_runs_submit_overlapping_shutdown", c.Pick(300, 9000))
	c.Require("stress_runs_race_build", c.Pick(300, 6000))
	c.Require("group_shutdowns_over_stopped_and_running_pools", c.Pick(400, 4000))
	c.Require("group_pools_verified_stopped_after_group_shutdown", c.Pick(2000, 20000))
	c.Require("group_subgroups_shut_down_before_the_root", c.Pick(200, 2000))
	c.Require("rc_group_shutdowns_over_stopped_and_running_pools", c.Pick(50, 300))
	c.Require("rc_pools_verified_stopped_after_group_shutdown", c.Pick(250, 1500))
	c.Require("rc_scenarios", c.Pick(192, 1152))
	c.Require("rc_option_combinations", 96) // 6 worker-count classes x cancel x panic-on-submit x 4 tree shapes
	c.Require("rc_restart_cycles", c.Pick(380, 2300))
	c.Require("rc_restart_via:start", c.Pick(100, 600))
	c.Require("rc_restart_via:start-without-wait", c.Pick(15, 90))
	c.Require("rc_restart_via:createpool-same-name", c.Pick(15, 90))
	c.Require("rc_restart_via:createpool-new-name", c.Pick(15, 90))
	c.Require("rc_shutdown_mode:group", c.Pick(100, 600))
	c.Require("rc_shutdowns_with_every_worker_busy", c.Pick(100, 600))
	c.Require("rc_crowd_watchers_parked", c.Pick(5000, 30000))
	c.Require("rc_waits_parked_on_shut_down_group", c.Pick(300, 1800))
	c.Require("rc_tasks_run_by_restarted_pool", c.Pick(5000, 30000))
	// workload disciplines (disc.go); all counts are fixed by seed and tier, none depends on overlap
	c.Require("disc_scenarios:reent", c.Pick(1300, 13000))
	c.Require("disc_kind_phase_pairs", 180) // 22 call kinds x 10 phases, minus the group calls of stand-alone pools
	for _, k := range dKinds {
		c.Require("disc_reentrant_calls:"+k.name, c.Pick(60, 600))
	}
	for _, p := range discPhases {
		c.Require("disc_reentrant_tasks_phase:"+p, c.Pick(60, 600))
		c.Require("disc_reentrant_tasks_phase:restarted/"+p, c.Pick(25, 250))
	}
	c.Require("disc_waiters_parked_for_reentrant_task_then_returned", c.Pick(500, 5000))
	c.Require("disc_pools_stopped_by_group_shutdown_that_waited_for_reentrant_task", c.Pick(1000, 10000))
	c.Require("disc_restart_cycles:start", c.Pick(100, 1000))
	c.Require("disc_restart_cycles:createpool-same-name", c.Pick(100, 1000))
	c.Require("disc_selfwait_probes", c.Pick(150, 1500))
	c.Require("disc_subscriber_scenarios", c.Pick(150, 1500))
	c.Require("disc_subscriber_reentrant_calls:Group.CreatePool+CreateGroup", c.Pick(150, 1500))
	c.Require("disc_option_reentrant_calls", c.Pick(150, 1500))
	for _, k := range []string{"option-panics-in-CreatePool", "option-panics-in-New", "subscriber-panics-in-Submit", "task-recovers-own-panic", "CreatePool-duplicate-running-name"} {
		c.Require("disc_failing_user_code_followed_by_further_use:"+k, c.Pick(30, 300))
	}
	c.Require("disc_unrecovered_task_panic_children", c.Pick(6, 24))
	c.Require("disc_held_results_rechecked", c.Pick(300, 3000))
	c.Require("disc_held_results_scribbled", c.Pick(80, 800))
	c.Require("disc_held_argument_slices_reused", c.Pick(80, 800))
	c.Require("disc_held_unsubscribe_called_twice", c.Pick(400, 4000))
	c.Require("disc_held_handles_used_after_restart", c.Pick(80, 800))
	c.Assume("a consistent runtime.Stack(all) snapshot in which every goroutine is parked on a sync primitive or channel (twice in a row, timer-free scenario) means no goroutine can ever run again")
	c.Assume("the verif yield points are no-ops apart from blocking/yielding the calling goroutine")
}

// childDied turns an unrecoverable Go panic inside a pool goroutine into a
// violation; anything else that kills a child is inconclusive.
func childDied(c *vf.Ctx, what string, res vf.ChildResult) {
	if strings.HasPrefix(res.Fatal, "panic:") && (strings.Contains(res.Stderr, "hive.go/runtime/workerpool.") || strings.Contains(res.Stderr, "hive.go/runtime/syncutils.")) {
		i := strings.Index(res.Stderr, "panic:")
		first := ""
		for _, l := range strings.Split(res.Stderr[i:], "\n") {
			if strings.Contains(l, "hive.go/runtime/") && !strings.HasPrefix(l, "\t") && !strings.HasPrefix(l, "created by") {
				first = l
				if j := strings.LastIndexByte(first, '('); j > 0 {
					first = first[:j]
				}
				if j := strings.LastIndexByte(first, '/'); j > 0 {
					first = first[j+1:]
				}
				break
			}
		}
		msg := strings.TrimPrefix(res.Fatal, "panic: ")
		c.Violation("panic-in-pool-goroutine/"+first, "unrecovered "+res.Fatal+" in "+first+" killed the process ("+what+", last case "+res.LastMark+")", replayRec{Mode: "stress", Detail: detail(map[string]string{"panic": msg, "mark": res.LastMark, "stderr": trunc(res.Stderr[i:], 6000)})})
		return
	}
	c.Inconclusive(fmt.Sprintf("%s did not finish (timeout=%v exit=%d %s) at %s", what, res.TimedOut, res.ExitCode, res.Fatal, res.LastMark))
}

// runChild retries a child whose process could not even be started (fork/exec
// failure on a loaded machine); nothing about a verdict depends on it.
func runChild(c *vf.Ctx, o vf.ChildOpts) vf.ChildResult {
	var res vf.ChildResult
	for try := 0; try < 4; try++ {
		res = c.RunChild(o)
		if !(res.ExitCode == -1 && strings.HasPrefix(res.Fatal, "start:")) {
			break
		}
		time.Sleep(time.Duration(try+1) * 500 * time.Millisecond)
	}
	return res
}

func trunc(s string, n int) string {
	if len(s) > n {
		return s[:n]
	}
	return s
}

func main() { vf.Main("C16", "exploration", run, child) }
