package main

// disc.go – the three workload disciplines of harness/DISCIPLINES.md applied to
// every exported entry point of workerpool (WorkerPool, Group, the exported
// counters / queue / wait group) – an impolite caller:
//
//  reent      re-entrant TASKS: a harness-gated task calls back into its own pool,
//             sibling / parent pools, its own group and the ancestors (Submit,
//             DebounceFunc, queries, counter Subscribe / WaitIs*, Shutdown / Start,
//             CreatePool / CreateGroup / Pool(name)+lazy creation, restart of a
//             sibling by Start or CreatePool(same name), Shutdown / WaitChildren of an
//             idle sub group) in every phase: running, while ShutdownComplete.Wait /
//             Start / Group.Shutdown of the own group or an ancestor is PARKED waiting
//             for exactly this task (the task is held at a harness gate until the
//             caller is parked at structural quiescence), and after 0-2 restart cycles.
//             Verdict (structural, no stopwatch): at quiescence after the gate was
//             opened the task sits inside an exported call that returns on the
//             unchanged tree -> violation; the waiter must then return; the pools
//             below a shut-down group are stopped; conservation (classify) per pool.
//  selfwait   the calls that legitimately wait on themselves (WaitIsZero of the own
//             counter, WaitChildren / WaitParents / Shutdown of the own group,
//             ShutdownComplete.Wait and Start after the own Shutdown): counted; a WAIT
//             that returns inside the still pending task is a violation.
//  subscriber user callbacks the library runs inside Submit / task completion
//             (counter subscribers, pool options inside CreatePool) calling back into
//             pool and group with the calls that return on the unchanged tree; the
//             ones that self-dead-lock there (they run under the counter's lock) are
//             probed and only counted.
//  failing    user code that panics (pool option in CreatePool / New, a counter
//             subscriber inside Submit, a task that recovers its own panic, the
//             library's own duplicate-name panic) followed by further use: the next
//             calls return, no lock is left held. Unrecovered task panics: own child
//             processes (run by the parent, see runPanicChildren).
//  held       caller-owned memory: the map returned by Group.Pools() is kept, compared
//             and scribbled; the option slice passed to CreatePool is reused and
//             overwritten; unsubscribe handles are called twice and late; a
//             DebounceFunc handle is kept over a restart.
//
// Everything is timer-free (gates are channels), seeded by (Seed, Idx).

import (
	"encoding/json"
	"fmt"
	"math/rand"
	"os"
	"runtime"
	"sort"
	"strconv"
	"strings"
	"sync"
	"sync/atomic"
	"time"

	"github.com/iotaledger/hive.go/runtime/options"
	"github.com/iotaledger/hive.go/runtime/workerpool"
	"verif/harness/internal/gdump"
	"verif/harness/internal/vf"
)

type discCfg struct {
	Seed int64 `json:"seed"`
	Idx  int   `json:"idx"`
}

type discResult struct {
	Cfg      discCfg        `json:"cfg"`
	Class    string         `json:"class"`
	Shape    string         `json:"shape"`
	Steps    []string       `json:"steps"`
	Findings []finding      `json:"-"`
	Counts   map[string]int `json:"counts"`
	Pairs    []string       `json:"-"` // kind@phase of every re-entrant call that returned
}

type dGroup struct {
	name   string
	g      *workerpool.Group
	parent *dGroup
	shut   atomic.Bool // a Shutdown of this group was issued (by the harness or a task)
}

func (g *dGroup) anyShut() bool {
	for x := g; x != nil; x = x.parent {
		if x.shut.Load() {
			return true
		}
	}
	return false
}

func (g *dGroup) under(m *dGroup) bool {
	for x := g; x != nil; x = x.parent {
		if x == m {
			return true
		}
	}
	return false
}

type dTask struct {
	strict bool // submitted to a pool that had never been told to shut down
	runs   atomic.Int32
}

type dPool struct {
	name    string
	p       *workerpool.WorkerPool
	obs     *poolObs
	cancel  bool
	workers int
	grp     *dGroup
	shut    atomic.Bool // a Shutdown reaching this pool was issued at some point
	orphan  bool        // created below a group that had been shut down before: no Group.Shutdown reaches it
	mu      sync.Mutex
	tasks   []*dTask
}

func (p *dPool) add(t *dTask) {
	p.mu.Lock()
	p.tasks = append(p.tasks, t)
	p.mu.Unlock()
}

type dCall struct {
	Kind string `json:"kind"`
	Arg  int    `json:"arg"`
}

// reTask is a harness-gated task that performs re-entrant calls after its gate opened.
type reTask struct {
	dTask
	pool    *dPool
	calls   []dCall
	gate    chan struct{}
	started atomic.Bool
	done    atomic.Bool
	cur     atomic.Pointer[string] // exported call in flight
	ncalls  atomic.Int32
}

type dEnv struct {
	res      *discResult
	mu       sync.Mutex
	chain    []*dGroup // root .. own group (empty: stand-alone pools)
	sg       *dGroup   // idle sub group of the own group
	P, S     *dPool
	PP       *dPool // pool in the parent group
	pools    []*dPool
	groups   []*dGroup
	nameSeq  atomic.Int64
	sd       *gdump.Actor
	phase    string
	bad      atomic.Pointer[string] // inconsistency noticed from inside a task
	badGroup atomic.Pointer[string]
}

func (e *dEnv) step(f string, a ...any) {
	e.mu.Lock()
	e.res.Steps = append(e.res.Steps, fmt.Sprintf(f, a...))
	e.mu.Unlock()
}
func (e *dEnv) viol(fp, f string, a ...any) {
	e.mu.Lock()
	e.res.Findings = append(e.res.Findings, finding{fp, fmt.Sprintf(f, a...)})
	e.mu.Unlock()
}
func (e *dEnv) count(k string, n int) {
	e.mu.Lock()
	e.res.Counts[k] += n
	e.mu.Unlock()
}
func (e *dEnv) fresh(prefix string) string {
	return fmt.Sprintf("%s%d", prefix, e.nameSeq.Add(1))
}
func (e *dEnv) own() *dGroup {
	if len(e.chain) == 0 {
		return nil
	}
	return e.chain[len(e.chain)-1]
}
func (e *dEnv) sibling() *dPool { e.mu.Lock(); defer e.mu.Unlock(); return e.S }

func (e *dEnv) mkGroup(parent *dGroup, name string) *dGroup {
	g := &dGroup{name: name, parent: parent}
	if parent == nil {
		g.g = workerpool.NewGroup(name)
	} else {
		g.g = parent.g.CreateGroup(name)
	}
	e.mu.Lock()
	e.groups = append(e.groups, g)
	e.mu.Unlock()
	return g
}

// mkPool creates (and starts) a pool, cancel: 0 = default of the constructor, 1 = on, 2 = off.
func (e *dEnv) mkPool(grp *dGroup, name string, workers, cancel int, extra ...options.Option[workerpool.WorkerPool]) *dPool {
	opts := []options.Option[workerpool.WorkerPool]{workerpool.WithWorkerCount(workers)}
	c := grp != nil // Group.CreatePool defaults to cancel-on-shutdown
	if cancel != 0 {
		c = cancel == 1
		opts = append(opts, workerpool.WithCancelPendingTasksOnShutdown(c))
	}
	opts = append(opts, extra...)
	var p *workerpool.WorkerPool
	if grp != nil {
		p = grp.g.CreatePool(name, opts...)
	} else {
		p = workerpool.New(name, opts...).Start()
	}
	dp := &dPool{name: name, p: p, obs: observe(p), cancel: c, workers: workers, grp: grp}
	if grp != nil {
		if grp.anyShut() {
			dp.shut.Store(true)
		}
		dp.orphan = grp.g.IsShutdown()
	}
	e.mu.Lock()
	e.pools = append(e.pools, dp)
	e.mu.Unlock()
	return dp
}

// adopt registers a pool the scenario created itself.
func (e *dEnv) adopt(grp *dGroup, name string, p *workerpool.WorkerPool, workers int, cancel bool) *dPool {
	dp := &dPool{name: name, p: p, obs: observe(p), cancel: cancel, workers: workers, grp: grp}
	e.mu.Lock()
	e.pools = append(e.pools, dp)
	e.mu.Unlock()
	return dp
}

func (e *dEnv) find(p *workerpool.WorkerPool) *dPool {
	e.mu.Lock()
	defer e.mu.Unlock()
	for _, dp := range e.pools {
		if dp.p == p {
			return dp
		}
	}
	return nil
}

// markShut records that a Shutdown of g was issued: it reaches every pool below g.
func (e *dEnv) markShut(g *dGroup) {
	g.shut.Store(true)
	e.mu.Lock()
	defer e.mu.Unlock()
	for _, dp := range e.pools {
		if dp.grp != nil && dp.grp.under(g) {
			dp.shut.Store(true)
		}
	}
}

// submitChild submits a plain counting task (through submit, default pool.Submit).
func (e *dEnv) submitChild(dp *dPool, via func(func())) {
	t := &dTask{strict: !dp.shut.Load()}
	dp.add(t)
	f := func() { t.runs.Add(1) }
	if via != nil {
		via(f)
	} else {
		dp.p.Submit(f)
	}
	e.count("disc_tasks_submitted_from_user_code", 1)
}

// ---------------------------------------------------------------- the re-entrant calls

type dKind struct {
	name string
	ok   func(e *dEnv, own *dPool) bool
	do   func(e *dEnv, t *reTask, arg int)
}

func always(*dEnv, *dPool) bool      { return true }
func grouped(e *dEnv, _ *dPool) bool { return len(e.chain) > 0 }
func deep(e *dEnv, _ *dPool) bool    { return len(e.chain) > 1 }

var dKinds = []dKind{
	{"WorkerPool.Submit/own", always, func(e *dEnv, t *reTask, _ int) { e.submitChild(t.pool, nil) }},
	{"WorkerPool.Submit/sibling", always, func(e *dEnv, t *reTask, _ int) { e.submitChild(e.sibling(), nil) }},
	{"WorkerPool.Submit/parent", func(e *dEnv, _ *dPool) bool { return e.PP != nil }, func(e *dEnv, t *reTask, _ int) { e.submitChild(e.PP, nil) }},
	{"WorkerPool.DebounceFunc/own", always, func(e *dEnv, t *reTask, _ int) {
		d := t.pool.p.DebounceFunc()
		e.submitChild(t.pool, func(f func()) { d(f) })
	}},
	{"WorkerPool.queries/own", always, func(e *dEnv, t *reTask, _ int) {
		p := t.pool.p
		_, _, _ = p.IsRunning(), p.WorkerCount(), p.Queue.Size()
		if n := p.PendingTasksCounter.Get(); n < 1 {
			s := fmt.Sprintf("PendingTasksCounter.Get() read %d inside a running task of that pool", n)
			e.bad.CompareAndSwap(nil, &s)
		}
	}},
	{"Counter.Subscribe/own-pool", always, func(e *dEnv, t *reTask, arg int) {
		var n atomic.Int32
		unsub := t.pool.p.PendingTasksCounter.Subscribe(func(o, nw int) { n.Add(1) })
		if arg%2 == 0 {
			e.submitChild(t.pool, nil)
		}
		unsub()
		unsub() // held handle called twice
		e.count("disc_held_unsubscribe_called_twice", 1)
	}},
	{"Counter.WaitIsAbove/own-pool", always, func(e *dEnv, t *reTask, _ int) { t.pool.p.PendingTasksCounter.WaitIsAbove(0) }},
	{"Counter.WaitIsBelow/own-pool", always, func(e *dEnv, t *reTask, _ int) { t.pool.p.PendingTasksCounter.WaitIsBelow(1 << 20) }},
	{"WorkerPool.Shutdown/own", always, func(e *dEnv, t *reTask, _ int) {
		t.pool.shut.Store(true)
		t.pool.p.Shutdown()
	}},
	{"WorkerPool.Start/own-running", always, func(e *dEnv, t *reTask, _ int) {
		if t.pool.p.IsRunning() { // only a Start that has nothing to wait for (Start of the draining own pool waits for this very task)
			t.pool.p.Start()
		}
	}},
	{"WorkerPool.Shutdown+Wait+Start/sibling", always, func(e *dEnv, t *reTask, _ int) {
		s := e.sibling()
		s.shut.Store(true)
		s.p.Shutdown()
		s.p.ShutdownComplete.Wait()
		s.p.Start()
	}},
	{"WorkerPool.Shutdown+Wait+Group.CreatePool-same-name/sibling", grouped, func(e *dEnv, t *reTask, _ int) {
		s := e.sibling()
		s.shut.Store(true)
		s.p.Shutdown()
		s.p.ShutdownComplete.Wait()
		n := e.mkPool(s.grp, s.name, s.workers, 0)
		e.mu.Lock()
		e.S = n
		e.mu.Unlock()
		e.submitChild(n, nil)
	}},
	{"Group.CreatePool/own-group", grouped, func(e *dEnv, t *reTask, arg int) {
		e.submitChild(e.mkPool(e.own(), e.fresh("lazy"), 1+arg%2, arg%3), nil)
	}},
	{"Group.CreatePool/ancestor", deep, func(e *dEnv, t *reTask, arg int) {
		e.submitChild(e.mkPool(e.chain[arg%(len(e.chain)-1)], e.fresh("lazy"), 1+arg%2, arg%3), nil)
	}},
	{"Group.CreateGroup/own-group", grouped, func(e *dEnv, t *reTask, arg int) {
		g := e.mkGroup(e.own(), e.fresh("sub"))
		e.submitChild(e.mkPool(g, e.fresh("lazy"), 1, arg%3), nil)
	}},
	{"Group.CreateGroup/ancestor", deep, func(e *dEnv, t *reTask, arg int) {
		g := e.mkGroup(e.chain[arg%(len(e.chain)-1)], e.fresh("sub"))
		e.submitChild(e.mkPool(g, e.fresh("lazy"), 1, arg%3), nil)
	}},
	{"Group.Pool+lazy-CreatePool/own-group", grouped, func(e *dEnv, t *reTask, arg int) {
		var dp *dPool
		if p, ok := e.own().g.Pool("on-demand"); ok {
			dp = e.find(p)
		}
		if dp == nil {
			dp = e.mkPool(e.own(), "on-demand", 1+arg%2, 0)
		}
		e.submitChild(dp, nil)
	}},
	{"Group.queries/own-group+root", grouped, func(e *dEnv, t *reTask, _ int) {
		g := e.own().g
		_ = g.Pools()
		_, _ = g.Pool(t.pool.name)
		_, _ = g.Group("idle-sub")
		_, _, _, _ = g.Root(), g.IsShutdown(), g.Name(), g.String()
		_ = e.chain[0].g.String()
		_ = e.chain[0].g.Pools()
		for _, x := range e.chain {
			if n := x.g.PendingChildrenCounter.Get(); n < 1 {
				s := fmt.Sprintf("PendingChildrenCounter.Get() of group %s read %d inside a running task of a pool below it", x.name, n)
				e.badGroup.CompareAndSwap(nil, &s)
			}
		}
	}},
	{"Counter.Subscribe/own-group+root", grouped, func(e *dEnv, t *reTask, _ int) {
		u1 := e.own().g.PendingChildrenCounter.Subscribe(func(o, n int) {})
		u2 := e.chain[0].g.PendingChildrenCounter.Subscribe(func(o, n int) {})
		u1()
		u2()
		u1()
		e.count("disc_held_unsubscribe_called_twice", 1)
	}},
	{"Counter.WaitIsAbove/own-group+root", grouped, func(e *dEnv, t *reTask, _ int) {
		e.own().g.PendingChildrenCounter.WaitIsAbove(0)
		e.chain[0].g.PendingChildrenCounter.WaitIsAbove(0)
	}},
	{"Group.WaitChildren/idle-subgroup", grouped, func(e *dEnv, t *reTask, _ int) { e.sg.g.WaitChildren() }},
	{"Group.Shutdown/idle-subgroup", grouped, func(e *dEnv, t *reTask, _ int) {
		e.markShut(e.sg)
		e.sg.g.Shutdown()
	}},
}

func kindClass(k string) string {
	if i := strings.IndexByte(k, '/'); i > 0 {
		return k[:i]
	}
	return k
}

func kindByName(n string) *dKind {
	for i := range dKinds {
		if dKinds[i].name == n {
			return &dKinds[i]
		}
	}
	return nil
}

// newTask draws the calls of one gated task.
func (e *dEnv) newTask(rng *rand.Rand, own *dPool, must string) *reTask {
	t := &reTask{pool: own, gate: make(chan struct{})}
	t.strict = false
	var names []string
	for _, k := range dKinds {
		if k.ok(e, own) {
			names = append(names, k.name)
		}
	}
	n := 1 + rng.Intn(4)
	for i := 0; i < n; i++ {
		k := names[rng.Intn(len(names))]
		if i == 0 && must != "" && kindByName(must).ok(e, own) {
			k = must
		}
		t.calls = append(t.calls, dCall{k, rng.Intn(1 << 16)})
	}
	own.add(&t.dTask)
	return t
}

func (e *dEnv) body(t *reTask) func() {
	return func() {
		t.runs.Add(1)
		t.started.Store(true)
		<-t.gate
		for i := range t.calls {
			c := &t.calls[i]
			t.cur.Store(&c.Kind)
			kindByName(c.Kind).do(e, t, c.Arg)
			t.ncalls.Add(1)
		}
		t.cur.Store(nil)
		t.done.Store(true)
	}
}

// drive submits t, establishes the phase (park), opens the gate and judges. false = scenario over.
func (e *dEnv) drive(t *reTask, park func() (string, bool)) bool {
	if p := t.pool.p; !p.IsRunning() {
		// an earlier task shut its own pool down: the harness restarts it (one more restart cycle)
		if !e.call("ShutdownComplete.Wait", p.ShutdownComplete.Wait) {
			e.viol("shutdown-hangs/other", "pool %s was shut down by one of its own tasks, which has finished; ShutdownComplete.Wait() never returns (%s)", t.pool.name, patternOf(gdump.Snapshot(), nil))
			return false
		}
		if !e.call("Start", func() { p.Start() }) {
			e.viol("start-never-returns", "Start() of pool %s after a completed shutdown (issued by one of its own tasks) is parked for ever", t.pool.name)
			return false
		}
		e.count("disc_restart_cycles:start-after-own-task-shut-the-pool-down", 1)
	}
	t.pool.p.Submit(e.body(t))
	waitQuiescent()
	if !t.started.Load() {
		if t.pool.p.PendingTasksCounter.Get() == 0 {
			e.count("disc_phase_not_established:task-not-accepted", 1)
			e.step("the gated task was not accepted by pool %s (phase %s)", t.pool.name, e.phase)
			return false
		}
		e.viol("accepted-task-not-run-while-running", "a task submitted to the running, otherwise idle pool %s was not started at structural quiescence (discipline scenario, phase %s)", t.pool.name, e.phase)
		return false
	}
	waiter := ""
	if park != nil {
		w, ok := park()
		if !ok {
			e.count("disc_phase_not_established:waiter-did-not-park", 1)
			e.step("phase %s not established: %s did not park while the gated task is pending", e.phase, w)
			return false
		}
		waiter = w
	}
	var ks []string
	for _, c := range t.calls {
		ks = append(ks, c.Kind)
	}
	e.step("phase %s: gate of the task in %s opened, calls %v", e.phase, t.pool.name, ks)
	close(t.gate)
	waitQuiescent()
	if !t.done.Load() {
		k := "?"
		if p := t.cur.Load(); p != nil {
			k = *p
		}
		w := "nobody waits for the pool"
		if waiter != "" {
			w = waiter + " is parked waiting for exactly this task"
		}
		e.viol("reentrant-call-from-task-never-returns/"+kindClass(k), "a running task of pool %s called %s (phase %s: %s) and is parked inside that call at structural quiescence (two identical snapshots, nothing runnable); on the unchanged tree the call returns. %s", t.pool.name, k, e.phase, w, patternOf(gdump.Snapshot(), nil))
		return false
	}
	for _, c := range t.calls {
		e.count("disc_reentrant_calls:"+c.Kind, 1)
		e.res.Pairs = append(e.res.Pairs, c.Kind+"@"+e.phase)
		e.count("disc_reentrant_calls_phase:"+e.phase, 1)
	}
	e.count("disc_reentrant_tasks_phase:"+e.phase, 1)
	if s := e.bad.Load(); s != nil {
		e.viol("pending-counter-inconsistent", "%s (phase %s)", *s, e.phase)
		return false
	}
	if s := e.badGroup.Load(); s != nil {
		e.viol("group/counter-disagrees-with-pending", "%s (phase %s)", *s, e.phase)
		return false
	}
	if waiter != "" {
		if e.sd.Busy() {
			e.viol("reentrant/waiter-never-returns-after-task-finished", "%s was parked waiting for a task that made re-entrant calls; the task and everything it submitted have finished, but the call is still parked at structural quiescence (phase %s, %s)", waiter, e.phase, patternOf(gdump.Snapshot(), nil))
			return false
		}
		if p := e.sd.TakePanic(); p != "" {
			e.viol("reentrant/waiter-panicked", "%s panicked: %s", waiter, p)
			return false
		}
		e.count("disc_waiters_parked_for_reentrant_task_then_returned", 1)
	}
	return true
}

func (e *dEnv) call(what string, f func()) bool {
	if st := do(e.sd, f); st != gdump.Returned {
		e.step("%s is parked", what)
		return false
	}
	if p := e.sd.TakePanic(); p != "" {
		e.step("%s panicked: %s", what, p)
		return false
	}
	return true
}

// stopAll ends a scenario: root Shutdown (everything idle), every pool verified / stopped, conservation.
func (e *dEnv) finish() {
	waitQuiescent()
	// strict tasks: submitted to a pool nobody ever told to shut down -> must have run by now
	for _, dp := range e.snapshotPools() {
		if dp.shut.Load() {
			continue
		}
		dp.mu.Lock()
		for _, t := range dp.tasks {
			if t.strict && t.runs.Load() != 1 {
				e.viol("accepted-task-not-run-while-running", "a task submitted from user code to pool %s, which was never shut down, ran %d times at structural quiescence (phase %s)", dp.name, t.runs.Load(), e.phase)
				dp.mu.Unlock()
				return
			}
		}
		dp.mu.Unlock()
	}
	if len(e.chain) > 0 {
		root := e.chain[0]
		wasShut := root.g.IsShutdown()
		if !e.call("root.Shutdown", root.g.Shutdown) {
			e.viol("group/shutdown-never-returns", "Group(root).Shutdown() of an idle tree (after tasks made re-entrant calls, phase %s) is parked for ever or panicked", e.phase)
			return
		}
		if !wasShut {
			for _, dp := range e.snapshotPools() {
				if dp.grp != nil && !dp.orphan && dp.p.IsRunning() && !e.hasShutGroupAbove(dp, root) {
					e.viol("group/pool-running-after-group-shutdown", "Group(root).Shutdown() returned but pool %s (created %s) below it still reports IsRunning()", dp.name, "by the scenario or lazily by a task")
					return
				}
			}
		}
		e.count("disc_group_trees_shut_down", 1)
	}
	for _, dp := range e.snapshotPools() {
		dp := dp
		if !e.call("Shutdown of "+dp.name, func() { dp.p.Shutdown() }) {
			e.viol("shutdown-call-never-returns", "Shutdown() of the idle pool %s is parked for ever (end of a discipline scenario, phase %s)", dp.name, e.phase)
			return
		}
		if !e.call("ShutdownComplete.Wait of "+dp.name, dp.p.ShutdownComplete.Wait) {
			e.viol("shutdown-hangs/other", "Shutdown(); ShutdownComplete.Wait() of the idle pool %s never returns (end of a discipline scenario, phase %s, %s)", dp.name, e.phase, patternOf(gdump.Snapshot(), nil))
			return
		}
		e.count("disc_pools_verified_stopped", 1)
	}
	waitQuiescent()
	for _, dp := range e.snapshotPools() {
		a, f, bad := dp.obs.counts()
		o := outcome{ShutdownCalled: true, ShutdownReturned: true, WaitReturned: true, Accepted: a, Finished: f, ChainBad: bad, CancelOpt: dp.cancel,
			Counter: dp.p.PendingTasksCounter.Get(), Queue: dp.p.Queue.Size()}
		dp.mu.Lock()
		for _, t := range dp.tasks {
			r := int(t.runs.Load())
			o.Ran += r
			o.MaxRuns = max(o.MaxRuns, r)
		}
		dp.mu.Unlock()
		e.count("disc_tasks_accepted", a)
		e.count("disc_tasks_ran", o.Ran)
		for _, fd := range classify(o) {
			e.viol(fd.FP, "%s [pool %s of a discipline scenario, phase %s]", fd.What, dp.name, e.phase)
		}
	}
}

// hasShutGroupAbove: a group between the pool and top (exclusive) was shut down on its own (then the walk stops there; the pool was stopped by that earlier shutdown or is an orphan).
func (e *dEnv) hasShutGroupAbove(dp *dPool, top *dGroup) bool {
	for x := dp.grp; x != nil && x != top; x = x.parent {
		if x.shut.Load() {
			return true
		}
	}
	return false
}

func (e *dEnv) snapshotPools() []*dPool {
	e.mu.Lock()
	defer e.mu.Unlock()
	return append([]*dPool(nil), e.pools...)
}

// build creates the tree of one scenario: depth 0 = stand-alone pools.
func (e *dEnv) build(rng *rand.Rand, depth int) {
	var parent *dGroup
	for i := 0; i < depth; i++ {
		name := "root"
		if i > 0 {
			name = fmt.Sprintf("g%d", i)
		}
		parent = e.mkGroup(parent, name)
		e.chain = append(e.chain, parent)
	}
	own := e.own()
	e.P = e.mkPool(own, "P", 1+rng.Intn(3), rng.Intn(3))
	e.S = e.mkPool(own, "S", 1+rng.Intn(2), rng.Intn(3))
	if depth > 1 {
		e.PP = e.mkPool(e.chain[depth-2], "PP", 1+rng.Intn(2), 0)
	}
	if depth > 0 {
		e.sg = e.mkGroup(own, "idle-sub")
		e.mkPool(e.sg, "Q", 1, 0)
	}
	e.res.Shape = fmt.Sprintf("depth%d/w%d/cancel%v", depth, e.P.workers, e.P.cancel)
}

var discPhases = []string{"running", "pool-shutdown-waiting", "start-waiting", "group-shutdown-waiting", "ancestor-shutdown-waiting"}

func newEnv(res *discResult) *dEnv {
	res.Counts = map[string]int{}
	curGate.Store(nil)
	return &dEnv{res: res, sd: gdump.NewActor("disc-caller")}
}

func runDisc(cfg discCfg) (res discResult) {
	res.Cfg = cfg
	rng := rand.New(rand.NewSource(cfg.Seed*7919 + int64(cfg.Idx)*104729 + 16))
	e := newEnv(&res)
	defer e.sd.Close()
	switch m := cfg.Idx % 20; {
	case m < 13:
		res.Class = "reent"
		e.runReent(rng, cfg.Idx)
	case m < 15:
		res.Class = "selfwait"
		e.runSelfWait(rng, cfg.Idx/20)
	case m < 17:
		res.Class = "subscriber"
		e.runSubscriber(rng, cfg.Idx/20)
	case m < 19:
		res.Class = "failing"
		e.runFailing(rng, cfg.Idx/20)
	default:
		res.Class = "held"
		e.runHeld(rng)
	}
	return
}

// ---------------------------------------------------------------- reent

func (e *dEnv) runReent(rng *rand.Rand, idx int) {
	k := idx/20*13 + idx%20 // dense numbering of the reent scenarios
	phase := discPhases[k%len(discPhases)]
	depth := (k / len(discPhases)) % 4
	if depth == 0 && strings.Contains(phase, "group-shutdown") || depth == 0 && phase == "ancestor-shutdown-waiting" {
		depth = 1 + rng.Intn(3)
	}
	if phase == "ancestor-shutdown-waiting" && depth < 2 {
		depth = 2 + rng.Intn(2)
	}
	e.build(rng, depth)
	// every kind leads a task in turn, so each (kind, phase) pair is driven whatever the seed
	must := dKinds[(k/len(discPhases)/4)%len(dKinds)].name
	restarts := rng.Intn(3)
	if rng.Intn(2) == 0 {
		restarts = 0
	}
	e.res.Shape += fmt.Sprintf("/%s/restarts%d", phase, restarts)
	pre := ""
	for c := 0; c < restarts; c++ {
		p := e.P
		p.shut.Store(true)
		if !e.call("P.Shutdown", func() { p.p.Shutdown() }) || !e.call("P.ShutdownComplete.Wait", p.p.ShutdownComplete.Wait) {
			e.count("disc_phase_not_established", 1)
			return
		}
		via := "start"
		if depth > 0 && rng.Intn(2) == 0 {
			via = "createpool-same-name"
			ok := e.call("CreatePool(P)", func() { e.P = e.mkPool(p.grp, "P", p.workers, rng.Intn(3)) })
			if !ok {
				e.count("disc_phase_not_established", 1)
				return
			}
		} else if !e.call("P.Start", func() { p.p.Start() }) {
			e.count("disc_phase_not_established", 1)
			return
		}
		e.count("disc_restart_cycles:"+via, 1)
		pre = "restarted/"
		e.phase = "restarted/running"
		if !e.drive(e.newTask(rng, e.P, ""), nil) {
			return
		}
	}
	e.phase = pre + phase
	P := e.P
	t := e.newTask(rng, P, must)
	queued := rng.Intn(3)
	park := func() (string, bool) { return "", true }
	switch phase {
	case "running":
		park = nil
	case "pool-shutdown-waiting":
		park = func() (string, bool) {
			for i := 0; i < queued; i++ {
				e.submitChild(P, nil)
			}
			P.shut.Store(true)
			if !e.call("P.Shutdown", func() { P.p.Shutdown() }) {
				return "WorkerPool.Shutdown", false
			}
			return "WorkerPool.ShutdownComplete.Wait()", do(e.sd, P.p.ShutdownComplete.Wait) == gdump.Blocked
		}
	case "start-waiting":
		park = func() (string, bool) {
			P.shut.Store(true)
			if !e.call("P.Shutdown", func() { P.p.Shutdown() }) {
				return "WorkerPool.Shutdown", false
			}
			return "WorkerPool.Start() of the draining pool", do(e.sd, func() { P.p.Start() }) == gdump.Blocked
		}
	case "group-shutdown-waiting", "ancestor-shutdown-waiting":
		target := e.own()
		if phase == "ancestor-shutdown-waiting" {
			target = e.chain[rng.Intn(len(e.chain)-1)]
		}
		park = func() (string, bool) {
			for i := 0; i < queued; i++ {
				e.submitChild(P, nil)
			}
			e.markShut(target)
			return "Group(" + target.name + ").Shutdown()", do(e.sd, target.g.Shutdown) == gdump.Blocked
		}
		if !e.drive(t, park) {
			return
		}
		// everything below the group that was shut down is stopped, the lazily created pools included
		for _, dp := range e.snapshotPools() {
			dp := dp
			if dp.grp == nil || !dp.grp.under(target) || dp.orphan || e.hasShutGroupAbove(dp, target) {
				continue
			}
			if dp.p.IsRunning() {
				e.viol("group/pool-running-after-group-shutdown", "Group(%s).Shutdown() returned but pool %s below it (pools created lazily by the task it waited for included) still reports IsRunning()", target.name, dp.name)
				return
			}
			if !e.call("ShutdownComplete.Wait", dp.p.ShutdownComplete.Wait) {
				e.viol("group/pool-shutdown-hangs", "after Group(%s).Shutdown() pool %s never completes its shutdown (%s)", target.name, dp.name, patternOf(gdump.Snapshot(), nil))
				return
			}
			e.count("disc_pools_stopped_by_group_shutdown_that_waited_for_reentrant_task", 1)
		}
		e.finish()
		return
	}
	if !e.drive(t, park) {
		return
	}
	if phase == "start-waiting" {
		// the pool runs again: a task of the restarted pool makes re-entrant calls too
		e.phase = "restarted/running"
		if !e.drive(e.newTask(rng, P, ""), nil) {
			return
		}
	}
	e.finish()
}

// ---------------------------------------------------------------- selfwait

var selfWaits = []struct {
	name   string
	isWait bool
	do     func(e *dEnv, t *reTask)
}{
	{"Counter.WaitIsZero/own-pool", true, func(e *dEnv, t *reTask) { t.pool.p.PendingTasksCounter.WaitIsZero() }},
	{"Group.WaitChildren/own-group", true, func(e *dEnv, t *reTask) { e.own().g.WaitChildren() }},
	{"Group.WaitParents/own-group", true, func(e *dEnv, t *reTask) { e.own().g.WaitParents() }},
	{"WorkerPool.ShutdownComplete.Wait/own-after-Shutdown", true, func(e *dEnv, t *reTask) {
		t.pool.p.Shutdown()
		t.pool.p.ShutdownComplete.Wait()
	}},
	{"WorkerPool.Start/own-after-Shutdown", false, func(e *dEnv, t *reTask) {
		t.pool.p.Shutdown()
		t.pool.p.Start()
	}},
	{"Group.Shutdown/own-group", false, func(e *dEnv, t *reTask) { e.own().g.Shutdown() }},
	{"Group.Shutdown/root", false, func(e *dEnv, t *reTask) { e.chain[0].g.Shutdown() }},
}

func (e *dEnv) runSelfWait(rng *rand.Rand, n int) {
	sw := selfWaits[n%len(selfWaits)]
	e.build(rng, 1+rng.Intn(3))
	e.phase = "selfwait"
	e.res.Shape += "/selfwait/" + sw.name
	t := &reTask{pool: e.P, gate: make(chan struct{})}
	e.P.add(&t.dTask)
	e.P.p.Submit(func() {
		t.runs.Add(1)
		t.started.Store(true)
		<-t.gate
		sw.do(e, t)
		t.done.Store(true)
	})
	waitQuiescent()
	if !t.started.Load() {
		e.count("disc_phase_not_established", 1)
		return
	}
	close(t.gate)
	waitQuiescent()
	if !t.done.Load() {
		e.count("disc_selfwait_parked:"+sw.name, 1)
		e.count("disc_selfwait_probes", 1)
		return // legitimately waits for itself for ever: the tree is abandoned
	}
	e.count("disc_selfwait_returned:"+sw.name, 1)
	e.count("disc_selfwait_probes", 1)
	if sw.isWait {
		e.viol("wait-returned-inside-pending-task/"+kindClass(sw.name), "%s called from inside a running (accepted, unfinished) task of the pool returned: the wait does not cover the task that calls it", sw.name)
	}
}

// ---------------------------------------------------------------- subscriber / option callbacks

func (e *dEnv) runSubscriber(rng *rand.Rand, n int) {
	e.build(rng, 1+rng.Intn(3))
	e.phase = "subscriber"
	e.res.Shape += "/subscriber"
	P, G, root := e.P, e.own(), e.chain[0]
	type cbk struct {
		name string
		do   func(up bool)
	}
	poolCB := []cbk{
		{"WorkerPool.queries", func(bool) { _, _, _ = P.p.IsRunning(), P.p.WorkerCount(), P.p.Queue.Size() }},
		{"Group.queries", func(bool) {
			_, _ = G.g.Pool("P")
			_, _, _ = G.g.IsShutdown(), G.g.Pools(), G.g.Root()
			_, _ = G.g.PendingChildrenCounter.Get(), root.g.PendingChildrenCounter.Get()
		}},
		{"WorkerPool.Submit/sibling", func(up bool) {
			if up {
				e.submitChild(e.sibling(), nil)
			}
		}},
		{"Group.CreatePool+CreateGroup", func(up bool) {
			if up {
				e.submitChild(e.mkPool(G, e.fresh("cb"), 1, 0), nil)
				e.mkGroup(G, e.fresh("cbg"))
			}
		}},
		{"Counter.Subscribe/sibling", func(bool) {
			u := e.sibling().p.PendingTasksCounter.Subscribe(func(o, n int) {})
			u()
		}},
	}
	var entered, returned atomic.Int64
	var cur atomic.Pointer[string]
	seq := rng.Perm(len(poolCB))
	var calls atomic.Int64
	P.p.PendingTasksCounter.Subscribe(func(o, nw int) {
		k := poolCB[seq[int(calls.Add(1))%len(seq)]]
		cur.Store(&k.name)
		entered.Add(1)
		k.do(nw > o)
		returned.Add(1)
		e.count("disc_subscriber_reentrant_calls:"+k.name, 1)
	})
	// the group counter's subscribers run inside the pool counter's notification
	G.g.PendingChildrenCounter.Subscribe(func(o, nw int) {
		entered.Add(1)
		s := "group-counter subscriber: WorkerPool.queries + root counter"
		cur.Store(&s)
		_, _ = P.p.IsRunning(), P.p.Queue.Size()
		_ = G.g.IsShutdown()
		returned.Add(1)
		e.count("disc_subscriber_reentrant_calls:group-counter-subscriber", 1)
	})
	stuck := func(where string) bool {
		if entered.Load() == returned.Load() {
			return false
		}
		k := "?"
		if p := cur.Load(); p != nil {
			k = *p
		}
		dbgDump()
		e.viol("reentrant-call-from-subscriber-never-returns/"+kindClass(k), "a subscriber of the exported pending counter, invoked %s, called %s and is parked inside it at structural quiescence; on the unchanged tree the call returns (%s)", where, k, patternOf(gdump.Snapshot(), nil))
		return true
	}
	nT := 3 + rng.Intn(4)
	var gates []chan struct{}
	for i := 0; i < nT; i++ {
		g := make(chan struct{})
		gates = append(gates, g)
		t := &dTask{strict: true}
		P.add(t)
		st := do(e.sd, func() { P.p.Submit(func() { t.runs.Add(1); <-g }) })
		waitQuiescent() // subscribers also run on the workers of the sibling pools
		if stuck("inside Submit") {
			return
		}
		if st != gdump.Returned {
			e.viol("submit-never-returns", "Submit on the running pool P with re-entrant counter subscribers is parked for ever")
			return
		}
	}
	for _, i := range rng.Perm(nT) {
		close(gates[i])
		waitQuiescent()
		if stuck("when a task finished") {
			return
		}
	}
	// a pool option is user code run inside CreatePool / New: it calls back into the group
	optRan := false
	opt := func(w *workerpool.WorkerPool) {
		optRan = true
		_, _ = G.g.Pool("P")
		_ = G.g.Pools()
		e.mkGroup(G, e.fresh("optg"))
		e.submitChild(e.mkPool(G, e.fresh("opt"), 1, 0), nil)
	}
	var np *dPool
	if st := do(e.sd, func() { np = e.mkPool(G, e.fresh("with-option"), 1, 0, opt) }); st != gdump.Returned {
		e.viol("reentrant-call-from-option-never-returns/Group.CreatePool", "a pool option passed to Group.CreatePool that calls Pool / Pools / CreateGroup / CreatePool of the same group is parked inside the group at structural quiescence; on the unchanged tree options run before the group is touched and the call returns")
		return
	}
	if p := e.sd.TakePanic(); p != "" || np == nil || !optRan {
		e.viol("group/createpool-panic", "Group.CreatePool with a re-entrant option panicked or did not apply the option: %s", p)
		return
	}
	e.submitChild(np, nil)
	e.count("disc_option_reentrant_calls", 1)
	e.count("disc_subscriber_scenarios", 1)
	e.finish()
	// what the unchanged tree does with the calls that run into the counter's own lock: probed, never judged
	probes := []struct {
		name string
		do   func(p *workerpool.WorkerPool, unsub func())
	}{
		{"Counter.Get/same-counter", func(p *workerpool.WorkerPool, _ func()) { p.PendingTasksCounter.Get() }},
		{"WorkerPool.Submit/same-pool", func(p *workerpool.WorkerPool, _ func()) { p.Submit(func() {}) }},
		{"unsubscribe/itself", func(p *workerpool.WorkerPool, unsub func()) { unsub() }},
		{"WorkerPool.Shutdown/same-pool-inside-Submit", func(p *workerpool.WorkerPool, _ func()) { p.Shutdown() }},
	}
	pr := probes[n%len(probes)]
	pp := workerpool.New("probe", workerpool.WithWorkerCount(1)).Start()
	var unsub func()
	first := true
	unsub = pp.PendingTasksCounter.Subscribe(func(o, nw int) {
		if first {
			first = false
			pr.do(pp, unsub)
		}
	})
	a := gdump.NewActor("probe")
	if st := do(a, func() { pp.Submit(func() {}) }); st == gdump.Blocked {
		e.count("disc_subscriber_selfdeadlock_probe_parked:"+pr.name, 1)
	} else {
		a.TakePanic()
		e.count("disc_subscriber_selfdeadlock_probe_returned:"+pr.name, 1)
		a.Close()
	}
}

// ---------------------------------------------------------------- failing user code, then further use

const userPanic = "c16-user-code-panic"

func (e *dEnv) runFailing(rng *rand.Rand, n int) {
	e.build(rng, 1+rng.Intn(3))
	e.phase = "failing"
	G := e.own()
	kinds := []string{"option-panics-in-CreatePool", "option-panics-in-New", "subscriber-panics-in-Submit", "task-recovers-own-panic", "CreatePool-duplicate-running-name"}
	kind := kinds[n%len(kinds)]
	e.res.Shape += "/failing/" + kind
	furtherUse := func() bool {
		// the group and the pool are used again: a gated task, WaitChildren parked, released, returns
		g := make(chan struct{})
		t := &dTask{strict: true}
		e.P.add(t)
		if !e.call("Submit after the failure", func() { e.P.p.Submit(func() { t.runs.Add(1); <-g }) }) {
			e.viol("failing-user-code/next-call-never-returns", "after %s (panic recovered by the caller) the next Submit on pool P is parked for ever or panicked: a lock was left held", kind)
			return false
		}
		w := gdump.NewActor("waitchildren")
		st := do(w, G.g.WaitChildren)
		close(g)
		waitQuiescent()
		if st != gdump.Blocked {
			e.viol("group/wait-returned-while-pool-pending", "after %s WaitChildren of the group returned while a task of pool P is accepted and unfinished", kind)
			return false
		}
		if w.Busy() {
			e.viol("group/wait-parked-although-idle", "after %s WaitChildren of the group stays parked although every task finished", kind)
			return false
		}
		w.Close()
		if !e.call("CreatePool after the failure", func() { e.submitChild(e.mkPool(G, e.fresh("after"), 1, 0), nil) }) {
			e.viol("failing-user-code/next-call-never-returns", "after %s (panic recovered by the caller) the next Group.CreatePool is parked for ever or panicked: a lock was left held", kind)
			return false
		}
		e.count("disc_failing_user_code_followed_by_further_use:"+kind, 1)
		return true
	}
	switch kind {
	case "option-panics-in-CreatePool", "option-panics-in-New":
		bad := func(w *workerpool.WorkerPool) { panic(userPanic) }
		st := do(e.sd, func() {
			if kind == "option-panics-in-New" {
				workerpool.New("bad", workerpool.WithWorkerCount(1), bad)
			} else {
				G.g.CreatePool("bad", workerpool.WithWorkerCount(1), bad)
			}
		})
		if st != gdump.Returned {
			e.viol("failing-user-code/call-never-returns", "%s: the call is parked for ever instead of passing the user's panic on", kind)
			return
		}
		if p := e.sd.TakePanic(); p == "" {
			e.count("disc_failing_user_panic_swallowed", 1)
		}
		if furtherUse() {
			e.finish()
		}
	case "task-recovers-own-panic":
		for i := 0; i < 2+rng.Intn(3); i++ {
			t := &dTask{strict: true}
			e.P.add(t)
			e.P.p.Submit(func() {
				defer func() { _ = recover() }()
				t.runs.Add(1)
				panic(userPanic)
			})
		}
		waitQuiescent()
		if furtherUse() {
			e.finish()
		}
	case "subscriber-panics-in-Submit":
		// the unchanged tree raises the counter before it notifies: the panic leaves the pool counted-but-not-queued
		// for ever (robustness weakness outside the statement: noted, nothing demanded about the value); demanded:
		// no lock is left held - the next calls return and a further task runs.
		pp := e.mkPool(G, "with-panicking-subscriber", 1+rng.Intn(2), rng.Intn(3))
		armed := true
		pp.p.PendingTasksCounter.Subscribe(func(o, nw int) {
			if armed && nw > o {
				armed = false
				panic(userPanic)
			}
		})
		ran := new(atomic.Int32)
		st := do(e.sd, func() { pp.p.Submit(func() { ran.Add(1) }) })
		if st != gdump.Returned {
			e.viol("failing-user-code/call-never-returns", "Submit whose counter subscriber panics is parked for ever instead of passing the user's panic on")
			return
		}
		if p := e.sd.TakePanic(); p == "" {
			e.count("disc_failing_user_panic_swallowed", 1)
		}
		next := new(atomic.Int32)
		ok := e.call("Get", func() { pp.p.PendingTasksCounter.Get() }) &&
			e.call("Subscribe", func() { pp.p.PendingTasksCounter.Subscribe(func(o, n int) {})() }) &&
			e.call("IsRunning", func() { pp.p.IsRunning() }) &&
			e.call("Submit", func() { pp.p.Submit(func() { next.Add(1) }) })
		if !ok {
			e.viol("failing-user-code/next-call-never-returns", "after a counter subscriber panicked inside Submit (recovered by the caller) the next Get / Subscribe / IsRunning / Submit on that pool is parked for ever or panicked: a lock was left held")
			return
		}
		waitQuiescent()
		if next.Load() != 1 {
			e.viol("accepted-task-not-run-while-running", "after a counter subscriber panicked inside an earlier Submit, a task submitted to the still running pool ran %d times at structural quiescence", next.Load())
			return
		}
		if c := pp.p.PendingTasksCounter.Get(); c > 0 && ran.Load() == 0 {
			e.count("disc_subscriber_panic_left_counter_raised", 1)
		} else {
			e.count("disc_subscriber_panic_left_counter_clean", 1)
		}
		e.count("disc_failing_user_code_followed_by_further_use:"+kind, 1)
		// the pool can never drain on the unchanged tree: abandoned, not shut down
	case "CreatePool-duplicate-running-name":
		// the library's own panic; on the unchanged tree the map entry is already replaced by the never-started pool
		st := do(e.sd, func() { G.g.CreatePool("P", workerpool.WithWorkerCount(1)) })
		if st != gdump.Returned {
			e.viol("failing-user-code/call-never-returns", "Group.CreatePool with the name of a running pool is parked for ever")
			return
		}
		if p := e.sd.TakePanic(); p == "" {
			e.count("disc_duplicate_createpool_did_not_panic", 1)
		}
		if p, ok := G.g.Pool("P"); ok && p != e.P.p {
			// unchanged tree: the running pool is no longer registered, no Group.Shutdown reaches it any more
			e.P.orphan = true
			e.count("disc_duplicate_createpool_replaced_registered_pool", 1)
		}
		if furtherUse() {
			e.finish()
		}
	}
}

// ---------------------------------------------------------------- held results / caller-owned arguments

func (e *dEnv) runHeld(rng *rand.Rand) {
	e.build(rng, 1+rng.Intn(3))
	e.phase = "held"
	e.res.Shape += "/held"
	G, root := e.own(), e.chain[0]
	keys := func(m map[string]*workerpool.WorkerPool) string {
		var ks []string
		for k, v := range m {
			ks = append(ks, fmt.Sprintf("%s=%p", k, v))
		}
		sort.Strings(ks)
		return strings.Join(ks, ",")
	}
	// option slice owned by the caller: spare capacity with a sentinel behind len, reused afterwards
	var applied []int
	mark := func(id int) options.Option[workerpool.WorkerPool] {
		return func(w *workerpool.WorkerPool) { applied = append(applied, id) }
	}
	w := 1 + rng.Intn(3)
	full := []options.Option[workerpool.WorkerPool]{workerpool.WithWorkerCount(w), mark(1), mark(2), mark(99), mark(98)}
	opts := full[:3]
	var hp *dPool
	if !e.call("CreatePool", func() { hp = e.adopt(G, "held-opts", G.g.CreatePool("held-opts", opts...), w, true) }) {
		e.viol("group/create-never-returns", "Group.CreatePool with a caller-owned option slice is parked or panicked")
		return
	}
	if fmt.Sprint(applied) != "[1 2]" || hp.p.WorkerCount() != w {
		e.viol("held/options-not-applied-in-order", "CreatePool applied the caller's options as %v (worker count %d, want %d)", applied, hp.p.WorkerCount(), w)
		return
	}
	applied = nil
	workerpool.New("probe", full[1:]...)
	if fmt.Sprint(applied) != "[1 2 99 98]" {
		e.viol("held/argument-slice-changed-by-call", "the option slice passed to CreatePool (len 3, cap 5) reads %v afterwards, want [1 2 99 98]: the call wrote into the caller's array", applied)
		return
	}
	for i := range full { // the caller reuses its slice
		full[i] = workerpool.WithWorkerCount(50 + i)
	}
	if hp.p.WorkerCount() != w {
		e.viol("held/pool-depends-on-callers-slice", "after the caller overwrote its option slice the pool reports WorkerCount %d, want %d", hp.p.WorkerCount(), w)
		return
	}
	e.count("disc_held_argument_slices_reused", 1)
	// the map returned by Pools() is the caller's
	held := root.g.Pools()
	copyOf := keys(held)
	deb := e.P.p.DebounceFunc()
	unsubs := []func(){e.P.p.PendingTasksCounter.Subscribe(func(o, n int) {}), G.g.PendingChildrenCounter.Subscribe(func(o, n int) {})}
	steps := []func(){
		func() { e.submitChild(e.P, nil) },
		func() { e.submitChild(e.mkPool(G, e.fresh("later"), 1, 0), nil) },
		func() { e.submitChild(e.P, func(f func()) { e.P.p.Submit(f, "trace-a", "trace-b") }) },
		func() { e.submitChild(e.P, func(f func()) { deb(f) }) },
	}
	for _, i := range rng.Perm(len(steps)) {
		if !e.call("step", steps[i]) {
			e.viol("submit-never-returns", "a Submit / CreatePool of the held-results scenario is parked or panicked")
			return
		}
		waitQuiescent()
		if keys(held) != copyOf {
			e.viol("held/held-result-changed", "the map returned by Group.Pools() changed while the caller held it: %s -> %s", copyOf, keys(held))
			return
		}
		e.count("disc_held_results_rechecked", 1)
	}
	before := keys(root.g.Pools())
	for k := range held {
		delete(held, k)
	}
	held["bogus"] = nil
	e.count("disc_held_results_scribbled", 1)
	if after := keys(root.g.Pools()); after != before {
		e.viol("held/library-state-shared-with-returned-map", "after the caller emptied the map returned by Group.Pools(), Pools() reads %s, before %s", after, before)
		return
	}
	if p, ok := G.g.Pool("P"); !ok || p != e.P.p {
		e.viol("held/library-state-shared-with-returned-map", "after the caller emptied the map returned by Group.Pools(), Group.Pool(\"P\") no longer finds the pool")
		return
	}
	// unsubscribe handles: twice, and the group's own tracking must survive
	for _, u := range unsubs {
		u()
		u()
	}
	e.count("disc_held_unsubscribe_called_twice", len(unsubs))
	g := make(chan struct{})
	t := &dTask{strict: true}
	e.P.add(t)
	e.P.p.Submit(func() { t.runs.Add(1); <-g })
	wa := gdump.NewActor("waitchildren")
	st := do(wa, root.g.WaitChildren)
	close(g)
	waitQuiescent()
	if st != gdump.Blocked {
		e.viol("group/wait-returned-while-pool-pending", "after third-party unsubscribe handles were called twice, WaitChildren(root) returned while a task of pool P is accepted and unfinished")
		return
	}
	if wa.Busy() {
		e.viol("group/wait-parked-although-idle", "after third-party unsubscribe handles were called twice, WaitChildren(root) stays parked although every task finished")
		return
	}
	wa.Close()
	// a DebounceFunc handle kept over a restart
	P := e.P
	P.shut.Store(true)
	if !e.call("Shutdown", func() { P.p.Shutdown() }) || !e.call("Wait", P.p.ShutdownComplete.Wait) {
		e.viol("shutdown-hangs/other", "Shutdown(); ShutdownComplete.Wait() of the idle pool P never returns (held-results scenario)")
		return
	}
	stopped := &dTask{}
	P.add(stopped)
	if !e.call("held debounce on the stopped pool", func() { deb(func() { stopped.runs.Add(1) }) }) {
		e.viol("submit-never-returns", "a held DebounceFunc handle called on the stopped pool is parked or panicked")
		return
	}
	if !e.call("Start", func() { P.p.Start() }) {
		e.viol("start-never-returns", "Start() of pool P after a completed shutdown is parked for ever")
		return
	}
	again := &dTask{}
	P.add(again)
	if !e.call("held debounce after restart", func() { deb(func() { again.runs.Add(1) }) }) {
		e.viol("submit-never-returns", "a held DebounceFunc handle called after the restart is parked or panicked")
		return
	}
	waitQuiescent()
	if stopped.runs.Load() != 0 {
		e.viol("rejected-task-ran", "a task submitted through a held DebounceFunc handle while the pool was stopped ran %d times", stopped.runs.Load())
		return
	}
	if again.runs.Load() != 1 {
		e.viol("accepted-task-not-run-while-running", "a task submitted through a DebounceFunc handle obtained before Shutdown/Start ran %d times on the restarted pool", again.runs.Load())
		return
	}
	e.count("disc_held_handles_used_after_restart", 1)
	e.finish()
}

// ---------------------------------------------------------------- unrecovered task panics (own child processes)

// runTaskPanicChild: a task panics and nobody recovers. On the unchanged tree the worker goroutine dies with the
// user's panic and takes the process with it (accepted: it is the user's panic). A tree that survives must keep
// the statement: the panicking task counts as finished, the pool keeps working and shuts down.
func runTaskPanicChild(c *vf.Ctx, variant int) {
	res := discResult{Cfg: discCfg{Seed: c.Seed, Idx: -1 - variant}, Class: "taskpanic", Shape: fmt.Sprintf("taskpanic/%d", variant)}
	e := newEnv(&res)
	rng := rand.New(rand.NewSource(c.Seed*31 + int64(variant)))
	e.build(rng, variant%3)
	e.phase = "taskpanic"
	n := 2 + rng.Intn(4)
	for i := 0; i < n; i++ {
		e.submitChild(e.P, nil)
	}
	waitQuiescent()
	ran := 0
	for _, t := range e.P.tasks {
		ran += int(t.runs.Load())
	}
	c.Emit("taskpanic-before", map[string]int{"submitted": n, "ran": ran, "counter": e.P.p.PendingTasksCounter.Get()})
	t := &dTask{}
	e.P.add(t)
	e.P.p.Submit(func() { t.runs.Add(1); panic(userPanic) })
	waitQuiescent()
	// still alive: the tree recovers task panics
	c.Emit("taskpanic-survived", true)
	ok := e.call("WaitIsZero", e.P.p.PendingTasksCounter.WaitIsZero)
	if !ok {
		e.viol("panicking-task/pending-counter-never-returns-to-zero", "a task panicked, the process survived, but PendingTasksCounter.WaitIsZero() of the otherwise idle pool is parked for ever: the panicking task is never accounted as finished")
	} else {
		e.submitChild(e.P, nil)
		e.finish()
	}
	reportDisc(c, res)
}

func runTaskPanicParent(c *vf.Ctx, variant int) {
	res := runChild(c, vf.ChildOpts{Name: "taskpanic", Args: []string{strconv.Itoa(variant)}, Timeout: 5 * time.Minute})
	before, survived := false, false
	for _, r := range res.Records {
		switch r.Kind {
		case "taskpanic-before":
			var m map[string]int
			if json.Unmarshal(r.V, &m) == nil {
				before = true
				if m["ran"] != m["submitted"] || m["counter"] != 0 {
					c.Violation("accepted-task-not-run-while-running", fmt.Sprintf("before the panicking task: %d tasks submitted to the running pool, %d ran, counter %d at structural quiescence", m["submitted"], m["ran"], m["counter"]), replayRec{Mode: "disc", Detail: detail(m)})
				}
			}
		case "taskpanic-survived":
			survived = true
		}
	}
	switch {
	case before && !survived && strings.HasPrefix(res.Fatal, "panic:") && strings.Contains(res.Stderr, userPanic):
		c.Count("disc_unrecovered_task_panic_killed_the_process", 1)
	case before && survived && res.ExitCode == 0 && !res.TimedOut:
		c.Count("disc_unrecovered_task_panic_survived", 1)
	default:
		childDied(c, fmt.Sprintf("task-panic child %d", variant), res)
	}
	c.Count("disc_unrecovered_task_panic_children", 1)
}

// discNotes records what the unchanged tree does where the statement is silent (nothing is demanded there).
func discNotes(c *vf.Ctx) {
	if n := c.Get("disc_unrecovered_task_panic_killed_the_process"); n > 0 {
		c.Note(fmt.Sprintf("a task that panics is not recovered by the pool: the worker goroutine dies with the user's panic and the process ends (%d child processes); nothing is demanded beyond conservation up to that point", n))
	}
	if n := c.Get("disc_subscriber_panic_left_counter_raised"); n > 0 {
		c.Note(fmt.Sprintf("robustness (outside the statement): a PendingTasksCounter subscriber that panics inside Submit leaves the counter raised although the task was never queued (%d scenarios) - the pool can then never drain; no lock is left held, later Submits run. Nothing demanded about the counter value", n))
	}
	if n := c.Get("disc_duplicate_createpool_replaced_registered_pool"); n > 0 {
		c.Note(fmt.Sprintf("robustness (outside the statement): Group.CreatePool with the name of a running pool panics only after it replaced the registered pool by the new, never started one (%d scenarios): Group.Shutdown no longer reaches the running pool. Not demanded", n))
	}
	var probes []string
	for _, k := range []string{"Counter.Get/same-counter", "WorkerPool.Submit/same-pool", "unsubscribe/itself", "WorkerPool.Shutdown/same-pool-inside-Submit"} {
		probes = append(probes, fmt.Sprintf("%s parked %d / returned %d", k, c.Get("disc_subscriber_selfdeadlock_probe_parked:"+k), c.Get("disc_subscriber_selfdeadlock_probe_returned:"+k)))
	}
	c.Note("counter subscribers run under the counter's own lock: calls from a subscriber into the same counter / pool self-dead-lock on the unchanged tree (probed, never judged): " + strings.Join(probes, "; "))
}

func dbgDump() {
	if os.Getenv("C16_DEBUG_DISC") != "" {
		buf := make([]byte, 1<<20)
		os.Stderr.Write(buf[:runtime.Stack(buf, true)])
	}
}
