package main

import (
	"fmt"
	"math/rand"
	"os"
	"runtime"
	"strings"
	"sync"
	"sync/atomic"

	"github.com/iotaledger/hive.go/runtime/options"
	"github.com/iotaledger/hive.go/runtime/workerpool"
	"verif/harness/internal/gdump"
)

// stressCfg is one free-running (jittered) run; replay format.
type stressCfg struct {
	Seed        int64 `json:"seed"`
	Run         int   `json:"run"`
	Race        bool  `json:"race_build"`
	Pools       int   `json:"pools"`
	Group       bool  `json:"group"`
	Workers     []int `json:"workers"`
	Cancel      bool  `json:"cancel"`
	Submitters  int   `json:"submitters"`
	PerSub      int   `json:"per_submitter"`
	Nest        int   `json:"nest"`
	Cycles      int   `json:"cycles"`
	NoWait      bool  `json:"restart_without_wait"` // controller calls Shutdown(); Start() without ShutdownComplete.Wait() in between
	PanicOpt    bool  `json:"panic_opt"`
	Watchers    bool  `json:"watchers"`     // third parties parked on Queue / PendingTasksCounter waits before any Submit
	DoubleStart bool  `json:"double_start"` // every restart is done by two concurrent Start callers
	AllBusy     bool  `json:"all_busy"`     // pool 0: every worker is held in a task until the controller has entered its first Shutdown; the tasks then call back into the pool
}

func genStress(seed int64, run int, race bool) stressCfg {
	rng := rand.New(rand.NewSource(seed*7919 + int64(run)))
	c := stressCfg{Seed: seed, Run: run, Race: race}
	c.Pools = 1 + rng.Intn(3)
	c.Group = rng.Intn(3) == 0
	counts := append([]int{1, 2, 3, 4, 5, 8}, bigWorkerCounts()...)
	for i := 0; i < c.Pools; i++ {
		c.Workers = append(c.Workers, counts[rng.Intn(len(counts))])
	}
	c.Cancel = rng.Intn(2) == 0
	c.Submitters = 1 + rng.Intn(8)
	c.PerSub = 5 + rng.Intn(40)
	c.Nest = rng.Intn(3)
	c.Cycles = rng.Intn(4)
	c.NoWait = rng.Intn(4) == 0
	c.PanicOpt = rng.Intn(3) == 0
	c.Watchers = rng.Intn(3) == 0
	c.DoubleStart = rng.Intn(3) == 0
	if c.AllBusy = rng.Intn(3) == 0; c.AllBusy {
		c.Cycles = max(c.Cycles, 1)
	}
	return c
}

type sTask struct {
	pool  atomic.Int32
	runs  atomic.Int32
	start atomic.Uint64
}

type window struct{ from, to uint64 } // (Wait-return tick, next Start-call tick) of one pool

type stressResult struct {
	Cfg               stressCfg `json:"cfg"`
	Outcomes          []outcome `json:"outcomes"`
	Findings          []finding `json:"-"`
	Rejected          int64     `json:"submits_seen_not_running"`
	Submitted         int64     `json:"submit_calls"`
	Overlap           bool      `json:"submit_overlapped_shutdown"`
	Hits              [3]int64  `json:"yield_hits"`
	Stuck             string    `json:"stuck,omitempty"`
	GrpWaits          int64     `json:"group_waits_returned"`
	Blind             string    `json:"blind,omitempty"`
	Recovered         int64     `json:"recovered_submit_panics"`
	AllBusyAtShutdown bool      `json:"all_workers_busy_when_shutdown_was_called"`
}

type spool struct {
	pool         *workerpool.WorkerPool
	obs          *poolObs
	mu           sync.Mutex
	win          []window
	sdFrom, sdTo []uint64 // Shutdown call / return ticks (overlap measure only)
}

// safeCounterQueue reads counter and queue size through an actor, so that a
// lock held for ever shows up as -1 instead of hanging the harness.
func safeCounterQueue(pool *workerpool.WorkerPool) (cnt, q int) {
	a := gdump.NewActor("probe")
	var x, y atomic.Int64
	x.Store(-1)
	y.Store(-1)
	do(a, func() {
		x.Store(int64(pool.PendingTasksCounter.Get()))
		y.Store(int64(pool.Queue.Size()))
	})
	a.Close()
	return int(x.Load()), int(y.Load())
}

func runStress(cfg stressCfg) (res stressResult) {
	res.Cfg = cfg
	before := idSet(gdump.Snapshot())
	curGate.Store(nil)
	jit := &jitterT{seed: uint64(cfg.Seed)<<20 + uint64(cfg.Run), sleep: false} // no timers: a sleeping goroutine shows up as [semacquire] in -race builds and would pass for parked
	curJitter.Store(jit)
	defer curJitter.Store(nil)

	var pools []*spool
	var root *workerpool.Group
	if cfg.Group {
		root = workerpool.NewGroup("root")
		sub := root.CreateGroup("sub")
		for i := 0; i < cfg.Pools; i++ {
			g := root
			if i%2 == 1 {
				g = sub
			}
			opts := []options.Option[workerpool.WorkerPool]{workerpool.WithCancelPendingTasksOnShutdown(cfg.Cancel), workerpool.WithPanicOnSubmitAfterShutdown(cfg.PanicOpt)}
			if cfg.Workers[i] > 0 {
				opts = append(opts, workerpool.WithWorkerCount(cfg.Workers[i]))
			}
			p := g.CreatePool(fmt.Sprintf("p%d", i), opts...)
			pools = append(pools, &spool{pool: p})
		}
	} else {
		for i := 0; i < cfg.Pools; i++ {
			opts := []options.Option[workerpool.WorkerPool]{workerpool.WithCancelPendingTasksOnShutdown(cfg.Cancel), workerpool.WithPanicOnSubmitAfterShutdown(cfg.PanicOpt)}
			if cfg.Workers[i] > 0 {
				opts = append(opts, workerpool.WithWorkerCount(cfg.Workers[i]))
			}
			p := workerpool.New(fmt.Sprintf("p%d", i), opts...)
			pools = append(pools, &spool{pool: p})
		}
	}
	wantG := 0
	for _, p := range pools {
		p.obs = observe(p.pool)
		p.pool.Start()
		wantG += p.pool.WorkerCount() + 1
	}
	if p0 := patternOf(waitQuiescent(), before); p0.total() != wantG || p0.InTask != 0 || p0.Other != 0 || p0.NDisp > len(pools) {
		res.Blind = fmt.Sprintf("structural rules identify %q instead of %d dispatchers + %d idle workers right after Start", p0.String(), len(pools), wantG-len(pools))
		for _, p := range pools {
			p.pool.Shutdown()
		}
		return
	}

	if cfg.Watchers {
		never := 1 << 20
		for _, p := range pools {
			p := p
			go p.pool.Queue.WaitSizeIsAbove(never)
			go p.pool.Queue.WaitSizeIsBelow(0)
			go p.pool.PendingTasksCounter.WaitIsAbove(never)
			go p.pool.PendingTasksCounter.WaitIsBelow(-never)
		}
		waitQuiescent()
	}
	maxTasks := cfg.Submitters*cfg.PerSub*4 + 2*effWorkers(cfg.Workers[0]) + 8
	recs := make([]sTask, maxTasks)
	var next, submitCalls, notRunning atomic.Int64
	var overlap atomic.Bool

	var recovered atomic.Int64
	var submit func(rng *rand.Rand, depth int)
	submit = func(rng *rand.Rand, depth int) {
		id := next.Add(1) - 1
		if id >= int64(maxTasks) {
			return
		}
		pi := rng.Intn(len(pools))
		t := &recs[id]
		t.pool.Store(int32(pi))
		childSeed := rng.Int63()
		spawn := depth < cfg.Nest && rng.Intn(3) == 0
		p := pools[pi]
		submitCalls.Add(1)
		c0 := now()
		defer func() {
			if r := recover(); r != nil {
				recovered.Add(1) // rejected Submit with the panic option: the caller carries on
			}
		}()
		p.pool.Submit(func() {
			t.start.Store(now())
			t.runs.Add(1)
			if childSeed&3 == 0 {
				runtime.Gosched()
			}
			if spawn {
				submit(rand.New(rand.NewSource(childSeed)), depth+1)
			}
		})
		c1 := now()
		if !p.pool.IsRunning() {
			notRunning.Add(1)
		}
		p.mu.Lock()
		for i := range p.sdFrom {
			to := ^uint64(0)
			if i < len(p.sdTo) {
				to = p.sdTo[i]
			}
			if c0 < to && p.sdFrom[i] < c1 {
				overlap.Store(true)
			}
		}
		p.mu.Unlock()
	}

	var subsDone atomic.Bool
	var ctrlStage atomic.Value
	ctrlStage.Store("")
	busyGate := make(chan struct{})
	var busyStarted atomic.Int64
	var allBusyAtShutdown atomic.Bool
	if cfg.AllBusy {
		p0 := pools[0]
		nw := p0.pool.WorkerCount()
		for k := 0; k < nw; k++ {
			id := next.Add(1) - 1
			t := &recs[id]
			t.pool.Store(0)
			k := k
			p0.pool.Submit(func() {
				t.start.Store(now())
				t.runs.Add(1)
				busyStarted.Add(1)
				<-busyGate
				// call back into the pool that is (being) shut down
				p0.pool.IsRunning()
				p0.pool.PendingTasksCounter.Get()
				if k%2 == 0 {
					submit(rand.New(rand.NewSource(cfg.Seed+int64(k))), cfg.Nest) // no further nesting
				}
			})
		}
		waitQuiescent()
		// opener: once the controller has entered its first Shutdown (or everything else is over) let the tasks go
		go func() {
			for ctrlStage.Load().(string) == "" && !subsDone.Load() {
				runtime.Gosched()
			}
			allBusyAtShutdown.Store(busyStarted.Load() == int64(nw) && ctrlStage.Load().(string) != "")
			for k := 0; k < 20; k++ {
				runtime.Gosched()
			}
			close(busyGate)
		}()
	}
	var subsLeft atomic.Int64
	subsLeft.Store(int64(cfg.Submitters))
	for s := 0; s < cfg.Submitters; s++ {
		rng := rand.New(rand.NewSource(cfg.Seed*31 + int64(cfg.Run)*131 + int64(s)))
		go func() {
			defer func() {
				if subsLeft.Add(-1) == 0 {
					subsDone.Store(true)
				}
			}()
			for i := 0; i < cfg.PerSub; i++ {
				submit(rng, 0)
				if rng.Intn(4) == 0 {
					runtime.Gosched()
				}
			}
		}()
	}
	// controller: Shutdown / Wait / Start cycles at seeded submission counts
	ctrlDone := make(chan struct{})
	var ctrlPool atomic.Int32
	crng := rand.New(rand.NewSource(cfg.Seed*53 + int64(cfg.Run)))
	total := int64(cfg.Submitters * cfg.PerSub)
	go func() {
		defer close(ctrlDone)
		for cy := 0; cy < cfg.Cycles; cy++ {
			thr := total*int64(cy+1)/int64(cfg.Cycles+1) + int64(crng.Intn(5))
			for submitCalls.Load() < thr && !subsDone.Load() {
				runtime.Gosched()
			}
			pi := crng.Intn(len(pools))
			if cfg.AllBusy && cy == 0 {
				pi = 0
			}
			p := pools[pi]
			ctrlPool.Store(int32(pi))
			ctrlStage.Store("Shutdown")
			f := now()
			p.mu.Lock()
			p.sdFrom = append(p.sdFrom, f)
			p.mu.Unlock()
			p.pool.Shutdown()
			t := now()
			p.mu.Lock()
			p.sdTo = append(p.sdTo, t)
			p.mu.Unlock()
			if !cfg.NoWait {
				ctrlStage.Store("ShutdownComplete.Wait")
				p.pool.ShutdownComplete.Wait()
				wr := now()
				for k := crng.Intn(6); k > 0; k-- {
					runtime.Gosched()
				}
				sc := now()
				p.mu.Lock()
				p.win = append(p.win, window{wr, sc})
				p.mu.Unlock()
			}
			ctrlStage.Store("Start")
			if cfg.DoubleStart {
				second := make(chan struct{})
				go func() { p.pool.Start(); close(second) }()
				p.pool.Start()
				// wait for the second caller unconditionally: a Start that is still in flight while the next
				// cycle's ShutdownComplete.Wait() runs is a sync.WaitGroup reuse (Add during Wait) and panics in
				// the waiter - a known hazard of the exported WaitGroup that this family does not exercise
				<-second
			} else {
				p.pool.Start()
			}
			ctrlStage.Store("")
		}
	}()
	var grpWaits atomic.Int64
	var inWaitChildren atomic.Bool
	if root != nil {
		// parks in WaitChildren while something is pending and in WaitIsAbove(0) while nothing is (never spins)
		go func() {
			for {
				inWaitChildren.Store(true)
				root.WaitChildren()
				inWaitChildren.Store(false)
				grpWaits.Add(1)
				root.PendingChildrenCounter.WaitIsAbove(0)
			}
		}()
	}
	// Wait structurally (not on a WaitGroup: a submitter parked for ever inside
	// Submit must not put the harness' main goroutine to sleep as well):
	// everything that can still happen happens before quiescence.
	gs0 := waitQuiescent()
	stuckSubs := subsLeft.Load()
	stuckWhere := ""
	if stuckSubs > 0 {
		if dbg := os.Getenv("C16_DEBUG_DIR"); dbg != "" {
			var b strings.Builder
			for _, g := range gs0 {
				b.WriteString(g.Raw + "\n\n")
			}
			os.WriteFile(fmt.Sprintf("%s/stuck-%d-%d.txt", dbg, os.Getpid(), cfg.Run), []byte(b.String()), 0o644)
		}
		for _, g := range gs0 {
			if !before[g.ID] && g.Has(pkgWP+"(*WorkerPool).Submit") && !isPoolGoroutine(g) {
				stuckWhere += fmt.Sprintf("[%s: %s] ", g.State, strings.Join(g.Frames[:min(5, len(g.Frames))], " < "))
			}
		}
	}
	subsDone.Store(true)
	gs1 := waitQuiescent()
	select {
	case <-ctrlDone:
		// every pool is running again and nothing can happen any more: all accepted tasks must have run,
		// and there must be exactly one dispatcher and WorkerCount() workers per pool
		for i, p := range pools {
			if cnt, q := safeCounterQueue(p.pool); cnt != 0 || q != 0 {
				res.Findings = append(res.Findings, finding{"accepted-task-not-run-while-running", fmt.Sprintf("stress: pool %d is running and everything is parked, but PendingTasksCounter=%d Queue.Size()=%d (%s)", i, cnt, q, patternOf(gs1, before))})
				break
			}
		}
		if p1 := patternOf(gs1, before); len(res.Findings) == 0 && (p1.NDisp > len(pools) || p1.total() != wantG) {
			res.Findings = append(res.Findings, finding{"start/pool-started-twice", fmt.Sprintf("stress: %d pools with %d goroutines in total are running, but the snapshot shows %d dispatchers and %d pool goroutines (%s)", len(pools), wantG, p1.NDisp, p1.total(), p1)})
		}
	default:
	}
	stuckPool := -1
	select {
	case <-ctrlDone:
	default:
		res.Stuck = ctrlStage.Load().(string) // the controller is parked for ever inside a Shutdown cycle
		stuckPool = int(ctrlPool.Load())
	}
	// final shutdown of every (other) pool, observed structurally
	sh := gdump.NewActor("final-shutdown")
	wt := make([]*gdump.Actor, len(pools))
	shutRet := make([]bool, len(pools))
	for i, p := range pools {
		p := p
		if i == stuckPool || sh.Busy() {
			continue
		}
		f := now()
		p.mu.Lock()
		p.sdFrom = append(p.sdFrom, f)
		p.mu.Unlock()
		shutRet[i] = do(sh, func() { p.pool.Shutdown() }) == gdump.Returned
		wt[i] = gdump.NewActor("final-wait")
		do(wt[i], func() { p.pool.ShutdownComplete.Wait() })
	}
	gs := waitQuiescent()
	all := recs[:min(int(next.Load()), maxTasks)]
	for i, p := range pools {
		var o outcome
		o.CancelOpt = cfg.Cancel
		o.ShutdownCalled = true
		if i == stuckPool {
			o.ShutdownReturned = res.Stuck != "Shutdown"
			o.WaitReturned = res.Stuck == "Start"
			if res.Stuck == "Start" {
				o.StartStuck = "after-shutdown-complete"
				if cfg.NoWait {
					o.StartStuck = "before-shutdown-complete"
				}
			}
		} else {
			o.ShutdownReturned = shutRet[i]
			o.WaitReturned = wt[i] != nil && !wt[i].Busy()
		}
		o.Accepted, o.Finished, o.ChainBad = p.obs.counts()
		for k := range all {
			t := &all[k]
			if int(t.pool.Load()) != i {
				continue
			}
			r := int(t.runs.Load())
			o.Ran += r
			o.MaxRuns = max(o.MaxRuns, r)
			if s := t.start.Load(); s != 0 {
				for _, w := range p.win {
					if s > w.from && s < w.to {
						o.StartedAfter++
					}
				}
			}
		}
		o.Counter, o.Queue = safeCounterQueue(p.pool)
		if o.WaitReturned && o.StartStuck == "" {
			// the workers only leave after the dispatcher closed the channel as its last statement
			o.pat = poolPattern{Dispatcher: "gone"}
		} else {
			// every healthy pool has been shut down: what is left belongs to the hung one(s)
			o.pat = patternOf(gs, before)
		}
		o.Pattern = o.pat.String()
		res.Outcomes = append(res.Outcomes, o)
		if stuckPool >= 0 && i != stuckPool {
			// liveness of the other pools cannot be judged once one pool hangs (their tasks may be parked inside
			// the hung pool's Submit, the leftover goroutines cannot be attributed): safety only
			o = outcome{MaxRuns: o.MaxRuns, ChainBad: o.ChainBad, StartedAfter: o.StartedAfter, CancelOpt: true}
		}
		res.Findings = append(res.Findings, classify(o)...)
	}
	if stuckSubs > 0 && len(res.Findings) == 0 {
		res.Findings = append(res.Findings, finding{"submit-never-returns", fmt.Sprintf("%d submitter goroutine(s) are parked for ever inside Submit at structural quiescence: %s", stuckSubs, stuckWhere)})
	}
	if root != nil && len(res.Findings) == 0 {
		// all pools idle and terminated: the group waiter must have come back
		if inWaitChildren.Load() {
			res.Findings = append(res.Findings, finding{"group/wait-parked-although-idle", "Group.WaitChildren() is parked for ever although every pool below the group has finished all tasks"})
		}
	}
	if !sh.Busy() {
		sh.Close()
	}
	for _, a := range wt {
		if a != nil {
			a.Close()
		}
	}
	res.Submitted = submitCalls.Load()
	res.Rejected = notRunning.Load()
	res.Overlap = overlap.Load()
	res.GrpWaits = grpWaits.Load()
	res.Recovered = recovered.Load()
	res.AllBusyAtShutdown = allBusyAtShutdown.Load()
	for i := range res.Hits {
		res.Hits[i] = jit.hits[i].Load()
	}
	return
}
