package main

import (
	"fmt"
	"math/rand"
	"os"
	"runtime"
	"sync/atomic"

	"github.com/iotaledger/hive.go/runtime/syncutils"
	"github.com/iotaledger/hive.go/runtime/workerpool"
	"verif/harness/internal/gdump"
)

// groupCfg: a seeded group tree with gated tasks (replay format).
type groupCfg struct {
	Seed int64 `json:"seed"`
	Idx  int   `json:"idx"`
}

type gnode struct {
	name   string
	g      *workerpool.Group
	parent *gnode
	pools  []int // indices into sc.pools
}

type gpool struct {
	name    string
	pool    *workerpool.WorkerPool
	node    *gnode
	workers int
}

type grTask struct {
	pool      int
	spawn     int // pool index of a task submitted from inside this one, -1 = none
	gate      chan struct{}
	submitted atomic.Bool
	finished  atomic.Bool
	runs      atomic.Int32
	child     *grTask
}

type groupResult struct {
	Cfg       groupCfg  `json:"cfg"`
	Tree      string    `json:"tree"`
	Steps     []string  `json:"steps"`
	Findings  []finding `json:"-"`
	Checks    int       `json:"checks"`
	Parked    int       `json:"parked_observations"`
	Returned  int       `json:"returned_observations"`
	ObsSubs   int       `json:"observer_subscribes"`
	ObsUnsubs int       `json:"observer_unsubscribes"`

	IndivStopped   int `json:"pools_shut_down_individually_before_group_shutdown"`
	MixedShutdowns int `json:"group_shutdowns_over_stopped_and_running_pools"`
	StoppedByGroup int `json:"pools_verified_stopped_after_group_shutdown"`

	SubgroupShutdowns int `json:"subgroups_shut_down_before_the_root"`
}

func (n *gnode) under(m *gnode) bool {
	for x := n; x != nil; x = x.parent {
		if x == m {
			return true
		}
	}
	return false
}

// runGroup: WaitChildren must be parked exactly while a pool below the group
// has an accepted, unfinished task (all tasks are gated by the harness, one
// gate is opened per step, every step ends at structural quiescence).
func runGroup(cfg groupCfg) (res groupResult) {
	if cfg.Idx%2 == 1 {
		return runGroupConcurrent(cfg)
	}
	res.Cfg = cfg
	rng := rand.New(rand.NewSource(cfg.Seed*1000003 + int64(cfg.Idx)))
	step := func(f string, a ...any) { res.Steps = append(res.Steps, fmt.Sprintf(f, a...)) }
	viol := func(fp, f string, a ...any) {
		res.Findings = append(res.Findings, finding{fp, fmt.Sprintf(f, a...)})
	}
	curGate.Store(nil)

	// ---- tree
	root := &gnode{name: "root", g: workerpool.NewGroup("root")}
	nodes := []*gnode{root}
	var pools []*gpool
	addPool := func(n *gnode) {
		w := 1 + rng.Intn(3)
		name := fmt.Sprintf("p%d", len(pools))
		p := n.g.CreatePool(name, workerpool.WithWorkerCount(w))
		n.pools = append(n.pools, len(pools))
		pools = append(pools, &gpool{name: name, pool: p, node: n, workers: w})
	}
	nGroups := 1 + rng.Intn(4)
	for i := 1; i <= nGroups; i++ {
		par := nodes[rng.Intn(len(nodes))]
		nodes = append(nodes, &gnode{name: fmt.Sprintf("g%d", i), g: par.g.CreateGroup(fmt.Sprintf("g%d", i)), parent: par})
	}
	nPools := 2 + rng.Intn(3)
	for i := 0; i < nPools; i++ {
		addPool(nodes[rng.Intn(len(nodes))])
	}
	for _, n := range nodes {
		par := "-"
		if n.parent != nil {
			par = n.parent.name
		}
		res.Tree += fmt.Sprintf("%s(parent=%s pools=%v) ", n.name, par, n.pools)
	}

	var tasks []*grTask
	var body func(t *grTask) func()
	body = func(t *grTask) func() {
		return func() {
			t.runs.Add(1)
			<-t.gate
			if t.child != nil {
				pools[t.child.pool].pool.Submit(body(t.child))
				t.child.submitted.Store(true)
			}
			t.finished.Store(true)
		}
	}
	pending := func(n *gnode) (k int) {
		for _, t := range tasks {
			if t.submitted.Load() && !t.finished.Load() && pools[t.pool].node.under(n) {
				k++
			}
		}
		return
	}

	// ---- waiters
	type waiter struct {
		n      *gnode
		a      *gdump.Actor
		issued bool
		via    string
	}
	var ws []*waiter
	ws = append(ws, &waiter{n: root, a: gdump.NewActor("wait-root"), via: "WaitChildren"})
	for _, i := range rng.Perm(len(nodes) - 1) {
		if len(ws) >= 3 {
			break
		}
		ws = append(ws, &waiter{n: nodes[i+1], a: gdump.NewActor("wait-" + nodes[i+1].name), via: "WaitChildren"})
	}
	if len(nodes) > 1 {
		// WaitParents of a sub group waits for the root's children
		ws = append(ws, &waiter{n: root, a: gdump.NewActor("waitparents"), via: "WaitParents:" + nodes[len(nodes)-1].name})
	}
	defer func() {
		for _, w := range ws {
			w.a.Close()
		}
	}()
	call := func(w *waiter) func() {
		if w.via == "WaitChildren" {
			return w.n.g.WaitChildren
		}
		return nodes[len(nodes)-1].g.WaitParents
	}
	check := func(at string) {
		waitQuiescent()
		for _, w := range ws {
			p := pending(w.n)
			res.Checks++
			if w.issued {
				if w.a.Busy() {
					res.Parked++
					if p == 0 {
						viol("group/wait-parked-although-idle", "%s(%s) is parked at quiescence (%s) although no pool below the group has a pending task", w.via, w.n.name, at)
					}
					continue
				}
				res.Returned++
				w.issued = false
				if p > 0 {
					viol("group/wait-returned-while-pool-pending", "%s(%s) returned (%s) while %d task(s) below the group are accepted and unfinished", w.via, w.n.name, at, p)
				}
			}
			// (re-)issue
			st := do(w.a, call(w))
			w.issued = st == gdump.Blocked
			if st == gdump.Blocked {
				res.Parked++
				if p == 0 {
					viol("group/wait-parked-although-idle", "%s(%s) called at quiescence (%s) with no pending task below the group does not return", w.via, w.n.name, at)
				}
			} else {
				res.Returned++
				if p > 0 {
					viol("group/wait-returned-while-pool-pending", "%s(%s) called (%s) while %d task(s) below the group are accepted and unfinished returned immediately", w.via, w.n.name, at, p)
				}
			}
		}
	}

	// third-party observers subscribe to / unsubscribe from the exported counters at seeded points
	type observer struct {
		unsub func()
		calls *atomic.Int64
	}
	var obsv []observer
	subscribeTo := func(c *syncutils.Counter) {
		n := new(atomic.Int64)
		obsv = append(obsv, observer{c.Subscribe(func(o, nw int) { n.Add(1) }), n})
		res.ObsSubs++
	}
	churn := func() {
		switch rng.Intn(4) {
		case 0:
			subscribeTo(pools[rng.Intn(len(pools))].pool.PendingTasksCounter)
		case 1:
			subscribeTo(nodes[rng.Intn(len(nodes))].g.PendingChildrenCounter)
		case 2:
			if len(obsv) > 0 {
				i := rng.Intn(len(obsv))
				obsv[i].unsub()
				obsv = append(obsv[:i], obsv[i+1:]...)
				res.ObsUnsubs++
			}
		}
	}
	// always: one observer that comes and goes before any task
	firstUnsub := pools[rng.Intn(len(pools))].pool.PendingTasksCounter.Subscribe(func(o, nw int) {})
	res.ObsSubs++
	churn()
	firstUnsub()
	res.ObsUnsubs++
	check("all pools idle")
	rounds := 1 + rng.Intn(2)
	for r := 0; r < rounds; r++ {
		n := 2 + rng.Intn(5)
		var batch []*grTask
		for i := 0; i < n; i++ {
			t := &grTask{pool: rng.Intn(len(pools)), spawn: -1, gate: make(chan struct{})}
			if rng.Intn(3) == 0 {
				t.child = &grTask{pool: rng.Intn(len(pools)), spawn: -1, gate: make(chan struct{})}
			}
			tasks = append(tasks, t)
			batch = append(batch, t)
			if t.child != nil {
				tasks = append(tasks, t.child)
				batch = append(batch, t.child)
			}
			churn()
			pools[t.pool].pool.Submit(body(t))
			t.submitted.Store(true)
			check(fmt.Sprintf("round %d: task submitted to %s", r, pools[t.pool].name))
		}
		for _, i := range rng.Perm(len(batch)) {
			churn()
			close(batch[i].gate)
			check(fmt.Sprintf("round %d: gate of a task in %s opened", r, pools[batch[i].pool].name))
		}
	}
	step("%d tasks in %d pools, %d groups, %d waiters", len(tasks), len(pools), len(nodes), len(ws))
	for _, t := range tasks {
		if t.runs.Load() != 1 {
			viol("group/task-not-run-exactly-once", "a task of pool %s ran %d times (no shutdown involved)", pools[t.pool].name, t.runs.Load())
		}
	}
	// release parked waiters (none should be) and shut the tree down
	sd := gdump.NewActor("group-shutdown")
	defer sd.Close()
	var ps []*workerpool.WorkerPool
	var names []string
	var paths [][]*workerpool.Group
	for _, p := range pools {
		ps = append(ps, p.pool)
		names = append(names, p.node.name+"/"+p.name)
		var path []*workerpool.Group
		for x := p.node; x != root; x = x.parent {
			path = append([]*workerpool.Group{x.g}, path...)
		}
		paths = append(paths, path)
	}
	var subs []*workerpool.Group
	for _, n := range nodes[1:] {
		subs = append(subs, n.g)
	}
	shutdownMixedTree(rng, &res, root.g, ps, names, paths, subs, sd, viol)
	return
}

// shutdownMixedTree ends a group scenario (every pool idle): a seeded subset of the pools (any position in creation
// order) is shut down individually first and some of those are restarted; a seeded subset of the subgroups is shut
// down (Group.Shutdown) and some pools below them are restarted; then the root group is shut down. After every
// Group.Shutdown each pool below that group for which no group on the path had been shut down before is stopped:
// IsRunning() false, ShutdownComplete.Wait() returns; at the end a Submit on a stopped pool is not run.
// paths[i] = the groups from below the root down to the group holding pools[i]; subs = all subgroups in creation order.
func shutdownMixedTree(rng *rand.Rand, res *groupResult, root *workerpool.Group, pools []*workerpool.WorkerPool, names []string, paths [][]*workerpool.Group, subs []*workerpool.Group, sd *gdump.Actor, viol func(fp, f string, a ...any)) {
	state := make([]string, len(pools))
	stopPool := func(i int) bool {
		p := pools[i]
		if st := do(sd, func() { p.Shutdown() }); st != gdump.Returned {
			viol("shutdown-call-never-returns", "Shutdown() of the idle pool %s is parked for ever", names[i])
			return false
		}
		if st := do(sd, p.ShutdownComplete.Wait); st != gdump.Returned {
			viol("group/pool-shutdown-hangs", "pool %s, shut down individually while idle, never completes its shutdown (%s)", names[i], patternOf(gdump.Snapshot(), nil))
			return false
		}
		return true
	}
	startPool := func(i int) bool {
		p := pools[i]
		if st := do(sd, func() { p.Start() }); st != gdump.Returned {
			viol("start-never-returns", "Start() of pool %s after a completed shutdown is parked for ever", names[i])
			return false
		}
		return true
	}
	for i := range pools {
		state[i] = "running"
		if rng.Intn(3) != 0 {
			continue
		}
		if !stopPool(i) {
			return
		}
		state[i] = "stopped"
		res.IndivStopped++
		if rng.Intn(3) == 0 {
			if !startPool(i) {
				return
			}
			state[i] = "restarted"
		}
	}
	shut := map[*workerpool.Group]bool{}
	history := func() (h string, stopped, running int) {
		for i := range pools {
			h += names[i] + "=" + state[i] + " "
			if state[i] == "stopped" {
				stopped++
			} else {
				running++
			}
		}
		return
	}
	// groupShutdown calls from.Shutdown() (from == nil: the root) and verifies what it has to stop
	groupShutdown := func(from *workerpool.Group, fromName string) bool {
		var must []int
		for i := range pools {
			k := 0
			if from != nil {
				k = -1
				for j, g := range paths[i] {
					if g == from {
						k = j
					}
				}
				if k < 0 {
					continue // not below from
				}
			}
			fresh := true
			for _, g := range paths[i][k:] {
				fresh = fresh && !shut[g]
			}
			if fresh {
				must = append(must, i)
			}
		}
		h, stopped, running := history()
		if stopped > 0 && running > 0 && len(must) > 0 {
			res.MixedShutdowns++
		}
		g := root
		if from != nil {
			g = from
		}
		if st := do(sd, g.Shutdown); st != gdump.Returned {
			viol("group/shutdown-never-returns", "Group(%s).Shutdown() of an idle tree is parked for ever (pools in creation order: %s)", fromName, h)
			return false
		}
		for _, i := range must {
			if pools[i].IsRunning() {
				viol("group/pool-running-after-group-shutdown", "Group(%s).Shutdown() returned but pool %s below it still reports IsRunning(): it was never shut down (no group between them had been shut down before; pools in creation order before the call: %s)", fromName, names[i], h)
				return false
			}
		}
		for _, i := range must {
			if st := do(sd, pools[i].ShutdownComplete.Wait); st != gdump.Returned {
				viol("group/pool-shutdown-hangs", "after Group(%s).Shutdown() pool %s never completes its shutdown (%s; pools in creation order before the call: %s)", fromName, names[i], patternOf(gdump.Snapshot(), nil), h)
				return false
			}
			state[i] = "stopped"
			res.StoppedByGroup++
		}
		if from != nil {
			shut[from] = true
			for i := range pools { // descendants of from
				for j, g := range paths[i] {
					if g == from {
						for _, d := range paths[i][j:] {
							shut[d] = true
						}
					}
				}
			}
		}
		return true
	}
	for k, g := range subs {
		if rng.Intn(4) == 0 {
			if !groupShutdown(g, fmt.Sprintf("subgroup #%d", k+1)) {
				return
			}
			res.SubgroupShutdowns++
		}
	}
	// some stopped pools are restarted (also below subgroups that were shut down: the root's shutdown does not reach those)
	for i := range pools {
		if state[i] == "stopped" && rng.Intn(4) == 0 {
			if !startPool(i) {
				return
			}
			state[i] = "restarted"
		}
	}
	if !groupShutdown(nil, "root") {
		return
	}
	// pools the root's shutdown could not reach (restarted below a subgroup that had been shut down): stopped directly
	for i, p := range pools {
		if p.IsRunning() {
			if !stopPool(i) {
				return
			}
		}
	}
	var late atomic.Int32
	for i, p := range pools {
		p := p
		if st := do(sd, func() { p.Submit(func() { late.Add(1) }) }); st != gdump.Returned {
			viol("submit-never-returns", "Submit on pool %s after Group.Shutdown() is parked for ever", names[i])
			return
		}
		sd.TakePanic()
	}
	waitQuiescent()
	if late.Load() != 0 {
		h, _, _ := history()
		viol("group/task-ran-after-group-shutdown", "%d task(s) submitted after every pool of the tree had completed its shutdown were run (%s)", late.Load(), h)
	}
}

// runGroupConcurrent: groups and pools are created (CreateGroup / CreatePool)
// concurrently with goroutines that look them up by name (Group(name) /
// Pool(name), spinning until present) and submit a gated task immediately.
// Afterwards the step-wise oracle of runGroup applies on every level:
// WaitChildren / WaitParents parked iff something below is pending, group
// counters never negative and zero iff nothing below is pending, Shutdown of
// the tree terminates.
//
// Schedule search (affects which interleavings are tried, never a verdict):
// half of the lookers fire their Submit when the process' goroutine count
// shows that the pool's Start has spawned its last worker, after a seeded
// number of spin iterations - this scans the instants right after Start.
var dbgGroup = os.Getenv("C16_DEBUG_GROUP") != ""

func runGroupConcurrent(cfg groupCfg) (res groupResult) {
	res.Cfg = cfg
	rng := rand.New(rand.NewSource(cfg.Seed*1000003 + int64(cfg.Idx)))
	step := func(f string, a ...any) { res.Steps = append(res.Steps, fmt.Sprintf(f, a...)) }
	viol := func(fp, f string, a ...any) {
		res.Findings = append(res.Findings, finding{fp, fmt.Sprintf(f, a...)})
	}
	curGate.Store(nil)

	type gplan struct {
		name   string
		parent int // index into groups, -1 = root
		path   []string
		g      atomic.Pointer[workerpool.Group]
	}
	type pplan struct {
		name    string
		group   int // index into groups, -1 = root
		workers int
		task    *grTask
		pool    atomic.Pointer[workerpool.WorkerPool]
		precise bool
		delay   int
		target  int
		done    atomic.Bool
	}
	root := workerpool.NewGroup("root")
	nG := rng.Intn(4)
	groups := make([]*gplan, nG)
	for i := range groups {
		par := rng.Intn(i+1) - 1
		gp := &gplan{name: fmt.Sprintf("g%d", i+1), parent: par}
		if par >= 0 {
			gp.path = append(append([]string{}, groups[par].path...), gp.name)
		} else {
			gp.path = []string{gp.name}
		}
		groups[i] = gp
	}
	nP := 2 + rng.Intn(4)
	pools := make([]*pplan, nP)
	for i := range pools {
		pools[i] = &pplan{name: fmt.Sprintf("p%d", i), group: rng.Intn(nG+1) - 1, workers: []int{1, 2, 4, 8, 16}[rng.Intn(5)],
			task: &grTask{pool: i, spawn: -1, gate: make(chan struct{})}, precise: rng.Intn(2) == 0, delay: rng.Intn(400)}
	}
	for _, g := range groups {
		res.Tree += fmt.Sprintf("%s(parent=%d) ", g.name, g.parent)
	}
	for _, p := range pools {
		res.Tree += fmt.Sprintf("%s(group=%d workers=%d precise=%v) ", p.name, p.group, p.workers, p.precise)
	}
	groupOf := func(i int) *workerpool.Group {
		if i < 0 {
			return root
		}
		return groups[i].g.Load()
	}
	// waiters are created before the goroutine count is taken
	type waiter struct {
		node   int // -1 root
		a      *gdump.Actor
		issued bool
		via    string
	}
	ws := []*waiter{{node: -1, a: gdump.NewActor("wait-root"), via: "WaitChildren"}}
	for i := range groups {
		ws = append(ws, &waiter{node: i, a: gdump.NewActor("wait-" + groups[i].name), via: "WaitChildren"})
	}
	if nG > 0 {
		ws = append(ws, &waiter{node: -1, a: gdump.NewActor("waitparents"), via: "WaitParents"})
	}
	sd := gdump.NewActor("group-shutdown")
	defer func() {
		for _, w := range ws {
			w.a.Close()
		}
		sd.Close()
	}()

	barrier, hold := make(chan struct{}), make(chan struct{})
	body := func(t *grTask) func() {
		return func() {
			t.runs.Add(1)
			<-t.gate
			t.finished.Store(true)
		}
	}
	for _, p := range pools {
		p := p
		go func() {
			<-barrier
			// look the group chain and the pool up by name
			g := root
			if p.group >= 0 {
				for _, name := range groups[p.group].path {
					for {
						if sub, ok := g.Group(name); ok {
							g = sub
							break
						}
						runtime.Gosched()
					}
				}
			}
			var pool *workerpool.WorkerPool
			for {
				if x, ok := g.Pool(p.name); ok {
					pool = x
					break
				}
				runtime.Gosched()
			}
			if p.precise {
				for k := 0; runtime.NumGoroutine() < p.target && k < 1<<21; k++ {
					if k&63 == 63 {
						runtime.Gosched()
					}
				}
				if dbgGroup {
					fmt.Fprintf(os.Stderr, "DBG pool=%s target=%d now=%d\n", p.name, p.target, runtime.NumGoroutine())
				}
				for k := 0; k < p.delay; k++ {
					_ = tick.Load()
				}
			}
			for {
				pool.Submit(body(p.task))
				if pool.PendingTasksCounter.Get() > 0 || p.task.runs.Load() > 0 {
					break // accepted (this looker is the only submitter of the pool)
				}
				runtime.Gosched()
			}
			p.task.submitted.Store(true)
			p.done.Store(true)
			<-hold // keep the goroutine count stable
		}()
	}
	creatorDone := make(chan struct{})
	go func() {
		<-barrier
		for _, gp := range groups {
			gp.g.Store(groupOf(gp.parent).CreateGroup(gp.name))
			runtime.Gosched()
		}
		for _, p := range pools {
			p.pool.Store(groupOf(p.group).CreatePool(p.name, workerpool.WithWorkerCount(p.workers)))
			if p.delay&1 == 0 {
				runtime.Gosched()
			}
		}
		close(creatorDone)
		<-hold
	}()
	waitQuiescent()
	base := runtime.NumGoroutine()
	for i, p := range pools {
		p.target = base + p.workers + 1
		for _, q := range pools[:i] {
			p.target += q.workers + 1
		}
	}
	close(barrier)
	waitQuiescent()
	defer close(hold)
	select {
	case <-creatorDone:
	default:
		viol("group/create-never-returns", "CreateGroup/CreatePool is parked for ever while other goroutines look the children up and submit")
		return
	}
	for _, p := range pools {
		if !p.done.Load() {
			viol("group/lookup-or-submit-never-returns", "a goroutine that looks pool %s up by name and submits is parked for ever", p.name)
			return
		}
	}
	step("%d groups and %d pools created concurrently with %d lookers; every looker's task accepted", nG, nP, nP)

	under := func(pg, node int) bool { // is group index pg (-1 root) inside node
		for x := pg; ; x = groups[x].parent {
			if x == node {
				return true
			}
			if x < 0 {
				return false
			}
		}
	}
	pending := func(node int) (k int) {
		for _, p := range pools {
			if p.task.submitted.Load() && !p.task.finished.Load() && (node == -1 || under(p.group, node)) {
				k++
			}
		}
		return
	}
	name := func(node int) string {
		if node < 0 {
			return "root"
		}
		return groups[node].name
	}
	call := func(w *waiter) func() {
		if w.via == "WaitChildren" {
			return groupOf(w.node).WaitChildren
		}
		return groups[nG-1].g.Load().WaitParents
	}
	check := func(at string) {
		waitQuiescent()
		for node := -1; node < nG; node++ {
			cnt := groupOf(node).PendingChildrenCounter.Get()
			p := pending(node)
			res.Checks++
			if cnt < 0 {
				viol("group/counter-negative", "PendingChildrenCounter of group %s is %d at quiescence (%s)", name(node), cnt, at)
			} else if (cnt == 0) != (p == 0) {
				viol("group/counter-disagrees-with-pending", "PendingChildrenCounter of group %s is %d at quiescence (%s) while %d task(s) below the group are accepted and unfinished", name(node), cnt, at, p)
			}
		}
		for _, w := range ws {
			p := pending(w.node)
			res.Checks++
			if w.issued {
				if w.a.Busy() {
					res.Parked++
					if p == 0 {
						viol("group/wait-parked-although-idle", "%s(%s) is parked at quiescence (%s) although no pool below the group has a pending task", w.via, name(w.node), at)
					}
					continue
				}
				res.Returned++
				w.issued = false
				if p > 0 {
					viol("group/wait-returned-while-pool-pending", "%s(%s) returned (%s) while %d task(s) below the group are accepted and unfinished", w.via, name(w.node), at, p)
				}
			}
			st := do(w.a, call(w))
			w.issued = st == gdump.Blocked
			if st == gdump.Blocked {
				res.Parked++
				if p == 0 {
					viol("group/wait-parked-although-idle", "%s(%s) called at quiescence (%s) with no pending task below the group does not return", w.via, name(w.node), at)
				}
			} else {
				res.Returned++
				if p > 0 {
					viol("group/wait-returned-while-pool-pending", "%s(%s) called (%s) while %d task(s) below the group are accepted and unfinished returned immediately: the pool was found by name and used before the group tracked it", w.via, name(w.node), at, p)
				}
			}
		}
	}
	var unsubs []func()
	churn := func() {
		switch rng.Intn(4) {
		case 0:
			unsubs = append(unsubs, pools[rng.Intn(nP)].pool.Load().PendingTasksCounter.Subscribe(func(o, n int) {}))
			res.ObsSubs++
		case 1:
			unsubs = append(unsubs, groupOf(rng.Intn(nG+1)-1).PendingChildrenCounter.Subscribe(func(o, n int) {}))
			res.ObsSubs++
		case 2:
			if len(unsubs) > 0 {
				i := rng.Intn(len(unsubs))
				unsubs[i]()
				unsubs = append(unsubs[:i], unsubs[i+1:]...)
				res.ObsUnsubs++
			}
		}
	}
	firstUnsub := pools[rng.Intn(nP)].pool.Load().PendingTasksCounter.Subscribe(func(o, n int) {})
	res.ObsSubs++
	churn()
	firstUnsub()
	res.ObsUnsubs++
	check("after concurrent creation and submission")
	for _, i := range rng.Perm(nP) {
		if len(res.Findings) > 0 {
			break
		}
		churn()
		close(pools[i].task.gate)
		check(fmt.Sprintf("gate of the task in %s opened", pools[i].name))
	}
	if len(res.Findings) > 0 {
		for _, p := range pools { // let everything drain
			select {
			case <-p.task.gate:
			default:
				close(p.task.gate)
			}
		}
		return
	}
	for _, p := range pools {
		if p.task.runs.Load() != 1 {
			viol("group/task-not-run-exactly-once", "the task of pool %s ran %d times", p.name, p.task.runs.Load())
		}
	}
	var ps []*workerpool.WorkerPool
	var names []string
	var paths [][]*workerpool.Group
	for _, p := range pools { // plan order = creation order
		ps = append(ps, p.pool.Load())
		names = append(names, fmt.Sprintf("g%d/%s", p.group+1, p.name))
		var path []*workerpool.Group
		for x := p.group; x >= 0; x = groups[x].parent {
			path = append([]*workerpool.Group{groups[x].g.Load()}, path...)
		}
		paths = append(paths, path)
	}
	var subs []*workerpool.Group
	for _, g := range groups {
		subs = append(subs, g.g.Load())
	}
	shutdownMixedTree(rng, &res, root, ps, names, paths, subs, sd, viol)
	return
}
