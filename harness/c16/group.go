package main

import (
	"fmt"
	"math/rand"
	"sync/atomic"

	"github.com/iotaledger/hive.go/runtime/workerpool"
	"verif/harness/internal/gdump"
)

// groupCfg: a seeded group tree with gated tasks (replay format).
type groupCfg struct {
	Seed int64 `json:"seed"`
	Idx  int   `json:"idx"`
}

type gnode struct {
	name   string
	g      *workerpool.Group
	parent *gnode
	pools  []int // indices into sc.pools
}

type gpool struct {
	name    string
	pool    *workerpool.WorkerPool
	node    *gnode
	workers int
}

type grTask struct {
	pool      int
	spawn     int // pool index of a task submitted from inside this one, -1 = none
	gate      chan struct{}
	submitted atomic.Bool
	finished  atomic.Bool
	runs      atomic.Int32
	child     *grTask
}

type groupResult struct {
	Cfg      groupCfg  `json:"cfg"`
	Tree     string    `json:"tree"`
	Steps    []string  `json:"steps"`
	Findings []finding `json:"-"`
	Checks   int       `json:"checks"`
	Parked   int       `json:"parked_observations"`
	Returned int       `json:"returned_observations"`
}

func (n *gnode) under(m *gnode) bool {
	for x := n; x != nil; x = x.parent {
		if x == m {
			return true
		}
	}
	return false
}

// runGroup: WaitChildren must be parked exactly while a pool below the group
// has an accepted, unfinished task (all tasks are gated by the harness, one
// gate is opened per step, every step ends at structural quiescence).
func runGroup(cfg groupCfg) (res groupResult) {
	res.Cfg = cfg
	rng := rand.New(rand.NewSource(cfg.Seed*1000003 + int64(cfg.Idx)))
	step := func(f string, a ...any) { res.Steps = append(res.Steps, fmt.Sprintf(f, a...)) }
	viol := func(fp, f string, a ...any) {
		res.Findings = append(res.Findings, finding{fp, fmt.Sprintf(f, a...)})
	}
	curGate.Store(nil)

	// ---- tree
	root := &gnode{name: "root", g: workerpool.NewGroup("root")}
	nodes := []*gnode{root}
	var pools []*gpool
	addPool := func(n *gnode) {
		w := 1 + rng.Intn(3)
		name := fmt.Sprintf("p%d", len(pools))
		p := n.g.CreatePool(name, workerpool.WithWorkerCount(w))
		n.pools = append(n.pools, len(pools))
		pools = append(pools, &gpool{name: name, pool: p, node: n, workers: w})
	}
	nGroups := 1 + rng.Intn(4)
	for i := 1; i <= nGroups; i++ {
		par := nodes[rng.Intn(len(nodes))]
		nodes = append(nodes, &gnode{name: fmt.Sprintf("g%d", i), g: par.g.CreateGroup(fmt.Sprintf("g%d", i)), parent: par})
	}
	nPools := 2 + rng.Intn(3)
	for i := 0; i < nPools; i++ {
		addPool(nodes[rng.Intn(len(nodes))])
	}
	for _, n := range nodes {
		par := "-"
		if n.parent != nil {
			par = n.parent.name
		}
		res.Tree += fmt.Sprintf("%s(parent=%s pools=%v) ", n.name, par, n.pools)
	}

	var tasks []*grTask
	var body func(t *grTask) func()
	body = func(t *grTask) func() {
		return func() {
			t.runs.Add(1)
			<-t.gate
			if t.child != nil {
				pools[t.child.pool].pool.Submit(body(t.child))
				t.child.submitted.Store(true)
			}
			t.finished.Store(true)
		}
	}
	pending := func(n *gnode) (k int) {
		for _, t := range tasks {
			if t.submitted.Load() && !t.finished.Load() && pools[t.pool].node.under(n) {
				k++
			}
		}
		return
	}

	// ---- waiters
	type waiter struct {
		n      *gnode
		a      *gdump.Actor
		issued bool
		via    string
	}
	var ws []*waiter
	ws = append(ws, &waiter{n: root, a: gdump.NewActor("wait-root"), via: "WaitChildren"})
	for _, i := range rng.Perm(len(nodes) - 1) {
		if len(ws) >= 3 {
			break
		}
		ws = append(ws, &waiter{n: nodes[i+1], a: gdump.NewActor("wait-" + nodes[i+1].name), via: "WaitChildren"})
	}
	if len(nodes) > 1 {
		// WaitParents of a sub group waits for the root's children
		ws = append(ws, &waiter{n: root, a: gdump.NewActor("waitparents"), via: "WaitParents:" + nodes[len(nodes)-1].name})
	}
	defer func() {
		for _, w := range ws {
			w.a.Close()
		}
	}()
	call := func(w *waiter) func() {
		if w.via == "WaitChildren" {
			return w.n.g.WaitChildren
		}
		return nodes[len(nodes)-1].g.WaitParents
	}
	check := func(at string) {
		waitQuiescent()
		for _, w := range ws {
			p := pending(w.n)
			res.Checks++
			if w.issued {
				if w.a.Busy() {
					res.Parked++
					if p == 0 {
						viol("group/wait-parked-although-idle", "%s(%s) is parked at quiescence (%s) although no pool below the group has a pending task", w.via, w.n.name, at)
					}
					continue
				}
				res.Returned++
				w.issued = false
				if p > 0 {
					viol("group/wait-returned-while-pool-pending", "%s(%s) returned (%s) while %d task(s) below the group are accepted and unfinished", w.via, w.n.name, at, p)
				}
			}
			// (re-)issue
			st := do(w.a, call(w))
			w.issued = st == gdump.Blocked
			if st == gdump.Blocked {
				res.Parked++
				if p == 0 {
					viol("group/wait-parked-although-idle", "%s(%s) called at quiescence (%s) with no pending task below the group does not return", w.via, w.n.name, at)
				}
			} else {
				res.Returned++
				if p > 0 {
					viol("group/wait-returned-while-pool-pending", "%s(%s) called (%s) while %d task(s) below the group are accepted and unfinished returned immediately", w.via, w.n.name, at, p)
				}
			}
		}
	}

	check("all pools idle")
	rounds := 1 + rng.Intn(2)
	for r := 0; r < rounds; r++ {
		n := 2 + rng.Intn(5)
		var batch []*grTask
		for i := 0; i < n; i++ {
			t := &grTask{pool: rng.Intn(len(pools)), spawn: -1, gate: make(chan struct{})}
			if rng.Intn(3) == 0 {
				t.child = &grTask{pool: rng.Intn(len(pools)), spawn: -1, gate: make(chan struct{})}
			}
			tasks = append(tasks, t)
			batch = append(batch, t)
			if t.child != nil {
				tasks = append(tasks, t.child)
				batch = append(batch, t.child)
			}
			pools[t.pool].pool.Submit(body(t))
			t.submitted.Store(true)
			check(fmt.Sprintf("round %d: task submitted to %s", r, pools[t.pool].name))
		}
		for _, i := range rng.Perm(len(batch)) {
			close(batch[i].gate)
			check(fmt.Sprintf("round %d: gate of a task in %s opened", r, pools[batch[i].pool].name))
		}
	}
	step("%d tasks in %d pools, %d groups, %d waiters", len(tasks), len(pools), len(nodes), len(ws))
	for _, t := range tasks {
		if t.runs.Load() != 1 {
			viol("group/task-not-run-exactly-once", "a task of pool %s ran %d times (no shutdown involved)", pools[t.pool].name, t.runs.Load())
		}
	}
	// release parked waiters (none should be) and shut the tree down
	sd := gdump.NewActor("group-shutdown")
	defer sd.Close()
	if st := do(sd, root.g.Shutdown); st != gdump.Returned {
		viol("group/shutdown-never-returns", "Group.Shutdown() of an idle tree is parked for ever")
		return
	}
	for _, p := range pools {
		p := p
		if st := do(sd, p.pool.ShutdownComplete.Wait); st != gdump.Returned {
			gs := gdump.Snapshot()
			viol("group/pool-shutdown-hangs", "after Group.Shutdown() pool %s never completes its shutdown (%s)", p.name, patternOf(gs, nil))
			return
		}
	}
	return
}
