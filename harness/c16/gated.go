package main

import (
	"fmt"
	"math/rand"
	"runtime"
	"sync/atomic"

	"github.com/iotaledger/hive.go/runtime/workerpool"
	"verif/harness/internal/gdump"
)

// gatedCfg is one deterministic schedule (also the replay format).
type gatedCfg struct {
	Kind       string `json:"kind"`        // submit | popwait | drain | restart-nowait
	Workers    int    `json:"workers"`     // worker count
	Cancel     bool   `json:"cancel"`      // WithCancelPendingTasksOnShutdown
	Point      string `json:"point"`       // gated yield point
	Preload    int    `json:"preload"`     // submit/drain: tasks submitted first, each blocked on its own harness gate; popwait: >0 = the dispatched tasks are gated
	Order      string `json:"order"`       // gate-first | tasks-first : what is released first after Shutdown
	FromTask   bool   `json:"from_task"`   // the gated Submit is issued from inside a running task
	Shutdown   bool   `json:"shutdown"`    // false = control variant: no Shutdown, the probe task must simply run
	Restart    bool   `json:"restart"`     // Start again afterwards, submit, shut down again
	PopSkip    int    `json:"pop_skip"`    // popwait: tasks dispatched before the dispatcher is parked at the gate
	PushDuring bool   `json:"push_during"` // popwait: a Submit arrives while the dispatcher sits at the gate
	Callback   string `json:"callback"`    // allbusy: what every task does after its gate opens: isrunning | submit | counter | all
	Variant    string `json:"variant"`     // cstart: fresh | stopped | draining
	Starters   int    `json:"starters"`    // cstart: number of concurrent Start callers
	Group      bool   `json:"group"`       // watchers: pool created through a Group
	PanicOpt   bool   `json:"panic_opt"`   // options: WithPanicOnSubmitAfterShutdown(true); callers recover the panic and continue
}

// bigWorkerCounts: worker counts around the default (2*NumCPU) that are not already among the literal counts
// 1..4, without duplicates; 0 = no WithWorkerCount option (the default).
func bigWorkerCounts() []int {
	n := runtime.NumCPU()
	seen := map[int]bool{1: true, 2: true, 3: true, 4: true}
	var out []int
	for _, w := range []int{2*n - 1, 2 * n, 2*n + 1, 2*n + 5, 4 * n} {
		if w >= 1 && !seen[w] {
			seen[w] = true
			out = append(out, w)
		}
	}
	return append(out, 0)
}

// allWorkerCounts: the literal counts plus bigWorkerCounts.
func allWorkerCounts() []int { return append([]int{1, 2, 3, 4}, bigWorkerCounts()...) }

// workerClasses lists EVERY class a worker count belongs to (evidence counters; on machines with few cores
// the literal counts 1..4 also are 2N-1, 2N, 2N+1 ...): literal 1-4, default (no option), and the position
// relative to 2*NumCPU. Every class is inhabited for any NumCPU >= 1.
func workerClasses(w int) []string {
	n := 2 * runtime.NumCPU()
	var c []string
	if w == 0 {
		c = append(c, "default")
	}
	e := effWorkers(w)
	if e <= 4 && w != 0 {
		c = append(c, "1-4")
	}
	switch {
	case e < n:
		c = append(c, "below-2ncpu")
	case e == n:
		c = append(c, "2ncpu")
	default:
		c = append(c, "above-2ncpu")
	}
	return c
}

// workerClass: the relative class only (used to spread the quick sample over the classes).
func workerClass(w int) string {
	cs := workerClasses(w)
	return cs[len(cs)-1]
}

func effWorkers(w int) int {
	if w == 0 {
		return 2 * runtime.NumCPU()
	}
	return w
}

func (g gatedCfg) key() string {
	return fmt.Sprintf("%s/%s/w%d/c%v/p%d/%s/ft%v/sd%v/rs%v/ps%d/pd%v/cb%s", g.Kind, g.Point, g.Workers, g.Cancel, g.Preload, g.Order, g.FromTask, g.Shutdown, g.Restart, g.PopSkip, g.PushDuring, g.Callback) + fmt.Sprintf("/%s/s%d/g%v/po%v", g.Variant, g.Starters, g.Group, g.PanicOpt)
}

// allGated enumerates the configuration space (deterministic order).
func allGated() []gatedCfg {
	var out []gatedCfg
	for _, w := range []int{1, 2, 3, 4} {
		for _, cancel := range []bool{false, true} {
			for _, rs := range []bool{false, true} {
				preloads := []int{0, 1, w, w + 2, 3*w + 2}
				if w == 1 {
					preloads = []int{0, 1, 3, 5}
				}
				for _, pre := range preloads {
					orders := []string{"gate-first"}
					if pre > 0 {
						orders = append(orders, "tasks-first")
					}
					for _, ord := range orders {
						for _, pt := range []string{ptAfterCheck, ptBeforePush} {
							for _, ft := range []bool{false, true} {
								out = append(out, gatedCfg{Kind: "submit", Workers: w, Cancel: cancel, Point: pt, Preload: pre, Order: ord, FromTask: ft, Shutdown: true, Restart: rs})
								if !rs && ord == "gate-first" {
									out = append(out, gatedCfg{Kind: "submit", Workers: w, Cancel: cancel, Point: pt, Preload: pre, Order: ord, FromTask: ft})
								}
							}
						}
					}
					if pre > 0 {
						out = append(out, gatedCfg{Kind: "drain", Workers: w, Cancel: cancel, Preload: pre, Order: "tasks-first", Shutdown: true, Restart: rs})
					}
					if !rs {
						out = append(out, gatedCfg{Kind: "restart-nowait", Workers: w, Cancel: cancel, Preload: pre, Order: "tasks-first", Shutdown: true})
					}
				}
				for _, skip := range []int{0, 1, 2} {
					for _, gatedTasks := range []int{0, 1} {
						if skip == 0 && gatedTasks == 1 {
							continue
						}
						for _, ord := range []string{"gate-first", "tasks-first"} {
							if gatedTasks == 0 && ord == "tasks-first" {
								continue
							}
							for _, pd := range []bool{false, true} {
								out = append(out, gatedCfg{Kind: "popwait", Workers: w, Cancel: cancel, Point: ptBeforeWait, Preload: gatedTasks, Order: ord, Shutdown: true, Restart: rs, PopSkip: skip, PushDuring: pd})
							}
						}
					}
				}
			}
		}
	}
	// worker counts around and above the default 2*NumCPU (reduced sub-space)
	for _, w0 := range bigWorkerCounts() {
		w := effWorkers(w0)
		for _, cancel := range []bool{false, true} {
			for _, pt := range []string{ptAfterCheck, ptBeforePush} {
				for _, ft := range []bool{false, true} {
					out = append(out, gatedCfg{Kind: "submit", Workers: w0, Cancel: cancel, Point: pt, Preload: 0, Order: "gate-first", FromTask: ft, Shutdown: true})
					out = append(out, gatedCfg{Kind: "submit", Workers: w0, Cancel: cancel, Point: pt, Preload: w, Order: "tasks-first", FromTask: ft, Shutdown: true, Restart: true})
				}
			}
			for _, skip := range []int{0, 1} {
				out = append(out, gatedCfg{Kind: "popwait", Workers: w0, Cancel: cancel, Point: ptBeforeWait, Preload: skip, Order: "gate-first", Shutdown: true, PopSkip: skip, PushDuring: skip == 1})
			}
			out = append(out, gatedCfg{Kind: "drain", Workers: w0, Cancel: cancel, Preload: w + 2, Order: "tasks-first", Shutdown: true, Restart: true})
			out = append(out, gatedCfg{Kind: "restart-nowait", Workers: w0, Cancel: cancel, Preload: w, Order: "tasks-first", Shutdown: true})
			out = append(out, gatedCfg{Kind: "restart-nowait", Workers: w0, Cancel: cancel, Preload: 3*w + 2, Order: "tasks-first", Shutdown: true})
		}
	}
	out = append(out, allBusy()...)
	out = append(out, extraGated()...)
	return out
}

// allBusy: every worker sits in a task held at a harness gate when Shutdown is
// called; after its gate opens each task calls back into the pool.
func allBusy() []gatedCfg {
	var out []gatedCfg
	for _, w0 := range allWorkerCounts() {
		w := effWorkers(w0)
		for _, cancel := range []bool{false, true} {
			for _, cb := range []string{"isrunning", "submit", "counter", "all"} {
				out = append(out, gatedCfg{Kind: "allbusy", Workers: w0, Cancel: cancel, Preload: w, Order: "tasks-first", Shutdown: true, Callback: cb})
			}
			out = append(out, gatedCfg{Kind: "allbusy", Workers: w0, Cancel: cancel, Preload: w + 3, Order: "tasks-first", Shutdown: true, Callback: "all", Restart: true})
		}
	}
	return out
}

// gatedList is the tier's case list: quick = every core combination plus a
// seeded sample, thorough = the whole space.
func gatedList(rng *rand.Rand, quick bool) []gatedCfg {
	all := allGated()
	if !quick {
		return all
	}
	seen := map[string]bool{}
	var out []gatedCfg
	for _, g := range append(allBusy(), extraGated()...) {
		seen[g.key()] = true
		out = append(out, g)
	}
	for _, g := range all {
		k := fmt.Sprintf("%s/%s/%v/%v/%v/%d/%s/%v/%v/%d", g.Kind, g.Point, g.Cancel, g.Shutdown, g.FromTask, min(effWorkers(g.Workers), 2), workerClass(g.Workers), g.Preload > effWorkers(g.Workers), g.PushDuring, g.PopSkip)
		if !seen[k] {
			seen[k] = true
			seen[g.key()] = true
			out = append(out, g)
		}
	}
	for _, i := range rng.Perm(len(all)) {
		if len(out) >= 680 {
			break
		}
		if g := all[i]; !seen[g.key()] {
			seen[g.key()] = true
			out = append(out, g)
		}
	}
	return out
}

type gtask struct {
	id      int
	runs    atomic.Int32
	started atomic.Uint64 // tick of (last) start
	gate    chan struct{} // nil = ungated
	opened  bool
}

type gatedResult struct {
	Cfg             gatedCfg  `json:"cfg"`
	Out             outcome   `json:"outcome"`
	Restart         *outcome  `json:"restart_outcome,omitempty"`
	Steps           []string  `json:"steps"`
	Findings        []finding `json:"-"`
	Inconcl         string    `json:"inconclusive,omitempty"`
	AllBusy         bool      `json:"all_workers_busy_at_shutdown"`
	RejectedSubmits int       `json:"rejected_submits"`
	RecoveredPanics int       `json:"recovered_submit_panics"`
	Workers         int       `json:"effective_workers"`
}

// runGated executes one schedule. Every wait is structural (gdump); nothing
// here depends on a duration. preBlock != nil: instead of observing the waiter
// from outside, the calling goroutine itself blocks in ShutdownComplete.Wait()
// and PendingTasksCounter.WaitIsZero() so that the Go runtime's dead-lock
// detector gives the verdict (confirm children only); preBlock receives the
// state observed just before blocking.
func runGated(cfg gatedCfg, preBlock func(outcome, []string)) (res gatedResult) {
	if cfg.Kind == "watchers" || cfg.Kind == "cstart" || cfg.Kind == "options" {
		return runExtra(cfg)
	}
	blockMain := preBlock != nil
	res.Cfg = cfg
	step := func(f string, a ...any) { res.Steps = append(res.Steps, fmt.Sprintf(f, a...)) }
	before := idSet(gdump.Snapshot())
	curGate.Store(nil)
	defer curGate.Store(nil)

	pool := workerpool.New("probe", workerpool.WithCancelPendingTasksOnShutdown(cfg.Cancel))
	if cfg.Workers > 0 {
		pool = workerpool.New("probe", workerpool.WithWorkerCount(cfg.Workers), workerpool.WithCancelPendingTasksOnShutdown(cfg.Cancel))
	}
	obs := observe(pool)
	res.Workers = pool.WorkerCount()
	var tasks []*gtask
	newTask := func(gated bool) *gtask {
		t := &gtask{id: len(tasks)}
		if gated {
			t.gate = make(chan struct{})
		}
		tasks = append(tasks, t)
		return t
	}
	body := func(t *gtask, extra func()) func() {
		return func() {
			t.started.Store(now())
			t.runs.Add(1)
			if t.gate != nil {
				<-t.gate
			}
			if extra != nil {
				extra()
			}
		}
	}
	openTask := func(t *gtask) {
		if t.gate != nil && !t.opened {
			t.opened = true
			close(t.gate)
		}
	}

	sub := gdump.NewActor("submitter")
	sh := gdump.NewActor("shutdown")
	wt := gdump.NewActor("waiter")
	pr := gdump.NewActor("probe")
	defer func() {
		for _, a := range []*gdump.Actor{sub, sh, wt, pr} {
			a.Close()
		}
	}()
	// counter / queue size are read through an actor: if a lock they need is
	// held for ever the harness learns that structurally instead of hanging.
	counterQueue := func(wantQueue bool) (cnt, q int) {
		cnt, q = -1, -1
		if pr.Busy() {
			return
		}
		var a, b atomic.Int64
		a.Store(-1)
		b.Store(-1)
		do(pr, func() {
			a.Store(int64(pool.PendingTasksCounter.Get()))
			if wantQueue {
				b.Store(int64(pool.Queue.Size()))
			}
		})
		return int(a.Load()), int(b.Load())
	}

	var waitRet atomic.Uint64 // tick at which the first ShutdownComplete.Wait() returned
	var gate *gateT
	if cfg.Kind == "popwait" && cfg.PopSkip == 0 {
		gate = newGate(cfg.Point, 0) // park the dispatcher at its very first wait
		curGate.Store(gate)
	}
	pool.Start()
	if why := blind(patternOf(waitQuiescent(), before), pool.WorkerCount()); why != "" {
		res.Inconcl = why
		if gate != nil {
			gate.open()
		}
		do(sh, func() { pool.Shutdown() })
		return
	}
	step("Start(); quiescent")

	var probe, carrier *gtask
	switch cfg.Kind {
	case "popwait":
		// dispatch PopSkip tasks; the gate is armed before the last one: after
		// handing it over the dispatcher evaluates IsRunning()==true and reaches it
		for i := 0; i < cfg.PopSkip; i++ {
			if i == cfg.PopSkip-1 {
				gate = newGate(cfg.Point, 0)
				curGate.Store(gate)
			}
			t := newTask(cfg.Preload > 0)
			pool.Submit(body(t, nil))
			waitQuiescent()
		}
		res.Out.Reached = gate.reached.Load()
		if !res.Out.Reached {
			res.Inconcl = "dispatcher never reached " + cfg.Point
			gate.open()
			return
		}
		step("%d task(s) dispatched; dispatcher parked at %s (IsRunning()==true evaluated, stack mutex held)", cfg.PopSkip, cfg.Point)
		if cfg.PushDuring {
			t := newTask(false)
			sub.Start(func() { pool.Submit(body(t, nil)) })
			waitQuiescent()
			step("Submit issued while the dispatcher holds the stack mutex (submitter parked=%v)", sub.Busy())
		}
	case "allbusy":
		for i := 0; i < cfg.Preload; i++ {
			t := newTask(true)
			child := newTask(false) // submitted from inside t after its gate opened (rejected once the pool is stopped)
			cb := cfg.Callback
			pool.Submit(body(t, func() {
				if cb == "isrunning" || cb == "all" {
					pool.IsRunning()
				}
				if cb == "counter" || cb == "all" {
					pool.PendingTasksCounter.Get()
				}
				if cb == "submit" || cb == "all" {
					pool.Submit(body(child, nil))
				}
			}))
		}
		gs0 := waitQuiescent()
		p0 := patternOf(gs0, before)
		res.AllBusy = p0.InTask == pool.WorkerCount()
		step("%d gated task(s) with callback %q submitted to %d workers; %s", cfg.Preload, cfg.Callback, pool.WorkerCount(), p0)
		if !res.AllBusy {
			res.Inconcl = fmt.Sprintf("only %d of %d workers are busy before Shutdown", p0.InTask, pool.WorkerCount())
			for _, t := range tasks {
				openTask(t)
			}
			return
		}
	case "submit", "drain", "restart-nowait":
		if cfg.FromTask {
			carrier = newTask(true)
			probe = newTask(false)
			pool.Submit(body(carrier, func() { pool.Submit(body(probe, nil)) }))
			waitQuiescent()
		}
		for i := 0; i < cfg.Preload; i++ {
			pool.Submit(body(newTask(true), nil))
		}
		waitQuiescent()
		if cfg.Preload > 0 {
			step("%d gated task(s) submitted; %s", cfg.Preload, patternOf(gdump.Snapshot(), before))
		}
		if cfg.Kind != "submit" {
			break
		}
		gate = newGate(cfg.Point, 0)
		curGate.Store(gate)
		if cfg.FromTask {
			openTask(carrier)
		} else {
			probe = newTask(false)
			sub.Start(func() { pool.Submit(body(probe, nil)) })
		}
		waitQuiescent()
		res.Out.Reached = gate.reached.Load()
		if !res.Out.Reached {
			res.Inconcl = "Submit never reached " + cfg.Point
			gate.open()
			return
		}
		cnt, _ := counterQueue(false)
		step("Submit parked at %s (counter=%d)", cfg.Point, cnt)
	}

	if cfg.Shutdown {
		res.Out.ShutdownCalled = true
		st := do(sh, func() { pool.Shutdown() })
		step("Shutdown() -> %s", stName(st))
		if cfg.Kind == "restart-nowait" {
			// restart without waiting for the shutdown to complete (Start waits itself)
			st = do(wt, func() { pool.Start() })
			step("Start() -> %s", stName(st))
		} else if !blockMain {
			st = do(wt, func() { pool.ShutdownComplete.Wait(); waitRet.Store(now()) })
			step("ShutdownComplete.Wait() -> %s", stName(st))
		}
	}
	releaseGate := func() {
		if gate != nil {
			gate.open()
			waitQuiescent()
			cnt, _ := counterQueue(false)
			step("gate released; counter=%d", cnt)
		}
	}
	releaseTasks := func() {
		n := 0
		for _, t := range tasks {
			if t.gate != nil && !t.opened {
				openTask(t)
				waitQuiescent()
				n++
			}
		}
		if n > 0 {
			step("%d task gate(s) opened", n)
		}
	}
	if cfg.Order == "tasks-first" {
		releaseTasks()
		releaseGate()
	} else {
		releaseGate()
		releaseTasks()
	}

	var gs []gdump.G
	fill := func(o *outcome) {
		o.CancelOpt = cfg.Cancel
		o.ShutdownReturned = !sh.Busy()
		o.WaitReturned = !wt.Busy()
		o.Accepted, o.Finished, o.ChainBad = obs.counts()
		o.PendingAtWaitReturn = obs.pendingAt(waitRet.Load())
		o.Ran, o.MaxRuns = 0, 0
		for _, t := range tasks {
			r := int(t.runs.Load())
			o.Ran += r
			o.MaxRuns = max(o.MaxRuns, r)
		}
		o.pat = patternOf(gs, before)
		o.Counter, o.Queue = counterQueue(true)
		o.Pattern = o.pat.String()
	}

	if cfg.Kind == "restart-nowait" {
		gs = waitQuiescent()
		fill(&res.Out)
		if wt.Busy() {
			res.Out.StartStuck = "before-shutdown-complete"
			step("quiescent: Start() still parked; %s counter=%d queue=%d ran=%d accepted=%d", res.Out.Pattern, res.Out.Counter, res.Out.Queue, res.Out.Ran, res.Out.Accepted)
			res.Findings = classify(res.Out)
			return
		}
		// restarted: the pool must work and shut down again
		t := newTask(false)
		pool.Submit(body(t, nil))
		waitQuiescent()
		do(sh, func() { pool.Shutdown() })
		do(wt, func() { pool.ShutdownComplete.Wait() })
		gs = waitQuiescent()
		fill(&res.Out)
		step("restarted, one more task, Shutdown+Wait: %s counter=%d queue=%d ran=%d accepted=%d finished=%d", res.Out.Pattern, res.Out.Counter, res.Out.Queue, res.Out.Ran, res.Out.Accepted, res.Out.Finished)
		res.Findings = classify(res.Out)
		// the task was submitted to the restarted, running pool and the system was quiescent before the next Shutdown:
		// it must have run (cancel-on-shutdown only licenses cancelling what is pending when Shutdown is called)
		if t.runs.Load() != 1 && len(res.Findings) == 0 {
			res.Findings = append(res.Findings, restartedTaskFinding(cfg, "task submitted after Shutdown();Start()", int(t.runs.Load())))
		}
		return
	}

	if blockMain {
		gs = waitQuiescent()
		var o outcome
		o.ShutdownCalled = cfg.Shutdown
		o.Reached = res.Out.Reached
		fill(&o)
		step("before blocking: %s counter=%d queue=%d ran=%d accepted=%d finished=%d", o.Pattern, o.Counter, o.Queue, o.Ran, o.Accepted, o.Finished)
		preBlock(o, res.Steps)
		// verdict by the Go runtime: if nothing can ever wake this goroutine the
		// process is aborted with "all goroutines are asleep - deadlock!"
		if cfg.Shutdown {
			pool.ShutdownComplete.Wait()
		}
		pool.PendingTasksCounter.WaitIsZero()
		step("ShutdownComplete.Wait() and WaitIsZero() returned on the main goroutine")
	}

	gs = waitQuiescent()
	fill(&res.Out)
	if !cfg.Shutdown {
		// control variant: pool still running, every accepted task must have run
		res.Out.ShutdownReturned, res.Out.WaitReturned = true, true
	}
	step("quiescent: %s counter=%d queue=%d ran=%d accepted=%d finished=%d", res.Out.Pattern, res.Out.Counter, res.Out.Queue, res.Out.Ran, res.Out.Accepted, res.Out.Finished)
	res.Findings = classify(res.Out)
	if !cfg.Shutdown {
		if probe != nil && probe.runs.Load() != 1 {
			res.Findings = append(res.Findings, finding{"accepted-task-neither-run-nor-cancelled", fmt.Sprintf("control schedule without Shutdown: the submitted task ran %d times", probe.runs.Load())})
		}
		do(sh, func() { pool.Shutdown() }) // tidy up, not judged
		return
	}

	if cfg.Restart && res.Out.WaitReturned && res.Out.ShutdownReturned && !sub.Busy() {
		waitRet := now()
		waitQuiescent()
		startCall := now()
		st := do(sh, func() { pool.Start() })
		step("Start() -> %s", stName(st))
		t := newTask(false)
		if st == gdump.Returned {
			pool.Submit(body(t, nil))
			waitQuiescent()
			do(sh, func() { pool.Shutdown() })
			do(wt, func() { pool.ShutdownComplete.Wait() })
		}
		gs = waitQuiescent()
		var o outcome
		o.ShutdownCalled = true
		fill(&o)
		for _, t := range tasks {
			if s := t.started.Load(); s > waitRet && s < startCall {
				o.StartedAfter++ // nothing may run between Wait-return and Start
			}
		}
		res.Restart = &o
		step("after restart cycle: %s counter=%d queue=%d ran=%d accepted=%d finished=%d", o.Pattern, o.Counter, o.Queue, o.Ran, o.Accepted, o.Finished)
		fs := classify(o)
		if st != gdump.Returned {
			fs = append(fs, finding{"start-never-returns", "Start() after a completed shutdown is parked for ever (" + o.Pattern + ")"})
		} else if t.runs.Load() != 1 && len(fs) == 0 {
			fs = append(fs, restartedTaskFinding(cfg, "task submitted after restart", int(t.runs.Load())))
		}
		for _, f := range fs {
			dup := false
			for _, g := range res.Findings {
				dup = dup || g.FP == f.FP
			}
			if !dup {
				f.FP = "restart:" + f.FP
				res.Findings = append(res.Findings, f)
			}
		}
	}
	return
}

// restartedTaskFinding: a task submitted to a restarted pool that was quiescent before the next Shutdown did not
// run exactly once although conservation holds (it was marked done): the running pool cancelled it.
func restartedTaskFinding(cfg gatedCfg, what string, runs int) finding {
	if runs == 0 && cfg.Cancel {
		return finding{"task-cancelled-while-pool-running", what + " was marked done without running although the pool was running and quiescent before the next Shutdown"}
	}
	return finding{"accepted-task-neither-run-nor-cancelled", fmt.Sprintf("%s ran %d times", what, runs)}
}

func stName(s gdump.Status) string {
	if s == gdump.Returned {
		return "returned"
	}
	return "parked"
}

var _ = rand.Int
