package main

// Restart cycles with crowds of third-party watchers and every exported Wait*
// entry point as an observer ("rcycle" family).
//
// One scenario = one pool (every option combination: worker count x
// cancel-on-shutdown x panic-on-submit x stand-alone / created through a group
// chain of depth 1-3 with a sibling pool) that goes through 2-4 cycles of
//
//	run phase   – the pool is running and NO Shutdown has been called since the
//	              last Start: single Submits, a burst (tasks that submit tasks),
//	              a wave that occupies every worker. Nothing may be cancelled
//	              here, every accepted task runs exactly once.
//	busy phase  – 1 / WorkerCount / WorkerCount+2 tasks held at harness gates;
//	              every exported wait (PendingTasksCounter.WaitIsZero/WaitIsBelow,
//	              Group.WaitChildren/WaitParents, PendingChildrenCounter.WaitIsZero,
//	              ShutdownComplete.Wait) is issued by observer goroutines and by a
//	              crowd of 0-200 further goroutines, before and after Shutdown.
//	shutdown    – pool.Shutdown() while the workers are busy | Shutdown();Start()
//	              without waiting | Group.Shutdown() of an ancestor (also of one
//	              that was shut down before); a rejected Submit (panic recovered).
//	drain       – the gates are opened one by one (scripted flavour) or all at once
//	              concurrently with submitters, the Shutdown caller and more
//	              watchers (concurrent flavour).
//	restart     – Start() on the same pool, or CreatePool (same / new name) on the
//	              possibly shut-down group.
//
// Verdicts are structural (quiescent points, harness gates, logical ticks):
//   - a Wait* call returned although a task that was in progress at a harness
//     gate when the call was issued is still held there;
//   - a Wait* call is parked at quiescence although every pool of its scope has
//     finished everything it accepted;
//   - the pending counter went down more often than task bodies completed while
//     no Shutdown had been called since Start (a running pool cancelled a task),
//     or at all without cancel-on-shutdown;
//   - conservation / termination as in the other families.
//
// Not demanded: anything about Group.Shutdown's own blocking behaviour, which
// worker takes which task, goroutine counts, that Submit on a running pool
// accepts (only counted), what Queue waits do.

import (
	"fmt"
	"math/rand"
	"os"
	"runtime"
	"strings"
	"sync"
	"sync/atomic"

	"github.com/iotaledger/hive.go/runtime/options"
	"github.com/iotaledger/hive.go/runtime/workerpool"
	"verif/harness/internal/gdump"
)

type rcCfg struct {
	Seed     int64 `json:"seed"`
	Idx      int   `json:"idx"`
	Workers  int   `json:"workers"` // 0 = default
	Cancel   bool  `json:"cancel"`
	PanicOpt bool  `json:"panic_opt"`
	Tree     int   `json:"tree"` // 0 stand-alone | 1 root{P,S*} | 2 root{O, sub{P,S*}} | 3 root{mid{O, leaf{P,S*}}}; S* = 1-3 sibling pools
	Conc     bool  `json:"concurrent"`
}

func (g rcCfg) combo() string {
	return fmt.Sprintf("w%s/c%v/po%v/t%d", workerClassLabel(g.Workers), g.Cancel, g.PanicOpt, g.Tree)
}

func (g rcCfg) key() string { return fmt.Sprintf("rcycle/%s/conc%v/%d", g.combo(), g.Conc, g.Idx) }

// workerClassLabel: literal count for 1-4, "big" for the count above 2*NumCPU, "default" for no option.
func workerClassLabel(w int) string {
	switch {
	case w == 0:
		return "default"
	case w <= 4:
		return fmt.Sprint(w)
	}
	return "big"
}

// rcList: every option combination x tree shape x flavour; thorough repeats the space with further seeds.
func rcList(seed int64, quick bool) []rcCfg {
	big := 2*runtime.NumCPU() + 5
	reps := 1
	if !quick {
		reps = 6
	}
	var out []rcCfg
	for rep := 0; rep < reps; rep++ {
		for _, w := range []int{1, 2, 3, 4, big, 0} {
			for _, cancel := range []bool{false, true} {
				for _, po := range []bool{false, true} {
					for tree := 0; tree <= 3; tree++ {
						for _, conc := range []bool{false, true} {
							out = append(out, rcCfg{Seed: seed, Idx: len(out), Workers: w, Cancel: cancel, PanicOpt: po, Tree: tree, Conc: conc})
						}
					}
				}
			}
		}
	}
	return out
}

// rcCrowdSizes: third-party goroutines parked in the exported waits around one Shutdown.
var rcCrowdSizes = []int{0, 48, 400, 3000}

func init() {
	if v := os.Getenv("C16_RC_CROWD"); v != "" { // experiments only
		rcCrowdSizes = nil
		for _, f := range strings.Split(v, ",") {
			rcCrowdSizes = append(rcCrowdSizes, atoi(f))
		}
	}
}

type rcTask struct {
	p         *rcPool
	gate      chan struct{}
	opened    bool
	started   atomic.Bool
	done      atomic.Bool
	runs      atomic.Int32
	startTick atomic.Uint64
	child     *rcTask
}

type rcPool struct {
	name       string
	pool       *workerpool.WorkerPool
	obs        *poolObs
	grp        int // index into the group chain, -1 = stand-alone
	mu         sync.Mutex
	tasks      []*rcTask
	sdCalled   bool // a Shutdown (direct or through a group) may have reached the pool since its last Start
	cancelBase int  // cancellations accounted for in earlier cycles
	restarts   int
}

func (p *rcPool) add(t *rcTask) {
	p.mu.Lock()
	p.tasks = append(p.tasks, t)
	p.mu.Unlock()
}

func (p *rcPool) all() []*rcTask {
	p.mu.Lock()
	defer p.mu.Unlock()
	return append([]*rcTask(nil), p.tasks...)
}

type rcObs struct {
	api      string
	group    bool // Group-level API
	scope    []*rcPool
	anchors  []*rcTask // tasks of the scope that were in progress at a harness gate when the call was issued
	sc       *rcPool   // ShutdownComplete.Wait of this pool
	shutGrp  bool      // issued on a group that had been shut down
	crowd    bool
	ret      atomic.Bool
	wasPark  bool
	panicked atomic.Bool
}

type rcResult struct {
	Cfg      rcCfg     `json:"cfg"`
	Steps    []string  `json:"steps"`
	Findings []finding `json:"-"`
	Inconcl  string    `json:"inconclusive,omitempty"`

	Cycles          int            `json:"restart_cycles"`
	RestartVia      map[string]int `json:"restart_via"`
	ShutdownMode    map[string]int `json:"shutdown_mode"`
	BusyAtShutdown  int            `json:"shutdowns_with_busy_worker"`
	AllBusyShutdown int            `json:"shutdowns_with_every_worker_busy"`
	CrowdParked     int            `json:"crowd_watchers_parked"`
	CrowdCycles     int            `json:"cycles_with_crowd"`
	ObsParked       int            `json:"wait_observers_parked"`
	ObsReturned     int            `json:"wait_observers_returned"`
	ShutGrpParked   int            `json:"waits_parked_on_shut_down_group"`
	StrictTasks     int            `json:"tasks_run_by_restarted_pool"`
	FirstTasks      int            `json:"tasks_run_before_first_shutdown"`
	Rejected        int            `json:"rejected_submits"`
	Recovered       int            `json:"recovered_submit_panics"`
	Unaccepted      int            `json:"submits_on_running_pool_not_accepted"`
	Accepted        int            `json:"accepted"`
	Ran             int            `json:"ran"`
	Cancelled       int            `json:"cancelled"`
	GroupShutEarly  int            `json:"group_shutdown_returned_while_busy"`

	IndivStopped        int `json:"sibling_pools_shut_down_individually"`
	MixedGroupShutdowns int `json:"group_shutdowns_over_stopped_and_running_pools"`
	StoppedByGroup      int `json:"pools_verified_stopped_after_group_shutdown"`
}

func runRC(cfg rcCfg) (res rcResult) {
	res.Cfg = cfg
	res.RestartVia, res.ShutdownMode = map[string]int{}, map[string]int{}
	rng := rand.New(rand.NewSource(cfg.Seed*1000003 + int64(cfg.Idx)*7 + 3))
	step := func(f string, a ...any) { res.Steps = append(res.Steps, fmt.Sprintf(f, a...)) }
	failed := false
	viol := func(fp, f string, a ...any) {
		failed = true
		for _, x := range res.Findings {
			if x.FP == fp {
				return
			}
		}
		res.Findings = append(res.Findings, finding{fp, fmt.Sprintf(f, a...)})
		step("VIOLATION "+fp+": "+f, a...)
	}
	curGate.Store(nil)
	if cfg.Conc {
		curJitter.Store(&jitterT{seed: uint64(cfg.Seed)<<24 + uint64(cfg.Idx)<<4 + 9, sleep: false})
		defer curJitter.Store(nil)
	}
	before := idSet(gdump.Snapshot())

	// ---- tree
	var groups []*workerpool.Group
	var gname []string
	switch cfg.Tree {
	case 1:
		gname = []string{"root"}
	case 2:
		gname = []string{"root", "sub"}
	case 3:
		gname = []string{"root", "mid", "leaf"}
	}
	for i, n := range gname {
		if i == 0 {
			groups = append(groups, workerpool.NewGroup(n))
		} else {
			groups = append(groups, groups[i-1].CreateGroup(n))
		}
	}
	mkOpts := func(workers int) []options.Option[workerpool.WorkerPool] {
		o := []options.Option[workerpool.WorkerPool]{workerpool.WithCancelPendingTasksOnShutdown(cfg.Cancel)}
		if workers > 0 {
			o = append(o, workerpool.WithWorkerCount(workers))
		}
		if cfg.PanicOpt {
			o = append(o, workerpool.WithPanicOnSubmitAfterShutdown(true))
		}
		return o
	}
	var allPools []*rcPool // every pool object ever created (retired ones included)
	mkPool := func(name string, grp, workers int) *rcPool {
		p := &rcPool{name: name, grp: grp}
		if grp >= 0 {
			p.pool = groups[grp].CreatePool(name, mkOpts(workers)...) // started by the group
		} else {
			p.pool = workerpool.New(name, mkOpts(workers)...)
		}
		p.obs = observe(p.pool)
		allPools = append(allPools, p)
		return p
	}
	// siblings S* share P's group (1-3 of them, a seeded number created before P); O sits in an ancestor group
	var others []*rcPool
	nSib, nBefore := 0, 0
	if cfg.Tree >= 1 {
		nSib = 1 + rng.Intn(3)
		nBefore = rng.Intn(nSib + 1)
	}
	for i := 0; i < nBefore; i++ {
		others = append(others, mkPool(fmt.Sprintf("S%d", i), len(groups)-1, 1+rng.Intn(2)))
	}
	P := mkPool("P", len(groups)-1, cfg.Workers)
	if P.grp < 0 {
		P.pool.Start()
	}
	for i := nBefore; i < nSib; i++ {
		others = append(others, mkPool(fmt.Sprintf("S%d", i), len(groups)-1, 1+rng.Intn(2)))
	}
	if cfg.Tree >= 2 {
		others = append(others, mkPool("O", cfg.Tree-2, 2))
	}
	W := P.pool.WorkerCount()
	live := func() []*rcPool { return append([]*rcPool{P}, others...) }
	scopeOf := func(gi int) (s []*rcPool) {
		for _, p := range live() {
			if p.grp >= gi {
				s = append(s, p)
			}
		}
		return
	}

	// ---- tasks
	var body func(t *rcTask) func()
	body = func(t *rcTask) func() {
		return func() {
			t.startTick.Store(now())
			t.runs.Add(1)
			t.started.Store(true)
			if t.gate != nil {
				<-t.gate
			}
			if t.child != nil {
				func() {
					defer func() { recover() }() // a rejected Submit with the panic option: the task carries on
					t.child.p.pool.Submit(body(t.child))
				}()
			}
			t.done.Store(true)
		}
	}
	newTask := func(p *rcPool, gated, nested bool) *rcTask {
		t := &rcTask{p: p}
		if gated {
			t.gate = make(chan struct{})
		}
		p.add(t)
		if nested {
			t.child = &rcTask{p: p}
			p.add(t.child)
		}
		return t
	}
	open := func(t *rcTask) {
		if t.gate != nil && !t.opened {
			t.opened = true
			close(t.gate)
		}
	}
	openAll := func() {
		for _, p := range allPools {
			for _, t := range p.all() {
				open(t)
			}
		}
	}
	inProgress := func(s []*rcPool) (out []*rcTask) {
		for _, p := range s {
			for _, t := range p.all() {
				if t.gate != nil && t.started.Load() && !t.opened {
					out = append(out, t)
				}
			}
		}
		return
	}
	idle := func(s []*rcPool) bool {
		for _, p := range s {
			if a, f, _ := p.obs.counts(); a != f {
				return false
			}
		}
		return true
	}

	sh, wt, st, gsh, sub := gdump.NewActor("shutdown"), gdump.NewActor("waiter"), gdump.NewActor("starter"), gdump.NewActor("group-shutdown"), gdump.NewActor("submitter")
	defer func() {
		for _, a := range []*gdump.Actor{sh, wt, st, gsh, sub} {
			a.Close()
		}
	}()

	// ---- invariants at a quiescent point
	inv := func(at string) bool {
		for _, p := range allPools {
			acc, fin, bad := p.obs.counts()
			if bad != "" {
				viol("pending-counter-inconsistent", "PendingTasksCounter transitions of pool %s (%s): %s", p.name, at, bad)
			}
			bodies, ran := 0, 0
			for _, t := range p.all() {
				r := int(t.runs.Load())
				ran += r
				if r > 1 {
					viol("task-ran-more-than-once", "a task of pool %s ran %d times (%s)", p.name, r, at)
				}
				if t.done.Load() {
					bodies++
				}
			}
			inBody := ran - bodies // bodies in progress (at a gate)
			cancelled := fin - bodies
			switch {
			case cancelled < 0 || acc-fin < inBody:
				viol("pending-counter-inconsistent", "pool %s (%s): accepted=%d finished=%d but %d task bodies completed and %d are in progress", p.name, at, acc, fin, bodies, inBody)
			case cancelled > p.cancelBase && !p.sdCalled:
				viol("task-cancelled-while-pool-running", "pool %s (%s, %d restart(s) so far): the pending counter went down %d time(s) more often than task bodies completed although the pool is running and no Shutdown has been called since its last Start: accepted tasks were dropped without running (accepted=%d finished=%d bodies=%d)", p.name, at, p.restarts, cancelled-p.cancelBase, acc, fin, bodies)
			case cancelled > p.cancelBase && !cfg.Cancel:
				viol("task-cancelled-without-cancel-option", "pool %s (%s): %d task(s) were marked done without running although cancel-on-shutdown is off", p.name, at, cancelled-p.cancelBase)
			}
		}
		return !failed
	}

	// ---- observers
	var obsLive []*rcObs
	issue := func(api string, grpAPI bool, scope []*rcPool, sc *rcPool, shutGrp, crowd bool, call func()) {
		o := &rcObs{api: api, group: grpAPI, scope: scope, sc: sc, shutGrp: shutGrp, crowd: crowd, anchors: inProgress(scope)}
		obsLive = append(obsLive, o)
		go func() {
			defer func() {
				if recover() != nil {
					o.panicked.Store(true)
				}
				o.ret.Store(true)
			}()
			call()
		}()
	}
	issueAll := func(withSC bool) {
		for _, p := range live() {
			p := p
			issue("PendingTasksCounter.WaitIsZero", false, []*rcPool{p}, nil, false, false, p.pool.PendingTasksCounter.WaitIsZero)
			issue("PendingTasksCounter.WaitIsBelow(1)", false, []*rcPool{p}, nil, false, false, func() { p.pool.PendingTasksCounter.WaitIsBelow(1) })
			if withSC && p.sdCalled && !p.pool.IsRunning() {
				issue("ShutdownComplete.Wait", false, []*rcPool{p}, p, false, false, p.pool.ShutdownComplete.Wait)
			}
		}
		for i, g := range groups {
			sd := g.IsShutdown()
			issue("Group.WaitChildren", true, scopeOf(i), nil, sd, false, g.WaitChildren)
			issue("Group.WaitParents", true, scopeOf(0), nil, sd, false, g.WaitParents)
			issue("Group.PendingChildrenCounter.WaitIsZero", true, scopeOf(i), nil, sd, false, g.PendingChildrenCounter.WaitIsZero)
		}
	}
	crowd := func(n int, withSC bool) {
		for k := 0; k < n; k++ {
			switch {
			case k%8 == 5 && len(groups) > 0:
				gi := (k / 8) % len(groups)
				issue("Group.WaitChildren", true, scopeOf(gi), nil, groups[gi].IsShutdown(), true, groups[gi].WaitChildren)
			case k%8 == 6 && withSC:
				issue("ShutdownComplete.Wait", false, []*rcPool{P}, P, false, true, P.pool.ShutdownComplete.Wait)
			case k%8 == 7:
				issue("PendingTasksCounter.WaitIsBelow(1)", false, []*rcPool{P}, nil, false, true, func() { P.pool.PendingTasksCounter.WaitIsBelow(1) })
			default:
				issue("PendingTasksCounter.WaitIsZero", false, []*rcPool{P}, nil, false, true, P.pool.PendingTasksCounter.WaitIsZero)
			}
		}
	}
	// checkObs at a quiescent point. noStart: ShutdownComplete waits are only judged "parked although complete" when no Start can be pending.
	checkObs := func(at string) bool {
		keep := obsLive[:0]
		for _, o := range obsLive {
			if o.ret.Load() {
				res.ObsReturned++
				if o.panicked.Load() {
					viol("wait/panic", "%s panicked (%s)", o.api, at)
				}
				held := 0
				for _, t := range o.anchors {
					if !t.opened {
						held++
					}
				}
				if held > 0 {
					switch {
					case o.group:
						viol("group/wait-returned-while-pool-pending", "%s returned (%s; group shut down before the call: %v) while %d task(s) below the group that were running at a harness gate when it was called are still held there", o.api, at, o.shutGrp, held)
					case o.sc != nil:
						viol("shutdown-complete-while-accepted-task-pending", "ShutdownComplete.Wait() of pool %s returned (%s) while %d accepted task(s) are still running at a harness gate", o.sc.name, at, held)
					default:
						viol("counter-wait-returned-while-task-pending", "%s of pool %s returned (%s) while %d accepted task(s) are still running at a harness gate", o.api, o.scope[0].name, at, held)
					}
				}
				continue
			}
			if !o.wasPark {
				o.wasPark = true
				res.ObsParked++
				if o.crowd {
					res.CrowdParked++
				}
				if o.shutGrp {
					res.ShutGrpParked++
				}
			}
			if idle(o.scope) && (o.sc == nil || (o.sc.sdCalled && !o.sc.pool.IsRunning())) {
				switch {
				case o.group:
					viol("group/wait-parked-although-idle", "%s is parked at quiescence (%s) although no pool below the group has a pending task", o.api, at)
				case o.sc != nil:
					viol("shutdown-hangs/other", "ShutdownComplete.Wait() of pool %s is parked at quiescence (%s) although Shutdown was called and nothing is pending (%s)", o.sc.name, at, patternOf(gdump.Snapshot(), before))
				default:
					viol("watcher/idle-watcher-parked-although-pool-idle", "%s of pool %s is parked at quiescence (%s) although the pool has finished everything it accepted", o.api, o.scope[0].name, at)
				}
				continue // dropped: reported once
			}
			keep = append(keep, o)
		}
		obsLive = keep
		return !failed
	}
	bail := func() {
		openAll()
		waitQuiescent()
	}

	// submitOn a pool that is running (scripted): Submit returns, the task is counted
	submit := func(t *rcTask) {
		func() {
			defer func() {
				if recover() != nil {
					res.Recovered++
				}
			}()
			t.p.pool.Submit(body(t))
		}()
	}

	// ---- run phase: the pool is running, no Shutdown since Start
	runPhase := func(cy int) bool {
		at := fmt.Sprintf("cycle %d, run phase", cy)
		acc0, _, _ := P.obs.counts()
		var mine []*rcTask
		nSeq := min(W, 3) + 1
		for i := 0; i < nSeq; i++ {
			t := newTask(P, false, false)
			mine = append(mine, t)
			submit(t)
			waitQuiescent()
			if !inv(at + ", single Submit") {
				return false
			}
		}
		nb := 2*min(W, 12) + 3
		var burst []*rcTask
		for i := 0; i < nb; i++ {
			t := newTask(P, false, rng.Intn(4) == 0)
			burst = append(burst, t)
			mine = append(mine, t)
			if t.child != nil {
				mine = append(mine, t.child)
			}
		}
		if cfg.Conc {
			barrier := make(chan struct{})
			for s := 0; s < 3; s++ {
				s := s
				go func() {
					<-barrier
					for i := s; i < len(burst); i += 3 {
						func() {
							defer func() { recover() }()
							P.pool.Submit(body(burst[i]))
						}()
					}
				}()
			}
			waitQuiescent()
			close(barrier)
		} else {
			for _, t := range burst {
				submit(t)
			}
		}
		waitQuiescent()
		if !inv(at + ", burst") {
			return false
		}
		// a wave that occupies every worker
		var wave []*rcTask
		for i := 0; i < W; i++ {
			t := newTask(P, true, false)
			wave = append(wave, t)
			mine = append(mine, t)
			submit(t)
		}
		waitQuiescent()
		if !inv(at + ", every worker handed a gated task") {
			bail()
			return false
		}
		for _, t := range wave {
			open(t)
		}
		waitQuiescent()
		if !inv(at + ", wave released") {
			return false
		}
		acc1, fin1, _ := P.obs.counts()
		if acc1-acc0 != len(mine) {
			res.Unaccepted += len(mine) - (acc1 - acc0)
		} else {
			for _, t := range mine {
				if t.runs.Load() != 1 {
					cnt, q := safeCounterQueue(P.pool)
					viol("accepted-task-not-run-while-running", "%s: all %d Submits on the running pool were accepted, but a task has run %d times at structural quiescence (accepted=%d finished=%d PendingTasksCounter=%d Queue.Size()=%d, %s)", at, len(mine), t.runs.Load(), acc1, fin1, cnt, q, patternOf(gdump.Snapshot(), before))
					return false
				}
			}
			if cy > 0 {
				res.StrictTasks += len(mine)
			} else {
				res.FirstTasks += len(mine)
			}
		}
		// every wait issued on the idle tree returns
		issueAll(false)
		waitQuiescent()
		if !checkObs(at+", waits issued on the idle tree") || !inv(at) {
			return false
		}
		return true
	}

	nRestarts := 2 + rng.Intn(3)
	// shutdown modes: the first two cycles cover "pool.Shutdown() with busy workers" and (with a tree) "Group.Shutdown()"
	modes := make([]string, nRestarts+1)
	for i := range modes {
		switch r := rng.Intn(20); {
		case r < 9:
			modes[i] = "direct"
		case r < 13:
			modes[i] = "nowait"
		default:
			modes[i] = "group"
		}
		if cfg.Tree == 0 && modes[i] == "group" {
			modes[i] = "direct"
		}
	}
	if cfg.Tree == 0 {
		modes[0] = "direct"
	} else if rng.Intn(2) == 0 {
		modes[0], modes[1] = "direct", "group"
	} else {
		modes[0], modes[1] = "group", "direct"
	}
	modes[nRestarts] = []string{"direct", "group"}[rng.Intn(2)]
	if cfg.Tree == 0 {
		modes[nRestarts] = "direct"
	}

	for cy := 0; cy <= nRestarts; cy++ {
		if !runPhase(cy) {
			bail()
			return
		}
		// ---- busy phase
		at := fmt.Sprintf("cycle %d, busy phase", cy)
		busyN := []int{1, W, W + 2, W}[rng.Intn(4)]
		var gated []*rcTask
		for i := 0; i < busyN; i++ {
			t := newTask(P, true, rng.Intn(3) == 0)
			gated = append(gated, t)
			submit(t)
		}
		for _, o := range others {
			if o.pool.IsRunning() && rng.Intn(3) == 0 {
				t := newTask(o, true, false)
				gated = append(gated, t)
				submit(t)
			}
		}
		waitQuiescent()
		if !inv(at + ", gated tasks submitted") {
			bail()
			return
		}
		busyP := len(inProgress([]*rcPool{P}))
		issueAll(false)
		nCrowd := rcCrowdSizes[rng.Intn(len(rcCrowdSizes))]
		nA := 0
		if nCrowd > 0 {
			nA = nCrowd * []int{0, 0, 1, 4}[rng.Intn(4)] / 8 // none, 1/8 or 1/2 of the crowd parks before Shutdown (ahead of the dispatcher)
			res.CrowdCycles++
		}
		crowd(nA, false)
		waitQuiescent()
		if !checkObs(at + ", waits issued while tasks are held") {
			bail()
			return
		}
		// ---- shutdown
		mode := modes[cy]
		res.ShutdownMode[mode]++
		gi := -1
		// some of the other running pools (siblings in P's group, O in an ancestor group) are shut down individually first
		// (idle or with a task held)
		for _, o := range others {
			if o.pool.IsRunning() && rng.Intn(3) == 0 {
				o := o
				if s := do(sh, func() { o.pool.Shutdown() }); s != gdump.Returned {
					viol("shutdown-call-never-returns", "Shutdown() of pool %s is parked for ever (cycle %d)", o.name, cy)
					bail()
					return
				}
				o.sdCalled = true
				res.IndivStopped++
			}
		}
		var mustStop []*rcPool // group mode: pools that Group.Shutdown has to stop
		var rejected []*rcTask
		startedActors := func() {} // concurrent flavour: what the barrier releases
		var waitRet, sdRet atomic.Uint64
		switch mode {
		case "direct", "nowait":
			P.sdCalled = true
			if busyP > 0 {
				res.BusyAtShutdown++
				if busyP >= W {
					res.AllBusyShutdown++
				}
			}
			shutdownAndAfter := func() {
				P.pool.Shutdown()
				sdRet.Store(now())
			}
			if cfg.Conc {
				startedActors = func() {
					if mode == "nowait" {
						st.Start(func() { shutdownAndAfter(); P.pool.Start() })
					} else {
						sh.Start(shutdownAndAfter)
						wt.Start(func() { P.pool.ShutdownComplete.Wait(); waitRet.Store(now()) })
					}
				}
				break
			}
			if s := do(sh, shutdownAndAfter); s != gdump.Returned {
				cnt, q := safeCounterQueue(P.pool)
				viol("shutdown-call-never-returns", "Shutdown() with %d of %d workers busy is parked for ever at structural quiescence (cycle %d; %s, counter=%d queue=%d)", busyP, W, cy, patternOf(gdump.Snapshot(), before), cnt, q)
				bail()
				return
			}
			step("cycle %d: Shutdown() with %d of %d workers busy, crowd %d+%d", cy, busyP, W, nA, nCrowd-nA)
			// a Submit on the stopped pool is rejected; with the panic option the caller recovers and carries on
			rt := &rcTask{p: P}
			rejected = append(rejected, rt)
			if s := do(sub, func() { P.pool.Submit(body(rt)) }); s != gdump.Returned {
				viol("submit-never-returns", "Submit after Shutdown() is parked for ever (cycle %d)", cy)
				bail()
				return
			}
			res.Rejected++
			if sub.TakePanic() != "" {
				res.Recovered++
			}
			if mode == "nowait" {
				s := do(st, func() { P.pool.Start() })
				step("cycle %d: Start() without waiting -> %s", cy, stName(s))
			} else {
				issueAll(true)
				wt.Start(func() { P.pool.ShutdownComplete.Wait(); waitRet.Store(now()) })
			}
		case "group":
			gi = rng.Intn(len(groups))
			// a pool has to be stopped by this call if no group on the path from the group down to the pool had been shut
			// down before (a second Shutdown of a group is a no-op apart from the wait)
			stoppedBelow, runningBelow := 0, 0
			for _, p := range scopeOf(gi) {
				fresh := true
				for j := gi; j <= p.grp; j++ {
					fresh = fresh && !groups[j].IsShutdown()
				}
				if fresh {
					mustStop = append(mustStop, p)
					if p.pool.IsRunning() {
						runningBelow++
					}
				}
			}
			for _, p := range allPools {
				if p.grp >= gi && !p.pool.IsRunning() {
					stoppedBelow++
				}
			}
			if len(mustStop) > 0 && stoppedBelow > 0 && runningBelow > 0 {
				res.MixedGroupShutdowns++
			}
			for _, p := range scopeOf(gi) {
				p.sdCalled = true
			}
			if cfg.Conc {
				startedActors = func() { gsh.Start(groups[gi].Shutdown) }
				break
			}
			wasShut := groups[gi].IsShutdown()
			s := do(gsh, groups[gi].Shutdown)
			step("cycle %d: Group(%s).Shutdown() (shut down before: %v) with %d task(s) held below -> %s", cy, gname[gi], wasShut, len(inProgress(scopeOf(gi))), stName(s))
			if s == gdump.Returned && len(inProgress(scopeOf(gi))) > 0 {
				res.GroupShutEarly++ // not judged
			}
			issueAll(true)
		}
		if !cfg.Conc {
			crowd(nCrowd-nA, mode == "direct")
			waitQuiescent()
			if !checkObs(at+", after "+mode+" shutdown was called") || !inv(at+", after "+mode+" shutdown was called") {
				bail()
				return
			}
			// ---- drain: gates one by one (all but the last few at once when there are many)
			order := rng.Perm(len(gated))
			for k, i := range order {
				open(gated[i])
				if len(order)-k <= 3 {
					waitQuiescent()
					if !checkObs(fmt.Sprintf("cycle %d, gate %d of %d opened", cy, k+1, len(order))) {
						bail()
						return
					}
				}
			}
		} else {
			// ---- concurrent drain: gate opener, submitters, Shutdown caller and the rest of the crowd start together
			barrier := make(chan struct{})
			for _, t := range gated {
				t.opened = true // no "still held" claim from here on
			}
			order := rng.Perm(len(gated))
			yields := rng.Intn(6)
			go func() {
				<-barrier
				for _, i := range order {
					close(gated[i].gate)
					if i%3 == 0 {
						runtime.Gosched()
					}
				}
			}()
			var extra [3][]*rcTask
			for s := range extra {
				for i := 0; i < 4+rng.Intn(8); i++ {
					tp := P
					if len(others) > 0 && rng.Intn(4) == 0 {
						tp = others[rng.Intn(len(others))] // possibly a stopped one: rejected
					}
					extra[s] = append(extra[s], newTask(tp, false, rng.Intn(4) == 0))
				}
			}
			var recovered atomic.Int64
			for s := range extra {
				s := s
				go func() {
					<-barrier
					for _, t := range extra[s] {
						func() {
							defer func() {
								if recover() != nil {
									recovered.Add(1)
								}
							}()
							t.p.pool.Submit(body(t))
						}()
						if s == 1 {
							runtime.Gosched()
						}
					}
				}()
			}
			go func() {
				<-barrier
				for k := 0; k < yields; k++ {
					runtime.Gosched()
				}
				startedActors()
			}()
			// the crowd members call their wait after the barrier
			nB := nCrowd - nA
			for k := 0; k < nB; k++ {
				o := &rcObs{api: "PendingTasksCounter.WaitIsZero", scope: []*rcPool{P}, crowd: true}
				obsLive = append(obsLive, o)
				go func() {
					<-barrier
					P.pool.PendingTasksCounter.WaitIsZero()
					o.ret.Store(true)
				}()
			}
			waitQuiescent()
			close(barrier)
			waitQuiescent()
			res.Recovered += int(recovered.Load())
			step("cycle %d: concurrent drain (%s shutdown, %d gated, %d extra submits, crowd %d+%d)", cy, mode, len(gated), len(extra[0])+len(extra[1])+len(extra[2]), nA, nB)
		}
		gs := waitQuiescent()
		at = fmt.Sprintf("cycle %d, after the drain (%s shutdown)", cy, mode)
		// ---- termination of the shutdown
		switch mode {
		case "direct":
			if sh.Busy() {
				viol("shutdown-call-never-returns", "Shutdown() is parked for ever at structural quiescence (%s; %s)", at, patternOf(gs, before))
				bail()
				return
			}
			if wt.Busy() {
				cnt, q := safeCounterQueue(P.pool)
				o := outcome{ShutdownCalled: true, ShutdownReturned: true, Counter: cnt, Queue: q, pat: patternOf(gs, before)}
				o.Accepted, o.Finished, _ = P.obs.counts()
				o.Pattern = o.pat.String()
				for _, f := range classify(o) {
					viol(f.FP, "%s [%s]", f.What, at)
				}
				bail()
				return
			}
		case "nowait":
			if sh.Busy() || st.Busy() {
				cnt, q := safeCounterQueue(P.pool)
				viol("shutdown-then-start/start-never-returns-before-shutdown-complete", "Shutdown(); Start() is parked for ever at structural quiescence although every task gate is open (%s; %s, counter=%d queue=%d)", at, patternOf(gs, before), cnt, q)
				bail()
				return
			}
		case "group":
			if gsh.Busy() {
				viol("group/shutdown-never-returns", "Group(%s).Shutdown() is parked for ever although every task gate is open (%s; %s)", gname[gi], at, patternOf(gs, before))
				bail()
				return
			}
		}
		if !inv(at) {
			bail()
			return
		}
		for _, p := range mustStop {
			if p.pool.IsRunning() {
				viol("group/pool-running-after-group-shutdown", "Group(%s).Shutdown() returned (%s; the group had not been shut down before) but pool %s below it still reports IsRunning(): it was never shut down (pool objects below the group in creation order, present state: %s)", gname[gi], at, p.name, poolStates(allPools, gi))
				bail()
				return
			}
			res.StoppedByGroup++
		}
		// pools that are still running here (Group.Shutdown of a group that had been shut down before does not stop them):
		// everything accepted has finished, then they are stopped directly at idle
		for _, p := range live() {
			if mode == "nowait" && p == P {
				continue
			}
			if !p.sdCalled {
				continue
			}
			if p.pool.IsRunning() {
				if s := do(sh, func() { p.pool.Shutdown() }); s != gdump.Returned {
					viol("shutdown-call-never-returns", "Shutdown() of the idle pool %s is parked for ever (%s)", p.name, at)
					bail()
					return
				}
			}
			if s := do(wt, func() { p.pool.ShutdownComplete.Wait(); waitRet.CompareAndSwap(0, now()) }); s != gdump.Returned {
				viol("shutdown-hangs/other", "ShutdownComplete.Wait() of pool %s never returns although every task gate is open (%s; %s)", p.name, at, patternOf(gdump.Snapshot(), before))
				bail()
				return
			}
		}
		waitQuiescent()
		if !checkObs(at) || !inv(at) {
			bail()
			return
		}
		if len(obsLive) != 0 {
			// cannot happen: checkObs keeps only parked waits whose scope is not idle
			for _, p := range live() {
				if a, f, _ := p.obs.counts(); a != f {
					cnt, q := safeCounterQueue(p.pool)
					viol("accepted-task-neither-run-nor-cancelled", "%s: pool %s accepted=%d finished=%d counter=%d queue=%d at quiescence with every gate open (%s)", at, p.name, a, f, cnt, q, patternOf(gdump.Snapshot(), before))
				}
			}
			if !failed {
				res.Inconcl = fmt.Sprintf("%d waits are parked after the drain although no pool reports a pending task", len(obsLive))
			}
			bail()
			return
		}
		for _, p := range live() {
			a, f, _ := p.obs.counts()
			cnt, q := safeCounterQueue(p.pool)
			if a != f || cnt != 0 || q != 0 {
				viol("accepted-task-neither-run-nor-cancelled", "%s: pool %s accepted=%d finished=%d counter=%d queue=%d at quiescence with every gate open (%s)", at, p.name, a, f, cnt, q, patternOf(gdump.Snapshot(), before))
				bail()
				return
			}
		}
		// after a group shutdown nothing is accepted below the group any more
		if len(mustStop) > 0 {
			for _, p := range mustStop {
				p := p
				rt := &rcTask{p: p}
				rejected = append(rejected, rt)
				if s := do(sub, func() { p.pool.Submit(body(rt)) }); s != gdump.Returned {
					viol("submit-never-returns", "Submit on pool %s after Group.Shutdown() is parked for ever (%s)", p.name, at)
					bail()
					return
				}
				res.Rejected++
				if sub.TakePanic() != "" {
					res.Recovered++
				}
			}
			waitQuiescent()
		}
		for _, t := range rejected {
			if t.runs.Load() != 0 {
				viol("rejected-task-ran", "a task whose Submit was rejected by the stopped pool has run %d times", t.runs.Load())
			}
		}
		if cy == nRestarts {
			break
		}
		// ---- restart
		startCall := now()
		if wr := waitRet.Load(); wr != 0 && mode != "nowait" {
			for _, t := range P.all() {
				if s := t.startTick.Load(); s > wr && s < startCall {
					viol("task-started-after-shutdown-complete", "a task of pool %s started after ShutdownComplete.Wait() had returned and before Start (%s)", P.name, at)
				}
			}
		}
		via := "start"
		if mode == "nowait" {
			via = "start-without-wait"
		} else if P.grp >= 0 {
			via = []string{"start", "start", "createpool-same-name", "createpool-new-name"}[rng.Intn(4)]
		}
		res.RestartVia[via]++
		switch via {
		case "start":
			if s := do(st, func() { P.pool.Start() }); s != gdump.Returned {
				viol("start-never-returns", "Start() after a completed shutdown is parked for ever (%s; %s)", at, patternOf(gdump.Snapshot(), before))
				bail()
				return
			}
		case "createpool-same-name", "createpool-new-name":
			name := P.name
			if via == "createpool-new-name" {
				name = fmt.Sprintf("P%d", cy+1)
			}
			grp := P.grp
			var np *rcPool
			s := do(st, func() { np = mkPool(name, grp, cfg.Workers) })
			if p := st.TakePanic(); p != "" {
				viol("group/createpool-panic", "CreatePool(%q) on group %s (shut down: %v) after the previous pool had completed its shutdown panicked: %s", name, gname[grp], groups[grp].IsShutdown(), p)
				bail()
				return
			}
			if s != gdump.Returned {
				viol("group/create-never-returns", "CreatePool(%q) on group %s is parked for ever", name, gname[grp])
				bail()
				return
			}
			np.restarts = P.restarts
			P = np
		}
		if P.pool.WorkerCount() != W {
			res.Inconcl = "WorkerCount changed over a restart"
			bail()
			return
		}
		for _, p := range live() {
			if p != P && p.sdCalled && rng.Intn(2) == 0 {
				continue // stays stopped over the next cycle(s)
			}
			if p != P && p.sdCalled {
				if s := do(st, func() { p.pool.Start() }); s != gdump.Returned {
					viol("start-never-returns", "Start() of pool %s after a completed group shutdown is parked for ever (%s)", p.name, at)
					bail()
					return
				}
			}
			if p.sdCalled {
				_, fin, _ := p.obs.counts()
				bodies := 0
				for _, t := range p.all() {
					if t.done.Load() {
						bodies++
					}
				}
				p.cancelBase = fin - bodies
				p.sdCalled = false
				p.restarts++
			}
		}
		waitQuiescent()
		res.Cycles++
		step("cycle %d: restarted via %s", cy, via)
	}
	for _, p := range allPools {
		a, f, _ := p.obs.counts()
		res.Accepted += a
		for _, t := range p.all() {
			res.Ran += int(t.runs.Load())
			if t.done.Load() {
				f--
			}
		}
		res.Cancelled += f
	}
	return
}

// poolStates lists the pool objects at or below group index gi in creation order with their present state.
func poolStates(all []*rcPool, gi int) string {
	var b strings.Builder
	for _, p := range all {
		if p.grp >= gi {
			st := "stopped"
			if p.pool.IsRunning() {
				st = "running"
			}
			fmt.Fprintf(&b, "%s@g%d=%s ", p.name, p.grp, st)
		}
	}
	return b.String()
}
