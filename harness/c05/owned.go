// Caller-owned memory (DISCIPLINES.md 1) for every family of C05.
//
// A `caller` is what one goroutine of a round uses for ALL its arguments: ONE key
// buffer (keys and prefixes) and ONE value buffer. Both are overwritten with
// scribbleByte as soon as the call they were passed to has returned; the values of
// an open batch are consecutive regions of the value buffer and are overwritten
// when Commit / Cancel has returned (until then the unchanged tree keeps the
// caller's slice in the batch – that sharing is not flagged). Whatever the library
// returns or delivers to a consumer (Get values, iterated keys and values) is
// copied, and then either overwritten at once – including its spare capacity – or
// held for the next few results, compared with the copy, and overwritten then.
//
// The ordinary oracles do the judging: all values the harness writes are unique
// and never contain scribbleByte, so a store that kept a caller's slice answers
// with a value that was never written (and the -race twin sees the library read
// memory the caller wrote after the call had returned); a library that writes
// into delivered memory shows up as `caller-memory/held-result-changed/…`, one
// that writes into an argument as `caller-memory/argument-changed-by-call/…`.
package main

import (
	"bytes"
	"fmt"
	"sort"
	"strings"
	"sync"

	"github.com/iotaledger/hive.go/kvstore"
	"github.com/iotaledger/hive.go/kvstore/mapdb"
	"verif/harness/internal/vf"
)

const scribbleByte = '#'

type ownFinding struct {
	fp, what string
	replay   any
}

type ownStats struct {
	argWipes    int // argument buffers overwritten right after the call returned
	argBytes    int
	argIntact   int // argument buffers (spare capacity included) found unchanged by the call itself
	batchWipes  int // value arenas overwritten after Commit / Cancel returned
	batchValues int // batch values overwritten (after Commit / Cancel, or right after batch.Set where that copies)
	resNow      int // returned / delivered slices overwritten at once (spare capacity too)
	resHeld     int // … held and re-checked after following results
	heldChecks  int // comparisons of a held result with its copy
	spare       int // results that came with spare capacity (overwritten as well)
	reent       map[string]int
	panics      int // consumers that panicked (recovered by the caller)
	afterPanic  int // operations on the same store after such a panic
}

func (s *ownStats) add(o *ownStats) {
	s.argWipes += o.argWipes
	s.argBytes += o.argBytes
	s.argIntact += o.argIntact
	s.batchWipes += o.batchWipes
	s.batchValues += o.batchValues
	s.resNow += o.resNow
	s.resHeld += o.resHeld
	s.heldChecks += o.heldChecks
	s.spare += o.spare
	s.panics += o.panics
	s.afterPanic += o.afterPanic
	for k, n := range o.reent {
		if s.reent == nil {
			s.reent = map[string]int{}
		}
		s.reent[k] += n
	}
}

type heldRes struct {
	op   string
	b    []byte
	want string
	age  int
}

// caller is owned by exactly one goroutine (no synchronisation inside: the race
// twin must not get happens-before edges from the harness).
type caller struct {
	who      string
	kbuf     []byte // the ONE key / prefix buffer
	vbuf     []byte // the ONE value buffer; [0:voff) = values of the open batch
	voff     int
	more     [][]byte // further chunks when an open batch outgrows vbuf
	bvals    int
	held     []heldRes
	n        int
	pers     [][]byte // values given to a batch handle that other goroutines commit: overwritten by persistDone
	panicked bool     // a consumer of this goroutine has panicked before
	sub      *caller  // buffers for calls made from inside a consumer (the outer call has not returned yet)
	st       ownStats
	finds    []ownFinding
}

func newCaller(who string) *caller {
	c := &caller{who: who, kbuf: make([]byte, 48), vbuf: make([]byte, 256)}
	fill(c.kbuf)
	fill(c.vbuf)
	return c
}

//go:noinline
func fill(b []byte) {
	for i := range b {
		b[i] = scribbleByte
	}
}

// nested returns the caller used inside a consumer of one of c's iterations.
func (c *caller) nested() *caller {
	if c.sub == nil {
		c.sub = newCaller(c.who + "/consumer")
	}
	return c.sub
}

func (c *caller) find(fp, format string, a ...any) {
	if len(c.finds) < 4 {
		c.finds = append(c.finds, ownFinding{fp: fp, what: c.who + ": " + fmt.Sprintf(format, a...)})
	}
}

// key puts a key / prefix argument into the key buffer.
func (c *caller) key(s string) []byte {
	if len(s) > len(c.kbuf) {
		c.kbuf = make([]byte, 2*len(s))
		fill(c.kbuf)
	}
	copy(c.kbuf, s)
	return c.kbuf[:len(s)]
}

// keyDone: the call has returned – the buffer must hold what the caller put there
// (the rest still the canary), and is recycled at once.
//
//go:noinline
func (c *caller) keyDone(op, s string) {
	if string(c.kbuf[:len(s)]) != s || bytes.IndexFunc(c.kbuf[len(s):], func(r rune) bool { return r != scribbleByte }) >= 0 {
		c.find("caller-memory/argument-changed-by-call/"+op, "%s changed the caller's key buffer: passed %q, buffer now %q", op, s, c.kbuf)
	} else {
		c.st.argIntact++
	}
	fill(c.kbuf[:len(s)])
	c.st.argWipes++
	c.st.argBytes += len(s)
}

// alloc carves n bytes for a batch value: consecutive regions of the value buffer, further
// chunks once an open batch has outgrown it.
func (c *caller) alloc(n int) []byte {
	if len(c.more) == 0 && c.voff+n <= len(c.vbuf) {
		b := c.vbuf[c.voff : c.voff+n]
		c.voff += n
		return b
	}
	if l := len(c.more); l > 0 {
		if last := c.more[l-1]; len(last)+n <= cap(last) {
			c.more[l-1] = last[:len(last)+n]
			return c.more[l-1][len(last):]
		}
	}
	sz := 4096
	if l := len(c.more); l > 0 && 2*cap(c.more[l-1]) > sz {
		sz = 2 * cap(c.more[l-1])
	}
	if n > sz {
		sz = n
	}
	ch := make([]byte, n, sz)
	c.more = append(c.more, ch)
	return ch
}

// val puts the value of a direct Set into the value buffer (behind the values of an open batch).
func (c *caller) val(s string) []byte {
	if c.voff == 0 && len(s) > len(c.vbuf) {
		c.vbuf = make([]byte, 2*len(s))
		fill(c.vbuf)
	}
	var b []byte
	if c.voff+len(s) <= len(c.vbuf) {
		b = c.vbuf[c.voff : c.voff+len(s)]
	} else {
		b = make([]byte, len(s)) // an open batch fills the buffer: own region for this call
	}
	copy(b, s)
	return b
}

//go:noinline
func (c *caller) valDone(op string, b []byte, s string) {
	if string(b) != s {
		c.find("caller-memory/argument-changed-by-call/"+op, "%s changed the caller's value buffer: passed %q, buffer now %q", op, s, b)
	} else {
		c.st.argIntact++
	}
	fill(b)
	c.st.argWipes++
	c.st.argBytes += len(b)
}

// bval puts a value for batch.Set into the value buffer; it stays until batchDone.
func (c *caller) bval(s string) []byte {
	b := c.alloc(len(s))
	copy(b, s)
	c.bvals++
	return b
}

// persist returns a value for a batch handle shared with other goroutines; it is left alone until persistDone.
func (c *caller) persist(s string) []byte {
	b := []byte(s)
	c.pers = append(c.pers, b)
	return b
}

// persistDone: every handle that got one of these values has been committed (by whomever) since.
//
//go:noinline
func (c *caller) persistDone() {
	for _, b := range c.pers {
		fill(b)
		c.st.argBytes += len(b)
	}
	if len(c.pers) > 0 {
		c.st.batchWipes++
		c.st.batchValues += len(c.pers)
	}
	c.pers = nil
}

// batchDone: Commit / Cancel of the goroutine's open batch has returned.
//
//go:noinline
func (c *caller) batchDone() {
	if c.bvals == 0 {
		return
	}
	fill(c.vbuf[:c.voff])
	c.st.argBytes += c.voff
	for _, ch := range c.more {
		fill(ch)
		c.st.argBytes += len(ch)
	}
	c.st.batchWipes++
	c.st.batchValues += c.bvals
	c.voff, c.more, c.bvals = 0, nil, 0
}

// result takes over a slice the library returned or delivered; want is the copy taken right now.
//
//go:noinline
func (c *caller) result(op string, b []byte) string {
	want := string(b)
	c.recheck()
	c.n++
	if b == nil {
		return want
	}
	if c.n%3 == 0 {
		c.held = append(c.held, heldRes{op, b, want, 3})
		c.st.resHeld++
		return want
	}
	c.scribbleRes(b)
	return want
}

//go:noinline
func (c *caller) scribbleRes(b []byte) {
	if cap(b) > len(b) {
		c.st.spare++
	}
	fill(b[:cap(b)])
	c.st.resNow++
}

// recheck compares every held result with its copy; the oldest ones are then overwritten.
//
//go:noinline
func (c *caller) recheck() {
	keep := c.held[:0]
	for _, h := range c.held {
		c.st.heldChecks++
		if string(h.b) != h.want {
			c.find("caller-memory/held-result-changed/"+h.op, "a slice handed out by %s held %q when the caller got it and holds %q now (the caller did not touch it)", h.op, h.want, h.b)
			continue
		}
		h.age--
		if h.age <= 0 {
			if cap(h.b) > len(h.b) {
				c.st.spare++
			}
			fill(h.b[:cap(h.b)])
			continue
		}
		keep = append(keep, h)
	}
	c.held = keep
}

// finish: end of the goroutine's part of the round.
func (c *caller) finish() {
	for i := range c.held {
		c.held[i].age = 1
	}
	c.recheck()
	c.batchDone()
	if c.sub != nil {
		c.sub.finish()
		c.st.add(&c.sub.st)
		c.finds = append(c.finds, c.sub.finds...)
		c.sub = nil
	}
}

// ---- whole calls (used by the porcupine-free families; the windows they stamp around
// these calls only get wider by the copying, which makes their rules more lenient, never stricter)

func (c *caller) Set(st kvstore.KVStore, k, v string) error {
	kb, vb := c.key(k), c.val(v)
	err := st.Set(kb, vb)
	c.keyDone("Set", k)
	c.valDone("Set", vb, v)
	return err
}

func (c *caller) Delete(st kvstore.KVStore, k string) error {
	err := st.Delete(c.key(k))
	c.keyDone("Delete", k)
	return err
}

func (c *caller) DeletePrefix(st kvstore.KVStore, p string) error {
	err := st.DeletePrefix(c.key(p))
	c.keyDone("DeletePrefix", p)
	return err
}

func (c *caller) Get(st kvstore.KVStore, k string) (string, error) {
	v, err := st.Get(c.key(k))
	c.keyDone("Get", k)
	return c.result("Get", v), err
}

func (c *caller) Has(st kvstore.KVStore, k string) (bool, error) {
	ok, err := st.Has(c.key(k))
	c.keyDone("Has", k)
	return ok, err
}

func (c *caller) BSet(b kvstore.BatchedMutations, k, v string) error {
	if batchSetCopies {
		kb, vb := c.key(k), c.val(v)
		err := b.Set(kb, vb)
		c.keyDone("batch.Set", k)
		c.valDone("batch.Set", vb, v)
		c.st.batchValues++
		return err
	}
	err := b.Set(c.key(k), c.bval(v))
	c.keyDone("batch.Set", k)
	return err
}

// BSetShared: batch.Set on a handle that other goroutines commit.
func (c *caller) BSetShared(b kvstore.BatchedMutations, k, v string) error {
	if batchSetCopies {
		return c.BSet(b, k, v)
	}
	err := b.Set(c.key(k), c.persist(v))
	c.keyDone("batch.Set", k)
	return err
}

func (c *caller) BDelete(b kvstore.BatchedMutations, k string) error {
	err := b.Delete(c.key(k))
	c.keyDone("batch.Delete", k)
	return err
}

func (c *caller) Commit(b kvstore.BatchedMutations) error {
	err := b.Commit()
	c.batchDone()
	return err
}

func (c *caller) Cancel(b kvstore.BatchedMutations) {
	b.Cancel()
	c.batchDone()
}

// Iterate / IterateKeys: the consumer gets copies; the delivered slices are the reader's.
func (c *caller) Iterate(st kvstore.KVStore, prefix string, fn func(k, v string) bool, dir ...kvstore.IterDirection) error {
	defer c.keyDone("Iterate", prefix)
	return st.Iterate(c.key(prefix), func(k, v []byte) bool {
		ks, vs := c.result("Iterate/key", k), c.result("Iterate/value", v)
		return fn(ks, vs)
	}, dir...)
}

func (c *caller) IterateKeys(st kvstore.KVStore, prefix string, fn func(k string) bool, dir ...kvstore.IterDirection) error {
	defer c.keyDone("IterateKeys", prefix)
	return st.IterateKeys(c.key(prefix), func(k []byte) bool {
		return fn(c.result("IterateKeys/key", k))
	}, dir...)
}

// ---- what does batch.Set do with the caller's value slice?

// batchSetCopies is established once per process by probeBatchSet. The tree this check was built
// for (hive.go 77f8d8d .. 12c3536) keeps the caller's slice in the batch until Commit copies it into
// the store (so does the rocksdb wrapper). The statements (C04: "mutating a caller's buffer after Set
// or Commit has returned does not change stored data") say nothing about the time between batch.Set
// and Commit, so that sharing is recorded (note + counter), not demanded and not reported. The harness
// demands what the tree under test does for a plain sequential caller: if a value overwritten between
// batch.Set and Commit is committed as it was passed (the tree copies in batch.Set), every caller of
// every family overwrites its batch values right after batch.Set has returned, otherwise only after
// Commit / Cancel has returned.
var batchSetCopies bool

func probeBatchSet(c *vf.Ctx) {
	db := mapdb.NewMapDB()
	b, err := db.Batched()
	if err != nil {
		return
	}
	buf := []byte("probe-1")
	_ = b.Set([]byte("k"), buf)
	fill(buf)
	if b.Commit() != nil {
		return
	}
	v, err := db.Get([]byte("k"))
	batchSetCopies = err == nil && string(v) == "probe-1"
	if c != nil && c.Child == "" {
		if batchSetCopies {
			c.Note("batch.Set copies the value it is given: callers overwrite their batch values right after batch.Set has returned")
			c.Count("own_batch_set_copies_value", 1)
		} else {
			c.Note("batch.Set keeps the caller's value slice until Commit (a value overwritten in between would be committed as overwritten; outside the statement, which speaks of buffers mutated after Set or Commit has returned): callers overwrite their batch values only after Commit / Cancel has returned")
			c.Count("own_batch_set_keeps_callers_slice_until_commit", 1)
		}
	}
}

// ---- aggregation (main goroutine of a round, after its goroutines have finished)

type ownAgg struct {
	mu    sync.Mutex
	st    ownStats
	finds []ownFinding
	seen  map[string]int
}

var own = &ownAgg{seen: map[string]int{}}

func (a *ownAgg) absorb(replay any, cls ...*caller) {
	a.mu.Lock()
	defer a.mu.Unlock()
	for _, cl := range cls {
		if cl == nil {
			continue
		}
		cl.finish()
		a.st.add(&cl.st)
		for _, f := range cl.finds {
			if a.seen[f.fp] < 3 {
				a.seen[f.fp]++
				f.replay = replay
				a.finds = append(a.finds, f)
			}
		}
	}
}

func (a *ownAgg) flush(c *vf.Ctx, race bool) {
	a.mu.Lock()
	defer a.mu.Unlock()
	pre := "own_"
	if race {
		pre = "own_race_"
	}
	s := &a.st
	c.Count(pre+"argument_buffers_overwritten_after_return", s.argWipes)
	c.Count(pre+"argument_bytes_overwritten", s.argBytes)
	c.Count(pre+"argument_buffers_unchanged_by_call", s.argIntact)
	c.Count(pre+"batch_value_arenas_overwritten_after_commit", s.batchWipes)
	c.Count(pre+"batch_values_overwritten", s.batchValues)
	c.Count(pre+"results_overwritten_at_once", s.resNow)
	c.Count(pre+"results_held", s.resHeld)
	c.Count(pre+"held_result_rechecks", s.heldChecks)
	c.Count(pre+"results_with_spare_capacity_overwritten", s.spare)
	c.Count(pre+"consumer_panics_recovered", s.panics)
	c.Count(pre+"operations_after_a_consumer_panic", s.afterPanic)
	var ks []string
	total := 0
	for k, n := range s.reent {
		ks = append(ks, k)
		total += n
	}
	sort.Strings(ks)
	for _, k := range ks {
		c.Count(pre+"reentrant_"+k, s.reent[k])
	}
	c.Count(pre+"reentrant_calls", total)
	for _, f := range a.finds {
		c.Violation(f.fp, f.what, f.replay)
	}
	a.st, a.finds = ownStats{}, nil
}

// ---- race reports: the caller's side of the boundary

// reportRaces extends vf.ReportRaces: a report in which one access is the harness overwriting /
// re-reading caller-owned memory (a frame of `caller`) and the other one happens inside kvstore means
// the library touched caller memory outside the call it was passed to (or kept writing into a slice
// it had handed out): the store is not race free for a caller that owns its buffers.
func reportRaces(c *vf.Ctx, rs []vf.RaceReport) {
	var rest []vf.RaceReport
	seen := map[string]bool{}
	for _, r := range rs {
		if r.BothTouch("hive.go/kvstore") || len(r.Stacks) < 2 {
			rest = append(rest, r)
			continue
		}
		lib, mine := "", false
		for _, st := range r.Stacks[:2] {
			inLib, inCaller := "", false
			for _, f := range st {
				if strings.Contains(f, "main.(*caller).") || strings.Contains(f, "main.fill") {
					inCaller = true
				}
				if inLib == "" && strings.Contains(f, "hive.go/kvstore") {
					inLib = f
				}
			}
			switch {
			case inLib != "":
				lib = inLib
			case inCaller:
				mine = true
			}
		}
		if lib == "" || !mine {
			rest = append(rest, r)
			continue
		}
		c.Count("race_reports", 1)
		if i := strings.LastIndex(lib, "/"); i >= 0 {
			lib = lib[i+1:]
		}
		key := "race:caller-owned-memory <-> " + strings.TrimSpace(lib)
		if seen[key] {
			continue
		}
		seen[key] = true
		txt := r.Text
		if len(txt) > 6000 {
			txt = txt[:6000]
		}
		c.Violation(key, "data race between the caller re-using its own buffer after the call had returned (or reading a result it holds) and "+lib, map[string]any{"report": txt})
	}
	c.ReportRaces(rest, "hive.go/kvstore")
}
