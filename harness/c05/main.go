// C05 – KVStore operations are linearizable under concurrent use, dead-lock
// free and race free.
//
// Small concurrent histories (2–16 goroutines behind a barrier, <= 128 recorded
// operations, unique values, call/return ticks from one atomic counter at the
// client boundary) over <= 3 views of one mapdb store with overlapping realms
// are checked with porcupine against the C04 model (harness/internal/kvmodel).
// The same workload runs without any recording in a -race child; dead-locks are
// decided by the Go runtime detector in the plain children.
package main

import (
	"encoding/json"
	"errors"
	"fmt"
	"hash/fnv"
	"math/rand"
	"os"
	"regexp"
	"runtime"
	"sort"
	"strconv"
	"strings"
	"sync"
	"sync/atomic"
	"time"

	"github.com/anishathalye/porcupine"
	"github.com/iotaledger/hive.go/kvstore"
	"github.com/iotaledger/hive.go/kvstore/debug"
	"github.com/iotaledger/hive.go/kvstore/flushkv"
	"github.com/iotaledger/hive.go/kvstore/mapdb"
	"verif/harness/internal/gdump"
	"verif/harness/internal/kvmodel"
	"verif/harness/internal/vf"
)

// ---------------------------------------------------------------- plan

type ViewSpec struct {
	Realm string `json:"realm"`
	Wrap  string `json:"wrap,omitempty"` // "", "flush", "debug", "flush>debug"
}

type BOp struct {
	Del bool   `json:"del,omitempty"`
	K   string `json:"k"`
	V   string `json:"v,omitempty"`
}

type Op struct {
	Kind    string `json:"kind"`
	View    int    `json:"view"`
	K       string `json:"k,omitempty"`
	V       string `json:"v,omitempty"`
	Back    bool   `json:"back,omitempty"`
	Stop    int    `json:"stop,omitempty"`
	Yield   int    `json:"yield,omitempty"`
	CbYield bool   `json:"cbyield,omitempty"`
	Batch   []BOp  `json:"batch,omitempty"`
	Cancel  bool   `json:"cancel,omitempty"`
	// iterate / iteratekeys: the consumer calls back into the store when it is handed entry
	// number NestAt (0-based), and panics (recovered by the caller) once it has got PanicAt entries
	Nest    []Op `json:"nest,omitempty"`
	NestAt  int  `json:"nestat,omitempty"`
	PanicAt int  `json:"panicat,omitempty"`
}

type Plan struct {
	Idx   int `json:"idx"`
	Procs int `json:"procs"`
	// Filler entries live outside the base realm of all views: invisible to every
	// operation, but the store's scans (iterate / deletePrefix walk the whole shared
	// map under its lock) take longer, which widens the windows in which operations overlap.
	Filler int        `json:"filler"`
	Views  []ViewSpec `json:"views"`
	G      [][]Op     `json:"g"`
}

var realms = []string{"", "a", "ab"}
var keys = []string{"", "a", "b", "ab"}
var procsList = []int{2, 4, 16}

const batchSize = 250

// every view of a history lives under this realm (the model's realms are relative to it)
const baseRealm = "r"

// recorded operations per history beyond 8 goroutines
const bigBudget = 40

func procsFor(idx int) int { return procsList[(idx/batchSize)%len(procsList)] }

func genPlan(rng *rand.Rand, idx int) Plan {
	p := Plan{Idx: idx, Procs: procsFor(idx)}
	p.Filler = []int{0, 64, 512, 2048}[rng.Intn(4)]
	nv := 1 + rng.Intn(3)
	for i := 0; i < nv; i++ {
		v := ViewSpec{Realm: realms[rng.Intn(len(realms))]}
		switch x := rng.Intn(20); {
		case x < 12:
		case x < 17:
			v.Wrap = "flush"
		case x < 19:
			v.Wrap = "debug"
		default:
			v.Wrap = "flush>debug"
		}
		p.Views = append(p.Views, v)
	}
	g := 2 + rng.Intn(15)
	// recorded operations per goroutine (a batch counts 1 + its distinct keys): <= 118 in
	// total for up to 4 goroutines, 96 for 5-6, 72 for 7-8, 40 beyond (porcupine's search grows
	// with the number of simultaneously open operations; calibrated so that it never times out)
	budget := 118 / g
	switch {
	case g > 8:
		budget = bigBudget / g
	case g > 6:
		budget = 72 / g
	case g > 4:
		budget = 96 / g
	}
	// beyond 8 goroutines at most 10 mutations per history: unobserved concurrent writes are what
	// multiplies the states porcupine has to track per set of linearised operations
	writesLeft := 1 << 30
	if g > 8 {
		writesLeft = 10
	}
	closer := -1
	if rng.Intn(12) == 0 {
		closer = rng.Intn(g)
	}
	for gi := 0; gi < g; gi++ {
		n := 4 + rng.Intn(9)
		used := 0
		var ops []Op
		for i := 0; i < n; i++ {
			o := Op{View: rng.Intn(nv), Yield: rng.Intn(3)}
			val := fmt.Sprintf("%d.%d", gi, i)
			switch x := rng.Intn(100); {
			case x < 20:
				o.Kind, o.K = "get", keys[rng.Intn(len(keys))]
			case x < 27:
				o.Kind, o.K = "has", keys[rng.Intn(len(keys))]
			case x < 51:
				o.Kind, o.K, o.V = "set", keys[rng.Intn(len(keys))], val
			case x < 59:
				o.Kind, o.K = "delete", keys[rng.Intn(len(keys))]
			case x < 64:
				o.Kind, o.K = "deleteprefix", keys[rng.Intn(len(keys))]
			case x < 66:
				o.Kind = "clear"
			case x < 79:
				o.Kind, o.K = "iterate", keys[rng.Intn(len(keys))]
			case x < 84:
				o.Kind, o.K = "iteratekeys", keys[rng.Intn(len(keys))]
			case x < 95:
				o.Kind = "batch"
				for j, m := 0, 1+rng.Intn(4); j < m; j++ {
					b := BOp{K: keys[rng.Intn(len(keys))]}
					if rng.Intn(3) == 0 {
						b.Del = true
					} else {
						b.V = fmt.Sprintf("%s.%d", val, j)
					}
					o.Batch = append(o.Batch, b)
				}
				o.Cancel = rng.Intn(8) == 0
			case x < 97:
				o.Kind = "flush"
			default:
				o.Kind = "newview"
			}
			if o.Kind == "iterate" || o.Kind == "iteratekeys" {
				if rng.Intn(3) == 0 {
					o.K = ""
				}
				o.Back = rng.Intn(2) == 0
				if rng.Intn(5) < 2 {
					o.Stop = 1 + rng.Intn(2)
				}
				o.CbYield = rng.Intn(2) == 0
			}
			if (o.Kind == "iterate" || o.Kind == "iteratekeys") && rng.Intn(5) < 2 {
				// re-entrant consumer: 1-2 calls into the same store from inside the callback
				o.NestAt = rng.Intn(2)
				for j, m := 0, 1+rng.Intn(2); j < m; j++ {
					o.Nest = append(o.Nest, genNested(rng, nv, o.View, fmt.Sprintf("%sn%d", val, j)))
				}
			}
			if (o.Kind == "iterate" || o.Kind == "iteratekeys") && rng.Intn(10) == 0 {
				o.PanicAt = 1 + rng.Intn(2)
				if len(o.Nest) > 0 && o.PanicAt <= o.NestAt {
					o.PanicAt = o.NestAt + 1
				}
			}
			cost, wcost := opCost(o)
			for _, no := range o.Nest {
				c2, w2 := opCost(no)
				cost, wcost = cost+c2, wcost+w2
			}
			if wcost > writesLeft {
				o = Op{Kind: "get", View: o.View, Yield: o.Yield, K: keys[rng.Intn(len(keys))]}
				if rng.Intn(2) == 0 {
					o.Kind, o.Back, o.CbYield = "iterate", rng.Intn(2) == 0, rng.Intn(2) == 0
				}
				cost, wcost = 1, 0
			}
			writesLeft -= wcost
			if used+cost > budget {
				break
			}
			used += cost
			ops = append(ops, o)
		}
		if gi == closer && len(ops) > 1 {
			at := len(ops)/2 + rng.Intn(len(ops)-len(ops)/2)
			ops[at] = Op{Kind: "close", View: rng.Intn(nv), Yield: rng.Intn(3)}
		}
		p.G = append(p.G, ops)
	}
	return p
}

// opCost: recorded operations (a batch counts 1 + its distinct keys) and mutations of one operation.
func opCost(o Op) (cost, wcost int) {
	cost = 1
	if o.Kind == "batch" {
		dk := map[string]bool{}
		for _, b := range o.Batch {
			dk[b.K] = true
		}
		cost = 1 + len(dk)
		if !o.Cancel {
			wcost = len(dk)
		}
	} else if isWrite(o.Kind) {
		wcost = 1
	}
	return
}

// genNested draws an operation a consumer performs while it is being handed an entry: any kind,
// on the iterating view object itself (half of the time) or on another view of the history.
func genNested(rng *rand.Rand, nv, view int, val string) Op {
	o := Op{View: view}
	if rng.Intn(2) == 0 {
		o.View = rng.Intn(nv)
	}
	k := keys[rng.Intn(len(keys))]
	switch x := rng.Intn(100); {
	case x < 18:
		o.Kind, o.K = "get", k
	case x < 25:
		o.Kind, o.K = "has", k
	case x < 47:
		o.Kind, o.K, o.V = "set", k, val
	case x < 61:
		o.Kind, o.K = "delete", k
	case x < 67:
		o.Kind, o.K = "deleteprefix", k
	case x < 70:
		o.Kind = "clear"
	case x < 80:
		o.Kind, o.K, o.Back = "iterate", k, rng.Intn(2) == 0
	case x < 85:
		o.Kind, o.K, o.Back = "iteratekeys", k, rng.Intn(2) == 0
	case x < 97:
		o.Kind = "batch"
		for j, m := 0, 1+rng.Intn(2); j < m; j++ {
			b := BOp{K: keys[rng.Intn(len(keys))]}
			if rng.Intn(3) == 0 {
				b.Del = true
			} else {
				b.V = fmt.Sprintf("%s.%d", val, j)
			}
			o.Batch = append(o.Batch, b)
		}
	default:
		o.Kind = "newview"
	}
	if (o.Kind == "iterate" || o.Kind == "iteratekeys") && rng.Intn(3) == 0 {
		o.K = ""
	}
	return o
}

// ---------------------------------------------------------------- recording

const (
	eOK = iota
	eNotFound
	eClosed
	eOther
)

type Rec struct {
	G       int          `json:"g"`
	I       int          `json:"i"`
	Kind    string       `json:"kind"`
	Realm   string       `json:"realm"`
	K       string       `json:"k,omitempty"`
	V       string       `json:"v,omitempty"`
	Back    bool         `json:"back,omitempty"`
	Call    int64        `json:"call"`
	Ret     int64        `json:"ret"`
	Err     int          `json:"err,omitempty"`
	ErrText string       `json:"errtext,omitempty"`
	Found   bool         `json:"found,omitempty"`
	Val     string       `json:"val,omitempty"`
	Items   []kvmodel.KV `json:"items,omitempty"`
	Full    bool         `json:"full,omitempty"`
	Commit  int          `json:"commit,omitempty"`
	Panic   string       `json:"panic,omitempty"`
	Nested  bool         `json:"nested,omitempty"` // performed by the consumer of the goroutine's running iteration
}

func classify(err error) (int, string) {
	switch {
	case err == nil:
		return eOK, ""
	case errors.Is(err, kvstore.ErrKeyNotFound):
		return eNotFound, err.Error()
	case errors.Is(err, kvstore.ErrStoreClosed):
		return eClosed, err.Error()
	}
	return eOther, err.Error()
}

func buildViews(p Plan) ([]kvstore.KVStore, kvstore.KVStore) {
	db := mapdb.NewMapDB()
	for i := 0; i < p.Filler; i++ {
		if err := db.Set([]byte("q"+strconv.Itoa(i)), []byte("x")); err != nil {
			panic(err)
		}
	}
	root, err := db.WithRealm([]byte(baseRealm))
	if err != nil {
		panic(err)
	}
	var out []kvstore.KVStore
	for _, vs := range p.Views {
		st, err := db.WithRealm([]byte(baseRealm + vs.Realm))
		if err != nil {
			panic(err)
		}
		for _, w := range strings.Split(vs.Wrap, ">") {
			switch w {
			case "flush":
				st = flushkv.New(st)
			case "debug":
				st = debug.New(st, func(debug.Command, ...[]byte) {})
			}
		}
		out = append(out, st)
	}
	return out, root
}

type deadlocked struct{ frames []string }

// execute runs the plan once. With record == false nothing is shared between
// the goroutines except the store (race build: no harness-made happens-before
// edges between operations).
func execute(p Plan, record bool) []Rec {
	views, root := buildViews(p)
	var tick atomic.Int64
	var ready atomic.Int32
	var commitSeq atomic.Int32
	var finished atomic.Int32
	g := len(p.G)
	recs := make([][]Rec, g)
	cls := make([]*caller, g+1) // slot gi is written by goroutine gi only, read after it has finished
	var wg sync.WaitGroup
	now := func() int64 {
		if !record {
			return 0
		}
		return tick.Add(1)
	}
	for gi := 0; gi < g; gi++ {
		wg.Add(1)
		go func(gi int) {
			defer wg.Done()
			defer finished.Add(1)
			local := append([]kvstore.KVStore{}, views...)
			var out []Rec
			cl := newCaller("g" + strconv.Itoa(gi))
			cls[gi] = cl
			ready.Add(1)
			for int(ready.Load()) < g {
				runtime.Gosched()
			}
			for i, o := range p.G[gi] {
				for y := 0; y < o.Yield; y++ {
					runtime.Gosched()
				}
				out = append(out, doOp(local, p, gi, i, o, now, &commitSeq, cl)...)
			}
			if record {
				recs[gi] = out
			}
		}(gi)
	}
	if !record {
		// race build: the runtime dead-lock detector is off there, so the main goroutine
		// watches structurally (oracle 2): every goroutine parked on a sync primitive in two
		// consecutive stop-the-world snapshots while the history has not finished = dead-lock.
		// Spinning/sleeping only paces the snapshots.
		quiet := 0
		for spins := 0; int(finished.Load()) < g; spins++ {
			if spins < 50000 {
				runtime.Gosched()
				continue
			}
			time.Sleep(200 * time.Microsecond)
			gs := gdump.Snapshot()
			if int(finished.Load()) == g {
				break
			}
			if gdump.Quiescent(gs) {
				quiet++
			} else {
				quiet = 0
			}
			if quiet >= 2 {
				var frames []string
				for _, x := range gs {
					if x.Has("hive.go/kvstore") && len(frames) < 8 {
						frames = append(frames, x.State+": "+strings.Join(x.Frames, " < "))
					}
				}
				panic(deadlocked{frames})
			}
		}
		own.absorb(ownReplay(p), cls...)
		return nil
	}
	wg.Wait()
	var all []Rec
	for _, r := range recs {
		all = append(all, r...)
	}
	// quiescent read of the whole store after every goroutine has finished
	cls[g] = newCaller("final read")
	fin := doOp([]kvstore.KVStore{root}, Plan{Views: []ViewSpec{{Realm: ""}}}, g, 0, Op{Kind: "iterate", View: 0}, now, &commitSeq, cls[g])
	all = append(all, fin...)
	own.absorb(ownReplay(p), cls...)
	return all
}

func ownReplay(p Plan) any { return map[string]any{"plan": p, "deadlock": true} }

// consumerPanic is what a consumer of the harness panics with (DISCIPLINES.md 3); the caller recovers it.
type consumerPanic struct{}

func doOp(views []kvstore.KVStore, p Plan, gi, i int, o Op, now func() int64, commitSeq *atomic.Int32, cl *caller) (out []Rec) {
	st := views[o.View]
	r := Rec{G: gi, I: i, Kind: o.Kind, Realm: p.Views[o.View].Realm, K: o.K, V: o.V, Back: o.Back}
	var nested []Rec // operations performed by the consumer of this iteration
	defer func() {
		if pn := recover(); pn != nil {
			r.Panic = fmt.Sprint(pn)
			r.Ret = now()
			out = append(append(out, r), nested...)
		}
	}()
	if cl.panicked {
		cl.st.afterPanic++
	}
	dir := kvstore.IterDirectionForward
	if o.Back {
		dir = kvstore.IterDirectionBackward
	}
	// every key / prefix / value argument lives in the goroutine's ONE key and ONE value buffer,
	// which are overwritten as soon as the call has returned (owned.go)
	switch o.Kind {
	case "get":
		kb := cl.key(o.K)
		r.Call = now()
		v, err := st.Get(kb)
		r.Ret = now()
		cl.keyDone("Get", o.K)
		r.Err, r.ErrText = classify(err)
		r.Found, r.Val = err == nil, cl.result("Get", v)
	case "has":
		kb := cl.key(o.K)
		r.Call = now()
		b, err := st.Has(kb)
		r.Ret = now()
		cl.keyDone("Has", o.K)
		r.Err, r.ErrText = classify(err)
		r.Found = b
	case "set":
		kb, vb := cl.key(o.K), cl.val(o.V)
		r.Call = now()
		err := st.Set(kb, vb)
		r.Ret = now()
		cl.keyDone("Set", o.K)
		cl.valDone("Set", vb, o.V)
		r.Err, r.ErrText = classify(err)
	case "delete":
		kb := cl.key(o.K)
		r.Call = now()
		err := st.Delete(kb)
		r.Ret = now()
		cl.keyDone("Delete", o.K)
		r.Err, r.ErrText = classify(err)
	case "deleteprefix":
		kb := cl.key(o.K)
		r.Call = now()
		err := st.DeletePrefix(kb)
		r.Ret = now()
		cl.keyDone("DeletePrefix", o.K)
		r.Err, r.ErrText = classify(err)
	case "clear":
		r.Call = now()
		err := st.Clear()
		r.Ret = now()
		r.Err, r.ErrText = classify(err)
	case "flush":
		r.Call = now()
		err := st.Flush()
		r.Ret = now()
		r.Err, r.ErrText = classify(err)
	case "close":
		r.Call = now()
		_ = st.Close()
		r.Ret = now()
	case "newview":
		r.Call = now()
		nv, err := st.WithRealm([]byte(baseRealm + r.Realm))
		r.Ret = now()
		r.Err, r.ErrText = classify(err)
		if err == nil && nv != nil {
			views[o.View] = nv
		}
	case "iterate", "iteratekeys":
		r.Full = true
		name := "Iterate"
		if o.Kind == "iteratekeys" {
			name = "IterateKeys"
		}
		consume := func(k, v []byte) bool {
			it := kvmodel.KV{K: cl.result(name+"/key", k)}
			if o.Kind == "iterate" {
				it.V = cl.result(name+"/value", v)
			}
			r.Items = append(r.Items, it)
			if o.CbYield {
				runtime.Gosched()
			}
			if len(o.Nest) > 0 && len(r.Items)-1 == o.NestAt {
				// re-entrant user code: the consumer works on the store it is iterating
				for _, no := range o.Nest {
					if cl.st.reent == nil {
						cl.st.reent = map[string]int{}
					}
					where := "_same_view_object"
					if no.View != o.View {
						where = "_other_view"
					}
					cl.st.reent[no.Kind+where]++
					for _, nr := range doOp(views, p, gi, i, no, now, commitSeq, cl.nested()) {
						nr.Nested = true
						nested = append(nested, nr)
					}
				}
			}
			if o.PanicAt > 0 && len(r.Items) >= o.PanicAt {
				r.Full = false
				panic(consumerPanic{})
			}
			if o.Stop > 0 && len(r.Items) >= o.Stop {
				r.Full = false
				return false
			}
			return true
		}
		kb := cl.key(o.K)
		r.Call = now()
		err := func() (err error) {
			defer func() {
				if pn := recover(); pn != nil {
					if _, mine := pn.(consumerPanic); !mine {
						panic(pn)
					}
					// the user's own panic came back to the user: fine. The store is used on.
					cl.st.panics++
					cl.panicked = true
				}
			}()
			if o.Kind == "iterate" {
				return st.Iterate(kb, consume, dir)
			}
			return st.IterateKeys(kb, func(k []byte) bool { return consume(k, nil) }, dir)
		}()
		r.Ret = now()
		cl.keyDone(name, o.K)
		r.Err, r.ErrText = classify(err)
	case "batch":
		r.Kind = "batched"
		r.Call = now()
		b, err := st.Batched()
		r.Ret = now()
		r.Err, r.ErrText = classify(err)
		out = append(out, r)
		if err != nil || b == nil {
			return out
		}
		var mops []kvmodel.BatchOp
		for _, bo := range o.Batch {
			if bo.Del {
				_ = cl.BDelete(b, bo.K)
			} else {
				_ = cl.BSet(b, bo.K, bo.V) // the value stays in the caller's buffer until Commit / Cancel returned
			}
			mops = append(mops, kvmodel.BatchOp{Del: bo.Del, K: bo.K, V: bo.V})
			if o.CbYield {
				runtime.Gosched()
			}
		}
		if o.Cancel {
			cl.Cancel(b)
			return out
		}
		id := int(commitSeq.Add(1))
		call := now()
		err = b.Commit()
		ret := now()
		cl.batchDone()
		ec, et := classify(err)
		for _, w := range kvmodel.LastPerKey(mops) {
			wr := Rec{G: gi, I: i, Kind: "set", Realm: r.Realm, K: w.K, V: w.V, Call: call, Ret: ret, Err: ec, ErrText: et, Commit: id}
			if w.Del {
				wr.Kind = "delete"
			}
			out = append(out, wr)
		}
		return out
	}
	return append(append(out, r), nested...)
}

// ---------------------------------------------------------------- model

func isWrite(k string) bool {
	switch k {
	case "set", "delete", "deleteprefix", "clear":
		return true
	}
	return false
}

func isRead(k string) bool { return !isWrite(k) && k != "close" }

func apply(m *kvmodel.Model, r *Rec) {
	switch r.Kind {
	case "set":
		m.Set(r.Realm, r.K, r.V)
	case "delete":
		m.Delete(r.Realm, r.K)
	case "deleteprefix":
		m.DeletePrefix(r.Realm, r.K)
	case "clear":
		m.Clear(r.Realm)
	}
}

// stepModel is the sequential specification: the C04 model, one operation at a
// time. It returns whether (operation, result) is possible in state m and the
// successor state (nil = unchanged). One deliberate leniency: a mutation that
// reported ErrStoreClosed while the store was still open is treated as having
// taken effect (a wrapper's Flush after the write can observe a concurrent
// Close) – the statement does not rule that out; a mutation reporting
// ErrStoreClosed in the closed state has no effect.
func stepModel(m *kvmodel.Model, r *Rec) (bool, *kvmodel.Model) {
	if r.Kind == "close" {
		if m.Closed {
			return true, nil
		}
		n := m.Clone()
		n.Closed = true
		return true, n
	}
	if m.Closed {
		return r.Err == eClosed, nil
	}
	if r.Err == eClosed {
		if isWrite(r.Kind) {
			n := m.Clone()
			apply(n, r)
			return true, n
		}
		return false, nil
	}
	if r.Err == eOther {
		return false, nil
	}
	switch r.Kind {
	case "flush", "batched", "newview":
		return r.Err == eOK, nil
	case "set", "delete", "deleteprefix", "clear":
		if r.Err != eOK {
			return false, nil
		}
		n := m.Clone()
		apply(n, r)
		return true, n
	case "get":
		v, ok := m.Get(r.Realm, r.K)
		return ok && r.Err == eOK && r.Val == v || !ok && r.Err == eNotFound, nil
	case "has":
		return r.Err == eOK && r.Found == m.Has(r.Realm, r.K), nil
	case "iterate", "iteratekeys":
		if r.Err != eOK {
			return false, nil
		}
		want := m.Iterate(r.Realm, r.K, r.Back)
		if r.Full && len(want) != len(r.Items) || len(r.Items) > len(want) {
			return false, nil
		}
		for i, it := range r.Items {
			if it.K != want[i].K || r.Kind == "iterate" && it.V != want[i].V {
				return false, nil
			}
		}
		return true, nil
	}
	return false, nil
}

// newModel wraps stepModel for porcupine. States are interned (state = index of
// a canonical map) and transitions memoised per (state, operation), so that the
// search pays a map lookup per step; one instance per checked history.
func newModel() porcupine.Model {
	type key struct {
		s int
		r *Rec
	}
	var mu sync.Mutex
	ids := map[string]int{}
	var states []*kvmodel.Model
	intern := func(m *kvmodel.Model) int {
		c := m.Canon()
		if id, ok := ids[c]; ok {
			return id
		}
		ids[c] = len(states)
		states = append(states, m)
		return len(states) - 1
	}
	intern(kvmodel.New())
	memo := map[key]int{}
	return porcupine.Model{
		Init: func() interface{} { return 0 },
		Step: func(state, input, _ interface{}) (bool, interface{}) {
			mu.Lock()
			defer mu.Unlock()
			k := key{state.(int), input.(*Rec)}
			if n, ok := memo[k]; ok {
				return n >= 0, n
			}
			ok, next := stepModel(states[k.s], k.r)
			n := k.s
			if !ok {
				n = -1
			} else if next != nil {
				n = intern(next)
			}
			memo[k] = n
			return n >= 0, n
		},
		DescribeOperation: func(in, _ interface{}) string { return describe(in.(*Rec)) },
	}
}

func describe(r *Rec) string {
	res := ""
	switch r.Err {
	case eNotFound:
		res = "ErrKeyNotFound"
	case eClosed:
		res = "ErrStoreClosed"
	case eOther:
		res = "error " + r.ErrText
	default:
		switch r.Kind {
		case "get":
			res = fmt.Sprintf("%q", r.Val)
		case "has":
			res = fmt.Sprint(r.Found)
		case "iterate", "iteratekeys":
			var s []string
			for _, it := range r.Items {
				s = append(s, fmt.Sprintf("%q=%q", it.K, it.V))
			}
			res = "[" + strings.Join(s, " ") + "]"
			if !r.Full {
				res += " (consumer stopped)"
			}
		default:
			res = "ok"
		}
	}
	if r.Panic != "" {
		res = "PANIC " + r.Panic
	}
	arg := fmt.Sprintf("%q", r.K)
	switch r.Kind {
	case "set":
		arg = fmt.Sprintf("%q,%q", r.K, r.V)
	case "iterate", "iteratekeys":
		arg = fmt.Sprintf("%q,back=%v", r.K, r.Back)
	case "clear", "flush", "close", "batched", "newview":
		arg = ""
	}
	c := ""
	if r.Commit > 0 {
		c = fmt.Sprintf(" (write of commit #%d)", r.Commit)
	}
	if r.Nested {
		c += " (called by the consumer of g" + strconv.Itoa(r.G) + "'s running iteration)"
	}
	return fmt.Sprintf("g%d [%d,%d] realm %q %s(%s)%s -> %s", r.G, r.Call, r.Ret, r.Realm, r.Kind, arg, c, res)
}

func toOps(recs []Rec, skip int) []porcupine.Operation {
	ops := make([]porcupine.Operation, 0, len(recs))
	for i := range recs {
		if i == skip {
			continue
		}
		r := &recs[i]
		ops = append(ops, porcupine.Operation{ClientId: r.G, Input: r, Output: r, Call: r.Call, Return: r.Ret})
	}
	return ops
}

const checkTimeout = 120 * time.Second

var blamed atomic.Int32

type verdict struct {
	res  porcupine.CheckResult
	fp   string
	what string
}

// checkHistory decides one recorded history.
func checkHistory(recs []Rec) verdict {
	firstClose := int64(-1)
	for i := range recs {
		if recs[i].Kind == "close" && (firstClose < 0 || recs[i].Call < firstClose) {
			firstClose = recs[i].Call
		}
	}
	for i := range recs {
		r := &recs[i]
		switch {
		case r.Panic != "":
			return verdict{porcupine.Illegal, "panic/" + r.Kind, "operation panicked: " + describe(r)}
		case r.Err == eOther, r.Err == eNotFound && r.Kind != "get":
			return verdict{porcupine.Illegal, "unexpected-error/" + r.Kind, "operation returned an error the contract does not know: " + describe(r)}
		case r.Err == eClosed && (firstClose < 0 || r.Ret < firstClose):
			return verdict{porcupine.Illegal, "spurious-ErrStoreClosed/" + r.Kind, "ErrStoreClosed returned before any Close was invoked: " + describe(r)}
		}
	}
	// every value is written once and keys are words over {a,b}: an observation of anything else needs
	// no search (caller-owned buffers are overwritten with scribbleByte after each call, so a store that
	// kept a caller's slice, or handed out memory it goes on using, answers with such a thing)
	written := map[string]bool{}
	for i := range recs {
		if recs[i].Kind == "set" {
			written[recs[i].V] = true
		}
	}
	for i := range recs {
		r := &recs[i]
		if r.Kind == "get" && r.Found && !written[r.Val] {
			return verdict{porcupine.Illegal, "value-never-written/get", "Get returned a value no operation of the history wrote: " + describe(r)}
		}
		for _, it := range r.Items {
			if strings.Trim(it.K, "ab") != "" {
				return verdict{porcupine.Illegal, "key-never-written/" + r.Kind, fmt.Sprintf("the consumer was handed key %q, which no operation of the history wrote: %s", it.K, describe(r))}
			}
			if r.Kind == "iterate" && !written[it.V] {
				return verdict{porcupine.Illegal, "value-never-written/iterate", fmt.Sprintf("the consumer was handed value %q for key %q, which no operation of the history wrote: %s", it.V, it.K, describe(r))}
			}
		}
	}
	res := porcupine.CheckOperationsTimeout(newModel(), toOps(recs, -1), checkTimeout)
	if res != porcupine.Illegal {
		return verdict{res: res}
	}
	if blamed.Add(1) > 8 {
		// enough diagnosed examples in this process; the class name needs the (costly) blame step
		return verdict{porcupine.Illegal, "", ""}
	}
	// blame: a read-type operation whose removal makes the rest linearizable
	// (removing an observer can never make a legal history illegal).
	culprits := map[string][]int{}
	for i := range recs {
		if !isRead(recs[i].Kind) {
			continue
		}
		if porcupine.CheckOperationsTimeout(newModel(), toOps(recs, i), 20*time.Second) == porcupine.Ok {
			culprits[recs[i].Kind] = append(culprits[recs[i].Kind], i)
		}
	}
	if len(culprits) == 0 {
		return verdict{porcupine.Illegal, "nonlinearizable/no-single-observer", "history is not linearizable and stays so after removing any single read-type operation"}
	}
	var kinds []string
	for k := range culprits {
		kinds = append(kinds, k)
	}
	sort.Strings(kinds)
	// prefer the most specific observer: an operation kind that is the only culprit, else the list
	fp := "nonlinearizable/" + strings.Join(kinds, "+")
	var ds []string
	for _, k := range kinds {
		for _, i := range culprits[k] {
			ds = append(ds, describe(&recs[i]))
		}
	}
	if len(ds) > 4 {
		ds = ds[:4]
	}
	return verdict{porcupine.Illegal, fp, "history is not linearizable; it becomes linearizable when one of these observations is removed: " + strings.Join(ds, " | ")}
}

// ---------------------------------------------------------------- overlap statistics

type span struct {
	g         int
	kind      string
	call, ret int64
	write     bool
}

func spans(recs []Rec) []span {
	var out []span
	seen := map[int]bool{}
	for _, r := range recs {
		if r.Commit > 0 {
			if seen[r.Commit] {
				continue
			}
			seen[r.Commit] = true
			out = append(out, span{r.G, "commit", r.Call, r.Ret, true})
			continue
		}
		out = append(out, span{r.G, r.Kind, r.Call, r.Ret, isWrite(r.Kind) || r.Kind == "close"})
	}
	return out
}

type histStats struct {
	ops, pairs, writePairs int
	kinds                  map[string]bool
}

func overlap(recs []Rec) histStats {
	sp := spans(recs)
	hs := histStats{ops: len(recs), kinds: map[string]bool{}}
	for i := range sp {
		for j := i + 1; j < len(sp); j++ {
			a, b := sp[i], sp[j]
			if a.g == b.g || a.ret < b.call || b.ret < a.call {
				continue
			}
			hs.pairs++
			if a.write || b.write {
				hs.writePairs++
			}
			x, y := a.kind, b.kind
			if x > y {
				x, y = y, x
			}
			hs.kinds[x+"|"+y] = true
		}
	}
	return hs
}

// ---------------------------------------------------------------- replay data

type Replay struct {
	Plan    Plan     `json:"plan"`
	History []Rec    `json:"history"`
	Text    []string `json:"text,omitempty"`
}

func render(recs []Rec) []string {
	s := append([]Rec{}, recs...)
	sort.Slice(s, func(i, j int) bool { return s[i].Call < s[j].Call })
	var out []string
	for i := range s {
		out = append(out, describe(&s[i]))
	}
	return out
}

// ---------------------------------------------------------------- children

type agg struct {
	mu                                sync.Mutex
	hist, ops, pairs, wpairs          int
	ok, illegal, unknown, overlapping int
	kinds                             map[string]bool
	nontrivial                        []uint64
	byProcs                           map[int]int
	maxCheck                          time.Duration
}

func (a *agg) flush(c *vf.Ctx) {
	c.Count("histories", a.hist)
	c.Count("evaluations", a.ops)
	c.Count("overlapping_pairs", a.pairs)
	c.Count("overlapping_pairs_with_mutation", a.wpairs)
	c.Count("histories_with_overlap", a.overlapping)
	c.Count("porcupine_ok", a.ok)
	c.Count("porcupine_illegal", a.illegal)
	c.Count("porcupine_unknown", a.unknown)
	for k := range a.kinds {
		c.Distinct("overlapping_kind_pairs", k)
	}
	for _, h := range a.nontrivial {
		c.DistinctHash("nontrivial", h)
	}
	for p, n := range a.byProcs {
		c.Count(fmt.Sprintf("histories_gomaxprocs_%d", p), n)
	}
	*a = agg{kinds: map[string]bool{}, byProcs: map[int]int{}}
}

func analyze(c *vf.Ctx, a *agg, p Plan, recs []Rec) {
	hs := overlap(recs)
	t0 := time.Now()
	v := checkHistory(recs)
	dt := time.Since(t0)
	h := fnv.New64a()
	s := append([]Rec{}, recs...)
	sort.Slice(s, func(i, j int) bool { return s[i].Call < s[j].Call })
	for _, r := range s {
		fmt.Fprintf(h, "%d.%d.%s;", r.G, r.I, r.Kind)
	}
	a.mu.Lock()
	a.hist++
	a.ops += hs.ops
	a.pairs += hs.pairs
	a.wpairs += hs.writePairs
	a.byProcs[p.Procs]++
	if hs.pairs > 0 {
		a.overlapping++
	}
	if hs.writePairs > 0 {
		a.nontrivial = append(a.nontrivial, h.Sum64()^uint64(p.Idx))
	}
	for k := range hs.kinds {
		a.kinds[k] = true
	}
	if dt > a.maxCheck {
		a.maxCheck = dt
	}
	switch v.res {
	case porcupine.Ok:
		a.ok++
	case porcupine.Illegal:
		a.illegal++
	default:
		a.unknown++
	}
	a.mu.Unlock()
	switch v.res {
	case porcupine.Illegal:
		if v.fp == "" {
			break
		}
		c.Violation(v.fp, fmt.Sprintf("history %d (%d goroutines, GOMAXPROCS %d): %s", p.Idx, len(p.G), p.Procs, v.what), Replay{Plan: p, History: recs, Text: render(recs)})
	case porcupine.Unknown:
		c.Inconclusive(fmt.Sprintf("porcupine timed out on history %d (%d operations)", p.Idx, len(recs)))
	}
}

type job struct {
	p    Plan
	recs []Rec
}

func childPlain(c *vf.Ctx, start, count int) {
	ncpu := runtime.NumCPU()
	workers := ncpu / 3
	if workers < 2 {
		workers = 2
	}
	a := &agg{kinds: map[string]bool{}, byProcs: map[int]int{}}
	for b0 := start; b0 < start+count; b0 += batchSize {
		n := batchSize
		if b0+n > start+count {
			n = start + count - b0
		}
		runtime.GOMAXPROCS(procsFor(b0))
		jobs := make([]job, n)
		for i := 0; i < n; i++ {
			idx := b0 + i
			p := genPlan(c.Rand("plan/"+strconv.Itoa(idx)), idx)
			p.Procs = procsFor(b0)
			c.Mark(strconv.Itoa(idx))
			jobs[i] = job{p, execute(p, true)}
		}
		runtime.GOMAXPROCS(ncpu)
		vf.Parallel(n, workers, func(i int) { analyze(c, a, jobs[i].p, jobs[i].recs) })
		if b0 == start && c.WantSample() && start == 0 {
			for _, j := range jobs {
				if hs := overlap(j.recs); hs.writePairs >= 3 && len(j.recs) <= 40 {
					c.Sample(map[string]any{"history": j.p.Idx, "goroutines": len(j.p.G), "views": j.p.Views, "overlapping_pairs": hs.pairs, "operations_by_call_tick": render(j.recs)})
					break
				}
			}
		}
	}
	c.Note(fmt.Sprintf("child %d..%d: slowest porcupine check %v", start, start+count, a.maxCheck))
	a.flush(c)
}

func childRace(c *vf.Ctx, start, count int) {
	n := 0
	ops := 0
	for idx := start; idx < start+count; idx++ {
		if (idx-start)%batchSize == 0 {
			runtime.GOMAXPROCS(procsFor(idx))
		}
		p := genPlan(c.Rand("plan/"+strconv.Itoa(idx)), idx)
		if (idx-start)%64 == 0 {
			c.Mark(strconv.Itoa(idx))
		}
		if dl := executeGuarded(p); dl != nil {
			c.Violation("deadlock", fmt.Sprintf("history %d (%d goroutines): every goroutine is parked on a lock in two consecutive snapshots and the history has not finished", idx, len(p.G)), map[string]any{"plan": p, "deadlock": true, "goroutines": dl.frames})
			break // the parked goroutines cannot be removed; end this child
		}
		n++
		for _, g := range p.G {
			ops += len(g)
		}
	}
	c.Count("race_histories", n)
	c.Count("race_operations", ops)
}

func executeGuarded(p Plan) (dl *deadlocked) {
	defer func() {
		if r := recover(); r != nil {
			d, ok := r.(deadlocked)
			if !ok {
				panic(r)
			}
			dl = &d
		}
	}()
	execute(p, false)
	return nil
}

func child(c *vf.Ctx) {
	start, _ := strconv.Atoi(c.ChildArgs[0])
	count, _ := strconv.Atoi(c.ChildArgs[1])
	switch c.Child {
	case "atom":
		childAtom(c, start, count, false)
	case "atomrace":
		childAtom(c, start, count, true)
	case "bulk":
		childBulk(c, start, count, false)
	case "bulkrace":
		childBulk(c, start, count, true)
	case "plain":
		childPlain(c, start, count)
	case "race":
		childRace(c, start, count)
	case "tiny":
		childTiny(c, start, count, false)
	case "tinyrace":
		childTiny(c, start, count, true)
	case "shared":
		childShared(c, start, count, false)
	case "sharedrace":
		childShared(c, start, count, true)
	}
	// what the callers of this child did with their own memory (owned.go), and what they found
	own.flush(c, strings.HasSuffix(c.Child, "race"))
}

// ---------------------------------------------------------------- parent

func atoi(s string) int { n, _ := strconv.Atoi(s); return n }

var digits = regexp.MustCompile(`[0-9]+`)

// crashFP names a process death by its fatal-error line (numbers removed).
func crashFP(fatal string) string {
	f := strings.TrimSpace(digits.ReplaceAllString(fatal, "N"))
	if len(f) > 80 {
		f = f[:80]
	}
	if f == "" {
		f = "unknown"
	}
	return "crash/" + f
}

func planFor(c *vf.Ctx, idx int) Plan { return genPlan(c.Rand("plan/"+strconv.Itoa(idx)), idx) }

// hung inspects a timed-out child: kvstore goroutines all parked on sync primitives => dead-lock.
func hung(c *vf.Ctx, res vf.ChildResult, what string) {
	gs := gdump.Parse(res.Stderr)
	in, parked := 0, 0
	var frames []string
	for _, g := range gs {
		if g.Has("hive.go/kvstore") {
			in++
			if g.Parked() && !strings.HasPrefix(g.State, "select") {
				parked++
				if len(frames) < 6 {
					frames = append(frames, g.State+": "+strings.Join(g.Frames, " < "))
				}
			}
		}
	}
	running := 0
	for _, g := range gs {
		if g.State == "running" || g.State == "runnable" {
			if !g.Has("os/signal") && !g.Has("runtime.ensureSigM") {
				running++
			}
		}
	}
	if in > 0 && in == parked && running == 0 {
		c.Violation("deadlock", fmt.Sprintf("%s: every goroutine inside kvstore (%d) is parked on a lock and nothing is runnable; last history %s", what, in, res.LastMark), map[string]any{"history": res.LastMark, "goroutines": frames})
		return
	}
	c.Inconclusive(fmt.Sprintf("%s hit the watchdog (last history %s) without a dead-lock pattern in the dump", what, res.LastMark))
}

func runPlainChildren(c *vf.Ctx, total, nChildren int) {
	per := (total/nChildren + batchSize - 1) / batchSize * batchSize
	vf.Parallel(nChildren, nChildren, func(i int) {
		start := i * per
		cnt := per
		if start+cnt > total {
			cnt = total - start
		}
		if cnt <= 0 {
			return
		}
		res := c.RunChild(vf.ChildOpts{Name: "plain", Args: []string{strconv.Itoa(start), strconv.Itoa(cnt)}, Timeout: time.Duration(c.Pick(10, 45)) * time.Minute})
		switch {
		case res.Deadlock:
			idx, _ := strconv.Atoi(res.LastMark)
			gs := gdump.Parse(res.Stderr)
			var frames []string
			for _, g := range gs {
				if g.Has("hive.go/kvstore") && len(frames) < 8 {
					frames = append(frames, g.State+": "+strings.Join(g.Frames, " < "))
				}
			}
			c.Violation("deadlock", fmt.Sprintf("Go runtime reported 'all goroutines are asleep' while executing history %d", idx), map[string]any{"plan": planFor(c, idx), "deadlock": true, "goroutines": frames})
		case res.TimedOut:
			hung(c, res, "plain child")
		case res.ExitCode != 0:
			c.Violation(crashFP(res.Fatal), fmt.Sprintf("child died (%s) while executing history %s", res.Fatal, res.LastMark), map[string]any{"plan": planFor(c, atoi(res.LastMark)), "deadlock": true, "fatal": res.Fatal})
		}
	})
}

func runRaceChildren(c *vf.Ctx, total, nChildren int, seed int64) {
	per := (total + nChildren - 1) / nChildren
	vf.Parallel(nChildren, nChildren, func(i int) {
		start := 1000000 + i*per // race histories use their own index range
		res := c.RunChild(vf.ChildOpts{Name: "race", Race: true, Seed: seed, Args: []string{strconv.Itoa(start), strconv.Itoa(per)}, Timeout: time.Duration(c.Pick(10, 45)) * time.Minute})
		reportRaces(c, res.Races)
		switch {
		case res.TimedOut:
			hung(c, res, "race child")
		case res.ExitCode != 0 && len(res.Races) == 0:
			c.Violation(crashFP(res.Fatal), fmt.Sprintf("race child died (%s) near history %s", res.Fatal, res.LastMark), map[string]any{"history": res.LastMark, "fatal": res.Fatal})
		}
	})
}

func runBulkChildren(c *vf.Ctx, total, nChildren int, race bool, seed int64) {
	name := "bulk"
	if race {
		name = "bulkrace"
	}
	runExtraChildren(c, name, total, nChildren, race, seed)
}

// runExtraChildren drives the porcupine-free families ("bulk…" and "atom…" child modes).
func runExtraChildren(c *vf.Ctx, name string, total, nChildren int, race bool, seed int64) {
	per := (total + nChildren - 1) / nChildren
	planOf := func(mark string) any {
		f := strings.Fields(mark)
		if len(f) == 2 && f[0] == "atom" {
			return map[string]any{"atomplan": atomPlanFor(c, atoi(f[1])), "fatal": "crash"}
		}
		if len(f) == 2 && f[0] == "tiny" {
			return map[string]any{"tinyplan": tinyPlanFor(c, atoi(f[1])), "fatal": "crash"}
		}
		if len(f) == 2 && f[0] == "shared" {
			return map[string]any{"sharedplan": sharedPlanFor(c, atoi(f[1])), "fatal": "crash"}
		}
		if len(f) == 2 {
			return map[string]any{"bulk": bulkPlanFor(c, atoi(f[1])), "fatal": "crash"}
		}
		return map[string]any{"fatal": "crash"}
	}
	vf.Parallel(nChildren, nChildren, func(i int) {
		start := i * per
		if race {
			start += 1000000
		}
		res := c.RunChild(vf.ChildOpts{Name: name, Race: race, Seed: seed, Args: []string{strconv.Itoa(start), strconv.Itoa(per)}, Timeout: time.Duration(c.Pick(10, 45)) * time.Minute})
		if race {
			reportRaces(c, res.Races)
		}
		switch {
		case res.Deadlock:
			c.Violation("deadlock", fmt.Sprintf("Go runtime reported 'all goroutines are asleep' during round %s", res.LastMark), planOf(res.LastMark))
		case res.TimedOut:
			hung(c, res, name+" child")
		case res.ExitCode != 0 && len(res.Races) == 0:
			c.Violation(crashFP(res.Fatal), fmt.Sprintf("%s child died (%s) during round %s", name, res.Fatal, res.LastMark), planOf(res.LastMark))
		}
	})
}

func replay(c *vf.Ctx) {
	defer own.flush(c, false)
	raw, err := os.ReadFile(c.Replay)
	if err != nil {
		fmt.Fprintln(os.Stderr, err)
		os.Exit(3)
	}
	var top struct {
		Seed   int64 `json:"seed"`
		Replay struct {
			Report   string      `json:"report"`
			Bulk     *BulkPlan   `json:"bulk"`
			Atom     *AtomPlan   `json:"atomplan"`
			Tiny     *TinyPlan   `json:"tinyplan"`
			Shared   *SharedPlan `json:"sharedplan"`
			Deadlock bool        `json:"deadlock"`
			Plan     *Plan       `json:"plan"`
			History  []Rec       `json:"history"`
		} `json:"replay"`
	}
	if err := json.Unmarshal(raw, &top); err != nil {
		fmt.Fprintln(os.Stderr, err)
		os.Exit(3)
	}
	rp := top.Replay
	switch {
	case rp.Atom != nil:
		replayAtom(c, *rp.Atom)
	case rp.Tiny != nil:
		replayTiny(c, *rp.Tiny)
	case rp.Shared != nil:
		replayShared(c, *rp.Shared)
	case rp.Bulk != nil:
		replayBulk(c, *rp.Bulk)
	case rp.Report != "":
		// a race report: re-run the race workload of the recorded seed
		runRaceChildren(c, c.Pick(3000, 60000), 2, top.Seed)
		runBulkChildren(c, c.Pick(24, 300), 1, true, top.Seed)
		runExtraChildren(c, "atomrace", c.Pick(16, 160), 1, true, top.Seed)
		runExtraChildren(c, "tinyrace", c.Pick(8, 80), 1, true, top.Seed)
		runExtraChildren(c, "sharedrace", c.Pick(2000, 40000), 1, true, top.Seed)
	case len(rp.History) > 0:
		// 1. the recorded history is decided again (deterministic)
		v := checkHistory(rp.History)
		c.Count("evaluations", len(rp.History))
		c.Note(fmt.Sprintf("recorded history (%d operations) decided again by porcupine: %s %s", len(rp.History), v.res, v.fp))
		// 2. the plan is executed again (the schedule is up to the runtime)
		if rp.Plan != nil {
			again := 0
			for i := 0; i < 2000; i++ {
				runtime.GOMAXPROCS(procsList[i%3])
				recs := execute(*rp.Plan, true)
				runtime.GOMAXPROCS(runtime.NumCPU())
				if v := checkHistory(recs); v.res == porcupine.Illegal {
					again++
					if again == 1 {
						c.Violation(v.fp, "re-executed plan: "+v.what, Replay{Plan: *rp.Plan, History: recs, Text: render(recs)})
					}
				}
			}
			c.Note(fmt.Sprintf("plan re-executed 2000 times: %d illegal histories", again))
		}
	case rp.Plan != nil:
		// dead-lock: execute the plan in plain children (runtime detector)
		b, _ := json.Marshal(rp.Plan)
		res := c.RunChild(vf.ChildOpts{Name: "replan", Args: []string{"0", "0"}, Stdin: b, Timeout: 5 * time.Minute})
		if res.Deadlock {
			c.Violation("deadlock", "Go runtime reported 'all goroutines are asleep' while re-executing the plan", map[string]any{"plan": rp.Plan, "deadlock": true})
		} else if res.TimedOut {
			hung(c, res, "replay child")
		} else if res.ExitCode != 0 {
			c.Violation(crashFP(res.Fatal), fmt.Sprintf("child died (%s) while re-executing the plan", res.Fatal), map[string]any{"plan": rp.Plan, "deadlock": true, "fatal": res.Fatal})
		}
	}
}

func run(c *vf.Ctx) {
	probeBatchSet(c)
	if c.Replay != "" {
		replay(c)
		return
	}
	c.SetRule("one history = 2-16 goroutines released by a spin barrier, 4-12 operations each (<= 128 recorded operations) on 1-3 views (realms \"\", a, ab; plain / flushkv / debug wrapped) of one mapdb store, keys {\"\",a,b,ab}, every Set value unique, seeded Gosched jitter, GOMAXPROCS cycling through 2/4/16; call/return ticks from one atomic counter; a committed batch is one operation per written key with the Commit window; 40% of the Iterate/IterateKeys consumers call back into the store (1-2 operations of any kind – Get/Has/Set/Delete/DeletePrefix/Clear/nested iteration/Batched+Commit/WithRealm – on the iterating view object or another view, recorded as operations of their own inside the iteration's window) and 10% panic after 1-2 entries (recovered by the caller, the store is used on); in ALL families every goroutine passes every key, prefix and value in ONE key buffer and ONE value buffer of its own which it overwrites as soon as the call has returned (batch values: as soon as Commit/Cancel has returned), and overwrites every slice it got back or was handed by an iteration (spare capacity included), at once or after holding it unchanged over the next three results. evaluations = recorded operations handed to porcupine. overlapping_pairs = pairs of operations of different goroutines whose [call,return] windows intersect; distinct_nontrivial = distinct observed schedules (hash of the tick-ordered operation list) in which at least one such pair contains a mutation. Second family (no porcupine): large-operation rounds – one goroutine commits batches of 1/100/511/512/513/2000 mutations, DeletePrefix/Clear over 1000 keys and iterates over up to 2600 entries through its own views while 4 single-writer streams (1200 Set/Delete/Get each, unique values, own keys inside and outside the ranges the large operations touch) and 2 readers work through other view objects; every Get, every iterated entry or absence and the final state is judged per key: the value must come from a mutation invoked before the observation returned and not followed by another mutation of that key that completed before the observation began; unknown keys must not appear. Third family (no porcupine; linearizability of a multi-key operation as ONE operation – the statement: every operation takes effect at one instant): (1) a fully populated key family of 1/100/1023/1024/1025/2048/5000/20000 entries is removed by exactly one DeletePrefix/Clear while 5 readers iterate (Iterate/IterateKeys, both directions) through the mutating view object, sibling, parent and nested views: every iteration reports all or none of the family; (2) an Iterate whose consumer the harness parks after j entries while one writer applies a known sequence of Sets/Deletes through the same/sibling/parent/nested view and returns must deliver the content at one point S0..Sn of that sequence; (3) free-running iterations with a slow consumer against a numbered writer sequence must deliver some Si with completed-at-call <= i <= started-at-return. Fourth family (no porcupine; small-store rounds): the round starts on an empty (0-2 entries) store; one goroutine builds and commits batches of 8/64/512/4096/16384 writes one after the other through its own view and mostly wipes the batch keys again (DeletePrefix / Clear of a nested view) between two commits; 1-2 parties keep 0..3 keys of their own alive (Set new key / Delete it) and 1-2 parties keep 0..3 batch keys deleted (Delete a key the batches write, preferably one their last iteration reported / Set it again), each through its own (plain / flushkv / debug, root or nested) view object, starting each step while a Commit is in flight (bounded spin); right after each of its own completed mutations a party observes (Get / Has / Iterate / IterateKeys over the key, its 10-neighbourhood, the key family or the whole realm, both directions); every observation is judged per key with the rule of the second family, the not-reported keys of the range and empty results included. Fifth family (no porcupine; shared batch handles, wrappers, slow backend): 2-4 goroutines share 1-2 batch handles of ONE view that is mapdb or a flushkv/debug stack over a harness backend which yields in every method and parks one call (before or after Flush, the backend batch's Commit/Set/Delete, Set, Delete, Get) until the other goroutines have completed 1-3 more steps (bounded spin); steps: Set/Delete on a handle (each key belongs to one handle and one goroutine), Commit of a handle, Set/Delete/Get/Flush through the shared view; a reader Gets through a plain view; finally the harness commits every handle once more. Per batch key with mutations m1..mn: a Commit C writes an index in [last mutation returned before C was invoked, last mutation invoked before C returned]; an observation of index i is admissible iff such a C invoked before the observation returned covers i and no commit whose lower bound exceeds i lies entirely between C and the observation; after the closing commit every key holds its last mutation")
	nPlain := c.Pick(20000, 500000)
	nRace := c.Pick(3000, 60000)
	var wg sync.WaitGroup
	wg.Add(2)
	go func() { defer wg.Done(); runPlainChildren(c, nPlain, c.Pick(4, 5)) }()
	go func() { defer wg.Done(); runRaceChildren(c, nRace, c.Pick(2, 4), c.Seed) }()
	nBulk, nBulkRace := c.Pick(150, 3000), c.Pick(24, 300)
	wg.Add(2)
	go func() { defer wg.Done(); runBulkChildren(c, nBulk, c.Pick(1, 3), false, c.Seed) }()
	go func() { defer wg.Done(); runBulkChildren(c, nBulkRace, c.Pick(1, 2), true, c.Seed) }()
	nAtom, nAtomRace := c.Pick(96, 1600), c.Pick(16, 160)
	wg.Add(2)
	go func() { defer wg.Done(); runExtraChildren(c, "atom", nAtom, c.Pick(2, 4), false, c.Seed) }()
	go func() { defer wg.Done(); runExtraChildren(c, "atomrace", nAtomRace, c.Pick(1, 2), true, c.Seed) }()
	nTiny, nTinyRace := c.Pick(48, 1000), c.Pick(8, 80)
	wg.Add(2)
	go func() { defer wg.Done(); runExtraChildren(c, "tiny", nTiny, c.Pick(2, 4), false, c.Seed) }()
	go func() { defer wg.Done(); runExtraChildren(c, "tinyrace", nTinyRace, 1, true, c.Seed) }()
	nShared, nSharedRace := c.Pick(12000, 300000), c.Pick(2000, 40000)
	wg.Add(2)
	go func() { defer wg.Done(); runExtraChildren(c, "shared", nShared, c.Pick(2, 4), false, c.Seed) }()
	go func() { defer wg.Done(); runExtraChildren(c, "sharedrace", nSharedRace, 1, true, c.Seed) }()
	wg.Wait()
	c.Require("atom_family_rounds", nAtom*4/10)
	c.Require("atom_gated_snapshot_checks", nAtom/8)
	c.Require("atom_free_snapshot_checks_with_writer_progress", nAtom*5)
	c.Require("atom_family_iterations_overlapping_the_delete", nAtom/2)
	c.Require("atom_family_iterations_reporting_all", nAtom)
	c.Require("atom_family_iterations_reporting_none", nAtom)
	c.Require("atom_race_family_rounds", nAtomRace*4/10)
	for _, s := range famSizesQuick {
		c.Require("atom_family_rounds_of_size_"+strconv.Itoa(s), nAtom/20)
	}
	// minimums that depend on real overlap scale with the cores the run may use
	scaled := func(n int) int {
		k := runtime.NumCPU()
		if k > 4 {
			k = 4
		}
		if n = n * k / 4; n < 1 {
			n = 1
		}
		return n
	}
	c.Require("tiny_rounds", nTiny*9/10)
	c.Require("tiny_race_rounds", nTinyRace*9/10)
	// (only what the harness drives is demanded: how many operations fit INSIDE a Commit window depends on
	// the library's lock granularity, so those counters are evidence, not minimums)
	c.Require("tiny_party_operations_overlapping_a_commit", scaled(nTiny*5))
	c.Require("tiny_iterations_reporting_nothing", nTiny*10)
	c.Require("tiny_iterations_reporting_entries", nTiny*10)
	c.Require("shared_rounds", nShared*9/10)
	c.Require("shared_race_rounds", nSharedRace*9/10)
	c.Require("shared_backend_calls_parked_while_others_progressed", scaled(nShared/8))
	c.Require("shared_batch_mutations_overlapping_a_commit_of_their_handle", scaled(nShared/4))
	c.Require("shared_commits_overlapping_a_commit_of_their_handle", scaled(nShared/8))
	for _, st := range []string{"mapdb", "flush", "slow", "slow_flush", "slow_debug", "slow_flush_debug", "slow_debug_flush"} {
		c.Require("shared_rounds_stack_"+st, nShared/40)
	}
	c.Require("bulk_rounds", nBulk*9/10)
	c.Require("bulk_race_rounds", nBulkRace*9/10)
	c.Require("bulk_writer_mutations_overlapping_large_op", nBulk*50)
	c.Require("bulk_single_writer_checks", nBulk*500)
	for _, s := range bulkSizes {
		c.Require("bulk_commits_of_size_"+strconv.Itoa(s), nBulk/8)
	}
	// caller-owned memory, re-entrant and panicking consumers (owned.go): what the harness itself drives
	c.Require("own_argument_buffers_overwritten_after_return", nPlain*10)
	c.Require("own_argument_buffers_unchanged_by_call", nPlain*10)
	c.Require("own_batch_values_overwritten", nPlain/2)
	c.Require("own_results_overwritten_at_once", nPlain*2)
	c.Require("own_held_result_rechecks", nPlain*2)
	c.Require("own_reentrant_calls", nPlain/4)
	c.Require("own_consumer_panics_recovered", nPlain/20)
	c.Require("own_operations_after_a_consumer_panic", nPlain/10)
	c.Require("own_race_argument_buffers_overwritten_after_return", nRace*10)
	c.Require("own_race_batch_values_overwritten", nRace/2)
	c.Require("own_race_results_overwritten_at_once", nRace*2)
	c.Require("own_race_reentrant_calls", nRace/4)
	c.Require("own_race_consumer_panics_recovered", nRace/20)
	c.Require("histories", nPlain*9/10)
	c.Require("race_histories", nRace*9/10)
	c.Require("overlapping_pairs", nPlain)
	c.Require("overlapping_pairs_with_mutation", nPlain/2)
	c.Require("porcupine_ok", nPlain/2)
	c.Assume("porcupine v1.3.0 decides linearizability of a recorded history correctly; the Go race detector has no false positives; ticks taken with one atomic counter are consistent with real time")
	c.Extra("procs_cycle", procsList)
}

func main() { vf.Main("C05", "exploration", run, childDispatch) }

func maxConc(recs []Rec) int {
	type ev struct {
		t int64
		d int
	}
	var evs []ev
	for _, s := range spans(recs) {
		evs = append(evs, ev{s.call, 1}, ev{s.ret, -1})
	}
	sort.Slice(evs, func(i, j int) bool { return evs[i].t < evs[j].t })
	cur, mx := 0, 0
	for _, e := range evs {
		cur += e.d
		if cur > mx {
			mx = cur
		}
	}
	return mx
}

func childProf(c *vf.Ctx) {
	start, _ := strconv.Atoi(c.ChildArgs[0])
	count, _ := strconv.Atoi(c.ChildArgs[1])
	for idx := start; idx < start+count; idx++ {
		if (idx-start)%batchSize == 0 {
			runtime.GOMAXPROCS(procsFor(idx))
		}
		p := genPlan(c.Rand("plan/"+strconv.Itoa(idx)), idx)
		recs := execute(p, true)
		runtime.GOMAXPROCS(runtime.NumCPU())
		t0 := time.Now()
		res := porcupine.CheckOperationsTimeout(newModel(), toOps(recs, -1), 5*time.Second)
		hs := overlap(recs)
		fmt.Fprintf(os.Stderr, "PROF %d g=%d procs=%d recs=%d pairs=%d conc=%d ms=%d %s\n", idx, len(p.G), procsFor(idx), len(recs), hs.pairs, maxConc(recs), time.Since(t0).Milliseconds(), res)
		runtime.GOMAXPROCS(procsFor(idx))
	}
}

func childDispatch(c *vf.Ctx) {
	probeBatchSet(c)
	if c.Child == "prof" {
		childProf(c)
		return
	}
	if c.Child == "replan" {
		var p Plan
		if err := json.NewDecoder(os.Stdin).Decode(&p); err != nil {
			fmt.Fprintln(os.Stderr, err)
			os.Exit(3)
		}
		for i := 0; i < 3000; i++ {
			runtime.GOMAXPROCS(procsList[i%3])
			if dl := executeGuarded(p); dl != nil {
				c.Violation("deadlock", fmt.Sprintf("re-executed plan (run %d): every goroutine is parked on a lock in two consecutive snapshots and the history has not finished", i), map[string]any{"plan": p, "deadlock": true, "goroutines": dl.frames})
				return
			}
		}
		own.flush(c, false)
		return
	}
	child(c)
}
