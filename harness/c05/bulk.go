// Second, porcupine-free family of C05: size-dependent paths.
//
// One goroutine performs LARGE operations through its own views (batches of
// 1 / 100 / 511 / 512 / 513 / 2000 mutations, DeletePrefix and Clear over a
// thousand keys, Iterate over thousands of entries) while single-writer
// streams Set/Delete their own keys through OTHER view objects of the same
// store and readers Get them. The oracle needs no search. Every key is a
// register whose mutations carry [call,return] ticks and unique values; an
// observation (Get, an Iterate entry or absence, the final state) must return
// the value of a mutation M that was invoked before the observation returned
// and that is not superseded, i.e. there is no other mutation M' of that key
// with M.return < M'.call and M'.return < observation.call. For a key written
// by one goroutine only this is exactly "never older than the last write that
// completed before the read began, finally the last write"; for keys that a
// large operation also touches it is "the large operation's value unless a
// write exists that was not over before the large operation began". Keys that
// nobody wrote must never appear. (Necessary for linearizability, sound
// without search.)
package main

import (
	"errors"
	"fmt"
	"math/rand"
	"runtime"
	"sort"
	"strconv"
	"strings"
	"sync"
	"sync/atomic"

	"github.com/iotaledger/hive.go/kvstore"
	"github.com/iotaledger/hive.go/kvstore/flushkv"
	"github.com/iotaledger/hive.go/kvstore/mapdb"
	"verif/harness/internal/vf"
)

var bulkSizes = []int{1, 100, 511, 512, 513, 2000}

const (
	bulkKeys    = 2600 // k0000 .. k2599 under the base realm
	bulkWriters = 4
	bulkReaders = 2
)

type BigStep struct {
	Kind   string `json:"kind"` // commit | deleteprefix | clear | iterate | iteratekeys
	Size   int    `json:"size,omitempty"`
	Prefix string `json:"prefix,omitempty"` // relative to the base realm
	Back   bool   `json:"back,omitempty"`
	Yield  int    `json:"yield,omitempty"`
	Nested bool   `json:"nested,omitempty"` // through a view whose realm already contains the prefix
	Flush  bool   `json:"flush,omitempty"`  // through a flushkv wrapper
}

type BulkPlan struct {
	Idx     int       `json:"bulk_idx"`
	Procs   int       `json:"procs"`
	Big     []BigStep `json:"big"`
	Writes  int       `json:"writes"`  // per writer
	Reads   int       `json:"reads"`   // per reader
	WSeed   int64     `json:"wseed"`   // writer / reader scripts
	WNested []bool    `json:"wnested"` // writer i works through a view with realm base+"k" (keys without the leading k)
	WFlush  []bool    `json:"wflush"`
}

func genBulk(rng *rand.Rand, idx int) BulkPlan {
	p := BulkPlan{Idx: idx, Procs: procsList[idx%len(procsList)], Writes: 1200, Reads: 1200, WSeed: rng.Int63()}
	size := bulkSizes[idx%len(bulkSizes)]
	others := []BigStep{
		{Kind: "deleteprefix", Prefix: "k1"},
		{Kind: "clear", Prefix: "k1", Nested: true},
		{Kind: "iterate", Prefix: ""},
		{Kind: "iterate", Prefix: "k0"},
		{Kind: "iteratekeys", Prefix: "k2"},
		{Kind: "iterate", Prefix: "k", Nested: true},
		{Kind: "commit", Size: bulkSizes[rng.Intn(len(bulkSizes))]},
	}
	p.Big = append(p.Big, BigStep{Kind: "commit", Size: size})
	for i, n := 0, 2+rng.Intn(3); i < n; i++ {
		p.Big = append(p.Big, others[rng.Intn(len(others))])
	}
	rng.Shuffle(len(p.Big), func(i, j int) { p.Big[i], p.Big[j] = p.Big[j], p.Big[i] })
	for i := range p.Big {
		p.Big[i].Back = rng.Intn(2) == 0
		p.Big[i].Yield = rng.Intn(4)
		p.Big[i].Flush = rng.Intn(4) == 0
	}
	for i := 0; i < bulkWriters; i++ {
		p.WNested = append(p.WNested, rng.Intn(2) == 0)
		p.WFlush = append(p.WFlush, rng.Intn(4) == 0)
	}
	return p
}

func bulkKey(i int) string { return fmt.Sprintf("k%04d", i) }

// writerKeys: two keys inside the range large batches cover, one inside the
// range DeletePrefix/Clear cover, two that no large operation mutates.
func writerKeys(w int) []string {
	return []string{bulkKey(10 + w), bulkKey(300 + w), bulkKey(1500 + w), bulkKey(2500 + 2*w), bulkKey(2501 + 2*w)}
}

type bmut struct {
	call, ret int64
	val       string
	del       bool
	by        string
}

type bobs struct {
	key       string
	call, ret int64
	val       string
	found     bool
	by        string
}

type bigRec struct {
	step      BigStep
	call, ret int64
	sets      map[string]string
	dels      map[string]bool
	prefix    string // mutation of every key with this prefix (deleteprefix / clear)
	isPrefix  bool
	items     map[string]string // iterate result
	iterated  bool
	keysOnly  bool
	err       string
}

type bulkResult struct {
	muts    map[string][]bmut
	obs     []bobs
	big     []bigRec
	final   map[string]string
	panics  []string
	errs    []string
	overlap int // writer mutations whose window intersects a large operation
}

type bulkViolation struct {
	fp, what string
}

// runBulk executes one round. With record == false (race build) no ticks are
// taken, so the harness adds no happens-before edges between operations.
func runBulk(p BulkPlan, record bool) *bulkResult {
	db := mapdb.NewMapDB()
	mk := func(realm string, flush bool) kvstore.KVStore {
		v, err := db.WithRealm([]byte(baseRealm + realm))
		if err != nil {
			panic(err)
		}
		if flush {
			v = flushkv.New(v)
		}
		return v
	}
	res := &bulkResult{muts: map[string][]bmut{}, final: map[string]string{}}
	init := mk("", false)
	for i := 0; i < bulkKeys; i++ {
		k := bulkKey(i)
		if err := init.Set([]byte(k), []byte("i"+k)); err != nil {
			panic(err)
		}
		res.muts[k] = append(res.muts[k], bmut{0, 0, "i" + k, false, "init"})
	}
	var tick atomic.Int64
	now := func() int64 {
		if !record {
			return 0
		}
		return tick.Add(1)
	}
	var ready atomic.Int32
	total := int32(1 + bulkWriters + bulkReaders)
	barrier := func() {
		ready.Add(1)
		for ready.Load() < total {
			runtime.Gosched()
		}
	}
	var mu sync.Mutex
	var wg sync.WaitGroup
	guard := func(who string) {
		if r := recover(); r != nil {
			mu.Lock()
			res.panics = append(res.panics, fmt.Sprintf("%s: %v", who, r))
			mu.Unlock()
		}
	}
	fail := func(s string) {
		mu.Lock()
		if len(res.errs) < 8 {
			res.errs = append(res.errs, s)
		}
		mu.Unlock()
	}

	// every goroutine owns ONE key and ONE value buffer for all its arguments (owned.go)
	cls := make([]*caller, 1+bulkWriters+bulkReaders)

	// large operations
	wg.Add(1)
	go func() {
		defer wg.Done()
		defer guard("large-op goroutine")
		cl := newCaller("large-op goroutine")
		cls[0] = cl
		barrier()
		var out []bigRec
		for si, st := range p.Big {
			for y := 0; y < st.Yield*50; y++ {
				runtime.Gosched()
			}
			br := bigRec{step: st}
			realm, prefix := "", st.Prefix
			if st.Nested {
				realm, prefix = st.Prefix, ""
			}
			v := mk(realm, st.Flush)
			switch st.Kind {
			case "commit":
				b, err := v.Batched()
				if err != nil {
					fail("Batched: " + err.Error())
					continue
				}
				br.sets, br.dels = map[string]string{}, map[string]bool{}
				for i := 0; i < st.Size; i++ {
					k := bulkKey(i)
					if i%7 == 3 {
						_ = cl.BDelete(b, k)
						br.dels[k] = true
					} else {
						val := fmt.Sprintf("b%d.%d.%d", p.Idx, si, i)
						_ = cl.BSet(b, k, val)
						br.sets[k] = val
					}
				}
				br.call = now()
				err = b.Commit()
				br.ret = now()
				cl.batchDone() // the values of the batch are overwritten now that Commit has returned
				if err != nil {
					br.err = err.Error()
				}
			case "deleteprefix", "clear":
				br.isPrefix, br.prefix = true, st.Prefix
				br.call = now()
				var err error
				if st.Kind == "clear" {
					err = v.Clear()
				} else {
					err = cl.DeletePrefix(v, prefix)
				}
				br.ret = now()
				if err != nil {
					br.err = err.Error()
				}
			case "iterate", "iteratekeys":
				br.iterated, br.items, br.keysOnly = true, map[string]string{}, st.Kind == "iteratekeys"
				dir := kvstore.IterDirectionForward
				if st.Back {
					dir = kvstore.IterDirectionBackward
				}
				var err error
				br.call = now()
				if st.Kind == "iterate" {
					err = cl.Iterate(v, prefix, func(k, val string) bool { br.items[realm+k] = val; return true }, dir)
				} else {
					err = cl.IterateKeys(v, prefix, func(k string) bool { br.items[realm+k] = ""; return true }, dir)
				}
				br.ret = now()
				if err != nil {
					br.err = err.Error()
				}
			}
			if br.err != "" {
				fail(st.Kind + ": " + br.err)
			}
			out = append(out, br)
		}
		mu.Lock()
		res.big = out
		mu.Unlock()
	}()

	// single-writer streams
	for w := 0; w < bulkWriters; w++ {
		wg.Add(1)
		go func(w int) {
			defer wg.Done()
			who := fmt.Sprintf("writer %d", w)
			defer guard(who)
			cl := newCaller(who)
			cls[1+w] = cl
			rng := rand.New(rand.NewSource(p.WSeed + int64(w)))
			realm := ""
			if p.WNested[w] {
				realm = "k"
			}
			v := mk(realm, p.WFlush[w])
			keys := writerKeys(w)
			local := map[string][]bmut{}
			var obs []bobs
			barrier()
			for j := 0; j < p.Writes; j++ {
				k := keys[rng.Intn(len(keys))]
				arg := strings.TrimPrefix(k, realm)
				switch x := rng.Intn(20); {
				case x < 16:
					val := fmt.Sprintf("w%d.%d", w, j)
					c := now()
					err := cl.Set(v, arg, val)
					r := now()
					if err != nil {
						fail(who + " Set: " + err.Error())
					}
					local[k] = append(local[k], bmut{c, r, val, false, who})
				case x < 18:
					c := now()
					err := cl.Delete(v, arg)
					r := now()
					if err != nil {
						fail(who + " Delete: " + err.Error())
					}
					local[k] = append(local[k], bmut{c, r, "", true, who})
				default:
					c := now()
					val, err := cl.Get(v, arg)
					r := now()
					if err != nil && !errors.Is(err, kvstore.ErrKeyNotFound) {
						fail(who + " Get: " + err.Error())
					}
					obs = append(obs, bobs{k, c, r, val, err == nil, who})
				}
				if rng.Intn(8) == 0 {
					runtime.Gosched()
				}
			}
			mu.Lock()
			for k, l := range local {
				res.muts[k] = append(res.muts[k], l...)
			}
			res.obs = append(res.obs, obs...)
			mu.Unlock()
		}(w)
	}

	// readers
	for rd := 0; rd < bulkReaders; rd++ {
		wg.Add(1)
		go func(rd int) {
			defer wg.Done()
			who := fmt.Sprintf("reader %d", rd)
			defer guard(who)
			cl := newCaller(who)
			cls[1+bulkWriters+rd] = cl
			rng := rand.New(rand.NewSource(p.WSeed + 1000 + int64(rd)))
			v := mk("", false)
			var obs []bobs
			barrier()
			for j := 0; j < p.Reads; j++ {
				var k string
				if rng.Intn(5) == 0 {
					k = bulkKey(rng.Intn(bulkKeys))
				} else {
					ks := writerKeys(rng.Intn(bulkWriters))
					k = ks[rng.Intn(len(ks))]
				}
				c := now()
				val, err := cl.Get(v, k)
				r := now()
				if err != nil && !errors.Is(err, kvstore.ErrKeyNotFound) {
					fail(who + " Get: " + err.Error())
				}
				obs = append(obs, bobs{k, c, r, val, err == nil, who})
				if rng.Intn(8) == 0 {
					runtime.Gosched()
				}
			}
			mu.Lock()
			res.obs = append(res.obs, obs...)
			mu.Unlock()
		}(rd)
	}
	waitRound(&wg, record) // race build: structural dead-lock watch instead of the runtime detector
	own.absorb(map[string]any{"bulk": p}, cls...)
	// final state through the unwrapped root (includes nothing but the base realm)
	_ = db.Iterate(kvstore.EmptyPrefix, func(k, v []byte) bool {
		res.final[strings.TrimPrefix(string(k), baseRealm)] = string(v)
		return true
	})
	return res
}

// mutsOf returns every mutation of key k: the writers' and the large operations'.
func (res *bulkResult) mutsOf(k string) []bmut {
	ms := append([]bmut{}, res.muts[k]...)
	for _, b := range res.big {
		if b.err != "" {
			continue
		}
		who := "large " + b.step.Kind
		if b.isPrefix && strings.HasPrefix(k, b.prefix) {
			ms = append(ms, bmut{b.call, b.ret, "", true, who})
		}
		if v, ok := b.sets[k]; ok {
			ms = append(ms, bmut{b.call, b.ret, v, false, fmt.Sprintf("%s(%d)", who, b.step.Size)})
		}
		if b.dels[k] {
			ms = append(ms, bmut{b.call, b.ret, "", true, fmt.Sprintf("%s(%d)", who, b.step.Size)})
		}
	}
	return ms
}

const tickInf = int64(1) << 62

// admissible: may an observation with window [oc, or] return the result of m?
func admissible(ms []bmut, m bmut, oc, or int64) (bool, bmut) {
	if m.call >= or && m.call != 0 {
		return false, m // invoked after the observation returned
	}
	for _, x := range ms {
		if x.call > m.ret && x.ret < oc {
			return false, x // x lies entirely between m and the observation
		}
	}
	return true, bmut{}
}

func describeMut(m bmut) string {
	v := fmt.Sprintf("Set %q", m.val)
	if m.del {
		v = "Delete"
	}
	return fmt.Sprintf("%s by %s [%d,%d]", v, m.by, m.call, m.ret)
}

// judge decides one observation of key k.
func judge(ms []bmut, k string, found bool, val string, oc, or int64, kind, by string) *bulkViolation {
	window := fmt.Sprintf("[%d,%d]", oc, or)
	if oc == tickInf {
		window = "after all goroutines finished"
	}
	if found {
		for _, m := range ms {
			if !m.del && m.val == val {
				ok, sup := admissible(ms, m, oc, or)
				if ok {
					return nil
				}
				if sup.call == m.call && sup.ret == m.ret {
					return &bulkViolation{"bulk/" + kind + "/value-from-the-future", fmt.Sprintf("%s of %s %s by %s returned %q which was written by an operation invoked later: %s", kind, k, window, by, val, describeMut(m))}
				}
				return &bulkViolation{"bulk/" + kind + "/stale-or-lost-write", fmt.Sprintf("%s of %s %s by %s returned %q (%s) although a later mutation of that key had completed before: %s", kind, k, window, by, val, describeMut(m), describeMut(sup))}
			}
		}
		return &bulkViolation{"bulk/" + kind + "/value-never-written", fmt.Sprintf("%s of %s %s by %s returned %q which nobody wrote to that key", kind, k, window, by, val)}
	}
	var sup bmut
	anyDel := false
	for _, m := range ms {
		if m.del {
			anyDel = true
			ok, s := admissible(ms, m, oc, or)
			if ok {
				return nil
			}
			sup = s
		}
	}
	if !anyDel {
		return &bulkViolation{"bulk/" + kind + "/key-vanished", fmt.Sprintf("%s of %s %s by %s found no entry although nobody deleted that key", kind, k, window, by)}
	}
	return &bulkViolation{"bulk/" + kind + "/stale-or-lost-write", fmt.Sprintf("%s of %s %s by %s found no entry although every Delete of that key was followed by a completed Set, e.g. %s", kind, k, window, by, describeMut(sup))}
}

type bulkStats struct {
	rounds, muts, gets, iterEntries, finalKeys, singleWriterChecks, overlapping int
	bySize                                                                      map[int]int
	byKind                                                                      map[string]int
}

// checkBulk applies the oracles to a recorded round.
func checkBulk(p BulkPlan, res *bulkResult, st *bulkStats) []bulkViolation {
	var out []bulkViolation
	add := func(v *bulkViolation) {
		if v != nil && len(out) < 6 {
			out = append(out, *v)
		}
	}
	for _, s := range res.panics {
		out = append(out, bulkViolation{"bulk/panic", "panic in " + s})
	}
	for _, s := range res.errs {
		out = append(out, bulkViolation{"bulk/unexpected-error", "operation failed on an open store: " + s})
	}
	cache := map[string][]bmut{}
	get := func(k string) []bmut {
		if m, ok := cache[k]; ok {
			return m
		}
		m := res.mutsOf(k)
		cache[k] = m
		return m
	}
	known := func(k string) bool { _, ok := res.muts[k]; return ok }
	// (a) reads
	for _, o := range res.obs {
		st.gets++
		ms := get(o.key)
		if len(ms) == len(res.muts[o.key]) {
			st.singleWriterChecks++
		}
		add(judge(ms, o.key, o.found, o.val, o.call, o.ret, "get", o.by))
	}
	// large iterations: every delivered entry and every absent key of the range
	for _, b := range res.big {
		st.byKind[b.step.Kind]++
		if b.step.Kind == "commit" {
			st.bySize[b.step.Size]++
		}
		if !b.iterated || b.err != "" {
			continue
		}
		kind := "iterate"
		for k, v := range b.items {
			if !known(k) {
				add(&bulkViolation{"bulk/iterate/unknown-key", fmt.Sprintf("large %s(%q) delivered key %q which nobody wrote", b.step.Kind, b.step.Prefix, k)})
				continue
			}
			st.iterEntries++
			if b.keysOnly {
				// presence only: some Set must be admissible
				ms := get(k)
				ok := false
				for _, m := range ms {
					if !m.del {
						if a, _ := admissible(ms, m, b.call, b.ret); a {
							ok = true
							break
						}
					}
				}
				if !ok {
					add(&bulkViolation{"bulk/iterate/stale-or-lost-write", fmt.Sprintf("large IterateKeys(%q) [%d,%d] delivered %s although its last Set was followed by a completed Delete", b.step.Prefix, b.call, b.ret, k)})
				}
				continue
			}
			add(judge(get(k), k, true, v, b.call, b.ret, kind, "the large-op goroutine"))
		}
		for k := range res.muts {
			if strings.HasPrefix(k, b.step.Prefix) {
				if _, ok := b.items[k]; !ok {
					st.iterEntries++
					add(judge(get(k), k, false, "", b.call, b.ret, kind, "the large-op goroutine"))
				}
			}
		}
	}
	// (a)/(b) final state, (c) nothing else
	for k, v := range res.final {
		if !known(k) {
			add(&bulkViolation{"bulk/final-state/unknown-key", fmt.Sprintf("after the round the store holds key %q = %q which nobody wrote", k, v)})
		}
	}
	for k := range res.muts {
		st.finalKeys++
		v, found := res.final[k]
		ms := get(k)
		if len(ms) == len(res.muts[k]) && len(ms) > 1 {
			st.singleWriterChecks++
		}
		add(judge(ms, k, found, v, tickInf, tickInf, "final-state", "the harness"))
	}
	// how much concurrency was there?
	for _, l := range res.muts {
		for _, m := range l {
			if m.call == 0 {
				continue
			}
			st.muts++
			for _, b := range res.big {
				if m.call < b.ret && b.call < m.ret {
					st.overlapping++
					break
				}
			}
		}
	}
	st.rounds++
	return out
}

// checkBulkUntimed is the part of the oracle that needs no ticks (race build):
// keys written by exactly one goroutine and untouched by large mutations hold
// that goroutine's last write; no unknown keys.
func checkBulkUntimed(p BulkPlan, res *bulkResult, st *bulkStats) []bulkViolation {
	var out []bulkViolation
	for _, s := range res.panics {
		out = append(out, bulkViolation{"bulk/panic", "panic in " + s})
	}
	for _, s := range res.errs {
		out = append(out, bulkViolation{"bulk/unexpected-error", "operation failed on an open store: " + s})
	}
	for k, v := range res.final {
		if _, ok := res.muts[k]; !ok && len(out) < 6 {
			out = append(out, bulkViolation{"bulk/final-state/unknown-key", fmt.Sprintf("after the round the store holds key %q = %q which nobody wrote", k, v)})
		}
	}
	for k, l := range res.muts {
		if len(res.mutsOf(k)) != len(l) {
			continue // also mutated by a large operation
		}
		st.singleWriterChecks++
		last := l[len(l)-1] // a writer's mutations are appended in program order
		v, found := res.final[k]
		if (found != !last.del || found && v != last.val) && len(out) < 6 {
			out = append(out, bulkViolation{"bulk/final-state/stale-or-lost-write", fmt.Sprintf("key %s is written by %s only and by no large operation; its last write was %s but the store finally holds %q (present=%v)", k, last.by, describeMut(last), v, found)})
		}
	}
	st.rounds++
	return out
}

func newBulkStats() *bulkStats { return &bulkStats{bySize: map[int]int{}, byKind: map[string]int{}} }

func (st *bulkStats) flush(c *vf.Ctx, race bool) {
	if race {
		c.Count("bulk_race_rounds", st.rounds)
		c.Count("bulk_race_single_writer_checks", st.singleWriterChecks)
		return
	}
	c.Count("bulk_rounds", st.rounds)
	c.Count("bulk_writer_mutations", st.muts)
	c.Count("bulk_writer_mutations_overlapping_large_op", st.overlapping)
	c.Count("bulk_get_checks", st.gets)
	c.Count("bulk_iterate_entry_checks", st.iterEntries)
	c.Count("bulk_final_key_checks", st.finalKeys)
	c.Count("bulk_single_writer_checks", st.singleWriterChecks)
	c.Count("evaluations", st.gets+st.iterEntries+st.finalKeys)
	for s, n := range st.bySize {
		c.Count("bulk_commits_of_size_"+strconv.Itoa(s), n)
	}
	for k, n := range st.byKind {
		c.Count("bulk_large_"+k, n)
	}
}

type BulkReplay struct {
	Bulk    BulkPlan `json:"bulk"`
	Details []string `json:"details,omitempty"`
}

func bulkPlanFor(c *vf.Ctx, idx int) BulkPlan { return genBulk(c.Rand("bulk/"+strconv.Itoa(idx)), idx) }

func childBulk(c *vf.Ctx, start, count int, race bool) {
	st := newBulkStats()
	reported := 0
	for idx := start; idx < start+count; idx++ {
		p := bulkPlanFor(c, idx)
		runtime.GOMAXPROCS(p.Procs)
		c.Mark("bulk " + strconv.Itoa(idx))
		var res *bulkResult
		dl := guardDeadlock(func() { res = runBulk(p, !race) })
		runtime.GOMAXPROCS(runtime.NumCPU())
		if dl != nil {
			c.Violation("deadlock", fmt.Sprintf("large-operation round %d (large ops %s): every goroutine is parked on a lock in consecutive snapshots and the round has not finished", idx, bigSummary(p)), map[string]any{"bulk": p, "goroutines": dl.frames})
			break // the parked goroutines cannot be removed; end this child
		}
		var vs []bulkViolation
		if race {
			vs = checkBulkUntimed(p, res, st)
		} else {
			vs = checkBulk(p, res, st)
		}
		for _, v := range vs {
			if reported < 12 {
				reported++
				c.Violation(v.fp, fmt.Sprintf("large-operation round %d (GOMAXPROCS %d, large ops %s): %s", idx, p.Procs, bigSummary(p), v.what), BulkReplay{Bulk: p})
			}
		}
		if idx == start && !race && c.WantSample() {
			c.Sample(map[string]any{"large_operation_round": idx, "large_ops": bigSummary(p), "writers": bulkWriters, "writes_per_writer": p.Writes, "readers": bulkReaders, "keys": bulkKeys})
		}
	}
	st.flush(c, race)
}

func bigSummary(p BulkPlan) string {
	var s []string
	for _, b := range p.Big {
		switch b.Kind {
		case "commit":
			s = append(s, fmt.Sprintf("commit(%d)", b.Size))
		default:
			s = append(s, fmt.Sprintf("%s(%q)", b.Kind, b.Prefix))
		}
	}
	sort.Strings(s)
	return strings.Join(s, ",")
}

// replayBulk re-executes a recorded round (the schedule is up to the runtime).
func replayBulk(c *vf.Ctx, p BulkPlan) {
	st := newBulkStats()
	hits := 0
	for i := 0; i < 200; i++ {
		runtime.GOMAXPROCS(procsList[i%3])
		res := runBulk(p, true)
		runtime.GOMAXPROCS(runtime.NumCPU())
		for _, v := range checkBulk(p, res, st) {
			hits++
			if hits <= 2 {
				c.Violation(v.fp, fmt.Sprintf("re-executed large-operation round (run %d): %s", i, v.what), BulkReplay{Bulk: p})
			}
		}
	}
	st.flush(c, false)
	c.Note(fmt.Sprintf("round re-executed 200 times: %d oracle violations", hits))
}
