// Fifth, porcupine-free family of C05: SHARED batch handles over wrapper stacks
// and a slow / parkable backend.
//
// In the other families a batch handle is filled and committed by the
// goroutine that created it, and the wrappers (flushkv, debug) sit directly on
// mapdb, whose Flush returns at once - windows inside a wrapper's
// "delegate, then Flush" sequences have no width there. Here
//
//   - 2-4 goroutines share 1-2 batch handles of one view: Set / Delete on a
//     handle overlap Commit calls on the same handle, commits overlap commits;
//   - the view is a wrapper stack (flushkv / debug in either order, or none)
//     over a harness-owned backend ("slow") that delegates to a mapdb view but
//     yields in every method and can PARK one call - before or after its
//     delegate, e.g. inside Flush or inside the backend batch's Commit - until
//     the other goroutines have completed a few more steps (bounded Gosched
//     spin: jitter only, no verdict depends on it);
//   - the goroutines also Set / Delete / Get / Flush directly through the
//     shared wrapper view; a reader goroutine Gets through a plain mapdb view.
//
// Oracle. Every batch key belongs to one (handle, goroutine): its mutations
// m1..mn on the handle are totally ordered by program order, so the pending
// content of the handle for that key only moves forward. A Commit C of that
// handle therefore writes some index in [lo(C), hi(C)], lo = last mutation
// that returned before C was invoked, hi = last mutation invoked before C
// returned. An observation (Get, final state) of index i is admissible iff
// some commit C invoked before the observation returned covers i and no
// commit C2 with lo(C2) > i lies entirely between C and the observation
// (i = 0, never written: no commit with lo >= 1 completed before the
// observation began). After all goroutines finished the harness commits every
// handle once more and reads the store: every key must then hold its last
// mutation. This is what the statement demands of "each individual write of a
// committed batch"; it does not depend on whether Commit empties the handle.
// Keys written directly through the view are judged with the per-key rule of
// bulk.go.
package main

import (
	"errors"
	"fmt"
	"hash/fnv"
	"math/rand"
	"runtime"
	"sort"
	"strconv"
	"strings"
	"sync"
	"sync/atomic"
	"time"

	"github.com/iotaledger/hive.go/kvstore"
	"github.com/iotaledger/hive.go/kvstore/debug"
	"github.com/iotaledger/hive.go/kvstore/flushkv"
	"github.com/iotaledger/hive.go/kvstore/mapdb"
	"verif/harness/internal/gdump"
	"verif/harness/internal/vf"
)

// ---------------------------------------------------------------- backend

const gateSpinMax = 20000

type shCtl struct {
	slow     int
	gate     string
	gateAt   int32
	gateOps  int64
	arrivals atomic.Int32
	opsDone  atomic.Int64 // steps completed by the script goroutines
	active   atomic.Int32 // script goroutines still running
	parks    atomic.Int32
	progress atomic.Int64 // steps other goroutines completed while the call was parked
}

// at is called by the backend before ("x:pre") and after ("x:post") it delegates.
func (ctl *shCtl) at(point string) {
	for i := 0; i < ctl.slow; i++ {
		runtime.Gosched()
	}
	if ctl.gate == "" || point != ctl.gate {
		return
	}
	if ctl.arrivals.Add(1)-1 != ctl.gateAt {
		return
	}
	base := ctl.opsDone.Load()
	for i := 0; i < gateSpinMax; i++ {
		if ctl.opsDone.Load() >= base+ctl.gateOps || ctl.active.Load() <= 1 {
			break
		}
		runtime.Gosched()
	}
	ctl.parks.Add(1)
	ctl.progress.Add(ctl.opsDone.Load() - base)
}

// slowStore: a KVStore whose every method may be slow and one call of which can be parked.
type slowStore struct {
	inner kvstore.KVStore
	ctl   *shCtl
}

func (s *slowStore) WithRealm(realm kvstore.Realm) (kvstore.KVStore, error) {
	v, err := s.inner.WithRealm(realm)
	if err != nil {
		return nil, err
	}
	return &slowStore{v, s.ctl}, nil
}

func (s *slowStore) WithExtendedRealm(realm kvstore.Realm) (kvstore.KVStore, error) {
	v, err := s.inner.WithExtendedRealm(realm)
	if err != nil {
		return nil, err
	}
	return &slowStore{v, s.ctl}, nil
}

func (s *slowStore) Realm() kvstore.Realm { return s.inner.Realm() }

func (s *slowStore) Iterate(prefix kvstore.KeyPrefix, f kvstore.IteratorKeyValueConsumerFunc, d ...kvstore.IterDirection) error {
	s.ctl.at("iterate:pre")
	defer s.ctl.at("iterate:post")
	return s.inner.Iterate(prefix, f, d...)
}

func (s *slowStore) IterateKeys(prefix kvstore.KeyPrefix, f kvstore.IteratorKeyConsumerFunc, d ...kvstore.IterDirection) error {
	s.ctl.at("iteratekeys:pre")
	defer s.ctl.at("iteratekeys:post")
	return s.inner.IterateKeys(prefix, f, d...)
}

func (s *slowStore) Clear() error {
	s.ctl.at("clear:pre")
	defer s.ctl.at("clear:post")
	return s.inner.Clear()
}

func (s *slowStore) Get(key kvstore.Key) (kvstore.Value, error) {
	s.ctl.at("get:pre")
	defer s.ctl.at("get:post")
	return s.inner.Get(key)
}

func (s *slowStore) Set(key kvstore.Key, value kvstore.Value) error {
	s.ctl.at("set:pre")
	defer s.ctl.at("set:post")
	return s.inner.Set(key, value)
}

func (s *slowStore) Has(key kvstore.Key) (bool, error) {
	s.ctl.at("has:pre")
	defer s.ctl.at("has:post")
	return s.inner.Has(key)
}

func (s *slowStore) Delete(key kvstore.Key) error {
	s.ctl.at("delete:pre")
	defer s.ctl.at("delete:post")
	return s.inner.Delete(key)
}

func (s *slowStore) DeletePrefix(prefix kvstore.KeyPrefix) error {
	s.ctl.at("deleteprefix:pre")
	defer s.ctl.at("deleteprefix:post")
	return s.inner.DeletePrefix(prefix)
}

func (s *slowStore) Flush() error {
	s.ctl.at("flush:pre")
	defer s.ctl.at("flush:post")
	return s.inner.Flush()
}

func (s *slowStore) Close() error { return s.inner.Close() }

func (s *slowStore) Batched() (kvstore.BatchedMutations, error) {
	s.ctl.at("batched:pre")
	defer s.ctl.at("batched:post")
	b, err := s.inner.Batched()
	if err != nil {
		return nil, err
	}
	return &slowBatch{b, s.ctl}, nil
}

type slowBatch struct {
	inner kvstore.BatchedMutations
	ctl   *shCtl
}

func (b *slowBatch) Set(key kvstore.Key, value kvstore.Value) error {
	b.ctl.at("bset:pre")
	defer b.ctl.at("bset:post")
	return b.inner.Set(key, value)
}

func (b *slowBatch) Delete(key kvstore.Key) error {
	b.ctl.at("bdelete:pre")
	defer b.ctl.at("bdelete:post")
	return b.inner.Delete(key)
}

func (b *slowBatch) Cancel() { b.inner.Cancel() }

func (b *slowBatch) Commit() error {
	b.ctl.at("bcommit:pre")
	defer b.ctl.at("bcommit:post")
	return b.inner.Commit()
}

var _ kvstore.KVStore = &slowStore{}
var _ kvstore.BatchedMutations = &slowBatch{}

// ---------------------------------------------------------------- plan

type ShStep struct {
	Kind  string `json:"kind"` // bset bdel commit | dset ddel get flush
	H     int    `json:"h,omitempty"`
	K     string `json:"k,omitempty"`
	V     string `json:"v,omitempty"`
	Yield int    `json:"yield,omitempty"`
}

type SharedPlan struct {
	Idx     int        `json:"shared_idx"`
	Procs   int        `json:"procs"`
	Stack   []string   `json:"stack"` // inner to outer: slow / flush / debug
	Handles int        `json:"handles"`
	Gate    string     `json:"gate,omitempty"`
	GateAt  int        `json:"gate_at,omitempty"`
	GateOps int        `json:"gate_ops,omitempty"`
	Slow    int        `json:"slow,omitempty"`
	G       [][]ShStep `json:"g"`
	Reads   int        `json:"reads"`
	RSeed   int64      `json:"rseed"`
}

var shStacks = [][]string{
	{}, {},
	{"slow"}, {"slow"},
	{"slow", "flush"}, {"slow", "flush"}, {"slow", "flush"}, {"slow", "flush"}, {"slow", "flush"}, {"slow", "flush"},
	{"slow", "debug"}, {"slow", "debug"},
	{"slow", "flush", "debug"}, {"slow", "flush", "debug"},
	{"slow", "debug", "flush"}, {"slow", "debug", "flush"},
	{"flush"}, {"flush"},
	{"debug"},
}

var shGatesMain = []string{"flush:pre", "flush:post", "bcommit:pre", "bcommit:post"}
var shGatesOther = []string{"bset:pre", "bset:post", "bdelete:pre", "bdelete:post", "set:pre", "set:post", "delete:pre", "delete:post", "get:pre", "get:post"}

func genShared(rng *rand.Rand, idx int) SharedPlan {
	p := SharedPlan{Idx: idx, Procs: procsList[(idx/64)%len(procsList)], RSeed: rng.Int63()}
	p.Stack = shStacks[rng.Intn(len(shStacks))]
	p.Handles = 1
	if rng.Intn(4) == 0 {
		p.Handles = 2
	}
	if len(p.Stack) > 0 && p.Stack[0] == "slow" {
		p.Slow = rng.Intn(3)
		switch x := rng.Intn(8); {
		case x < 5:
			p.Gate = shGatesMain[rng.Intn(len(shGatesMain))]
		case x < 7:
			p.Gate = shGatesOther[rng.Intn(len(shGatesOther))]
		}
		if p.Gate != "" {
			p.GateAt, p.GateOps = rng.Intn(2), 1+rng.Intn(3)
		}
	}
	g := 2 + rng.Intn(2)
	if rng.Intn(6) == 0 {
		g = 4
	}
	for gi := 0; gi < g; gi++ {
		var steps []ShStep
		for i, n := 0, 3+rng.Intn(6); i < n; i++ {
			s := ShStep{H: rng.Intn(p.Handles), Yield: rng.Intn(3)}
			ab := string(rune('a' + rng.Intn(2)))
			bk := fmt.Sprintf("h%dg%d%s", s.H, gi, ab)
			dk := fmt.Sprintf("d%d%s", gi, ab)
			val := fmt.Sprintf("%d.%d", gi, i)
			switch x := rng.Intn(100); {
			case x < 35:
				s.Kind, s.K, s.V = "bset", bk, val
			case x < 45:
				s.Kind, s.K = "bdel", bk
			case x < 70:
				s.Kind = "commit"
			case x < 78:
				s.Kind, s.K, s.V = "dset", dk, val
			case x < 82:
				s.Kind, s.K = "ddel", dk
			case x < 92:
				// any key of the round, through the shared wrapper view
				og := rng.Intn(g)
				if rng.Intn(3) == 0 {
					s.K = fmt.Sprintf("d%d%s", og, ab)
				} else {
					s.K = fmt.Sprintf("h%dg%d%s", rng.Intn(p.Handles), og, ab)
				}
				s.Kind = "get"
			default:
				s.Kind = "flush"
			}
			steps = append(steps, s)
		}
		p.G = append(p.G, steps)
	}
	p.Reads = 4 + rng.Intn(12)
	return p
}

// ---------------------------------------------------------------- execution

type shOp struct {
	idx       int // 1.. in program order of the key's owner
	call, ret int64
	del       bool
	val       string
	by        string
}

type shCommit struct {
	call, ret int64
	by        string
}

type shObs struct {
	key       string
	call, ret int64
	found     bool
	val       string
	by        string
}

type sharedResult struct {
	bops     map[string][]shOp // batch keys
	commits  [][]shCommit      // per handle
	dmuts    map[string][]bmut // keys written directly through the view
	obs      []shObs
	final    map[string]string
	fcommits []shCommit // the harness's closing commit of every handle
	panics   []string
	errs     []string
	parks    int
	progress int
	events   []shEvent
}

type shEvent struct {
	t    int64
	what string
}

func shKeyHandle(k string) int { return int(k[1] - '0') }

func buildStack(p SharedPlan, db kvstore.KVStore, ctl *shCtl) kvstore.KVStore {
	var v kvstore.KVStore = mustRealm(db, baseRealm)
	for _, w := range p.Stack {
		switch w {
		case "slow":
			v = &slowStore{v, ctl}
		case "flush":
			v = flushkv.New(v)
		case "debug":
			v = debug.New(v, func(debug.Command, ...[]byte) { runtime.Gosched() })
		}
	}
	return v
}

// runShared executes one round. gate == false: the backend only yields (race build,
// every other round: no harness-made happens-before edges between the goroutines).
func runShared(p SharedPlan, record, gate bool) *sharedResult {
	db := mapdb.NewMapDB()
	ctl := &shCtl{slow: p.Slow}
	if gate && p.Gate != "" {
		ctl.gate, ctl.gateAt, ctl.gateOps = p.Gate, int32(p.GateAt), int64(p.GateOps)
	}
	view := buildStack(p, db, ctl)
	res := &sharedResult{bops: map[string][]shOp{}, dmuts: map[string][]bmut{}, final: map[string]string{}, commits: make([][]shCommit, p.Handles)}
	handles := make([]kvstore.BatchedMutations, p.Handles)
	for i := range handles {
		b, err := view.Batched()
		if err != nil {
			panic(err)
		}
		handles[i] = b
	}
	ctl.arrivals.Store(0)
	var tick atomic.Int64
	now := func() int64 {
		if !record {
			return 0
		}
		return tick.Add(1)
	}
	g := len(p.G)
	var ready atomic.Int32
	total := int32(g + 1)
	barrier := func() {
		ready.Add(1)
		for ready.Load() < total {
			runtime.Gosched()
		}
	}
	ctl.active.Store(int32(g))
	var mu sync.Mutex
	var wg sync.WaitGroup
	guard := func(who string) {
		if r := recover(); r != nil {
			mu.Lock()
			res.panics = append(res.panics, fmt.Sprintf("%s: %v", who, r))
			mu.Unlock()
		}
	}
	fail := func(s string) {
		mu.Lock()
		if len(res.errs) < 8 {
			res.errs = append(res.errs, s)
		}
		mu.Unlock()
	}
	// every goroutine owns ONE key and ONE value buffer for all its arguments (owned.go); the values
	// given to a SHARED batch handle stay untouched until the closing commit has returned (another
	// goroutine commits the handle, and the unchanged tree keeps the caller's slice in the batch)
	cls := make([]*caller, g+1)
	for gi := 0; gi < g; gi++ {
		wg.Add(1)
		go func(gi int) {
			defer wg.Done()
			who := fmt.Sprintf("goroutine %d", gi)
			defer ctl.active.Add(-1)
			defer guard(who)
			cl := newCaller(who)
			cls[gi] = cl
			bops := map[string][]shOp{}
			dmuts := map[string][]bmut{}
			commits := make([][]shCommit, p.Handles)
			var obs []shObs
			var evs []shEvent
			barrier()
			for _, s := range p.G[gi] {
				for y := 0; y < s.Yield; y++ {
					runtime.Gosched()
				}
				var c, r int64
				var err error
				switch s.Kind {
				case "bset":
					c = now()
					err = cl.BSetShared(handles[s.H], s.K, s.V)
					r = now()
					bops[s.K] = append(bops[s.K], shOp{len(bops[s.K]) + 1, c, r, false, s.V, who})
				case "bdel":
					c = now()
					err = cl.BDelete(handles[s.H], s.K)
					r = now()
					bops[s.K] = append(bops[s.K], shOp{len(bops[s.K]) + 1, c, r, true, "", who})
				case "commit":
					c = now()
					err = handles[s.H].Commit()
					r = now()
					if err == nil {
						commits[s.H] = append(commits[s.H], shCommit{c, r, who})
					}
				case "dset":
					c = now()
					err = cl.Set(view, s.K, s.V)
					r = now()
					dmuts[s.K] = append(dmuts[s.K], bmut{c, r, s.V, false, who})
				case "ddel":
					c = now()
					err = cl.Delete(view, s.K)
					r = now()
					dmuts[s.K] = append(dmuts[s.K], bmut{c, r, "", true, who})
				case "get":
					c = now()
					var val string
					val, err = cl.Get(view, s.K)
					r = now()
					if err == nil || errors.Is(err, kvstore.ErrKeyNotFound) {
						obs = append(obs, shObs{s.K, c, r, err == nil, val, who})
						err = nil
					}
				case "flush":
					c = now()
					err = view.Flush()
					r = now()
				}
				if err != nil {
					fail(fmt.Sprintf("%s %s: %v", who, s.Kind, err))
				}
				if record {
					evs = append(evs, shEvent{c, s.Kind + "("}, shEvent{r, s.Kind + ")"})
				}
				ctl.opsDone.Add(1)
			}
			mu.Lock()
			for k, l := range bops {
				res.bops[k] = l
			}
			for k, l := range dmuts {
				res.dmuts[k] = l
			}
			for h := range commits {
				res.commits[h] = append(res.commits[h], commits[h]...)
			}
			res.obs = append(res.obs, obs...)
			res.events = append(res.events, evs...)
			mu.Unlock()
		}(gi)
	}
	// the reader works through a plain view of the store (no wrapper, no backend hooks)
	wg.Add(1)
	go func() {
		defer wg.Done()
		defer guard("reader")
		cl := newCaller("the reader")
		cls[g] = cl
		rng := rand.New(rand.NewSource(p.RSeed))
		rv := mustRealm(db, baseRealm)
		var keys []string
		for gi := 0; gi < g; gi++ {
			for _, ab := range []string{"a", "b"} {
				keys = append(keys, fmt.Sprintf("d%d%s", gi, ab))
				for h := 0; h < p.Handles; h++ {
					keys = append(keys, fmt.Sprintf("h%dg%d%s", h, gi, ab))
				}
			}
		}
		var obs []shObs
		barrier()
		for j := 0; j < p.Reads; j++ {
			k := keys[rng.Intn(len(keys))]
			c := now()
			val, err := cl.Get(rv, k)
			r := now()
			if err != nil && !errors.Is(err, kvstore.ErrKeyNotFound) {
				fail("reader Get: " + err.Error())
				continue
			}
			obs = append(obs, shObs{k, c, r, err == nil, val, "the reader"})
			for y := rng.Intn(3); y > 0; y-- {
				runtime.Gosched()
			}
		}
		mu.Lock()
		res.obs = append(res.obs, obs...)
		mu.Unlock()
	}()
	waitRound(&wg, record)
	res.parks, res.progress = int(ctl.parks.Load()), int(ctl.progress.Load())
	// closing commit of every handle, alone
	ctl.gate = ""
	for h, b := range handles {
		c := now()
		err := b.Commit()
		r := now()
		if err != nil {
			res.errs = append(res.errs, fmt.Sprintf("closing Commit of handle %d: %v", h, err))
		}
		res.fcommits = append(res.fcommits, shCommit{c, r, "the harness (closing commit)"})
	}
	// every handle has been committed after its last mutation: the callers overwrite the values they gave to the handles
	for _, cl := range cls {
		if cl != nil {
			cl.persistDone()
		}
	}
	own.absorb(map[string]any{"sharedplan": p}, cls...)
	_ = db.Iterate(kvstore.EmptyPrefix, func(k, v []byte) bool {
		res.final[strings.TrimPrefix(string(k), baseRealm)] = string(v)
		return true
	})
	return res
}

// waitRound waits for the goroutines of a round. In the race build (record == false) the
// runtime's dead-lock detector is off, so the caller watches structurally, like execute():
// every goroutine parked on a sync primitive in three consecutive stop-the-world snapshots
// while the round has not finished = dead-lock (panics with deadlocked; spinning and sleeping
// only pace the snapshots).
func waitRound(wg *sync.WaitGroup, record bool) {
	if record {
		wg.Wait()
		return
	}
	var done atomic.Bool
	go func() { wg.Wait(); done.Store(true) }()
	quiet := 0
	for spins := 0; !done.Load(); spins++ {
		if spins < 200000 {
			runtime.Gosched()
			continue
		}
		time.Sleep(500 * time.Microsecond)
		gs := gdump.Snapshot()
		if done.Load() {
			return
		}
		if gdump.Quiescent(gs) {
			quiet++
		} else {
			quiet = 0
		}
		if quiet >= 3 {
			var frames []string
			for _, x := range gs {
				if x.Has("hive.go/kvstore") && len(frames) < 8 {
					frames = append(frames, x.State+": "+strings.Join(x.Frames, " < "))
				}
			}
			panic(deadlocked{frames})
		}
	}
}

// guardDeadlock runs one round of a race child; a structural dead-lock becomes a result.
func guardDeadlock(f func()) (dl *deadlocked) {
	defer func() {
		if r := recover(); r != nil {
			d, ok := r.(deadlocked)
			if !ok {
				panic(r)
			}
			dl = &d
		}
	}()
	f()
	return nil
}

// ---------------------------------------------------------------- oracle

func shBounds(ops []shOp, c shCommit) (lo, hi int) {
	for _, o := range ops {
		if o.ret < c.call {
			lo = o.idx
		}
		if o.call < c.ret {
			hi = o.idx
		}
	}
	return
}

// shIndexOK: may an observation with window [oc,or] see the key in the state after its idx-th mutation?
func shIndexOK(ops []shOp, commits []shCommit, idx int, oc, or int64) (bool, string) {
	if idx == 0 {
		for _, c := range commits {
			if lo, _ := shBounds(ops, c); lo >= 1 && c.ret < oc {
				return false, fmt.Sprintf("Commit [%d,%d] by %s was invoked after mutation #%d of the key had returned and returned before the observation began", c.call, c.ret, c.by, lo)
			}
		}
		return true, ""
	}
	why := fmt.Sprintf("no Commit of the handle that was invoked before the observation returned can contain mutation #%d", idx)
	for _, c := range commits {
		if c.call >= or {
			continue
		}
		lo, hi := shBounds(ops, c)
		if idx < lo || idx > hi {
			continue
		}
		sup := false
		for _, c2 := range commits {
			if c2.call > c.ret && c2.ret < oc {
				if lo2, _ := shBounds(ops, c2); lo2 > idx {
					sup = true
					why = fmt.Sprintf("Commit [%d,%d] by %s was invoked after the later mutation #%d of the key had returned and returned before the observation began", c2.call, c2.ret, c2.by, lo2)
					break
				}
			}
		}
		if !sup {
			return true, ""
		}
	}
	return false, why
}

func describeOps(ops []shOp) string {
	var s []string
	for _, o := range ops {
		if o.del {
			s = append(s, fmt.Sprintf("#%d Delete [%d,%d]", o.idx, o.call, o.ret))
		} else {
			s = append(s, fmt.Sprintf("#%d Set %q [%d,%d]", o.idx, o.val, o.call, o.ret))
		}
	}
	return strings.Join(s, ", ")
}

func describeCommits(cs []shCommit) string {
	var s []string
	for _, c := range cs {
		s = append(s, fmt.Sprintf("[%d,%d] by %s", c.call, c.ret, c.by))
	}
	return strings.Join(s, ", ")
}

func judgeBatchKey(ops []shOp, commits []shCommit, k string, found bool, val string, oc, or int64, kind, by string) *bulkViolation {
	window := fmt.Sprintf("[%d,%d]", oc, or)
	if oc == tickInf {
		window = "after all goroutines finished and the handle was committed once more"
	}
	ctx := fmt.Sprintf("mutations of %s on the shared handle: %s; commits of the handle: %s", k, describeOps(ops), describeCommits(commits))
	if found {
		for _, o := range ops {
			if !o.del && o.val == val {
				ok, why := shIndexOK(ops, commits, o.idx, oc, or)
				if ok {
					return nil
				}
				fp := "shared/" + kind + "/stale-or-lost-batch-write"
				if strings.HasPrefix(why, "no Commit") {
					fp = "shared/" + kind + "/uncommitted-batch-write-visible"
				}
				return &bulkViolation{fp, fmt.Sprintf("%s of %s %s by %s returned %q (mutation #%d): %s. %s", kind, k, window, by, val, o.idx, why, ctx)}
			}
		}
		return &bulkViolation{"shared/" + kind + "/value-never-written", fmt.Sprintf("%s of %s %s by %s returned %q which nobody wrote to that key. %s", kind, k, window, by, val, ctx)}
	}
	ok, why := shIndexOK(ops, commits, 0, oc, or)
	if ok {
		return nil
	}
	for _, o := range ops {
		if o.del {
			if ok, _ := shIndexOK(ops, commits, o.idx, oc, or); ok {
				return nil
			}
		}
	}
	return &bulkViolation{"shared/" + kind + "/stale-or-lost-batch-write", fmt.Sprintf("%s of %s %s by %s found no entry: %s. %s", kind, k, window, by, why, ctx)}
}

type sharedStats struct {
	rounds, bops, bopsInCommit, commits, commitsInCommit, obs, finals, parks, parksWithProgress, gated int
	byStack, byGate                                                                                    map[string]int
	shapes                                                                                             map[uint64]bool
}

func newSharedStats() *sharedStats {
	return &sharedStats{byStack: map[string]int{}, byGate: map[string]int{}, shapes: map[uint64]bool{}}
}

func stackName(p SharedPlan) string {
	if len(p.Stack) == 0 {
		return "mapdb"
	}
	return strings.Join(p.Stack, "_")
}

func checkShared(p SharedPlan, res *sharedResult, st *sharedStats, timed bool) []bulkViolation {
	var out []bulkViolation
	add := func(v *bulkViolation) {
		if v != nil && len(out) < 6 {
			out = append(out, *v)
		}
	}
	for _, s := range res.panics {
		out = append(out, bulkViolation{"shared/panic", "panic in " + s})
	}
	for _, s := range res.errs {
		out = append(out, bulkViolation{"shared/unexpected-error", "operation failed on an open store: " + s})
	}
	st.rounds++
	st.byStack[stackName(p)]++
	if res.parks > 0 {
		st.parks += res.parks
		st.byGate[p.Gate]++
		if res.progress > 0 {
			st.parksWithProgress++
		}
	}
	known := map[string]bool{}
	for k := range res.bops {
		known[k] = true
	}
	for k := range res.dmuts {
		known[k] = true
	}
	for k, v := range res.final {
		if !known[k] {
			add(&bulkViolation{"shared/final-state/unknown-key", fmt.Sprintf("after the round the store holds key %q = %q which nobody wrote", k, v)})
		}
	}
	if !timed {
		// race build: no ticks; the closing state needs none
		for k, ops := range res.bops {
			st.finals++
			last := ops[len(ops)-1]
			v, found := res.final[k]
			if found != !last.del || found && v != last.val {
				add(&bulkViolation{"shared/final-state/stale-or-lost-batch-write", fmt.Sprintf("key %s: after all goroutines finished and the handle was committed once more the store holds %q (present=%v), but the last mutation on the handle was #%d (del=%v %q)", k, v, found, last.idx, last.del, last.val)})
			}
		}
		for k, l := range res.dmuts {
			st.finals++
			last := l[len(l)-1]
			v, found := res.final[k]
			if found != !last.del || found && v != last.val {
				add(&bulkViolation{"shared/final-state/stale-or-lost-write", fmt.Sprintf("key %s is written by %s only; its last write was %s but the store finally holds %q (present=%v)", k, last.by, describeMut(last), v, found)})
			}
		}
		return out
	}
	direct := func(v *bulkViolation) *bulkViolation {
		if v != nil {
			v.fp = strings.Replace(v.fp, "bulk/", "shared/direct-", 1)
		}
		return v
	}
	// a directly written key starts absent
	dms := func(k string) []bmut {
		return append([]bmut{{0, 0, "", true, "the initial state (key absent)"}}, res.dmuts[k]...)
	}
	for _, o := range res.obs {
		st.obs++
		if o.key[0] == 'd' {
			add(direct(judge(dms(o.key), o.key, o.found, o.val, o.call, o.ret, "get", o.by)))
			continue
		}
		h := shKeyHandle(o.key)
		add(judgeBatchKey(res.bops[o.key], res.commits[h], o.key, o.found, o.val, o.call, o.ret, "get", o.by))
	}
	for k, ops := range res.bops {
		st.finals++
		h := shKeyHandle(k)
		cs := append(append([]shCommit{}, res.commits[h]...), res.fcommits[h])
		v, found := res.final[k]
		add(judgeBatchKey(ops, cs, k, found, v, tickInf, tickInf, "final-state", "the harness"))
		for _, o := range ops {
			st.bops++
			for _, c := range res.commits[h] {
				if o.call < c.ret && c.call < o.ret && o.by != c.by {
					st.bopsInCommit++
					break
				}
			}
		}
	}
	for k, l := range res.dmuts {
		st.finals++
		v, found := res.final[k]
		_ = l
		add(direct(judge(dms(k), k, found, v, tickInf, tickInf, "final-state", "the harness")))
	}
	for _, cs := range res.commits {
		for i, c := range cs {
			st.commits++
			for j, c2 := range cs {
				if i != j && c.call < c2.ret && c2.call < c.ret {
					st.commitsInCommit++
					break
				}
			}
		}
	}
	// the observed schedule: tick-ordered list of step boundaries
	sort.Slice(res.events, func(i, j int) bool { return res.events[i].t < res.events[j].t })
	hsh := fnv.New64a()
	hsh.Write([]byte(stackName(p)))
	for _, e := range res.events {
		hsh.Write([]byte(e.what))
	}
	st.shapes[hsh.Sum64()] = true
	return out
}

func (st *sharedStats) flush(c *vf.Ctx, race bool) {
	if race {
		c.Count("shared_race_rounds", st.rounds)
		c.Count("shared_race_final_checks", st.finals)
		c.Count("shared_race_rounds_with_a_parked_backend_call", st.parks)
		return
	}
	c.Count("shared_rounds", st.rounds)
	for k, n := range st.byStack {
		c.Count("shared_rounds_stack_"+k, n)
	}
	for k, n := range st.byGate {
		c.Count("shared_parks_at_"+strings.Replace(k, ":", "_", 1), n)
	}
	c.Count("shared_backend_calls_parked", st.parks)
	c.Count("shared_backend_calls_parked_while_others_progressed", st.parksWithProgress)
	c.Count("shared_batch_mutations", st.bops)
	c.Count("shared_batch_mutations_overlapping_a_commit_of_their_handle", st.bopsInCommit)
	c.Count("shared_commits", st.commits)
	c.Count("shared_commits_overlapping_a_commit_of_their_handle", st.commitsInCommit)
	c.Count("shared_get_checks", st.obs)
	c.Count("shared_final_key_checks", st.finals)
	c.Count("evaluations", st.obs+st.finals)
	for h := range st.shapes {
		c.DistinctHash("shared_schedules", h)
	}
}

type SharedReplay struct {
	Shared SharedPlan `json:"sharedplan"`
}

func sharedPlanFor(c *vf.Ctx, idx int) SharedPlan {
	return genShared(c.Rand("shared/"+strconv.Itoa(idx)), idx)
}

func sharedSummary(p SharedPlan) string {
	s := fmt.Sprintf("%d goroutines sharing %d batch handle(s) of a %s view", len(p.G), p.Handles, stackName(p))
	if p.Gate != "" {
		s += ", backend call parked at " + p.Gate
	}
	return s
}

func childShared(c *vf.Ctx, start, count int, race bool) {
	st := newSharedStats()
	reported := 0
	procs := 0
	for idx := start; idx < start+count; idx++ {
		p := sharedPlanFor(c, idx)
		if p.Procs != procs {
			procs = p.Procs
			runtime.GOMAXPROCS(procs)
		}
		if (idx-start)%64 == 0 {
			c.Mark("shared " + strconv.Itoa(idx))
		}
		var res *sharedResult
		if dl := guardDeadlock(func() { res = runShared(p, !race, !race || idx%2 == 0) }); dl != nil {
			c.Violation("deadlock", fmt.Sprintf("shared-handle round %d (%s): every goroutine is parked on a lock in consecutive snapshots and the round has not finished", idx, sharedSummary(p)), map[string]any{"sharedplan": p, "goroutines": dl.frames})
			break // the parked goroutines cannot be removed; end this child
		}
		for _, v := range checkShared(p, res, st, !race) {
			if reported < 12 {
				reported++
				c.Violation(v.fp, fmt.Sprintf("shared-handle round %d (GOMAXPROCS %d, %s): %s", idx, p.Procs, sharedSummary(p), v.what), SharedReplay{Shared: p})
			}
		}
		if idx == start && !race && c.WantSample() {
			c.Sample(map[string]any{"shared_handle_round": idx, "plan": p})
		}
	}
	runtime.GOMAXPROCS(runtime.NumCPU())
	st.flush(c, race)
}

func replayShared(c *vf.Ctx, p SharedPlan) {
	st := newSharedStats()
	hits := 0
	for i := 0; i < 2000; i++ {
		runtime.GOMAXPROCS(procsList[i%3])
		res := runShared(p, true, true)
		for _, v := range checkShared(p, res, st, true) {
			hits++
			if hits <= 2 {
				c.Violation(v.fp, fmt.Sprintf("re-executed shared-handle round (run %d): %s", i, v.what), SharedReplay{Shared: p})
			}
		}
	}
	runtime.GOMAXPROCS(runtime.NumCPU())
	st.flush(c, false)
	c.Note(fmt.Sprintf("round re-executed 2000 times: %d oracle violations", hits))
}
