// Fourth, porcupine-free family of C05: small-store rounds.
//
// The other families keep the store well filled (filler entries, thousands of
// keys), so everything that depends on the store being EMPTY or nearly empty
// (emptiness / size shortcuts, cached bounds, "nothing stored" fast paths that
// are maintained next to the map instead of inside its critical section) never
// decides anything there. Here a round starts on an empty (or 1-2 entry) store:
//
//   - one goroutine builds and commits batches of 8 ... 16384 writes one after
//     the other through its own view (long Commit windows) until the parties
//     have finished (at most 16), and after three of four commits wipes the
//     batch keys again (DeletePrefix, or Clear through a nested view), so that
//     most commits ADD entries to a (nearly) empty store,
//   - "batchkeys" parties keep 0..Max (<= 3) keys those batches write deleted
//     (Delete a batch key - preferably one their last iteration reported -,
//     later Set it again or leave it), through other view objects,
//   - "own" parties keep 0..Max (<= 3) keys alive that nobody else writes
//     (Set a key / Delete it), through yet other view objects,
//   - every party starts a step preferably while a Commit is in flight
//     (bounded Gosched spin on a flag of the batcher: pacing only),
//
// and every party OBSERVES right after each of its own completed mutations
// (Get / Has / Iterate / IterateKeys with narrow, medium and whole-realm
// prefixes, both directions). Every observation is judged per key with the
// rule of the large-operation family (bulk.go): the reported value / presence /
// absence must come from a mutation invoked before the observation returned
// and not superseded by another mutation of that key that completed before the
// observation began. In particular an Iterate must report every key whose Set
// completed before the Iterate began and that nothing deleted since - an
// empty result on a non-empty store is judged like any other.
package main

import (
	"errors"
	"fmt"
	"math/rand"
	"runtime"
	"sort"
	"strconv"
	"strings"
	"sync"
	"sync/atomic"

	"github.com/iotaledger/hive.go/kvstore"
	"github.com/iotaledger/hive.go/kvstore/mapdb"
	"verif/harness/internal/vf"
)

var tinySizes = []int{8, 64, 512, 4096, 16384}

type TinyParty struct {
	Role   string `json:"role"` // "own" | "batchkeys"
	Wrap   string `json:"wrap,omitempty"`
	Nested bool   `json:"nested,omitempty"` // through a view whose realm already contains the first key byte
	Ops    int    `json:"ops"`
	Grow   bool   `json:"grow,omitempty"` // own: a key name is never used twice
	Max    int    `json:"max"`            // own: at most this many of its keys alive; batchkeys: at most this many batch keys deleted
}

type TinyPlan struct {
	Idx     int         `json:"tiny_idx"`
	Procs   int         `json:"procs"`
	Pre     int         `json:"pre"`   // entries present before the round, never touched
	Sizes   []int       `json:"sizes"` // one pre-built batch each, committed back to back
	BWrap   string      `json:"bwrap,omitempty"`
	Parties []TinyParty `json:"parties"`
	Seed    int64       `json:"seed"`
	// the batcher wipes the batch keys with Clear through a nested view instead of DeletePrefix
	WipeClear bool `json:"wipe_clear,omitempty"`
}

func tinyWrap(rng *rand.Rand) string {
	switch x := rng.Intn(10); {
	case x < 6:
		return ""
	case x < 9:
		return "flush"
	}
	return "debug"
}

func genTiny(rng *rand.Rand, idx int) TinyPlan {
	p := TinyPlan{Idx: idx, Procs: procsList[idx%len(procsList)], Seed: rng.Int63(), BWrap: tinyWrap(rng)}
	p.Pre = []int{0, 0, 0, 1, 2}[rng.Intn(5)]
	p.WipeClear = rng.Intn(2) == 0
	big := tinySizes[2+idx%3]
	for i, n := 0, 2+rng.Intn(3); i < n; i++ {
		if i == 0 {
			p.Sizes = append(p.Sizes, big)
		} else {
			p.Sizes = append(p.Sizes, tinySizes[rng.Intn(len(tinySizes))])
		}
	}
	rng.Shuffle(len(p.Sizes), func(i, j int) { p.Sizes[i], p.Sizes[j] = p.Sizes[j], p.Sizes[i] })
	nOwn, nBK := 1+rng.Intn(2), 1+rng.Intn(2)
	for i := 0; i < nOwn; i++ {
		p.Parties = append(p.Parties, TinyParty{Role: "own", Wrap: tinyWrap(rng), Nested: rng.Intn(3) == 0, Ops: 200 + rng.Intn(200), Grow: rng.Intn(3) == 0, Max: 1 + rng.Intn(3)})
	}
	for i := 0; i < nBK; i++ {
		p.Parties = append(p.Parties, TinyParty{Role: "batchkeys", Wrap: tinyWrap(rng), Nested: rng.Intn(3) == 0, Ops: 200 + rng.Intn(200), Max: 1 + rng.Intn(3)})
	}
	return p
}

func tinyBatchKey(j int) string { return fmt.Sprintf("b%05d", j) }

type tinyObs struct {
	kind      string // get has iterate iteratekeys
	key       string // get/has: full key (relative to the base realm); iterations: full prefix
	call, ret int64
	found     bool
	val       string
	items     map[string]string
	by        string
	afterSet  bool   // issued right after the observer's own completed Set
	anchor    string // the key the observer has just written
}

// tinyCommit: the cycle-th batch of the round. It writes the keys b00000 .. b<size-1>:
// Set "c<cycle>.<j>", from the second cycle on every fifth key is a Delete instead.
type tinyCommit struct {
	call, ret int64
	cycle     int
	size      int
	err       string
}

func (c tinyCommit) write(j int) (val string, del bool) {
	if c.cycle > 0 && j%5 == 2 {
		return "", true
	}
	return fmt.Sprintf("c%d.%d", c.cycle, j), false
}

// tinyWipe: a DeletePrefix("b") / Clear of a view with realm ...b by the batcher between two commits.
type tinyWipe struct {
	call, ret int64
	kind      string
}

// at most this many batches per round (the batcher stops earlier once every party has finished)
const tinyMaxCycles = 16

// keys judged per iteration
const tinyJudgeWindow = 48

type tinyResult struct {
	muts    map[string][]bmut
	obs     []tinyObs
	commits []tinyCommit
	wipes   []tinyWipe
	final   map[string]string
	panics  []string
	errs    []string
	inline  []bulkViolation // program-order oracle of the "own" parties (needs no ticks)
}

// pace == false (every other round of the race build): no harness-made happens-before edges
// between the batcher and the parties.
func runTiny(p TinyPlan, record, pace bool) *tinyResult {
	db := mapdb.NewMapDB()
	mk := func(realm, wrap string) kvstore.KVStore {
		return wrapView(mustRealm(db, baseRealm+realm), wrap)
	}
	res := &tinyResult{muts: map[string][]bmut{}, final: map[string]string{}}
	init := mk("", "")
	for i := 0; i < p.Pre; i++ {
		k := "p" + strconv.Itoa(i)
		if err := init.Set([]byte(k), []byte("i"+k)); err != nil {
			panic(err)
		}
		res.muts[k] = append(res.muts[k], bmut{0, 0, "i" + k, false, "init"})
	}
	var tick atomic.Int64
	now := func() int64 {
		if !record {
			return 0
		}
		return tick.Add(1)
	}
	var ready atomic.Int32
	total := int32(1 + len(p.Parties))
	barrier := func() {
		ready.Add(1)
		for ready.Load() < total {
			runtime.Gosched()
		}
	}
	var mu sync.Mutex
	var wg sync.WaitGroup
	guard := func(who string) {
		if r := recover(); r != nil {
			mu.Lock()
			res.panics = append(res.panics, fmt.Sprintf("%s: %v", who, r))
			mu.Unlock()
		}
	}
	fail := func(s string) {
		mu.Lock()
		if len(res.errs) < 8 {
			res.errs = append(res.errs, s)
		}
		mu.Unlock()
	}
	maxSize := 0
	for _, s := range p.Sizes {
		if s > maxSize {
			maxSize = s
		}
	}

	// the batcher: builds and commits one batch after the other (sizes cycling through the plan's
	// list) until every party has finished, so that the parties work next to a running Commit for
	// about half of the time; after three of four commits it wipes the batch keys again (DeletePrefix
	// through its view or Clear through a nested view), so that most cycles ADD entries to a
	// nearly empty store.
	bview := mk("", p.BWrap)
	bnested := mk("b", p.BWrap)
	var partiesLeft atomic.Int32
	// the parties start a toggle cycle preferably while a Commit is in flight (bounded spin: pacing only)
	var inCommit, batcherDone atomic.Bool
	partiesLeft.Store(int32(len(p.Parties)))
	var commits []tinyCommit
	var wipes []tinyWipe
	// every goroutine owns ONE key and ONE value buffer for all its arguments (owned.go)
	cls := make([]*caller, 1+len(p.Parties))
	wg.Add(1)
	go func() {
		defer wg.Done()
		defer guard("batcher")
		defer batcherDone.Store(true)
		cl := newCaller("batcher")
		cls[0] = cl
		barrier()
		for cycle := 0; cycle < tinyMaxCycles && (cycle < len(p.Sizes) || partiesLeft.Load() > 0); cycle++ {
			tc := tinyCommit{cycle: cycle, size: p.Sizes[cycle%len(p.Sizes)]}
			b, err := bview.Batched()
			if err != nil {
				fail("Batched: " + err.Error())
				return
			}
			for j := 0; j < tc.size; j++ {
				if v, del := tc.write(j); del {
					_ = cl.BDelete(b, tinyBatchKey(j))
				} else {
					_ = cl.BSet(b, tinyBatchKey(j), v)
				}
			}
			inCommit.Store(true)
			tc.call = now()
			err = b.Commit()
			tc.ret = now()
			inCommit.Store(false)
			cl.batchDone() // the values of the batch are overwritten now that Commit has returned
			if err != nil {
				tc.err = err.Error()
				fail("Commit: " + err.Error())
			}
			commits = append(commits, tc)
			if cycle%4 != 3 {
				w := tinyWipe{kind: "deleteprefix"}
				if p.WipeClear {
					w.kind = "clear"
				}
				w.call = now()
				if p.WipeClear {
					err = bnested.Clear()
				} else {
					err = cl.DeletePrefix(bview, "b")
				}
				w.ret = now()
				if err != nil {
					fail(w.kind + ": " + err.Error())
				} else {
					wipes = append(wipes, w)
				}
			}
		}
	}()

	for pi, pt := range p.Parties {
		wg.Add(1)
		go func(pi int, pt TinyParty) {
			defer wg.Done()
			defer partiesLeft.Add(-1)
			who := fmt.Sprintf("party %d (%s)", pi, pt.Role)
			defer guard(who)
			cl := newCaller(who)
			cls[1+pi] = cl
			rng := rand.New(rand.NewSource(p.Seed + int64(pi)*7919))
			first, fam := "x", 3 // "x<party>." / "b000": the party's key family, at most 100 batch keys
			if pt.Role == "batchkeys" {
				first, fam = "b", 4
			}
			realm := ""
			if pt.Nested {
				realm = first
			}
			v := mk(realm, pt.Wrap)
			local := map[string][]bmut{}
			var obs []tinyObs
			var inline []bulkViolation
			expect := map[string]*string{} // own keys: what this goroutine last wrote (nil = deleted)
			var seen []string              // batchkeys: (some of the) keys delivered by its latest iteration
			observe := func(k string, afterSet bool) {
				o := tinyObs{key: k, anchor: k, by: who, afterSet: afterSet}
				arg := func(full string) string { return strings.TrimPrefix(full, realm) }
				x := rng.Intn(12)
				switch {
				case x < 2:
					o.kind = "get"
					o.call = now()
					val, err := cl.Get(v, arg(k))
					o.ret = now()
					if err != nil && !errors.Is(err, kvstore.ErrKeyNotFound) {
						fail(who + " Get: " + err.Error())
						return
					}
					o.found, o.val = err == nil, val
				case x < 3:
					o.kind = "has"
					o.call = now()
					has, err := cl.Has(v, arg(k))
					o.ret = now()
					if err != nil {
						fail(who + " Has: " + err.Error())
						return
					}
					o.found = has
				default:
					// prefix: the key itself, the key without its last byte, the party's key family, the whole realm
					pf := k
					switch y := rng.Intn(24); {
					case y < 10:
					case y < 16:
						pf = k[:len(k)-1]
					case y < 23:
						pf = k[:fam]
					default:
						pf = realm
					}
					dir := kvstore.IterDirectionForward
					if rng.Intn(2) == 0 {
						dir = kvstore.IterDirectionBackward
					}
					o.key, o.items = pf, map[string]string{}
					var err error
					if x < 9 {
						o.kind = "iterate"
						o.call = now()
						err = cl.Iterate(v, arg(pf), func(kk, vv string) bool { o.items[realm+kk] = vv; return true }, dir)
						o.ret = now()
					} else {
						o.kind = "iteratekeys"
						o.call = now()
						err = cl.IterateKeys(v, arg(pf), func(kk string) bool { o.items[realm+kk] = ""; return true }, dir)
						o.ret = now()
					}
					if err != nil {
						fail(who + " " + o.kind + ": " + err.Error())
						return
					}
				}
				if want, mine := expect[k]; mine && !record {
					// program order: nobody else writes k, so this goroutine's own last mutation decides
					found, val := o.found, o.val
					if o.items != nil {
						val, found = o.items[k]
					}
					valueless := o.kind == "has" || o.kind == "iteratekeys"
					switch {
					case want != nil && !found:
						inline = append(inline, bulkViolation{"tiny/" + o.kind + "/own-write-not-observed", fmt.Sprintf("%s: its own Set(%s) had returned, nobody else writes that key, but the following %s(%q) did not report it", who, k, o.kind, o.key)})
					case want == nil && found:
						inline = append(inline, bulkViolation{"tiny/" + o.kind + "/own-write-not-observed", fmt.Sprintf("%s: its own Delete(%s) had returned, nobody else writes that key, but the following %s(%q) still reported it", who, k, o.kind, o.key)})
					case want != nil && !valueless && val != *want:
						inline = append(inline, bulkViolation{"tiny/" + o.kind + "/own-write-not-observed", fmt.Sprintf("%s: its own Set(%s,%q) had returned, nobody else writes that key, but the following %s(%q) reported %q", who, k, *want, o.kind, o.key, val)})
					}
				}
				if pt.Role == "batchkeys" && o.items != nil {
					seen = seen[:0]
					for kk := range o.items {
						if len(seen) < 16 && kk[0] == 'b' {
							seen = append(seen, kk)
						}
					}
					sort.Strings(seen)
				}
				if record {
					obs = append(obs, o)
				}
			}
			set := func(k, val string) {
				c := now()
				err := cl.Set(v, strings.TrimPrefix(k, realm), val)
				r := now()
				if err != nil {
					fail(who + " Set: " + err.Error())
				}
				local[k] = append(local[k], bmut{c, r, val, false, who})
			}
			del := func(k string) {
				c := now()
				err := cl.Delete(v, strings.TrimPrefix(k, realm))
				r := now()
				if err != nil {
					fail(who + " Delete: " + err.Error())
				}
				local[k] = append(local[k], bmut{c, r, "", true, who})
			}
			barrier()
			n := 0
			var pending []string // own: keys alive; batchkeys: batch keys deleted and not yet re-set
			for used := 0; used < pt.Ops; n++ {
				val := fmt.Sprintf("t%d.%d", pi, n)
				if pace {
					for i := 0; i < 4000 && !inCommit.Load() && !batcherDone.Load(); i++ {
						runtime.Gosched()
					}
				}
				// every party keeps a small, randomly varying number (0..Max, Max <= 3) of its own keys alive
				// resp. of batch keys deleted, so that the number of entries next to those of the
				// running Commit walks up and down through 0, 1, 2, ...
				grow := len(pending) == 0 || len(pending) < pt.Max && rng.Intn(2) == 0
				if grow {
					var k string
					switch {
					case pt.Role == "own" && pt.Grow:
						k = fmt.Sprintf("x%d.%d", pi, n)
					case pt.Role == "own":
						k = fmt.Sprintf("x%d.%d", pi, rng.Intn(6))
					case len(seen) > 0 && rng.Intn(4) != 0:
						k = seen[rng.Intn(len(seen))] // a batch key its last iteration has reported
					case rng.Intn(2) == 0:
						k = tinyBatchKey(rng.Intn(tinySizes[0])) // written by every batch
					default:
						k = tinyBatchKey(rng.Intn(p.Sizes[rng.Intn(len(p.Sizes))]))
					}
					dup := false
					for _, x := range pending {
						dup = dup || x == k
					}
					if dup {
						continue
					}
					pending = append(pending, k)
					if pt.Role == "own" {
						set(k, val)
						expect[k] = &val
						observe(k, true)
					} else {
						del(k)
						observe(k, false)
					}
				} else {
					i := rng.Intn(len(pending))
					k := pending[i]
					pending = append(pending[:i], pending[i+1:]...)
					switch {
					case pt.Role == "own":
						del(k)
						expect[k] = nil
						observe(k, false)
					case rng.Intn(2) == 0:
						set(k, val)
						observe(k, true)
					default:
						// the batch key stays deleted (until a later batch writes it again)
						observe(k, false)
					}
				}
				used += 2
				if rng.Intn(6) == 0 {
					runtime.Gosched()
				}
			}
			mu.Lock()
			for k, l := range local {
				res.muts[k] = append(res.muts[k], l...)
			}
			res.obs = append(res.obs, obs...)
			res.inline = append(res.inline, inline...)
			mu.Unlock()
		}(pi, pt)
	}
	waitRound(&wg, record)
	own.absorb(map[string]any{"tinyplan": p}, cls...)
	res.commits, res.wipes = commits, wipes
	for j := 0; j < maxSize; j++ {
		k := tinyBatchKey(j)
		if _, ok := res.muts[k]; !ok {
			res.muts[k] = nil
		}
	}
	_ = db.Iterate(kvstore.EmptyPrefix, func(k, v []byte) bool {
		res.final[strings.TrimPrefix(string(k), baseRealm)] = string(v)
		return true
	})
	return res
}

func (res *tinyResult) mutsOf(k string) []bmut {
	var ms []bmut
	if !strings.HasPrefix(k, "p") {
		// the round starts without this key: "absent" is its initial state
		ms = append(ms, bmut{0, 0, "", true, "the initial state (key absent)"})
	}
	ms = append(ms, res.muts[k]...)
	if k[0] != 'b' {
		return ms
	}
	j := atoi(k[1:])
	for _, c := range res.commits {
		if c.err != "" || j >= c.size {
			continue
		}
		v, del := c.write(j)
		ms = append(ms, bmut{c.call, c.ret, v, del, fmt.Sprintf("batch commit #%d (%d writes)", c.cycle, c.size)})
	}
	for _, w := range res.wipes {
		ms = append(ms, bmut{w.call, w.ret, "", true, "the batcher's " + w.kind + " of the batch keys"})
	}
	return ms
}

// judgePresence: an observation that reports only that k exists (Has, IterateKeys).
func judgePresence(ms []bmut, k string, oc, or int64, kind, by string) *bulkViolation {
	for _, m := range ms {
		if !m.del {
			if a, _ := admissible(ms, m, oc, or); a {
				return nil
			}
		}
	}
	return &bulkViolation{"bulk/" + kind + "/stale-or-lost-write", fmt.Sprintf("%s [%d,%d] by %s reported %s as present although no Set of that key was invoked before it returned or every such Set was followed by a completed Delete", kind, oc, or, by, k)}
}

type tinyStats struct {
	rounds, commits, obs, obsInCommit, afterSetIterInCommit, emptyIter, nonEmptyIter, keyChecks, finalKeys int
	bkMutsInCommit, ownMutsInCommit, inlineChecks                                                          int
	bySize                                                                                                 map[int]int
}

func newTinyStats() *tinyStats { return &tinyStats{bySize: map[int]int{}} }

func tinyFP(v *bulkViolation) *bulkViolation {
	if v != nil {
		v.fp = strings.Replace(v.fp, "bulk/", "tiny/", 1)
	}
	return v
}

func checkTiny(p TinyPlan, res *tinyResult, st *tinyStats, timed bool) []bulkViolation {
	var out []bulkViolation
	add := func(v *bulkViolation) {
		if v != nil && len(out) < 6 {
			out = append(out, *tinyFP(v))
		}
	}
	for _, s := range res.panics {
		out = append(out, bulkViolation{"tiny/panic", "panic in " + s})
	}
	for _, s := range res.errs {
		out = append(out, bulkViolation{"tiny/unexpected-error", "operation failed on an open store: " + s})
	}
	for i := range res.inline {
		add(&res.inline[i])
	}
	st.rounds++
	st.commits += len(res.commits)
	for _, c := range res.commits {
		st.bySize[c.size]++
	}
	for k, v := range res.final {
		if _, ok := res.muts[k]; !ok {
			add(&bulkViolation{"tiny/final-state/unknown-key", fmt.Sprintf("after the round the store holds key %q = %q which nobody wrote", k, v)})
		}
	}
	if !timed {
		// race build: no ticks. Keys written by one goroutine only and by no batch hold its last write.
		for k, l := range res.muts {
			if len(l) == 0 || k[0] != 'x' {
				continue
			}
			st.finalKeys++
			last := l[len(l)-1]
			v, found := res.final[k]
			if found != !last.del || found && v != last.val {
				add(&bulkViolation{"tiny/final-state/stale-or-lost-write", fmt.Sprintf("key %s is written by %s only; its last write was %s but the store finally holds %q (present=%v)", k, last.by, describeMut(last), v, found)})
			}
		}
		return out
	}
	cache := map[string][]bmut{}
	get := func(k string) []bmut {
		if m, ok := cache[k]; ok {
			return m
		}
		m := res.mutsOf(k)
		cache[k] = m
		return m
	}
	known := make([]string, 0, len(res.muts))
	for k := range res.muts {
		known = append(known, k)
	}
	sort.Strings(known)
	inCommit := func(c, r int64) bool {
		for _, tc := range res.commits {
			if c < tc.ret && tc.call < r {
				return true
			}
		}
		return false
	}
	within := func(c, r int64) bool { // entirely inside one Commit window
		for _, tc := range res.commits {
			if tc.call < c && r < tc.ret {
				return true
			}
		}
		return false
	}
	for _, o := range res.obs {
		st.obs++
		if inCommit(o.call, o.ret) {
			st.obsInCommit++
		}
		switch o.kind {
		case "get":
			st.keyChecks++
			add(judge(get(o.key), o.key, o.found, o.val, o.call, o.ret, "get", o.by))
		case "has":
			st.keyChecks++
			if o.found {
				add(judgePresence(get(o.key), o.key, o.call, o.ret, "has", o.by))
			} else {
				add(judge(get(o.key), o.key, false, "", o.call, o.ret, "has", o.by))
			}
		default:
			if len(o.items) == 0 {
				st.emptyIter++
			} else {
				st.nonEmptyIter++
			}
			if o.afterSet && within(o.call, o.ret) {
				st.afterSetIterInCommit++
			}
			for k := range o.items {
				if _, ok := res.muts[k]; !ok || !strings.HasPrefix(k, o.key) {
					add(&bulkViolation{"tiny/" + o.kind + "/unknown-key", fmt.Sprintf("%s(%q) by %s delivered key %q which nobody wrote under that prefix", o.kind, o.key, o.by, k)})
				}
			}
			// every known key of the range is judged, delivered or not; in large ranges the
			// tinyJudgeWindow keys around the one the observer has just written
			lo := sort.SearchStrings(known, o.key)
			hi := lo
			for hi < len(known) && strings.HasPrefix(known[hi], o.key) {
				hi++
			}
			if hi-lo > tinyJudgeWindow {
				at := sort.SearchStrings(known, o.anchor)
				l := at - tinyJudgeWindow/2
				if l < lo {
					l = lo
				}
				if l+tinyJudgeWindow > hi {
					l = hi - tinyJudgeWindow
				}
				lo, hi = l, l+tinyJudgeWindow
			}
			for _, k := range known[lo:hi] {
				st.keyChecks++
				v, ok := o.items[k]
				switch {
				case !ok:
					add(judge(get(k), k, false, "", o.call, o.ret, o.kind, o.by))
				case o.kind == "iteratekeys":
					add(judgePresence(get(k), k, o.call, o.ret, o.kind, o.by))
				default:
					add(judge(get(k), k, true, v, o.call, o.ret, o.kind, o.by))
				}
			}
		}
	}
	for _, k := range known {
		st.finalKeys++
		v, found := res.final[k]
		add(judge(get(k), k, found, v, tickInf, tickInf, "final-state", "the harness"))
	}
	for k, l := range res.muts {
		for _, m := range l {
			if m.call != 0 && inCommit(m.call, m.ret) {
				if strings.HasPrefix(k, "b") {
					st.bkMutsInCommit++
				} else {
					st.ownMutsInCommit++
				}
			}
		}
	}
	return out
}

func (st *tinyStats) flush(c *vf.Ctx, race bool) {
	if race {
		c.Count("tiny_race_rounds", st.rounds)
		c.Count("tiny_race_single_writer_checks", st.finalKeys)
		return
	}
	c.Count("tiny_rounds", st.rounds)
	c.Count("tiny_commits", st.commits)
	for s, n := range st.bySize {
		c.Count("tiny_commits_of_size_"+strconv.Itoa(s), n)
	}
	c.Count("tiny_observations", st.obs)
	c.Count("tiny_party_operations_overlapping_a_commit", st.obsInCommit+st.bkMutsInCommit+st.ownMutsInCommit)
	c.Count("tiny_observations_overlapping_a_commit", st.obsInCommit)
	c.Count("tiny_iterations_right_after_own_set_inside_a_commit", st.afterSetIterInCommit)
	c.Count("tiny_iterations_reporting_nothing", st.emptyIter)
	c.Count("tiny_iterations_reporting_entries", st.nonEmptyIter)
	c.Count("tiny_batch_key_mutations_overlapping_a_commit", st.bkMutsInCommit)
	c.Count("tiny_own_key_mutations_overlapping_a_commit", st.ownMutsInCommit)
	c.Count("tiny_key_checks", st.keyChecks)
	c.Count("tiny_final_key_checks", st.finalKeys)
	c.Count("evaluations", st.keyChecks+st.finalKeys)
}

type TinyReplay struct {
	Tiny TinyPlan `json:"tinyplan"`
}

func tinyPlanFor(c *vf.Ctx, idx int) TinyPlan { return genTiny(c.Rand("tiny/"+strconv.Itoa(idx)), idx) }

func tinySummary(p TinyPlan) string {
	var s []string
	for _, pt := range p.Parties {
		s = append(s, pt.Role)
	}
	return fmt.Sprintf("%d entries before, commits %v, parties %s", p.Pre, p.Sizes, strings.Join(s, ","))
}

func childTiny(c *vf.Ctx, start, count int, race bool) {
	st := newTinyStats()
	reported := 0
	for idx := start; idx < start+count; idx++ {
		p := tinyPlanFor(c, idx)
		runtime.GOMAXPROCS(p.Procs)
		c.Mark("tiny " + strconv.Itoa(idx))
		var res *tinyResult
		dl := guardDeadlock(func() { res = runTiny(p, !race, !race || idx%2 == 0) })
		runtime.GOMAXPROCS(runtime.NumCPU())
		if dl != nil {
			c.Violation("deadlock", fmt.Sprintf("small-store round %d (%s): every goroutine is parked on a lock in consecutive snapshots and the round has not finished", idx, tinySummary(p)), map[string]any{"tinyplan": p, "goroutines": dl.frames})
			break // the parked goroutines cannot be removed; end this child
		}
		for _, v := range checkTiny(p, res, st, !race) {
			if reported < 12 {
				reported++
				c.Violation(v.fp, fmt.Sprintf("small-store round %d (GOMAXPROCS %d, %s): %s", idx, p.Procs, tinySummary(p), v.what), TinyReplay{Tiny: p})
			}
		}
		if idx == start && !race && c.WantSample() {
			c.Sample(map[string]any{"small_store_round": idx, "plan": p})
		}
	}
	st.flush(c, race)
}

func replayTiny(c *vf.Ctx, p TinyPlan) {
	st := newTinyStats()
	hits := 0
	for i := 0; i < 100; i++ {
		runtime.GOMAXPROCS(procsList[i%3])
		res := runTiny(p, true, true)
		runtime.GOMAXPROCS(runtime.NumCPU())
		for _, v := range checkTiny(p, res, st, true) {
			hits++
			if hits <= 2 {
				c.Violation(v.fp, fmt.Sprintf("re-executed small-store round (run %d): %s", i, v.what), TinyReplay{Tiny: p})
			}
		}
	}
	st.flush(c, false)
	c.Note(fmt.Sprintf("round re-executed 100 times: %d oracle violations", hits))
}
