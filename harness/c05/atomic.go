// Third family of C05 (no porcupine): operations that span many keys take
// effect at ONE instant.
//
//  1. family rounds – a key family F of 1 .. 20000 entries is fully populated,
//     then exactly one DeletePrefix / Clear covering F runs while several readers
//     iterate (Iterate and IterateKeys, both directions) through the same view
//     object, a sibling view, the parent view and a nested view. Nothing else
//     mutates F, so every iteration must report all of F or none of F (plus all
//     bystander entries); with ticks: all of F if it returned before the delete
//     was invoked, none if it was invoked after the delete returned.
//     (Batch commits are NOT held to this: the statement promises atomicity per
//     write of a batch, and the unchanged tree applies a batch write by write.)
//  2. gated snapshot rounds – an Iterate's consumer is parked by the harness
//     inside its callback after j entries; a single writer then applies a known
//     sequence of Sets/Deletes to the iterated keys and returns; the consumer is
//     released. The delivered (key,value) list must equal the content at ONE
//     point S0..Sn of the writer's sequence: Iterate is one operation and takes
//     effect at one instant of its interval.
//  3. free-running snapshot rounds – iterations with a slow consumer race with a
//     single writer applying a numbered sequence; the delivered content must
//     equal some Si with (operations completed when the iteration was invoked)
//     <= i <= (operations started when it returned).
package main

import (
	"fmt"
	"hash/fnv"
	"math/rand"
	"runtime"
	"sort"
	"strconv"
	"strings"
	"sync"
	"sync/atomic"

	"github.com/iotaledger/hive.go/kvstore"
	"github.com/iotaledger/hive.go/kvstore/debug"
	"github.com/iotaledger/hive.go/kvstore/flushkv"
	"github.com/iotaledger/hive.go/kvstore/mapdb"
	"verif/harness/internal/kvmodel"
	"verif/harness/internal/vf"
)

var famSizesQuick = []int{1, 100, 1023, 1024, 1025, 2048, 5000, 20000}
var famSizesThorough = []int{1, 100, 1023, 1024, 1025, 2048, 5000, 20000}

type AtomPlan struct {
	Idx   int    `json:"atom_idx"`
	Kind  string `json:"atom"` // family | gated | free
	Procs int    `json:"procs"`
	Seed  int64  `json:"rseed"`
	Size  int    `json:"size,omitempty"` // family size / number of keys
	Mut   string `json:"mut,omitempty"`  // deleteprefix | clear
	Wrap  string `json:"wrap,omitempty"` // wrapper of the mutating / iterating view
	Back  bool   `json:"back,omitempty"`
	Gate  int    `json:"gate,omitempty"` // consumer parks after this many entries
	WView string `json:"wview,omitempty"`
	NOps  int    `json:"nops,omitempty"`
}

func genAtom(rng *rand.Rand, idx int, quick bool) AtomPlan {
	p := AtomPlan{Idx: idx, Procs: procsList[idx%len(procsList)], Seed: rng.Int63(), Back: rng.Intn(2) == 0}
	p.Wrap = []string{"", "", "flush", "debug"}[rng.Intn(4)]
	switch idx % 4 {
	case 0, 1:
		p.Kind = "family"
		sizes := famSizesThorough
		if quick {
			sizes = famSizesQuick
		}
		p.Size = sizes[(idx/4*2+idx%4)%len(sizes)]
		p.Mut = []string{"deleteprefix", "clear"}[rng.Intn(2)]
	case 2:
		p.Kind = "gated"
		p.Size = 4 + rng.Intn(29)
		p.Gate = rng.Intn(p.Size)
		p.NOps = 4 + rng.Intn(40)
		p.WView = []string{"same", "sibling", "parent", "nested"}[rng.Intn(4)]
	default:
		p.Kind = "free"
		p.Size = 8 + rng.Intn(25)
		p.NOps = 600
		p.WView = []string{"same", "sibling", "parent", "nested"}[rng.Intn(4)]
	}
	return p
}

type atomViolation struct{ fp, what string }

type atomStats struct {
	rounds                                             map[string]int
	famBySize                                          map[int]int
	iterations, overlapping, gatedChecks, freeChecks   int
	freeStrict, seenAll, seenNone, writerOpsWhileGated int
}

func newAtomStats() *atomStats { return &atomStats{rounds: map[string]int{}, famBySize: map[int]int{}} }

func wrapView(v kvstore.KVStore, w string) kvstore.KVStore {
	switch w {
	case "flush":
		return flushkv.New(v)
	case "debug":
		return debug.New(v, func(debug.Command, ...[]byte) {})
	}
	return v
}

func mustRealm(db kvstore.KVStore, realm string) kvstore.KVStore {
	v, err := db.WithRealm([]byte(realm))
	if err != nil {
		panic(err)
	}
	return v
}

// ---------------------------------------------------------------- 1. families

type famIter struct {
	who       string
	keysOnly  bool
	back      bool
	call, ret int64
	fam, by   int
	bad       string
}

func famKey(i int) string { return fmt.Sprintf("f%05d", i) }

func runFamily(p AtomPlan, record bool, st *atomStats) []atomViolation {
	const bystanders = 40
	db := mapdb.NewMapDB()
	base := mustRealm(db, baseRealm)
	for i := 0; i < p.Size; i++ {
		if err := base.Set([]byte(famKey(i)), []byte("v"+strconv.Itoa(i))); err != nil {
			panic(err)
		}
	}
	for i := 0; i < bystanders; i++ {
		_ = base.Set([]byte(fmt.Sprintf("g%03d", i)), []byte("b"))
		_ = db.Set([]byte(fmt.Sprintf("q%03d", i)), []byte("o"))
	}
	mutView := wrapView(mustRealm(db, baseRealm), p.Wrap)
	if p.Mut == "clear" {
		mutView = wrapView(mustRealm(db, baseRealm+"f"), p.Wrap)
	}
	type rd struct {
		name          string
		v             kvstore.KVStore
		realm, prefix string // realm relative to db
	}
	readers := []rd{
		{"the mutating view object", mutView, baseRealm, "f"},
		{"a sibling view", wrapView(mustRealm(db, baseRealm), []string{"", "flush"}[p.Idx%2]), baseRealm, "f"},
		{"the parent view", db, "", baseRealm},
		{"a nested view", mustRealm(db, baseRealm+"f"), baseRealm + "f", ""},
		{"a sibling view (whole realm)", mustRealm(db, baseRealm), baseRealm, ""},
	}
	if p.Mut == "clear" {
		readers[0].realm, readers[0].prefix = baseRealm+"f", ""
	}
	var tick atomic.Int64
	now := func() int64 {
		if !record {
			return 0
		}
		return tick.Add(1)
	}
	var started, ready atomic.Int32
	total := int32(len(readers) + 1)
	rng := rand.New(rand.NewSource(p.Seed))
	threshold := int32(1 + rng.Intn(2*len(readers)))
	const itersPerReader = 6
	var mcall, mret int64
	var merr error
	var mu sync.Mutex
	var its []famIter
	var panics []string
	var wg sync.WaitGroup
	guard := func(who string) {
		if r := recover(); r != nil {
			mu.Lock()
			panics = append(panics, fmt.Sprintf("%s: %v", who, r))
			mu.Unlock()
		}
	}
	// every goroutine owns ONE key buffer for all its prefix arguments and is the owner of the slices its
	// consumers are handed (owned.go)
	cls := make([]*caller, len(readers)+1)
	wg.Add(1)
	go func() {
		defer wg.Done()
		defer guard("mutator")
		cl := newCaller("mutator")
		cls[len(readers)] = cl
		ready.Add(1)
		for ready.Load() < total {
			runtime.Gosched()
		}
		for started.Load() < threshold { // schedule coordination only: let some iterations begin first
			runtime.Gosched()
		}
		mcall = now()
		if p.Mut == "clear" {
			merr = mutView.Clear()
		} else {
			merr = cl.DeletePrefix(mutView, "f")
		}
		mret = now()
	}()
	for ri, r := range readers {
		wg.Add(1)
		go func(ri int, r rd) {
			defer wg.Done()
			defer guard(r.name)
			cl := newCaller(r.name)
			cls[ri] = cl
			var out []famIter
			ready.Add(1)
			for ready.Load() < total {
				runtime.Gosched()
			}
			for n := 0; n < itersPerReader; n++ {
				it := famIter{who: r.name, keysOnly: (n+ri)%2 == 1, back: (n+ri+p.Idx)%3 == 0}
				dir := kvstore.IterDirectionForward
				if it.back {
					dir = kvstore.IterDirectionBackward
				}
				last := ""
				seen := 0
				consume := func(k, v string) bool {
					full := r.realm + k
					if seen > 0 && (it.back && full >= last || !it.back && full <= last) && it.bad == "" {
						it.bad = fmt.Sprintf("order: %q delivered after %q", full, last)
					}
					last = full
					seen++
					switch {
					case strings.HasPrefix(full, baseRealm+"f"):
						it.fam++
						if !it.keysOnly {
							if i, err := strconv.Atoi(full[len(baseRealm)+1:]); err != nil || v != "v"+strconv.Itoa(i) {
								if it.bad == "" {
									it.bad = fmt.Sprintf("value: %q = %q", full, v)
								}
							}
						}
					case strings.HasPrefix(full, baseRealm+"g"):
						it.by++
					default:
						if it.bad == "" {
							it.bad = fmt.Sprintf("foreign key %q", full)
						}
					}
					return true
				}
				started.Add(1)
				var err error
				it.call = now()
				if it.keysOnly {
					err = cl.IterateKeys(r.v, r.prefix, func(k string) bool { return consume(k, "") }, dir)
				} else {
					err = cl.Iterate(r.v, r.prefix, consume, dir)
				}
				it.ret = now()
				if err != nil && it.bad == "" {
					it.bad = "error " + err.Error()
				}
				if r.realm+r.prefix == baseRealm && it.by != bystanders && it.bad == "" {
					it.bad = fmt.Sprintf("bystanders: %d of %d entries of the untouched family g", it.by, bystanders)
				}
				out = append(out, it)
			}
			mu.Lock()
			its = append(its, out...)
			mu.Unlock()
		}(ri, r)
	}
	waitRound(&wg, record)
	own.absorb(map[string]any{"atomplan": p}, cls...)
	var vs []atomViolation
	name := map[string]string{"deleteprefix": "DeletePrefix", "clear": "Clear"}[p.Mut]
	for _, s := range panics {
		vs = append(vs, atomViolation{"multikey/panic", "panic in " + s})
	}
	if merr != nil {
		vs = append(vs, atomViolation{"multikey/unexpected-error", name + " failed: " + merr.Error()})
	}
	for _, it := range its {
		st.iterations++
		op := "Iterate"
		if it.keysOnly {
			op = "IterateKeys"
		}
		d := fmt.Sprintf("%s through %s (back=%v) [%d,%d] while the only mutation of the %d-entry family was one %s [%d,%d]", op, it.who, it.back, it.call, it.ret, p.Size, name, mcall, mret)
		if record && it.call < mret && mcall < it.ret {
			st.overlapping++
		}
		switch {
		case it.bad != "":
			vs = append(vs, atomViolation{"multikey/iteration-content/" + strings.SplitN(it.bad, ":", 2)[0], d + ": " + it.bad})
		case it.fam != 0 && it.fam != p.Size:
			vs = append(vs, atomViolation{"multikey/partial-" + p.Mut + "-observed", fmt.Sprintf("%s reported %d of %d family entries – a set that never existed together", d, it.fam, p.Size)})
		case record && it.ret < mcall && it.fam != p.Size:
			vs = append(vs, atomViolation{"multikey/entries-missing-before-delete", d + ": returned before the delete was invoked but reported no family entries"})
		case record && it.call > mret && it.fam != 0:
			vs = append(vs, atomViolation{"multikey/deleted-entries-still-visible", d + ": invoked after the delete had returned but reported the family"})
		}
		if it.fam == 0 {
			st.seenNone++
		} else {
			st.seenAll++
		}
	}
	st.famBySize[p.Size]++
	return vs
}

// ---------------------------------------------------------------- 2./3. snapshot rounds

type seqOp struct {
	del  bool
	k, v string
}

// snapshotSetup builds the store, the iterating view, the writer's view and
// the writer's sequence with all intermediate states S0..Sn (canonical form ->
// indices).
type snapRound struct {
	iterView, wView kvstore.KVStore
	wPrefix         string // what the writer prepends to a key (relative to its view)
	stripK          bool   // the writer's view realm already contains the keys' leading k
	ops             []seqOp
	states          map[uint64][]int // content hash -> state indices
	keyStates       map[uint64][]int // key-set hash -> state indices
	keys            []string
}

func contentHash(l []kvmodel.KV, keysOnly bool) uint64 {
	h := fnv.New64a()
	for _, e := range l {
		h.Write([]byte(e.K))
		h.Write([]byte{0})
		if !keysOnly {
			h.Write([]byte(e.V))
		}
		h.Write([]byte{1})
	}
	return h.Sum64()
}

func setupSnap(p AtomPlan) *snapRound {
	rng := rand.New(rand.NewSource(p.Seed))
	db := mapdb.NewMapDB()
	for i := 0; i < 30; i++ {
		_ = db.Set([]byte(fmt.Sprintf("q%03d", i)), []byte("o"))
	}
	// the iteration runs over realm base+"s", keys k00..; the writer reaches the same entries
	// through the same object, a sibling object, the parent (realm base) or a nested view
	sr := &snapRound{states: map[uint64][]int{}, keyStates: map[uint64][]int{}}
	iv := mustRealm(db, baseRealm+"s")
	sr.iterView = wrapView(iv, p.Wrap)
	switch p.WView {
	case "same":
		sr.wView = sr.iterView
	case "sibling":
		sr.wView = wrapView(mustRealm(db, baseRealm+"s"), []string{"", "flush"}[p.Idx%2])
	case "parent":
		sr.wView, sr.wPrefix = mustRealm(db, baseRealm), "s"
	default: // nested: realm base+"sk", keys without their leading k
		sr.wView, sr.stripK = mustRealm(db, baseRealm+"sk"), true
	}
	m := kvmodel.New()
	for i := 0; i < p.Size; i++ {
		k := fmt.Sprintf("k%02d", i)
		sr.keys = append(sr.keys, k)
		if rng.Intn(5) > 0 {
			m.Set("", k, "init"+strconv.Itoa(i))
			if err := iv.Set([]byte(k), []byte("init"+strconv.Itoa(i))); err != nil {
				panic(err)
			}
		}
	}
	record := func(i int) {
		l := m.Iterate("", "", false)
		sr.states[contentHash(l, false)] = append(sr.states[contentHash(l, false)], i)
		sr.keyStates[contentHash(l, true)] = append(sr.keyStates[contentHash(l, true)], i)
	}
	record(0)
	for i := 0; i < p.NOps; i++ {
		o := seqOp{k: sr.keys[rng.Intn(len(sr.keys))]}
		if rng.Intn(4) == 0 {
			o.del = true
			m.Delete("", o.k)
		} else {
			o.v = fmt.Sprintf("s%d", i+1)
			m.Set("", o.k, o.v)
		}
		sr.ops = append(sr.ops, o)
		record(i + 1)
	}
	return sr
}

func (sr *snapRound) apply(cl *caller, o seqOp) error {
	k := sr.wPrefix + o.k
	if sr.stripK {
		k = o.k[1:]
	}
	if o.del {
		return cl.Delete(sr.wView, k)
	}
	return cl.Set(sr.wView, k, o.v)
}

func fmtList(l []kvmodel.KV) string {
	var s []string
	for _, e := range l {
		s = append(s, e.K+"="+e.V)
	}
	if len(s) > 14 {
		s = append(s[:14], "…")
	}
	return "[" + strings.Join(s, " ") + "]"
}

// matchState returns whether the delivered list equals a state with lo <= i <= hi.
func (sr *snapRound) matchState(l []kvmodel.KV, keysOnly, back bool, lo, hi int) (bool, []int) {
	fw := append([]kvmodel.KV{}, l...)
	if back {
		for i, j := 0, len(fw)-1; i < j; i, j = i+1, j-1 {
			fw[i], fw[j] = fw[j], fw[i]
		}
	}
	if !sort.SliceIsSorted(fw, func(i, j int) bool { return fw[i].K < fw[j].K }) {
		return false, nil
	}
	idx := sr.states[contentHash(fw, false)]
	if keysOnly {
		idx = sr.keyStates[contentHash(fw, true)]
	}
	for _, i := range idx {
		if i >= lo && i <= hi {
			return true, idx
		}
	}
	return false, idx
}

func runGated(p AtomPlan, st *atomStats) []atomViolation {
	sr := setupSnap(p)
	entered := make(chan struct{})
	release := make(chan struct{})
	var got []kvmodel.KV
	var iterErr error
	var pan string
	done := make(chan struct{})
	parked := false
	icl, wcl := newCaller("iterating goroutine"), newCaller("writer")
	defer own.absorb(map[string]any{"atomplan": p}, icl, wcl)
	go func() {
		defer close(done)
		defer func() {
			if r := recover(); r != nil {
				pan = fmt.Sprint(r)
			}
		}()
		dir := kvstore.IterDirectionForward
		if p.Back {
			dir = kvstore.IterDirectionBackward
		}
		iterErr = icl.Iterate(sr.iterView, "", func(k, v string) bool {
			got = append(got, kvmodel.KV{K: k, V: v})
			if len(got) == p.Gate+1 && !parked {
				parked = true
				close(entered)
				<-release
			}
			return true
		}, dir)
		if !parked {
			close(entered) // fewer entries than the gate position: nothing to park on
		}
	}()
	<-entered
	var vs []atomViolation
	if parked {
		for _, o := range sr.ops {
			if err := sr.apply(wcl, o); err != nil {
				vs = append(vs, atomViolation{"snapshot/unexpected-error", "writer failed while an Iterate consumer was parked: " + err.Error()})
				break
			}
			st.writerOpsWhileGated++
		}
		close(release)
	}
	<-done
	if pan != "" {
		return append(vs, atomViolation{"snapshot/panic", "Iterate panicked: " + pan})
	}
	if iterErr != nil {
		return append(vs, atomViolation{"snapshot/unexpected-error", "Iterate failed: " + iterErr.Error()})
	}
	if !parked {
		return vs
	}
	st.gatedChecks++
	if ok, _ := sr.matchState(got, false, p.Back, 0, len(sr.ops)); !ok {
		vs = append(vs, atomViolation{"snapshot/iterate-content-matches-no-instant", fmt.Sprintf("Iterate (back=%v, %s view) whose consumer was parked after %d entries while one writer (through the %s view) applied %d Sets/Deletes and returned delivered %s, which is not the content at any point S0..S%d of that sequence (Iterate is one operation and must take effect at one instant)", p.Back, stackOf(p.Wrap), p.Gate+1, p.WView, len(sr.ops), fmtList(got), len(sr.ops))})
	}
	return vs
}

func stackOf(w string) string {
	if w == "" {
		return "mapdb"
	}
	return w + ">mapdb"
}

func runFree(p AtomPlan, record bool, st *atomStats) []atomViolation {
	sr := setupSnap(p)
	var started, completed atomic.Int32
	var wg sync.WaitGroup
	var mu sync.Mutex
	var vs []atomViolation
	add := func(v atomViolation) {
		mu.Lock()
		if len(vs) < 4 {
			vs = append(vs, v)
		}
		mu.Unlock()
	}
	var ready atomic.Int32
	const nReaders = 3
	cls := make([]*caller, nReaders+1)
	wg.Add(1)
	go func() {
		defer wg.Done()
		defer func() {
			if r := recover(); r != nil {
				add(atomViolation{"snapshot/panic", fmt.Sprint("writer panicked: ", r)})
			}
		}()
		cl := newCaller("writer")
		cls[nReaders] = cl
		ready.Add(1)
		for ready.Load() < nReaders+1 {
			runtime.Gosched()
		}
		for i, o := range sr.ops {
			if record {
				started.Store(int32(i + 1))
			}
			if err := sr.apply(cl, o); err != nil {
				add(atomViolation{"snapshot/unexpected-error", "writer: " + err.Error()})
				return
			}
			if record {
				completed.Store(int32(i + 1))
			}
			if i%4 == 0 {
				runtime.Gosched()
			}
		}
	}()
	var checks, strict atomic.Int32
	for r := 0; r < nReaders; r++ {
		wg.Add(1)
		go func(r int) {
			defer wg.Done()
			defer func() {
				if x := recover(); x != nil {
					add(atomViolation{"snapshot/panic", fmt.Sprint("iteration panicked: ", x)})
				}
			}()
			cl := newCaller("reader " + strconv.Itoa(r))
			cls[r] = cl
			ready.Add(1)
			for ready.Load() < nReaders+1 {
				runtime.Gosched()
			}
			for n := 0; n < 40; n++ {
				keysOnly := (n+r)%3 == 2
				back := (n+r)%2 == 0
				dir := kvstore.IterDirectionForward
				if back {
					dir = kvstore.IterDirectionBackward
				}
				var got []kvmodel.KV
				lo, hi := 0, len(sr.ops)
				if record {
					lo = int(completed.Load())
				}
				var err error
				if keysOnly {
					err = cl.IterateKeys(sr.iterView, "", func(k string) bool {
						got = append(got, kvmodel.KV{K: k})
						runtime.Gosched()
						return true
					}, dir)
				} else {
					err = cl.Iterate(sr.iterView, "", func(k, v string) bool {
						got = append(got, kvmodel.KV{K: k, V: v})
						runtime.Gosched() // slow consumer
						return true
					}, dir)
				}
				if record {
					hi = int(started.Load())
				}
				if err != nil {
					add(atomViolation{"snapshot/unexpected-error", "iteration: " + err.Error()})
					return
				}
				checks.Add(1)
				if hi > lo {
					strict.Add(1)
				}
				op := "Iterate"
				if keysOnly {
					op = "IterateKeys"
				}
				if ok, idx := sr.matchState(got, keysOnly, back, lo, hi); !ok {
					fp := "snapshot/" + strings.ToLower(op) + "-content-matches-no-instant"
					why := "is not the content at any point of that sequence"
					if len(idx) > 0 {
						fp = "snapshot/" + strings.ToLower(op) + "-content-from-outside-its-interval"
						why = fmt.Sprintf("is the content only at point(s) %v of that sequence", idx)
					}
					add(atomViolation{fp, fmt.Sprintf("%s (back=%v, %s view, slow consumer) racing with one writer (through the %s view) that applies a numbered sequence of %d Sets/Deletes: the writer had completed %d operations when the iteration was invoked and started %d when it returned, but the delivered content %s %s (the iteration is one operation and must take effect at one instant of its interval)", op, back, stackOf(p.Wrap), p.WView, len(sr.ops), lo, hi, fmtList(got), why)})
				}
			}
		}(r)
	}
	waitRound(&wg, record)
	own.absorb(map[string]any{"atomplan": p}, cls...)
	st.freeChecks += int(checks.Load())
	st.freeStrict += int(strict.Load())
	return vs
}

// ---------------------------------------------------------------- driver

func atomPlanFor(c *vf.Ctx, idx int) AtomPlan {
	return genAtom(c.Rand("atom/"+strconv.Itoa(idx)), idx, c.Quick())
}

func runAtom(p AtomPlan, record bool, st *atomStats) []atomViolation {
	st.rounds[p.Kind]++
	switch p.Kind {
	case "family":
		return runFamily(p, record, st)
	case "gated":
		return runGated(p, st)
	}
	return runFree(p, record, st)
}

func (st *atomStats) flush(c *vf.Ctx, race bool) {
	pre := "atom_"
	if race {
		pre = "atom_race_"
	}
	for k, n := range st.rounds {
		c.Count(pre+k+"_rounds", n)
	}
	if race {
		c.Count("atom_race_iterations", st.iterations+st.freeChecks+st.gatedChecks)
		return
	}
	for s, n := range st.famBySize {
		c.Count("atom_family_rounds_of_size_"+strconv.Itoa(s), n)
	}
	c.Count("atom_family_iterations", st.iterations)
	c.Count("atom_family_iterations_overlapping_the_delete", st.overlapping)
	c.Count("atom_family_iterations_reporting_all", st.seenAll)
	c.Count("atom_family_iterations_reporting_none", st.seenNone)
	c.Count("atom_gated_snapshot_checks", st.gatedChecks)
	c.Count("atom_writer_ops_while_consumer_parked", st.writerOpsWhileGated)
	c.Count("atom_free_snapshot_checks", st.freeChecks)
	c.Count("atom_free_snapshot_checks_with_writer_progress", st.freeStrict)
	c.Count("evaluations", st.iterations+st.gatedChecks+st.freeChecks)
}

type AtomReplay struct {
	Atom AtomPlan `json:"atomplan"`
}

func childAtom(c *vf.Ctx, start, count int, race bool) {
	st := newAtomStats()
	reported := 0
	for idx := start; idx < start+count; idx++ {
		p := atomPlanFor(c, idx)
		runtime.GOMAXPROCS(p.Procs)
		c.Mark("atom " + strconv.Itoa(idx))
		var vs []atomViolation
		dl := guardDeadlock(func() { vs = runAtom(p, !race, st) })
		runtime.GOMAXPROCS(runtime.NumCPU())
		if dl != nil {
			c.Violation("deadlock", fmt.Sprintf("%s round %d: every goroutine is parked on a lock in consecutive snapshots and the round has not finished", p.Kind, idx), map[string]any{"atomplan": p, "goroutines": dl.frames})
			break // the parked goroutines cannot be removed; end this child
		}
		for _, v := range vs {
			if reported < 12 {
				reported++
				c.Violation(v.fp, fmt.Sprintf("%s round %d (GOMAXPROCS %d): %s", p.Kind, idx, p.Procs, v.what), AtomReplay{Atom: p})
			}
		}
	}
	st.flush(c, race)
}

func replayAtom(c *vf.Ctx, p AtomPlan) {
	st := newAtomStats()
	hits := 0
	for i := 0; i < 100; i++ {
		runtime.GOMAXPROCS(procsList[i%3])
		vs := runAtom(p, true, st)
		runtime.GOMAXPROCS(runtime.NumCPU())
		for _, v := range vs {
			hits++
			if hits <= 2 {
				c.Violation(v.fp, fmt.Sprintf("re-executed %s round (run %d): %s", p.Kind, i, v.what), AtomReplay{Atom: p})
			}
		}
	}
	st.flush(c, false)
	c.Note(fmt.Sprintf("round re-executed 100 times: %d oracle violations", hits))
}
