package main

import (
	"os"
	"runtime/pprof"
)

// startProfile writes a CPU profile when C11_PROF names a file (development aid).
func startProfile() func() {
	p := os.Getenv("C11_PROF")
	if p == "" {
		return func() {}
	}
	f, err := os.Create(p)
	if err != nil {
		return func() {}
	}
	_ = pprof.StartCPUProfile(f)
	return func() { pprof.StopCPUProfile(); f.Close() }
}
