package main

// Conservation of reported membership changes: every diff-reporting method (Add, Delete, AddAll, DeleteAll, Apply,
// Compute, Replace) races over one small element universe; each call is decomposed into per-element register
// operations carrying what the call REPORTED for that element, and porcupine decides per element whether the
// reports can be ordered consistently with {absent,present} (two "removed" reports need an "added" one in between,
// the final membership closes the chain). Sound on the unchanged tree: AddAll/DeleteAll act and report element by
// element, Apply/Compute/Replace exclude every other writer. Has is left out (Replace clears and refills, which a
// concurrent Has may observe – reads are not claimed atomic with Replace).

import (
	"math/rand"

	"github.com/anishathalye/porcupine"
	"github.com/iotaledger/hive.go/ds"
)

// diffKeyModel: per element. Ops: add (OK = reported added), del (OK = reported removed), ensure (Replace with the
// element in the new contents: present afterwards, nothing reported), read (final membership).
var diffKeyModel = porcupine.Model{
	Partition: partitionByKey,
	Init:      func() any { return false },
	Step: func(st, in, _ any) (bool, any) {
		present, o := st.(bool), in.(hop)
		switch o.Op {
		case "add":
			return o.OK == !present, true
		case "del":
			return o.OK == present, false
		case "ensure":
			return true, true
		default: // read
			return o.OK == present, present
		}
	},
}

const diffUniverse = 3

func has(xs []int, e int) bool {
	for _, x := range xs {
		if x == e {
			return true
		}
	}
	return false
}

func randInts(rng *rand.Rand) []int {
	var x []int
	for e := 0; e < diffUniverse; e++ {
		if rng.Intn(2) == 0 {
			x = append(x, e)
		}
	}
	return x
}

// diffHistory records one round; every call contributes one hop per element it names.
func diffHistory(seed int64) ([]hop, string, string) {
	s := ds.NewSet[int]()
	per := make([][]hop, 4)
	_ = recordRun(4, 6, seed, func(client int, rng *rand.Rand, i int) hop {
		emit := func(call, ret int64, adds, dels, ensures []int, repAdded, repRemoved []int) {
			for _, e := range adds {
				per[client] = append(per[client], hop{Client: client, Op: "add", Key: e, OK: has(repAdded, e), Call: call, Ret: ret})
			}
			for _, e := range dels {
				per[client] = append(per[client], hop{Client: client, Op: "del", Key: e, OK: has(repRemoved, e), Call: call, Ret: ret})
			}
			for _, e := range ensures {
				per[client] = append(per[client], hop{Client: client, Op: "ensure", Key: e, Call: call, Ret: ret})
			}
		}
		x := randInts(rng)
		switch rng.Intn(7) {
		case 0:
			e := rng.Intn(diffUniverse)
			call := clock.Add(1)
			ok := rop_single_SetAdd(s, e)
			ret := clock.Add(1)
			rep := []int{}
			if ok {
				rep = []int{e}
			}
			emit(call, ret, []int{e}, nil, nil, rep, nil)
		case 1:
			e := rng.Intn(diffUniverse)
			call := clock.Add(1)
			ok := rop_single_SetDelete(s, e)
			ret := clock.Add(1)
			rep := []int{}
			if ok {
				rep = []int{e}
			}
			emit(call, ret, nil, []int{e}, nil, nil, rep)
		case 2:
			call := clock.Add(1)
			r := rop_other_AddAll(s, yieldSet{ds.NewSet(x...)})
			ret := clock.Add(1)
			emit(call, ret, x, nil, nil, r.ToSlice(), nil)
		case 3:
			call := clock.Add(1)
			r := rop_other_DeleteAll(s, yieldSet{ds.NewSet(x...)})
			ret := clock.Add(1)
			emit(call, ret, nil, x, nil, nil, r.ToSlice())
		case 4, 5:
			var a, d []int
			for _, e := range x {
				if rng.Intn(2) == 0 {
					a = append(a, e)
				} else {
					d = append(d, e)
				}
			}
			m := ds.NewSetMutations[int]().WithAddedElements(ds.NewSet(a...)).WithDeletedElements(ds.NewSet(d...))
			call := clock.Add(1)
			var r ds.SetMutations[int]
			if rng.Intn(2) == 0 {
				r = rop_atomic_Apply(s, m)
			} else {
				r = rop_atomic_Compute(s, func(ds.ReadableSet[int]) ds.SetMutations[int] { return m })
			}
			ret := clock.Add(1)
			emit(call, ret, a, d, nil, r.AddedElements().ToSlice(), r.DeletedElements().ToSlice())
		default:
			call := clock.Add(1)
			r := rop_atomic_Replace(s, yieldSet{ds.NewSet(x...)})
			ret := clock.Add(1)
			var dels []int
			for e := 0; e < diffUniverse; e++ {
				if !has(x, e) {
					dels = append(dels, e)
				}
			}
			// the returned set is demanded to contain exactly the removed elements (sequential clause); here only
			// elements that are NOT in the new contents are judged
			emit(call, ret, nil, dels, x, nil, r.ToSlice())
		}
		return hop{}
	})
	var all []hop
	for _, p := range per {
		all = append(all, p...)
	}
	// final membership at quiescence
	call := clock.Add(1)
	for e := 0; e < diffUniverse; e++ {
		all = append(all, hop{Client: 4, Op: "read", Key: e, OK: rop_single_SetHas(s, e), Call: call, Ret: call + 1})
	}
	clock.Add(1)
	k, w := setInvariant(s, diffUniverse)
	return all, k, w
}
