// C11 – OrderedMap and Set: insertion-ordered model, exact diffs, no dead-lock.
//
// Sequential: reference models (seq.go) for orderedmap.OrderedMap, ds.Set,
// ds.SetArithmetic and the serix round trip, exhaustive short histories plus seeded
// long ones. Concurrent (conc.go): every pair and triple of Set methods looped on one
// set in timer-free plain-build children (verdict: Go runtime dead-lock detector),
// atomicity of Apply/Compute/Replace and per-key linearizability of the
// single-element operations (recorded histories, porcupine), and a -race child whose
// reports are classified by the harness entry points on both stacks (DESIGN §1.6).
package main

import (
	"encoding/json"
	"fmt"
	"runtime"
	"strconv"
	"strings"
	"sync"
	"time"

	"verif/harness/internal/gdump"
	"verif/harness/internal/vf"
)

var mergeMu sync.Mutex

func (l *local) merge(c *vf.Ctx) {
	mergeMu.Lock()
	defer mergeMu.Unlock()
	c.Count("evaluations", l.evals)
	for k, v := range l.counts {
		c.Count(k, v)
	}
	for h := range l.distinct {
		c.DistinctHash("nontrivial", h)
	}
	for _, v := range l.viols {
		c.Violation(v.fp, v.what, v.rec)
	}
	for _, s := range l.samples {
		c.Sample(s)
	}
}

// ------------------------------------------------------------------ sequential part

func seqPart(c *vf.Ctx) {
	workers := runtime.NumCPU()
	// ds.Set: all histories up to length 3 over a universe of 3 elements
	{
		const uni = 3
		alpha := setAlphabet(uni)
		c.Count("set_alphabet_size", len(alpha))
		maxLen := 3
		vf.Parallel(len(alpha)*len(alpha), workers, func(i int) {
			l := newLocal()
			a, b := alpha[i/len(alpha)], alpha[i%len(alpha)]
			if i%len(alpha) == 0 {
				l.setOne(uni, []sop{a})
			}
			// the one-step prefix is evaluated by the task with i%len==0; a failing prefix is not extended
			if st, _, _, _ := runSetSeq(uni, []sop{a}, 0, nil, nil); st == 1 {
				if seq := []sop{a, b}; l.setOne(uni, seq) && maxLen > 2 {
					l.setDFS(uni, alpha, seq, maxLen)
				}
			}
			l.merge(c)
		})
	}
	c.Extra("phase_s_seq_set_exhaustive", int(time.Since(startT).Seconds()))
	// ds.Set: random long histories over 6 elements
	nSet := c.Pick(6400, 128000)
	vf.Parallel(64, workers, func(i int) {
		l := newLocal()
		rng := c.Rand(fmt.Sprintf("set-random/%d", i))
		for k := 0; k < nSet/64; k++ {
			l.setRandom(rng, 6, 40)
		}
		l.counts["set_random_histories"] += nSet / 64
		l.merge(c)
	})
	c.Extra("phase_s_seq_set_random", int(time.Since(startT).Seconds()))
	// OrderedMap: exhaustive over 3 keys, random over 6
	{
		const uni = 3
		alpha := mapAlphabet(uni)
		maxLen := c.Pick(6, 7)
		vf.Parallel(len(alpha)*len(alpha), workers, func(i int) {
			l := newLocal()
			a, b := alpha[i/len(alpha)], alpha[i%len(alpha)]
			if i%len(alpha) == 0 {
				l.mapOne(uni, []mop{a})
			}
			if st, _, _, _ := runMapSeq(uni, []mop{a}, 0); st == 1 {
				if seq := []mop{a, b}; l.mapOne(uni, seq) {
					l.mapDFS(uni, alpha, seq, maxLen)
				}
			}
			l.merge(c)
		})
		c.Count("map_exhaustive_max_length", maxLen)
	}
	c.Extra("phase_s_seq_map_exhaustive", int(time.Since(startT).Seconds()))
	nMap := c.Pick(6000, 60000)
	vf.Parallel(64, workers, func(i int) {
		l := newLocal()
		rng := c.Rand(fmt.Sprintf("map-random/%d", i))
		for k := 0; k < nMap/64; k++ {
			l.mapRandom(rng, 6, 60)
		}
		l.counts["map_random_histories"] += nMap / 64
		l.merge(c)
	})
	c.Extra("phase_s_seq_map_random", int(time.Since(startT).Seconds()))
	// serix round trips with composite key/value/element types
	vf.Parallel(16, workers, func(i int) {
		l := newLocal()
		l.codecCases(c.Rand(fmt.Sprintf("codec/%d", i)), c.Pick(12, 120))
		l.merge(c)
	})
	// serix faults at one entry: unencodable / undecodable element at every position, truncated input
	vf.Parallel(8, workers, func(i int) {
		l := newLocal()
		l.codecFaultCases(c.Rand(fmt.Sprintf("codecfault/%d", i)), c.Pick(2, 20))
		l.merge(c)
	})
	// consumers that mutate the structure they iterate
	{
		l := newLocal()
		l.iterMutCases()
		l.merge(c)
	}
	// held results, scribbling, caller-owned arguments
	vf.Parallel(16, workers, func(i int) {
		l := newLocal()
		l.heldCases(c.Rand(fmt.Sprintf("held/%d", i)), c.Pick(250, 5000))
		l.merge(c)
	})
	// SetArithmetic
	nAr := c.Pick(20000, 300000)
	vf.Parallel(64, workers, func(i int) {
		l := newLocal()
		rng := c.Rand(fmt.Sprintf("arith/%d", i))
		for k := 0; k < nAr/64; k++ {
			l.arithRandom(rng, 6, 12)
		}
		l.merge(c)
	})
}

// ------------------------------------------------------------------ concurrent part

type deadlockCase struct {
	Kind    string   `json:"kind"` // "deadlock"
	Methods []string `json:"methods"`
	Index   int      `json:"combo_index"`
	Iters   int      `json:"iterations"`
	Build   string   `json:"build"`
	Blocked string   `json:"blocked"`
	Dump    string   `json:"goroutine_dump"`
}

func trimDump(s string) string {
	if i := strings.Index(s, "goroutine "); i >= 0 {
		s = s[i:]
	}
	if len(s) > 12000 {
		s = s[:12000]
	}
	return s
}

func reportDeadlock(c *vf.Ctx, idx, iters int, build, dump string) {
	all := combos()
	fp, desc := deadlockFingerprint(gdump.Parse(dump))
	names := []string{"?"}
	if idx >= 0 && idx < len(all) {
		names = strings.Split(comboName(all[idx]), "||")
	}
	c.Count("deadlocked_combinations", 1)
	if build == "plain" && idx >= 0 {
		c.Count("combinations_decided", 1)
	}
	c.Violation(fp, fmt.Sprintf("ds.Set methods %s looped concurrently on one set never return (%s build: every goroutine is parked for ever); blocked: %s", strings.Join(names, " || "), build, desc),
		deadlockCase{Kind: "deadlock", Methods: names, Index: idx, Iters: iters, Build: build, Blocked: desc, Dump: trimDump(dump)})
}

// combosPart runs every method pair/triple in plain-build children; returns the
// indices of the combinations that dead-locked.
func combosPart(c *vf.Ctx) []int {
	all := combos()
	iters := c.Pick(1000, 8000)
	const W = 8
	var mu sync.Mutex
	var dead []int
	vf.Parallel(W, W, func(w int) {
		lo, hi := w*len(all)/W, (w+1)*len(all)/W
		for lo < hi {
			res := c.RunChild(vf.ChildOpts{Name: "combos", Args: []string{strconv.Itoa(lo), strconv.Itoa(hi), strconv.Itoa(iters)}, Timeout: 10 * time.Minute})
			idx, _ := strconv.Atoi(res.LastMark)
			switch {
			case res.Deadlock:
				reportDeadlock(c, idx, iters, "plain", res.Stderr)
				mu.Lock()
				dead = append(dead, idx)
				mu.Unlock()
				lo = idx + 1
				continue
			case res.TimedOut:
				c.Inconclusive("combination child hit the watchdog at " + comboName(all[idx]))
			case res.ExitCode != 0:
				c.Inconclusive(fmt.Sprintf("combination child died at %s: exit %d %s", comboName(all[idx]), res.ExitCode, res.Fatal))
			}
			break
		}
	})
	return dead
}

// reportStructuralDeadlock: a dead-lock outside the method combinations (sequential / aliasing / crossed calls).
func reportStructuralDeadlock(c *vf.Ctx, where, dump string, rec any) {
	fp, desc := deadlockFingerprint(gdump.Parse(dump))
	c.Count("deadlocks_outside_combinations", 1)
	c.Violation(fp, fmt.Sprintf("%s never returns (plain build, Go runtime: all goroutines are asleep); blocked: %s", where, desc), rec)
}

// aliasPart: the aliasing family, one case after the other in a plain-build child; a self-dead-lock kills the child,
// is attributed to the marked case and the child is restarted behind it.
func aliasPart(c *vf.Ctx) {
	cases := aliasCases()
	for lo := 0; lo < len(cases); {
		res := c.RunChild(vf.ChildOpts{Name: "alias", Args: []string{strconv.Itoa(lo)}, Timeout: 5 * time.Minute})
		idx, _ := strconv.Atoi(res.LastMark)
		switch {
		case res.Deadlock:
			ac := cases[idx]
			ac.What = "dead-lock"
			c.Count("alias_cases_decided", 1)
			reportStructuralDeadlock(c, ac.String(), res.Stderr, ac)
			lo = idx + 1
			continue
		case res.TimedOut:
			c.Inconclusive("alias child hit the watchdog at " + res.LastMark)
		case res.ExitCode != 0:
			c.Inconclusive(fmt.Sprintf("alias child died: exit %d %s", res.ExitCode, res.Fatal))
		}
		break
	}
	// crossed concurrent calls a.M(b) || b.N(a)
	ps := crossPairs()
	iters := c.Pick(400, 4000)
	for lo := 0; lo < len(ps); {
		res := c.RunChild(vf.ChildOpts{Name: "cross", Args: []string{strconv.Itoa(lo), strconv.Itoa(iters)}, Timeout: 10 * time.Minute})
		idx, _ := strconv.Atoi(res.LastMark)
		switch {
		case res.Deadlock:
			name := fmt.Sprintf("a.%s(b) || b.%s(a)", crossMethods[ps[idx][0]], crossMethods[ps[idx][1]])
			c.Count("crossed_pairs_decided", 1)
			reportStructuralDeadlock(c, name+" looped concurrently", res.Stderr, roundCase{Kind: "cross", Pattern: name, Seed: int64(idx), What: "dead-lock", Detail: trimDump(res.Stderr)})
			lo = idx + 1
			continue
		case res.TimedOut:
			c.Inconclusive("cross child hit the watchdog at pair " + res.LastMark)
		case res.ExitCode != 0:
			c.Inconclusive(fmt.Sprintf("cross child died: exit %d %s", res.ExitCode, res.Fatal))
		}
		break
	}
}

// seqChildPart runs the sequential histories in a plain-build, timer-free child: they contain self-aliasing calls, and
// a call that blocks for ever must end as a dead-lock verdict of the Go runtime, not hang the parent.
func seqChildPart(c *vf.Ctx) {
	res := c.RunChild(vf.ChildOpts{Name: "seq", Timeout: 14 * time.Minute})
	switch {
	case res.Deadlock:
		reportStructuralDeadlock(c, "a sequential ds.Set / OrderedMap history (one goroutine per history)", res.Stderr, roundCase{Kind: "seq-deadlock", Pattern: "sequential histories", What: "dead-lock", Detail: trimDump(res.Stderr)})
	case res.TimedOut:
		c.Inconclusive("sequential child hit the watchdog")
	case res.ExitCode != 0:
		c.Inconclusive(fmt.Sprintf("sequential child died: exit %d %s", res.ExitCode, res.Fatal))
	}
}

func linzPart(c *vf.Ctx) {
	const W = 8
	n := c.Pick(1500, 15000) // histories of each kind per child
	vf.Parallel(W, W, func(w int) {
		res := c.RunChild(vf.ChildOpts{Name: "linz", Args: []string{strconv.Itoa(w), strconv.Itoa(n)}, Timeout: 12 * time.Minute})
		switch {
		case res.Deadlock:
			reportDeadlock(c, -1, 0, "plain", res.Stderr)
		case res.TimedOut:
			c.Inconclusive("linearizability child hit the watchdog")
		case res.ExitCode != 0 && strings.HasPrefix(res.Fatal, "panic:") && strings.Contains(res.Stderr, "github.com/iotaledger/hive.go/"):
			c.Violation("concurrent-panic:child-died", "a hive.go method panicked under concurrent use and killed the child: "+res.Fatal, roundCase{Kind: "round", Pattern: "linz child", What: res.Fatal, Detail: trimDump(res.Stderr)})
		case res.ExitCode != 0:
			c.Inconclusive(fmt.Sprintf("linearizability child died: exit %d %s", res.ExitCode, res.Fatal))
		}
	})
}

type raceCase struct {
	Kind   string `json:"kind"` // "race"
	A      string `json:"a"`
	B      string `json:"b"`
	Report string `json:"report"`
}

func classifyAndReport(c *vf.Ctx, races []vf.RaceReport) {
	seen := map[string]bool{}
	for _, r := range races {
		c.Count("race_reports", 1)
		a, b, inner, constrained := classifyRace(r)
		key := a + " <-> " + b
		if seen[key+inner] {
			continue
		}
		seen[key+inner] = true
		if constrained {
			c.Count("race_reports_inside_constrained_operations", 1)
			txt := r.Text
			if len(txt) > 6000 {
				txt = txt[:6000]
			}
			c.Violation("race:"+key, fmt.Sprintf("data race between %s and %s (both are operations the statement constrains: single-element or Apply/Compute/Replace); innermost functions %s", a, b, inner), raceCase{Kind: "race", A: a, B: b, Report: txt})
		} else {
			c.Count("race_reports_outside_statement", 1)
			c.Note(fmt.Sprintf("race outside the statement (not both stacks in single-element/atomic operations): %s <-> %s [%s]", a, b, inner))
		}
	}
}

func racePart(c *vf.Ctx, dead []int) {
	skip := map[int]bool{}
	for _, d := range dead {
		skip[d] = true
	}
	iters := c.Pick(100, 600)
	for attempt := 0; attempt < 60; attempt++ {
		var sk []string
		for d := range skip {
			sk = append(sk, strconv.Itoa(d))
		}
		res := c.RunChild(vf.ChildOpts{Name: "race", Race: true, Args: []string{strconv.Itoa(iters), strings.Join(sk, ",")}, Timeout: 14 * time.Minute})
		classifyAndReport(c, res.Races)
		if res.ExitCode == 7 { // the snapshot monitor found every goroutine parked
			idx, _ := strconv.Atoi(strings.TrimPrefix(res.LastMark, "combo "))
			dump := ""
			for _, r := range res.Records {
				if r.Kind == "deadlock" {
					_ = json.Unmarshal(r.V, &dump)
				}
			}
			if !strings.HasPrefix(res.LastMark, "combo ") {
				idx = -1
			}
			reportDeadlock(c, idx, iters, "race", dump)
			if idx < 0 {
				return
			}
			skip[idx] = true
			continue
		}
		if res.TimedOut {
			c.Inconclusive("race child hit the watchdog at " + res.LastMark)
		} else if res.ExitCode != 0 && strings.HasPrefix(res.Fatal, "panic:") && strings.Contains(res.Stderr, "github.com/iotaledger/hive.go/") {
			c.Violation("concurrent-panic:child-died", "a hive.go method panicked under concurrent use and killed the race child: "+res.Fatal, roundCase{Kind: "round", Pattern: "race child", What: res.Fatal, Detail: trimDump(res.Stderr)})
		} else if res.ExitCode != 0 && res.ExitCode != 66 {
			c.Inconclusive(fmt.Sprintf("race child died: exit %d %s", res.ExitCode, res.Fatal))
		} else {
			c.Count("race_child_completed", 1)
		}
		return
	}
}

func parseSkip(s string) map[int]bool {
	m := map[int]bool{}
	for _, p := range strings.Split(s, ",") {
		if p != "" {
			i, _ := strconv.Atoi(p)
			m[i] = true
		}
	}
	return m
}

func child(c *vf.Ctx) {
	switch c.Child {
	case "seq":
		seqPart(c)
	case "alias":
		lo, _ := strconv.Atoi(c.ChildArgs[0])
		cases := aliasCases()
		for idx := lo; idx < len(cases); idx++ {
			c.Mark(strconv.Itoa(idx))
			fp, what := runAliasCase(cases[idx])
			c.Count("evaluations", 1)
			c.Count("alias_cases_decided", 1)
			c.Count("alias:"+cases[idx].Method+"("+cases[idx].Arg+")", 1)
			c.Distinct("nontrivial", "alias:"+cases[idx].String())
			if fp != "" {
				cases[idx].What = what
				c.Violation(fp, what, cases[idx])
			}
			c.FlushStats()
		}
	case "cross":
		lo, _ := strconv.Atoi(c.ChildArgs[0])
		iters, _ := strconv.Atoi(c.ChildArgs[1])
		crossChild(c, lo, iters, "")
	case "combos":
		lo, _ := strconv.Atoi(c.ChildArgs[0])
		hi, _ := strconv.Atoi(c.ChildArgs[1])
		iters, _ := strconv.Atoi(c.ChildArgs[2])
		all := combos()
		for idx := lo; idx < hi; idx++ {
			c.Mark(strconv.Itoa(idx))
			calls, ov, panics, ik, iw := runCombo(all[idx], iters, c.Seed+int64(idx))
			reportInvariant(c, "set", "methods "+comboName(all[idx])+" looped concurrently", c.Seed+int64(idx), ik, iw)
			c.Count("quiescent_consistency_checks", 1)
			c.Count("evaluations", 1)
			c.Count("combinations_completed", 1)
			c.Count("combinations_decided", 1)
			c.Count(fmt.Sprintf("combinations_of_%d_completed", len(all[idx])), 1)
			c.Count("combination_calls", int(calls))
			c.Count("overlapping_calls", int(ov))
			c.Distinct("nontrivial", "combo:"+comboName(all[idx]))
			for _, p := range panics {
				c.Violation("concurrent-panic:"+strings.SplitN(p, ":", 2)[0], fmt.Sprintf("methods %s looped concurrently: %s", comboName(all[idx]), p),
					deadlockCase{Kind: "panic", Methods: strings.Split(comboName(all[idx]), "||"), Index: idx, Iters: iters, Build: "plain", Blocked: p})
			}
			c.FlushStats() // a dead-lock kills the process: nothing may be pending
		}
	case "linz":
		idx, _ := strconv.Atoi(c.ChildArgs[0])
		n, _ := strconv.Atoi(c.ChildArgs[1])
		linzChild(c, idx, n)
		raceRounds(c, idx, n*2)
	case "race":
		iters, _ := strconv.Atoi(c.ChildArgs[0])
		skip := map[int]bool{}
		if len(c.ChildArgs) > 1 {
			skip = parseSkip(c.ChildArgs[1])
		}
		startMonitor(c)
		all := combos()
		nPairs := len(methods) * (len(methods) + 1) / 2
		for idx := 0; idx < len(all); idx++ {
			// all pairs; of the triples every 7th (quick) resp. every 2nd
			if idx >= nPairs && idx%c.Pick(7, 2) != 0 {
				continue
			}
			if skip[idx] {
				c.Count("race_build_combinations_skipped_known_deadlock", 1)
				continue
			}
			c.Mark("combo " + strconv.Itoa(idx))
			_, _, _, ik, iw := runCombo(all[idx], iters, c.Seed+int64(idx))
			reportInvariant(c, "set", "methods "+comboName(all[idx])+" looped concurrently (race build)", c.Seed+int64(idx), ik, iw)
			c.Count("race_build_combinations_completed", 1)
			if idx%16 == 15 {
				c.FlushStats()
			}
		}
		crossChild(c, 0, c.Pick(60, 400), "cross ")
		c.Mark("linz")
		linzChild(c, 100, c.Pick(300, 3000))
		c.Mark("mapstress")
		ik, iw := mapStress(c.Pick(3000, 30000), c.Seed)
		drainPanics(c, "OrderedMap stress", c.Seed)
		reportInvariant(c, "orderedmap", "iteration/whole-map operations racing with single-key writes", c.Seed, ik, iw)
		c.Mark("racing rounds")
		raceRounds(c, 100, c.Pick(400, 4000))
		c.Count("race_build_mapstress_runs", 1)
	case "reent":
		lo, _ := strconv.Atoi(c.ChildArgs[0])
		reentChild(c, lo)
	case "reent-one":
		var rc reentCase
		_ = json.Unmarshal([]byte(c.ChildArgs[0]), &rc)
		c.Mark("0")
		if fp, what := runReentCase(rc, nil); fp != "" {
			rc.What = what
			c.Violation(fp, what, rc)
		}
	case "held-only":
		l := newLocal()
		l.heldCases(c.Rand("held/0"), 4000)
		l.merge(c)
	case "reent-locked":
		i, _ := strconv.Atoi(c.ChildArgs[0])
		runLockedCall(reentLockedCalls[i])
	case "alias-one":
		idx, _ := strconv.Atoi(c.ChildArgs[0])
		c.Mark(strconv.Itoa(idx))
		ac := aliasCases()[idx]
		if fp, what := runAliasCase(ac); fp != "" {
			ac.What = what
			c.Violation(fp, what, ac)
		}
	case "replay-combo":
		idx, _ := strconv.Atoi(c.ChildArgs[0])
		iters, _ := strconv.Atoi(c.ChildArgs[1])
		c.Mark(strconv.Itoa(idx))
		for k := 0; k < 20; k++ {
			_, _, _, _, _ = runCombo(combos()[idx], iters, c.Seed+int64(idx)+int64(k)*7919)
		}
	}
}

// ------------------------------------------------------------------ replay

func replay(c *vf.Ctx) {
	var raw json.RawMessage
	if err := c.LoadReplay(&raw); err != nil {
		c.Inconclusive("cannot load replay: " + err.Error())
		return
	}
	var k struct {
		Kind string `json:"kind"`
	}
	_ = json.Unmarshal(raw, &k)
	c.Count("evaluations", 1)
	switch k.Kind {
	case "set":
		var r setCase
		_ = json.Unmarshal(raw, &r)
		if step, fp, what, _ := runSetSeq(r.Universe, r.Ops, 0, nil, nil); fp != "" {
			r.Step, r.What = step, what
			c.Violation("set:"+fp, "ds.Set history: "+what, r)
		}
	case "map":
		var r mapCase
		_ = json.Unmarshal(raw, &r)
		if step, fp, what, _ := runMapSeq(r.Universe, r.Ops, 0); fp != "" {
			r.Step, r.What = step, what
			c.Violation("orderedmap:"+fp, "OrderedMap history: "+what, r)
		}
	case "codec":
		var r codecCase
		_ = json.Unmarshal(raw, &r)
		if fp, what := runCodecCase(r); fp != "" {
			r.What = what
			c.Violation(fp, what, r)
		}
	case "codecfault":
		var r faultCase
		_ = json.Unmarshal(raw, &r)
		if fp, what, _, premise := runFaultCase(r); fp != "" {
			r.What = what
			c.Violation(fp, what, r)
		} else if !premise {
			c.Inconclusive("codecfault replay: the element that should be faulty is not (or a healthy one is) under serix alone")
		}
	case "reent":
		reentReplay(c, raw)
	case "held":
		var r heldCase
		_ = json.Unmarshal(raw, &r)
		if fp, what, log := runHeldCase(r, nil); fp != "" {
			r.What, r.Log = what, log
			c.Violation(fp, what, r)
		}
	case "itermut":
		var r iterCase
		_ = json.Unmarshal(raw, &r)
		if fp, what := runIterCase(r); fp != "" {
			r.What = what
			c.Violation(fp, what, r)
		}
	case "arith":
		var r arithCase
		_ = json.Unmarshal(raw, &r)
		if _, fp, what := runArith(r.Ops); fp != "" {
			c.Violation(fp, what, r)
		}
	case "hist-atomic", "hist-set", "hist-map", "hist-diff", "hist-window":
		// a recorded concurrent execution cannot be forced to repeat; the recorded history is re-judged
		var r histCase
		_ = json.Unmarshal(raw, &r)
		partial := false
		for _, o := range r.History {
			if k.Kind == "hist-atomic" && o.Op == "Compute" && halfPair(o.Seen) {
				partial = true
			}
		}
		if partial {
			c.Violation("atomicity:compute-factory-saw-partial-update", "recorded history: a Compute factory saw half of a pair", r)
		}
		if !checkHistory(k.Kind, r.History) {
			c.Violation(histFP[k.Kind], "recorded history has no legal sequential order", r)
		}
	case "deadlock", "panic":
		var r deadlockCase
		_ = json.Unmarshal(raw, &r)
		if r.Index < 0 {
			c.Inconclusive("dead-lock outside the method combinations: re-run the check")
			return
		}
		res := c.RunChild(vf.ChildOpts{Name: "replay-combo", Args: []string{strconv.Itoa(r.Index), strconv.Itoa(max(r.Iters, 200) * 2)}, Timeout: 5 * time.Minute})
		if res.Deadlock {
			reportDeadlock(c, r.Index, r.Iters, "plain", res.Stderr)
		} else if res.TimedOut || res.ExitCode != 0 {
			c.Inconclusive("replay child: " + res.Fatal)
		}
	case "alias":
		var r aliasCase
		_ = json.Unmarshal(raw, &r)
		idx := -1
		for i, ac := range aliasCases() {
			if ac.Method == r.Method && ac.Arg == r.Arg && fmt.Sprint(ac.Contents) == fmt.Sprint(r.Contents) {
				idx = i
			}
		}
		if idx < 0 {
			c.Inconclusive("unknown alias case")
			return
		}
		res := c.RunChild(vf.ChildOpts{Name: "alias-one", Args: []string{strconv.Itoa(idx)}, Timeout: 2 * time.Minute})
		if res.Deadlock {
			reportStructuralDeadlock(c, r.String(), res.Stderr, r)
		}
	case "cross", "seq-deadlock":
		aliasPart(c)
	case "round":
		// a concurrent round cannot be forced to repeat: the racing rounds and histories are run again
		res := c.RunChild(vf.ChildOpts{Name: "linz", Args: []string{"0", "1500"}, Timeout: 10 * time.Minute})
		if res.TimedOut || (res.ExitCode != 0 && !strings.HasPrefix(res.Fatal, "panic:")) {
			c.Inconclusive("replay child: " + res.Fatal)
		}
	case "race":
		var r raceCase
		_ = json.Unmarshal(raw, &r)
		res := c.RunChild(vf.ChildOpts{Name: "race", Race: true, Args: []string{"40", ""}, Timeout: 14 * time.Minute})
		for _, rr := range res.Races {
			if a, b, _, constrained := classifyRace(rr); constrained && a == r.A && b == r.B {
				c.Violation("race:"+a+" <-> "+b, "data race reproduced", r)
				return
			}
		}
	default:
		c.Inconclusive("unknown replay kind " + k.Kind)
	}
}

func run(c *vf.Ctx) {
	if c.Replay != "" {
		replay(c)
		return
	}
	c.SetRule("sequential: one evaluation = one history whose last step is compared with the reference model (exhaustive part: all histories up to length 3 over the ds.Set alphabet on 3 elements – Add/Delete/AddAll/DeleteAll/Replace with every subset and the set itself, Apply with every disjoint pair of subsets, Compute with every disjoint pair of at most one element each, Clear, Clone, serix round trip – and up to length 6 (quick) / 7 (thorough) over the OrderedMap alphabet on 3 keys) or one checked step of a seeded long history (6 elements; ds.Set 40 steps with all read-only methods against every subset after each step, OrderedMap 60 steps, SetArithmetic 12 calls with thresholds 1-3) or one ForEach/ForEachReverse/Range walk whose consumer mutates the structure (all combinations of up to 5 keys, keys deleted beforehand, position and action: delete current/next/later/last/earlier/first key, set new/existing key, clear) or one serix Encode/Decode round trip of a SerializableOrderedMap / ds.Set with composite key, value or element types (slices, maps, pointers to structs, nested structs, struct and array keys; 0-6 entries; empty and pre-filled destination) compared deeply with order, or one iteration (ForEach/ForEachReverse/Range/Filter/Intersect/Iterator loop, Compute factory, accessors of caller-implemented mutations) whose callback calls back into the same object with a script of 1-3 operations during 1 or 3 invocations and then returns, stops or panics, followed by further use (all scripts of length <= 2 over 19 operations x up to 4 keys x every position, plus seeded longer ones), or one seeded 40-step history in which every returned slice/set/mutation/iterator/byte slice/clone is kept with a copy, re-compared after every later step and scribbled, and every argument set stays in use by the caller; " +
		"concurrent: one evaluation = one completed method combination (all 190 pairs and 1330 triples of 19 Set methods, looped on one set) or one recorded history judged by porcupine (Apply/Compute/Replace on a whole-set model; Add/Delete/Has and Set/Get/Has/Delete partitioned per key; the reported diffs of Add/Delete/AddAll/DeleteAll/Apply/Compute/Replace decomposed per element), one aliasing call (every set-taking method with the receiver itself, its ReadOnly view or a clone as argument) or one crossed pair a.M(b) || b.N(a); " +
		"distinct_nontrivial counts distinct (operation-class sequence, resulting order) signatures of sequential histories plus distinct completed method combinations")
	aliasPart(c)
	reentDone := make(chan struct{})
	go func() { // single-threaded children: run next to the sequential child
		defer close(reentDone)
		reentPart(c)
		c.Extra("phase_s_reentrancy", int(time.Since(startT).Seconds()))
	}()
	seqChildPart(c)
	<-reentDone
	c.Extra("phase_s_sequential", int(time.Since(startT).Seconds()))
	dead := combosPart(c)
	c.Extra("phase_s_combinations", int(time.Since(startT).Seconds()))
	linzPart(c)
	c.Extra("phase_s_linearizability", int(time.Since(startT).Seconds()))
	racePart(c, dead)
	c.Extra("phase_s_race", int(time.Since(startT).Seconds()))
	c.SetExhaustive(false)
	c.Extra("exhaustive_note", "short sequential histories are enumerated completely (see rule); interleavings are sampled by free-running stress with yield jitter, not enumerated")
	c.Require("evaluations", c.Pick(800000, 8000000))
	c.Require("set:Replace", 1000)
	c.Require("set:Replace(self)", 100)
	c.Require("set:DeleteAll(self)", 100)
	c.Require("set:AddAll(self)", 100)
	c.Require("set:Apply", 1000)
	c.Require("set:Compute", 1000)
	c.Require("set:CodecSwap", 100)
	c.Require("map:CodecSwap", 100)
	c.Require("arith:calls", 10000)
	c.Require("codec:two-or-more-entries", 5000)
	c.Require("codec:non-empty-destination", 3000)
	for mode, shapes := range faultShapes {
		for _, sh := range shapes {
			c.Require("codecfault:"+mode+":"+sh, 100)
		}
	}
	c.Require("codecfault:encode-errors-returned", 3000)
	c.Require("codecfault:decode-errors-returned", 1000)
	c.Require("codecfault:truncated-prefixes-rejected", 20000)
	c.Require("itermut:consumer-delete-next", 500)
	c.Require("itermut:consumer-clear", 500)
	c.Require("combinations_decided", len(combos()))
	c.Require("overlapping_calls", 10000)
	c.Require("histories:hist-atomic", 1000)
	c.Require("histories:hist-set", 1000)
	c.Require("histories:hist-map", 1000)
	c.Require("histories:hist-diff", 1000)
	c.Require("histories:hist-window", 1000)
	c.Require("window:rounds-apply-adds-and-deletes-probe", 300)
	c.Require("window:rounds-replace-keeps-probe", 150)
	c.Require("window:probes-overlapping-the-atomic-call", 2000*min(runtime.NumCPU(), 4)/4)
	c.Require("reent:cases-decided", len(reentCases(c.Seed, c.Quick())))
	for _, t := range reentTargets {
		c.Require("reent:"+t, 100)
	}
	c.Require("reent-call:Delete", 10000)
	c.Require("reent-call:Set", 3000)
	c.Require("reent-call:Add", 10000)
	c.Require("reent-call:Clear", 2000)
	c.Require("reent-call:Apply", 2000)
	c.Require("reent-call:Compute", 2000)
	c.Require("reent-call:Replace", 2000)
	c.Require("reent-call:nested-iteration", 5000)
	c.Require("reent:consumer-panics", 2000)
	c.Require("reent:panics-recovered-by-the-caller", 2000)
	c.Require("reent:consumer-stops", 1000)
	c.Require("reent:further-use-batteries", 20000)
	c.Require("held:histories", 3000)
	c.Require("held:rechecked", 200000)
	c.Require("held:scribbled", 30000)
	c.Require("held:arguments-mutated-after-the-call", 5000)
	c.Require("held:caller-buffers-overwritten-after-the-call", 5000)
	c.Require("held:fully-effective-requests", 1000)
	c.Require("alias_cases_decided", len(aliasCases()))
	c.Require("crossed_pairs_decided", len(crossPairs()))
	c.Require("overlapping_op_pairs", 10000)
	c.Require("compute_factory_views", 1000)
	c.Require("racing_rounds:delete-reinsert", 10000)
	c.Require("racing_rounds:clear-set", 10000)
	c.Require("quiescent_consistency_checks", 20000)
	c.Assume("porcupine v1.3.0 decides linearizability of the recorded histories correctly")
	c.Assume("the logical clock (one atomic counter read before the call and after the reply) only removes ordering constraints")
	c.Assume("order of the elements after Replace and inside returned sets is not demanded; Any() may return any member")
}

var startT = time.Now()

func main() { vf.Main("C11", "exploration", run, child) }
