package main

// Sequential part of C11: reference models for orderedmap.OrderedMap, ds.Set,
// ds.SetArithmetic and the serix round trip.

import (
	"errors"
	"fmt"
	"math/rand"
	"sort"
	"strconv"
	"strings"

	"github.com/iotaledger/hive.go/ds"
	"github.com/iotaledger/hive.go/ds/orderedmap"
	"github.com/iotaledger/hive.go/ds/serializableorderedmap"
	"github.com/iotaledger/hive.go/serializer/v2/serix"
)

// ------------------------------------------------------------------ helpers

func try(f func()) (p any) {
	defer func() { p = recover() }()
	f()
	return nil
}

func eqSlice(a, b []uint32) bool {
	if len(a) != len(b) {
		return false
	}
	for i := range a {
		if a[i] != b[i] {
			return false
		}
	}
	return true
}

func sorted(a []uint32) []uint32 {
	b := append([]uint32{}, a...)
	if len(b) > 16 {
		sort.Slice(b, func(i, j int) bool { return b[i] < b[j] })
		return b
	}
	for i := 1; i < len(b); i++ { // tiny slices: insertion sort
		for j := i; j > 0 && b[j] < b[j-1]; j-- {
			b[j], b[j-1] = b[j-1], b[j]
		}
	}
	return b
}

func eqAsSets(a, b []uint32) bool { return eqSlice(sorted(a), sorted(b)) }

func contains(a []uint32, e uint32) bool {
	for _, x := range a {
		if x == e {
			return true
		}
	}
	return false
}

func without(a []uint32, e uint32) []uint32 {
	out := make([]uint32, 0, len(a))
	for _, x := range a {
		if x != e {
			out = append(out, x)
		}
	}
	return out
}

type viol struct {
	fp, what string
	rec      any
}

// local statistics of one worker.
type local struct {
	evals    int
	counts   map[string]int
	distinct map[uint64]struct{}
	viols    []viol
	samples  []any
	// see setWorld.algebraDone
	algebraDone map[string]struct{}
	cache       setCache
}

func newLocal() *local {
	return &local{counts: map[string]int{}, distinct: map[uint64]struct{}{}, algebraDone: map[string]struct{}{}, cache: setCache{}}
}

func (l *local) viol(fp, what string, rec any) {
	if len(l.viols) < 200 {
		l.viols = append(l.viols, viol{fp, what, rec})
	}
}

func mixHash(h uint64, s string) uint64 {
	if h == 0 {
		h = 14695981039346656037
	}
	for i := 0; i < len(s); i++ {
		h = (h ^ uint64(s[i])) * 1099511628211
	}
	return (h ^ 0xff) * 1099511628211
}

// ------------------------------------------------------------------ ds.Set

// sop is one operation of a sequential Set history.
type sop struct {
	K    string   `json:"k"`              // Add Delete AddAll DeleteAll Apply Compute Replace Clear CloneSwap CodecSwap
	E    uint32   `json:"e,omitempty"`    // element of Add/Delete
	A    []uint32 `json:"a,omitempty"`    // argument set (iteration order) / added elements
	D    []uint32 `json:"d,omitempty"`    // deleted elements of Apply/Compute
	Self string   `json:"self,omitempty"` // "", "set" (the set itself is the argument) or "readonly" (its ReadOnly view)
	// DSelf: the deleted elements of Apply/Compute ARE the receiver (WithDeletedElements(set)); D is ignored
	DSelf bool `json:"dself,omitempty"`
}

// overlaps: Apply/Compute whose added and deleted elements share an element.
func (o sop) overlaps() bool {
	for _, e := range o.A {
		if contains(o.D, e) {
			return true
		}
	}
	return false
}

func (o sop) String() string {
	f := func(a []uint32) string {
		ss := make([]string, len(a))
		for i, x := range a {
			ss[i] = strconv.Itoa(int(x))
		}
		return "{" + strings.Join(ss, " ") + "}"
	}
	arg := f(o.A)
	if o.Self != "" {
		arg = "self:" + o.Self
	}
	switch o.K {
	case "Add", "Delete":
		return fmt.Sprintf("%s(%d)", o.K, o.E)
	case "AddAll", "DeleteAll", "Replace":
		return fmt.Sprintf("%s(%s)", o.K, arg)
	case "Apply", "Compute":
		if o.DSelf {
			return fmt.Sprintf("%s(+%s -self)", o.K, f(o.A))
		}
		return fmt.Sprintf("%s(+%s -%s)", o.K, f(o.A), f(o.D))
	}
	return o.K
}

// class of an operation for coverage / fingerprints (no concrete values).
func (o sop) class() string {
	switch o.K {
	case "AddAll", "DeleteAll", "Replace":
		if o.Self != "" {
			return o.K + "(self)"
		}
		if len(o.A) == 0 {
			return o.K + "(empty)"
		}
	case "Apply", "Compute":
		if o.DSelf {
			return o.K + "(deleted=self)"
		}
		if len(o.A) == 0 && len(o.D) == 0 {
			return o.K + "(empty)"
		}
		if o.overlaps() {
			return o.K + "(overlap)"
		}
	}
	return o.K
}

type setCase struct {
	Kind     string `json:"kind"` // "set"
	Universe int    `json:"universe"`
	Ops      []sop  `json:"ops"`
	Step     int    `json:"step"`
	What     string `json:"what,omitempty"`
}

// mutations is a plain caller-side SetMutations value (the interface is public; Apply only reads it).
type mutations struct{ a, d ds.Set[uint32] }

func (m *mutations) WithAddedElements(e ds.Set[uint32]) ds.SetMutations[uint32]   { m.a = e; return m }
func (m *mutations) WithDeletedElements(e ds.Set[uint32]) ds.SetMutations[uint32] { m.d = e; return m }
func (m *mutations) AddedElements() ds.Set[uint32]                                { return m.a }
func (m *mutations) DeletedElements() ds.Set[uint32]                              { return m.d }
func (m *mutations) IsEmpty() bool                                                { return m.a.IsEmpty() && m.d.IsEmpty() }

var setAPI = serix.NewAPI()

// setCache keeps argument sets (never written by the operations under test) per worker, because
// building a ds.Set is by far the most expensive part of a step. A cached set whose size changed was
// mutated by the operation it was passed to – that is reported.
type setCache map[uint64]ds.Set[uint32]

func keyOf(x []uint32) (k uint64) {
	for i, e := range x {
		k |= uint64(e+1) << (4 * uint(i))
	}
	return k | uint64(len(x))<<60
}

func orderKey(x []uint32) string {
	b := make([]byte, len(x))
	for i, e := range x {
		b[i] = byte('0' + e)
	}
	return string(b)
}

func (sc setCache) get(x []uint32) ds.Set[uint32] {
	if sc == nil || len(x) > 12 {
		return ds.NewSet(x...)
	}
	k := keyOf(x)
	if s, ok := sc[k]; ok && s.Size() == len(x) {
		return s
	}
	s := ds.NewSet(x...)
	sc[k] = s
	return s
}

type setWorld struct {
	cache setCache
	s     ds.Set[uint32]
	order []uint32 // model: live elements in first-insertion order
	uni   int
	qsalt int // rotates the subsets used by the algebra queries
	// algebraDone (exhaustive mode) remembers for which (last operation class, resulting order) the algebra
	// methods, which only depend on the current contents, were already compared by this worker
	algebraDone map[string]struct{}
	lastClass   string
}

func newSetWorld(uni int) *setWorld { return &setWorld{s: ds.NewSet[uint32](), uni: uni} }

func (w *setWorld) modelHas(e uint32) bool { return contains(w.order, e) }

func (w *setWorld) modelAdd(e uint32) bool {
	if w.modelHas(e) {
		return false
	}
	w.order = append(w.order, e)
	return true
}

func (w *setWorld) modelDelete(e uint32) bool {
	if !w.modelHas(e) {
		return false
	}
	w.order = without(w.order, e)
	return true
}

// arg builds the argument set of an operation.
func (w *setWorld) arg(o sop) ds.ReadableSet[uint32] {
	switch o.Self {
	case "set":
		return w.s
	case "readonly":
		return w.s.ReadOnly()
	}
	return w.cache.get(o.A)
}

// apply runs o on the real set and the model; full==true additionally runs all queries.
// It returns (fingerprint suffix, description) of the first disagreement.
func (w *setWorld) apply(o sop, full bool) (string, string) {
	argElems := o.A
	if o.Self != "" {
		argElems = append([]uint32{}, w.order...)
	}
	var fp, what string
	bad := func(kind, f string, a ...any) {
		if fp == "" {
			fp, what = o.class()+"/"+kind, fmt.Sprintf(f, a...)
		}
	}
	before := append([]uint32{}, w.order...)
	p := try(func() {
		switch o.K {
		case "Add":
			got, want := w.s.Add(o.E), w.modelAdd(o.E)
			if got != want {
				bad("returned-bool", "Add(%d) on %v returned %v, element was present=%v", o.E, before, got, !want)
			}
		case "Delete":
			got, want := w.s.Delete(o.E), w.modelDelete(o.E)
			if got != want {
				bad("returned-bool", "Delete(%d) on %v returned %v, element was present=%v", o.E, before, got, want)
			}
		case "AddAll":
			var want []uint32
			ret := w.s.AddAll(w.arg(o))
			for _, e := range argElems {
				if w.modelAdd(e) {
					want = append(want, e)
				}
			}
			if got := ret.ToSlice(); !eqAsSets(got, want) {
				bad("returned-set", "AddAll(%v) on %v returned %v, elements actually added: %v", argElems, before, got, want)
			}
		case "DeleteAll":
			var want []uint32
			ret := w.s.DeleteAll(w.arg(o))
			for _, e := range argElems {
				if w.modelDelete(e) {
					want = append(want, e)
				}
			}
			if got := ret.ToSlice(); !eqAsSets(got, want) {
				bad("returned-set", "DeleteAll(%v) on %v returned %v, elements actually removed: %v", argElems, before, got, want)
			}
		case "Apply", "Compute":
			argA, argD := w.cache.get(o.A), w.cache.get(o.D)
			if o.DSelf {
				argD = w.s
			}
			var mut ds.SetMutations[uint32] = &mutations{a: argA, d: argD}
			if w.algebraDone == nil { // long random histories and replays use hive.go's own SetMutations value
				mut = ds.NewSetMutations[uint32]().WithAddedElements(argA).WithDeletedElements(argD)
			}
			var ret ds.SetMutations[uint32]
			defer func() {
				if argA.Size() != len(o.A) || (!o.DSelf && argD.Size() != len(o.D)) {
					bad("argument-mutated", "%s changed the mutation sets it was given", o.K)
				}
			}()
			if o.K == "Apply" {
				ret = w.s.Apply(mut)
			} else {
				var seen []uint32
				calls := 0
				ret = w.s.Compute(func(r ds.ReadableSet[uint32]) ds.SetMutations[uint32] {
					calls++
					seen = r.ToSlice()
					return mut
				})
				if calls != 1 {
					bad("factory-calls", "Compute called the factory %d times", calls)
				} else if !eqSlice(seen, before) {
					bad("factory-view", "Compute's factory saw %v, set was %v", seen, before)
				}
			}
			// The statement does not fix whether one Apply processes its additions or its deletions first (it only
			// matters when both name the same element), nor whether an argument that aliases the receiver is read
			// live or from a snapshot: every such sequential reading is accepted, the call has to agree with ONE of
			// them in contents, order and returned mutations. Disjoint mutations have a single reading.
			type reading struct {
				name               string
				after, added, gone []uint32
			}
			read := func(name string, d []uint32, delFirst bool) reading {
				r := reading{name: name, after: append([]uint32{}, before...)}
				add := func() {
					for _, e := range o.A {
						if !contains(r.after, e) {
							r.after, r.added = append(r.after, e), append(r.added, e)
						}
					}
				}
				del := func() {
					for _, e := range d {
						if contains(r.after, e) {
							r.after, r.gone = without(r.after, e), append(r.gone, e)
						}
					}
				}
				if delFirst {
					del()
					add()
				} else {
					add()
					del()
				}
				return r
			}
			var readings []reading
			if o.DSelf {
				live := append([]uint32{}, before...)
				for _, e := range o.A {
					if !contains(live, e) {
						live = append(live, e)
					}
				}
				readings = []reading{read("additions first, deleted set read live", live, false), read("additions first, deleted set read up front", before, false), read("deletions first", before, true)}
			} else {
				readings = []reading{read("additions first", o.D, false)}
				if o.overlaps() {
					readings = append(readings, read("deletions first", o.D, true))
				}
			}
			// "exactly the elements whose membership changed": the net change of the call is as good an answer as the
			// step-by-step one (an element added and deleted again by the same call)
			for _, r := range readings[:len(readings):len(readings)] {
				net := reading{name: r.name + ", net changes reported", after: r.after}
				for _, e := range r.added {
					if !contains(r.gone, e) {
						net.added = append(net.added, e)
					}
				}
				for _, e := range r.gone {
					if !contains(r.added, e) {
						net.gone = append(net.gone, e)
					}
				}
				if len(net.added) != len(r.added) {
					readings = append(readings, net)
				}
			}
			gotA, gotD := ret.AddedElements().ToSlice(), ret.DeletedElements().ToSlice()
			now := w.s.ToSlice()
			pick := -1
			for i, r := range readings { // diffs and contents explained by the same reading
				if pick < 0 && eqAsSets(gotA, r.added) && eqAsSets(gotD, r.gone) && eqSlice(now, r.after) {
					pick = i
				}
			}
			for i, r := range readings { // diffs explained: the state comparison below reports the contents
				if pick < 0 && eqAsSets(gotA, r.added) && eqAsSets(gotD, r.gone) {
					pick = i
				}
			}
			if pick < 0 {
				// no reading explains the returned mutations; follow the contents if some reading explains those
				for i, r := range readings {
					if eqSlice(now, r.after) {
						pick = i
						break
					}
				}
				r0 := readings[0]
				bad("returned-mutations", "%s on %v returned +%v -%v and left %v; membership changes under the reading '%s': +%v -%v leaving %v (%d readings tried)", o, before, gotA, gotD, now, r0.name, r0.added, r0.gone, r0.after, len(readings))
				if pick < 0 {
					pick = 0
				}
			}
			w.order = readings[pick].after
			if ret.IsEmpty() != (len(gotA) == 0 && len(gotD) == 0) {
				bad("returned-mutations-isempty", "returned mutations IsEmpty()=%v with +%v -%v", ret.IsEmpty(), gotA, gotD)
			}
		case "Replace":
			ret := w.s.Replace(w.arg(o))
			var want []uint32
			for _, e := range before {
				if !contains(argElems, e) {
					want = append(want, e)
				}
			}
			// contents must be exactly the argument's elements; the order after a Replace is not demanded
			// (retained elements could keep their position or follow the argument's order)
			now := w.s.ToSlice()
			w.order = now
			got := ret.ToSlice()
			if !eqAsSets(now, argElems) {
				bad("contents", "Replace(%v) on %v left the set as %v", argElems, before, now)
			} else if !eqAsSets(got, want) {
				kind := "returned-set"
				if eqAsSets(got, before) {
					kind = "returns-retained-elements" // the whole previous content instead of the removed elements
				}
				bad(kind, "Replace(%v) on %v returned %v, elements whose membership changed (removed): %v", argElems, before, got, want)
			}
		case "Clear":
			w.s.Clear()
			w.order = nil
		case "CloneSwap":
			old := w.s
			c := old.Clone()
			c.Add(1000)
			if old.Has(1000) {
				bad("clone-aliases", "adding to a Clone() changed the original")
			}
			c.Delete(1000)
			w.s = c
		case "CodecSwap":
			b, err := w.s.Encode(setAPI)
			if err != nil {
				bad("encode-error", "Encode failed: %v", err)
				return
			}
			d := ds.NewSet[uint32]()
			n, err := d.Decode(setAPI, b)
			if err != nil {
				bad("decode-error", "Decode of Encode output failed: %v", err)
				return
			}
			if n != len(b) {
				bad("decode-consumed", "Decode consumed %d of %d bytes", n, len(b))
			}
			w.s = d
		}
	})
	if p != nil {
		bad("panic", "%s on %v panicked: %v", o, before, p)
		return fp, what
	}
	if fp != "" {
		return fp, what
	}
	// the state itself is compared after every step
	if got := w.s.ToSlice(); !eqSlice(got, w.order) {
		kind := "order"
		if !eqAsSets(got, w.order) {
			kind = "contents"
		}
		bad(kind, "after %s on %v: ToSlice()=%v, model (first-insertion order) %v", o, before, got, w.order)
		return fp, what
	}
	if full {
		w.lastClass = o.class()
		w.queries(bad)
	}
	return fp, what
}

var errStop = errors.New("stop")

// queries compares every read-only method with the model.
func (w *setWorld) queries(bad func(kind, f string, a ...any)) {
	s, m := w.s, w.order
	w.qsalt++
	p := try(func() {
		if s.Size() != len(m) || s.IsEmpty() != (len(m) == 0) {
			bad("size", "Size()=%d IsEmpty()=%v, model %v", s.Size(), s.IsEmpty(), m)
		}
		var fe, rg []uint32
		if err := s.ForEach(func(e uint32) error { fe = append(fe, e); return nil }); err != nil {
			bad("foreach", "ForEach returned %v", err)
		}
		s.Range(func(e uint32) { rg = append(rg, e) })
		if !eqSlice(fe, m) || !eqSlice(rg, m) {
			bad("foreach", "ForEach=%v Range=%v, model %v", fe, rg, m)
		}
		if len(m) > 0 {
			n := 0
			err := s.ForEach(func(e uint32) error { n++; return errStop })
			if !errors.Is(err, errStop) || n != 1 {
				bad("foreach-abort", "ForEach with a failing callback visited %d elements and returned %v", n, err)
			}
		}
		for e := uint32(0); e < uint32(w.uni); e++ {
			if s.Has(e) != contains(m, e) {
				bad("has", "Has(%d)=%v on %v", e, s.Has(e), m)
			}
			if s.Is(e) != (len(m) == 1 && m[0] == e) {
				bad("is", "Is(%d)=%v on %v", e, s.Is(e), m)
			}
		}
		if e, ok := s.Any(); ok != (len(m) > 0) || (ok && !contains(m, e)) {
			bad("any", "Any()=(%d,%v) on %v", e, ok, m)
		}
		if w.algebraDone != nil {
			k := w.lastClass + orderKey(m)
			if _, done := w.algebraDone[k]; done {
				return
			}
			w.algebraDone[k] = struct{}{}
		}
		it := s.Iterator()
		var iv []uint32
		for n := 0; it.HasNext() && n < len(m)+3; n++ {
			iv = append(iv, it.Next())
		}
		if !eqSlice(iv, m) {
			bad("iterator", "Iterator yields %v, model %v", iv, m)
		}
		if ro := s.ReadOnly(); !eqSlice(ro.ToSlice(), m) || ro.Size() != len(m) {
			bad("readonly", "ReadOnly().ToSlice()=%v, model %v", ro.ToSlice(), m)
		}
		c := s.Clone()
		if !eqSlice(c.ToSlice(), m) {
			bad("clone", "Clone().ToSlice()=%v, model %v", c.ToSlice(), m)
		}
		if !s.Equals(c) || !c.Equals(s) || !s.Equals(s) || !s.HasAll(s) {
			bad("equals", "a set is not Equals/HasAll to its clone or itself (%v)", m)
		}
		if len(m) > 0 && s.Equals(nil) {
			bad("equals", "non-empty set Equals(nil)")
		}
		ev := s.Filter(func(e uint32) bool { return e%2 == 0 })
		var wantEv []uint32
		for _, e := range m {
			if e%2 == 0 {
				wantEv = append(wantEv, e)
			}
		}
		if !eqSlice(ev.ToSlice(), wantEv) {
			bad("filter", "Filter(even)=%v on %v", ev.ToSlice(), m)
		}
		// algebra against every subset of the universe (as argument sets in ascending order)
		for mask := 0; mask < 1<<w.uni; mask++ {
			if w.uni > 4 && (mask*7+w.qsalt)%8 != 0 { // large universe: an eighth of the subsets per step, rotating
				continue
			}
			var x []uint32
			for e := 0; e < w.uni; e++ {
				if mask&(1<<e) != 0 {
					x = append(x, uint32(e))
				}
			}
			xs := w.cache.get(x)
			hasAll := true
			var inter []uint32
			for _, e := range x {
				if !contains(m, e) {
					hasAll = false
				}
			}
			for _, e := range m {
				if contains(x, e) {
					inter = append(inter, e)
				}
			}
			if s.HasAll(xs) != hasAll {
				bad("hasall", "%v.HasAll(%v)=%v", m, x, s.HasAll(xs))
			}
			if s.Equals(xs) != eqAsSets(m, x) {
				bad("equals", "%v.Equals(%v)=%v", m, x, s.Equals(xs))
			}
			if got := s.Intersect(xs).ToSlice(); !eqSlice(got, inter) {
				bad("intersect", "%v.Intersect(%v)=%v, expected %v", m, x, got, inter)
			}
		}
	})
	if p != nil {
		bad("query-panic", "read-only method panicked on %v: %v", m, p)
	}
}

// runSetSeq replays ops; checks with all queries from step checkFrom on.
func runSetSeq(uni int, ops []sop, checkFrom int, algebraDone map[string]struct{}, cache setCache) (step int, fp, what string, w *setWorld) {
	w = newSetWorld(uni)
	w.algebraDone = algebraDone
	w.cache = cache
	for i, o := range ops {
		if fp, what = w.apply(o, i >= checkFrom); fp != "" {
			return i, fp, what, w
		}
	}
	return len(ops), "", "", w
}

func subsetsInOrder(uni int) [][]uint32 {
	var out [][]uint32
	for mask := 0; mask < 1<<uni; mask++ {
		var x []uint32
		for e := uni - 1; e >= 0; e-- { // descending: iteration order of the argument differs from the natural order
			if mask&(1<<e) != 0 {
				x = append(x, uint32(e))
			}
		}
		out = append(out, x)
	}
	return out
}

// setAlphabet over a universe of uni elements.
func setAlphabet(uni int) []sop {
	var a []sop
	for e := 0; e < uni; e++ {
		a = append(a, sop{K: "Add", E: uint32(e)}, sop{K: "Delete", E: uint32(e)})
	}
	subs := subsetsInOrder(uni)
	for _, k := range []string{"AddAll", "DeleteAll", "Replace"} {
		for _, x := range subs {
			a = append(a, sop{K: k, A: x})
		}
		a = append(a, sop{K: k, Self: "set"})
	}
	for _, k := range []string{"Apply", "Compute"} {
		for _, x := range subs {
			for _, y := range subs {
				disjoint := true
				for _, e := range x {
					if contains(y, e) {
						disjoint = false
					}
				}
				if disjoint && (k == "Apply" || (len(x) <= 1 && len(y) <= 1)) { // Compute = Apply + factory: small mutations suffice
					a = append(a, sop{K: k, A: x, D: y})
				}
			}
		}
	}
	// mutations whose added and deleted elements overlap, or whose deleted elements are the receiver itself
	for e := 0; e < uni; e++ {
		a = append(a, sop{K: "Apply", A: []uint32{uint32(e)}, D: []uint32{uint32(e)}})
	}
	a = append(a, sop{K: "Apply", A: []uint32{1, 0}, D: []uint32{0, 2}}, sop{K: "Apply", DSelf: true}, sop{K: "Apply", A: []uint32{1}, DSelf: true}, sop{K: "Compute", A: []uint32{0}, D: []uint32{0}})
	a = append(a, sop{K: "Clear"}, sop{K: "CloneSwap"}, sop{K: "CodecSwap"})
	return a
}

func (l *local) setOne(uni int, ops []sop) bool {
	step, fp, what, w := runSetSeq(uni, ops, len(ops)-1, l.algebraDone, l.cache)
	if step < len(ops)-1 {
		return false
	}
	l.evals++
	last := ops[len(ops)-1]
	l.counts["set:"+last.class()]++
	var h uint64
	for _, o := range ops {
		h = mixHash(h, o.class())
	}
	h = mixHash(h, orderKey(w.order))
	l.distinct[h] = struct{}{}
	if fp != "" {
		ss := make([]string, len(ops))
		for i, o := range ops {
			ss[i] = o.String()
		}
		l.viol("set:"+fp, fmt.Sprintf("ds.Set history [%s]: %s", strings.Join(ss, ", "), what), setCase{Kind: "set", Universe: uni, Ops: ops, Step: step, What: what})
		return false
	}
	return true
}

func (l *local) setDFS(uni int, alpha []sop, prefix []sop, maxLen int) {
	for _, o := range alpha {
		seq := append(prefix[:len(prefix):len(prefix)], o)
		if l.setOne(uni, seq) && len(seq) < maxLen {
			l.setDFS(uni, alpha, seq, maxLen)
		}
	}
}

func randSubset(rng *rand.Rand, uni int) []uint32 {
	var x []uint32
	for _, e := range rng.Perm(uni) {
		if rng.Intn(2) == 0 {
			x = append(x, uint32(e))
		}
	}
	return x
}

func randSetOp(rng *rand.Rand, uni int) sop {
	r := rng.Intn(100)
	self := func() string {
		switch rng.Intn(8) {
		case 0:
			return "set"
		case 1:
			return "readonly"
		}
		return ""
	}
	switch {
	case r < 18:
		return sop{K: "Add", E: uint32(rng.Intn(uni))}
	case r < 32:
		return sop{K: "Delete", E: uint32(rng.Intn(uni))}
	case r < 42:
		return sop{K: "AddAll", A: randSubset(rng, uni), Self: self()}
	case r < 52:
		return sop{K: "DeleteAll", A: randSubset(rng, uni), Self: self()}
	case r < 75:
		x := randSubset(rng, uni)
		var a, d []uint32
		for _, e := range x {
			if rng.Intn(2) == 0 {
				a = append(a, e)
			} else {
				d = append(d, e)
			}
		}
		if rng.Intn(10) == 0 {
			a, d = nil, nil
		}
		o := sop{K: []string{"Apply", "Compute"}[rng.Intn(2)], A: a, D: d}
		switch rng.Intn(12) {
		case 0, 1, 2: // overlapping: some elements are both added and deleted
			for _, e := range x {
				if rng.Intn(2) == 0 {
					if !contains(o.A, e) {
						o.A = append(o.A, e)
					} else if !contains(o.D, e) {
						o.D = append(o.D, e)
					}
				}
			}
		case 3: // delete everything through an alias of the receiver, together with additions
			o.D, o.DSelf = nil, true
		}
		return o
	case r < 85:
		return sop{K: "Replace", A: randSubset(rng, uni), Self: self()}
	case r < 88:
		return sop{K: "Clear"}
	case r < 94:
		return sop{K: "CloneSwap"}
	}
	return sop{K: "CodecSwap"}
}

func (l *local) setRandom(rng *rand.Rand, uni, length int) {
	w := newSetWorld(uni)
	w.cache = l.cache
	var ops []sop
	var h uint64
	for i := 0; i < length; i++ {
		o := randSetOp(rng, uni)
		if o.Self != "" {
			o.A = nil
		}
		ops = append(ops, o)
		fp, what := w.apply(o, true)
		l.evals++
		l.counts["set:"+o.class()]++
		h = mixHash(h, o.class())
		if fp != "" {
			ss := make([]string, len(ops))
			for i, o := range ops {
				ss[i] = o.String()
			}
			l.viol("set:"+fp, fmt.Sprintf("ds.Set history [%s]: %s", strings.Join(ss, ", "), what), setCase{Kind: "set", Universe: uni, Ops: ops, Step: i, What: what})
			return
		}
	}
	l.distinct[mixHash(h, orderKey(w.order))] = struct{}{}
	if len(l.samples) == 0 {
		ss := make([]string, 0, 12)
		for _, o := range ops[:12] {
			ss = append(ss, o.String())
		}
		l.samples = append(l.samples, map[string]any{"kind": "ds.Set random history (first 12 of 40 steps)", "ops": ss, "final_order": w.order})
	}
}

// ------------------------------------------------------------------ orderedmap.OrderedMap

type mop struct {
	K string `json:"k"` // Set Delete Clear CloneSwap CodecSwap
	E uint32 `json:"e"`
}

func (o mop) String() string {
	if o.K == "Set" || o.K == "Delete" {
		return fmt.Sprintf("%s(%d)", o.K, o.E)
	}
	return o.K
}

type mapCase struct {
	Kind     string `json:"kind"` // "map"
	Universe int    `json:"universe"`
	Ops      []mop  `json:"ops"`
	Step     int    `json:"step"`
	What     string `json:"what,omitempty"`
}

type kv struct {
	k uint32
	v uint64
}

type lazyStr func() string

func (l lazyStr) String() string { return l() }

func eqKV(a, b []kv) bool {
	if len(a) != len(b) {
		return false
	}
	for i := range a {
		if a[i] != b[i] {
			return false
		}
	}
	return true
}

type mapWorld struct {
	m     *orderedmap.OrderedMap[uint32, uint64]
	model []kv
	uni   int
	nextV uint64
}

func newMapWorld(uni int) *mapWorld {
	return &mapWorld{m: orderedmap.New[uint32, uint64](), uni: uni}
}

func (w *mapWorld) find(k uint32) int {
	for i, e := range w.model {
		if e.k == k {
			return i
		}
	}
	return -1
}

func (w *mapWorld) apply(o mop, full bool) (fp, what string) {
	bad := func(kind, f string, a ...any) {
		if fp == "" {
			fp, what = o.K+"/"+kind, fmt.Sprintf(f, a...)
		}
	}
	beforeModel := append([]kv{}, w.model...)
	before := lazyStr(func() string { return fmt.Sprint(beforeModel) })
	p := try(func() {
		switch o.K {
		case "Set":
			w.nextV++
			v := w.nextV
			prev, existed := w.m.Set(o.E, v)
			i := w.find(o.E)
			if existed != (i >= 0) || (i >= 0 && prev != w.model[i].v) {
				bad("returned-previous", "Set(%d) on %s returned (%d,%v)", o.E, before, prev, existed)
			}
			if i >= 0 {
				w.model[i].v = v
			} else {
				w.model = append(w.model, kv{o.E, v})
			}
		case "Delete":
			got := w.m.Delete(o.E)
			i := w.find(o.E)
			if got != (i >= 0) {
				bad("returned-bool", "Delete(%d) on %s returned %v", o.E, before, got)
			}
			if i >= 0 {
				w.model = append(w.model[:i:i], w.model[i+1:]...)
			}
		case "Clear":
			w.m.Clear()
			w.model = nil
		case "CloneSwap":
			old := w.m
			c := old.Clone()
			c.Set(1000, 1)
			if old.Has(1000) {
				bad("clone-aliases", "Set on a Clone() changed the original")
			}
			c.Delete(1000)
			w.m = c
		case "CodecSwap":
			sm := &serializableorderedmap.SerializableOrderedMap[uint32, uint64]{OrderedMap: w.m}
			b, err := sm.Encode(setAPI)
			if err != nil {
				bad("encode-error", "Encode failed: %v", err)
				return
			}
			d := serializableorderedmap.New[uint32, uint64]()
			n, err := d.Decode(setAPI, b)
			if err != nil {
				bad("decode-error", "Decode of Encode output failed: %v", err)
				return
			}
			if n != len(b) {
				bad("decode-consumed", "Decode consumed %d of %d bytes", n, len(b))
			}
			w.m = d.OrderedMap
		}
	})
	if p != nil {
		bad("panic", "%s on %s panicked: %v", o, before, p)
		return
	}
	if fp != "" {
		return
	}
	// iteration order forwards and backwards after every step
	var f, r []kv
	w.m.ForEach(func(k uint32, v uint64) bool { f = append(f, kv{k, v}); return len(f) < len(w.model)+3 })
	w.m.ForEachReverse(func(k uint32, v uint64) bool { r = append(r, kv{k, v}); return len(r) < len(w.model)+3 })
	rev := make([]kv, len(w.model))
	for i, e := range w.model {
		rev[len(w.model)-1-i] = e
	}
	if !eqKV(f, w.model) {
		bad("foreach-order", "after %s on %s: ForEach visits %v, model %v", o, before, f, w.model)
		return
	}
	if !eqKV(r, rev) {
		bad("foreachreverse-order", "after %s on %s: ForEachReverse visits %v, model %v", o, before, r, rev)
		return
	}
	if !full {
		return
	}
	m := w.m
	if m.Size() != len(w.model) || m.IsEmpty() != (len(w.model) == 0) {
		bad("size", "Size()=%d IsEmpty()=%v, model %v", m.Size(), m.IsEmpty(), w.model)
	}
	hk, hv, hok := m.Head()
	tk, tv, tok := m.Tail()
	if len(w.model) == 0 {
		if hok || tok {
			bad("head-tail", "Head/Tail exist on an empty map")
		}
	} else {
		h, t := w.model[0], w.model[len(w.model)-1]
		if !hok || hk != h.k || hv != h.v {
			bad("head", "Head()=(%d,%d,%v), model %v", hk, hv, hok, w.model)
		}
		if !tok || tk != t.k || tv != t.v {
			bad("tail", "Tail()=(%d,%d,%v), model %v", tk, tv, tok, w.model)
		}
		n := 0
		if m.ForEach(func(uint32, uint64) bool { n++; return false }) || n != 1 {
			bad("foreach-abort", "ForEach with a consumer returning false visited %d entries", n)
		}
		n = 0
		if m.ForEachReverse(func(uint32, uint64) bool { n++; return false }) || n != 1 {
			bad("foreach-abort", "ForEachReverse with a consumer returning false visited %d entries", n)
		}
	}
	for k := uint32(0); k < uint32(w.uni); k++ {
		i := w.find(k)
		v, ok := m.Get(k)
		if ok != (i >= 0) || m.Has(k) != (i >= 0) || (i >= 0 && v != w.model[i].v) {
			bad("get-has", "Get(%d)=(%d,%v) Has=%v, model %v", k, v, ok, m.Has(k), w.model)
		}
	}
	return
}

func runMapSeq(uni int, ops []mop, checkFrom int) (step int, fp, what string, w *mapWorld) {
	w = newMapWorld(uni)
	for i, o := range ops {
		if fp, what = w.apply(o, i >= checkFrom); fp != "" {
			return i, fp, what, w
		}
	}
	return len(ops), "", "", w
}

func mapAlphabet(uni int) []mop {
	var a []mop
	for e := 0; e < uni; e++ {
		a = append(a, mop{K: "Set", E: uint32(e)}, mop{K: "Delete", E: uint32(e)})
	}
	return append(a, mop{K: "Clear"}, mop{K: "CloneSwap"}, mop{K: "CodecSwap"})
}

func (l *local) mapOne(uni int, ops []mop) bool {
	step, fp, what, w := runMapSeq(uni, ops, len(ops)-1)
	if step < len(ops)-1 {
		return false
	}
	l.evals++
	l.counts["map:"+ops[len(ops)-1].K]++
	var h uint64
	for _, o := range ops {
		h = mixHash(h, o.K)
	}
	ks := make([]uint32, len(w.model))
	for i, e := range w.model {
		ks[i] = e.k
	}
	l.distinct[mixHash(h, "map"+orderKey(ks))] = struct{}{}
	if fp != "" {
		ss := make([]string, len(ops))
		for i, o := range ops {
			ss[i] = o.String()
		}
		l.viol("orderedmap:"+fp, fmt.Sprintf("OrderedMap history [%s]: %s", strings.Join(ss, ", "), what), mapCase{Kind: "map", Universe: uni, Ops: ops, Step: step, What: what})
		return false
	}
	return true
}

func (l *local) mapDFS(uni int, alpha []mop, prefix []mop, maxLen int) {
	for _, o := range alpha {
		seq := append(prefix[:len(prefix):len(prefix)], o)
		if l.mapOne(uni, seq) && len(seq) < maxLen {
			l.mapDFS(uni, alpha, seq, maxLen)
		}
	}
}

func (l *local) mapRandom(rng *rand.Rand, uni, length int) {
	w := newMapWorld(uni)
	var ops []mop
	var h uint64
	for i := 0; i < length; i++ {
		var o mop
		switch r := rng.Intn(100); {
		case r < 50:
			o = mop{K: "Set", E: uint32(rng.Intn(uni))}
		case r < 85:
			o = mop{K: "Delete", E: uint32(rng.Intn(uni))}
		case r < 88:
			o = mop{K: "Clear"}
		case r < 94:
			o = mop{K: "CloneSwap"}
		default:
			o = mop{K: "CodecSwap"}
		}
		ops = append(ops, o)
		fp, what := w.apply(o, true)
		l.evals++
		l.counts["map:"+o.K]++
		h = mixHash(h, o.String())
		if fp != "" {
			ss := make([]string, len(ops))
			for i, o := range ops {
				ss[i] = o.String()
			}
			l.viol("orderedmap:"+fp, fmt.Sprintf("OrderedMap history [%s]: %s", strings.Join(ss, ", "), what), mapCase{Kind: "map", Universe: uni, Ops: ops, Step: i, What: what})
			return
		}
	}
	l.distinct[mixHash(h, "maprandom")] = struct{}{}
}

// ------------------------------------------------------------------ ds.SetArithmetic

type aop struct {
	Sub bool     `json:"subtract"`
	A   []uint32 `json:"added"`
	D   []uint32 `json:"deleted"`
	Th  int      `json:"threshold"` // 0 = default (1)
}

type arithCase struct {
	Kind string `json:"kind"` // "arith"
	Ops  []aop  `json:"ops"`
	Step int    `json:"step"`
	What string `json:"what,omitempty"`
}

// runArith replays ops against a counting model: an element is reported as added
// (deleted) exactly when its occurrence count rises to (falls below) the threshold,
// and a report cancels against the opposite report of the same call.
func runArith(ops []aop) (step int, fp, what string) {
	ar := ds.NewSetArithmetic[uint32]()
	count := map[uint32]int{}
	for i, o := range ops {
		th := o.Th
		if th == 0 {
			th = 1
		}
		repA, repD := map[uint32]bool{}, map[uint32]bool{}
		up := func(e uint32) {
			count[e]++
			if count[e] == th {
				if repD[e] {
					delete(repD, e)
				} else {
					repA[e] = true
				}
			}
		}
		down := func(e uint32) {
			count[e]--
			if count[e] == th-1 {
				if repA[e] {
					delete(repA, e)
				} else {
					repD[e] = true
				}
			}
		}
		mut := ds.NewSetMutations[uint32]().WithAddedElements(ds.NewSet(o.A...)).WithDeletedElements(ds.NewSet(o.D...))
		var ret ds.SetMutations[uint32]
		name := "Add"
		p := try(func() {
			var thr []int
			if o.Th != 0 {
				thr = []int{o.Th}
			}
			if o.Sub {
				name = "Subtract"
				ret = ar.Subtract(mut, thr...)
			} else {
				ret = ar.Add(mut, thr...)
			}
		})
		if p != nil {
			return i, "setarithmetic:" + name + "/panic", fmt.Sprintf("SetArithmetic.%s(+%v -%v, threshold %d) panicked: %v", name, o.A, o.D, th, p)
		}
		if o.Sub {
			for _, e := range o.A {
				down(e)
			}
			for _, e := range o.D {
				up(e)
			}
		} else {
			for _, e := range o.A {
				up(e)
			}
			for _, e := range o.D {
				down(e)
			}
		}
		var wantA, wantD []uint32
		for e := range repA {
			wantA = append(wantA, e)
		}
		for e := range repD {
			wantD = append(wantD, e)
		}
		gotA, gotD := ret.AddedElements().ToSlice(), ret.DeletedElements().ToSlice()
		if !eqAsSets(gotA, wantA) || !eqAsSets(gotD, wantD) {
			return i, "setarithmetic:" + name + "/threshold-crossings", fmt.Sprintf("step %d SetArithmetic.%s(+%v -%v, threshold %d) returned +%v -%v, threshold crossings of the counting model: +%v -%v (counts now %v)", i, name, o.A, o.D, th, sorted(gotA), sorted(gotD), sorted(wantA), sorted(wantD), count)
		}
	}
	return len(ops), "", ""
}

func (l *local) arithRandom(rng *rand.Rand, uni, length int) {
	fixed := rng.Intn(4) // 0 = default threshold, 1..3 fixed, else per call
	perCall := rng.Intn(3) == 0
	var ops []aop
	for i := 0; i < length; i++ {
		o := aop{Sub: rng.Intn(5) < 2, A: randSubset(rng, uni), D: randSubset(rng, uni), Th: fixed}
		if rng.Intn(2) == 0 { // mostly disjoint mutations, sometimes overlapping ones
			var d []uint32
			for _, e := range o.D {
				if !contains(o.A, e) {
					d = append(d, e)
				}
			}
			o.D = d
		}
		if perCall {
			o.Th = 1 + rng.Intn(3)
		}
		ops = append(ops, o)
	}
	step, fp, what := runArith(ops)
	l.evals += min(step+1, len(ops))
	l.counts["arith:calls"] += min(step+1, len(ops))
	l.counts[fmt.Sprintf("arith:threshold_mode_%d_percall_%v", fixed, perCall)]++
	if fp != "" {
		l.viol(fp, what, arithCase{Kind: "arith", Ops: ops[:step+1], Step: step, What: what})
		return
	}
	var h uint64
	for _, o := range ops {
		h = mixHash(h, fmt.Sprint(o.Sub, o.A, o.D, o.Th))
	}
	l.distinct[h] = struct{}{}
}
