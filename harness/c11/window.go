package main

// Single-element operations against the INSIDE of one Apply / Compute / Replace ("hist-window").
//
// The other recorded histories use disjoint mutations, so every element visible in the middle of an Apply is a member
// before or after it and a single-element operation that does not wait for the Apply cannot be told from one that
// does. Here the writer's one call passes through a state that is neither its pre- nor its post-state for the probe
// element e:
//   - Apply / Compute whose added AND deleted elements contain e (e absent before: present only inside the call),
//     e first in the added elements, filler elements behind it and a yield between the elements of the argument;
//   - Replace whose new contents keep e (present before and after, possibly absent inside), e last behind many fillers;
//   - plus random variations (e present/absent before, e only added / only deleted / untouched).
// Probers wait (bounded spinning, no clock) until the first filler is visible and then call Add(e) / Delete(e).
//
// Oracle (porcupine, one key): Apply/Compute/Replace are ONE atomic step each - for Apply/Compute either "additions
// first" or "deletions first" (or the net change) is accepted, whichever the returned mutations for e agree with -
// and Add/Delete are
// linearizable against them: Add(e) reporting "already present" while e is a member neither before nor after any
// overlapping call has no legal order. Has(e) is recorded but NOT judged: on the unchanged tree readers do not wait
// for the apply lock (see diffhist.go), only the count of such observations is kept.

import (
	"fmt"
	"math/rand"
	"runtime"
	"sync"

	"github.com/anishathalye/porcupine"
	"github.com/iotaledger/hive.go/ds"
)

// yieldFull is a full ds.Set used as mutation argument whose element-wise iteration yields between the elements.
type yieldFull struct{ ds.Set[int] }

func (y yieldFull) ForEach(cb func(int) error) error {
	return y.Set.ForEach(func(e int) error { runtime.Gosched(); return cb(e) })
}

func (y yieldFull) Range(cb func(int)) {
	y.Set.Range(func(e int) { runtime.Gosched(); cb(e) })
}

const (
	winProbe      = 0
	winFillerBase = 100
)

// windowModel: membership of the probe element. Arg/Arg2/Out/Out2/Seen carry bit 0 = "names / reports the probe".
var windowModel = porcupine.Model{
	Init: func() any { return false },
	Step: func(st, in, _ any) (bool, any) {
		p, o := st.(bool), in.(hop)
		switch o.Op {
		case "init":
			return true, o.OK
		case "Add":
			return o.OK == !p, true
		case "Delete":
			return o.OK == p, false
		case "Has":
			return o.OK == p, p
		case "Apply", "Compute":
			if o.Op == "Compute" && (o.Seen&1 != 0) != p {
				return false, p
			}
			inA, inD, repA, repD := o.Arg&1 != 0, o.Arg2&1 != 0, o.Out&1 != 0, o.Out2&1 != 0
			// additions first
			a1 := inA && !p
			p1 := p || inA
			d1 := inD && p1
			if repA == a1 && repD == d1 {
				return true, p1 && !inD
			}
			// deletions first
			d2 := inD && p
			p2 := p && !inD
			a2 := inA && !p2
			if repA == a2 && repD == d2 {
				return true, p2 || inA
			}
			// an element added and deleted again by one call: reporting the net change (nothing) is accepted too
			if inA && inD && !repA && !repD {
				return true, p
			}
			return false, p
		default: // Replace; Arg2 bit 0 = probe is part of the new contents, Out2 bit 0 = reported as removed
			kept, rep := o.Arg2&1 != 0, o.Out2&1 != 0
			if rep && !p { // reported as removed without having been a member
				return false, p
			}
			if p && !kept && !rep { // removed without being reported
				return false, p
			}
			return true, kept
		}
	},
}

type windowStats struct {
	probes, probesOverlapping, sharpRounds, keptRounds, hasUnexplained int
}

func bit(b bool) uint64 {
	if b {
		return 1
	}
	return 0
}

func fillers(from, n int) []int {
	out := make([]int, n)
	for i := range out {
		out[i] = from + i
	}
	return out
}

// windowHistory records one round. It returns the judged history (without Has), the history including the Has
// observations, and the quiescent invariant.
func windowHistory(seed int64, st *windowStats) (h, withHas []hop, ik, iw string) {
	rng := rand.New(rand.NewSource(seed))
	s := ds.NewSet[int]()
	present := rng.Intn(2) == 0
	shape := rng.Intn(6) // 0,1: Apply/Compute add+delete probe; 2: Replace keeping the probe; else random
	if shape <= 1 {
		present = rng.Intn(4) == 0
	} else if shape == 2 {
		present = rng.Intn(4) != 0
	}
	if present {
		s.Add(winProbe)
	}
	for i, n := 0, rng.Intn(3); i < n; i++ {
		s.Add(50 + i)
	}
	initHop := hop{Client: 9, Op: "init", OK: present, Call: clock.Add(1)}
	initHop.Ret = clock.Add(1)

	first := winFillerBase
	var writer func() hop
	mkApply := func(compute bool, inA, aFirst, inD bool, nFill int) func() hop {
		var a []int
		if inA && aFirst {
			a = append(a, winProbe)
		}
		a = append(a, fillers(first, nFill)...)
		if inA && !aFirst {
			a = append(a, winProbe)
		}
		var d []int
		if inD {
			d = append(d, winProbe)
		}
		d = append(d, 50, 51)
		addSet, delSet := ds.NewSet(a...), ds.NewSet(d...)
		return func() hop {
			o := hop{Client: 0, Op: "Apply", Arg: bit(inA), Arg2: bit(inD)}
			m := ds.NewSetMutations[int]().WithAddedElements(yieldFull{addSet}).WithDeletedElements(yieldFull{delSet})
			var r ds.SetMutations[int]
			if compute {
				o.Op = "Compute"
				o.Call = clock.Add(1)
				r = rop_atomic_Compute(s, func(rs ds.ReadableSet[int]) ds.SetMutations[int] {
					o.Seen = bit(rs.Has(winProbe))
					return m
				})
			} else {
				o.Call = clock.Add(1)
				r = rop_atomic_Apply(s, m)
			}
			o.Ret = clock.Add(1)
			o.Out, o.Out2 = bit(r.AddedElements().Has(winProbe)), bit(r.DeletedElements().Has(winProbe))
			return o
		}
	}
	mkReplace := func(kept bool, nFill int) func() hop {
		x := fillers(first, nFill)
		if kept {
			x = append(x, winProbe)
		}
		newSet := ds.NewSet(x...)
		return func() hop {
			o := hop{Client: 0, Op: "Replace", Arg2: bit(kept)}
			o.Call = clock.Add(1)
			r := rop_atomic_Replace(s, newSet)
			o.Ret = clock.Add(1)
			o.Out2 = bit(r.Has(winProbe))
			return o
		}
	}
	switch shape {
	case 0, 1:
		writer = mkApply(shape == 1, true, true, true, 48+rng.Intn(32))
		st.sharpRounds++
	case 2:
		writer = mkReplace(true, 1500+rng.Intn(1000))
		st.keptRounds++
	case 3:
		writer = mkReplace(rng.Intn(2) == 0, 1500+rng.Intn(1000))
	default:
		writer = mkApply(rng.Intn(2) == 0, rng.Intn(4) != 0, rng.Intn(2) == 0, rng.Intn(3) != 0, 48+rng.Intn(32))
	}

	const probers = 3
	per := make([][]hop, probers+1)
	var wg sync.WaitGroup
	start := make(chan struct{})
	wg.Add(1)
	go func() {
		defer wg.Done()
		defer guard()
		<-start
		per[0] = append(per[0], writer())
	}()
	plans := make([][]int, probers) // 0 Add, 1 Delete, 2 Has
	for g := range plans {
		for i, n := 0, 1+rng.Intn(2); i < n; i++ {
			k := rng.Intn(2)
			if g == probers-1 {
				k = 2
			}
			plans[g] = append(plans[g], k)
		}
	}
	noWait := rng.Intn(4) == 0
	for g := 0; g < probers; g++ {
		wg.Add(1)
		go func(g int) {
			defer wg.Done()
			defer guard()
			<-start
			if !noWait {
				for i := 0; i < 4000 && !s.Has(first); i++ { // bounded; not a verdict, only aims the probe at the window
					runtime.Gosched()
				}
			}
			for _, k := range plans[g] {
				o := hop{Client: g + 1}
				o.Call = clock.Add(1)
				switch k {
				case 0:
					o.Op, o.OK = "Add", rop_single_SetAdd(s, winProbe)
				case 1:
					o.Op, o.OK = "Delete", rop_single_SetDelete(s, winProbe)
				default:
					o.Op, o.OK = "Has", rop_single_SetHas(s, winProbe)
				}
				o.Ret = clock.Add(1)
				per[g+1] = append(per[g+1], o)
			}
		}(g)
	}
	close(start)
	wg.Wait()
	fin := hop{Client: 8, Op: "Has", Call: clock.Add(1)}
	fin.OK = rop_single_SetHas(s, winProbe)
	fin.Ret = clock.Add(1)

	h = append(h, initHop)
	withHas = append(withHas, initHop)
	var w *hop
	if len(per[0]) == 1 {
		w = &per[0][0]
	}
	for g, p := range per {
		for _, o := range p {
			withHas = append(withHas, o)
			if o.Op != "Has" {
				h = append(h, o)
			}
			if g > 0 && o.Op != "Has" {
				st.probes++
				if w != nil && o.Call < w.Ret && w.Call < o.Ret {
					st.probesOverlapping++
				}
			}
		}
	}
	h, withHas = append(h, fin), append(withHas, fin)
	ik, iw = setInvariant(s, 2)
	return h, withHas, ik, iw
}

const windowFP = "atomicity:single-element-op-inside-apply-compute-replace"

func describeWindow(h []hop) string {
	var ss []string
	for _, o := range h {
		switch o.Op {
		case "init":
			ss = append(ss, fmt.Sprintf("initially present=%v", o.OK))
		case "Add", "Delete", "Has":
			ss = append(ss, fmt.Sprintf("[%d..%d] %s(e)=%v", o.Call, o.Ret, o.Op, o.OK))
		case "Replace":
			ss = append(ss, fmt.Sprintf("[%d..%d] Replace(new contents hold e=%v) reported e removed=%v", o.Call, o.Ret, o.Arg2&1 != 0, o.Out2&1 != 0))
		default:
			ss = append(ss, fmt.Sprintf("[%d..%d] %s(adds e=%v, deletes e=%v) reported e added=%v removed=%v", o.Call, o.Ret, o.Op, o.Arg&1 != 0, o.Arg2&1 != 0, o.Out&1 != 0, o.Out2&1 != 0))
		}
	}
	return fmt.Sprint(ss)
}
