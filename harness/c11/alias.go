package main

// Aliasing family: every Set method that takes another set as ARGUMENT, called with the receiver itself, with its
// ReadOnly() view and with a clone (sequential, one goroutine, own plain-build child: a self-dead-lock is decided by
// the Go runtime detector and attributed by c.Mark), and crossed between two sets concurrently (a.M(b) || b.N(a)) in
// a timer-free plain-build child.

import (
	"fmt"
	"runtime"
	"sort"
	"sync"

	"github.com/iotaledger/hive.go/ds"
	"verif/harness/internal/vf"
)

var aliasMethods = []string{"Replace", "AddAll", "DeleteAll", "Apply(added=arg)", "Apply(deleted=arg)", "Compute(added=arg)", "Compute(deleted=arg)", "HasAll", "Equals", "Intersect", "Filter(arg.Has)"}
var aliasArgs = []string{"self", "readonly", "clone"}
var aliasContents = [][]int{{}, {0}, {0, 1, 2}, {2, 0}}

type aliasCase struct {
	Kind     string `json:"kind"` // "alias"
	Method   string `json:"method"`
	Arg      string `json:"arg"`
	Contents []int  `json:"contents"`
	What     string `json:"what,omitempty"`
}

func aliasCases() []aliasCase {
	var out []aliasCase
	for _, m := range aliasMethods {
		for _, a := range aliasArgs {
			for _, ct := range aliasContents {
				out = append(out, aliasCase{Kind: "alias", Method: m, Arg: a, Contents: ct})
			}
		}
	}
	return out
}

func (a aliasCase) String() string {
	return fmt.Sprintf("s=%v; s.%s with argument %s", a.Contents, a.Method, a.Arg)
}

func sortedInts(x []int) []int {
	y := append([]int{}, x...)
	sort.Ints(y)
	return y
}

// runAliasCase executes one aliasing call and compares result and final state with the model. The argument has the
// same contents as the receiver in every variant, so the expected outcome is the same for self / readonly / clone.
func runAliasCase(ac aliasCase) (fp, what string) {
	bad := func(kind, f string, a ...any) {
		if fp == "" {
			fp, what = fmt.Sprintf("alias:%s(%s)/%s", ac.Method, ac.Arg, kind), ac.String()+": "+fmt.Sprintf(f, a...)
		}
	}
	s := ds.NewSet(ac.Contents...)
	var argR ds.ReadableSet[int]
	var argS ds.Set[int]
	switch ac.Arg {
	case "self":
		argR, argS = s, s
	case "readonly":
		argR = s.ReadOnly()
	default:
		argS = s.Clone()
		argR = argS
	}
	needsSet := ac.Method[:5] == "Apply" || ac.Method[:5] == "Compu"
	if needsSet && argS == nil {
		return "", "" // SetMutations hold Set values: a ReadableSet view cannot be passed
	}
	same := func(got []int, want []int) bool { return fmt.Sprint(sortedInts(got)) == fmt.Sprint(sortedInts(want)) }
	all, none := ac.Contents, []int{}
	wantFinal := all
	if p := try(func() {
		switch ac.Method {
		case "Replace":
			if r := s.Replace(argR).ToSlice(); !same(r, none) {
				bad("returned-set", "returned %v, no element's membership changed", r)
			}
		case "AddAll":
			if r := s.AddAll(argR).ToSlice(); !same(r, none) {
				bad("returned-set", "returned %v, nothing was added", r)
			}
		case "DeleteAll":
			wantFinal = none
			if r := s.DeleteAll(argR).ToSlice(); !same(r, all) {
				bad("returned-set", "returned %v, removed were %v", r, all)
			}
		case "Apply(added=arg)", "Compute(added=arg)", "Apply(deleted=arg)", "Compute(deleted=arg)":
			m := ds.NewSetMutations[int]()
			del := ac.Method[len(ac.Method)-12:] == "deleted=arg)"
			if del {
				m.WithDeletedElements(argS)
				wantFinal = none
			} else {
				m.WithAddedElements(argS)
			}
			var r ds.SetMutations[int]
			if ac.Method[:5] == "Apply" {
				r = s.Apply(m)
			} else {
				r = s.Compute(func(ds.ReadableSet[int]) ds.SetMutations[int] { return m })
			}
			wantDel := none
			if del {
				wantDel = all
			}
			// the returned sets are read after the call; with deleted=self the argument itself was emptied, the
			// report is a separate set
			if ga, gd := r.AddedElements().ToSlice(), r.DeletedElements().ToSlice(); !same(ga, none) || !same(gd, wantDel) {
				bad("returned-mutations", "returned +%v -%v, membership changed: +[] -%v", ga, gd, wantDel)
			}
		case "HasAll":
			if !s.HasAll(argR) {
				bad("result", "HasAll is false")
			}
		case "Equals":
			if !s.Equals(argR) {
				bad("result", "Equals is false")
			}
		case "Intersect":
			if r := s.Intersect(argR).ToSlice(); fmt.Sprint(r) != fmt.Sprint(all) {
				bad("result", "Intersect = %v, expected %v", r, all)
			}
		case "Filter(arg.Has)":
			if r := s.Filter(argR.Has).ToSlice(); fmt.Sprint(r) != fmt.Sprint(all) {
				bad("result", "Filter(arg.Has) = %v, expected %v", r, all)
			}
		}
	}); p != nil {
		bad("panic", "panicked: %v", p)
		return
	}
	if got := s.ToSlice(); !same(got, wantFinal) || s.Size() != len(wantFinal) {
		bad("contents", "afterwards the set is %v (Size %d), expected %v", got, s.Size(), wantFinal)
	} else if ac.Method != "Replace" && len(wantFinal) > 0 && fmt.Sprint(got) != fmt.Sprint(wantFinal) {
		bad("order", "afterwards the set iterates %v, first-insertion order is %v", got, wantFinal)
	}
	if k, w := setInvariant(s, 3); k != "" {
		bad("inconsistent:"+k, "%s", w)
	}
	return
}

// ------------------------------------------------------------------ crossed concurrent calls

var crossMethods = []string{"Replace", "AddAll", "DeleteAll", "Apply(added=arg)", "Apply(deleted=arg)", "Compute(deleted=arg)", "HasAll", "Equals", "Intersect"}

func crossPairs() [][2]int {
	var out [][2]int
	for i := range crossMethods {
		for j := i; j < len(crossMethods); j++ {
			out = append(out, [2]int{i, j})
		}
	}
	return out
}

func crossCall(m string, recv, arg ds.Set[int], i int) {
	switch m {
	case "Replace":
		rop_atomic_Replace(recv, arg)
	case "AddAll":
		rop_other_AddAll(recv, arg)
	case "DeleteAll":
		rop_other_DeleteAll(recv, arg)
	case "Apply(added=arg)":
		rop_atomic_Apply(recv, ds.NewSetMutations[int]().WithAddedElements(arg))
	case "Apply(deleted=arg)":
		rop_atomic_Apply(recv, ds.NewSetMutations[int]().WithDeletedElements(arg))
	case "Compute(deleted=arg)":
		rop_atomic_Compute(recv, func(ds.ReadableSet[int]) ds.SetMutations[int] {
			runtime.Gosched()
			return ds.NewSetMutations[int]().WithDeletedElements(arg)
		})
	case "HasAll":
		rop_other_HasAll(recv, arg)
	case "Equals":
		rop_other_Equals(recv, arg)
	case "Intersect":
		rop_other_Intersect(recv, arg)
	}
	if i%3 == 0 { // keep the sets populated
		rop_single_SetAdd(recv, i%5)
		rop_single_SetAdd(recv, (i+2)%5)
	}
}

// runCross loops a.M(b) || b.N(a) (plus one goroutine that keeps adding to both). Returns when all finished; if they
// never do the process is dead-locked (runtime detector / snapshot monitor).
func runCross(mi, ni, iters int) (string, string) {
	a, b := ds.NewSet(0, 1, 2), ds.NewSet(2, 3, 4)
	var wg sync.WaitGroup
	start := make(chan struct{})
	run := func(m string, recv, arg ds.Set[int]) {
		defer wg.Done()
		defer guard()
		<-start
		for i := 0; i < iters; i++ {
			crossCall(m, recv, arg, i)
		}
	}
	wg.Add(2)
	go run(crossMethods[mi], a, b)
	go run(crossMethods[ni], b, a)
	close(start)
	wg.Wait()
	if k, w := setInvariant(a, 5); k != "" {
		return k, w
	}
	return setInvariant(b, 5)
}

func crossChild(c *vf.Ctx, lo, iters int, mark string) {
	ps := crossPairs()
	for idx := lo; idx < len(ps); idx++ {
		name := fmt.Sprintf("a.%s(b) || b.%s(a)", crossMethods[ps[idx][0]], crossMethods[ps[idx][1]])
		c.Mark(fmt.Sprintf("%s%d", mark, idx))
		k, w := runCross(ps[idx][0], ps[idx][1], iters)
		drainPanics(c, name, c.Seed)
		reportInvariant(c, "set", name, c.Seed, k, w)
		c.Count("evaluations", 1)
		c.Count("crossed_pairs_completed", 1)
		c.Count("crossed_pairs_decided", 1)
		c.Distinct("nontrivial", "cross:"+name)
		c.FlushStats()
	}
}
