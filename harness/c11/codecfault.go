package main

// Fault half of the serix clause of SerializableOrderedMap / ds.Set (codec.go drives only contents that encode).
//
// Encode faults: ONE (sometimes two) entries of a 1..5-entry map/set cannot be encoded by serix - a self-serializing
// element whose Encode() returns an error, a string / slice longer than its byte length prefix (top level or nested
// in a struct), a nil pointer (top level or nested), an interface field holding an unregistered type or nothing - at
// every position, on the key side and on the value side. Oracle: whatever bytes Encode returns together with a nil
// error must decode into an empty container, consume all bytes and reproduce contents and order (so a fault has to
// surface as an error, never as "successful" truncated bytes); Encode must not change the container; after the faulty
// entries are deleted Encode must succeed and round-trip the rest.
//
// Decode faults: bytes produced by a successful Encode whose entry k cannot be decoded (self-deserializing element
// whose Decode() returns an error; interface field whose concrete type the decoding API does not know), and every
// strict prefix of a valid encoding. Oracle: Decode returns an error (never a nil error over a half-filled result).
// Nothing is demanded of the destination's contents or of bytesRead after a failed Decode, nor of the error's
// identity or wording.
//
// Whether one element is (un)encodable / (un)decodable is established with serix alone (api.Encode / api.Decode of
// that element) before the container is judged: a case whose premise does not hold is not counted.

import (
	"context"
	"errors"
	"fmt"
	"math/rand"
	"strings"

	"github.com/iotaledger/hive.go/ds"
	"github.com/iotaledger/hive.go/ds/serializableorderedmap"
	"github.com/iotaledger/hive.go/serializer/v2/serix"
)

// ---------------------------------------------------------------- element types

var (
	errSelfEnc = errors.New("selfElem: this value refuses to encode")
	errSelfDec = errors.New("selfElem: this value refuses to decode")
)

// selfElem serializes itself. ID 0..99 is healthy, 100..199 encodes but refuses to decode, 200..255 refuses to encode.
type selfElem struct{ ID, Tag uint8 }

func (s selfElem) Encode() ([]byte, error) {
	if s.ID >= 200 {
		return nil, errSelfEnc
	}
	return []byte{0xA5, s.ID, s.Tag}, nil
}

func (s *selfElem) Decode(b []byte) (int, error) {
	if len(b) < 3 || b[0] != 0xA5 {
		return 0, errors.New("selfElem: short or foreign bytes")
	}
	if b[1] >= 100 {
		return 0, errSelfDec
	}
	s.ID, s.Tag = b[1], b[2]
	return 3, nil
}

type faultIface interface{ faultTag() uint8 }

type ifaceA struct {
	X uint8 `serix:""`
}
type ifaceB struct {
	Y uint16 `serix:""`
}
type ifaceC struct {
	Z uint8 `serix:""`
}

func (ifaceA) faultTag() uint8 { return 1 }
func (ifaceB) faultTag() uint8 { return 2 }
func (ifaceC) faultTag() uint8 { return 3 }

// ifaceHolder carries an interface-typed field: serix resolves the concrete type through the registered interface
// objects of the API in both directions.
type ifaceHolder struct {
	N uint8      `serix:""`
	F faultIface `serix:""`
}

// newFaultAPI: ifaceA is always registered, ifaceB only when withB, ifaceC never.
func newFaultAPI(withB bool) *serix.API {
	api := newCodecAPI()
	_ = api.RegisterTypeSettings([]codecInner{}, serix.TypeSettings{}.WithLengthPrefixType(serix.LengthPrefixTypeAsByte))
	_ = api.RegisterTypeSettings(ifaceA{}, serix.TypeSettings{}.WithObjectType(uint8(1)))
	_ = api.RegisterInterfaceObjects((*faultIface)(nil), (*ifaceA)(nil))
	if withB {
		_ = api.RegisterTypeSettings(ifaceB{}, serix.TypeSettings{}.WithObjectType(uint8(2)))
		_ = api.RegisterInterfaceObjects((*faultIface)(nil), (*ifaceB)(nil))
	}
	return api
}

// ---------------------------------------------------------------- containers behind one face

type faultBox interface {
	encode(api *serix.API) ([]byte, error)
	decode(api *serix.API, b []byte) (int, error)
	entries() []string
	size() int
	dropBad()
	fresh() faultBox
}

type mapBox[K comparable, V any] struct {
	m   *serializableorderedmap.SerializableOrderedMap[K, V]
	bad []K
}

func (b *mapBox[K, V]) encode(api *serix.API) ([]byte, error)        { return b.m.Encode(api) }
func (b *mapBox[K, V]) decode(api *serix.API, p []byte) (int, error) { return b.m.Decode(api, p) }
func (b *mapBox[K, V]) size() int                                    { return b.m.Size() }
func (b *mapBox[K, V]) fresh() faultBox {
	return &mapBox[K, V]{m: serializableorderedmap.New[K, V]()}
}
func (b *mapBox[K, V]) dropBad() {
	for _, k := range b.bad {
		b.m.Delete(k)
	}
}
func (b *mapBox[K, V]) entries() (out []string) {
	b.m.ForEach(func(k K, v V) bool {
		out = append(out, canonOf(k)+":"+canonOf(v))
		return len(out) < 64
	})
	return
}

type setBox[T comparable] struct {
	s   ds.Set[T]
	bad []T
}

func (b *setBox[T]) encode(api *serix.API) ([]byte, error)        { return b.s.Encode(api) }
func (b *setBox[T]) decode(api *serix.API, p []byte) (int, error) { return b.s.Decode(api, p) }
func (b *setBox[T]) size() int                                    { return b.s.Size() }
func (b *setBox[T]) fresh() faultBox                              { return &setBox[T]{s: ds.NewSet[T]()} }
func (b *setBox[T]) dropBad() {
	for _, e := range b.bad {
		b.s.Delete(e)
	}
}
func (b *setBox[T]) entries() (out []string) {
	for _, e := range b.s.ToSlice() {
		out = append(out, canonOf(e))
	}
	return
}

// ---------------------------------------------------------------- premises, established with serix alone

func encFails[T any](api *serix.API, v T) (fails bool) {
	defer func() {
		if recover() != nil {
			fails = false // a panic of serix itself is no premise for anything
		}
	}()
	_, err := api.Encode(context.Background(), v)
	return err != nil
}

// roundTrips: v encodes under enc, and the bytes decode under dec to an equal value, consuming everything.
func roundTrips[T any](enc, dec *serix.API, v T) (ok bool) {
	defer func() {
		if recover() != nil {
			ok = false
		}
	}()
	b, err := enc.Encode(context.Background(), v)
	if err != nil {
		return false
	}
	var out T
	n, err := dec.Decode(context.Background(), b, &out)
	return err == nil && n == len(b) && canonOf(out) == canonOf(v)
}

// decFails: v encodes under enc but its bytes do not decode under dec.
func decFails[T any](enc, dec *serix.API, v T) (fails bool) {
	defer func() {
		if recover() != nil {
			fails = false
		}
	}()
	b, err := enc.Encode(context.Background(), v)
	if err != nil {
		return false
	}
	var out T
	_, err = dec.Decode(context.Background(), b, &out)
	return err != nil
}

// elemPremise: a healthy element round-trips; a faulty one fails in the direction of the mode.
func elemPremise[T any](mode string, enc, dec *serix.API, v T, faulty bool) bool {
	switch {
	case !faulty:
		return roundTrips(enc, dec, v)
	case mode == "encode":
		return encFails(enc, v)
	default:
		return decFails(enc, dec, v)
	}
}

// side: a nil generator means "this side is never the faulty one".
type gens[K comparable, V any] struct {
	goodK func(i int) K // distinct for distinct i
	goodV func(i int) V
	badK  func(i int) K // distinct for distinct i, and distinct from every goodK
	badV  func(i int) V
}

func buildMap[K comparable, V any](mode string, enc, dec *serix.API, n int, pos []int, g gens[K, V]) (faultBox, []bool, bool) {
	box := &mapBox[K, V]{m: serializableorderedmap.New[K, V]()}
	isBad := make([]bool, n)
	for _, p := range pos {
		isBad[p] = true
	}
	premise := true
	for i := 0; i < n; i++ {
		k, v := g.goodK(i), g.goodV(i)
		kBad, vBad := false, false
		if isBad[i] {
			if g.badK != nil {
				k, kBad = g.badK(i), true
			}
			if g.badV != nil {
				v, vBad = g.badV(i), true
			}
			box.bad = append(box.bad, k)
		}
		premise = premise && elemPremise(mode, enc, dec, k, kBad) && elemPremise(mode, enc, dec, v, vBad)
		box.m.Set(k, v)
	}
	return box, isBad, premise && box.m.Size() == n
}

func buildSet[T comparable](mode string, enc, dec *serix.API, n int, pos []int, good, bad func(i int) T) (faultBox, []bool, bool) {
	box := &setBox[T]{s: ds.NewSet[T]()}
	isBad := make([]bool, n)
	for _, p := range pos {
		isBad[p] = true
	}
	premise := true
	for i := 0; i < n; i++ {
		e := good(i)
		if isBad[i] {
			e = bad(i)
			box.bad = append(box.bad, e)
		}
		premise = premise && elemPremise(mode, enc, dec, e, isBad[i])
		box.s.Add(e)
	}
	return box, isBad, premise && box.s.Size() == n
}

// ---------------------------------------------------------------- the oracle

func sameStrings(a, b []string) bool {
	if len(a) != len(b) {
		return false
	}
	for i := range a {
		if a[i] != b[i] {
			return false
		}
	}
	return true
}

func clip(s []string) string {
	t := fmt.Sprint(s)
	if len(t) > 300 {
		t = t[:300] + "…"
	}
	return t
}

// roundTripOf decodes b into an empty container of the same type and compares with want.
func roundTripOf(dec *serix.API, box faultBox, b []byte, want []string) string {
	dst := box.fresh()
	n, err := dst.decode(dec, b)
	if err != nil {
		return fmt.Sprintf("the %d bytes do not decode: %v", len(b), err)
	}
	if n != len(b) {
		return fmt.Sprintf("Decode consumed %d of the %d bytes", n, len(b))
	}
	if got := dst.entries(); !sameStrings(got, want) || dst.size() != len(want) {
		return fmt.Sprintf("the bytes decode to %s (Size %d), the container holds %s", clip(got), dst.size(), clip(want))
	}
	return ""
}

type faultStats struct{ encodeErrors, decodeErrors, prefixes int }

func judgeEncodeFault(enc, dec *serix.API, box faultBox, isBad []bool, st *faultStats) (kind, what string) {
	defer func() {
		if p := recover(); p != nil {
			kind, what = "panic", fmt.Sprintf("Encode/Decode panicked: %v", p)
		}
	}()
	before := box.entries()
	b, err := box.encode(enc)
	if err == nil {
		if why := roundTripOf(dec, box, b, before); why != "" {
			return "encode-success-without-round-trip", fmt.Sprintf("Encode returned %d bytes and a nil error although an entry cannot be encoded, and %s", len(b), why)
		}
	} else {
		st.encodeErrors++
	}
	if after := box.entries(); !sameStrings(before, after) {
		return "encode-changed-contents", fmt.Sprintf("contents %s before the failing Encode, %s after it", clip(before), clip(after))
	}
	// the healthy rest
	var rest []string
	for i, e := range before {
		if !isBad[i] {
			rest = append(rest, e)
		}
	}
	box.dropBad()
	if got := box.entries(); !sameStrings(got, rest) {
		return "", "" // Delete is judged by the sequential model, not here
	}
	b2, err := box.encode(enc)
	if err != nil {
		return "encode-error-after-fault-removed", fmt.Sprintf("after deleting the entries that cannot be encoded, Encode of %s still fails: %v", clip(rest), err)
	}
	if why := roundTripOf(dec, box, b2, rest); why != "" {
		return "no-round-trip-after-fault-removed", fmt.Sprintf("after deleting the entries that cannot be encoded, Encode gives %d bytes but %s", len(b2), why)
	}
	return judgePrefixes(dec, box, b2, st)
}

// judgePrefixes: no strict prefix of a valid encoding (which Decode consumes completely) may decode without error.
func judgePrefixes(dec *serix.API, box faultBox, b []byte, st *faultStats) (kind, what string) {
	for cut := 0; cut < len(b); cut++ {
		dst := box.fresh()
		n, err := dst.decode(dec, b[:cut:cut])
		if err != nil {
			st.prefixes++
		} else {
			return "decode-truncated-success", fmt.Sprintf("the first %d of %d bytes of a valid encoding of %d entries decode with a nil error (bytesRead %d, Size %d)", cut, len(b), box.size(), n, dst.size())
		}
	}
	return "", ""
}

func judgeDecodeFault(enc, dec *serix.API, box faultBox, st *faultStats) (kind, what string) {
	defer func() {
		if p := recover(); p != nil {
			kind, what = "panic", fmt.Sprintf("Encode/Decode panicked: %v", p)
		}
	}()
	b, err := box.encode(enc)
	if err != nil {
		return "encode-error-on-encodable-contents", fmt.Sprintf("every entry encodes on its own, Encode of the container fails: %v", err)
	}
	dst := box.fresh()
	n, err := dst.decode(dec, b)
	if err == nil {
		return "decode-fault-success", fmt.Sprintf("an entry of the %d encoded ones cannot be decoded, but Decode returned a nil error (bytesRead %d of %d, Size %d)", box.size(), n, len(b), dst.size())
	}
	st.decodeErrors++
	return "", ""
}

// ---------------------------------------------------------------- shapes

type faultCase struct {
	Kind    string `json:"kind"` // "codecfault"
	Shape   string `json:"shape"`
	Mode    string `json:"mode"` // "encode" | "decode"
	Entries int    `json:"entries"`
	Pos     []int  `json:"faulty_positions"`
	Seed    int64  `json:"seed"`
	What    string `json:"what,omitempty"`
}

var faultShapes = map[string][]string{
	"encode": {
		"map[self]uint8/key-refuses", "map[uint8]self/value-refuses", "map[self]self/both-refuse",
		"map[string][]uint16/key-overlong-string", "map[string][]uint16/value-overlong-slice",
		"map[uint16]*struct/value-nil-pointer", "map[uint16]*struct/value-nested-overlong-slice",
		"map[struct]struct/value-nested-nil-pointer", "map[struct]struct/value-nested-overlong-slice",
		"map[uint8]holder/value-unregistered-type", "map[uint8]holder/value-empty-interface", "map[holder]uint8/key-unregistered-type",
		"set[self]/refuses", "set[string]/overlong-string", "set[holder]/unregistered-type", "set[*struct]/nil-pointer",
	},
	"decode": {
		"map[self]uint8/key-refuses", "map[uint8]self/value-refuses", "set[self]/refuses",
		"map[uint8]holder/value-unknown-type", "map[holder]uint8/key-unknown-type", "set[holder]/unknown-type",
	},
}

func runFaultCase(fc faultCase) (fp, what string, st faultStats, premise bool) {
	r := rand.New(rand.NewSource(fc.Seed))
	enc := newFaultAPI(true)
	dec := enc
	mode, n, pos := fc.Mode, fc.Entries, fc.Pos
	for _, p := range pos {
		if p < 0 || p >= n {
			return "", "", st, false
		}
	}
	// element generators; every one is injective in i
	salt := uint8(r.Intn(20))
	u8 := func(i int) uint8 { return uint8(i)*20 + salt }
	u16 := func(i int) uint16 { return uint16(i)*100 + uint16(salt) }
	tags := make([]uint8, n)
	longs := make([]int, n)
	u16s := make([][]uint16, n)
	inners := make([]*codecInner, n)
	outers := make([]codecOuter, n)
	for i := range tags {
		tags[i], longs[i], u16s[i], inners[i], outers[i] = uint8(r.Intn(256)), 256+r.Intn(120), rU16s(r), rInner(r), rOuter(r)
	}
	selfGood := func(i int) selfElem { return selfElem{ID: uint8(i)*7 + salt%7, Tag: tags[i]} }
	selfBad := func(i int) selfElem {
		if mode == "decode" {
			return selfElem{ID: 100 + uint8(i)*7 + salt%7, Tag: tags[i]}
		}
		return selfElem{ID: 200 + uint8(i)*7 + salt%7, Tag: tags[i]}
	}
	strGood := func(i int) string { return string(rune('a'+i)) + strings.Repeat("y", int(tags[i])%4) }
	strBad := func(i int) string { return string(rune('A'+i)) + strings.Repeat("x", longs[i]) }
	sliceGood := func(i int) []uint16 { return u16s[i] }
	sliceBad := func(i int) []uint16 { return make([]uint16, longs[i]) }
	innerGood := func(i int) *codecInner { return inners[i] }
	innerNil := func(int) *codecInner { return nil }
	innerLong := func(i int) *codecInner { return &codecInner{A: 1, B: make([]uint16, longs[i])} }
	keyGood := func(i int) codecKey { return codecKey{A: uint8(i), B: u16(i), C: [3]uint8{salt, 7, tags[i]}} }
	outerGood := func(i int) codecOuter { return outers[i] }
	outerNil := func(i int) codecOuter { o := outers[i]; o.Q = nil; return o }
	outerLong := func(i int) codecOuter { o := outers[i]; o.Q = innerLong(i); return o }
	holdGood := func(i int) ifaceHolder { return ifaceHolder{N: u8(i), F: &ifaceA{X: tags[i]}} }
	holdC := func(i int) ifaceHolder { return ifaceHolder{N: u8(i), F: &ifaceC{Z: tags[i]}} }
	holdNone := func(i int) ifaceHolder { return ifaceHolder{N: u8(i)} }
	holdB := func(i int) ifaceHolder { return ifaceHolder{N: u8(i), F: &ifaceB{Y: u16(i)}} }
	ptrs := make([]*codecInner, n) // distinct pointer identities for set[*struct]
	for i := range ptrs {
		ptrs[i] = inners[i]
	}

	var box faultBox
	var isBad []bool
	switch fc.Shape {
	case "map[self]uint8/key-refuses":
		box, isBad, premise = buildMap(mode, enc, dec, n, pos, gens[selfElem, uint8]{goodK: selfGood, goodV: u8, badK: selfBad})
	case "map[uint8]self/value-refuses":
		box, isBad, premise = buildMap(mode, enc, dec, n, pos, gens[uint8, selfElem]{goodK: u8, goodV: selfGood, badV: selfBad})
	case "map[self]self/both-refuse":
		box, isBad, premise = buildMap(mode, enc, dec, n, pos, gens[selfElem, selfElem]{goodK: selfGood, goodV: selfGood, badK: selfBad, badV: selfBad})
	case "map[string][]uint16/key-overlong-string":
		box, isBad, premise = buildMap(mode, enc, dec, n, pos, gens[string, []uint16]{goodK: strGood, goodV: sliceGood, badK: strBad})
	case "map[string][]uint16/value-overlong-slice":
		box, isBad, premise = buildMap(mode, enc, dec, n, pos, gens[string, []uint16]{goodK: strGood, goodV: sliceGood, badV: sliceBad})
	case "map[uint16]*struct/value-nil-pointer":
		box, isBad, premise = buildMap(mode, enc, dec, n, pos, gens[uint16, *codecInner]{goodK: u16, goodV: innerGood, badV: innerNil})
	case "map[uint16]*struct/value-nested-overlong-slice":
		box, isBad, premise = buildMap(mode, enc, dec, n, pos, gens[uint16, *codecInner]{goodK: u16, goodV: innerGood, badV: innerLong})
	case "map[struct]struct/value-nested-nil-pointer":
		box, isBad, premise = buildMap(mode, enc, dec, n, pos, gens[codecKey, codecOuter]{goodK: keyGood, goodV: outerGood, badV: outerNil})
	case "map[struct]struct/value-nested-overlong-slice":
		box, isBad, premise = buildMap(mode, enc, dec, n, pos, gens[codecKey, codecOuter]{goodK: keyGood, goodV: outerGood, badV: outerLong})
	case "map[uint8]holder/value-unregistered-type":
		box, isBad, premise = buildMap(mode, enc, dec, n, pos, gens[uint8, ifaceHolder]{goodK: u8, goodV: holdGood, badV: holdC})
	case "map[uint8]holder/value-empty-interface":
		box, isBad, premise = buildMap(mode, enc, dec, n, pos, gens[uint8, ifaceHolder]{goodK: u8, goodV: holdGood, badV: holdNone})
	case "map[holder]uint8/key-unregistered-type":
		box, isBad, premise = buildMap(mode, enc, dec, n, pos, gens[ifaceHolder, uint8]{goodK: holdGood, goodV: u8, badK: holdC})
	case "set[self]/refuses":
		box, isBad, premise = buildSet(mode, enc, dec, n, pos, selfGood, selfBad)
	case "set[string]/overlong-string":
		box, isBad, premise = buildSet(mode, enc, dec, n, pos, strGood, strBad)
	case "set[holder]/unregistered-type":
		box, isBad, premise = buildSet(mode, enc, dec, n, pos, holdGood, holdC)
	case "set[*struct]/nil-pointer":
		box, isBad, premise = buildSet(mode, enc, dec, n, pos, func(i int) *codecInner { return ptrs[i] }, innerNil)
	case "map[uint8]holder/value-unknown-type":
		dec = newFaultAPI(false)
		box, isBad, premise = buildMap(mode, enc, dec, n, pos, gens[uint8, ifaceHolder]{goodK: u8, goodV: holdGood, badV: holdB})
	case "map[holder]uint8/key-unknown-type":
		dec = newFaultAPI(false)
		box, isBad, premise = buildMap(mode, enc, dec, n, pos, gens[ifaceHolder, uint8]{goodK: holdGood, goodV: u8, badK: holdB})
	case "set[holder]/unknown-type":
		dec = newFaultAPI(false)
		box, isBad, premise = buildSet(mode, enc, dec, n, pos, holdGood, holdB)
	default:
		return "", "", st, false
	}
	if !premise || len(pos) == 0 {
		return "", "", st, false
	}
	var kind string
	if mode == "encode" {
		kind, what = judgeEncodeFault(enc, dec, box, isBad, &st)
	} else {
		kind, what = judgeDecodeFault(enc, dec, box, &st)
	}
	if kind == "" {
		return "", "", st, true
	}
	return "codecfault:" + kind,
		fmt.Sprintf("%s with %d entries, entries at positions %v cannot be %sd (seed %d): %s", fc.Shape, n, pos, mode, fc.Seed, what), st, true
}

// codecFaultCases: every shape x 1..5 entries x every single faulty position, plus seeded two-fault cases.
func (l *local) codecFaultCases(rng *rand.Rand, rounds int) {
	reported := map[string]int{}
	for round := 0; round < rounds; round++ {
		for _, mode := range []string{"encode", "decode"} {
			for _, shape := range faultShapes[mode] {
				for n := 1; n <= 5; n++ {
					var poss [][]int
					for p := 0; p < n; p++ {
						poss = append(poss, []int{p})
					}
					if n >= 2 {
						a := rng.Intn(n)
						b := (a + 1 + rng.Intn(n-1)) % n
						poss = append(poss, []int{min(a, b), max(a, b)})
					}
					for _, pos := range poss {
						if len(pos) > 1 && strings.HasPrefix(shape, "set[*struct]") {
							continue // two nil pointers are one element
						}
						fc := faultCase{Kind: "codecfault", Shape: shape, Mode: mode, Entries: n, Pos: pos, Seed: rng.Int63()}
						fp, what, st, premise := runFaultCase(fc)
						l.evals++
						if !premise {
							l.counts["codecfault:premise-not-met"]++
							continue
						}
						l.counts["codecfault:"+mode+":"+shape]++
						l.counts["codecfault:"+mode+"-fault-cases"]++
						l.counts["codecfault:encode-errors-returned"] += st.encodeErrors
						l.counts["codecfault:decode-errors-returned"] += st.decodeErrors
						l.counts["codecfault:truncated-prefixes-rejected"] += st.prefixes
						l.distinct[mixHash(0, fmt.Sprint("codecfault", mode, shape, n, pos))] = struct{}{}
						if fp != "" {
							if reported[fp]++; reported[fp] <= 4 { // keep room for the other classes
								fc.What = what
								l.viol(fp, what, fc)
							}
						}
					}
				}
			}
		}
	}
}
