package main

// Internal consistency of OrderedMap / ds.Set at quiescence (all goroutines of a concurrent round joined), panics
// raised inside hive.go during a round, and the delete/re-insert and clear/insert racing rounds.

import (
	"fmt"
	"math/rand"
	"runtime"
	"runtime/debug"
	"strings"
	"sync"

	"github.com/iotaledger/hive.go/ds"
	"github.com/iotaledger/hive.go/ds/orderedmap"
	"verif/harness/internal/vf"
)

// ------------------------------------------------------------------ panics inside a round

var (
	panicMu  sync.Mutex
	panicLog []string // "<innermost hive.go function>|<panic value>|<stack excerpt>"
)

// guard is deferred by every workload goroutine: a panic raised by hive.go under concurrent use is recorded (the
// goroutine ends, the round is judged as a violation) instead of killing the child.
func guard() {
	if p := recover(); p != nil {
		st := string(debug.Stack())
		inner := "?"
		for _, l := range strings.Split(st, "\n") {
			if i := strings.Index(l, "github.com/iotaledger/hive.go/"); i == 0 {
				f := l[len("github.com/iotaledger/hive.go/"):]
				if j := strings.LastIndexByte(f, '('); j > 0 {
					f = f[:j]
				}
				inner = typeParamRe.ReplaceAllString(f, "")
				break
			}
		}
		if len(st) > 3000 {
			st = st[:3000]
		}
		panicMu.Lock()
		panicLog = append(panicLog, fmt.Sprintf("%s|%v|%s", inner, p, st))
		panicMu.Unlock()
	}
}

type roundCase struct {
	Kind    string `json:"kind"` // "round"
	Pattern string `json:"pattern"`
	Seed    int64  `json:"seed"`
	What    string `json:"what"`
	Detail  string `json:"detail,omitempty"`
}

// drainPanics reports the panics recorded since the last call; returns how many.
func drainPanics(c *vf.Ctx, pattern string, seed int64) int {
	panicMu.Lock()
	ps := panicLog
	panicLog = nil
	panicMu.Unlock()
	for _, p := range ps {
		f := strings.SplitN(p, "|", 3)
		c.Violation("concurrent-panic:"+f[0], fmt.Sprintf("%s: a method panicked under concurrent use (%s) in %s – every method must return", pattern, f[1], f[0]),
			roundCase{Kind: "round", Pattern: pattern, Seed: seed, What: "panic: " + f[1], Detail: f[2]})
	}
	return len(ps)
}

// ------------------------------------------------------------------ invariants at quiescence

const iterLimit = 4096

// mapInvariant: with no operation in flight the ordered map must be internally consistent.
func mapInvariant(m *omap, universe int) (kind, what string) {
	defer func() {
		if p := recover(); p != nil {
			kind, what = "panic", fmt.Sprintf("read-only methods panicked at quiescence: %v", p)
		}
	}()
	var fwd, rev []int
	m.ForEach(func(k int, _ uint64) bool { fwd = append(fwd, k); return len(fwd) < iterLimit })
	m.ForEachReverse(func(k int, _ uint64) bool { rev = append(rev, k); return len(rev) < iterLimit })
	seen := map[int]bool{}
	for _, k := range fwd {
		if seen[k] {
			return "duplicate-key", fmt.Sprintf("ForEach visits key %d twice: %v", k, fwd)
		}
		seen[k] = true
	}
	if len(fwd) != len(rev) {
		return "forward-vs-reverse", fmt.Sprintf("ForEach visits %v, ForEachReverse %v", fwd, rev)
	}
	for i := range fwd {
		if fwd[i] != rev[len(rev)-1-i] {
			return "forward-vs-reverse", fmt.Sprintf("ForEach visits %v, ForEachReverse %v", fwd, rev)
		}
	}
	if m.Size() != len(fwd) || m.IsEmpty() != (len(fwd) == 0) {
		return "size-vs-iteration", fmt.Sprintf("Size()=%d IsEmpty()=%v but ForEach visits %v", m.Size(), m.IsEmpty(), fwd)
	}
	for k := -1; k <= universe; k++ {
		_, got := m.Get(k)
		if m.Has(k) != seen[k] || got != seen[k] {
			return "has-vs-iteration", fmt.Sprintf("Has(%d)=%v Get exists=%v but ForEach visits %v", k, m.Has(k), got, fwd)
		}
	}
	hk, _, hok := m.Head()
	tk, _, tok := m.Tail()
	if hok != (len(fwd) > 0) || tok != (len(fwd) > 0) || (hok && hk != fwd[0]) || (tok && tk != fwd[len(fwd)-1]) {
		return "head-tail", fmt.Sprintf("Head=(%d,%v) Tail=(%d,%v) but ForEach visits %v", hk, hok, tk, tok, fwd)
	}
	return "", ""
}

// setInvariant: the same for ds.Set.
func setInvariant(s ds.Set[int], universe int) (kind, what string) {
	defer func() {
		if p := recover(); p != nil {
			kind, what = "panic", fmt.Sprintf("read-only methods panicked at quiescence: %v", p)
		}
	}()
	sl := s.ToSlice()
	var fe, it []int
	n := 0
	_ = s.ForEach(func(e int) error {
		fe = append(fe, e)
		if n++; n > iterLimit {
			return fmt.Errorf("stop")
		}
		return nil
	})
	for w := s.Iterator(); w.HasNext() && len(it) < iterLimit; {
		it = append(it, w.Next())
	}
	seen := map[int]bool{}
	for _, e := range sl {
		if seen[e] {
			return "duplicate-key", fmt.Sprintf("ToSlice contains %d twice: %v", e, sl)
		}
		seen[e] = true
	}
	if fmt.Sprint(sl) != fmt.Sprint(fe) {
		return "toslice-vs-foreach", fmt.Sprintf("ToSlice=%v ForEach=%v", sl, fe)
	}
	// the walker de-duplicates, so compare as sets and by length
	if len(it) != len(sl) {
		return "iterator-vs-toslice", fmt.Sprintf("Iterator yields %v, ToSlice %v", it, sl)
	}
	if s.Size() != len(sl) || s.IsEmpty() != (len(sl) == 0) {
		return "size-vs-iteration", fmt.Sprintf("Size()=%d IsEmpty()=%v but ToSlice=%v", s.Size(), s.IsEmpty(), sl)
	}
	for e := -1; e <= universe; e++ {
		if s.Has(e) != seen[e] {
			return "has-vs-iteration", fmt.Sprintf("Has(%d)=%v but ToSlice=%v", e, s.Has(e), sl)
		}
	}
	if !s.HasAll(ds.NewSet(sl...)) || !s.Equals(ds.NewSet(sl...)) {
		return "hasall-vs-iteration", fmt.Sprintf("HasAll/Equals of its own elements %v is false", sl)
	}
	return "", ""
}

func reportInvariant(c *vf.Ctx, structure, pattern string, seed int64, kind, what string) {
	if kind == "" {
		return
	}
	c.Violation("quiescent-inconsistency:"+structure+":"+kind, fmt.Sprintf("%s after %s (all goroutines joined, seed %d): %s", structure, pattern, seed, what),
		roundCase{Kind: "round", Pattern: pattern, Seed: seed, What: what})
}

// ------------------------------------------------------------------ racing rounds

// mapRaceRound: few keys, three goroutines; pattern "delete-reinsert": Delete(k) || Delete(k);Set(k) || Delete(k);
// pattern "clear-set": Clear || Set(k) || Delete(k);Set(k). Short rounds so that a corruption is still visible when the
// round is judged.
func mapRaceRound(pattern string, seed int64, ops int) *omap {
	m := orderedmap.New[int, uint64]()
	rop_single_MapSet(m, 0, 1)
	rop_single_MapSet(m, 1, 2)
	var wg sync.WaitGroup
	start := make(chan struct{})
	for g := 0; g < 3; g++ {
		wg.Add(1)
		go func(g int) {
			defer wg.Done()
			defer guard()
			rng := rand.New(rand.NewSource(seed*17 + int64(g)))
			<-start
			for i := 0; i < ops; i++ {
				k := rng.Intn(2)
				if rng.Intn(3) == 0 {
					runtime.Gosched()
				}
				switch {
				case g == 0 && pattern == "clear-set":
					if i%3 == 0 {
						rop_other_MapMisc(m, 2) // Clear
					} else {
						rop_single_MapSet(m, k, uint64(100+i))
					}
				case g == 0 || g == 2 && pattern == "delete-reinsert":
					rop_single_MapDelete(m, k)
				default:
					rop_single_MapDelete(m, k)
					rop_single_MapSet(m, k, uint64(1000*g+i))
				}
			}
		}(g)
	}
	close(start)
	wg.Wait()
	return m
}

func setRaceRound(pattern string, seed int64, ops int) ds.Set[int] {
	s := ds.NewSet(0, 1)
	var wg sync.WaitGroup
	start := make(chan struct{})
	for g := 0; g < 3; g++ {
		wg.Add(1)
		go func(g int) {
			defer wg.Done()
			defer guard()
			rng := rand.New(rand.NewSource(seed*19 + int64(g)))
			<-start
			for i := 0; i < ops; i++ {
				e := rng.Intn(2)
				if rng.Intn(3) == 0 {
					runtime.Gosched()
				}
				switch {
				case g == 0 && pattern == "clear-set":
					if i%3 == 0 {
						rop_other_Clear(s)
					} else {
						rop_single_SetAdd(s, e)
					}
				case g == 0 || g == 2 && pattern == "delete-reinsert":
					rop_single_SetDelete(s, e)
				default:
					rop_single_SetDelete(s, e)
					rop_single_SetAdd(s, e)
				}
			}
		}(g)
	}
	close(start)
	wg.Wait()
	return s
}

// raceRounds runs n rounds of each pattern on both structures and judges each at quiescence.
func raceRounds(c *vf.Ctx, idx, n int) {
	for i := 0; i < n; i++ {
		seed := c.Seed*7000003 + int64(idx)*500009 + int64(i)
		for _, pattern := range []string{"delete-reinsert", "clear-set"} {
			ops := 3 + i%6
			m := mapRaceRound(pattern, seed, ops)
			if drainPanics(c, "OrderedMap "+pattern+" round", seed) == 0 {
				k, w := mapInvariant(m, 2)
				reportInvariant(c, "orderedmap", pattern+" round (Delete(k) || Delete(k);Set(k) || Clear/Set on 2 keys)", seed, k, w)
			}
			s := setRaceRound(pattern, seed, ops)
			if drainPanics(c, "ds.Set "+pattern+" round", seed) == 0 {
				k, w := setInvariant(s, 2)
				reportInvariant(c, "set", pattern+" round (Delete(e) || Delete(e);Add(e) || Clear/Add on 2 elements)", seed, k, w)
			}
			c.Count("evaluations", 2)
			c.Count("racing_rounds:"+pattern, 2)
			c.Count("quiescent_consistency_checks", 2)
		}
	}
}
