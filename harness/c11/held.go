package main

// Held results and scribbling (discipline 1 of harness/DISCIPLINES.md): caller-owned memory across the API boundary.
//
// One seeded history on one ds.Set[uint32] (plus an OrderedMap and a SerializableOrderedMap with byte-slice values).
// Everything a call returns that is a slice, a set, a mutation object, an iterator, a byte slice or a cloned map is
// KEPT by the caller together with a deep copy taken at that moment; after every later step every kept object is
// compared with its copy (…/held-result-changed), and when it is dropped (1–5 steps later) half of them are scribbled
// first (slices overwritten, sorted, appended to within and beyond their capacity; sets and clones mutated and
// cleared; byte slices overwritten), after which the receiver, every other kept object and every argument set must
// still equal their models. Every set the caller passes in (AddAll / DeleteAll / Replace / HasAll / Equals /
// Intersect arguments, the added and deleted sets of Apply / Compute requests, element slices of the constructors,
// the buffer handed to Decode) stays the caller's: the call must not change it, and the caller keeps mutating it
// afterwards, which must change neither the receiver nor any result handed out earlier.
//
// Demanded only where the unchanged tree gives it: ReadOnly() shares by design (never held), values of an ordered map
// are stored as given (no copy demanded), the order of elements after Replace is taken from the tree.

import (
	"bytes"
	"fmt"
	"math/rand"
	"sort"

	"github.com/iotaledger/hive.go/ds"
	"github.com/iotaledger/hive.go/ds/orderedmap"
	"github.com/iotaledger/hive.go/ds/serializableorderedmap"
	"github.com/iotaledger/hive.go/ds/walker"
)

type heldCase struct {
	Kind  string   `json:"kind"` // "held"
	Seed  int64    `json:"seed"`
	Steps int      `json:"steps"`
	Log   []string `json:"log,omitempty"`
	What  string   `json:"what,omitempty"`
}

type heldBlob struct {
	B []byte `serix:",lenPrefix=uint8"`
}

type heldObj struct {
	src   string // where it came from: "ToSlice", "Apply.added", …
	ttl   int
	slice []uint32
	set   ds.ReadableSet[uint32]
	wset  ds.Set[uint32]
	walk  *walker.Walker[uint32]
	raw   []byte
	omap  *orderedmap.OrderedMap[uint32, uint64]
	smap  *serializableorderedmap.SerializableOrderedMap[uint8, heldBlob]
	copyS []uint32 // contents at the time it was handed out (iteration order)
	copyB []byte
	copyV []uint64
	copyX [][]byte
}

type heldArg struct {
	s      ds.Set[uint32]
	model  []uint32
	usedIn string
}

type heldWorld struct {
	rng    *rand.Rand
	s      ds.Set[uint32]
	order  []uint32
	m      *orderedmap.OrderedMap[uint32, uint64]
	mk     []uint32
	mv     []uint64
	args   []*heldArg
	held   []*heldObj
	counts map[string]int
	log    []string
	last   string // the step just executed (blamed when something else changed)
	lastFP string // its class, for fingerprints
	fp     string
	what   string
	nextV  uint64
}

const heldUni = 8

func (w *heldWorld) bad(fp, f string, a ...any) {
	if w.fp == "" {
		w.fp, w.what = "held:"+fp, fmt.Sprintf(f, a...)
	}
}

func (w *heldWorld) blame() string {
	if w.lastFP != "" {
		return w.lastFP
	}
	return w.last
}

func (w *heldWorld) subset() []uint32 {
	var out []uint32
	for e := uint32(0); e < heldUni; e++ {
		if w.rng.Intn(3) == 0 {
			out = append(out, e)
		}
	}
	w.rng.Shuffle(len(out), func(i, j int) { out[i], out[j] = out[j], out[i] })
	return out
}

func (w *heldWorld) newArg() *heldArg {
	els := w.subset()
	return &heldArg{s: ds.NewSet(els...), model: append([]uint32{}, els...)}
}

func (w *heldWorld) keep(src string, o *heldObj) {
	o.src, o.ttl = src, 1+w.rng.Intn(5)
	w.held = append(w.held, o)
	w.counts["held:kept:"+src]++
}

func (w *heldWorld) keepSet(src string, s ds.Set[uint32]) {
	if s == nil {
		w.bad(src+"/nil-result", "%s returned a nil set", src)
		return
	}
	w.keep(src, &heldObj{set: s, wset: s, copyS: s.ToSlice()})
}

func minus(a, b []uint32) (out []uint32) {
	for _, e := range a {
		if !contains(b, e) {
			out = append(out, e)
		}
	}
	return
}

func inter(a, b []uint32) (out []uint32) {
	for _, e := range a {
		if contains(b, e) {
			out = append(out, e)
		}
	}
	return
}

// verify compares everything the caller owns or was handed with its copy / model.
func (w *heldWorld) verify() {
	if got := w.s.ToSlice(); !eqSlice(got, w.order) || w.s.Size() != len(w.order) {
		w.bad(w.blame()+"/receiver-changed", "after %s the set iterates %v (Size %d), the model holds %v", w.last, got, w.s.Size(), w.order)
	}
	for i, a := range w.args {
		if got := a.s.ToSlice(); !eqSlice(got, a.model) {
			w.bad(w.blame()+"/argument-changed", "after %s the caller's own set #%d (last passed to %q) iterates %v, the caller left it as %v", w.last, i, a.usedIn, got, a.model)
		}
	}
	var mk []uint32
	var mv []uint64
	w.m.ForEach(func(k uint32, v uint64) bool { mk = append(mk, k); mv = append(mv, v); return len(mk) < 100 })
	if !eqSlice(mk, w.mk) || fmt.Sprint(mv) != fmt.Sprint(w.mv) {
		w.bad(w.blame()+"/receiver-changed", "after %s the ordered map iterates %v=%v, the model holds %v=%v", w.last, mk, mv, w.mk, w.mv)
	}
	for _, o := range w.held {
		w.counts["held:rechecked"]++
		switch {
		case o.slice != nil || o.src == "ToSlice":
			if !eqSlice(o.slice, o.copyS) {
				w.bad(o.src+"/held-result-changed", "the slice returned by %s was %v and reads %v after %s", o.src, o.copyS, o.slice, w.last)
			}
		case o.set != nil:
			if got := o.set.ToSlice(); !eqSlice(got, o.copyS) {
				w.bad(o.src+"/held-result-changed", "the set returned by %s held %v and holds %v after %s", o.src, o.copyS, got, w.last)
			}
		case o.raw != nil:
			if !bytes.Equal(o.raw, o.copyB) {
				w.bad(o.src+"/held-result-changed", "the bytes returned by %s were %x and read %x after %s", o.src, o.copyB, o.raw, w.last)
			}
		case o.omap != nil:
			var ks []uint32
			var vs []uint64
			o.omap.ForEach(func(k uint32, v uint64) bool { ks = append(ks, k); vs = append(vs, v); return len(ks) < 100 })
			if !eqSlice(ks, o.copyS) || fmt.Sprint(vs) != fmt.Sprint(o.copyV) {
				w.bad(o.src+"/held-result-changed", "the map returned by %s held %v=%v and holds %v=%v after %s", o.src, o.copyS, o.copyV, ks, vs, w.last)
			}
		case o.smap != nil:
			i := 0
			o.smap.ForEach(func(k uint8, v heldBlob) bool {
				if i >= len(o.copyX) || uint32(k) != o.copyS[i] || !bytes.Equal(v.B, o.copyX[i]) {
					w.bad(o.src+"/held-result-changed", "entry %d of the decoded map reads %d=%x after %s, decoded was %v=%x", i, k, v.B, w.last, o.copyS, o.copyX)
				}
				i++
				return i < 100
			})
			if i != len(o.copyX) {
				w.bad(o.src+"/held-result-changed", "the decoded map has %d entries after %s, decoded were %d", i, w.last, len(o.copyX))
			}
		}
	}
}

// scribble: the caller does what it likes with what it was given.
func (w *heldWorld) scribble(o *heldObj) {
	w.counts["held:scribbled"]++
	w.counts["held:scribbled:"+o.src]++
	w.last, w.lastFP = "scribbling the result of "+o.src, "scribble("+o.src+")"
	switch {
	case o.slice != nil || o.src == "ToSlice":
		for i := range o.slice {
			o.slice[i] = 777
		}
		full := o.slice[:cap(o.slice)]
		for i := range full {
			full[i] = 778
		}
		o.slice = append(o.slice, 779, 780, 781)
		sort.Slice(o.slice, func(i, j int) bool { return o.slice[i] > o.slice[j] })
	case o.wset != nil:
		o.wset.Add(888)
		if len(o.copyS) > 0 {
			o.wset.Delete(o.copyS[0])
		}
		for e := uint32(0); e < heldUni; e += 2 {
			o.wset.Add(e)
		}
		if w.rng.Intn(2) == 0 {
			o.wset.Clear()
		}
	case o.walk != nil:
		var got []uint32
		for o.walk.HasNext() && len(got) < 100 {
			got = append(got, o.walk.Next())
		}
		if !eqSlice(got, o.copyS) {
			w.bad(o.src+"/held-result-changed", "the iterator returned by %s over %v delivered %v (drained %d steps later)", o.src, o.copyS, got, 1)
		}
	case o.raw != nil:
		for i := range o.raw {
			o.raw[i] = 0xEE
		}
		o.raw = append(o.raw[:cap(o.raw)], 0xEF, 0xEF)
	case o.omap != nil:
		o.omap.Set(888, 1)
		if len(o.copyS) > 0 {
			o.omap.Delete(o.copyS[len(o.copyS)-1])
			o.omap.Set(o.copyS[0], 2)
		}
		if w.rng.Intn(2) == 0 {
			o.omap.Clear()
		}
	case o.smap != nil:
		o.smap.ForEach(func(_ uint8, v heldBlob) bool {
			for i := range v.B {
				v.B[i] = 0xEE
			}
			return true
		})
	}
}

func (w *heldWorld) useArg(method string) *heldArg {
	i := w.rng.Intn(len(w.args))
	if w.rng.Intn(6) == 0 {
		w.args[i] = w.newArg()
	}
	w.args[i].usedIn = method
	w.counts["held:caller-sets-passed:"+method]++
	return w.args[i]
}

// disjointArgs: two caller-owned sets without a common element (overlapping requests of Apply are not in the statement)
func (w *heldWorld) disjointArgs(method string) (a, d *heldArg) {
	a = w.useArg(method + "(added)")
	for tries := 0; ; tries++ {
		d = w.args[w.rng.Intn(len(w.args))]
		if d != a && len(inter(d.model, a.model)) == 0 {
			break
		}
		if tries > 4 {
			els := minus(w.subset(), a.model)
			d = &heldArg{s: ds.NewSet(els...), model: els}
			for i := range w.args {
				if w.args[i] != a {
					w.args[i] = d
					break
				}
			}
			break
		}
	}
	d.usedIn = method + "(deleted)"
	return a, d
}

func (w *heldWorld) step() {
	s := w.s
	w.lastFP = ""
	before := append([]uint32{}, w.order...)
	asSet := func(name string, got ds.Set[uint32], want []uint32) {
		if got == nil {
			w.bad(name+"/nil-result", "%s returned nil", name)
			return
		}
		if g := got.ToSlice(); !eqAsSets(g, want) {
			w.bad(name+"/result", "%s on %v returned %v, the membership change is %v", name, before, g, want)
		}
	}
	switch k := w.rng.Intn(20); k {
	case 0, 1:
		e := uint32(w.rng.Intn(heldUni))
		w.last = "Add"
		if s.Add(e) != !contains(w.order, e) {
			w.bad("Add/result", "Add(%d) on %v", e, before)
		}
		if !contains(w.order, e) {
			w.order = append(w.order, e)
		}
	case 2:
		e := uint32(w.rng.Intn(heldUni))
		w.last = "Delete"
		if s.Delete(e) != contains(w.order, e) {
			w.bad("Delete/result", "Delete(%d) on %v", e, before)
		}
		w.order = without(w.order, e)
	case 3:
		w.last = "ToSlice"
		r := s.ToSlice()
		w.keep("ToSlice", &heldObj{slice: r, copyS: append([]uint32{}, r...)})
	case 4:
		a := w.useArg("AddAll")
		w.last = "AddAll"
		r := s.AddAll(a.s)
		asSet("AddAll", r, minus(a.model, w.order))
		w.order = append(w.order, minus(a.model, w.order)...)
		w.keepSet("AddAll", r)
	case 5:
		a := w.useArg("DeleteAll")
		w.last = "DeleteAll"
		r := s.DeleteAll(a.s)
		asSet("DeleteAll", r, inter(a.model, w.order))
		w.order = minus(w.order, a.model)
		w.keepSet("DeleteAll", r)
	case 6:
		a := w.useArg("Replace")
		w.last = "Replace"
		r := s.Replace(a.s)
		asSet("Replace", r, minus(w.order, a.model))
		if got := s.ToSlice(); eqAsSets(got, a.model) {
			w.order = got // the order after Replace is not demanded
		} else {
			w.order = append([]uint32{}, a.model...)
		}
		w.keepSet("Replace", r)
	case 7:
		a := w.useArg("Intersect")
		w.last = "Intersect"
		r := s.Intersect(a.s)
		asSet("Intersect", r, inter(w.order, a.model))
		w.keepSet("Intersect", r)
	case 8:
		w.last = "Filter"
		r := s.Filter(func(e uint32) bool { return e%2 == 1 })
		var want []uint32
		for _, e := range w.order {
			if e%2 == 1 {
				want = append(want, e)
			}
		}
		asSet("Filter", r, want)
		w.keepSet("Filter", r)
	case 9:
		w.last = "Clone"
		r := s.Clone()
		asSet("Clone", r, w.order)
		w.keepSet("Clone", r)
	case 10:
		a := w.useArg("HasAll/Equals")
		w.last = "HasAll/Equals"
		if s.HasAll(a.s) != (len(minus(a.model, w.order)) == 0) || s.Equals(a.s) != eqAsSets(a.model, w.order) {
			w.bad("HasAll/result", "HasAll/Equals(%v) on %v", a.model, before)
		}
	case 11, 12, 13:
		method := "Apply"
		if k == 13 {
			method = "Compute"
		}
		a, d := w.disjointArgs(method)
		req := ds.NewSetMutations[uint32]().WithAddedElements(a.s).WithDeletedElements(d.s)
		w.last = method
		var r ds.SetMutations[uint32]
		if method == "Apply" {
			r = s.Apply(req)
		} else {
			r = s.Compute(func(ds.ReadableSet[uint32]) ds.SetMutations[uint32] { return req })
		}
		if r == nil || r.AddedElements() == nil || r.DeletedElements() == nil {
			w.bad(method+"/nil-result", "%s returned nil mutations", method)
			return
		}
		asSet(method+".added", r.AddedElements(), minus(a.model, w.order))
		asSet(method+".deleted", r.DeletedElements(), inter(d.model, w.order))
		w.order = minus(append(w.order, minus(a.model, w.order)...), d.model)
		w.keepSet(method+".added", r.AddedElements())
		w.keepSet(method+".deleted", r.DeletedElements())
		if req.AddedElements() != a.s || req.DeletedElements() != d.s {
			w.bad(method+"/request-rewired", "after %s the caller's request no longer refers to the sets the caller put there", method)
		}
		w.counts["held:fully-effective-requests"] += map[bool]int{true: 1}[len(a.model)+len(d.model) > 0 && len(minus(a.model, before)) == len(a.model) && len(inter(d.model, before)) == len(d.model)]
	case 14, 15:
		// the caller goes on using a set it passed earlier
		a := w.args[w.rng.Intn(len(w.args))]
		w.last = "the caller mutating its own set"
		w.lastFP = "caller-mutates-own-set"
		if a.usedIn != "" {
			w.last += " passed to " + a.usedIn + " before"
			w.lastFP = "caller-mutates-argument-of-" + a.usedIn
			w.counts["held:arguments-mutated-after-the-call"]++
		}
		switch w.rng.Intn(4) {
		case 0:
			a.s.Clear()
			a.model = nil
		case 1:
			if len(a.model) > 0 {
				e := a.model[w.rng.Intn(len(a.model))]
				a.s.Delete(e)
				a.model = without(a.model, e)
			}
		default:
			e := uint32(w.rng.Intn(heldUni))
			a.s.Add(e)
			if !contains(a.model, e) {
				a.model = append(a.model, e)
			}
		}
	case 16:
		w.last = "Iterator"
		it := s.Iterator()
		if it == nil {
			w.bad("Iterator/nil-result", "Iterator returned nil")
			return
		}
		w.keep("Iterator", &heldObj{walk: it, copyS: append([]uint32{}, w.order...)})
	case 17:
		// constructors take a caller slice; Encode hands out bytes; Decode reads a caller buffer
		els := w.subset()
		buf := make([]uint32, len(els), len(els)+3)
		copy(buf, els)
		var made ds.Set[uint32]
		switch w.rng.Intn(3) {
		case 0:
			w.last = "NewSet(elements...)"
			made = ds.NewSet(buf...)
		case 1:
			w.last = "NewSetMutations(elements...)"
			made = ds.NewSetMutations(buf...).AddedElements()
		default:
			w.last = "Encode/Decode"
			b, err := s.Encode(setAPI)
			if err != nil {
				w.bad("Encode/error", "Encode: %v", err)
				return
			}
			w.keep("Encode", &heldObj{raw: b, copyB: append([]byte{}, b...)})
			in := append(make([]byte, 0, len(b)+4), b...)
			made = ds.NewSet[uint32]()
			if _, err := made.Decode(setAPI, in); err != nil {
				w.bad("Decode/error", "Decode of Encode's output: %v", err)
				return
			}
			for i := range in {
				in[i] = 0xEE
			}
			els = w.order
		}
		for i := range buf[:cap(buf)] {
			buf[:cap(buf)][i] = 999
		}
		w.counts["held:caller-buffers-overwritten-after-the-call"]++
		if got := made.ToSlice(); !eqSlice(got, els) {
			w.bad("constructor-or-Decode/result", "%s from %v holds %v after the caller overwrote its buffer", w.last, els, got)
		}
		w.keepSet(w.last, made)
	case 18:
		// ordered map: writes and Clone
		if w.rng.Intn(2) == 0 {
			k := uint32(w.rng.Intn(heldUni))
			w.nextV++
			w.last = "OrderedMap.Set"
			w.m.Set(k, w.nextV)
			found := false
			for i := range w.mk {
				if w.mk[i] == k {
					w.mv[i], found = w.nextV, true
				}
			}
			if !found {
				w.mk, w.mv = append(w.mk, k), append(w.mv, w.nextV)
			}
			if w.rng.Intn(3) == 0 && len(w.mk) > 1 {
				i := w.rng.Intn(len(w.mk))
				w.m.Delete(w.mk[i])
				w.mk, w.mv = append(w.mk[:i:i], w.mk[i+1:]...), append(w.mv[:i:i], w.mv[i+1:]...)
			}
		} else {
			w.last = "OrderedMap.Clone"
			c := w.m.Clone()
			w.keep("OrderedMap.Clone", &heldObj{omap: c, copyS: append([]uint32{}, w.mk...), copyV: append([]uint64{}, w.mv...)})
		}
	case 19:
		// serialisable ordered map with byte-slice values: Encode output is held, the Decode input is overwritten
		w.last = "SerializableOrderedMap.Encode/Decode"
		sm := serializableorderedmap.New[uint8, heldBlob]()
		var ks []uint32
		var xs [][]byte
		for i, n := 0, 1+w.rng.Intn(3); i < n; i++ {
			b := make([]byte, 1+w.rng.Intn(4))
			w.rng.Read(b)
			sm.Set(uint8(i*3), heldBlob{B: b})
			ks, xs = append(ks, uint32(i*3)), append(xs, append([]byte{}, b...))
		}
		b, err := sm.Encode(setAPI)
		if err != nil {
			w.bad("SerializableOrderedMap.Encode/error", "Encode: %v", err)
			return
		}
		w.keep("SerializableOrderedMap.Encode", &heldObj{raw: b, copyB: append([]byte{}, b...)})
		in := append(make([]byte, 0, len(b)+4), b...)
		dm := serializableorderedmap.New[uint8, heldBlob]()
		if _, err := dm.Decode(setAPI, in); err != nil {
			w.bad("SerializableOrderedMap.Decode/error", "Decode of Encode's output: %v", err)
			return
		}
		for i := range in {
			in[i] = 0xEE
		}
		w.counts["held:caller-buffers-overwritten-after-the-call"]++
		w.keep("SerializableOrderedMap.Decode", &heldObj{smap: dm, copyS: ks, copyX: xs})
	}
}

func runHeldCase(hc heldCase, counts map[string]int) (fp, what string, log []string) {
	if counts == nil {
		counts = map[string]int{}
	}
	w := &heldWorld{rng: rand.New(rand.NewSource(hc.Seed)), s: ds.NewSet[uint32](), m: orderedmap.New[uint32, uint64](), counts: counts}
	for i := 0; i < 3; i++ {
		w.args = append(w.args, w.newArg())
	}
	p := try(func() {
		for i := 0; i < hc.Steps && w.fp == ""; i++ {
			w.step()
			w.log = append(w.log, w.last)
			w.verify()
			// drop what is due; half of it is scribbled first
			var kept, due []*heldObj
			for _, o := range w.held {
				if o.ttl--; o.ttl > 0 {
					kept = append(kept, o)
				} else {
					due = append(due, o)
				}
			}
			w.held = kept
			for _, o := range due {
				if w.fp == "" && (o.walk != nil || w.rng.Intn(2) == 0) {
					w.scribble(o)
					w.log = append(w.log, w.last)
					w.verify()
				}
			}
		}
	})
	if p != nil {
		w.bad("panic", "panicked after %s: %v", w.last, p)
	}
	return w.fp, w.what, w.log
}

func (l *local) heldCases(rng *rand.Rand, n int) {
	for i := 0; i < n; i++ {
		hc := heldCase{Kind: "held", Seed: rng.Int63(), Steps: 40}
		fp, what, log := runHeldCase(hc, l.counts)
		l.evals++
		l.counts["held:histories"]++
		l.distinct[mixHash(0, fmt.Sprint("held", log))] = struct{}{}
		if fp != "" {
			hc.What, hc.Log = what, log
			l.viol(fp, what, hc)
		}
	}
}
