package main

// Re-entrant and failing user code (disciplines 2 and 3 of harness/DISCIPLINES.md).
//
// Every callback OrderedMap / ds.Set invoke — the consumers of ForEach / ForEachReverse / Range, the predicate of
// Filter, the Has of the argument of Intersect, the caller's own loop over Iterator() — calls back into the SAME
// map / set at the moment it is invoked: a script of 1–3 operations (delete the visited entry / the next / the one
// after / the previous / the first / the last one, insert a new key, re-insert the visited or the last deleted key,
// update the next entry, Clear, Apply / Compute / DeleteAll / Replace aimed at the neighbours, nested iterations
// that are passive or delete themselves) during one or three consecutive invocations, and then returns, stops the
// iteration or panics (recovered by the caller). Afterwards the object is used again.
//
// Reference: "the consumer's operations take effect immediately", judged per walk (nested walks included):
//   - every entry that is live from the start of a walk to its end is visited exactly once by it,
//   - the visited entries are in first-insertion order (reverse order for ForEachReverse), no entry twice,
//   - an entry deleted before its turn is not visited later,
//   - every re-entrant call returns what the model says (prior presence, previous value, sizes, contents),
//   - afterwards the contents (forward and reverse) equal the model, and every further call returns.
// Not demanded (the unchanged tree does not do it, the statement is silent): whether an entry inserted during a walk
// is visited by it; anything about the rest of a walk after the consumer cleared the structure (or replaced its
// contents) except that no unknown key appears; Iterator() may keep visiting deleted elements (it is a snapshot);
// which value a visit delivers after the consumer updated that entry; the order of elements after Replace.
//
// A call that never returns is decided by the Go runtime in the plain-build, timer-free child that runs these cases
// one after the other (the parent attributes the death to the marked case and restarts the child behind it).

import (
	"encoding/json"
	"fmt"
	"math/rand"
	"strconv"
	"strings"
	"time"

	"github.com/iotaledger/hive.go/ds"
	"github.com/iotaledger/hive.go/ds/orderedmap"

	"verif/harness/internal/vf"
)

type reentCase struct {
	Kind   string   `json:"kind"`   // "reent"
	Target string   `json:"target"` // see reentTargets
	N      int      `json:"keys"`   // keys 0..N-1 inserted in this order
	Holes  int      `json:"holes"`  // bit mask of keys deleted again before the walk
	At     int      `json:"at"`     // first acting invocation (0-based)
	Times  int      `json:"times"`  // number of consecutive acting invocations
	Script []string `json:"script"` // operations of one acting invocation
	End    string   `json:"end"`    // after the last acting invocation: "return", "stop", "panic"
	What   string   `json:"what,omitempty"`
	Dump   string   `json:"goroutine_dump,omitempty"`
}

func (rc reentCase) String() string {
	return fmt.Sprintf("%s over keys 0..%d (deleted before the walk: mask %b); during invocation(s) %d..%d the consumer calls back into the same object: %s; then it %ss",
		rc.Target, rc.N-1, rc.Holes, rc.At, rc.At+rc.Times-1, strings.Join(rc.Script, ", "), rc.End)
}

var reentTargets = []string{"map.ForEach", "map.ForEachReverse", "set.ForEach", "set.Range", "set.Filter", "set.Intersect", "set.Iterator", "set.Compute", "set.Apply"}

// operations of a consumer of an iteration
var reentActions = []string{"del-cur", "del-next", "del-next2", "del-prev", "del-first", "del-last", "ins-new", "reins-cur", "reins-deleted", "upd-next", "clear",
	"apply", "compute", "deleteall", "replace", "nested-fwd", "nested-rev", "nested-del", "nested-del1"}

// operations of a Compute factory / of the accessors of a caller-implemented SetMutations (they run under the set's
// exclusive lock: only the read-only view is used, which is what the factory is handed)
var reentAtomicActions = []string{"reads", "clear", "nested-fwd", "nested-rev", "nested-clear"}

func reentCanStop(target string) bool {
	switch target {
	case "map.ForEach", "map.ForEachReverse", "set.ForEach", "set.Iterator":
		return true
	}
	return false
}

// reentCases: the fixed case list of a tier and seed.
func reentCases(seed int64, quick bool) []reentCase {
	var out []reentCase
	h := func(s string) uint64 { return mixHash(0, s) }
	for _, target := range reentTargets {
		if target == "set.Compute" || target == "set.Apply" {
			for n := 0; n <= 3; n++ {
				for _, end := range []string{"return", "panic"} {
					out = append(out, reentCase{Kind: "reent", Target: target, N: n, Times: 1, Script: []string{}, End: end})
					for _, a := range reentAtomicActions {
						out = append(out, reentCase{Kind: "reent", Target: target, N: n, Times: 1, Script: []string{a}, End: end})
						for _, b := range reentAtomicActions {
							out = append(out, reentCase{Kind: "reent", Target: target, N: n, Times: 1, Script: []string{a, b}, End: end})
						}
					}
				}
			}
			continue
		}
		ends := []string{"return", "panic"}
		if reentCanStop(target) {
			ends = []string{"return", "stop", "panic"}
		}
		if target == "set.Iterator" {
			ends = []string{"return", "stop"} // the loop is the caller's own: a panic in it never passes through the library
		}
		for n := 1; n <= 4; n++ {
			for at := 0; at < n; at++ {
				for _, a := range reentActions {
					for _, times := range []int{1, 3} {
						for _, end := range ends {
							out = append(out, reentCase{Kind: "reent", Target: target, N: n, At: at, Times: times, Script: []string{a}, End: end})
						}
					}
					for _, b := range reentActions {
						rc := reentCase{Kind: "reent", Target: target, N: n, At: at, Times: 1, Script: []string{a, b}, End: "return"}
						out = append(out, rc)
						if h(fmt.Sprint(rc))%4 == 0 {
							rc.End = ends[len(ends)-1]
							out = append(out, rc)
						}
					}
				}
			}
		}
	}
	// seeded: longer scripts, more keys, keys deleted beforehand
	rng := rand.New(rand.NewSource(seed*7919 + 11))
	nr := 3000
	if !quick {
		nr = 60000
	}
	for i := 0; i < nr; i++ {
		target := reentTargets[rng.Intn(len(reentTargets)-2)]
		n := 2 + rng.Intn(5)
		rc := reentCase{Kind: "reent", Target: target, N: n, Holes: rng.Intn(1 << n), At: rng.Intn(n), Times: 1 + rng.Intn(3), End: "return"}
		if rng.Intn(3) == 0 {
			rc.Holes = 0
		}
		for k := 3 + rng.Intn(2); k > 0; k-- {
			rc.Script = append(rc.Script, reentActions[rng.Intn(len(reentActions))])
		}
		switch rng.Intn(6) {
		case 0:
			if reentCanStop(target) {
				rc.End = "stop"
			}
		case 1:
			if target != "set.Iterator" {
				rc.End = "panic"
			}
		}
		out = append(out, rc)
	}
	return out
}

// ------------------------------------------------------------------ model

type rinc struct { // one incarnation of a key: from its insertion to its deletion
	key  int
	seq  int
	val  uint64
	vals map[uint64]bool
	dead bool
}

type rwalk struct {
	target    string
	reverse   bool
	snapshot  bool // Iterator(): a snapshot by construction
	birth     int  // number of incarnations that existed when the walk began
	start     []*rinc
	inStart   map[*rinc]bool
	visited   map[*rinc]bool
	order     []*rinc
	last      *rinc
	curr      *rinc
	cleared   bool
	excused   map[*rinc]bool // deleted, unvisited, while the entry the walk stands on was already deleted itself
	aborted   bool           // stopped by the consumer or left by a panic
	ambiguous bool           // set walks only: a visited element could not be attributed to one incarnation
	calls     int
}

// demandStaleChain: an entry deleted in the same invocation AFTER the entry the walk stands on was deleted is reached
// through the stale link of the latter on the tree at 77f8d8d (finding C11-4, proposed_fixes/C11-4-foreach-visits-
// deleted-entries.*); it has its own fingerprint so that the finding can be recorded without hiding anything else.
const demandStaleChain = false // decided by the coordinator: mutation of several entries from inside one consumer invocation is outside the statement; counted only

type reentPanic struct{}
type reentRunaway struct{}

type rworld struct {
	target string
	isMap  bool
	m      *orderedmap.OrderedMap[int, uint64]
	s      ds.Set[int]
	ro     ds.ReadableSet[int]
	atomic bool // inside Compute / Apply: only the read-only view is used

	incs         []*rinc
	live         []*rinc
	cur          map[int]*rinc
	hist         map[int][]*rinc
	nextVal      uint64
	nextNew      int
	walks        []*rwalk
	lastDeleted  []int
	orderUnknown bool // after Replace the element order is not demanded

	fp, what string
	counts   map[string]int
	quiet    bool
}

func newRWorld(target string, counts map[string]int) *rworld {
	w := &rworld{target: target, isMap: strings.HasPrefix(target, "map."), cur: map[int]*rinc{}, hist: map[int][]*rinc{}, nextVal: 1000, nextNew: 100, counts: counts}
	w.m = orderedmap.New[int, uint64]()
	w.s = ds.NewSet[int]()
	w.ro = w.s.ReadOnly()
	return w
}

func (w *rworld) bad(kind, f string, a ...any) {
	if w.fp == "" {
		w.fp = "reent:" + w.target + "/" + kind
		w.what = fmt.Sprintf(f, a...)
	}
}

func (w *rworld) called(kind string) {
	if !w.quiet {
		w.counts["reent-call:"+kind]++
	}
}

func (w *rworld) liveKeys() []int {
	out := make([]int, len(w.live))
	for i, in := range w.live {
		out[i] = in.key
	}
	return out
}

func (w *rworld) born(k int) *rinc {
	in := &rinc{key: k, seq: len(w.incs), vals: map[uint64]bool{}}
	w.incs = append(w.incs, in)
	w.live = append(w.live, in)
	w.cur[k] = in
	w.hist[k] = append(w.hist[k], in)
	return in
}

func (w *rworld) kill(in *rinc) {
	in.dead = true
	delete(w.cur, in.key)
	for i, x := range w.live {
		if x == in {
			w.live = append(w.live[:i:i], w.live[i+1:]...)
			break
		}
	}
	w.lastDeleted = append(w.lastDeleted, in.key)
	for _, W := range w.walks {
		if !W.visited[in] && W.curr != nil && (W.curr.dead || W.ambiguous) {
			W.excused[in] = true
		}
	}
}

func (w *rworld) killAll() {
	for _, W := range w.walks {
		W.cleared = true
	}
	for len(w.live) > 0 {
		w.kill(w.live[len(w.live)-1])
	}
}

// ------------------------------------------------------------------ re-entrant calls (each compared with the model)

func (w *rworld) insert(k int) {
	in := w.cur[k]
	if w.isMap {
		w.nextVal++
		v := w.nextVal
		prev, existed := w.m.Set(k, v)
		w.called("Set")
		if existed != (in != nil) || (in != nil && prev != in.val) {
			w.bad("reentrant-Set/result", "Set(%d) called by the consumer returned (%d,%v); the map holds %v", k, prev, existed, w.liveKeys())
		}
		if in == nil {
			in = w.born(k)
		}
		in.val, in.vals[v] = v, true
		return
	}
	added := w.s.Add(k)
	w.called("Add")
	if added != (in == nil) {
		w.bad("reentrant-Add/result", "Add(%d) called by the consumer returned %v; the set holds %v", k, added, w.liveKeys())
	}
	if in == nil {
		w.born(k)
	}
}

func (w *rworld) remove(k int) {
	in := w.cur[k]
	var got bool
	if w.isMap {
		got = w.m.Delete(k)
	} else {
		got = w.s.Delete(k)
	}
	w.called("Delete")
	if got != (in != nil) {
		w.bad("reentrant-Delete/result", "Delete(%d) called by the consumer returned %v; the structure holds %v", k, got, w.liveKeys())
	}
	if in != nil {
		w.kill(in)
	}
}

func (w *rworld) clear() {
	switch {
	case w.isMap:
		w.m.Clear()
	case w.atomic:
		w.ro.Clear()
	default:
		w.s.Clear()
	}
	w.called("Clear")
	w.killAll()
}

func sameSet(a, b []int) bool {
	return fmt.Sprint(sortedInts(append([]int{}, a...))) == fmt.Sprint(sortedInts(append([]int{}, b...)))
}

func (w *rworld) reads(probe ...int) {
	w.called("reads")
	probe = append(probe, 0, 100, 101)
	if w.isMap {
		if n := w.m.Size(); n != len(w.live) {
			w.bad("reentrant-read", "Size() called by the consumer = %d, the map holds %v", n, w.liveKeys())
		}
		for _, k := range probe {
			in := w.cur[k]
			v, ok := w.m.Get(k)
			if has := w.m.Has(k); has != (in != nil) || ok != has || (in != nil && v != in.val) {
				w.bad("reentrant-read", "Has(%d)=%v Get(%d)=(%d,%v) called by the consumer; the map holds %v", k, has, k, v, ok, w.liveKeys())
			}
		}
		hk, hv, hok := w.m.Head()
		tk, tv, tok := w.m.Tail()
		if hok != (len(w.live) > 0) || tok != hok || (hok && (hk != w.live[0].key || hv != w.live[0].val || tk != w.live[len(w.live)-1].key || tv != w.live[len(w.live)-1].val)) {
			w.bad("reentrant-read", "Head()=(%d,%d,%v) Tail()=(%d,%d,%v) called by the consumer; the map holds %v", hk, hv, hok, tk, tv, tok, w.liveKeys())
		}
		return
	}
	if n := w.ro.Size(); n != len(w.live) || w.ro.IsEmpty() != (n == 0) {
		w.bad("reentrant-read", "Size() called by the callback = %d, the set holds %v", n, w.liveKeys())
	}
	for _, k := range probe {
		if has := w.ro.Has(k); has != (w.cur[k] != nil) {
			w.bad("reentrant-read", "Has(%d)=%v called by the callback; the set holds %v", k, has, w.liveKeys())
		}
	}
	if sl := w.ro.ToSlice(); !sameSet(sl, w.liveKeys()) || (!w.orderUnknown && fmt.Sprint(sl) != fmt.Sprint(w.liveKeys())) {
		w.bad("reentrant-read", "ToSlice()=%v called by the callback; the set holds %v", sl, w.liveKeys())
	}
}

// neighbour: the d-th live entry behind (d>0) or before (d<0) the entry the walk stands on, in walk direction.
func (w *rworld) neighbour(W *rwalk, d int) *rinc {
	if W.curr == nil {
		return nil
	}
	var ahead, behind []*rinc
	for _, in := range w.live {
		switch {
		case in.seq > W.curr.seq:
			ahead = append(ahead, in)
		case in.seq < W.curr.seq:
			behind = append([]*rinc{in}, behind...)
		}
	}
	if W.reverse {
		ahead, behind = behind, ahead
	}
	if d > 0 && d <= len(ahead) {
		return ahead[d-1]
	}
	if d < 0 && -d <= len(behind) {
		return behind[-d-1]
	}
	return nil
}

func (w *rworld) freshKey() int {
	w.nextNew++
	return w.nextNew
}

// act executes one script operation from inside the callback of walk W.
func (w *rworld) act(W *rwalk, a string) {
	key := func(in *rinc) (int, bool) {
		if in == nil {
			return 0, false
		}
		return in.key, true
	}
	switch a {
	case "reads":
		w.reads()
	case "del-cur":
		if W.curr != nil {
			w.remove(W.curr.key)
		}
	case "del-next":
		if k, ok := key(w.neighbour(W, 1)); ok {
			w.remove(k)
		}
	case "del-next2":
		if k, ok := key(w.neighbour(W, 2)); ok {
			w.remove(k)
		}
	case "del-prev":
		if k, ok := key(w.neighbour(W, -1)); ok {
			w.remove(k)
		}
	case "del-first":
		if len(w.live) > 0 {
			w.remove(w.live[0].key)
		}
	case "del-last":
		if len(w.live) > 0 {
			w.remove(w.live[len(w.live)-1].key)
		}
	case "ins-new":
		w.insert(w.freshKey())
	case "reins-cur":
		if W.curr != nil {
			w.insert(W.curr.key)
		}
	case "reins-deleted":
		if n := len(w.lastDeleted); n > 0 {
			w.insert(w.lastDeleted[n-1])
		}
	case "upd-next":
		if k, ok := key(w.neighbour(W, 1)); ok {
			w.insert(k)
		}
	case "clear":
		w.clear()
	case "apply": // +new, -next in one Apply
		nk := w.freshKey()
		dk, dok := key(w.neighbour(W, 1))
		if w.isMap {
			w.insert(nk)
			if dok {
				w.remove(dk)
			}
			break
		}
		mu := ds.NewSetMutations[int](nk)
		wantDel := []int{}
		if dok {
			mu.WithDeletedElements(ds.NewSet(dk))
			wantDel = []int{dk}
		}
		r := w.s.Apply(mu)
		w.called("Apply")
		if ga, gd := r.AddedElements().ToSlice(), r.DeletedElements().ToSlice(); !sameSet(ga, []int{nk}) || !sameSet(gd, wantDel) {
			w.bad("reentrant-Apply/result", "Apply(+[%d] -%v) called by the consumer returned +%v -%v; the set held %v", nk, wantDel, ga, gd, w.liveKeys())
		}
		w.born(nk)
		if dok {
			w.kill(w.cur[dk])
		}
	case "compute": // the factory deletes the visited entry when it is still there
		if W.curr == nil {
			break
		}
		ck := W.curr.key
		if w.isMap {
			w.remove(ck)
			break
		}
		in := w.cur[ck]
		r := w.s.Compute(func(ro ds.ReadableSet[int]) ds.SetMutations[int] {
			if ro.Has(ck) != (in != nil) || ro.Size() != len(w.live) {
				w.bad("reentrant-Compute/view", "the factory of a Compute called by the consumer sees Has(%d)=%v Size()=%d; the set holds %v", ck, ro.Has(ck), ro.Size(), w.liveKeys())
			}
			return ds.NewSetMutations[int]().WithDeletedElements(ds.NewSet(ck))
		})
		w.called("Compute")
		want := []int{}
		if in != nil {
			want = []int{ck}
		}
		if ga, gd := r.AddedElements().ToSlice(), r.DeletedElements().ToSlice(); len(ga) != 0 || !sameSet(gd, want) {
			w.bad("reentrant-Compute/result", "Compute(-[%d]) called by the consumer returned +%v -%v; the set held %v", ck, ga, gd, w.liveKeys())
		}
		if in != nil {
			w.kill(in)
		}
	case "deleteall": // the next two entries
		var ks []int
		for d := 1; d <= 2; d++ {
			if k, ok := key(w.neighbour(W, d)); ok {
				ks = append(ks, k)
			}
		}
		if w.isMap {
			for _, k := range ks {
				w.remove(k)
			}
			break
		}
		r := w.s.DeleteAll(ds.NewSet(append(ks, 999)...)).ToSlice()
		w.called("DeleteAll")
		if !sameSet(r, ks[:len(ks):len(ks)]) {
			w.bad("reentrant-DeleteAll/result", "DeleteAll(%v) called by the consumer returned %v; the set held %v", append(ks, 999), r, w.liveKeys())
		}
		for _, k := range ks {
			w.kill(w.cur[k])
		}
	case "replace": // same contents: every entry is deleted and inserted again
		ks := w.liveKeys()
		if w.isMap {
			w.clear()
			for _, k := range ks {
				w.insert(k)
			}
			break
		}
		r := w.s.Replace(ds.NewSet(ks...)).ToSlice()
		w.called("Replace")
		if len(r) != 0 {
			w.bad("reentrant-Replace/result", "Replace(same elements %v) called by the consumer returned %v", ks, r)
		}
		w.killAll()
		for _, k := range ks {
			w.born(k)
		}
		w.orderUnknown = true
	case "nested-fwd":
		w.walk(w.nestedTarget(false), nil)
	case "nested-rev":
		w.walk(w.nestedTarget(true), nil)
	case "nested-del": // a nested walk that deletes every entry it visits
		w.walk(w.nestedTarget(false), func(W2 *rwalk, n int) string {
			w.remove(W2.curr.key)
			return ""
		})
	case "nested-del1": // a nested walk that deletes the first entry it visits
		w.walk(w.nestedTarget(false), func(W2 *rwalk, n int) string {
			if n == 0 {
				w.remove(W2.curr.key)
			}
			return ""
		})
	case "nested-clear": // a nested walk whose consumer clears the set during its first invocation
		w.walk(w.nestedTarget(false), func(W2 *rwalk, n int) string {
			if n == 0 {
				w.clear()
			}
			return ""
		})
	}
	w.reads()
}

func (w *rworld) nestedTarget(reverse bool) string {
	switch {
	case w.isMap && reverse:
		return "map.ForEachReverse"
	case w.isMap:
		return "map.ForEach"
	case reverse:
		return "set.Range" // a set has no reverse walk: the other forward iteration
	}
	return "set.ForEach"
}

// ------------------------------------------------------------------ walks

func (w *rworld) visit(W *rwalk, k int, v uint64) {
	W.calls++
	if W.calls > 400 {
		panic(reentRunaway{})
	}
	hs := w.hist[k]
	var in *rinc
	during := func(h *rinc) bool { return W.inStart[h] || h.seq >= W.birth }
	if w.isMap {
		for _, h := range hs {
			if h.vals[v] {
				in = h
			}
		}
	} else {
		// a set element carries no incarnation mark: the reading most favourable to the library
		for i := 0; W.snapshot && i < len(hs) && in == nil; i++ {
			if !W.visited[hs[i]] && W.inStart[hs[i]] {
				in = hs[i] // a snapshot delivers what was there when it was taken
			}
		}
		for i := len(hs) - 1; i >= 0 && in == nil; i-- {
			if !W.visited[hs[i]] && !hs[i].dead {
				in = hs[i]
			}
		}
		for i := len(hs) - 1; i >= 0 && in == nil; i-- {
			if !W.visited[hs[i]] && during(hs[i]) {
				in = hs[i]
			}
		}
		if in == nil && len(hs) > 0 {
			in = hs[len(hs)-1]
		}
		for _, h := range hs {
			if in != nil && h != in && h.dead && !W.visited[h] && W.excused[h] {
				W.ambiguous = true // the visit may as well be that of the deleted earlier incarnation (see demandStaleChain)
			}
		}
	}
	if in == nil {
		w.bad("visited-unknown-entry", "the walk visits key %d (value %d) which never was in the structure with that value; visited before: %v", k, v, keysOf(W.order))
		W.curr = nil
		return
	}
	judged := (!W.cleared || w.isMap) && !W.ambiguous
	switch {
	case W.visited[in] && judged:
		w.bad("visited-twice", "the walk visits key %d twice (visited so far %v); the structure holds %v", k, keysOf(W.order), w.liveKeys())
	case W.last != nil && !W.cleared && !W.ambiguous && !w.orderUnknown && ((!W.reverse && in.seq < W.last.seq) || (W.reverse && in.seq > W.last.seq)):
		w.bad("visited-out-of-order", "the walk visits key %d after %v: not in %sfirst-insertion order", k, keysOf(W.order), map[bool]string{true: "reverse ", false: ""}[W.reverse])
	}
	if in.dead && !W.snapshot {
		switch {
		case W.cleared:
			w.counts["reent:visits-of-cleared-entries(not demanded)"]++
		case !during(in):
			w.bad("visited-deleted-entry", "the walk visits key %d, deleted before the walk began; the structure holds %v", k, w.liveKeys())
		case W.excused[in] && !demandStaleChain:
			w.counts["reent:visits-of-entries-deleted-together-with-current(not demanded)"]++
		case W.excused[in]:
			w.bad("visited-entry-deleted-together-with-current", "the walk visits key %d although the consumer deleted it before its turn (in the same invocation in which it had deleted the entry the walk stood on); visited %v, the structure holds %v", k, append(keysOf(W.order), k), w.liveKeys())
		default:
			w.bad("visited-deleted-entry", "the walk visits key %d although the consumer deleted it before its turn; visited %v, the structure holds %v", k, append(keysOf(W.order), k), w.liveKeys())
		}
	}
	W.visited[in] = true
	W.order = append(W.order, in)
	W.last, W.curr = in, in
}

func keysOf(x []*rinc) []int {
	out := make([]int, len(x))
	for i, in := range x {
		out[i] = in.key
	}
	return out
}

type reentOther struct {
	ds.ReadableSet[int]
	has func(int) bool
}

func (o *reentOther) Has(e int) bool { return o.has(e) }

// walk runs one iteration of the given kind; consumer (may be nil) is called after the visit was recorded and says
// "" (go on), "stop" or "panic".
func (w *rworld) walk(target string, consumer func(W *rwalk, n int) string) *rwalk {
	W := &rwalk{target: target, reverse: target == "map.ForEachReverse", snapshot: target == "set.Iterator", birth: len(w.incs),
		inStart: map[*rinc]bool{}, visited: map[*rinc]bool{}, excused: map[*rinc]bool{}}
	W.start = append(W.start, w.live...)
	for _, in := range W.start {
		W.inStart[in] = true
	}
	w.walks = append(w.walks, W)
	w.counts["reent-walk:"+target]++
	if len(w.walks) > 1 {
		w.called("nested-iteration")
	}
	finished := false
	defer func() {
		w.walks = w.walks[:len(w.walks)-1]
		if !finished {
			W.aborted = true
		}
	}()
	cb := func(k int, v uint64) (stop bool) {
		w.visit(W, k, v)
		if consumer == nil || W.curr == nil {
			return false
		}
		switch consumer(W, W.calls-1) {
		case "stop":
			W.aborted = true
			return true
		case "panic":
			panic(reentPanic{})
		}
		return false
	}
	switch target {
	case "map.ForEach", "map.ForEachReverse":
		f := w.m.ForEach
		if W.reverse {
			f = w.m.ForEachReverse
		}
		if completed := f(func(k int, v uint64) bool { return !cb(k, v) }); completed == W.aborted {
			w.bad("result", "%s returned %v although the consumer %s", target, completed, map[bool]string{true: "stopped it", false: "never stopped it"}[W.aborted])
		}
	case "set.ForEach":
		err := w.ro.ForEach(func(e int) error {
			if cb(e, 0) {
				return errStop
			}
			return nil
		})
		if (err != nil) != W.aborted {
			w.bad("result", "ForEach returned error %v although the consumer %s", err, map[bool]string{true: "stopped it with an error", false: "never returned an error"}[W.aborted])
		}
	case "set.Range":
		w.ro.Range(func(e int) { cb(e, 0) })
	case "set.Filter", "set.Intersect":
		pred := func(e int) bool { cb(e, 0); return e%2 == 0 }
		var res ds.Set[int]
		if target == "set.Filter" {
			res = w.ro.Filter(pred)
		} else {
			res = w.ro.Intersect(&reentOther{ReadableSet: ds.NewSet[int](), has: pred})
		}
		var want []int
		for _, in := range W.order {
			if in.key%2 == 0 && !contains32(want, in.key) {
				want = append(want, in.key)
			}
		}
		if got := res.ToSlice(); !sameSet(got, want) {
			w.bad("result", "%s returned %v; its predicate was asked about %v and accepted %v", target, got, keysOf(W.order), want)
		}
	case "set.Iterator":
		it := w.ro.Iterator()
		for it.HasNext() {
			if cb(it.Next(), 0) {
				break
			}
		}
	}
	finished = true
	if target == "set.Intersect" && W.calls == 0 {
		w.counts["reent:Intersect-did-not-ask-the-argument(not demanded)"]++ // e.g. it walked the (empty) argument instead
		return W
	}
	if !W.aborted {
		for _, in := range W.start {
			if !in.dead && !W.visited[in] {
				w.bad("live-entry-not-visited", "the walk ended after visiting %v: key %d, in the structure from before the walk until after it, was not visited; the structure holds %v", keysOf(W.order), in.key, w.liveKeys())
				break
			}
		}
	}
	return W
}

func contains32(a []int, e int) bool {
	for _, x := range a {
		if x == e {
			return true
		}
	}
	return false
}

// ------------------------------------------------------------------ state afterwards and further use

func (w *rworld) finalState(when string) {
	want := w.liveKeys()
	if w.isMap {
		var fwd, rev []int
		var vals []uint64
		w.m.ForEach(func(k int, v uint64) bool { fwd = append(fwd, k); vals = append(vals, v); return len(fwd) < 400 })
		w.m.ForEachReverse(func(k int, _ uint64) bool { rev = append([]int{k}, rev...); return len(rev) < 400 })
		ok := fmt.Sprint(fwd) == fmt.Sprint(want) && fmt.Sprint(rev) == fmt.Sprint(want) && w.m.Size() == len(want)
		for i := 0; ok && i < len(w.live); i++ {
			ok = vals[i] == w.live[i].val
		}
		if !ok {
			w.bad("state-"+when, "%s the map iterates %v (values %v; reverse walk reversed %v; Size %d), the model holds %v", when, fwd, vals, rev, w.m.Size(), want)
		}
	} else {
		got := w.s.ToSlice()
		if !sameSet(got, want) || w.s.Size() != len(want) || (!w.orderUnknown && fmt.Sprint(got) != fmt.Sprint(want)) {
			w.bad("state-"+when, "%s the set iterates %v (Size %d), the model holds %v", when, got, w.s.Size(), want)
		}
	}
	for k := range w.hist {
		has := false
		if w.isMap {
			has = w.m.Has(k)
		} else {
			has = w.s.Has(k)
		}
		if has != (w.cur[k] != nil) {
			w.bad("state-"+when, "%s Has(%d)=%v, the model holds %v", when, k, has, want)
		}
	}
}

// furtherUse: the object is used again by the same caller (every call must return; a lock left behind by an aborted
// callback parks the first of these for ever, which the Go runtime reports in the plain-build child).
func (w *rworld) furtherUse() {
	w.counts["reent:further-use-batteries"]++
	w.insert(w.freshKey())
	if len(w.live) > 1 {
		w.remove(w.live[0].key)
	}
	if len(w.live) > 0 {
		w.insert(w.live[len(w.live)-1].key)
	}
	if !w.isMap {
		W := &rwalk{curr: nil}
		if len(w.live) > 0 {
			W.curr = w.live[0]
		}
		w.walks = []*rwalk{}
		w.act(W, "apply")
		w.act(W, "compute")
		w.act(W, "deleteall")
		nk := w.freshKey()
		if r := w.s.AddAll(ds.NewSet(nk, nk)).ToSlice(); !sameSet(r, []int{nk}) {
			w.bad("further-use/AddAll", "AddAll([%d]) afterwards returned %v", nk, r)
		}
		w.born(nk)
		w.act(W, "replace")
	}
	w.walk(w.nestedTarget(false), nil)
	w.finalState("after-further-use")
}

// ------------------------------------------------------------------ one case

func runReentCase(rc reentCase, counts map[string]int) (fp, what string) {
	if counts == nil {
		counts = map[string]int{}
	}
	w := newRWorld(rc.Target, counts)
	w.quiet = true // the set-up calls are not re-entrant ones
	for k := 0; k < rc.N; k++ {
		w.insert(k)
	}
	for k := 0; k < rc.N; k++ {
		if rc.Holes&(1<<k) != 0 {
			w.remove(k)
		}
	}
	w.lastDeleted = nil
	w.quiet = false
	defer func() {
		if fp != "" {
			what = rc.String() + ": " + what
		}
	}()
	p := try(func() {
		if rc.Target == "set.Compute" || rc.Target == "set.Apply" {
			w.runAtomic(rc)
			return
		}
		w.walk(rc.Target, func(W *rwalk, n int) string {
			if n < rc.At || n >= rc.At+rc.Times {
				return ""
			}
			w.counts["reent:acting-invocations"]++
			for _, a := range rc.Script {
				w.act(W, a)
				w.counts["reent-action:"+a]++
			}
			if n == rc.At+rc.Times-1 && rc.End != "return" {
				w.counts["reent:consumer-"+rc.End+"s"]++
				return rc.End
			}
			return ""
		})
	})
	w.walks = nil
	switch p.(type) {
	case nil:
	case reentPanic:
		w.counts["reent:panics-recovered-by-the-caller"]++
	case reentRunaway:
		w.bad("runaway-iteration", "the iteration invoked its consumer more than 400 times; the structure holds %v", w.liveKeys())
		return w.fp, w.what
	default:
		w.bad("panic", "panicked: %v", p)
		return w.fp, w.what
	}
	w.finalState("afterwards")
	if p := try(w.furtherUse); p != nil {
		w.bad("panic-in-further-use", "a call after the iteration panicked: %v", p)
	}
	return w.fp, w.what
}

// user-implemented SetMutations whose accessors call back
type reentMutations struct {
	a, d ds.Set[int]
	hook func()
}

func (m *reentMutations) WithAddedElements(e ds.Set[int]) ds.SetMutations[int]   { m.a = e; return m }
func (m *reentMutations) WithDeletedElements(e ds.Set[int]) ds.SetMutations[int] { m.d = e; return m }
func (m *reentMutations) AddedElements() ds.Set[int]                             { m.hook(); return m.a }
func (m *reentMutations) DeletedElements() ds.Set[int]                           { m.hook(); return m.d }
func (m *reentMutations) IsEmpty() bool                                          { m.hook(); return m.a.IsEmpty() && m.d.IsEmpty() }

// runAtomic: Compute(factory) / Apply(caller-implemented mutations): the callback runs under the set's exclusive lock,
// reads the set through the read-only view it is handed, may Clear through that view (ReadableSet has Clear), runs
// nested iterations, then returns mutations {+fresh, +key 1 (no-op when present), -key 0, -999 (absent)} or panics.
func (w *rworld) runAtomic(rc reentCase) {
	w.atomic = true
	nk := w.freshKey()
	done := false
	hook := func() {
		if done {
			return
		}
		done = true
		w.counts["reent:acting-invocations"]++
		W := &rwalk{}
		w.reads()
		for _, a := range rc.Script {
			w.act(W, a)
			w.counts["reent-action:"+a]++
		}
		if rc.End == "panic" {
			w.counts["reent:consumer-panics"]++
			panic(reentPanic{})
		}
	}
	var r ds.SetMutations[int]
	p := try(func() {
		if rc.Target == "set.Compute" {
			r = w.s.Compute(func(ro ds.ReadableSet[int]) ds.SetMutations[int] {
				w.ro = ro
				hook()
				return ds.NewSetMutations[int](nk, 1).WithDeletedElements(ds.NewSet(0, 999))
			})
		} else {
			r = w.s.Apply(&reentMutations{a: ds.NewSet(nk, 1), d: ds.NewSet(0, 999), hook: hook})
		}
	})
	w.atomic = false
	w.ro = w.s.ReadOnly()
	if p != nil {
		panic(p)
	}
	wantA, wantD := []int{nk}, []int{}
	if w.cur[1] == nil {
		wantA = append(wantA, 1)
		w.born(nk)
		w.born(1)
	} else {
		w.born(nk)
	}
	if in := w.cur[0]; in != nil {
		wantD = []int{0}
		w.kill(in)
	}
	if ga, gd := r.AddedElements().ToSlice(), r.DeletedElements().ToSlice(); !sameSet(ga, wantA) || !sameSet(gd, wantD) {
		w.bad("result", "returned +%v -%v, the membership changes are +%v -%v; the set holds %v", ga, gd, wantA, wantD, w.liveKeys())
	}
}

// ------------------------------------------------------------------ calls that self-dead-lock on the unchanged tree

// Writers called from inside a Compute factory take the lock Compute holds: on the unchanged tree they never return.
// Nothing is demanded about them; each runs in its own child and the outcome is recorded as evidence only.
var reentLockedCalls = []string{"Add", "Delete", "AddAll", "DeleteAll", "Apply", "Compute", "Replace"}

func runLockedCall(name string) {
	s := ds.NewSet(0, 1, 2)
	s.Compute(func(ds.ReadableSet[int]) ds.SetMutations[int] {
		switch name {
		case "Add":
			s.Add(7)
		case "Delete":
			s.Delete(1)
		case "AddAll":
			s.AddAll(ds.NewSet(7))
		case "DeleteAll":
			s.DeleteAll(ds.NewSet(1))
		case "Apply":
			s.Apply(ds.NewSetMutations(7))
		case "Compute":
			s.Compute(func(ds.ReadableSet[int]) ds.SetMutations[int] { return ds.NewSetMutations[int]() })
		case "Replace":
			s.Replace(ds.NewSet(7))
		}
		return ds.NewSetMutations[int]()
	})
}

// ------------------------------------------------------------------ parent and child

func reentChild(c *vf.Ctx, lo int) {
	cases := reentCases(c.Seed, c.Quick())
	counts := map[string]int{}
	reported := map[string]int{}
	flush := func() {
		for k, v := range counts {
			c.Count(k, v)
			delete(counts, k)
		}
		c.FlushStats()
	}
	for idx := lo; idx < len(cases); idx++ {
		c.Mark(strconv.Itoa(idx))
		rc := cases[idx]
		fp, what := runReentCase(rc, counts)
		counts["evaluations"]++
		counts["reent:cases"]++
		counts["reent:"+rc.Target]++
		counts["reent:cases-decided"]++
		c.DistinctHash("nontrivial", mixHash(0, "reent"+fmt.Sprint(rc)))
		if fp != "" {
			counts["reent:cases-deviating"]++
			if reported[fp]++; reported[fp] <= 5 { // one defect shows up in hundreds of scripts
				rc.What = what
				c.Violation(fp, what, rc)
			}
		}
		if idx%64 == 63 {
			flush() // a dead-lock kills the process: little may be pending
		}
	}
	flush()
}

func reentPart(c *vf.Ctx) {
	cases := reentCases(c.Seed, c.Quick())
	deadlocks := 0
	for lo := 0; lo < len(cases); {
		res := c.RunChild(vf.ChildOpts{Name: "reent", Args: []string{strconv.Itoa(lo)}, Timeout: 8 * time.Minute})
		idx, _ := strconv.Atoi(res.LastMark)
		switch {
		case res.Deadlock && idx >= 0 && idx < len(cases):
			rc := cases[idx]
			rc.What, rc.Dump = "dead-lock", trimDump(res.Stderr)
			c.Count("reent:cases-decided", 1)
			c.Count("reent:self-deadlocks", 1)
			c.Violation("reent:"+rc.Target+"/self-deadlock", rc.String()+": a call never returns (plain build, Go runtime: all goroutines are asleep): either a re-entrant call of the consumer or a call after the iteration parks on a lock the library still holds", rc)
			if deadlocks++; deadlocks >= 8 {
				c.Note("re-entrancy part stopped after 8 dead-locked cases")
				return
			}
			lo = idx + 1
			continue
		case res.TimedOut:
			c.Inconclusive("re-entrancy child hit the watchdog at case " + res.LastMark)
		case res.ExitCode != 0:
			c.Inconclusive(fmt.Sprintf("re-entrancy child died at case %s: exit %d %s", res.LastMark, res.ExitCode, res.Fatal))
		}
		break
	}
	// evidence only: writers called by a Compute factory
	for i, name := range reentLockedCalls {
		res := c.RunChild(vf.ChildOpts{Name: "reent-locked", Args: []string{strconv.Itoa(i)}, Timeout: 2 * time.Minute})
		switch {
		case res.Deadlock:
			c.Count("reent:writer-called-by-Compute-factory-self-deadlocks(not demanded):"+name, 1)
		case res.ExitCode == 0 && !res.TimedOut:
			c.Count("reent:writer-called-by-Compute-factory-returns:"+name, 1)
		}
	}
}

func reentReplay(c *vf.Ctx, raw json.RawMessage) {
	var r reentCase
	_ = json.Unmarshal(raw, &r)
	r.What, r.Dump = "", ""
	b, _ := json.Marshal(r)
	res := c.RunChild(vf.ChildOpts{Name: "reent-one", Args: []string{string(b)}, Timeout: 2 * time.Minute})
	if res.Deadlock {
		r.What, r.Dump = "dead-lock", trimDump(res.Stderr)
		c.Violation("reent:"+r.Target+"/self-deadlock", r.String()+": a call never returns", r)
	} else if res.TimedOut || res.ExitCode != 0 {
		c.Inconclusive("replay child: " + res.Fatal)
	}
}
