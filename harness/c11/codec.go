package main

// serix round trips of SerializableOrderedMap[K,V] and ds.Set[T] with composite element types: contents AND order
// must survive Encode/Decode (deep equality), also when the destination already holds entries.

import (
	"fmt"
	"math/rand"
	"reflect"
	"sort"
	"strings"

	"github.com/iotaledger/hive.go/ds"
	"github.com/iotaledger/hive.go/ds/serializableorderedmap"
	"github.com/iotaledger/hive.go/serializer/v2/serix"
)

type codecInner struct {
	A uint16   `serix:""`
	B []uint16 `serix:",lenPrefix=uint8"`
}

type codecOuter struct {
	S []uint16          `serix:",lenPrefix=uint8"`
	M map[uint8]uint8   `serix:",lenPrefix=uint8"`
	P *codecInner       `serix:",optional"`
	Q *codecInner       `serix:""`
	L []codecInner      `serix:",lenPrefix=uint8"`
	N map[uint8][]uint8 `serix:",lenPrefix=uint8"`
}

type codecKey struct {
	A uint8    `serix:""`
	B uint16   `serix:""`
	C [3]uint8 `serix:""`
}

func newCodecAPI() *serix.API {
	api := serix.NewAPI()
	_ = api.RegisterTypeSettings("", serix.TypeSettings{}.WithLengthPrefixType(serix.LengthPrefixTypeAsByte))
	_ = api.RegisterTypeSettings([]uint16{}, serix.TypeSettings{}.WithLengthPrefixType(serix.LengthPrefixTypeAsByte))
	_ = api.RegisterTypeSettings([]uint8{}, serix.TypeSettings{}.WithLengthPrefixType(serix.LengthPrefixTypeAsByte))
	_ = api.RegisterTypeSettings(map[uint8]uint8{}, serix.TypeSettings{}.WithLengthPrefixType(serix.LengthPrefixTypeAsByte))
	return api
}

// canon renders a value structurally: pointers are followed, nil and empty slices/maps are the same, map entries
// are sorted. Two values are deeply equal for the purpose of the round trip iff their canon strings are equal.
func canon(v reflect.Value) string {
	switch v.Kind() {
	case reflect.Pointer, reflect.Interface:
		if v.IsNil() {
			return "nil"
		}
		return "&" + canon(v.Elem())
	case reflect.Slice, reflect.Array:
		ss := make([]string, v.Len())
		for i := range ss {
			ss[i] = canon(v.Index(i))
		}
		return "[" + strings.Join(ss, " ") + "]"
	case reflect.Map:
		var ss []string
		for it := v.MapRange(); it.Next(); {
			ss = append(ss, canon(it.Key())+":"+canon(it.Value()))
		}
		sort.Strings(ss)
		return "{" + strings.Join(ss, " ") + "}"
	case reflect.Struct:
		ss := make([]string, v.NumField())
		for i := range ss {
			ss[i] = canon(v.Field(i))
		}
		return "<" + strings.Join(ss, " ") + ">"
	}
	return fmt.Sprint(v.Interface())
}

func canonOf(x any) string { return canon(reflect.ValueOf(x)) }

type codecCase struct {
	Kind    string `json:"kind"` // "codec"
	Shape   string `json:"shape"`
	Seed    int64  `json:"seed"`
	Entries int    `json:"entries"`
	Pre     int    `json:"entries_already_in_destination"`
	What    string `json:"what,omitempty"`
}

type kvAny struct{ k, v string }

// mapRoundTrip encodes a map holding (keys[i], vals[i]) and decodes it into a destination that already holds the
// entries (preK[j], preV[j]). Decode inserts with Set: existing keys keep their position and get the new value, new
// keys are appended in encoded order.
func mapRoundTrip[K comparable, V any](api *serix.API, keys []K, vals []V, preK []K, preV []V) (kind, what string) {
	defer func() {
		if p := recover(); p != nil {
			kind, what = "panic", fmt.Sprintf("Encode/Decode panicked: %v", p)
		}
	}()
	src := serializableorderedmap.New[K, V]()
	var want []kvAny
	idx := map[string]int{}
	put := func(k K, v V) {
		ck := canonOf(k)
		if i, ok := idx[ck]; ok {
			want[i].v = canonOf(v)
			return
		}
		idx[ck] = len(want)
		want = append(want, kvAny{ck, canonOf(v)})
	}
	dst := serializableorderedmap.New[K, V]()
	for i := range preK {
		dst.Set(preK[i], preV[i])
		put(preK[i], preV[i])
	}
	srcSeen := map[string]bool{}
	var srcOrder []int
	for i := range keys {
		src.Set(keys[i], vals[i])
		if ck := canonOf(keys[i]); !srcSeen[ck] {
			srcSeen[ck] = true
			srcOrder = append(srcOrder, i)
		}
	}
	// the source map keeps the first position and the last value of a repeated key
	last := map[string]int{}
	for i := range keys {
		last[canonOf(keys[i])] = i
	}
	for _, i := range srcOrder {
		put(keys[i], vals[last[canonOf(keys[i])]])
	}
	b, err := src.Encode(api)
	if err != nil {
		return "encode-error", fmt.Sprintf("Encode failed: %v", err)
	}
	n, err := dst.Decode(api, b)
	if err != nil {
		return "decode-error", fmt.Sprintf("Decode of Encode's output failed: %v", err)
	}
	if n != len(b) {
		return "decode-consumed", fmt.Sprintf("Decode consumed %d of %d bytes", n, len(b))
	}
	var got []kvAny
	dst.ForEach(func(k K, v V) bool { got = append(got, kvAny{canonOf(k), canonOf(v)}); return len(got) < 64 })
	if dst.Size() != len(want) {
		return "decoded-size", fmt.Sprintf("decoded map has Size %d, expected %d entries", dst.Size(), len(want))
	}
	for i := range want {
		if i >= len(got) || got[i].k != want[i].k {
			return "decoded-order", fmt.Sprintf("decoded keys %v, expected %v", got, want)
		}
		if got[i].v != want[i].v {
			return "decoded-value", fmt.Sprintf("entry %d (key %s) decoded as %s, encoded %s; all decoded %v", i, want[i].k, got[i].v, want[i].v, got)
		}
		if v, ok := dst.Get(reflectKey[K](dst, i)); !ok || canonOf(v) != want[i].v {
			return "decoded-get", fmt.Sprintf("Get of decoded key %s returns %s,%v, expected %s", want[i].k, canonOf(v), ok, want[i].v)
		}
	}
	return "", ""
}

// reflectKey returns the i-th key of the map in iteration order.
func reflectKey[K comparable, V any](m *serializableorderedmap.SerializableOrderedMap[K, V], i int) (key K) {
	n := 0
	m.ForEach(func(k K, _ V) bool {
		if n == i {
			key = k
			return false
		}
		n++
		return true
	})
	return
}

func setRoundTrip[T comparable](api *serix.API, elems []T, pre []T) (kind, what string) {
	defer func() {
		if p := recover(); p != nil {
			kind, what = "panic", fmt.Sprintf("Encode/Decode panicked: %v", p)
		}
	}()
	src := ds.NewSet(elems...)
	dst := ds.NewSet(pre...)
	var want []string
	seen := map[string]bool{}
	for _, e := range append(append([]T{}, pre...), elems...) {
		if c := canonOf(e); !seen[c] {
			seen[c] = true
			want = append(want, c)
		}
	}
	b, err := src.Encode(api)
	if err != nil {
		return "encode-error", fmt.Sprintf("Encode failed: %v", err)
	}
	n, err := dst.Decode(api, b)
	if err != nil {
		return "decode-error", fmt.Sprintf("Decode of Encode's output failed: %v", err)
	}
	if n != len(b) {
		return "decode-consumed", fmt.Sprintf("Decode consumed %d of %d bytes", n, len(b))
	}
	var got []string
	for _, e := range dst.ToSlice() {
		got = append(got, canonOf(e))
		if !dst.Has(e) {
			return "decoded-has", fmt.Sprintf("decoded element %s is not Has()", canonOf(e))
		}
	}
	if fmt.Sprint(got) != fmt.Sprint(want) || dst.Size() != len(want) {
		return "decoded-order", fmt.Sprintf("decoded set %v (Size %d), expected %v", got, dst.Size(), want)
	}
	return "", ""
}

// ---------------------------------------------------------------- generators

func rU16s(r *rand.Rand) []uint16 {
	n := r.Intn(4)
	if r.Intn(5) == 0 {
		return nil
	}
	out := make([]uint16, n)
	for i := range out {
		out[i] = uint16(r.Intn(1000))
	}
	return out
}

func rMap(r *rand.Rand) map[uint8]uint8 {
	m := map[uint8]uint8{}
	for i, n := 0, r.Intn(4); i < n; i++ {
		m[uint8(r.Intn(50))] = uint8(r.Intn(200))
	}
	return m
}

func rInner(r *rand.Rand) *codecInner { return &codecInner{A: uint16(r.Intn(5000)), B: rU16s(r)} }

func rOuter(r *rand.Rand) codecOuter {
	o := codecOuter{S: rU16s(r), M: rMap(r), Q: rInner(r), N: map[uint8][]uint8{}}
	if r.Intn(2) == 0 {
		o.P = rInner(r)
	}
	for i, n := 0, r.Intn(3); i < n; i++ {
		o.L = append(o.L, *rInner(r))
	}
	for i, n := 0, r.Intn(3); i < n; i++ {
		o.N[uint8(r.Intn(20))] = []uint8{uint8(r.Intn(9)), uint8(i)}
	}
	return o
}

func rKey(r *rand.Rand) codecKey {
	return codecKey{A: uint8(r.Intn(3)), B: uint16(r.Intn(3)), C: [3]uint8{uint8(r.Intn(2)), 7, uint8(r.Intn(2))}}
}

func gen[T any](r *rand.Rand, n int, f func(*rand.Rand) T) []T {
	out := make([]T, n)
	for i := range out {
		out[i] = f(r)
	}
	return out
}

var codecShapes = []string{"map[uint32][]uint16", "map[string]map[uint8]uint8", "map[uint16]*struct", "map[struct]struct{[]uint16;map;*Inner}", "map[[4]byte][]uint16", "map[struct][]struct", "set[struct]", "set[[4]byte]", "set[string]"}

func rArr(r *rand.Rand) [4]byte { return [4]byte{byte(r.Intn(3)), byte(r.Intn(3)), 1, 2} }
func rStr(r *rand.Rand) string  { return string(rune('a'+r.Intn(6))) + strings.Repeat("x", r.Intn(3)) }
func rU32(r *rand.Rand) uint32  { return uint32(r.Intn(8)) }
func rU16(r *rand.Rand) uint16  { return uint16(r.Intn(8)) }
func rInnerList(r *rand.Rand) []codecInner {
	var l []codecInner
	for i, n := 0, r.Intn(3); i < n; i++ {
		l = append(l, *rInner(r))
	}
	return l
}

// runCodecCase regenerates the case from (shape, seed, entries, pre) and executes it.
func runCodecCase(cc codecCase) (fp, what string) {
	r := rand.New(rand.NewSource(cc.Seed))
	api := newCodecAPI()
	_ = api.RegisterTypeSettings([]codecInner{}, serix.TypeSettings{}.WithLengthPrefixType(serix.LengthPrefixTypeAsByte))
	n, p := cc.Entries, cc.Pre
	var kind string
	switch cc.Shape {
	case "map[uint32][]uint16":
		kind, what = mapRoundTrip(api, gen(r, n, rU32), gen(r, n, rU16s), gen(r, p, rU32), gen(r, p, rU16s))
	case "map[string]map[uint8]uint8":
		kind, what = mapRoundTrip(api, gen(r, n, rStr), gen(r, n, rMap), gen(r, p, rStr), gen(r, p, rMap))
	case "map[uint16]*struct":
		kind, what = mapRoundTrip(api, gen(r, n, rU16), gen(r, n, rInner), gen(r, p, rU16), gen(r, p, rInner))
	case "map[struct]struct{[]uint16;map;*Inner}":
		kind, what = mapRoundTrip(api, gen(r, n, rKey), gen(r, n, rOuter), gen(r, p, rKey), gen(r, p, rOuter))
	case "map[[4]byte][]uint16":
		kind, what = mapRoundTrip(api, gen(r, n, rArr), gen(r, n, rU16s), gen(r, p, rArr), gen(r, p, rU16s))
	case "map[struct][]struct":
		kind, what = mapRoundTrip(api, gen(r, n, rKey), gen(r, n, rInnerList), gen(r, p, rKey), gen(r, p, rInnerList))
	case "set[struct]":
		kind, what = setRoundTrip(api, gen(r, n, rKey), gen(r, p, rKey))
	case "set[[4]byte]":
		kind, what = setRoundTrip(api, gen(r, n, rArr), gen(r, p, rArr))
	case "set[string]":
		kind, what = setRoundTrip(api, gen(r, n, rStr), gen(r, p, rStr))
	}
	if kind == "" {
		return "", ""
	}
	dest := "empty-destination"
	if p > 0 {
		dest = "non-empty-destination"
	}
	return fmt.Sprintf("codec:%s/%s/%s", cc.Shape, dest, kind), fmt.Sprintf("serix round trip of %s with %d entries into a destination holding %d entries (seed %d): %s", cc.Shape, n, p, cc.Seed, what)
}

func (l *local) codecCases(rng *rand.Rand, rounds int) {
	for i := 0; i < rounds; i++ {
		for _, shape := range codecShapes {
			for n := 0; n <= 6; n++ {
				pre := 0
				if i%2 == 1 {
					pre = 1 + rng.Intn(3)
				}
				cc := codecCase{Kind: "codec", Shape: shape, Seed: rng.Int63(), Entries: n, Pre: pre}
				fp, what := runCodecCase(cc)
				l.evals++
				l.counts["codec:"+shape]++
				if pre > 0 {
					l.counts["codec:non-empty-destination"]++
				}
				if n >= 2 {
					l.counts["codec:two-or-more-entries"]++
				}
				l.distinct[mixHash(0, fmt.Sprint(shape, n, pre > 0))] = struct{}{}
				if fp != "" {
					cc.What = what
					l.viol(fp, what, cc)
				}
			}
		}
	}
}
