package main

// Concurrent part of C11: dead-lock freedom of all method pairs/triples, atomicity of
// Apply/Compute/Replace, per-key linearizability of the single-element operations.

import (
	"fmt"
	"math/rand"
	"os"
	"regexp"
	"runtime"
	"sort"
	"strings"
	"sync"
	"sync/atomic"
	"time"

	"github.com/anishathalye/porcupine"
	"github.com/iotaledger/hive.go/ds"
	"github.com/iotaledger/hive.go/ds/orderedmap"
	"verif/harness/internal/gdump"
	"verif/harness/internal/vf"
)

// ------------------------------------------------------------------ named entry points
//
// Every call into hive.go made by a concurrent workload goes through one of these
// functions, so that a race report can be classified by the harness frames on its
// two stacks (§1.6): rop_single_* = single-element operations, rop_atomic_* =
// Apply/Compute/Replace – the operations the statement constrains – rop_other_* =
// everything else (iteration, bulk and whole-set operations).

//go:noinline
func rop_single_SetAdd(s ds.Set[int], e int) bool { return s.Add(e) }

//go:noinline
func rop_single_SetDelete(s ds.Set[int], e int) bool { return s.Delete(e) }

//go:noinline
func rop_single_SetHas(s ds.Set[int], e int) bool { return s.Has(e) }

//go:noinline
func rop_atomic_Apply(s ds.Set[int], m ds.SetMutations[int]) ds.SetMutations[int] { return s.Apply(m) }

//go:noinline
func rop_atomic_Compute(s ds.Set[int], f func(ds.ReadableSet[int]) ds.SetMutations[int]) ds.SetMutations[int] {
	return s.Compute(f)
}

//go:noinline
func rop_atomic_Replace(s ds.Set[int], x ds.ReadableSet[int]) ds.Set[int] { return s.Replace(x) }

//go:noinline
func rop_other_AddAll(s ds.Set[int], x ds.ReadableSet[int]) ds.Set[int] { return s.AddAll(x) }

//go:noinline
func rop_other_DeleteAll(s ds.Set[int], x ds.ReadableSet[int]) ds.Set[int] { return s.DeleteAll(x) }

//go:noinline
func rop_other_HasAll(s ds.Set[int], x ds.ReadableSet[int]) bool { return s.HasAll(x) }

//go:noinline
func rop_other_Equals(s ds.Set[int], x ds.ReadableSet[int]) bool { return s.Equals(x) }

//go:noinline
func rop_other_Intersect(s ds.Set[int], x ds.ReadableSet[int]) int { return s.Intersect(x).Size() }

//go:noinline
func rop_other_Filter(s ds.Set[int]) int {
	return s.Filter(func(e int) bool { return e%2 == 0 }).Size()
}

//go:noinline
func rop_other_Clone(s ds.Set[int]) int { return s.Clone().Size() }

//go:noinline
func rop_other_ToSlice(s ds.Set[int]) int { return len(s.ToSlice()) + len(s.String()) }

//go:noinline
func rop_other_AnyIs(s ds.Set[int], e int) bool { _, ok := s.Any(); return s.Is(e) || ok }

//go:noinline
func rop_other_Clear(s ds.Set[int]) { s.Clear() }

//go:noinline
func rop_other_Size(s ds.Set[int]) int {
	if s.IsEmpty() {
		return 0
	}
	return s.Size()
}

//go:noinline
func rop_other_ForEach(s ds.Set[int]) int {
	n := 0
	_ = s.ForEach(func(int) error { n++; return nil })
	s.Range(func(int) { n++ })
	return n
}

//go:noinline
func rop_other_Iterator(s ds.Set[int]) int {
	n := 0
	for it := s.Iterator(); it.HasNext() && n < 1000; n++ {
		it.Next()
	}
	return n + s.ReadOnly().Size()
}

type omap = orderedmap.OrderedMap[int, uint64]

//go:noinline
func rop_single_MapSet(m *omap, k int, v uint64) (uint64, bool) { return m.Set(k, v) }

//go:noinline
func rop_single_MapGet(m *omap, k int) (uint64, bool) { return m.Get(k) }

//go:noinline
func rop_single_MapHas(m *omap, k int) bool { return m.Has(k) }

//go:noinline
func rop_single_MapDelete(m *omap, k int) bool { return m.Delete(k) }

//go:noinline
func rop_other_MapForEach(m *omap) (sum uint64) {
	m.ForEach(func(_ int, v uint64) bool { sum += v; return true })
	m.ForEachReverse(func(_ int, v uint64) bool { sum += v; return true })
	return
}

//go:noinline
func rop_other_MapMisc(m *omap, i int) int {
	switch i % 4 {
	case 0:
		_, _, _ = m.Head()
		_, _, _ = m.Tail()
	case 1:
		return m.Clone().Size()
	case 2:
		if i%64 == 2 {
			m.Clear()
		}
	}
	return m.Size()
}

// yieldSet is a caller-provided ReadableSet whose iteration yields the processor
// between elements (a user's set may be arbitrarily slow to iterate).
type yieldSet struct{ ds.ReadableSet[int] }

func (y yieldSet) ForEach(cb func(int) error) error {
	return y.ReadableSet.ForEach(func(e int) error { runtime.Gosched(); return cb(e) })
}

func (y yieldSet) Range(cb func(int)) {
	y.ReadableSet.Range(func(e int) { runtime.Gosched(); cb(e) })
}

// ------------------------------------------------------------------ (a) method combinations

const comboUniverse = 8

type gctx struct {
	rng  *rand.Rand
	full ds.ReadableSet[int]
}

func (g *gctx) other(s ds.Set[int], i int) ds.ReadableSet[int] {
	switch i % 4 {
	case 0:
		return s // the set itself as argument
	case 1:
		return g.full
	}
	x := ds.NewSet[int]()
	for e := 0; e < comboUniverse; e++ {
		if g.rng.Intn(2) == 0 {
			x.Add(e)
		}
	}
	return yieldSet{x}
}

type method struct {
	name string
	run  func(s ds.Set[int], g *gctx, i int)
}

var methods = []method{
	{"Add", func(s ds.Set[int], g *gctx, i int) { rop_single_SetAdd(s, g.rng.Intn(comboUniverse)) }},
	{"Delete", func(s ds.Set[int], g *gctx, i int) { rop_single_SetDelete(s, g.rng.Intn(comboUniverse)) }},
	{"AddAll", func(s ds.Set[int], g *gctx, i int) { rop_other_AddAll(s, g.other(s, i)) }},
	{"DeleteAll", func(s ds.Set[int], g *gctx, i int) { rop_other_DeleteAll(s, g.other(s, i)) }},
	{"Apply", func(s ds.Set[int], g *gctx, i int) {
		k := g.rng.Intn(comboUniverse / 2)
		m := ds.NewSetMutations[int]()
		if i%2 == 0 {
			m.WithAddedElements(ds.NewSet(2*k, 2*k+1))
		} else {
			m.WithDeletedElements(ds.NewSet(2*k, 2*k+1))
		}
		rop_atomic_Apply(s, m)
	}},
	{"Compute", func(s ds.Set[int], g *gctx, i int) {
		k := g.rng.Intn(comboUniverse)
		rop_atomic_Compute(s, func(r ds.ReadableSet[int]) ds.SetMutations[int] {
			runtime.Gosched()
			if r.Has(k) {
				return ds.NewSetMutations[int]().WithDeletedElements(ds.NewSet(k))
			}
			return ds.NewSetMutations(k)
		})
	}},
	{"Replace", func(s ds.Set[int], g *gctx, i int) { rop_atomic_Replace(s, g.other(s, i+1)) }},
	{"Has", func(s ds.Set[int], g *gctx, i int) { rop_single_SetHas(s, g.rng.Intn(comboUniverse)) }},
	{"HasAll", func(s ds.Set[int], g *gctx, i int) { rop_other_HasAll(s, g.other(s, i)) }},
	{"Equals", func(s ds.Set[int], g *gctx, i int) { rop_other_Equals(s, g.other(s, i)) }},
	{"Intersect", func(s ds.Set[int], g *gctx, i int) { rop_other_Intersect(s, g.other(s, i)) }},
	{"Filter", func(s ds.Set[int], g *gctx, i int) { rop_other_Filter(s) }},
	{"Clone", func(s ds.Set[int], g *gctx, i int) { rop_other_Clone(s) }},
	{"ToSlice", func(s ds.Set[int], g *gctx, i int) { rop_other_ToSlice(s) }},
	{"AnyIs", func(s ds.Set[int], g *gctx, i int) { rop_other_AnyIs(s, g.rng.Intn(comboUniverse)) }},
	{"Clear", func(s ds.Set[int], g *gctx, i int) { rop_other_Clear(s) }},
	{"Size", func(s ds.Set[int], g *gctx, i int) { rop_other_Size(s) }},
	{"ForEach", func(s ds.Set[int], g *gctx, i int) { rop_other_ForEach(s) }},
	{"Iterator", func(s ds.Set[int], g *gctx, i int) { rop_other_Iterator(s) }},
}

// combos returns all multisets of 2 and of 3 methods, in a fixed order.
func combos() [][]int {
	var out [][]int
	n := len(methods)
	for a := 0; a < n; a++ {
		for b := a; b < n; b++ {
			out = append(out, []int{a, b})
		}
	}
	for a := 0; a < n; a++ {
		for b := a; b < n; b++ {
			for d := b; d < n; d++ {
				out = append(out, []int{a, b, d})
			}
		}
	}
	return out
}

func comboName(ms []int) string {
	ss := make([]string, len(ms))
	for i, m := range ms {
		ss[i] = methods[m].name
	}
	return strings.Join(ss, "||")
}

// runCombo loops the given methods concurrently on one set. It returns when all
// goroutines finished; if they never do, the process is dead-locked and the verdict
// comes from the Go runtime (plain build) or the snapshot monitor (race build).
func runCombo(ms []int, iters int, seed int64) (calls, overlaps int64, panics []string, invKind, invWhat string) {
	s := ds.NewSet(0, 1, 2, 3)
	full := ds.NewSet[int]()
	for e := 0; e < comboUniverse; e++ {
		full.Add(e)
	}
	var wg sync.WaitGroup
	var inflight, ov atomic.Int64
	var pmu sync.Mutex
	start := make(chan struct{})
	for gi, mi := range ms {
		wg.Add(1)
		go func(gi, mi int) {
			defer wg.Done()
			g := &gctx{rng: rand.New(rand.NewSource(seed*31 + int64(gi))), full: yieldSet{full}}
			defer func() {
				if p := recover(); p != nil {
					inflight.Add(-1)
					pmu.Lock()
					panics = append(panics, fmt.Sprintf("%s: %v", methods[mi].name, p))
					pmu.Unlock()
				}
			}()
			<-start
			for i := 0; i < iters; i++ {
				if inflight.Add(1) > 1 {
					ov.Add(1)
				}
				methods[mi].run(s, g, i)
				inflight.Add(-1)
			}
		}(gi, mi)
	}
	close(start)
	wg.Wait()
	invKind, invWhat = setInvariant(s, comboUniverse)
	return int64(len(ms) * iters), ov.Load(), panics, invKind, invWhat
}

// ------------------------------------------------------------------ dead-lock classification

var setFrameRe = regexp.MustCompile(`hive\.go/ds\.\(\*(set|readableSet)\[[^\]]*\]\)\.([A-Za-z]+)`)
var mapFrameRe = regexp.MustCompile(`hive\.go/ds/orderedmap\.\(\*OrderedMap\[[^\]]*\]\)\.([A-Za-z]+)`)

// deadlockFingerprint derives a stable class name from the goroutine dump of a
// dead-locked process: a goroutine that waits for a read lock while one of its own
// outer frames already holds it is named by the chain of Set methods (e.g.
// DeleteAll>Delete); otherwise the blocked entry points are listed.
func deadlockFingerprint(gs []gdump.G) (fp string, desc string) {
	var reentrant, parts []string
	for _, g := range gs {
		var chain []string // outermost → innermost Set methods that take applyMutex
		lock := ""
		outer := ""
		for i := len(g.Frames) - 1; i >= 0; i-- {
			f := g.Frames[i]
			if m := setFrameRe.FindStringSubmatch(f); m != nil && m[1] == "set" {
				if outer == "" {
					outer = "Set." + m[2]
				}
				if m[2] != "apply" && m[2] != "ReadOnly" && (len(chain) == 0 || chain[len(chain)-1] != m[2]) {
					chain = append(chain, m[2])
				}
			} else if m := mapFrameRe.FindStringSubmatch(f); m != nil && outer == "" {
				outer = "OrderedMap." + m[1]
			} else if m := setFrameRe.FindStringSubmatch(f); m != nil && outer == "" {
				outer = "Set." + m[2]
			}
			if strings.HasPrefix(f, "sync.(*RWMutex).") {
				lock = strings.TrimPrefix(f, "sync.(*RWMutex).")
			}
		}
		if outer == "" || !g.Parked() {
			continue
		}
		if (lock == "RLock" || lock == "Lock") && len(chain) >= 2 {
			// every method defined on *set itself takes applyMutex: one of them below another one on the same stack
			// waits for a lock its own caller holds (or, across two sets, holds one set's lock while taking the other's)
			reentrant = append(reentrant, lock+":"+strings.Join(chain, ">"))
		}
		parts = append(parts, fmt.Sprintf("%s[%s]", outer, lock))
	}
	sort.Strings(parts)
	desc = strings.Join(parts, " + ")
	if len(reentrant) > 0 {
		sort.Strings(reentrant)
		return "deadlock:reentrant-applyMutex." + reentrant[0], desc
	}
	uniq := parts[:0:0]
	for i, p := range parts {
		if i == 0 || p != parts[i-1] {
			uniq = append(uniq, p)
		}
	}
	return "deadlock:" + strings.Join(uniq, "+"), desc
}

// startMonitor (race build only: the runtime detector does not fire there) polls
// consistent goroutine snapshots; two identical consecutive snapshots in which every
// goroutine is parked on a lock/channel mean nothing can ever run again. The sleep is
// only the polling rhythm – the verdict is structural.
func startMonitor(c *vf.Ctx) {
	go func() {
		last := ""
		for {
			time.Sleep(25 * time.Millisecond)
			gs := gdump.Snapshot()
			if !gdump.Quiescent(gs) {
				last = ""
				continue
			}
			var b strings.Builder
			var raw strings.Builder
			for _, g := range gs {
				if g.State == "running" {
					continue
				}
				fmt.Fprintf(&b, "%d %s %v|", g.ID, g.State, g.Frames)
				raw.WriteString(g.Raw)
				raw.WriteString("\n\n")
			}
			if k := b.String(); k != last {
				last = k
				continue
			}
			c.Emit("deadlock", raw.String())
			c.FlushStats()
			os.Exit(7)
		}
	}()
}

// ------------------------------------------------------------------ (b) atomicity, (c) linearizability

var clock atomic.Int64

type hop struct {
	Client int    `json:"client"`
	Op     string `json:"op"`
	Key    int    `json:"key,omitempty"`
	Arg    uint64 `json:"arg,omitempty"`  // value written / added mask
	Arg2   uint64 `json:"arg2,omitempty"` // deleted mask / replace mask
	Out    uint64 `json:"out"`            // value / added mask
	Out2   uint64 `json:"out2,omitempty"` // removed mask
	Seen   uint64 `json:"seen,omitempty"` // Compute: state seen by the factory
	OK     bool   `json:"ok"`
	Call   int64  `json:"call"`
	Ret    int64  `json:"ret"`
}

type histCase struct {
	Kind    string `json:"kind"` // hist-atomic | hist-set | hist-map
	Seed    int64  `json:"seed"`
	History []hop  `json:"history"`
	What    string `json:"what,omitempty"`
}

func toOps(h []hop) []porcupine.Operation {
	out := make([]porcupine.Operation, len(h))
	for i, o := range h {
		out[i] = porcupine.Operation{ClientId: o.Client, Input: o, Output: o, Call: o.Call, Return: o.Ret}
	}
	return out
}

func partitionByKey(history []porcupine.Operation) [][]porcupine.Operation {
	m := map[int][]porcupine.Operation{}
	var keys []int
	for _, o := range history {
		k := o.Input.(hop).Key
		if _, ok := m[k]; !ok {
			keys = append(keys, k)
		}
		m[k] = append(m[k], o)
	}
	sort.Ints(keys)
	out := make([][]porcupine.Operation, 0, len(keys))
	for _, k := range keys {
		out = append(out, m[k])
	}
	return out
}

// setKeyModel: one key of a ds.Set – state = present?
var setKeyModel = porcupine.Model{
	Partition: partitionByKey,
	Init:      func() any { return false },
	Step: func(st, in, _ any) (bool, any) {
		present, o := st.(bool), in.(hop)
		switch o.Op {
		case "Add":
			return o.OK == !present, true
		case "Delete":
			return o.OK == present, false
		default: // Has
			return o.OK == present, present
		}
	},
}

type mapKeyState struct {
	present bool
	v       uint64
}

// mapKeyModel: one key of an OrderedMap with unique written values.
var mapKeyModel = porcupine.Model{
	Partition: partitionByKey,
	Init:      func() any { return mapKeyState{} },
	Step: func(st, in, _ any) (bool, any) {
		s, o := st.(mapKeyState), in.(hop)
		switch o.Op {
		case "Set":
			ok := o.OK == s.present && (!s.present || o.Out == s.v)
			return ok, mapKeyState{true, o.Arg}
		case "Get":
			return o.OK == s.present && (!s.present || o.Out == s.v), s
		case "Has":
			return o.OK == s.present, s
		default: // Delete
			return o.OK == s.present, mapKeyState{}
		}
	},
}

// atomicModel: the whole set as a bit mask; operations Apply / Compute / Replace only.
var atomicModel = porcupine.Model{
	Init: func() any { return uint64(0) },
	Step: func(st, in, _ any) (bool, any) {
		s, o := st.(uint64), in.(hop)
		switch o.Op {
		case "Apply", "Compute":
			if o.Op == "Compute" && o.Seen != s {
				return false, s
			}
			s1 := s | o.Arg
			s2 := s1 &^ o.Arg2
			return o.Out == o.Arg&^s && o.Out2 == o.Arg2&s1, s2
		default: // Replace: the returned set lies between "removed" and "previous" (its exact contract is checked sequentially)
			return o.Out2&^s == 0 && (s&^o.Arg2)&^o.Out2 == 0, o.Arg2
		}
	},
}

func maskOf(xs []int) (m uint64) {
	for _, x := range xs {
		m |= 1 << uint(x)
	}
	return
}

func setOfMask(m uint64) ds.Set[int] {
	s := ds.NewSet[int]()
	for e := 0; e < 16; e++ {
		if m&(1<<uint(e)) != 0 {
			s.Add(e)
		}
	}
	return s
}

func halfPair(m uint64) bool { return (m^(m>>1))&0x5555555555555555 != 0 }

type linzStats struct {
	histories, ops, overlapPairs, factoryViews int
}

func overlapPairs(h []hop) (n int) {
	for i := range h {
		for j := i + 1; j < len(h); j++ {
			if h[i].Client != h[j].Client && h[i].Call < h[j].Ret && h[j].Call < h[i].Ret {
				n++
			}
		}
	}
	return
}

// recordRun starts G goroutines that each perform n operations produced by gen and
// returns the merged history.
func recordRun(G, n int, seed int64, do func(client int, rng *rand.Rand, i int) hop) []hop {
	var wg sync.WaitGroup
	start := make(chan struct{})
	per := make([][]hop, G)
	for g := 0; g < G; g++ {
		wg.Add(1)
		go func(g int) {
			defer wg.Done()
			defer guard()
			rng := rand.New(rand.NewSource(seed*131 + int64(g)))
			<-start
			for i := 0; i < n; i++ {
				if rng.Intn(4) == 0 {
					runtime.Gosched() // jitter only
				}
				per[g] = append(per[g], do(g, rng, i))
			}
		}(g)
	}
	close(start)
	wg.Wait()
	var all []hop
	for _, p := range per {
		all = append(all, p...)
	}
	sort.Slice(all, func(i, j int) bool { return all[i].Call < all[j].Call })
	return all
}

// atomicHistory: writers add/remove whole pairs {2k,2k+1} through Apply/Compute/Replace.
func atomicHistory(seed int64, halfSeen *atomic.Int64, views *atomic.Int64) ([]hop, string, string) {
	s := ds.NewSet[int]()
	const pairs = 4
	pairMask := func(k int) uint64 { return 3 << uint(2*k) }
	h := recordRun(3, 5, seed, func(client int, rng *rand.Rand, i int) hop {
		o := hop{Client: client}
		switch rng.Intn(3) {
		case 0:
			o.Op = "Apply"
			k1 := rng.Intn(pairs)
			k2 := (k1 + 1 + rng.Intn(pairs-1)) % pairs
			switch rng.Intn(3) {
			case 0:
				o.Arg = pairMask(k1)
			case 1:
				o.Arg2 = pairMask(k1)
			default:
				o.Arg, o.Arg2 = pairMask(k1), pairMask(k2)
			}
			m := ds.NewSetMutations[int]().WithAddedElements(setOfMask(o.Arg)).WithDeletedElements(setOfMask(o.Arg2))
			o.Call = clock.Add(1)
			r := rop_atomic_Apply(s, m)
			o.Ret = clock.Add(1)
			o.Out, o.Out2 = maskOf(r.AddedElements().ToSlice()), maskOf(r.DeletedElements().ToSlice())
		case 1:
			o.Op = "Compute"
			k := rng.Intn(pairs)
			o.Call = clock.Add(1)
			r := rop_atomic_Compute(s, func(rs ds.ReadableSet[int]) ds.SetMutations[int] {
				o.Seen = maskOf(rs.ToSlice())
				views.Add(1)
				if halfPair(o.Seen) {
					halfSeen.Add(1)
				}
				runtime.Gosched()
				if again := maskOf(rs.ToSlice()); again != o.Seen {
					halfSeen.Add(1) // the set changed while the factory held the apply lock
				}
				if o.Seen&pairMask(k) != 0 {
					o.Arg2 = pairMask(k)
					return ds.NewSetMutations[int]().WithDeletedElements(setOfMask(o.Arg2))
				}
				o.Arg = pairMask(k)
				return ds.NewSetMutations[int]().WithAddedElements(setOfMask(o.Arg))
			})
			o.Ret = clock.Add(1)
			o.Out, o.Out2 = maskOf(r.AddedElements().ToSlice()), maskOf(r.DeletedElements().ToSlice())
		default:
			o.Op = "Replace"
			for k := 0; k < pairs; k++ {
				if rng.Intn(2) == 0 {
					o.Arg2 |= pairMask(k)
				}
			}
			x := setOfMask(o.Arg2)
			o.Call = clock.Add(1)
			r := rop_atomic_Replace(s, yieldSet{x})
			o.Ret = clock.Add(1)
			o.Out2 = maskOf(r.ToSlice())
		}
		return o
	})
	// a final observation after all writers finished
	fin := hop{Client: 3, Op: "Compute"}
	fin.Call = clock.Add(1)
	rop_atomic_Compute(s, func(rs ds.ReadableSet[int]) ds.SetMutations[int] {
		fin.Seen = maskOf(rs.ToSlice())
		return ds.NewSetMutations[int]()
	})
	fin.Ret = clock.Add(1)
	k, w := setInvariant(s, 8)
	return append(h, fin), k, w
}

func setKeyHistory(seed int64) ([]hop, string, string) {
	s := ds.NewSet[int]()
	h := recordRun(4, 8, seed, func(client int, rng *rand.Rand, i int) hop {
		o := hop{Client: client, Key: rng.Intn(2)}
		o.Call = clock.Add(1)
		switch rng.Intn(3) {
		case 0:
			o.Op = "Add"
			o.OK = rop_single_SetAdd(s, o.Key)
		case 1:
			o.Op = "Delete"
			o.OK = rop_single_SetDelete(s, o.Key)
		default:
			o.Op = "Has"
			o.OK = rop_single_SetHas(s, o.Key)
		}
		o.Ret = clock.Add(1)
		return o
	})
	k, w := setInvariant(s, 2)
	return h, k, w
}

var uniqueValue atomic.Uint64

func mapKeyHistory(seed int64) ([]hop, string, string) {
	m := orderedmap.New[int, uint64]()
	h := recordRun(4, 8, seed, func(client int, rng *rand.Rand, i int) hop {
		o := hop{Client: client, Key: rng.Intn(2)}
		switch rng.Intn(5) {
		case 0, 1:
			o.Op = "Set"
			o.Arg = uniqueValue.Add(1)
			o.Call = clock.Add(1)
			o.Out, o.OK = rop_single_MapSet(m, o.Key, o.Arg)
		case 2:
			o.Op = "Get"
			o.Call = clock.Add(1)
			o.Out, o.OK = rop_single_MapGet(m, o.Key)
		case 3:
			o.Op = "Has"
			o.Call = clock.Add(1)
			o.OK = rop_single_MapHas(m, o.Key)
		default:
			o.Op = "Delete"
			o.Call = clock.Add(1)
			o.OK = rop_single_MapDelete(m, o.Key)
		}
		o.Ret = clock.Add(1)
		return o
	})
	k, w := mapInvariant(m, 2)
	return h, k, w
}

func checkHistory(kind string, h []hop) bool {
	var model porcupine.Model
	switch kind {
	case "hist-atomic":
		model = atomicModel
	case "hist-set":
		model = setKeyModel
	case "hist-diff":
		model = diffKeyModel
	case "hist-window":
		model = windowModel
	default:
		model = mapKeyModel
	}
	return porcupine.CheckOperations(model, toOps(h))
}

var histFP = map[string]string{
	"hist-atomic": "atomicity:apply-compute-replace-not-serializable",
	"hist-set":    "linearizability:set-add-delete-has",
	"hist-map":    "linearizability:orderedmap-set-get-has-delete",
	"hist-diff":   "conservation:reported-diffs-not-consistent-per-element",
	"hist-window": windowFP,
}

// linzChild runs n histories of each kind.
func linzChild(c *vf.Ctx, idx, n int) {
	var halfSeen, views atomic.Int64
	var win windowStats
	for i := 0; i < n; i++ {
		seed := c.Seed*1000003 + int64(idx)*100003 + int64(i)
		for _, kind := range []string{"hist-atomic", "hist-set", "hist-map", "hist-diff", "hist-window"} {
			var h, withHas []hop
			var ik, iw string
			structure := "set"
			switch kind {
			case "hist-atomic":
				before := halfSeen.Load()
				h, ik, iw = atomicHistory(seed, &halfSeen, &views)
				if halfSeen.Load() != before {
					c.Violation("atomicity:compute-factory-saw-partial-update", "Compute's factory, which runs under the apply lock, saw half of a pair that Apply/Compute/Replace only ever add or remove together (or saw the set change while it ran)", histCase{Kind: kind, Seed: seed, History: h})
				}
			case "hist-set":
				h, ik, iw = setKeyHistory(seed)
			case "hist-diff":
				h, ik, iw = diffHistory(seed)
			case "hist-window":
				h, withHas, ik, iw = windowHistory(seed, &win)
			default:
				structure = "orderedmap"
				h, ik, iw = mapKeyHistory(seed)
			}
			c.Count("evaluations", 1)
			c.Count("histories:"+kind, 1)
			c.Count("history_ops", len(h))
			c.Count("overlapping_op_pairs", overlapPairs(h))
			c.Count("quiescent_consistency_checks", 1)
			if drainPanics(c, kind+" round", seed) > 0 {
				continue // the history is incomplete: the panic is the finding
			}
			reportInvariant(c, structure, kind+" round", seed, ik, iw)
			if !checkHistory(kind, h) {
				what := fmt.Sprintf("%s history of %d operations (seed %d) has no legal sequential order", kind, len(h), seed)
				if kind == "hist-window" {
					what = fmt.Sprintf("Add/Delete of one element e racing with one Apply/Compute/Replace (each taken as ONE atomic step, additions-first or deletions-first) has no legal order (seed %d): %s", seed, describeWindow(h))
				}
				c.Violation(histFP[kind], what, histCase{Kind: kind, Seed: seed, History: h})
			} else if kind == "hist-window" && !checkHistory(kind, withHas) {
				win.hasUnexplained++
			}
			if i == 0 && idx == 0 && kind == "hist-atomic" && !vfRace {
				c.Sample(map[string]any{"kind": "recorded Apply/Compute/Replace history (masks over 4 pairs), accepted by porcupine", "history": h})
			}
		}
	}
	c.Count("compute_factory_views", int(views.Load()))
	c.Count("window:add-delete-probes", win.probes)
	c.Count("window:probes-overlapping-the-atomic-call", win.probesOverlapping)
	c.Count("window:rounds-apply-adds-and-deletes-probe", win.sharpRounds)
	c.Count("window:rounds-replace-keeps-probe", win.keptRounds)
	c.Count("window:has-saw-inside-of-atomic-call(not judged)", win.hasUnexplained)
}

// mapStress: iteration and whole-map operations racing with single-key writes (for
// the race detector; the map is judged for internal consistency at the end).
func mapStress(iters int, seed int64) (string, string) {
	m := orderedmap.New[int, uint64]()
	var wg sync.WaitGroup
	for g := 0; g < 4; g++ {
		wg.Add(1)
		go func(g int) {
			defer wg.Done()
			defer guard()
			rng := rand.New(rand.NewSource(seed + int64(g)))
			for i := 0; i < iters; i++ {
				k := rng.Intn(4)
				switch g {
				case 0:
					rop_single_MapSet(m, k, uint64(i))
				case 1:
					rop_other_MapForEach(m)
				case 2:
					if i%3 == 0 {
						rop_single_MapDelete(m, k)
					} else {
						rop_single_MapGet(m, k)
						rop_single_MapHas(m, k)
					}
				default:
					rop_other_MapMisc(m, i)
				}
			}
		}(g)
	}
	wg.Wait()
	return mapInvariant(m, 4)
}

// ------------------------------------------------------------------ race classification

var ropRe = regexp.MustCompile(`main\.rop_(single|atomic|other)_([A-Za-z]+)`)

// classifyRace returns the two harness entry points of a race report, the innermost
// hive.go functions of both stacks, and whether both stacks lie inside operations the
// statement constrains.
func classifyRace(r vf.RaceReport) (a, b, inner string, constrained bool) {
	head := r.Text
	if i := strings.Index(head, "\nGoroutine "); i >= 0 {
		head = head[:i]
	}
	var names, classes, inners []string
	for _, blk := range strings.Split(head, "\n\n") {
		if !strings.Contains(blk, "hive.go") {
			continue
		}
		in := ""
		for _, l := range strings.Split(blk, "\n") {
			if i := strings.Index(l, "github.com/iotaledger/hive.go/"); i >= 0 && strings.HasPrefix(l, "  ") && !strings.HasPrefix(l, "      ") {
				f := l[i+len("github.com/iotaledger/hive.go/"):]
				if j := strings.LastIndexByte(f, '('); j > 0 {
					f = f[:j]
				}
				in = typeParamRe.ReplaceAllString(f, "")
				break
			}
		}
		inners = append(inners, in)
		if m := ropRe.FindStringSubmatch(blk); m != nil {
			names = append(names, m[2])
			classes = append(classes, m[1])
		} else {
			names = append(names, "?")
			classes = append(classes, "other")
		}
	}
	if len(names) < 2 {
		return "?", "?", strings.Join(inners, " <-> "), false
	}
	constrained = classes[0] != "other" && classes[1] != "other"
	a, b = names[0], names[1]
	ia, ib := inners[0], inners[1]
	if b < a {
		a, b, ia, ib = b, a, ib, ia
	}
	return a, b, ia + " <-> " + ib, constrained
}

var typeParamRe = regexp.MustCompile(`\[[^\]]*\]`)
