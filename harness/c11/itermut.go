package main

// Sequential cases in which the ForEach / ForEachReverse / Range consumer itself mutates the structure it iterates.
// Demanded (statement: "iteration visits live keys in first-insertion order", and only what the unchanged tree
// gives): a key deleted before its turn is not visited; keys that are present throughout are visited exactly once,
// in order; whether a key inserted during the iteration is visited is not demanded (at most once); after Clear by
// the consumer only "no key twice, nothing new, order kept" is demanded for the rest of the walk. The state after the
// iteration must equal the model.

import (
	"fmt"

	"github.com/iotaledger/hive.go/ds"
	"github.com/iotaledger/hive.go/ds/orderedmap"
)

type iterCase struct {
	Kind   string `json:"kind"`   // "itermut"
	Target string `json:"target"` // map.ForEach map.ForEachReverse set.ForEach set.Range
	N      int    `json:"keys"`   // keys 0..N-1 inserted in this order
	Holes  int    `json:"holes"`  // bit mask of keys deleted again before the iteration (exercises unlinking)
	At     int    `json:"at"`     // the consumer acts during its At-th invocation (0-based)
	Action string `json:"action"` // delete-current delete-next delete-later delete-last delete-earlier set-new set-existing clear
	What   string `json:"what,omitempty"`
}

var iterTargets = []string{"map.ForEach", "map.ForEachReverse", "set.ForEach", "set.Range"}
var iterActions = []string{"delete-current", "delete-next", "delete-later", "delete-last", "delete-earlier", "delete-first", "set-new", "set-existing", "clear", "none"}

const newKey = 100

// runIterCase executes one case; returns (fingerprint, description) of a disagreement.
func runIterCase(ic iterCase) (fp, what string) {
	bad := func(kind, f string, a ...any) {
		if fp == "" {
			fp = fmt.Sprintf("itermut:%s/consumer-%s/%s", ic.Target, ic.Action, kind)
			what = fmt.Sprintf("%s over keys inserted 0..%d (deleted before the walk: mask %b), consumer does %s during invocation %d: ", ic.Target, ic.N-1, ic.Holes, ic.Action, ic.At) + fmt.Sprintf(f, a...)
		}
	}
	isMap := ic.Target[:3] == "map"
	reverse := ic.Target == "map.ForEachReverse"
	m := orderedmap.New[int, uint64]()
	s := ds.NewSet[int]()
	var live []int // model: live keys in first-insertion order
	for k := 0; k < ic.N; k++ {
		m.Set(k, uint64(k))
		s.Add(k)
	}
	for k := 0; k < ic.N; k++ {
		if ic.Holes&(1<<k) != 0 {
			m.Delete(k)
			s.Delete(k)
		} else {
			live = append(live, k)
		}
	}
	seq := append([]int{}, live...) // expected visiting order without interference
	if reverse {
		for i, j := 0, len(seq)-1; i < j; i, j = i+1, j-1 {
			seq[i], seq[j] = seq[j], seq[i]
		}
	}
	if ic.At >= len(seq) {
		return "", ""
	}
	del := func(k int) {
		if isMap {
			m.Delete(k)
		} else {
			s.Delete(k)
		}
	}
	deleted, cleared, added := -1, false, false
	act := func() {
		pick := func(i int) {
			if i >= 0 && i < len(seq) {
				deleted = seq[i]
				del(deleted)
			}
		}
		switch ic.Action {
		case "delete-current":
			pick(ic.At)
		case "delete-next":
			pick(ic.At + 1)
		case "delete-later":
			pick(ic.At + 2)
		case "delete-last":
			if len(seq)-1 > ic.At {
				pick(len(seq) - 1)
			}
		case "delete-earlier":
			pick(ic.At - 1)
		case "delete-first":
			if ic.At > 0 {
				pick(0)
			}
		case "set-new":
			added = true
			if isMap {
				m.Set(newKey, 7)
			} else {
				s.Add(newKey)
			}
		case "set-existing":
			if ic.At+1 < len(seq) {
				if isMap {
					m.Set(seq[ic.At+1], 99)
				} else {
					s.Add(seq[ic.At+1])
				}
			}
		case "clear":
			cleared = true
			if isMap {
				m.Clear()
			} else {
				s.Clear()
			}
		}
	}
	var visited []int
	n := 0
	visit := func(k int) bool {
		visited = append(visited, k)
		if n == ic.At {
			act()
		}
		n++
		return n < 64
	}
	if p := try(func() {
		switch ic.Target {
		case "map.ForEach":
			m.ForEach(func(k int, _ uint64) bool { return visit(k) })
		case "map.ForEachReverse":
			m.ForEachReverse(func(k int, _ uint64) bool { return visit(k) })
		case "set.ForEach":
			_ = s.ForEach(func(e int) error {
				if !visit(e) {
					return errStop
				}
				return nil
			})
		default:
			s.Range(func(e int) { visit(e) })
		}
	}); p != nil {
		bad("panic", "panicked: %v", p)
		return
	}
	// visited keys: original ones and possibly the new key
	var orig []int
	newSeen := 0
	seen := map[int]bool{}
	for _, k := range visited {
		if seen[k] {
			bad("visited-twice", "key %d visited twice: %v", k, visited)
			return
		}
		seen[k] = true
		if k == newKey {
			newSeen++
		} else {
			orig = append(orig, k)
		}
	}
	if newSeen > 0 && !added {
		bad("visited-unknown-key", "visited %v", visited)
	}
	deletedAt := -1
	for i, k := range seq {
		if k == deleted {
			deletedAt = i
		}
	}
	if cleared {
		// the first At+1 visits are fixed; afterwards only a subsequence of the old order
		if len(orig) < ic.At+1 || fmt.Sprint(orig[:ic.At+1]) != fmt.Sprint(seq[:ic.At+1]) {
			bad("visited", "visited %v, expected to start with %v", visited, seq[:ic.At+1])
		}
		j := 0
		for _, k := range orig {
			for j < len(seq) && seq[j] != k {
				j++
			}
			if j == len(seq) {
				bad("visited", "visited %v is not in first-insertion order %v", visited, seq)
				break
			}
		}
	} else {
		var want []int
		for i, k := range seq {
			if i == deletedAt && i > ic.At {
				continue // deleted before its turn
			}
			want = append(want, k)
		}
		if fmt.Sprint(orig) != fmt.Sprint(want) {
			kind := "visited"
			if deletedAt > ic.At && seen[deleted] {
				kind = "visited-deleted-key"
			}
			bad(kind, "visited %v, expected %v (key %d was deleted before its turn: %v)", visited, want, deleted, deletedAt > ic.At)
		}
	}
	// state afterwards
	var after []int
	switch {
	case cleared:
	default:
		for _, k := range live {
			if k != deleted {
				after = append(after, k)
			}
		}
		if added {
			after = append(after, newKey)
		}
	}
	var got, gotRev []int
	if isMap {
		m.ForEach(func(k int, _ uint64) bool { got = append(got, k); return len(got) < 64 })
		m.ForEachReverse(func(k int, _ uint64) bool { gotRev = append([]int{k}, gotRev...); return len(gotRev) < 64 })
		if m.Size() != len(after) {
			bad("state-after", "Size()=%d, model %v", m.Size(), after)
		}
	} else {
		got = s.ToSlice()
		gotRev = got
		if s.Size() != len(after) {
			bad("state-after", "Size()=%d, model %v", s.Size(), after)
		}
	}
	if fmt.Sprint(got) != fmt.Sprint(after) || fmt.Sprint(gotRev) != fmt.Sprint(after) {
		bad("state-after", "afterwards the structure iterates %v (reverse walk reversed: %v), model %v", got, gotRev, after)
	}
	return
}

// iterMutCases enumerates all cases: N up to 5 keys, every hole mask, every position, every action, every target.
func (l *local) iterMutCases() {
	for _, target := range iterTargets {
		for n := 1; n <= 5; n++ {
			for holes := 0; holes < 1<<n; holes++ {
				for at := 0; at < n; at++ {
					for _, action := range iterActions {
						ic := iterCase{Kind: "itermut", Target: target, N: n, Holes: holes, At: at, Action: action}
						fp, what := runIterCase(ic)
						l.evals++
						l.counts["itermut:"+target]++
						l.counts["itermut:consumer-"+action]++
						l.distinct[mixHash(0, fmt.Sprint(ic))] = struct{}{}
						if fp != "" {
							ic.What = what
							l.viol(fp, what, ic)
						}
					}
				}
			}
		}
	}
}
