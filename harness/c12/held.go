package main

// Returned aggregates are caller-owned.
//
// Every slice/map a container hands out (Keys, Values, AsMap, ToSlice, RandomUniqueEntries,
// PopUntil, PopAll, Clear results, All, cloned items) is registered here by the machines
// together with a deep copy taken at return time. After every following step of the history
//   (a) the held result is compared with its copy again: a later operation on the container
//       must not change what the caller was given ("<Name>-held-result-changed"), and
//   (b) some held results are scribbled on the caller's side (reversed, overwritten with
//       garbage, spare capacity filled, map entries replaced): the container must keep
//       agreeing with its model afterwards – that is judged by the ordinary observers of the
//       following steps.
// Which results are scribbled and how is a function of the step index only, so histories stay
// replayable and minimisable. Arguments handed in (Walker.PushAll/PushFront element slices,
// BytesFilter byte slices) are scribbled by the machines right after the call returned.

import "fmt"

const (
	heldMax     = 12    // results kept per history segment
	heldGarbage = -7777 // never a key, value or element of any history
)

type heldRes struct {
	name     string
	born     int                  // step that produced it
	mode     int                  // 0: only held; 1: scribbled at the end of its own step; 2: scribbled one step later
	done     bool                 // already scribbled
	check    func() string        // "" while the live result equals the copy
	scribble func(kind int) error // mutate the caller's result, then refresh the copy
}

func (x *hx) addHeld(h *heldRes) {
	if x.quiet {
		return
	}
	h.born = x.step
	h.mode = (x.step + len(x.held)) % 3
	x.held = append(x.held, h)
	if len(x.held) > heldMax {
		x.held = x.held[len(x.held)-heldMax:]
	}
	x.note("held_results")
}

// afterStep runs after every step of the main machine (never on replicas).
func (x *hx) afterStep() {
	if x.quiet || !x.ok() {
		return
	}
	keep := x.held[:0]
	for _, h := range x.held {
		if h.born < x.step {
			if msg := h.check(); msg != "" {
				x.fail(h.name+"-held-result-changed", "the result of %s obtained %d step(s) earlier changed in the caller's hands: %s", h.name, x.step-h.born, msg)
				x.held = nil
				return
			}
			x.note("held_rechecks")
		}
		keep = append(keep, h)
	}
	x.held = keep
	for i, h := range x.held {
		if h.done || h.mode == 0 || (h.mode == 2 && h.born == x.step) {
			continue
		}
		h.done = true
		if err := h.scribble((h.born + i) % 3); err == nil {
			x.note("held_scribbles")
			x.scribbles++
		}
	}
}

// holdSlice registers a returned slice. garbage is a value no history uses.
func holdSlice[T comparable](x *hx, name string, live []T, garbage T) {
	if x.quiet || cap(live) == 0 {
		return
	}
	cp := append([]T(nil), live...)
	h := &heldRes{name: name}
	h.check = func() string {
		if len(live) != len(cp) {
			return fmt.Sprintf("length %d -> %d", len(cp), len(live))
		}
		for i := range cp {
			if live[i] != cp[i] {
				return fmt.Sprintf("was %v, is now %v", cp, live)
			}
		}
		return ""
	}
	h.scribble = func(kind int) error {
		switch kind {
		case 0: // reorder (what a caller's sort does)
			for i, j := 0, len(live)-1; i < j; i, j = i+1, j-1 {
				live[i], live[j] = live[j], live[i]
			}
		case 1: // overwrite
			for i := range live {
				live[i] = garbage
			}
		default: // rotate by one and overwrite the first element
			if len(live) > 0 {
				first := live[0]
				copy(live, live[1:])
				live[len(live)-1] = first
				live[0] = garbage
			}
		}
		ext := live[:cap(live)] // append within capacity
		for i := len(live); i < len(ext); i++ {
			ext[i] = garbage
		}
		cp = append(cp[:0], live...)
		return nil
	}
	x.addHeld(h)
}

// holdMap registers a returned map.
func holdMap[K comparable, V comparable](x *hx, name string, live map[K]V, gk K, gv V) {
	if x.quiet || live == nil {
		return
	}
	cp := make(map[K]V, len(live))
	for k, v := range live {
		cp[k] = v
	}
	h := &heldRes{name: name}
	h.check = func() string {
		if len(live) != len(cp) {
			return fmt.Sprintf("was %v, is now %v", cp, live)
		}
		for k, v := range cp {
			if w, ok := live[k]; !ok || w != v {
				return fmt.Sprintf("was %v, is now %v", cp, live)
			}
		}
		return ""
	}
	h.scribble = func(kind int) error {
		switch kind {
		case 0:
			for k := range live {
				live[k] = gv
			}
		case 1:
			for k := range live {
				delete(live, k)
			}
		default:
			n := 0
			for k := range live {
				if n++; n%2 == 0 {
					delete(live, k)
				}
			}
		}
		live[gk] = gv
		for k := range cp {
			delete(cp, k)
		}
		for k, v := range live {
			cp[k] = v
		}
		return nil
	}
	x.addHeld(h)
}

// holdCustom registers a result with its own comparison/scribble (cloned items, ...).
func holdCustom(x *hx, name string, check func() string, scribble func(kind int)) {
	if x.quiet {
		return
	}
	x.addHeld(&heldRes{name: name, check: check, scribble: func(kind int) error { scribble(kind); return nil }})
}

// scribbleInts overwrites an argument slice after the call it was passed to returned.
func scribbleInts(a []int) {
	for i := range a {
		a[i] = heldGarbage
	}
	ext := a[:cap(a)]
	for i := len(a); i < len(ext); i++ {
		ext[i] = heldGarbage
	}
}
