package main

import (
	"strconv"

	"github.com/iotaledger/hive.go/ds/bytesfilter"
)

// BytesFilter vs "exactly the last N distinct identifiers" (re-adding a known one changes nothing).

type bfID [32]byte

const bfUniverse = 7

func bfBytes(i int) []byte { return []byte{byte(i + 1), 0xAB} }
func bfIdent(b []byte) (id bfID) {
	copy(id[:], b)
	return id
}

type bfMachine struct {
	real  *bytesfilter.BytesFilter[bfID]
	n     int
	model []int // oldest .. newest distinct identifiers, at most n
	gone  map[int]bool
}

func init() {
	register(&def{
		name:    "bytesfilter",
		configs: []string{"N=1", "N=2", "N=3", "N=4"},
		table: func(string) []opSpec {
			return []opSpec{
				{N: "Add", W: 6, Args: []int{bfUniverse}},
				{N: "AddIdentifier", W: 4, Args: []int{bfUniverse}},
				{N: "Contains", W: 1, Args: []int{bfUniverse}},
				{N: "ContainsIdentifier", W: 1, Args: []int{bfUniverse}},
			}
		},
		mk: func(cfg string) machine {
			n, _ := strconv.Atoi(cfg[2:])
			return &bfMachine{real: bytesfilter.New(bfIdent, n), n: n, gone: map[int]bool{}}
		},
		require: map[string]int{"evictions": 5000, "readd_known": 2000, "readd_evicted": 1000},
	})
}

func (m *bfMachine) has(i int) bool {
	for _, e := range m.model {
		if e == i {
			return true
		}
	}
	return false
}

func (m *bfMachine) add(x *hx, i int) bool {
	if m.has(i) {
		x.note("readd_known")
		return false
	}
	if m.gone[i] {
		x.note("readd_evicted")
	}
	m.model = append(m.model, i)
	if len(m.model) > m.n {
		x.note("evictions")
		m.gone[m.model[0]] = true
		m.model = append([]int(nil), m.model[1:]...)
	}
	return true
}

func (m *bfMachine) step(x *hx, o op) {
	i := o.arg(0)
	switch o.N {
	case "Add":
		want := m.add(x, i)
		arg := append(make([]byte, 0, 8), bfBytes(i)...)
		id, added := m.real.Add(arg)
		for j := range arg[:cap(arg)] { // the argument stays the caller's
			arg[:cap(arg)][j] = 0xEE
		}
		if id != bfIdent(bfBytes(i)) {
			x.failOp("wrong-identifier", "Add(%v) returned identifier %v", bfBytes(i), id[:3])
		}
		if added != want {
			x.failOp("wrong-return", "Add(#%d) = %v, model %v (N=%d) says %v", i, added, m.model, m.n, want)
		}
	case "AddIdentifier":
		want := m.add(x, i)
		if added := m.real.AddIdentifier(bfIdent(bfBytes(i))); added != want {
			x.failOp("wrong-return", "AddIdentifier(#%d) = %v, model %v (N=%d) says %v", i, added, m.model, m.n, want)
		}
	case "Contains":
		arg := append(make([]byte, 0, 8), bfBytes(i)...)
		g := m.real.Contains(arg)
		for j := range arg[:cap(arg)] {
			arg[:cap(arg)][j] = 0xEE
		}
		if g != m.has(i) {
			x.failOp("wrong-return", "Contains(#%d) = %v, model %v", i, g, m.model)
		}
	case "ContainsIdentifier":
		if g := m.real.ContainsIdentifier(bfIdent(bfBytes(i))); g != m.has(i) {
			x.failOp("wrong-return", "ContainsIdentifier(#%d) = %v, model %v", i, g, m.model)
		}
	}
	if !x.ok() {
		return
	}
	for u := 0; u < bfUniverse; u++ {
		g := m.real.ContainsIdentifier(bfIdent(bfBytes(u)))
		if g != m.has(u) {
			if g {
				x.failOp("remembers-evicted", "afterwards ContainsIdentifier(#%d) = true, model (oldest..newest) %v, N=%d", u, m.model, m.n)
			} else {
				x.failOp("forgot-recent", "afterwards ContainsIdentifier(#%d) = false, model (oldest..newest) %v, N=%d", u, m.model, m.n)
			}
		}
		if g2 := m.real.Contains(bfBytes(u)); g2 != g {
			x.failOp("Contains-disagrees", "Contains(#%d) = %v but ContainsIdentifier = %v", u, g2, g)
		}
	}
}

func (m *bfMachine) drain(x *hx) {
	// push N fresh identifiers through: afterwards exactly those are known
	for k := 0; k < m.n; k++ {
		m.real.AddIdentifier(bfIdent([]byte{200, byte(k)}))
	}
	for u := 0; u < bfUniverse; u++ {
		if m.real.ContainsIdentifier(bfIdent(bfBytes(u))) {
			x.fail("drain-remembers-evicted", "after adding N=%d fresh identifiers #%d is still known (model before %v)", m.n, u, m.model)
		}
	}
	for k := 0; k < m.n; k++ {
		if !m.real.ContainsIdentifier(bfIdent([]byte{200, byte(k)})) {
			x.fail("drain-forgot-recent", "after adding N=%d fresh identifiers, fresh #%d is not known", m.n, k)
		}
	}
}

func (m *bfMachine) state() uint64 { return newHasher().ints(m.model).h }
