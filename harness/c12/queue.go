package main

import (
	"strconv"

	"github.com/iotaledger/hive.go/ds/queue"
)

// Queue vs a bounded FIFO: Offer drops when full, ForceOffer evicts and returns the oldest.

type queueMachine struct {
	real   *queue.Queue[int]
	cap    int
	model  []int
	next   int
	writes int
}

func init() {
	register(&def{
		name:    "queue",
		configs: []string{"cap=1", "cap=2", "cap=3", "cap=4"},
		table: func(string) []opSpec {
			return []opSpec{
				{N: "Offer", W: 6},
				{N: "ForceOffer", W: 6},
				{N: "Poll", W: 5},
			}
		},
		mk: func(cfg string) machine {
			n, _ := strconv.Atoi(cfg[4:])
			return &queueMachine{real: queue.New[int](n), cap: n, next: 1}
		},
		replica: true,
		require: map[string]int{"wraparounds": 3000, "forceoffer_evicts": 2000, "offer_dropped": 1000},
	})
}

func (m *queueMachine) wrote(x *hx) {
	m.writes++
	if m.writes%m.cap == 0 {
		x.note("wraparounds")
	}
}

func (m *queueMachine) step(x *hx, o op) {
	switch o.N {
	case "Offer":
		v := m.next
		m.next++
		ok := m.real.Offer(v)
		want := len(m.model) < m.cap
		if ok != want {
			x.failOp("wrong-return", "Offer(%d) = %v, model %v holds %d of %d", v, ok, m.model, len(m.model), m.cap)
		}
		if want {
			m.model = append(m.model, v)
			m.wrote(x)
		} else {
			x.note("offer_dropped")
		}
	case "ForceOffer":
		v := m.next
		m.next++
		old, removed := m.real.ForceOffer(v)
		if len(m.model) == m.cap {
			x.note("forceoffer_evicts")
			if !removed || old != m.model[0] {
				x.failOp("wrong-evicted", "ForceOffer(%d) on a full queue returned (%d,%v), oldest element of the model %v", v, old, removed, m.model)
			}
			m.model = append([]int(nil), m.model[1:]...)
		} else if removed || old != 0 {
			x.failOp("spurious-eviction", "ForceOffer(%d) returned (%d,%v) although the model %v is not full (cap %d)", v, old, removed, m.model, m.cap)
		}
		m.model = append(m.model, v)
		m.wrote(x)
	case "Poll":
		g, ok := m.real.Poll()
		if len(m.model) == 0 {
			if ok || g != 0 {
				x.failOp("wrong-return", "Poll() on an empty queue = (%d,%v)", g, ok)
			}
		} else {
			if !ok || g != m.model[0] {
				x.failOp("wrong-return", "Poll() = (%d,%v), model %v", g, ok, m.model)
			}
			m.model = append([]int(nil), m.model[1:]...)
		}
	}
	if !x.ok() {
		return
	}
	if s := m.real.Size(); s != len(m.model) {
		x.failOp("wrong-Size", "Size() = %d, model %v", s, m.model)
	}
	if c := m.real.Capacity(); c != m.cap {
		x.failOp("wrong-Capacity", "Capacity() = %d, configured %d", c, m.cap)
	}
}

func (m *queueMachine) drain(x *hx) {
	var got []int
	for i := 0; i <= m.cap+1; i++ {
		g, ok := m.real.Poll()
		if !ok {
			break
		}
		got = append(got, g)
	}
	if !eqInts(got, m.model) {
		x.failOp("wrong-content", "polling everything yields %v, model %v (cap %d)", got, m.model, m.cap)
	}
}

func (m *queueMachine) state() uint64 {
	// fill level and ring position of the write cursor
	return newHasher().i(len(m.model)).i(m.writes % m.cap).h
}
