package main

import (
	"errors"
	"fmt"
	"strconv"
	"strings"

	"github.com/iotaledger/hive.go/web/subscriptionmanager"
)

// SubscriptionManager vs per-client topic counts with the derived per-topic sum.
// After every step all readers are compared with the model and the events emitted by the
// step are folded: TopicAdded/TopicRemoved alternate per topic and match the 0<->non-zero
// transitions of the sum; Subscribed-Unsubscribed per (client, topic) equals the change of
// the count; Connected/Disconnected/DropClient mirror the connection state. The limit is
// taken as implemented: adding the limit-th *distinct* topic drops the client.

const (
	subClients = 3
	subTopics  = 4
)

type subEvent struct {
	kind   string // connected disconnected subscribed unsubscribed added removed drop
	client int
	topic  int
	reason error
	// the event object itself is kept by the consumer (discipline 1: callback arguments are held results):
	// same reports whether the object still reads as it did at delivery, scribble overwrites it on the consumer's side
	same     func() string
	scribble func()
}

// event names as the API spells them (fingerprints)
var subEventName = map[string]string{"connected": "ClientConnected", "disconnected": "ClientDisconnected", "subscribed": "TopicSubscribed",
	"unsubscribed": "TopicUnsubscribed", "added": "TopicAdded", "removed": "TopicRemoved", "drop": "DropClient"}

type subMachine struct {
	real  *subscriptionmanager.SubscriptionManager[int, int]
	limit int
	// model
	clients map[int]map[int]int // connected client -> topic -> count
	// event fold
	live   [subTopics]bool // TopicAdded seen, TopicRemoved not yet
	events []subEvent
}

func init() {
	var cfgs []string
	for _, l := range []string{"0", "1", "2", "3"} {
		cfgs = append(cfgs, "limit="+l, "limit="+l+",cleanup=tiny,preconnected")
	}
	register(&def{
		name:    "submgr",
		configs: cfgs,
		table: func(string) []opSpec {
			return []opSpec{
				{N: "Connect", W: 5, Args: []int{subClients}},
				{N: "Disconnect", W: 2, Args: []int{subClients}},
				{N: "Subscribe", W: 14, Args: []int{subClients, subTopics}},
				{N: "Unsubscribe", W: 7, Args: []int{subClients, subTopics}},
			}
		},
		mk: func(cfg string) machine {
			m := &subMachine{clients: map[int]map[int]int{}}
			for _, kv := range strings.Split(cfg, ",") {
				if strings.HasPrefix(kv, "limit=") {
					m.limit, _ = strconv.Atoi(kv[6:])
				}
			}
			if strings.Contains(cfg, "cleanup=tiny") {
				m.real = subscriptionmanager.New(
					subscriptionmanager.WithMaxTopicSubscriptionsPerClient[int, int](m.limit),
					subscriptionmanager.WithCleanupThresholdCount[int, int](1),
					subscriptionmanager.WithCleanupThresholdRatio[int, int](0.5),
				)
			} else {
				m.real = subscriptionmanager.New(subscriptionmanager.WithMaxTopicSubscriptionsPerClient[int, int](m.limit))
			}
			ev := m.real.Events()
			// every hook keeps the event POINTER it was given together with a copy of the pointee taken at delivery
			clientEv := func(kind string) func(e *subscriptionmanager.ClientEvent[int]) {
				return func(e *subscriptionmanager.ClientEvent[int]) {
					cp := *e
					m.events = append(m.events, subEvent{kind: kind, client: e.ClientID,
						same: func() string {
							if *e != cp {
								return fmt.Sprintf("delivered as %+v, reads %+v now", cp, *e)
							}
							return ""
						},
						scribble: func() { e.ClientID = heldGarbage; cp = *e }})
				}
			}
			clientTopicEv := func(kind string) func(e *subscriptionmanager.ClientTopicEvent[int, int]) {
				return func(e *subscriptionmanager.ClientTopicEvent[int, int]) {
					cp := *e
					m.events = append(m.events, subEvent{kind: kind, client: e.ClientID, topic: e.Topic,
						same: func() string {
							if *e != cp {
								return fmt.Sprintf("delivered as %+v, reads %+v now", cp, *e)
							}
							return ""
						},
						scribble: func() { e.ClientID, e.Topic = heldGarbage, heldGarbage; cp = *e }})
				}
			}
			topicEv := func(kind string) func(e *subscriptionmanager.TopicEvent[int]) {
				return func(e *subscriptionmanager.TopicEvent[int]) {
					cp := *e
					m.events = append(m.events, subEvent{kind: kind, topic: e.Topic,
						same: func() string {
							if *e != cp {
								return fmt.Sprintf("delivered as %+v, reads %+v now", cp, *e)
							}
							return ""
						},
						scribble: func() { e.Topic = heldGarbage; cp = *e }})
				}
			}
			ev.ClientConnected.Hook(clientEv("connected"))
			ev.ClientDisconnected.Hook(clientEv("disconnected"))
			ev.TopicSubscribed.Hook(clientTopicEv("subscribed"))
			ev.TopicUnsubscribed.Hook(clientTopicEv("unsubscribed"))
			ev.TopicAdded.Hook(topicEv("added"))
			ev.TopicRemoved.Hook(topicEv("removed"))
			ev.DropClient.Hook(func(e *subscriptionmanager.DropClientEvent[int]) {
				cp := *e
				m.events = append(m.events, subEvent{kind: "drop", client: e.ClientID, reason: e.Reason,
					same: func() string {
						if e.ClientID != cp.ClientID || e.Reason != cp.Reason {
							return fmt.Sprintf("delivered as %+v, reads %+v now", cp, *e)
						}
						return ""
					},
					scribble: func() { e.ClientID, e.Reason = heldGarbage, nil; cp = *e }})
			})
			if strings.Contains(cfg, "preconnected") {
				// every client starts connected (checked like any other step)
				x := &hx{quiet: true, notes: map[string]int{}}
				for cc := 0; cc < subClients; cc++ {
					x.cur = op{N: "Connect", A: []int{cc}}
					m.step(x, x.cur)
				}
			}
			return m
		},
		require: map[string]int{"limit_drop": 1000, "limit_drop_on_foreign_topic": 100, "reconnect_with_subscriptions": 300, "topic_shared_by_clients": 2000, "events_folded": 20000},
	})
}

func (m *subMachine) sum(t int) int {
	s := 0
	for _, ts := range m.clients {
		s += ts[t]
	}
	return s
}

func (m *subMachine) count(c, t int) int {
	if ts, ok := m.clients[c]; ok {
		return ts[t]
	}
	return 0
}

func (m *subMachine) step(x *hx, o op) {
	c, t := o.arg(0), o.arg(1)
	m.events = m.events[:0]
	// snapshot of the model before the step
	var before [subClients][subTopics]int
	var wasConn [subClients]bool
	for cc := 0; cc < subClients; cc++ {
		_, wasConn[cc] = m.clients[cc]
		for tt := 0; tt < subTopics; tt++ {
			before[cc][tt] = m.count(cc, tt)
		}
	}
	class := o.N // operation class of the fingerprint
	wantDrops := 0
	wantConnEvents, wantDiscEvents := 0, 0
	ts, conn := m.clients[c]
	switch o.N {
	case "Connect":
		if conn {
			class = "reconnect"
			wantDiscEvents = 1
			if len(ts) > 0 {
				x.note("reconnect_with_subscriptions")
			}
		}
		wantConnEvents = 1
		m.real.Connect(c)
		m.clients[c] = map[int]int{}
	case "Disconnect":
		g := m.real.Disconnect(c)
		if g != conn {
			x.fail(class+"-wrong-return", "Disconnect(%d) = %v, model connected: %v", c, g, conn)
		}
		if conn {
			wantDiscEvents = 1
		}
		delete(m.clients, c)
	case "Subscribe":
		want := false
		switch {
		case !conn:
		case ts[t] > 0:
			ts[t]++
			want = true
		case m.limit != 0 && len(ts)+1 >= m.limit:
			class = "limit-drop"
			x.note("limit_drop")
			delete(m.clients, c)
			if m.sum(t) > 0 {
				x.note("limit_drop_on_foreign_topic")
			}
			wantDrops, wantDiscEvents = 1, 1
		default:
			ts[t] = 1
			want = true
		}
		if want && m.sum(t) > ts[t] {
			x.note("topic_shared_by_clients")
		}
		g := m.real.Subscribe(c, t)
		if !conn {
			// a client that is not connected cannot subscribe: no success, no events
			class = "Subscribe-unconnected"
			x.note("subscribe_unconnected")
			if g || len(m.events) > 0 {
				x.fail(class+"-reports-success", "Subscribe(%d,%d) by a client that is not connected returned %v and emitted [%s]; nothing was recorded (ClientSubscribedToTopic=%v)", c, t, g, m.evString(), m.real.ClientSubscribedToTopic(c, t))
			}
		} else if g != want {
			x.fail(class+"-wrong-return", "Subscribe(%d,%d) = %v, model %v", c, t, g, want)
		}
	case "Unsubscribe":
		want := conn && ts[t] > 0
		if want {
			ts[t]--
			if ts[t] == 0 {
				delete(ts, t)
			}
		}
		if g := m.real.Unsubscribe(c, t); g != want {
			x.fail(class+"-wrong-return", "Unsubscribe(%d,%d) = %v, model %v", c, t, g, want)
		}
	}
	if !x.ok() {
		return
	}
	// ---- the event objects are held by the consumer: after the triggering call returned each of them must still read as delivered
	// (one object reused for several events of a call shows the last event in all of them); they stay held over the following
	// steps and a share of them is overwritten on the consumer's side (held.go)
	perKind := map[string]int{}
	for _, e := range m.events {
		perKind[e.kind]++
		if msg := e.same(); msg != "" {
			x.fail(subEventName[e.kind]+"-held-event-changed", "the %s event object kept by its consumer changed before %s returned: %s (events of this step as delivered: %s)", subEventName[e.kind], o.N, msg, m.evString())
			return
		}
	}
	for k, n := range perKind {
		if n >= 2 {
			x.note("held_events_of_one_kind_in_one_call")
			x.mark("submgr_multi_event_kinds", k)
		}
	}
	for _, e := range m.events {
		e := e
		holdCustom(x, subEventName[e.kind]+"-event", e.same, func(int) { e.scribble() })
	}
	// ---- readers
	_, opClientConn := m.clients[c]
	topics, all := 0, 0
	for tt := 0; tt < subTopics; tt++ {
		s := m.sum(tt)
		if s > 0 {
			topics++
		}
		if g := m.real.TopicHasSubscribers(tt); g != (s > 0) {
			switch {
			case !g && m.count(c, tt) == 0:
				x.fail(class+"-removes-foreign-topic", "TopicHasSubscribers(%d) = false after %s by client %d, but other clients still hold %d subscriptions on it (model %v)", tt, o.N, c, s, m.clients)
			case !g:
				x.fail(class+"-removes-held-topic", "TopicHasSubscribers(%d) = false, model sum %d (model %v)", tt, s, m.clients)
			default:
				x.fail(class+"-keeps-dead-topic", "TopicHasSubscribers(%d) = true, nobody is subscribed (model %v)", tt, m.clients)
			}
		}
	}
	_ = opClientConn
	for cc := 0; cc < subClients; cc++ {
		all += len(m.clients[cc])
		for tt := 0; tt < subTopics; tt++ {
			if g := m.real.ClientSubscribedToTopic(cc, tt); g != (m.count(cc, tt) > 0) {
				x.fail(class+"-wrong-ClientSubscribedToTopic", "ClientSubscribedToTopic(%d,%d) = %v, model count %d", cc, tt, g, m.count(cc, tt))
			}
		}
	}
	if g := m.real.TopicsSize(); g != topics {
		x.fail(class+"-wrong-TopicsSize", "TopicsSize() = %d, model %d (%v)", g, topics, m.clients)
	}
	if g := m.real.TopicsSizeAll(); g != all {
		x.fail(class+"-wrong-TopicsSizeAll", "TopicsSizeAll() = %d, model %d (%v)", g, all, m.clients)
	}
	if g := m.real.SubscribersSize(); g != len(m.clients) {
		x.fail(class+"-wrong-SubscribersSize", "SubscribersSize() = %d, model %d", g, len(m.clients))
	}
	if !x.ok() {
		return
	}
	// ---- event fold
	var subs, unsubs [subClients][subTopics]int
	var connEv, discEv [subClients]int
	drops := 0
	for _, e := range m.events {
		x.note("events_folded")
		if e.client < 0 || e.client >= subClients || e.topic < 0 || e.topic >= subTopics {
			x.fail(class+"-event-for-unknown-id", "event %+v", e)
			return
		}
		switch e.kind {
		case "added":
			if m.live[e.topic] {
				x.fail(class+"-TopicAdded-repeated", "TopicAdded(%d) although the topic was already announced and not removed since", e.topic)
			}
			m.live[e.topic] = true
		case "removed":
			if !m.live[e.topic] {
				x.fail(class+"-TopicRemoved-repeated", "TopicRemoved(%d) for a topic that is not announced", e.topic)
			}
			m.live[e.topic] = false
		case "subscribed":
			subs[e.client][e.topic]++
		case "unsubscribed":
			unsubs[e.client][e.topic]++
		case "connected":
			connEv[e.client]++
		case "disconnected":
			discEv[e.client]++
		case "drop":
			drops++
			if e.client != c {
				x.fail(class+"-DropClient-wrong-client", "DropClient(%d) during an operation of client %d", e.client, c)
			}
			if !errors.Is(e.reason, subscriptionmanager.ErrMaxTopicSubscriptionsPerClientReached) {
				x.fail(class+"-DropClient-wrong-reason", "DropClient reason %v", e.reason)
			}
		}
	}
	for tt := 0; tt < subTopics; tt++ {
		s := m.sum(tt)
		switch {
		case m.live[tt] && s == 0:
			x.fail(class+"-missing-TopicRemoved", "topic %d has no subscriptions left but the last topic event was TopicAdded (events of this step: %s)", tt, m.evString())
		case !m.live[tt] && s > 0:
			x.fail(class+"-TopicRemoved-for-held-topic", "topic %d still has %d subscriptions but the topic events say removed/never added (events of this step: %s)", tt, s, m.evString())
		}
	}
	for cc := 0; cc < subClients; cc++ {
		for tt := 0; tt < subTopics; tt++ {
			delta := m.count(cc, tt) - before[cc][tt]
			wantSubs, wantUnsubs := 0, 0
			if delta > 0 {
				wantSubs = delta
			} else {
				wantUnsubs = -delta
			}
			switch {
			case unsubs[cc][tt] > wantUnsubs:
				x.fail(class+"-extra-TopicUnsubscribed-event", "%d TopicUnsubscribed(%d,%d) events, the client's count went %d -> %d (events of this step: %s)", unsubs[cc][tt], cc, tt, before[cc][tt], m.count(cc, tt), m.evString())
			case unsubs[cc][tt] < wantUnsubs:
				x.fail(class+"-missing-TopicUnsubscribed-event", "%d TopicUnsubscribed(%d,%d) events, the client's count went %d -> %d (events of this step: %s)", unsubs[cc][tt], cc, tt, before[cc][tt], m.count(cc, tt), m.evString())
			case subs[cc][tt] != wantSubs:
				x.fail(class+"-wrong-TopicSubscribed-events", "%d TopicSubscribed(%d,%d) events, the client's count went %d -> %d (events of this step: %s)", subs[cc][tt], cc, tt, before[cc][tt], m.count(cc, tt), m.evString())
			}
		}
		wc, wd := 0, 0
		if cc == c {
			wc, wd = wantConnEvents, wantDiscEvents
		}
		if connEv[cc] != wc || discEv[cc] != wd {
			x.fail(class+"-wrong-connection-events", "client %d: %d ClientConnected / %d ClientDisconnected events, expected %d / %d (connected before: %v, after: %v)", cc, connEv[cc], discEv[cc], wc, wd, wasConn[cc], m.clients[cc] != nil)
		}
	}
	if drops != wantDrops {
		x.fail(class+"-wrong-DropClient-events", "%d DropClient events, expected %d", drops, wantDrops)
	}
}

func (m *subMachine) evString() string {
	var s []string
	for _, e := range m.events {
		switch e.kind {
		case "added", "removed":
			s = append(s, fmt.Sprintf("%s(t%d)", e.kind, e.topic))
		case "subscribed", "unsubscribed":
			s = append(s, fmt.Sprintf("%s(c%d,t%d)", e.kind, e.client, e.topic))
		default:
			s = append(s, fmt.Sprintf("%s(c%d)", e.kind, e.client))
		}
	}
	return strings.Join(s, " ")
}

// drain disconnects everybody: everything must be gone and announced as gone.
func (m *subMachine) drain(x *hx) {
	for cc := 0; cc < subClients; cc++ {
		x.cur = op{N: "Disconnect", A: []int{cc}}
		m.step(x, x.cur)
		if !x.ok() {
			return
		}
	}
	if m.real.TopicsSize() != 0 || m.real.SubscribersSize() != 0 || m.real.TopicsSizeAll() != 0 {
		x.fail("drain-not-empty", "after disconnecting every client: TopicsSize=%d SubscribersSize=%d TopicsSizeAll=%d", m.real.TopicsSize(), m.real.SubscribersSize(), m.real.TopicsSizeAll())
	}
}

func (m *subMachine) state() uint64 {
	h := newHasher()
	for cc := 0; cc < subClients; cc++ {
		ts, ok := m.clients[cc]
		h.b(ok)
		for tt := 0; tt < subTopics; tt++ {
			n := ts[tt]
			if n > 3 {
				n = 3
			}
			h.i(n)
		}
	}
	return h.h
}
