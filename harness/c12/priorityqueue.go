package main

import (
	"fmt"
	"strconv"
	"time"

	"github.com/iotaledger/hive.go/ds/priorityqueue"
	"github.com/iotaledger/hive.go/runtime/timed"
)

// PriorityQueue and timed.PriorityQueue vs a multiset ordered by priority.
// Elements are unique ids; priorities come from a tiny range so that ties are frequent.
// key(p) = p (ascending) or -p (descending): every pop must return a member with minimal key.

type prioAsc int

func (p prioAsc) CompareTo(o prioAsc) int { return int(p) - int(o) }

type prioDesc int

func (p prioDesc) CompareTo(o prioDesc) int { return int(o) - int(p) }

const pqPrios = 5

// pqAPI is what both flavours offer. rep selects the representation of the priority value
// (only meaningful for time keys: the same instant as different time.Time values).
type pqAPI interface {
	push(id, prio, rep int) (remove func())
	peek() (int, bool)
	pop() (int, bool)
	popUntil(prio, rep int) []int
	popAll() []int
	size() int
	isEmpty() bool
}

type pqPlain[P interface {
	~int
	CompareTo(P) int
}] struct {
	q *priorityqueue.PriorityQueue[int, P]
}

func (p pqPlain[P]) push(id, prio, _ int) func() { return p.q.Push(id, P(prio)) }
func (p pqPlain[P]) peek() (int, bool)        { return p.q.Peek() }
func (p pqPlain[P]) pop() (int, bool)         { return p.q.Pop() }
func (p pqPlain[P]) popUntil(prio, _ int) []int { return p.q.PopUntil(P(prio)) }
func (p pqPlain[P]) popAll() []int            { return p.q.PopAll() }
func (p pqPlain[P]) size() int                { return p.q.Size() }
func (p pqPlain[P]) isEmpty() bool            { return p.q.IsEmpty() }

// Time keys: priority p is the instant pqNow + p seconds. pqNow carries a monotonic clock
// reading (time.Now); every instant is handed to the queue in one of pqReps representations
// that are Equal() but not identical as values: with/without monotonic reading, UTC, fixed
// zones, Local, rebuilt via time.Unix / time.Date instead of Add. The model works on instants.
var (
	pqNow   = time.Now()
	pqZoneE = time.FixedZone("c12+01", 3600)
	pqZoneW = time.FixedZone("c12-0530", -(5*3600 + 1800))
)

const pqReps = 9

func pqInstant(prio, rep int) time.Time {
	mono := pqNow.Add(time.Duration(prio) * time.Second) // keeps the monotonic reading
	wall := mono.Round(0)                                // strips it
	switch rep % pqReps {
	case 0:
		return mono
	case 1:
		return wall
	case 2:
		return wall.UTC()
	case 3:
		return wall.In(pqZoneE)
	case 4:
		return wall.In(pqZoneW)
	case 5:
		return wall.In(time.Local)
	case 6:
		return time.Unix(0, wall.UnixNano())
	case 7:
		return time.Unix(wall.Unix(), int64(wall.Nanosecond())).UTC()
	default:
		u := wall.UTC()
		return time.Date(u.Year(), u.Month(), u.Day(), u.Hour(), u.Minute(), u.Second(), u.Nanosecond(), time.UTC).In(pqZoneE)
	}
}

type pqTimed struct{ q timed.PriorityQueue[int] }

func (p pqTimed) push(id, prio, rep int) func() {
	p.q.Push(id, pqInstant(prio, rep))
	return nil
}
func (p pqTimed) peek() (int, bool) { return p.q.Peek() }
func (p pqTimed) pop() (int, bool)  { return p.q.Pop() }
func (p pqTimed) popUntil(prio, rep int) []int {
	return p.q.PopUntil(pqInstant(prio, rep))
}
func (p pqTimed) popAll() []int { return p.q.PopAll() }
func (p pqTimed) size() int     { return p.q.Size() }
func (p pqTimed) isEmpty() bool { return p.q.IsEmpty() }

type pqMachine struct {
	real    pqAPI
	desc    bool
	inside  map[int]int // id -> prio
	reps    map[int]int // id -> representation of its key (time keys)
	timed   bool
	handles []func()    // index = id
	nextID  int
}

func (m *pqMachine) key(prio int) int {
	if m.desc {
		return -prio
	}
	return prio
}

func (m *pqMachine) minKey() (int, bool) {
	first := true
	best := 0
	for _, p := range m.inside {
		if k := m.key(p); first || k < best {
			best, first = k, false
		}
	}
	return best, !first
}

func pqTable(handles bool) []opSpec {
	t := []opSpec{
		{N: "Push", W: 12, Args: []int{pqPrios, pqReps}},
		{N: "Pop", W: 5},
		{N: "Peek", W: 2},
		{N: "PopUntil", W: 3, Args: []int{pqPrios, pqReps}},
		{N: "PopAll", W: 1},
	}
	if handles {
		t = append(t, opSpec{N: "Remove", W: 6, Args: []int{1000}}, opSpec{N: "RemoveTwice", W: 1, Args: []int{1000}})
	}
	return t
}

func init() {
	register(&def{
		name:    "priorityqueue",
		configs: []string{"asc", "desc"},
		table:   func(string) []opSpec { return pqTable(true) },
		mk: func(cfg string) machine {
			m := &pqMachine{inside: map[int]int{}, reps: map[int]int{}, desc: cfg == "desc"}
			if m.desc {
				m.real = pqPlain[prioDesc]{priorityqueue.New[int, prioDesc]()}
			} else {
				m.real = pqPlain[prioAsc]{priorityqueue.New[int, prioAsc]()}
			}
			return m
		},
		replica: true,
		require: map[string]int{"remove_live_handle": 2000, "remove_dead_handle": 500, "popuntil_boundary_tie": 300},
	})
	register(&def{
		name:    "timedpriorityqueue",
		configs: []string{"asc", "desc", "default"},
		table:   func(string) []opSpec { return pqTable(false) },
		mk: func(cfg string) machine {
			m := &pqMachine{inside: map[int]int{}, reps: map[int]int{}, timed: true, desc: cfg != "asc"}
			switch cfg {
			case "asc":
				m.real = pqTimed{timed.NewPriorityQueue[int](true)}
			case "desc":
				m.real = pqTimed{timed.NewPriorityQueue[int](false)}
			default:
				m.real = pqTimed{timed.NewPriorityQueue[int]()}
			}
			return m
		},
		replica: true,
		require: map[string]int{"popuntil_boundary_tie": 300, "popuntil_boundary_equal_instant_other_repr": 1000, "push_equal_instant_other_repr": 3000, "\x00timed_equal_instant_repr_pairs": 72, "\x00timed_key_representations": 9},
	})
}

// checkPopped verifies one popped sequence: members, non-decreasing key, and removes them from the model.
func (m *pqMachine) checkPopped(x *hx, what string, res []int) {
	prev, havePrev := 0, false
	for _, id := range res {
		p, in := m.inside[id]
		if !in {
			x.failOp("non-member", "%s returned %d which is not inside (model id->prio %v)", what, id, m.inside)
			return
		}
		k := m.key(p)
		if havePrev && k < prev {
			x.failOp("out-of-order", "%s = %v is not in priority order (model id->prio %v)", what, res, m.inside)
			return
		}
		prev, havePrev = k, true
		delete(m.inside, id)
	}
}

func (m *pqMachine) step(x *hx, o op) {
	switch o.N {
	case "Push":
		id := m.nextID
		m.nextID++
		if m.timed {
			x.mark("timed_key_representations", strconv.Itoa(o.arg(1)%pqReps))
			for other, p := range m.inside {
				if p == o.arg(0) && m.reps[other]%pqReps != o.arg(1)%pqReps {
					x.note("push_equal_instant_other_repr")
					x.mark("timed_equal_instant_repr_pairs", fmt.Sprintf("%d/%d", m.reps[other]%pqReps, o.arg(1)%pqReps))
				}
			}
		}
		h := m.real.push(id, o.arg(0), o.arg(1))
		m.handles = append(m.handles, h)
		m.inside[id] = o.arg(0)
		m.reps[id] = o.arg(1)
	case "Remove", "RemoveTwice":
		if len(m.handles) == 0 {
			break
		}
		id := o.arg(0) % len(m.handles)
		if _, in := m.inside[id]; in {
			x.note("remove_live_handle")
		} else {
			x.note("remove_dead_handle")
		}
		m.handles[id]()
		if o.N == "RemoveTwice" {
			m.handles[id]()
		}
		delete(m.inside, id)
	case "Pop":
		mk, nonEmpty := m.minKey()
		id, ok := m.real.pop()
		if ok != nonEmpty {
			x.failOp("wrong-return", "Pop() exists=%v, model size %d", ok, len(m.inside))
		} else if ok {
			p, in := m.inside[id]
			if !in {
				x.failOp("non-member", "Pop() = %d which is not inside (model id->prio %v)", id, m.inside)
			} else if m.key(p) != mk {
				x.failOp("not-minimal", "Pop() = %d with priority %d, but the model holds a better priority (id->prio %v, descending=%v)", id, p, m.inside, m.desc)
			}
			delete(m.inside, id)
		}
	case "Peek":
		mk, nonEmpty := m.minKey()
		id, ok := m.real.peek()
		if ok != nonEmpty {
			x.failOp("wrong-return", "Peek() exists=%v, model size %d", ok, len(m.inside))
		} else if ok {
			if p, in := m.inside[id]; !in || m.key(p) != mk {
				x.failOp("not-minimal", "Peek() = %d, model id->prio %v, descending=%v", id, m.inside, m.desc)
			}
		}
	case "PopUntil":
		bound := m.key(o.arg(0))
		want := 0
		for id, p := range m.inside {
			if m.key(p) <= bound {
				want++
			}
			if m.key(p) == bound {
				x.note("popuntil_boundary_tie")
				if m.timed && m.reps[id]%pqReps != o.arg(1)%pqReps {
					x.note("popuntil_boundary_equal_instant_other_repr")
					x.mark("timed_equal_instant_repr_pairs", fmt.Sprintf("%d/%d", m.reps[id]%pqReps, o.arg(1)%pqReps))
				}
			}
		}
		res := m.real.popUntil(o.arg(0), o.arg(1))
		for _, id := range res {
			if p, in := m.inside[id]; in && m.key(p) > bound {
				x.failOp("beyond-bound", "PopUntil(%d) returned %d with priority %d (descending=%v)", o.arg(0), id, p, m.desc)
			}
		}
		m.checkPopped(x, "PopUntil", res)
		if x.ok() && len(res) != want {
			x.failOp("wrong-count", "PopUntil(%d) returned %d elements, the model has %d with priority up to and including the bound", o.arg(0), len(res), want)
		}
		holdSlice(x, "PopUntil", res, heldGarbage)
	case "PopAll":
		n := len(m.inside)
		res := m.real.popAll()
		m.checkPopped(x, "PopAll", res)
		if x.ok() && len(res) != n {
			x.failOp("wrong-count", "PopAll() returned %d elements, model size %d", len(res), n)
		}
		holdSlice(x, "PopAll", res, heldGarbage)
	}
	if !x.ok() {
		return
	}
	if s := m.real.size(); s != len(m.inside) {
		x.failOp("wrong-Size", "Size() = %d, model %d", s, len(m.inside))
	}
	if e := m.real.isEmpty(); e != (len(m.inside) == 0) {
		x.failOp("wrong-IsEmpty", "IsEmpty() = %v, model size %d", e, len(m.inside))
	}
	if mk, nonEmpty := m.minKey(); true {
		id, ok := m.real.peek()
		if ok != nonEmpty {
			x.failOp("wrong-Peek", "afterwards Peek() exists=%v, model size %d", ok, len(m.inside))
		} else if ok {
			if p, in := m.inside[id]; !in || m.key(p) != mk {
				x.failOp("wrong-Peek", "afterwards Peek() = %d, model id->prio %v, descending=%v", id, m.inside, m.desc)
			}
		}
	}
}

// drain pops one by one: a permutation of the content in priority order.
func (m *pqMachine) drain(x *hx) {
	n := len(m.inside)
	var got []int
	for i := 0; i <= n; i++ {
		id, ok := m.real.pop()
		if !ok {
			break
		}
		got = append(got, id)
	}
	prev, havePrev := 0, false
	for _, id := range got {
		p, in := m.inside[id]
		if !in {
			x.failOp("content-non-member", "draining yields %v, model id->prio %v", got, m.inside)
			return
		}
		if k := m.key(p); havePrev && k < prev {
			x.failOp("content-out-of-order", "draining yields %v, model id->prio %v, descending=%v", got, m.inside, m.desc)
			return
		} else {
			prev, havePrev = k, true
		}
		delete(m.inside, id)
	}
	if len(got) != n {
		x.failOp("content-wrong-count", "draining yields %d elements %v, model had %d (left %v)", len(got), got, n, m.inside)
	}
}

func (m *pqMachine) state() uint64 {
	// multiset of priorities inside
	var cnt [pqPrios]int
	for _, p := range m.inside {
		cnt[p%pqPrios]++
	}
	return newHasher().ints(cnt[:]).h
}
