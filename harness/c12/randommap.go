package main

import (
	"github.com/iotaledger/hive.go/ds/randommap"
	"github.com/iotaledger/hive.go/ds/shrinkingmap"
)

// RandomMap vs a Go map with unique values. Random picks must be members,
// RandomUniqueEntries(n) must be min(n,size) distinct members, Keys/Values permutations.

type rmMachine struct {
	real  *randommap.RandomMap[int, int]
	model map[int]int
	next  int // unique value source
}

const rmKeys = 6

func init() {
	register(&def{
		name:    "randommap",
		configs: []string{"default", "shrink-tiny"},
		table: func(string) []opSpec {
			return []opSpec{
				{N: "Set", W: 10, Args: []int{rmKeys}},
				{N: "Get", W: 2, Args: []int{rmKeys}},
				{N: "Has", W: 1, Args: []int{rmKeys}},
				{N: "Delete", W: 7, Args: []int{rmKeys}},
				{N: "DeleteLastKey", W: 3},
				{N: "DeleteFirstKey", W: 2},
				{N: "DeleteReinsert", W: 3, Args: []int{rmKeys}},
				{N: "RandomKey", W: 2},
				{N: "RandomEntry", W: 2},
				{N: "RandomUniqueEntries", W: 4, Args: []int{rmKeys + 4}},
			}
		},
		mk: func(cfg string) machine {
			var opts []shrinkingmap.Option
			if cfg == "shrink-tiny" {
				opts = []shrinkingmap.Option{shrinkingmap.WithShrinkingThresholdRatio(0.5), shrinkingmap.WithShrinkingThresholdCount(1)}
			}
			return &rmMachine{real: randommap.New[int, int](opts...), model: map[int]int{}, next: 100}
		},
		require: map[string]int{"delete_last_key": 500, "delete_moves_key": 1000, "delete_then_reinsert": 300, "unique_entries_partial": 300},
	})
}

func (m *rmMachine) del(x *hx, k int) {
	cur, has := m.model[k]
	if has {
		if ks := m.real.Keys(); len(ks) > 0 {
			if ks[len(ks)-1] == k {
				x.note("delete_last_key")
			} else {
				x.note("delete_moves_key")
			}
		}
	}
	g, del := m.real.Delete(k)
	if del != has || g != cur {
		x.failOp("wrong-return", "Delete(%d) = (%d,%v), model (%d,%v)", k, g, del, cur, has)
	}
	delete(m.model, k)
}

func (m *rmMachine) set(k int) {
	m.next++
	m.real.Set(k, m.next)
	m.model[k] = m.next
}

func (m *rmMachine) isValue(v int) bool {
	for _, mv := range m.model {
		if mv == v {
			return true
		}
	}
	return false
}

func (m *rmMachine) step(x *hx, o op) {
	k := o.arg(0)
	cur, has := m.model[k]
	switch o.N {
	case "Set":
		m.set(k)
	case "Get":
		if g, ok := m.real.Get(k); ok != has || g != cur {
			x.failOp("wrong-return", "Get(%d) = (%d,%v), model (%d,%v)", k, g, ok, cur, has)
		}
	case "Has":
		if ok := m.real.Has(k); ok != has {
			x.failOp("wrong-return", "Has(%d) = %v, model %v", k, ok, has)
		}
	case "Delete":
		m.del(x, k)
	case "DeleteLastKey", "DeleteFirstKey":
		ks := m.real.Keys()
		if len(ks) == 0 {
			break
		}
		if o.N == "DeleteLastKey" {
			m.del(x, ks[len(ks)-1])
		} else {
			m.del(x, ks[0])
		}
	case "DeleteReinsert":
		if has {
			x.note("delete_then_reinsert")
		}
		m.del(x, k)
		if x.ok() {
			m.set(k)
		}
	case "RandomKey":
		g, ok := m.real.RandomKey()
		if ok != (len(m.model) > 0) {
			x.failOp("wrong-return", "RandomKey() exists=%v, model size %d", ok, len(m.model))
		} else if _, in := m.model[g]; ok && !in {
			x.failOp("non-member", "RandomKey() = %d is not a key of %v", g, m.model)
		}
	case "RandomEntry":
		g, ok := m.real.RandomEntry()
		if ok != (len(m.model) > 0) {
			x.failOp("wrong-return", "RandomEntry() exists=%v, model size %d", ok, len(m.model))
		} else if ok && !m.isValue(g) {
			x.failOp("non-member", "RandomEntry() = %d is not a value of %v", g, m.model)
		}
	case "RandomUniqueEntries":
		n := k - 1 // -1 .. rmKeys+2
		res := m.real.RandomUniqueEntries(n)
		want := n
		if want < 0 {
			want = 0
		}
		if want > len(m.model) {
			want = len(m.model)
		}
		if want > 0 && want < len(m.model) {
			x.note("unique_entries_partial")
		}
		seen := map[int]bool{}
		for _, v := range res {
			if !m.isValue(v) {
				x.failOp("non-member", "RandomUniqueEntries(%d) = %v contains %d which is not a value of %v", n, res, v, m.model)
			}
			if seen[v] {
				x.failOp("duplicate", "RandomUniqueEntries(%d) = %v contains %d twice", n, res, v)
			}
			seen[v] = true
		}
		if len(res) != want {
			x.failOp("wrong-count", "RandomUniqueEntries(%d) returned %d entries, model size %d", n, len(res), len(m.model))
		}
		holdSlice(x, "RandomUniqueEntries", res, heldGarbage)
	}
	if !x.ok() {
		return
	}
	if s := m.real.Size(); s != len(m.model) {
		x.failOp("wrong-Size", "Size() = %d, model %d", s, len(m.model))
	}
	ks := m.real.Keys()
	if !permOf(ks, mapKeys(m.model)) {
		x.failOp("wrong-Keys", "Keys() = %v, model %v", ks, mapKeys(m.model))
	}
	vs := m.real.Values()
	if !permOf(vs, mapVals(m.model)) {
		x.failOp("wrong-Values", "Values() = %v, model %v", vs, mapVals(m.model))
	}
	fe := map[int]int{}
	n := 0
	m.real.ForEach(func(k, v int) bool { fe[k] = v; n++; return true })
	if n != len(m.model) || !eqMap(fe, m.model) {
		x.failOp("wrong-ForEach", "ForEach visited %v (%d callbacks), model %v", fe, n, m.model)
	}
	if x.ok() { // returned aggregates are caller-owned (held.go)
		holdSlice(x, "Keys", ks, heldGarbage)
		holdSlice(x, "Values", vs, heldGarbage)
	}
	// a handful of random picks after every step: always members
	for i := 0; i < 3 && len(m.model) > 0; i++ {
		if g, ok := m.real.RandomKey(); !ok {
			x.failOp("RandomKey-empty", "RandomKey() found nothing, model %v", m.model)
		} else if _, in := m.model[g]; !in {
			x.failOp("RandomKey-non-member", "afterwards RandomKey() = %d is not a key of %v", g, m.model)
		}
	}
}

func (m *rmMachine) drain(x *hx) {
	// delete in Keys() order, always the last key
	for i := 0; i <= rmKeys; i++ {
		ks := m.real.Keys()
		if len(ks) == 0 {
			break
		}
		k := ks[len(ks)-1]
		mv, in := m.model[k]
		g, del := m.real.Delete(k)
		if !in || !del || g != mv {
			x.fail("drain-Delete-wrong-return", "final Delete(%d) = (%d,%v), model (%d,%v)", k, g, del, mv, in)
			return
		}
		delete(m.model, k)
	}
	if len(m.model) != 0 || m.real.Size() != 0 {
		x.fail("drain-incomplete", "after deleting every listed key: model %v, Size()=%d", m.model, m.real.Size())
	}
}

func (m *rmMachine) state() uint64 {
	// values are unique counters: hash the key set and the insertion rank of the values
	ks := mapKeys(m.model)
	h := newHasher().ints(ks)
	for _, k := range ks {
		rank := 0
		for _, v := range m.model {
			if v < m.model[k] {
				rank++
			}
		}
		h.i(rank)
	}
	return h.h
}
