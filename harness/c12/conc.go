package main

// Part "conc" – the self-synchronising containers under concurrent histories.
//
// "Every operation history" includes concurrent ones for the containers that carry their own
// lock: each exported call must take effect as one atomic step of the SAME abstract model the
// sequential part uses (linearizability), bulk/whole-structure calls included, with no data race.
//
//   (a) many short histories (3-6 goroutines x 4-10 operations, tiny key universe, unique
//       values), call/return stamps from one atomic counter, decided by porcupine against the
//       model in concdefs.go; a quiescent tail of reads/drains is part of every history, so the
//       final content must equal the state of a linearization;
//   (b) conservation scenarios with single-writer keys, where the final state is determined:
//       ShrinkingMap (30 000 entries) explicit Shrink()/automatic shrinking racing writers, Pop
//       conservation, stack/queue/ring buffer conservation, RandomMap picks, SubscriptionManager
//       counts and event folds;
//   (c) the same workloads in a -race child (half of them without the stamping counter, which
//       would otherwise order most operations for the detector).
//
// Everything runs in children: a fatal error of the runtime (concurrent map access) or a global
// dead-lock inside a container kills only the child and is attributed to the marked container.

import (
	"fmt"
	"os"
	"runtime"
	"sort"
	"strconv"
	"strings"
	"sync"
	"sync/atomic"
	"time"

	"github.com/anishathalye/porcupine"

	"verif/harness/internal/vf"

	"github.com/iotaledger/hive.go/ds/queue"
	"github.com/iotaledger/hive.go/ds/randommap"
	"github.com/iotaledger/hive.go/ds/ringbuffer"
	"github.com/iotaledger/hive.go/ds/shrinkingmap"
	"github.com/iotaledger/hive.go/ds/stack"
	"github.com/iotaledger/hive.go/web/subscriptionmanager"
)

var (
	cclock   atomic.Int64
	noStamps bool // race child, "bare" half: no shared counter between the clients
)

func stamp() int64 {
	if noStamps {
		return 0
	}
	return cclock.Add(1)
}

// concPkgs: race reports are attributed to C12 when an access stack's innermost hive.go frame is in one of these.
var concPkgs = []string{"hive.go/ds/shrinkingmap", "hive.go/ds/randommap", "hive.go/ds/queue", "hive.go/ds/ringbuffer", "hive.go/ds/stack",
	"hive.go/ds/priorityqueue", "hive.go/ds/generalheap", "hive.go/runtime/timed", "hive.go/ds/bytesfilter", "hive.go/ds/timeheap",
	"hive.go/ds/onchangemap", "hive.go/core/memstorage", "hive.go/web/subscriptionmanager"}

type concReplay struct {
	Def     string `json:"def"`  // concDef name or "scenario:<name>"
	Cfg     string `json:"cfg"`  // configuration / variant
	Seed    uint64 `json:"seed"` // history seed
	History []cop  `json:"history,omitempty"`
	What    string `json:"what,omitempty"`
}

func concRec(def, cfg string, seed uint64, h []cop, what string) histRec {
	return histRec{Container: "conc", Config: def + " [" + cfg + "]", What: what, Conc: &concReplay{Def: def, Cfg: cfg, Seed: seed, History: h, What: what}}
}

// ------------------------------------------------------------------ (a) short histories

type concRun struct {
	ops      []cop
	panicked string // "<Op>: <value>" of the first panic
	symptom  string // quiescent check that failed
	what     string
	g, n     int
}

func execOp(inst concInst, o *cop) (panicked any) {
	defer func() {
		if p := recover(); p != nil {
			panicked = p
			o.Bad = "panic"
			o.Ret = stamp()
		}
	}()
	o.Call = stamp()
	inst.do(o)
	o.Ret = stamp()
	return nil
}

func runConcHistory(d *concDef, cfg string, seed uint64) concRun {
	r := &rng{s: seed}
	inst := d.mk(cfg)
	res := concRun{g: d.gmin + r.n(d.gmax-d.gmin+1), n: d.nmin + r.n(d.nmax-d.nmin+1)}
	uniq := 1
	var mu sync.Mutex
	notePanic := func(o *cop, p any) {
		mu.Lock()
		if res.panicked == "" {
			res.panicked = fmt.Sprintf("%s: %v", o.Op, p)
		}
		mu.Unlock()
	}
	// sequential setup by an extra client
	for i, n := 0, r.n(d.setup+1); i < n; i++ {
		o := inst.gen(r, uniq)
		uniq++
		o.C = res.g
		if p := execOp(inst, &o); p != nil {
			notePanic(&o, p)
		}
		res.ops = append(res.ops, o)
	}
	plans := make([][]cop, res.g)
	yields := make([][]int, res.g)
	for g := range plans {
		for i := 0; i < res.n; i++ {
			o := inst.gen(r, uniq)
			uniq++
			o.C, o.Y = g, r.n(3) == 0
			plans[g] = append(plans[g], o)
			y := 0
			if r.n(4) == 0 {
				y = 1 + r.n(2)
			}
			yields[g] = append(yields[g], y)
		}
	}
	var ready, start atomic.Int32
	var wg sync.WaitGroup
	for g := range plans {
		wg.Add(1)
		go func(g int) {
			defer wg.Done()
			ready.Add(1)
			for spins := 0; start.Load() == 0; spins++ { // tight release; yields only when the cores are oversubscribed
				if spins > 4000 {
					runtime.Gosched()
				}
			}
			for i := range plans[g] {
				for y := yields[g][i]; y > 0; y-- {
					runtime.Gosched()
				}
				if p := execOp(inst, &plans[g][i]); p != nil {
					notePanic(&plans[g][i], p)
				}
			}
		}(g)
	}
	for int(ready.Load()) < res.g {
		runtime.Gosched()
	}
	start.Store(1)
	wg.Wait()
	for g := range plans {
		res.ops = append(res.ops, plans[g]...)
	}
	if res.panicked != "" {
		return res
	}
	quiescent := func() bool {
		defer func() {
			if p := recover(); p != nil {
				res.panicked = fmt.Sprintf("quiescent check: %v", p)
			}
		}()
		res.symptom, res.what = inst.extra()
		return res.symptom == ""
	}
	if !quiescent() {
		return res
	}
	stopped := ""
	for _, o := range inst.final() {
		if o.Op == stopped {
			continue
		}
		o.C = res.g + 1
		if p := execOp(inst, &o); p != nil {
			notePanic(&o, p)
			res.ops = append(res.ops, o)
			return res
		}
		if (o.Op == "Pop" || o.Op == "Poll") && !o.OK {
			stopped = o.Op
		}
		res.ops = append(res.ops, o)
	}
	quiescent()
	return res
}

func toPorc(ops []cop, skip int) []porcupine.Operation {
	out := make([]porcupine.Operation, 0, len(ops))
	for i, o := range ops {
		if i == skip {
			continue
		}
		out = append(out, porcupine.Operation{ClientId: o.C, Input: o, Output: o, Call: o.Call, Return: o.Ret})
	}
	return out
}

func overlapPairs(ops []cop) (n int) {
	for i := range ops {
		for j := i + 1; j < len(ops); j++ {
			if ops[i].C != ops[j].C && ops[i].Call < ops[j].Ret && ops[j].Call < ops[i].Ret {
				n++
			}
		}
	}
	return
}

func shapeHash(ops []cop) uint64 {
	type ev struct {
		t int64
		c int
	}
	evs := make([]ev, 0, 2*len(ops))
	for _, o := range ops {
		evs = append(evs, ev{o.Call, o.C*2 + 1}, ev{o.Ret, o.C * 2})
	}
	sort.Slice(evs, func(i, j int) bool { return evs[i].t < evs[j].t })
	h := uint64(len(ops))
	for _, e := range evs {
		h = mix(h, uint64(e.c))
	}
	return h
}

// culprits lists the single operations whose removal makes a non-linearizable history linearizable.
func culprits(m porcupine.Model, ops []cop) []string {
	var out []string
	for i := range ops {
		if porcupine.CheckOperationsTimeout(m, toPorc(ops, i), 5*time.Second) == porcupine.Ok {
			out = append(out, ops[i].String())
			if len(out) == 4 {
				break
			}
		}
	}
	return out
}

func container(defName string) string {
	if i := strings.IndexByte(defName, '/'); i >= 0 {
		return defName[:i]
	}
	return defName
}

// judgeConcHistory reports at most one violation for a finished history; returns false when it reported one.
func judgeConcHistory(c *vf.Ctx, d *concDef, cfg string, seed uint64, res concRun, bare, explain bool) bool {
	name := d.name
	switch {
	case res.panicked != "":
		opName := res.panicked
		if i := strings.IndexByte(opName, ':'); i > 0 {
			opName = opName[:i]
		}
		what := fmt.Sprintf("%s [%s] %d goroutines x %d operations: panic in %s", name, cfg, res.g, res.n, res.panicked)
		c.Violation("conc/"+name+"/"+strings.ReplaceAll(opName, " ", "-")+"-panic", what, concRec(name, cfg, seed, res.ops, what))
		return false
	case res.symptom != "":
		what := fmt.Sprintf("%s [%s] %d goroutines x %d operations, at quiescence: %s", name, cfg, res.g, res.n, res.what)
		c.Violation("conc/"+name+"/"+res.symptom, what, concRec(name, cfg, seed, res.ops, what))
		return false
	}
	if bare {
		return true
	}
	c.Count("conc:evaluations", len(res.ops))
	c.Count("evaluations", len(res.ops))
	ov := overlapPairs(res.ops)
	c.Count("conc:overlapping_pairs", ov)
	c.Count("conc:overlapping_pairs:"+container(name), ov)
	if ov > 0 {
		c.DistinctHash("conc_shapes", mix(shapeHash(res.ops), uint64(len(name))<<8+uint64(name[0])))
		c.Count("conc:histories_with_overlap", 1)
	}
	model := d.model(cfg)
	switch porcupine.CheckOperationsTimeout(model, toPorc(res.ops, -1), 10*time.Second) {
	case porcupine.Ok:
		c.Count("conc:porcupine_ok", 1)
	case porcupine.Unknown:
		c.Count("conc:porcupine_unknown", 1)
	default:
		c.Count("conc:porcupine_illegal", 1)
		var cs []string
		if explain {
			cs = culprits(model, res.ops)
		}
		what := fmt.Sprintf("%s [%s] %d goroutines x %d operations: the recorded history is not linearizable w.r.t. the sequential model", name, cfg, res.g, res.n)
		if len(cs) > 0 {
			what += "; it becomes linearizable when one of these operations is removed: " + strings.Join(cs, " | ")
		}
		c.Violation("conc/"+name+"/nonlinearizable", what, concRec(name, cfg, seed, res.ops, what))
		return false
	}
	return true
}

func concHistories(c *vf.Ctx, d *concDef, n int, race bool) {
	base := c.Rand("c12/conc/" + d.name).Uint64()
	bad := 0
	for i := 0; i < n; i++ {
		cfg := d.configs[i%len(d.configs)]
		seed := mix(base, uint64(i))
		noStamps = race && i%2 == 1
		res := runConcHistory(d, cfg, seed)
		if !judgeConcHistory(c, d, cfg, seed, res, noStamps, bad < 3) {
			bad++
		}
		noStamps = false
		c.Count("conc:histories", 1)
		c.Count("conc:histories:"+container(d.name), 1)
		if i == 0 && !race && len(res.ops) > 6 {
			c.Sample(map[string]any{"part": "conc", "container": d.name, "config": cfg, "goroutines": res.g, "ops_each": res.n, "first_ops": res.ops[:6], "result": "linearizable"})
		}
	}
}

// ------------------------------------------------------------------ (b) conservation scenarios

type scenario struct {
	name     string
	variants []string
	run      func(c *vf.Ctx, variant string, seed uint64, scale int) (symptom, what string) // scale: 1 plain, >1 = divide sizes (race build)
}

var scenarios []*scenario

func init() {
	scenarios = []*scenario{
		{name: "shrinkingmap-big", variants: []string{"explicit-1writer", "explicit+auto-3writers", "auto-3writers"}, run: scenSMBig},
		{name: "shrinkingmap-pop", variants: []string{"ratio=0.01,count=10", "ratio=0,count=0"}, run: scenSMPop},
		{name: "stack", variants: []string{"-"}, run: scenStack},
		{name: "queue", variants: []string{"cap=1", "cap=8"}, run: scenQueue},
		{name: "ringbuffer", variants: []string{"cap=5"}, run: scenRing},
		{name: "randommap-picks", variants: []string{"-"}, run: scenRandomPicks},
		{name: "submgr", variants: []string{"limit=0", "limit=3"}, run: scenSubMgr},
	}
}

// first keeps the first reported symptom of concurrent checkers.
type first struct {
	mu            sync.Mutex
	symptom, what string
}

func (f *first) set(symptom, format string, a ...any) {
	f.mu.Lock()
	if f.symptom == "" {
		f.symptom, f.what = symptom, fmt.Sprintf(format, a...)
	}
	f.mu.Unlock()
}
func (f *first) bad() bool { f.mu.Lock(); defer f.mu.Unlock(); return f.symptom != "" }

// scenSMBig: a big ShrinkingMap, every key has exactly one writer, so each writer knows the
// state of its keys; Shrink() (explicit and/or automatic) must never undo a completed write.
func scenSMBig(c *vf.Ctx, variant string, seed uint64, scale int) (string, string) {
	const stable = 1000 // keys 0..999 are never written after the fill
	entries := 30000 / scale
	if entries < 4*stable {
		entries = 4 * stable
	}
	writers, shrinks := 1, 12
	var opts []shrinkingmap.Option
	switch variant {
	case "explicit+auto-3writers":
		writers, shrinks = 3, 8
		opts = []shrinkingmap.Option{shrinkingmap.WithShrinkingThresholdRatio(0.02), shrinkingmap.WithShrinkingThresholdCount(50)}
	case "auto-3writers":
		writers, shrinks = 3, 0
		opts = []shrinkingmap.Option{shrinkingmap.WithShrinkingThresholdRatio(0.01), shrinkingmap.WithShrinkingThresholdCount(20)}
	}
	m := shrinkingmap.New[int, int](opts...)
	for k := 0; k < entries; k++ {
		m.Set(k, k+7)
	}
	minOps := 60000 / scale
	var f first
	var stop atomic.Bool
	var progress atomic.Int64
	var inShrink atomic.Int32
	var duringShrink, totalOps atomic.Int64
	models := make([]map[int]int, writers)
	removed := make([]map[int]bool, writers)
	var wg sync.WaitGroup
	for w := 0; w < writers; w++ {
		model := map[int]int{}
		var live []int
		for k := stable; k < entries; k++ {
			if k%writers == w {
				model[k] = k + 7
				live = append(live, k)
			}
		}
		models[w], removed[w] = model, map[int]bool{}
		wg.Add(1)
		go func(w int, model map[int]int, live []int, gone map[int]bool) {
			defer wg.Done()
			defer func() {
				if p := recover(); p != nil {
					f.set("panic", "writer %d: panic: %v", w, p)
				}
			}()
			r := &rng{s: mix(seed, uint64(w)+1)}
			fresh := 1_000_000 * (w + 1)
			val := 1_000_000_000 * (w + 1)
			pos := map[int]int{}
			for i, k := range live {
				pos[k] = i
			}
			drop := func(k int) {
				i := pos[k]
				last := live[len(live)-1]
				live[i] = last
				pos[last] = i
				live = live[:len(live)-1]
				delete(pos, k)
				delete(model, k)
				gone[k] = true
			}
			add := func(k, v int) {
				if _, ok := model[k]; !ok {
					pos[k] = len(live)
					live = append(live, k)
				}
				model[k] = v
				delete(gone, k)
			}
			// observe: what an operation revealed about the key's state before it took effect
			observe := func(op string, k int, obsHas bool, obsVal int, valKnown bool) {
				cur, has := model[k]
				switch {
				case has && (!obsHas || (valKnown && obsVal != cur)):
					f.set("lost-write", "writer %d is the only writer of key %d and its last completed write left (%d,true); a later %s of that key saw (%d,%v)", w, k, cur, op, obsVal, obsHas)
				case !has && obsHas:
					f.set("deleted-key-back", "writer %d is the only writer of key %d and deleted it (or never wrote it); a later %s saw the key present (value reported: %v, %d)", w, k, op, valKnown, obsVal)
				}
			}
			n := 0
			for ; (n < minOps || !stop.Load()) && n < 40*minOps && !f.bad(); n++ {
				before := inShrink.Load()
				var k int
				existing := len(live) > 0 && r.n(10) < 6
				if existing {
					k = live[r.n(len(live))]
				} else if len(gone) > 0 && r.n(3) == 0 {
					for k = range gone { // re-create a key deleted earlier
						break
					}
				} else {
					fresh++
					k = fresh
				}
				_, has := model[k]
				val++
				switch r.n(8) {
				case 0, 1:
					created := m.Set(k, val)
					observe("Set", k, !created, 0, false)
					add(k, val)
				case 2:
					del := m.Delete(k)
					observe("Delete", k, del, 0, false)
					if has {
						drop(k)
					}
				case 3:
					g, del := m.DeleteAndReturn(k)
					observe("DeleteAndReturn", k, del, g, true)
					if has {
						drop(k)
					}
				case 4:
					v := val
					sc, sh := 0, false
					g := m.Compute(k, func(c int, e bool) int { sc, sh = c, e; return v })
					observe("Compute", k, sh, sc, true)
					if g != v {
						f.set("Compute-wrong-return", "Compute(%d) returned %d, its update function returned %d", k, g, v)
					}
					add(k, v)
				case 5:
					v := val
					g, created := m.GetOrCreate(k, func() int { return v })
					observe("GetOrCreate", k, !created, g, !created)
					if created && g != v {
						f.set("GetOrCreate-wrong-return", "GetOrCreate(%d) created the entry but returned %d instead of the factory's %d", k, g, v)
					}
					if !has {
						add(k, v)
					}
				case 6:
					cond := r.n(2) == 1
					del := m.Delete(k, func() bool { return cond })
					if cond {
						observe("Delete", k, del, 0, false)
					} else if del {
						f.set("DeleteCond-ignored-condition", "Delete(%d, condition=false) deleted the key", k)
					}
					if has && cond {
						drop(k)
					}
				default:
					g, ok := m.Get(k)
					observe("Get", k, ok, g, true)
				}
				if before != 0 || inShrink.Load() != 0 {
					duringShrink.Add(1)
				}
				if n%16 == 0 {
					progress.Add(16)
				}
			}
			totalOps.Add(int64(n))
		}(w, model, live, removed[w])
	}
	// reader: snapshots must contain every never-written entry
	var readerStop atomic.Bool
	var rwg sync.WaitGroup
	if variant != "explicit-1writer" {
		rwg.Add(1)
		go func() {
			defer rwg.Done()
			defer func() {
				if p := recover(); p != nil {
					f.set("panic", "reader: panic: %v", p)
				}
			}()
			for i := 0; !readerStop.Load() && !f.bad(); i++ {
				got := map[int]int{}
				kind := [...]string{"AsMap", "ForEach", "Keys", "ForEachKey"}[i%4]
				switch kind {
				case "AsMap":
					got = m.AsMap()
				case "ForEach":
					m.ForEach(func(k, v int) bool { got[k] = v; return true })
				case "Keys":
					for _, k := range m.Keys() {
						got[k] = k + 7
					}
				case "ForEachKey":
					m.ForEachKey(func(k int) bool { got[k] = k + 7; return true })
				}
				for k := 0; k < stable; k++ {
					if v, ok := got[k]; !ok || v != k+7 {
						f.set("snapshot-misses-untouched-entry", "%s snapshot taken while writers/Shrink run lacks entry %d (never written after the fill): (%d,%v)", kind, k, v, ok)
						return
					}
				}
				if s := m.Size(); s < stable {
					f.set("snapshot-misses-untouched-entry", "Size() = %d although %d entries are never deleted", s, stable)
				}
				runtime.Gosched()
			}
		}()
	}
	// shrinker
	for i := 0; i < shrinks && !f.bad(); i++ {
		for at := progress.Load(); progress.Load() < at+64 && totalOps.Load() == 0 && !f.bad(); {
			runtime.Gosched()
		}
		inShrink.Store(1)
		m.Shrink()
		inShrink.Store(0)
	}
	stop.Store(true)
	wg.Wait()
	readerStop.Store(true)
	rwg.Wait()
	c.Count("conc:big_writes", int(totalOps.Load()))
	c.Count("conc:big_writes_during_shrink", int(duringShrink.Load()))
	c.Count("conc:big_explicit_shrinks", shrinks)
	if f.bad() {
		return f.symptom, f.what
	}
	// quiescence: contents == the writers' models + the stable keys
	am := m.AsMap()
	want := map[int]int{}
	for k := 0; k < stable; k++ {
		want[k] = k + 7
	}
	for _, mo := range models {
		for k, v := range mo {
			want[k] = v
		}
	}
	lost, back, exLost, exBack := 0, 0, "", ""
	for k, v := range want {
		if g, ok := am[k]; !ok || g != v {
			if lost == 0 {
				exLost = fmt.Sprintf("key %d: completed write left (%d,true), map has (%d,%v)", k, v, g, ok)
			}
			lost++
		}
	}
	for k, g := range am {
		if _, ok := want[k]; !ok {
			if back == 0 {
				exBack = fmt.Sprintf("key %d was deleted (the Delete returned) or never written, map has value %d", k, g)
			}
			back++
		}
	}
	switch {
	case lost > 0:
		return "lost-write", fmt.Sprintf("at quiescence %d of %d entries do not show the last completed write of their only writer (%s); %d deleted keys are back", lost, len(want), exLost, back)
	case back > 0:
		return "deleted-key-back", fmt.Sprintf("at quiescence %d keys exist that their only writer deleted (%s)", back, exBack)
	}
	if s := m.Size(); s != len(want) {
		return "wrong-Size", fmt.Sprintf("at quiescence Size() = %d, model %d", s, len(want))
	}
	return "", ""
}

// scenSMPop: every entry is added once; Pop hands each one out at most once and nothing vanishes.
func scenSMPop(c *vf.Ctx, variant string, seed uint64, scale int) (string, string) {
	m := shrinkingmap.New[int, int](shrinkingmap.WithShrinkingThresholdRatio(float32(cfgFloat(variant, "ratio", 0))), shrinkingmap.WithShrinkingThresholdCount(cfgInt(variant, "count", 0)))
	pre, per := 4000/scale, 6000/scale
	for k := 0; k < pre; k++ {
		m.Set(k, k+7)
	}
	const adders, poppers = 2, 3
	var f first
	var addersLeft atomic.Int32
	addersLeft.Store(adders)
	var wg sync.WaitGroup
	for a := 0; a < adders; a++ {
		wg.Add(1)
		go func(a int) {
			defer wg.Done()
			defer addersLeft.Add(-1)
			defer func() {
				if p := recover(); p != nil {
					f.set("panic", "adder: panic: %v", p)
				}
			}()
			for i := 0; i < per; i++ {
				k := 1_000_000*(a+1) + i
				if !m.Set(k, k+7) {
					f.set("Set-wrong-return", "Set(%d) of a key that is added exactly once reported 'not created'", k)
				}
				if i%64 == 0 {
					runtime.Gosched()
				}
			}
		}(a)
	}
	popped := make([][]int, poppers)
	for p := 0; p < poppers; p++ {
		wg.Add(1)
		go func(p int) {
			defer wg.Done()
			defer func() {
				if pp := recover(); pp != nil {
					f.set("panic", "popper: panic: %v", pp)
				}
			}()
			for !f.bad() {
				done := addersLeft.Load() == 0
				k, v, ok := m.Pop()
				if !ok {
					if done {
						return
					}
					runtime.Gosched()
					continue
				}
				if v != k+7 {
					f.set("Pop-wrong-value", "Pop() = (%d,%d), the entry was written as (%d,%d)", k, v, k, k+7)
				}
				popped[p] = append(popped[p], k)
			}
		}(p)
	}
	shr := 0
	for addersLeft.Load() > 0 && shr < 200 {
		m.Shrink()
		shr++
		runtime.Gosched()
	}
	wg.Wait()
	if f.bad() {
		return f.symptom, f.what
	}
	seen := map[int]int{}
	total := 0
	for _, l := range popped {
		for _, k := range l {
			seen[k]++
			total++
		}
	}
	c.Count("conc:pop_conserved", total)
	for k, n := range seen {
		if n > 1 {
			return "entry-popped-twice", fmt.Sprintf("entry %d was returned by %d Pop() calls", k, n)
		}
		if !(k >= 0 && k < pre) && !(k >= 1_000_000 && k%1_000_000 < per && k/1_000_000 <= adders) {
			return "Pop-unknown-entry", fmt.Sprintf("Pop() returned key %d that nobody added", k)
		}
	}
	rest := m.AsMap()
	if want := pre + adders*per; len(seen)+len(rest) != want {
		return "entry-lost", fmt.Sprintf("%d entries were added once each; %d were popped and %d remain at quiescence: %d vanished", want, len(seen), len(rest), want-len(seen)-len(rest))
	}
	for k := range rest {
		if seen[k] > 0 {
			return "popped-entry-back", fmt.Sprintf("entry %d was popped and is in the map at quiescence", k)
		}
	}
	return "", ""
}

func scenStack(c *vf.Ctx, _ string, seed uint64, scale int) (string, string) {
	s := stack.New[int](true)
	const pushers, poppers = 3, 3
	per := 4000 / scale
	var f first
	var left atomic.Int32
	left.Store(pushers)
	var wg sync.WaitGroup
	for p := 0; p < pushers; p++ {
		wg.Add(1)
		go func(p int) {
			defer wg.Done()
			defer left.Add(-1)
			for i := 0; i < per; i++ {
				s.Push(1_000_000*(p+1) + i)
				if i%32 == 0 {
					runtime.Gosched()
				}
			}
		}(p)
	}
	popped := make([][]int, poppers)
	for p := 0; p < poppers; p++ {
		wg.Add(1)
		go func(p int) {
			defer wg.Done()
			for {
				done := left.Load() == 0
				v, ok := s.Pop()
				if !ok {
					if done {
						return
					}
					runtime.Gosched()
					continue
				}
				popped[p] = append(popped[p], v)
				if len(popped[p])%8 == 0 {
					if pk, ok := s.Peek(); ok && pk == v {
						f.set("Peek-shows-popped-element", "Peek() = %d after that element was popped (values are unique)", pk)
					}
					if s.Size() < 0 {
						f.set("negative-Size", "Size() < 0")
					}
				}
			}
		}(p)
	}
	wg.Wait()
	if f.bad() {
		return f.symptom, f.what
	}
	seen := map[int]int{}
	for _, l := range popped {
		for _, v := range l {
			seen[v]++
			if seen[v] > 1 {
				return "element-popped-twice", fmt.Sprintf("element %d was returned by two Pop() calls", v)
			}
			if v < 1_000_000 || v%1_000_000 >= per || v/1_000_000 > pushers {
				return "Pop-unknown-element", fmt.Sprintf("Pop() returned %d that nobody pushed", v)
			}
		}
	}
	c.Count("conc:stack_conserved", len(seen))
	if len(seen) != pushers*per || s.Size() != 0 || !s.IsEmpty() {
		return "element-lost", fmt.Sprintf("%d unique elements were pushed, %d popped, Size() = %d at quiescence", pushers*per, len(seen), s.Size())
	}
	return "", ""
}

func scenQueue(c *vf.Ctx, variant string, seed uint64, scale int) (string, string) {
	capacity := cfgInt(variant, "cap", 8)
	q := queue.New[int](capacity)
	const producers, consumers = 3, 2
	per := 4000 / scale
	var f first
	var left atomic.Int32
	left.Store(producers)
	var wg sync.WaitGroup
	accepted := make([][]int, producers)
	evicted := make([][]int, producers)
	for p := 0; p < producers; p++ {
		wg.Add(1)
		go func(p int) {
			defer wg.Done()
			defer left.Add(-1)
			r := &rng{s: mix(seed, uint64(p)+77)}
			for i := 0; i < per; i++ {
				v := 1_000_000*(p+1) + i
				if r.n(3) == 0 {
					old, was := q.ForceOffer(v)
					accepted[p] = append(accepted[p], v)
					if was {
						evicted[p] = append(evicted[p], old)
					}
				} else if q.Offer(v) {
					accepted[p] = append(accepted[p], v)
				}
				if s := q.Size(); s < 0 || s > capacity {
					f.set("Size-out-of-bounds", "Size() = %d with capacity %d", s, capacity)
				}
				if i%16 == 0 {
					runtime.Gosched()
				}
			}
		}(p)
	}
	polled := make([][]int, consumers)
	for cn := 0; cn < consumers; cn++ {
		wg.Add(1)
		go func(cn int) {
			defer wg.Done()
			lastOf := map[int]int{}
			for {
				done := left.Load() == 0
				v, ok := q.Poll()
				if !ok {
					if done {
						return
					}
					runtime.Gosched()
					continue
				}
				polled[cn] = append(polled[cn], v)
				p := v / 1_000_000
				if l, ok := lastOf[p]; ok && l > v {
					f.set("fifo-order-broken", "one consumer polled %d after %d, both offered by the same producer in the opposite order", v, l)
				}
				lastOf[p] = v
			}
		}(cn)
	}
	wg.Wait()
	if f.bad() {
		return f.symptom, f.what
	}
	out := map[int]int{}
	for _, l := range append(polled, evicted...) {
		for _, v := range l {
			out[v]++
			if out[v] > 1 {
				return "element-removed-twice", fmt.Sprintf("element %d left the queue twice (Poll / ForceOffer eviction)", v)
			}
		}
	}
	in := map[int]bool{}
	for _, l := range accepted {
		for _, v := range l {
			in[v] = true
		}
	}
	for v := range out {
		if !in[v] {
			return "unknown-element", fmt.Sprintf("element %d left the queue but no Offer/ForceOffer of it succeeded", v)
		}
	}
	c.Count("conc:queue_conserved", len(out))
	if len(out) != len(in) || q.Size() != 0 {
		return "element-lost", fmt.Sprintf("%d elements were accepted, %d left the queue, Size() = %d at quiescence", len(in), len(out), q.Size())
	}
	return "", ""
}

func scenRing(c *vf.Ctx, variant string, seed uint64, scale int) (string, string) {
	capacity := cfgInt(variant, "cap", 5)
	rb := ringbuffer.NewRingBuffer[int](capacity)
	const adders, readers = 3, 2
	per := 3000 / scale
	var f first
	var left atomic.Int32
	left.Store(adders)
	var wg sync.WaitGroup
	for a := 0; a < adders; a++ {
		wg.Add(1)
		go func(a int) {
			defer wg.Done()
			defer left.Add(-1)
			for i := 0; i < per; i++ {
				rb.Add(1_000_000*(a+1) + i)
				if i%16 == 0 {
					runtime.Gosched()
				}
			}
		}(a)
	}
	var snaps atomic.Int64
	check := func(sl []int, prevLen int) int {
		if len(sl) > capacity || len(sl) < prevLen {
			f.set("snapshot-wrong-length", "ToSlice() has %d elements (capacity %d, an earlier snapshot had %d)", len(sl), capacity, prevLen)
		}
		last := map[int]int{}
		for _, v := range sl {
			a := v / 1_000_000
			if v < 1_000_000 || v%1_000_000 >= per || a > adders {
				f.set("snapshot-unknown-element", "ToSlice() contains %d that nobody added: %v", v, sl)
			}
			if l, ok := last[a]; ok && l <= v {
				f.set("snapshot-order-broken", "ToSlice() (newest first) lists %d before %d, added by one goroutine in the opposite order (or twice): %v", l, v, sl)
			}
			last[a] = v
		}
		return len(sl)
	}
	for rd := 0; rd < readers; rd++ {
		wg.Add(1)
		go func() {
			defer wg.Done()
			prev := 0
			for left.Load() > 0 && !f.bad() {
				prev = check(rb.ToSlice(), prev)
				snaps.Add(1)
				runtime.Gosched()
			}
		}()
	}
	wg.Wait()
	c.Count("conc:ring_snapshots", int(snaps.Load()))
	if f.bad() {
		return f.symptom, f.what
	}
	fin := rb.ToSlice()
	check(fin, capacity)
	if f.bad() {
		return f.symptom, f.what
	}
	// the newest element of at least one adder is its last one, and the buffer is full
	if len(fin) != capacity {
		return "snapshot-wrong-length", fmt.Sprintf("at quiescence ToSlice() has %d elements, capacity %d, %d were added", len(fin), capacity, adders*per)
	}
	if fin[0]%1_000_000 != per-1 {
		return "newest-element-lost", fmt.Sprintf("at quiescence the newest element %d is not the last one any goroutine added", fin[0])
	}
	return "", ""
}

// scenRandomPicks: single-writer keys with stamped Set/Delete; every pick must be an entry that
// can have been present at some instant between the pick's call and return.
func scenRandomPicks(c *vf.Ctx, _ string, seed uint64, scale int) (string, string) {
	m := randommap.New[int, int](shrinkingmap.WithShrinkingThresholdRatio(0), shrinkingmap.WithShrinkingThresholdCount(3))
	const writers, pickers, keysPer, stableKeys = 2, 2, 4, 2
	per := 2500 / scale
	type span struct{ from, to int64 } // possible presence: call of the write that put it .. return of the write that removed it
	const inf = int64(1) << 62
	for k := 0; k < stableKeys; k++ {
		m.Set(900+k, 900+k)
	}
	keySpans := make([]map[int][]span, writers)
	valSpans := make([]map[int]span, writers)
	var left atomic.Int32
	left.Store(writers)
	var f first
	var wg sync.WaitGroup
	for w := 0; w < writers; w++ {
		keySpans[w], valSpans[w] = map[int][]span{}, map[int]span{}
		wg.Add(1)
		go func(w int) {
			defer wg.Done()
			defer left.Add(-1)
			r := &rng{s: mix(seed, uint64(w)+5)}
			cur := map[int]int{} // key -> value
			val := 1_000_000 * (w + 1)
			for i := 0; i < per; i++ {
				k := 100*(w+1) + r.n(keysPer)
				old, has := cur[k]
				call := stamp()
				if r.n(5) < 3 {
					val++
					m.Set(k, val)
					ret := stamp()
					if has {
						sp := valSpans[w][old]
						sp.to = ret
						valSpans[w][old] = sp
					} else {
						keySpans[w][k] = append(keySpans[w][k], span{call, inf})
					}
					valSpans[w][val] = span{call, inf}
					cur[k] = val
				} else {
					g, del := m.Delete(k)
					ret := stamp()
					if del != has || (has && g != old) {
						f.set("Delete-wrong-return", "Delete(%d) = (%d,%v), the key's only writer has (%d,%v)", k, g, del, old, has)
					}
					if has {
						sp := valSpans[w][old]
						sp.to = ret
						valSpans[w][old] = sp
						l := keySpans[w][k]
						l[len(l)-1].to = ret
						delete(cur, k)
					}
				}
				if i%8 == 0 {
					runtime.Gosched()
				}
			}
		}(w)
	}
	type pick struct {
		kind      string
		v         int
		vs        []int
		ok        bool
		call, ret int64
	}
	picks := make([][]pick, pickers)
	for p := 0; p < pickers; p++ {
		wg.Add(1)
		go func(p int) {
			defer wg.Done()
			for i := 0; left.Load() > 0; i++ {
				pk := pick{call: stamp()}
				switch i % 4 {
				case 0, 1:
					pk.kind = "RandomKey"
					pk.v, pk.ok = m.RandomKey()
				case 2:
					pk.kind = "RandomEntry"
					pk.v, pk.ok = m.RandomEntry()
				default:
					pk.kind = "RandomUniqueEntries"
					pk.vs = m.RandomUniqueEntries(3)
					pk.ok = true
				}
				pk.ret = stamp()
				picks[p] = append(picks[p], pk)
				runtime.Gosched()
			}
		}(p)
	}
	wg.Wait()
	if f.bad() {
		return f.symptom, f.what
	}
	keyOK := func(k int, call, ret int64) bool {
		if k >= 900 && k < 900+stableKeys {
			return true
		}
		w := k/100 - 1
		if w < 0 || w >= writers {
			return false
		}
		for _, sp := range keySpans[w][k] {
			if noStamps || (sp.from < ret && call < sp.to) {
				return true
			}
		}
		return false
	}
	valOK := func(v int, call, ret int64) bool {
		if v >= 900 && v < 900+stableKeys {
			return true
		}
		w := v/1_000_000 - 1
		if w < 0 || w >= writers {
			return false
		}
		sp, ok := valSpans[w][v]
		return ok && (noStamps || (sp.from < ret && call < sp.to))
	}
	n := 0
	for _, l := range picks {
		for _, pk := range l {
			n++
			switch {
			case !pk.ok:
				return "pick-from-nonempty-map-failed", fmt.Sprintf("%s() reported an empty map although %d entries are never deleted", pk.kind, stableKeys)
			case pk.kind == "RandomKey" && !keyOK(pk.v, pk.call, pk.ret):
				return "random-pick-non-member", fmt.Sprintf("RandomKey() = %d; that key was not in the map at any instant between the call and the return", pk.v)
			case pk.kind == "RandomEntry" && !valOK(pk.v, pk.call, pk.ret):
				return "random-pick-non-member", fmt.Sprintf("RandomEntry() = %d; that value was not in the map at any instant between the call and the return", pk.v)
			case pk.kind == "RandomUniqueEntries":
				seen := map[int]bool{}
				if len(pk.vs) < stableKeys || len(pk.vs) > 3 {
					return "RandomUniqueEntries-wrong-count", fmt.Sprintf("RandomUniqueEntries(3) returned %d entries; the map always holds between %d and %d", len(pk.vs), stableKeys, stableKeys+writers*keysPer)
				}
				for _, v := range pk.vs {
					if seen[v] || !valOK(v, pk.call, pk.ret) {
						return "random-pick-non-member", fmt.Sprintf("RandomUniqueEntries(3) = %v: %d is a duplicate or was not in the map at any instant between the call and the return", pk.vs, v)
					}
					seen[v] = true
				}
			}
		}
	}
	c.Count("conc:random_picks_checked", n)
	return "", ""
}

// scenSubMgr: every goroutine drives its own client id against shared topics; a client's state
// depends on its own operations only, so returns and the quiescent state are determined.
func scenSubMgr(c *vf.Ctx, variant string, seed uint64, scale int) (string, string) {
	limit := cfgInt(variant, "limit", 0)
	m := subscriptionmanager.New(subscriptionmanager.WithMaxTopicSubscriptionsPerClient[int, int](limit),
		subscriptionmanager.WithCleanupThresholdCount[int, int](2), subscriptionmanager.WithCleanupThresholdRatio[int, int](0.5))
	var ev smgrEvents
	hookSmgr(m, &ev)
	per := 1500 / scale
	var f first
	finals := make([]smgrState, smgrMaxC)
	var wg sync.WaitGroup
	for cl := 0; cl < smgrMaxC; cl++ {
		wg.Add(1)
		go func(cl int) {
			defer wg.Done()
			defer func() {
				if p := recover(); p != nil {
					f.set("panic", "client %d: panic: %v", cl, p)
				}
			}()
			r := &rng{s: mix(seed, uint64(cl)+31)}
			var s smgrState
			ops := []wop{{"Connect", 3}, {"Disconnect", 1}, {"Subscribe", 12}, {"Unsubscribe", 8}}
			for i := 0; i < per && !f.bad(); i++ {
				op, t := pickOp(r, ops), r.n(smgrMaxT)
				var want, got bool
				s, want = smgrApply(s, limit, op, cl, t)
				switch op {
				case "Connect":
					m.Connect(cl)
					got = want
				case "Disconnect":
					got = m.Disconnect(cl)
				case "Subscribe":
					got = m.Subscribe(cl, t)
				case "Unsubscribe":
					got = m.Unsubscribe(cl, t)
				}
				if got != want {
					f.set(op+"-wrong-return", "client %d (driven by one goroutine only): %s(topic %d) = %v, its model says %v", cl, op, t, got, want)
				}
				for tt := 0; tt < smgrMaxT; tt++ {
					if s.cnt[cl][tt] > 0 && i%4 == 0 {
						if !m.TopicHasSubscribers(tt) {
							f.set("held-topic-has-no-subscribers", "client %d holds %d subscriptions of topic %d but TopicHasSubscribers = false", cl, s.cnt[cl][tt], tt)
						}
						if !m.ClientSubscribedToTopic(cl, tt) {
							f.set("own-subscription-invisible", "client %d holds topic %d but ClientSubscribedToTopic = false", cl, tt)
						}
					}
				}
				if i%8 == 0 {
					runtime.Gosched()
				}
			}
			finals[cl] = s
		}(cl)
	}
	wg.Wait()
	if f.bad() {
		return f.symptom, f.what
	}
	if sy, wh := foldSmgr(m, &ev, smgrMaxC, smgrMaxT); sy != "" {
		return sy, wh
	}
	var s smgrState
	for cl := 0; cl < smgrMaxC; cl++ {
		s.conn[cl], s.cnt[cl] = finals[cl].conn[cl], finals[cl].cnt[cl]
	}
	all := 0
	for cl := 0; cl < smgrMaxC; cl++ {
		all += s.distinct(cl)
		for t := 0; t < smgrMaxT; t++ {
			if g := m.ClientSubscribedToTopic(cl, t); g != (s.cnt[cl][t] > 0) {
				return "quiescent-state-differs", fmt.Sprintf("client %d topic %d: ClientSubscribedToTopic = %v, the client's own history leaves count %d", cl, t, g, s.cnt[cl][t])
			}
		}
	}
	if g := m.TopicsSizeAll(); g != all {
		return "topic-count-not-sum-of-clients", fmt.Sprintf("TopicsSizeAll() = %d, sum over clients = %d", g, all)
	}
	// global per-topic count == sum over clients: release them one by one
	released := 0
	for t := 0; t < smgrMaxT; t++ {
		left := s.sum(t)
		if g := m.TopicHasSubscribers(t); g != (left > 0) {
			return "topic-count-not-sum-of-clients", fmt.Sprintf("topic %d: TopicHasSubscribers = %v, the clients hold %d subscriptions", t, g, left)
		}
		for cl := 0; cl < smgrMaxC; cl++ {
			for s.cnt[cl][t] > 0 {
				if !m.Unsubscribe(cl, t) {
					return "topic-count-not-sum-of-clients", fmt.Sprintf("Unsubscribe(%d,%d) refused although the client holds %d", cl, t, s.cnt[cl][t])
				}
				s.cnt[cl][t]--
				left--
				released++
				if g := m.TopicHasSubscribers(t); g != (left > 0) {
					return "topic-count-not-sum-of-clients", fmt.Sprintf("topic %d: after releasing down to %d remaining subscriptions TopicHasSubscribers = %v", t, left, g)
				}
			}
		}
	}
	c.Count("conc:submgr_released_at_quiescence", released)
	if sy, wh := foldSmgr(m, &ev, smgrMaxC, smgrMaxT); sy != "" {
		return sy, wh
	}
	return "", ""
}

func runScenarios(c *vf.Ctx, skip map[string]bool, race bool) {
	rounds, scale := c.Pick(2, 12), 1
	if race {
		rounds, scale = c.Pick(1, 4), 4
	}
	for _, sc := range scenarios {
		if skip["scenario:"+sc.name] {
			continue
		}
		c.Mark("scenario:" + sc.name)
		base := c.Rand("c12/conc/scenario/" + sc.name).Uint64()
		for i := 0; i < rounds*len(sc.variants); i++ {
			variant := sc.variants[i%len(sc.variants)]
			seed := mix(base, uint64(i))
			noStamps = race && (i/len(sc.variants))%2 == 1
			sy, wh := sc.run(c, variant, seed, scale)
			noStamps = false
			c.Count("conc:scenario_rounds", 1)
			c.Count("conc:scenario_rounds:"+sc.name, 1)
			if sy != "" {
				what := fmt.Sprintf("scenario %s [%s]: %s", sc.name, variant, wh)
				c.Violation("conc/"+sc.name+"/"+sy, what, concRec("scenario:"+sc.name, variant, seed, nil, what))
				break
			}
		}
	}
}

// ------------------------------------------------------------------ child / parent

// child modes: "conc" <plain|race> <skip,skip,...>  |  "conc-one" <def> <cfg> <seed> <n>
func child(c *vf.Ctx) {
	if discChild(c) {
		return
	}
	switch c.Child {
	case "conc":
		race := len(c.ChildArgs) > 0 && c.ChildArgs[0] == "race"
		skip := map[string]bool{}
		if len(c.ChildArgs) > 1 {
			for _, s := range strings.Split(c.ChildArgs[1], ",") {
				skip[s] = true
			}
		}
		n := concN(c, race)
		for _, d := range concDefs {
			if skip[d.name] {
				continue
			}
			c.Mark(d.name)
			concHistories(c, d, n, race)
			c.FlushStats()
		}
		runScenarios(c, skip, race)
	case "conc-one":
		if len(c.ChildArgs) < 4 {
			return
		}
		name, cfg := c.ChildArgs[0], c.ChildArgs[1]
		seed, _ := strconv.ParseUint(c.ChildArgs[2], 10, 64)
		n, _ := strconv.Atoi(c.ChildArgs[3])
		c.Mark(name)
		if strings.HasPrefix(name, "scenario:") {
			for _, sc := range scenarios {
				if "scenario:"+sc.name != name {
					continue
				}
				for i := 0; i < n; i++ {
					s := seed
					if i > 0 {
						s = mix(seed, uint64(i))
					}
					if sy, wh := sc.run(c, cfg, s, 1); sy != "" {
						what := fmt.Sprintf("scenario %s [%s]: %s", sc.name, cfg, wh)
						c.Violation("conc/"+sc.name+"/"+sy, what, concRec(name, cfg, seed, nil, what))
						return
					}
				}
			}
			return
		}
		for _, d := range concDefs {
			if d.name != name {
				continue
			}
			for i := 0; i < n; i++ {
				s := seed
				if i > 0 {
					s = mix(seed, uint64(i))
				}
				if !judgeConcHistory(c, d, cfg, s, runConcHistory(d, cfg, s), false, true) {
					return
				}
			}
		}
	}
}

// concN: histories per definition and child.
func concN(c *vf.Ctx, race bool) int {
	if race {
		return c.Pick(240, 2500)
	}
	return c.Pick(900, 12000)
}

func overlapScale() float64 {
	n := runtime.NumCPU()
	if n > 4 {
		n = 4
	}
	return float64(n) / 4
}

func concPart(c *vf.Ctx) {
	timeout := time.Duration(c.Pick(4, 25)) * time.Minute
	skip := []string{} // definitions that killed or dead-locked a child are not run again (the -race build has no dead-lock detector)
	for _, mode := range []string{"plain", "race"} {
		for attempt := 0; attempt < 24; attempt++ {
			res := c.RunChild(vf.ChildOpts{Name: "conc", Race: mode == "race", Args: []string{mode, strings.Join(skip, ",")}, Timeout: timeout})
			if mode == "race" {
				concReportRaces(c, res.Races)
			}
			died := res.ExitCode != 0 && !(mode == "race" && res.ExitCode == 66 && res.Fatal == "")
			switch {
			case res.TimedOut:
				c.Inconclusive(fmt.Sprintf("conc %s child: watchdog fired while running %q (stderr %s)", mode, res.LastMark, res.StderrPath))
				died = false
			case res.Deadlock:
				what := fmt.Sprintf("conc %s child: the Go runtime reported a global dead-lock while %q ran: every client goroutine is parked inside the container", mode, res.LastMark)
				c.Violation("conc/"+strings.TrimPrefix(res.LastMark, "scenario:")+"/deadlock", what, concRec(res.LastMark, "", 0, nil, what))
			case died:
				what := fmt.Sprintf("conc %s child died (exit %d, %s) while %q ran", mode, res.ExitCode, res.Fatal, res.LastMark)
				c.Violation("conc/"+strings.TrimPrefix(res.LastMark, "scenario:")+"/process-died", what, concRec(res.LastMark, "", 0, nil, what))
			}
			if !(died || res.Deadlock) || res.LastMark == "" {
				break
			}
			skip = append(skip, res.LastMark)
		}
	}
	ndefs := len(concDefs)
	c.Require("conc:histories", ndefs*(concN(c, false)+concN(c, true)))
	c.Require("conc:porcupine_ok", ndefs*concN(c, false)*9/10)
	c.Require("conc:overlapping_pairs", int(float64(c.Pick(15000, 200000))*overlapScale())+1)
	c.Require("conc_shapes", int(float64(c.Pick(1000, 12000))*overlapScale())+1)
	c.Require("conc:scenario_rounds", len(scenarios))
	c.Require("conc:big_writes_during_shrink", int(20*overlapScale())+1)
	c.Assume("conc: the Go race detector and the porcupine checker are correct; a history whose check times out is counted as unknown, not as a violation")
}

// concReportRaces keys a report by the innermost hive.go function (receiver and method, type
// parameters stripped) of each of the two access stacks. An access made by harness code inside a
// callback is attributed to the library function that invoked the callback. A report counts for
// C12 when both access stacks pass through one of the containers' packages.
func concReportRaces(c *vf.Ctx, rs []vf.RaceReport) {
	seen := map[string]bool{}
	strip := func(fn string) string {
		fn = strings.TrimPrefix(fn, "github.com/iotaledger/hive.go/")
		for {
			i := strings.IndexByte(fn, '[')
			if i < 0 {
				return fn
			}
			depth, j := 0, i
			for ; j < len(fn); j++ {
				if fn[j] == '[' {
					depth++
				} else if fn[j] == ']' {
					depth--
					if depth == 0 {
						break
					}
				}
			}
			if j >= len(fn) {
				return fn[:i]
			}
			fn = fn[:i] + fn[j+1:]
		}
	}
	for _, r := range rs {
		c.Count("conc:race_reports", 1)
		var fns []string
		inside := 0
		for i, st := range r.Stacks {
			if i >= 2 {
				break
			}
			for _, fn := range st {
				if !strings.Contains(fn, "iotaledger/hive.go/") {
					continue
				}
				fns = append(fns, strip(fn))
				break
			}
			for _, fn := range st {
				hit := false
				for _, p := range concPkgs {
					hit = hit || strings.Contains(fn, p)
				}
				if hit {
					inside++
					break
				}
			}
		}
		sort.Strings(fns)
		key := strings.Join(fns, " <-> ")
		if inside < 2 || len(fns) == 0 {
			c.Count("conc:race_reports_outside", 1)
			c.Note("race not attributed to the C12 containers: " + key)
			continue
		}
		if seen[key] {
			continue
		}
		seen[key] = true
		txt := r.Text
		if len(txt) > 6000 {
			txt = txt[:6000]
		}
		c.Violation("race:"+key, "data race inside a self-synchronising container: "+key, histRec{Container: "conc", Config: "race", What: txt})
	}
}

func concReplayRun(c *vf.Ctx, r *concReplay) {
	if r.Def == "" {
		fmt.Fprintln(os.Stderr, "replay file carries no conc definition (race report or process death): re-run the check")
		return
	}
	res := c.RunChild(vf.ChildOpts{Name: "conc-one", Args: []string{r.Def, r.Cfg, strconv.FormatUint(r.Seed, 10), "400"}, Timeout: 10 * time.Minute})
	if res.Deadlock || (res.ExitCode != 0 && !res.TimedOut) {
		what := fmt.Sprintf("conc replay child died (exit %d, %s) while %q ran", res.ExitCode, res.Fatal, res.LastMark)
		c.Violation("conc/"+strings.TrimPrefix(r.Def, "scenario:")+"/process-died", what, concRec(r.Def, r.Cfg, r.Seed, nil, what))
	}
}
